(* Json/Proofs.v — invariant of the JSON parser model and the per-call master lemma (totality, progress,
   units are slices, error offsets in range, stack discipline).  The trace-level theorems are in
   Json/Trace.v, the acceptance theorem in Json/Accept.v. *)
From Coq Require Import ZifyBool.
From Verif Require Import Common.Base Common.Tactics Common.Lx Json.Model Json.Lex Json.Spec.

(* ---------------------------------------------------------------------------------------------- *)
(* the state stack: containers above a single Value at the bottom *)

Definition is_cont (s : Z) : Prop := s = S_ObjectKey \/ s = S_ObjectValue \/ s = S_Array.

Definition stack_ok (st : list Z) : Prop :=
  exists cs, st = cs ++ [S_Value] /\ Forall is_cont cs.

Lemma stack_ok_init : stack_ok [S_Value].
Proof. exists []. split; [reflexivity|constructor]. Qed.

Lemma stack_ok_cases st : stack_ok st ->
  st = [S_Value] \/ exists s t, st = s :: t /\ is_cont s /\ stack_ok t.
Proof.
  intros (cs & -> & Hc). destruct cs as [|s cs]; [left; reflexivity|right].
  inversion Hc; subst. exists s, (cs ++ [S_Value]). split; [reflexivity|]. split; [assumption|].
  exists cs. auto.
Qed.

Lemma stack_ok_push st s : stack_ok st -> is_cont s -> stack_ok (s :: st).
Proof. intros (cs & -> & Hc) Hs. exists (s :: cs). split; [reflexivity|constructor; assumption]. Qed.

Lemma stack_ok_valfix st : stack_ok st -> stack_ok (valfix st).
Proof.
  intros H. destruct (stack_ok_cases st H) as [->|(s & t & -> & Hs & Ht)]; [exact H|].
  cbn [valfix]. apply stack_ok_push; [exact Ht|].
  unfold is_cont, S_ObjectKey, S_ObjectValue, S_Array in *.
  destruct (s =? 2) eqn:E; lia.
Qed.

Lemma stack_ok_top st : stack_ok st -> exists s, top st = Some s /\ 0 <= s <= 3.
Proof.
  intros H. destruct (stack_ok_cases st H) as [->|(s & t & -> & Hs & Ht)].
  - exists 0. split; [reflexivity|lia].
  - exists s. split; [reflexivity|]. unfold is_cont, S_ObjectKey, S_ObjectValue, S_Array in Hs. lia.
Qed.

Lemma stack_ok_nonempty st : stack_ok st -> st <> [].
Proof. intros (cs & -> & _). destruct cs; discriminate. Qed.

(* popping a container: never reaches the bottom element *)
Lemma pop_fix_ok st s : stack_ok st -> top st = Some s -> s <> S_Value ->
  exists t, st = s :: t /\ stack_ok t /\ pop_fix st = Some (valfix t).
Proof.
  intros H Ht Hs. destruct (stack_ok_cases st H) as [->|(s' & t & -> & Hs' & Hok)].
  - cbn in Ht. congruence.
  - cbn in Ht. inversion Ht; subst s'. exists t. split; [reflexivity|]. split; [exact Hok|].
    cbn [pop_fix]. pose proof (stack_ok_nonempty t Hok) as Hne.
    destruct t as [|s2 t2]; [congruence|]. reflexivity.
Qed.

(* how one call may change the stack, as a function of the GrammarType returned *)
Inductive st_rel : list Z -> Z -> list Z -> Prop :=
| sr_start_obj st : top st <> Some S_ObjectKey -> st_rel st G_StartObject (S_ObjectKey :: st)
| sr_start_arr st : top st <> Some S_ObjectKey -> st_rel st G_StartArray (S_Array :: st)
| sr_end_obj st : st_rel (S_ObjectKey :: st) G_EndObject (valfix st)
| sr_end_arr st : st_rel (S_Array :: st) G_EndArray (valfix st)
| sr_key st : st_rel (S_ObjectKey :: st) G_String (S_ObjectValue :: st)
| sr_val st g s : g = G_Literal \/ g = G_Number \/ g = G_String -> s <> S_ObjectKey ->
                  st_rel (s :: st) g (valfix (s :: st))
| sr_err st : st_rel st G_Error st.

(* ---------------------------------------------------------------------------------------------- *)
(* parser invariant, relative to the input d *)

Definition json_inv (d : list Z) (p : parser) : Prop :=
  exists a tok s, d = a ++ tok ++ s /\ cur3 (pz p) a tok s /\ stack_ok (pst p) /\ err_in_range d (perr p).

Lemma json_inv_init d : json_inv d (json_init d).
Proof.
  exists [], [], d. split; [reflexivity|]. split; [apply cur3_init|]. split; [apply stack_ok_init|exact I].
Qed.

Lemma json_inv_init_failed e : json_inv [] (json_init_failed e).
Proof.
  exists [], [], []. split; [reflexivity|]. split; [apply cur3_init|]. split; [apply stack_ok_init|exact I].
Qed.

(* what one call of Next guarantees; pos0 is the cursor offset before the call *)
(* after a unit that completes a value (a scalar value, or an End) a separator or closer must follow *)
Definition completes_value (g : Z) (st' : list Z) : Prop :=
  g = G_Literal \/ g = G_Number \/ g = G_EndObject \/ g = G_EndArray \/
  (g = G_String /\ top st' <> Some S_ObjectValue).

(* whitespace runs; the exact shape of a unit; where a unit ends *)
Definition wsl (w : list Z) : Prop := Forall (fun c => is_ws c = true) w.

Definition tok_ok (g : Z) (b : list Z) : Prop :=
  (g = G_StartObject /\ b = [123]) \/ (g = G_EndObject /\ b = [125]) \/
  (g = G_StartArray /\ b = [91]) \/ (g = G_EndArray /\ b = [93]) \/
  (g = G_Number /\ exists s r, num_split s = Some (b, r)) \/
  (g = G_Literal /\ (b = TRUE \/ b = FALSE \/ b = NULL)) \/
  (g = G_String /\ exists body, b = 34 :: body ++ [34] /\ Forall (fun c => c <> 0) body).

(* a unit ends at the cursor, except a key: the call also consumes whitespace and the colon after it *)
Definition unit_end (d : list Z) (p' : parser) (g lo : Z) (b : list Z) : Prop :=
  lo + len b = lpos (pz p') \/
  (g = G_String /\ top (pst p') = Some S_ObjectValue /\
   exists w2, wsl w2 /\ slice d (lo + len b) (lpos (pz p')) = w2 ++ [58]).

(* G g lo: what is known about the start lo of a unit of type g (instantiated in next_ok with the description
   of the bytes between the old cursor and lo) *)
Definition step_okG (d : list Z) (pos0 : Z) (G : Z -> Z -> Prop) (p : parser) (r : option (unit_ * parser)) : Prop :=
  exists u p', r = Some (u, p') /\ json_inv d p' /\ prd p' = prd p /\ pos0 <= lpos (pz p') /\
    st_rel (pst p) (fst u) (pst p') /\
    match snd u with
    | None => fst u = G_Error /\
              (perr p' = Some (lpos (pz p')) \/
               (* the end-of-input report: nothing is recorded, the parser is not in key position *)
               (perr p' = perr p /\ top (pst p') <> Some S_ObjectKey /\
                (prd p <> 0 \/ lpos (pz p') = len d))) /\
              (* an error call that does not move the cursor can only set needComma *)
              (lpos (pz p') = pos0 -> pneed p' = pneed p \/ pneed p' = true)
    | Some (lo, b) => fst u <> G_Error /\ b <> [] /\ pos0 <= lo /\ b = slice d lo (lo + len b) /\
                      lo + len b <= lpos (pz p') /\ perr p' = perr p /\ lstart (pz p') = lpos (pz p') /\
                      (completes_value (fst u) (pst p') -> pneed p' = true) /\
                      tok_ok (fst u) b /\ G (fst u) lo /\ unit_end d p' (fst u) lo b
    end.

(* the bytes between the cursor before the call (pos0) and the start of the unit: whitespace - and then a unit
   other than a closer requires needComma to be false - or whitespace , whitespace inside an array or in key
   position *)
Definition gapG (d : list Z) (pos0 : Z) (p : parser) (g lo : Z) : Prop :=
  exists lead, slice d pos0 lo = lead /\ lo = pos0 + len lead /\
    ((wsl lead /\ (pneed p = true -> g = G_EndObject \/ g = G_EndArray)) \/
     (exists w w', lead = w ++ 44 :: w' /\ wsl w /\ wsl w' /\
                   (top (pst p) = Some S_Array \/ top (pst p) = Some S_ObjectKey))).

Definition step_ok (d : list Z) (pos0 : Z) (p : parser) (r : option (unit_ * parser)) : Prop :=
  step_okG d pos0 (gapG d pos0 p) p r.

Lemma len_app3_le (a tok s : list Z) : 0 <= len a + len tok <= len (a ++ tok ++ s).
Proof.
  rewrite !len_app. pose proof (len_nonneg a). pose proof (len_nonneg tok). pose proof (len_nonneg s). lia.
Qed.

Lemma fail_ok d pos0 (G : Z -> Z -> Prop) p z a tok s st need :
  cur3 z a tok s -> d = a ++ tok ++ s -> stack_ok st -> pos0 <= lpos z ->
  st_rel (pst p) G_Error st ->
  need = pneed p \/ need = true \/ pos0 < len a ->
  step_okG d pos0 G p (fail_at p z st need).
Proof.
  intros Hc Hd Hst Hpos Hrel Hnm. unfold step_okG, fail_at.
  eexists _, _. split; [reflexivity|]. cbn [pz pst perr prd pneed fst snd].
  split.
  { exists a, tok, s. cbn [pz pst perr]. split; [exact Hd|]. split; [exact Hc|]. split; [exact Hst|].
    unfold err_in_range. rewrite (cur3_lpos _ _ _ _ Hc). subst d. apply len_app3_le. }
  split; [reflexivity|]. split; [exact Hpos|]. split; [exact Hrel|].
  split; [reflexivity|]. split; [left; reflexivity|].
  intros Hq. rewrite (cur3_lpos _ _ _ _ Hc) in Hq. pose proof (len_nonneg tok).
  destruct Hnm as [H1|[H1|H1]]; [left; exact H1|right; exact H1|lia].
Qed.

Lemma emit_ok d pos0 (G : Z -> Z -> Prop) p g z a tok s st need :
  cur3 z a tok s -> tok <> [] -> d = a ++ tok ++ s -> stack_ok st -> pos0 <= len a ->
  g <> G_Error -> st_rel (pst p) g st -> err_in_range d (perr p) ->
  (completes_value g st -> need = true) -> tok_ok g tok -> G g (len a) ->
  step_okG d pos0 G p (emit p g z st need).
Proof.
  intros Hc Htok Hd Hst Hpos Hg Hrel Herr Hneed Htk HG. unfold step_okG, emit.
  rewrite (cur3_shift _ _ _ _ Hc). cbn [option_bind fst snd].
  pose proof (cur3_skip _ _ _ _ Hc) as Hsk.
  eexists _, _. split; [reflexivity|]. cbn [pz pst perr prd fst snd].
  pose proof (len_nonneg tok) as Hl.
  split.
  { exists (a ++ tok), [], s. cbn [pz pst perr]. split; [|split; [exact Hsk|split; [exact Hst|exact Herr]]].
    subst d. rewrite <- app_assoc. reflexivity. }
  split; [reflexivity|].
  split. { rewrite (cur3_lpos _ _ _ _ Hsk). rewrite len_app, len_nil. lia. }
  split; [exact Hrel|].
  rewrite (cur3_lstart _ _ _ _ Hc).
  split; [exact Hg|]. split; [exact Htok|]. split; [exact Hpos|].
  split. { subst d. rewrite slice_mid. reflexivity. }
  split. { rewrite (cur3_lpos _ _ _ _ Hsk). rewrite len_app, len_nil. lia. }
  split; [reflexivity|].
  split. { rewrite (cur3_lpos _ _ _ _ Hsk), (cur3_lstart _ _ _ _ Hsk). rewrite len_nil. lia. }
  split; [exact Hneed|]. split; [exact Htk|]. split; [exact HG|].
  unfold unit_end. cbn [pz]. left. rewrite (cur3_lpos _ _ _ _ Hsk). rewrite len_app, len_nil. lia.
Qed.

(* shapes produced by the string loop *)
Lemma str_split_true_shape t : forall revlex, fst (str_split revlex t) = true ->
  exists body, fst (snd (str_split revlex t)) = body ++ [34] /\ Forall (fun c => c <> 0) body.
Proof.
  induction t as [|c t IH]; intros revlex H; cbn [str_split] in *; [discriminate|].
  destruct (c =? 34) eqn:E34.
  - destruct (esc_parity revlex false); cbn [fst snd] in *.
    + destruct (IH _ H) as (body & E & Hf). exists (c :: body). rewrite E. split; [reflexivity|].
      constructor; [lia|exact Hf].
    + exists []. split; [cbn; f_equal; lia|constructor].
  - destruct (c =? 0) eqn:E0; cbn [fst snd] in *; [discriminate|].
    destruct (IH _ H) as (body & E & Hf). exists (c :: body). rewrite E. split; [reflexivity|].
    constructor; [lia|exact Hf].
Qed.

Lemma str_split_false_hd t : forall revlex, fst (str_split revlex t) = false ->
  hd0 (snd (snd (str_split revlex t))) = 0.
Proof.
  induction t as [|c t IH]; intros revlex H; cbn [str_split] in *; [reflexivity|].
  destruct (c =? 34) eqn:E34.
  - destruct (esc_parity revlex false); cbn [fst snd] in *; [apply IH; exact H|discriminate].
  - destruct (c =? 0) eqn:E0; cbn [fst snd] in *; [cbn [hd0]; lia|apply IH; exact H].
Qed.

Lemma num_split_hd s x r : num_split s = Some (x, r) -> hd0 s <> 0.
Proof.
  unfold num_split. destruct s as [|c t]; cbn [sign_split int_split]; [discriminate|].
  destruct (c =? 45) eqn:E; [cbn [hd0]; lia|]. cbn [int_split]. unfold d19.
  destruct ((49 <=? c) && (c <=? 57)) eqn:E1; [cbn [hd0]; lia|].
  destruct (negb (c =? 48)) eqn:E2; [discriminate|]. cbn [hd0]. lia.
Qed.

Lemma lit_split_hd s x r : lit_split s = Some (x, r) -> hd0 s <> 0.
Proof.
  intros H. destruct (lit_split_app _ _ _ H) as [-> [->|[->| ->]]]; cbn; lia.
Qed.

Lemma hd0_cons_inv s c : hd0 s = c -> c <> 0 -> exists t, s = c :: t.
Proof. destruct s as [|x t]; cbn [hd0]; intros H Hc; [congruence|]. exists t. congruence. Qed.

(* --- the ObjectKey block ---------------------------------------------------------------------- *)
Lemma next_key_ok d pos0 (G : Z -> Z -> Prop) p z2 a s2 need st0 :
  cur3 z2 a [] s2 -> d = a ++ s2 -> pst p = S_ObjectKey :: st0 -> stack_ok (pst p) -> pos0 <= len a ->
  err_in_range d (perr p) -> need = pneed p \/ pos0 < len a -> (hd0 s2 = 34 -> G G_String (len a)) ->
  step_okG d pos0 G p (next_key p z2 (hd0 s2) need).
Proof.
  intros H2 Hd Hst Hok Hpos Herr Hnd HG.
  assert (Hnm : need = pneed p \/ need = true \/ pos0 < len a) by (destruct Hnd; auto).
  unfold next_key.
  destruct (negb (hd0 s2 =? 34)) eqn:E34.
  { eapply fail_ok; [exact H2|rewrite Hd; reflexivity|exact Hok| |apply sr_err|exact Hnm].
    rewrite (cur3_lpos _ _ _ _ H2). rewrite len_nil. lia. }
  apply negb_false_iff in E34. apply Z.eqb_eq in E34.
  destruct (hd0_cons_inv s2 34 E34 ltac:(lia)) as (t & ->).
  destruct (consume_string_spec z2 a [] 34 t H2) as (z3 & Hcs & H3). cbn [app] in *.
  set (r := str_split (rev [34]) t) in *.
  rewrite Hcs. cbn [option_bind fst snd].
  pose proof (str_split_app t (rev [34])) as Happ. fold r in Happ.
  destruct (fst r) eqn:Efr.
  2:{ cbn [negb]. eapply fail_ok; [exact H3| |exact Hok| |apply sr_err|exact Hnm].
      - rewrite Hd. cbn [app]. rewrite Happ. reflexivity.
      - rewrite (cur3_lpos _ _ _ _ H3). pose proof (len_nonneg (34 :: fst (snd r))). lia. }
  cbn [negb].
  set (x := fst (snd r)) in *. set (s3 := snd (snd r)) in *.
  destruct (move_ws_spec z3 a _ s3 H3) as (z4 & Hws & H4). rewrite Hws. cbn [option_bind].
  set (w := takew is_ws s3) in *. set (s4 := dropw is_ws s3) in *.
  assert (Hd4 : d = a ++ ((34 :: x) ++ w) ++ s4).
  { rewrite Hd. f_equal. rewrite <- app_assoc. cbn [app]. f_equal. rewrite <- Happ. f_equal.
    unfold w, s4. rewrite takew_dropw. reflexivity. }
  rewrite (cur3_pk0 _ _ _ _ H4). cbn [option_bind].
  destruct (negb (hd0 s4 =? 58)) eqn:E58.
  { eapply fail_ok; [exact H4|exact Hd4|exact Hok| |apply sr_err|exact Hnm].
    rewrite (cur3_lpos _ _ _ _ H4). pose proof (len_nonneg ((34 :: x) ++ w)). lia. }
  apply negb_false_iff in E58. apply Z.eqb_eq in E58.
  destruct (hd0_cons_inv s4 58 E58 ltac:(lia)) as (s5 & Hs5).
  rewrite Hs5 in H4. pose proof (cur3_mv1 _ _ _ _ _ H4) as H5.
  rewrite Hst. cbn [set_top option_bind].
  rewrite (cur3_shift _ _ _ _ H5). cbn [option_bind fst snd].
  rewrite (cur3_mark _ _ _ _ H3).
  assert (Hn : slice_ok 0 (len (34 :: x)) (len (((34 :: x) ++ w) ++ [58])) = true).
  { unfold slice_ok. rewrite !len_app. pose proof (len_nonneg (34 :: x)). pose proof (len_nonneg w).
    change (len [58]) with 1. lia. }
  rewrite Hn.
  assert (Hf : firstz (len (34 :: x)) (((34 :: x) ++ w) ++ [58]) = 34 :: x).
  { rewrite <- app_assoc. apply firstz_app_len. }
  rewrite Hf.
  pose proof (cur3_skip _ _ _ _ H5) as H6.
  assert (Hshape : exists body, x = body ++ [34] /\ Forall (fun c => c <> 0) body).
  { apply (str_split_true_shape t (rev [34])). fold r. exact Efr. }
  unfold step_okG. eexists _, _. split; [reflexivity|]. cbn [pz pst perr prd fst snd].
  split.
  { exists (a ++ ((34 :: x) ++ w) ++ [58]), [], s5. cbn [pz pst perr].
    split; [|split; [exact H6|split; [|exact Herr]]].
    - rewrite Hd4, Hs5. rewrite <- !app_assoc. reflexivity.
    - rewrite Hst in Hok. apply stack_ok_push; [|right; left; reflexivity].
      destruct (stack_ok_cases _ Hok) as [Hbad|(s' & t' & Heq & _ & Ht')]; [discriminate|].
      injection Heq as _ ->. exact Ht'. }
  split; [reflexivity|].
  pose proof (len_nonneg (((34 :: x) ++ w) ++ [58])) as Hl5.
  split. { rewrite (cur3_lpos _ _ _ _ H6). rewrite len_app, len_nil. lia. }
  split. { rewrite Hst. apply sr_key. }
  rewrite (cur3_lstart _ _ _ _ H5).
  split; [discriminate|]. split; [discriminate|]. split; [exact Hpos|].
  split. { rewrite Hd4. rewrite <- !app_assoc. rewrite slice_mid. reflexivity. }
  split. { rewrite (cur3_lpos _ _ _ _ H6). rewrite !len_app, len_nil. pose proof (len_nonneg w).
           change (len [58]) with 1. lia. }
  split; [reflexivity|].
  split. { rewrite (cur3_lpos _ _ _ _ H6), (cur3_lstart _ _ _ _ H6). rewrite len_nil. lia. }
  split.
  { unfold completes_value, G_String, G_Literal, G_Number, G_EndObject, G_EndArray. cbn [top].
    intros [Hq|[Hq|[Hq|[Hq|[_ Hq]]]]]; try discriminate. congruence. }
  split.
  { do 6 right. split; [reflexivity|]. destruct Hshape as (body & Hxb & Hnz). exists body. rewrite Hxb. auto. }
  split; [apply HG; reflexivity|].
  unfold unit_end. cbn [pz pst top]. right. split; [reflexivity|]. split; [reflexivity|]. exists w. split; [apply takew_all|].
  rewrite (cur3_lpos _ _ _ _ H6). rewrite Hd4, Hs5. rewrite len_nil.
  replace (a ++ ((34 :: x) ++ w) ++ 58 :: s5) with (a ++ (34 :: x) ++ (w ++ [58]) ++ s5)
    by (rewrite <- !app_assoc; reflexivity).
  replace (len (a ++ ((34 :: x) ++ w) ++ [58]) + 0) with ((len a + len (34 :: x)) + len (w ++ [58]))
    by (rewrite !len_app; lia).
  rewrite app_assoc. rewrite <- len_app. apply slice_mid.
Qed.

(* --- the value block --------------------------------------------------------------------------- *)
Lemma emit_value_ok d pos0 (G : Z -> Z -> Prop) p g z a tok s state :
  cur3 z a tok s -> tok <> [] -> d = a ++ tok ++ s -> top (pst p) = Some state -> state <> S_ObjectKey ->
  stack_ok (pst p) -> pos0 <= len a -> g = G_Literal \/ g = G_Number \/ g = G_String ->
  err_in_range d (perr p) -> tok_ok g tok -> G g (len a) ->
  step_okG d pos0 G p (emit_value p g z state).
Proof.
  intros Hc Htok Hd Htop Hstate Hok Hpos Hg Herr Htk HG. unfold emit_value.
  assert (Hst' : (if state =? S_ObjectValue then set_top (pst p) S_ObjectKey else Some (pst p))
                 = Some (valfix (pst p))).
  { destruct (pst p) as [|s0 t0] eqn:Ep; [discriminate|]. cbn in Htop. inversion Htop; subst s0.
    cbn [valfix set_top]. destruct (state =? S_ObjectValue); reflexivity. }
  rewrite Hst'. cbn [option_bind].
  apply (emit_ok d pos0 G p g z a tok s); auto.
  - apply stack_ok_valfix. exact Hok.
  - unfold G_Literal, G_Number, G_String, G_Error in *. lia.
  - destruct (pst p) as [|s0 t0] eqn:Ep; [discriminate|]. cbn in Htop. inversion Htop; subst s0.
    apply sr_val; assumption.
Qed.

Lemma next_value_ok d pos0 (G : Z -> Z -> Prop) p z2 a s2 need state :
  cur3 z2 a [] s2 -> d = a ++ s2 -> top (pst p) = Some state -> state <> S_ObjectKey ->
  stack_ok (pst p) -> pos0 <= len a -> err_in_range d (perr p) -> need = pneed p \/ pos0 < len a ->
  (forall g, g = G_Literal \/ g = G_Number \/ g = G_String -> hd0 s2 <> 0 -> G g (len a)) ->
  step_okG d pos0 G p (next_value p z2 (hd0 s2) need state).
Proof.
  intros H2 Hd Htop Hstate Hok Hpos Herr Hnd HG.
  assert (Hnm : need = pneed p \/ need = true \/ pos0 < len a) by (destruct Hnd; auto).
  unfold next_value.
  (* string attempt *)
  assert (Hstr : exists ok z3 tok3 s3,
            (if hd0 s2 =? 34 then consume_string z2 else Some (false, z2)) = Some (ok, z3) /\
            cur3 z3 a tok3 s3 /\ s2 = tok3 ++ s3 /\
            (ok = true -> hd0 s2 = 34 /\ exists body, tok3 = 34 :: body ++ [34] /\ Forall (fun c => c <> 0) body) /\
            (ok = false -> (tok3 = [] /\ s3 = s2) \/ hd0 s3 = 0)).
  { destruct (hd0 s2 =? 34) eqn:E34.
    - apply Z.eqb_eq in E34. destruct (hd0_cons_inv s2 34 E34 ltac:(lia)) as (t & ->).
      destruct (consume_string_spec z2 a [] 34 t H2) as (z3 & Hcs & H3). cbn [app] in *.
      eexists _, z3, _, _. split; [exact Hcs|]. split; [exact H3|]. split.
      + cbn [app]. f_equal. symmetry. apply str_split_app.
      + split.
        * intros Hok1. split; [reflexivity|].
          destruct (str_split_true_shape t (rev [34]) Hok1) as (body & E & Hf). exists body. rewrite E. auto.
        * intros Hok0. right. apply str_split_false_hd. exact Hok0.
    - exists false, z2, [], s2. split; [reflexivity|]. split; [exact H2|]. split; [reflexivity|].
      split; [discriminate|]. intros _. left. auto. }
  destruct Hstr as (ok & z3 & tok3 & s3 & Hs & H3 & Hs2 & Hne & Hfalse). rewrite Hs. cbn [option_bind fst snd].
  assert (Hd3 : d = a ++ tok3 ++ s3) by (rewrite Hd, Hs2; reflexivity).
  destruct ok.
  { destruct (Hne eq_refl) as (H34 & body & Etok & Hf).
    apply (emit_value_ok d pos0 G p G_String z3 a tok3 s3 state); auto.
    - rewrite Etok. discriminate.
    - do 6 right. split; [reflexivity|]. exists body. auto.
    - apply HG; [auto|lia]. }
  (* number attempt *)
  pose proof (consume_number_spec z3 a tok3 s3 H3) as Hn.
  destruct (num_split s3) as [[xn rn]|] eqn:En.
  { destruct Hn as (z4 & Hn & H4). rewrite Hn. cbn [option_bind fst snd].
    destruct (num_split_app _ _ _ En) as [Hsn Hxn].
    destruct (Hfalse eq_refl) as [[-> ->]|H0]; [|exfalso; exact (num_split_hd _ _ _ En H0)].
    apply (emit_value_ok d pos0 G p G_Number z4 a ([] ++ xn) rn state); auto.
    - rewrite Hd3, Hsn. reflexivity.
    - do 4 right. left. split; [reflexivity|]. exists s2, rn. exact En.
    - apply HG; [auto|]. exact (num_split_hd _ _ _ En). }
  destruct Hn as (z4 & Hn & H4). rewrite Hn. cbn [option_bind fst snd].
  (* literal attempt *)
  pose proof (consume_literal_spec z4 a tok3 s3 H4) as Hl.
  destruct (lit_split s3) as [[xl rl]|] eqn:El.
  { destruct Hl as (z5 & Hl & H5). rewrite Hl. cbn [option_bind fst snd].
    destruct (lit_split_app _ _ _ El) as [Hsl Hxl].
    destruct (Hfalse eq_refl) as [[-> ->]|H0]; [|exfalso; exact (lit_split_hd _ _ _ El H0)].
    apply (emit_value_ok d pos0 G p G_Literal z5 a ([] ++ xl) rl state); auto.
    - destruct Hxl as [->|[->| ->]]; discriminate.
    - rewrite Hd3, Hsl. reflexivity.
    - do 5 right. left. split; [reflexivity|]. exact Hxl.
    - apply HG; [auto|]. exact (lit_split_hd _ _ _ El). }
  rewrite Hl. cbn [option_bind fst snd].
  rewrite (cur3_pk0 _ _ _ _ H4). cbn [option_bind].
  assert (Hp4 : pos0 <= lpos z4).
  { rewrite (cur3_lpos _ _ _ _ H4). pose proof (len_nonneg tok3). lia. }
  destruct ((hd0 s3 =? 0) && negb (r_err p z4)) eqn:Enul.
  { eapply fail_ok; [exact H4|exact Hd3|exact Hok|exact Hp4|apply sr_err|exact Hnm]. }
  destruct (hd0 s3 =? 0) eqn:E0.
  2:{ eapply fail_ok; [exact H4|exact Hd3|exact Hok|exact Hp4|apply sr_err|exact Hnm]. }
  (* the end-of-input report *)
  unfold step_okG. eexists _, _. split; [reflexivity|]. cbn [pz pst perr prd fst snd].
  split. { exists a, tok3, s3. cbn [pz pst perr]. auto. }
  split; [reflexivity|]. split; [exact Hp4|]. split; [apply sr_err|].
  split; [reflexivity|]. split.
  2:{ cbn [pneed]. intros Hq. rewrite (cur3_lpos _ _ _ _ H4) in Hq. pose proof (len_nonneg tok3).
      destruct Hnd as [H1|H1]; [left; exact H1|lia]. }
  right. split; [reflexivity|]. split; [rewrite Htop; congruence|].
  cbn [andb] in Enul. apply negb_false_iff in Enul. unfold r_err in Enul.
  destruct (negb (prd p =? 0)) eqn:Ep; [left; lia|right].
  cbn [orb] in Enul. rewrite (cur3_at_end _ _ _ _ H4) in Enul.
  rewrite (cur3_lpos _ _ _ _ H4). rewrite Hd3. rewrite !len_app.
  assert (len s3 = 0) by lia. lia.
Qed.

(* --- after the comma block ---------------------------------------------------------------------- *)
Lemma next_body_ok d pos0 (G : Z -> Z -> Prop) p z1 a tok1 s2 need state :
  cur3 z1 a tok1 s2 -> d = a ++ tok1 ++ s2 -> top (pst p) = Some state -> stack_ok (pst p) ->
  pos0 <= len a + len tok1 -> err_in_range d (perr p) -> need = pneed p \/ pos0 < len a + len tok1 ->
  (forall g, (need = true -> g = G_EndObject \/ g = G_EndArray) -> G g (len (a ++ tok1))) ->
  step_okG d pos0 G p (next_body p z1 (hd0 s2) need state).
Proof.
  intros H1 Hd Htop Hok Hpos Herr Hnd HG.
  assert (Hnd2 : need = pneed p \/ pos0 < len (a ++ tok1)) by (rewrite len_app; exact Hnd).
  assert (Hnm : forall nd', nd' = need \/ nd' = true -> nd' = pneed p \/ nd' = true \/ pos0 < len (a ++ tok1)).
  { intros nd' [->| ->]; [destruct Hnd2; auto|auto]. }
  unfold next_body.
  pose proof (cur3_skip _ _ _ _ H1) as H2.
  assert (Hd2 : d = (a ++ tok1) ++ [] ++ s2) by (rewrite Hd, <- app_assoc; reflexivity).
  assert (Hp2 : pos0 <= lpos (skip z1)).
  { rewrite (cur3_lpos _ _ _ _ H2). rewrite len_app, len_nil. lia. }
  assert (Hpa : pos0 <= len (a ++ tok1)) by (rewrite len_app; lia).
  destruct (need && negb (hd0 s2 =? 125) && negb (hd0 s2 =? 93) && negb (hd0 s2 =? 0)) eqn:Ecomma.
  { eapply fail_ok; [exact H2|exact Hd2|exact Hok|exact Hp2|apply sr_err|apply Hnm; auto]. }
  (* a unit other than a closer is only produced with needComma false *)
  assert (HGo : forall g, hd0 s2 <> 125 -> hd0 s2 <> 93 -> hd0 s2 <> 0 -> G g (len (a ++ tok1))).
  { intros g Hc1 Hc2 Hc3. apply HG. intros Hn1. rewrite Hn1 in Ecomma. exfalso. lia. }
  assert (HGc : forall g, g = G_EndObject \/ g = G_EndArray -> G g (len (a ++ tok1))).
  { intros g Hg. apply HG. intros _. exact Hg. }
  (* the four brackets: the cursor moves over one byte *)
  assert (Hbr : forall c g st', hd0 s2 = c -> c <> 0 -> g <> G_Error -> stack_ok st' -> st_rel (pst p) g st' ->
             forall nd, (completes_value g st' -> nd = true) -> tok_ok g [c] -> G g (len (a ++ tok1)) ->
                        step_okG d pos0 G p (emit p g (mv (skip z1) 1) st' nd)).
  { intros c g st' Hc Hc0 Hg Hst' Hrel nd Hcv Htk HGg. destruct (hd0_cons_inv s2 c Hc Hc0) as (t & Hs2).
    rewrite Hs2 in H2. pose proof (cur3_mv1 _ _ _ _ _ H2) as H3.
    apply (emit_ok d pos0 G p g _ (a ++ tok1) ([] ++ [c]) t); auto.
    - discriminate.
    - rewrite Hd2, Hs2. reflexivity. }
  destruct ((hd0 s2 =? 123) && negb (state =? S_ObjectKey)) eqn:E1.
  { apply andb_true_iff in E1. destruct E1 as [E1 Ek1]. apply Z.eqb_eq in E1.
    apply (Hbr 123 G_StartObject (S_ObjectKey :: pst p)); [exact E1|lia|discriminate| |apply sr_start_obj| | |].
    - apply stack_ok_push; [exact Hok|left; reflexivity].
    - rewrite Htop. intros Hq. inversion Hq. lia.
    - unfold completes_value, G_StartObject, G_Literal, G_Number, G_EndObject, G_EndArray, G_String. intros Hq. lia.
    - left. auto.
    - apply HGo; lia. }
  destruct (hd0 s2 =? 125) eqn:E2.
  { apply Z.eqb_eq in E2.
    destruct (negb (state =? S_ObjectKey)) eqn:Es.
    { eapply fail_ok; [exact H2|exact Hd2|exact Hok|exact Hp2|apply sr_err|apply Hnm; auto]. }
    apply negb_false_iff in Es. apply Z.eqb_eq in Es. subst state.
    destruct (pop_fix_ok _ _ Hok Htop ltac:(discriminate)) as (t & Hst & Hokt & Hpop).
    rewrite Hpop. cbn [option_bind].
    apply (Hbr 125 G_EndObject (valfix t)); [exact E2|lia|discriminate| |rewrite Hst; apply sr_end_obj|reflexivity| |].
    - apply stack_ok_valfix. exact Hokt.
    - right. left. auto.
    - apply HGc. auto. }
  destruct ((hd0 s2 =? 91) && negb (state =? S_ObjectKey)) eqn:E3.
  { apply andb_true_iff in E3. destruct E3 as [E3 Ek3]. apply Z.eqb_eq in E3.
    apply (Hbr 91 G_StartArray (S_Array :: pst p)); [exact E3|lia|discriminate| |apply sr_start_arr| | |].
    - apply stack_ok_push; [exact Hok|right; right; reflexivity].
    - rewrite Htop. intros Hq. inversion Hq. lia.
    - unfold completes_value, G_StartArray, G_Literal, G_Number, G_EndObject, G_EndArray, G_String. intros Hq. lia.
    - do 2 right. left. auto.
    - apply HGo; lia. }
  destruct (hd0 s2 =? 93) eqn:E4.
  { apply Z.eqb_eq in E4.
    destruct (negb (state =? S_Array)) eqn:Es.
    { eapply fail_ok; [exact H2|exact Hd2|exact Hok|exact Hp2|apply sr_err|apply Hnm; auto]. }
    apply negb_false_iff in Es. apply Z.eqb_eq in Es. subst state.
    destruct (pop_fix_ok _ _ Hok Htop ltac:(discriminate)) as (t & Hst & Hokt & Hpop).
    rewrite Hpop. cbn [option_bind].
    apply (Hbr 93 G_EndArray (valfix t)); [exact E4|lia|discriminate| |rewrite Hst; apply sr_end_arr|reflexivity| |].
    - apply stack_ok_valfix. exact Hokt.
    - do 3 right. left. auto.
    - apply HGc. auto. }
  destruct (state =? S_ObjectKey) eqn:Ek.
  - apply Z.eqb_eq in Ek. subst state.
    destruct (pst p) as [|s0 st0] eqn:Ep; [discriminate|]. cbn in Htop. inversion Htop; subst s0.
    rewrite <- Ep in Hok. eapply (next_key_ok d pos0 G p (skip z1) (a ++ tok1) s2 need st0); eauto.
    intros H34. apply HGo; lia.
  - apply Z.eqb_neq in Ek.
    apply (next_value_ok d pos0 G p (skip z1) (a ++ tok1) s2 need state); auto.
    intros g _ H0. apply Z.eqb_neq in E2. apply Z.eqb_neq in E4. apply HGo; assumption.
Qed.

(* --- Next --------------------------------------------------------------------------------------- *)
Lemma slice_mid3 (x y z : list Z) : slice (x ++ y ++ z) (len x) (len x + len y) = y.
Proof. apply slice_mid. Qed.

Theorem next_ok d p : json_inv d p -> step_ok d (lpos (pz p)) p (next p).
Proof.
  intros (a & tok & s & Hd & Hc & Hok & Herr). unfold step_ok, next.
  destruct (move_ws_spec _ _ _ _ Hc) as (z0 & Hws & H0). rewrite Hws. cbn [option_bind].
  set (w := takew is_ws s) in *. set (s0 := dropw is_ws s) in *.
  assert (Hs : s = w ++ s0) by (unfold w, s0; rewrite takew_dropw; reflexivity).
  assert (Hww : wsl w) by apply takew_all.
  rewrite (cur3_pk0 _ _ _ _ H0). cbn [option_bind].
  destruct (stack_ok_top _ Hok) as (state & Htop & Hrange). rewrite Htop. cbn [option_bind].
  pose proof (cur3_lpos _ _ _ _ Hc) as Hp.
  pose proof (len_nonneg w) as Hlw.
  unfold next_comma.
  destruct (hd0 s0 =? 44) eqn:E44.
  - destruct (negb (state =? S_Array) && negb (state =? S_ObjectKey)) eqn:Est; cbn [option_bind].
    + eapply fail_ok; [exact H0| |exact Hok| |apply sr_err|left; reflexivity].
      * rewrite Hd, Hs. rewrite <- !app_assoc. reflexivity.
      * rewrite (cur3_lpos _ _ _ _ H0), len_app. lia.
    + apply Z.eqb_eq in E44. destruct (hd0_cons_inv s0 44 E44 ltac:(lia)) as (s1 & Hs1).
      rewrite Hs1 in H0. pose proof (cur3_mv1 _ _ _ _ _ H0) as H1.
      destruct (move_ws_spec _ _ _ _ H1) as (z1 & Hws1 & H1'). rewrite Hws1. cbn [option_bind].
      rewrite (cur3_pk0 _ _ _ _ H1'). cbn [option_bind].
      set (w1 := takew is_ws s1) in *.
      assert (Hd1 : d = a ++ (((tok ++ w) ++ [44]) ++ w1) ++ dropw is_ws s1).
      { rewrite Hd, Hs, Hs1. rewrite <- !app_assoc. cbn [app]. do 4 f_equal.
        unfold w1. rewrite takew_dropw. reflexivity. }
      apply (next_body_ok d _ _ p z1 a _ _ false state H1'); auto.
      * rewrite !len_app. pose proof (len_nonneg w1). change (len [44]) with 1. lia.
      * right. rewrite !len_app. pose proof (len_nonneg w1). change (len [44]) with 1. lia.
      * intros g _. exists (w ++ 44 :: w1). split; [|split].
        -- rewrite Hp. rewrite Hd1.
           replace (a ++ (((tok ++ w) ++ [44]) ++ w1) ++ dropw is_ws s1)
             with ((a ++ tok) ++ (w ++ 44 :: w1) ++ dropw is_ws s1)
             by (rewrite <- !app_assoc; cbn [app]; reflexivity).
           replace (len (a ++ ((tok ++ w) ++ [44]) ++ w1)) with (len (a ++ tok) + len (w ++ 44 :: w1))
             by (rewrite !len_app, !len_cons, ?len_nil; lia).
           rewrite <- len_app. apply slice_mid3.
        -- rewrite Hp. rewrite !len_app, !len_cons, ?len_nil. lia.
        -- right. exists w, w1. split; [reflexivity|]. split; [exact Hww|]. split; [apply takew_all|].
           rewrite Htop. unfold S_Array, S_ObjectKey in *.
           destruct (Z.eqb_spec state 3); [left; congruence|]. destruct (Z.eqb_spec state 1); [right; congruence|].
           exfalso. cbn in Est. discriminate.
  - cbn [option_bind]. apply (next_body_ok d _ _ p z0 a _ _ (pneed p) state H0); auto.
    + rewrite Hd, Hs. rewrite <- !app_assoc. reflexivity.
    + rewrite len_app. lia.
    + intros g Hg. exists w. split; [|split].
      * rewrite Hp. rewrite Hd, Hs.
        replace (a ++ tok ++ w ++ s0) with ((a ++ tok) ++ w ++ s0) by (rewrite <- !app_assoc; reflexivity).
        replace (len (a ++ tok ++ w)) with (len (a ++ tok) + len w) by (rewrite !len_app; lia).
        rewrite <- len_app. apply slice_mid3.
      * rewrite Hp. rewrite !len_app. lia.
      * left. split; [exact Hww|exact Hg].
Qed.
