(* Json/Grammar.v — RFC 8259 over byte lists, independent of the parser model:
   the inductive grammar [value] with explicit whitespace positions, [strip_ws] (removal of insignificant
   whitespace) and the executable recogniser [valid_b].  Definitions only; [valid_b] is proved equivalent to
   [value] in Json/GrammarProofs.v and is diffed against encoding/json.Valid by the correspondence run.
   As in encoding/json, a string may contain any byte >= 0x20 other than the quotation mark and the backslash (no UTF-8 check). *)
From Verif Require Import Common.Base.

(* ws = *( %x20 / %x09 / %x0A / %x0D ) *)
Definition g_ws (c : Z) : bool := (c =? 32) || (c =? 9) || (c =? 10) || (c =? 13).
Definition g_digit (c : Z) : bool := (48 <=? c) && (c <=? 57).
Definition g_digit19 (c : Z) : bool := (49 <=? c) && (c <=? 57).
Definition g_hex (c : Z) : bool :=
  g_digit c || ((65 <=? c) && (c <=? 70)) || ((97 <=? c) && (c <=? 102)).
(* escape = quotation-mark, backslash, '/', b f n r t *)
Definition g_esc1 (c : Z) : bool :=
  (c =? 34) || (c =? 92) || (c =? 47) || (c =? 98) || (c =? 102) || (c =? 110) || (c =? 114) || (c =? 116).

Definition ws (w : list Z) : Prop := Forall (fun c => g_ws c = true) w.
Definition digits (l : list Z) : Prop := Forall (fun c => g_digit c = true) l.

(* *char *)
Inductive jchars : list Z -> Prop :=
| jc_nil : jchars []
| jc_plain c r : 32 <= c -> c <> 34 -> c <> 92 -> jchars r -> jchars (c :: r)
| jc_esc c r : g_esc1 c = true -> jchars r -> jchars (92 :: c :: r)
| jc_uni h1 h2 h3 h4 r : g_hex h1 = true -> g_hex h2 = true -> g_hex h3 = true -> g_hex h4 = true ->
    jchars r -> jchars (92 :: 117 :: h1 :: h2 :: h3 :: h4 :: r).

(* string = quotation-mark *char quotation-mark *)
Inductive jstring : list Z -> Prop :=
| js_intro cs : jchars cs -> jstring (34 :: cs ++ [34]).

(* number = [ minus ] int [ frac ] [ exp ] *)
Inductive jint : list Z -> Prop :=
| ji_zero : jint [48]
| ji_pos c ds : g_digit19 c = true -> digits ds -> jint (c :: ds).
Inductive jfrac : list Z -> Prop :=
| jf_none : jfrac []
| jf_some c ds : g_digit c = true -> digits ds -> jfrac (46 :: c :: ds).
Inductive jexp : list Z -> Prop :=
| je_none : jexp []
| je_some e sg c ds : e = 101 \/ e = 69 -> sg = [] \/ sg = [43] \/ sg = [45] ->
    g_digit c = true -> digits ds -> jexp (e :: sg ++ c :: ds).
Inductive jnumber : list Z -> Prop :=
| jn_intro m i f e : m = [] \/ m = [45] -> jint i -> jfrac f -> jexp e -> jnumber (m ++ i ++ f ++ e).

Definition L_TRUE := [116; 114; 117; 101].
Definition L_FALSE := [102; 97; 108; 115; 101].
Definition L_NULL := [110; 117; 108; 108].

(* value, array, object with whitespace explicit at the six structural characters:
   begin-array = ws [ ws, end-array = ws ] ws, value-separator = ws , ws, name-separator = ws : ws, ... *)
Inductive jvalue : list Z -> Prop :=
| jv_true : jvalue L_TRUE
| jv_false : jvalue L_FALSE
| jv_null : jvalue L_NULL
| jv_num n : jnumber n -> jvalue n
| jv_str s : jstring s -> jvalue s
| jv_arr_empty w : ws w -> jvalue (91 :: w ++ [93])
| jv_arr els : jelems els -> jvalue (91 :: els ++ [93])
| jv_obj_empty w : ws w -> jvalue (123 :: w ++ [125])
| jv_obj ms : jmembers ms -> jvalue (123 :: ms ++ [125])
with jelems : list Z -> Prop :=
| jel_one w1 v w2 : ws w1 -> jvalue v -> ws w2 -> jelems (w1 ++ v ++ w2)
| jel_more w1 v w2 r : ws w1 -> jvalue v -> ws w2 -> jelems r -> jelems (w1 ++ v ++ w2 ++ 44 :: r)
with jmembers : list Z -> Prop :=
| jm_one w1 k w2 w3 v w4 : ws w1 -> jstring k -> ws w2 -> ws w3 -> jvalue v -> ws w4 ->
    jmembers (w1 ++ k ++ w2 ++ 58 :: w3 ++ v ++ w4)
| jm_more w1 k w2 w3 v w4 r : ws w1 -> jstring k -> ws w2 -> ws w3 -> jvalue v -> ws w4 -> jmembers r ->
    jmembers (w1 ++ k ++ w2 ++ 58 :: w3 ++ v ++ w4 ++ 44 :: r).

(* JSON-text = ws value ws *)
Inductive value : list Z -> Prop :=
| value_intro w1 v w2 : ws w1 -> jvalue v -> ws w2 -> value (w1 ++ v ++ w2).

(* ---------------------------------------------------------------------------------------------- *)
(* removal of insignificant whitespace (whitespace outside strings) *)
Fixpoint strip_aux (in_str esc : bool) (l : list Z) : list Z :=
  match l with
  | [] => []
  | c :: t =>
      if in_str then
        if esc then c :: strip_aux true false t
        else if c =? 92 then c :: strip_aux true true t
        else if c =? 34 then c :: strip_aux false false t
        else c :: strip_aux true false t
      else if g_ws c then strip_aux false false t
      else if c =? 34 then c :: strip_aux true false t
      else c :: strip_aux false false t
  end.
Definition strip_ws (l : list Z) : list Z := strip_aux false false l.

(* ---------------------------------------------------------------------------------------------- *)
(* executable recogniser *)
Fixpoint skip_ws (l : list Z) : list Z :=
  match l with c :: t => if g_ws c then skip_ws t else l | [] => [] end.
Fixpoint skip_digits (l : list Z) : list Z :=
  match l with c :: t => if g_digit c then skip_digits t else l | [] => [] end.

(* after the opening quote: the rest after the closing quote *)
Fixpoint p_chars (l : list Z) : option (list Z) :=
  match l with
  | [] => None
  | c :: t =>
      if c =? 34 then Some t
      else if c =? 92 then
        match t with
        | e :: t1 =>
            if g_esc1 e then p_chars t1
            else if e =? 117 then
              match t1 with
              | h1 :: h2 :: h3 :: h4 :: t2 =>
                  if g_hex h1 && g_hex h2 && g_hex h3 && g_hex h4 then p_chars t2 else None
              | _ => None
              end
            else None
        | [] => None
        end
      else if 32 <=? c then p_chars t
      else None
  end.

(* 1*DIGIT *)
Definition p_digits1 (l : list Z) : option (list Z) :=
  match l with c :: t => if g_digit c then Some (skip_digits t) else None | [] => None end.

Definition p_int (l : list Z) : option (list Z) :=
  match l with
  | c :: t => if c =? 48 then Some t else if g_digit19 c then Some (skip_digits t) else None
  | [] => None
  end.
Definition p_frac (l : list Z) : option (list Z) :=
  match l with c :: t => if c =? 46 then p_digits1 t else Some l | [] => Some l end.
Definition p_exp (l : list Z) : option (list Z) :=
  match l with
  | c :: t =>
      if (c =? 101) || (c =? 69) then
        match t with
        | s :: t1 => if (s =? 43) || (s =? 45) then p_digits1 t1 else p_digits1 t
        | [] => None
        end
      else Some l
  | [] => Some l
  end.
Definition p_number (l : list Z) : option (list Z) :=
  let l1 := match l with c :: t => if c =? 45 then t else l | [] => l end in
  l2 <- p_int l1 ;; l3 <- p_frac l2 ;; p_exp l3.

Fixpoint p_lit (pat l : list Z) : option (list Z) :=
  match pat with
  | [] => Some l
  | c :: pt => match l with x :: t => if x =? c then p_lit pt t else None | [] => None end
  end.

Inductive pmode := MValue | MElems | MMembers.

(* MValue: l starts with the value; MElems: l starts (after whitespace was skipped) with an element and the
   result is what follows the closing ']'; MMembers likewise for '}' *)
Fixpoint p_json (fuel : nat) (m : pmode) (l : list Z) : option (list Z) :=
  match fuel with
  | O => None
  | S k =>
      match m with
      | MValue =>
          match l with
          | [] => None
          | c :: t =>
              if c =? 34 then p_chars t
              else if c =? 91 then
                match skip_ws t with
                | c1 :: t1 => if c1 =? 93 then Some t1 else p_json k MElems (c1 :: t1)
                | [] => None
                end
              else if c =? 123 then
                match skip_ws t with
                | c1 :: t1 => if c1 =? 125 then Some t1 else p_json k MMembers (c1 :: t1)
                | [] => None
                end
              else if c =? 116 then p_lit L_TRUE l
              else if c =? 102 then p_lit L_FALSE l
              else if c =? 110 then p_lit L_NULL l
              else p_number l
          end
      | MElems =>
          r <- p_json k MValue l ;;
          match skip_ws r with
          | c :: t => if c =? 44 then p_json k MElems (skip_ws t) else if c =? 93 then Some t else None
          | [] => None
          end
      | MMembers =>
          match l with
          | c :: t =>
              if c =? 34 then
                r <- p_chars t ;;
                match skip_ws r with
                | c1 :: t1 =>
                    if c1 =? 58 then
                      r2 <- p_json k MValue (skip_ws t1) ;;
                      match skip_ws r2 with
                      | c2 :: t2 => if c2 =? 44 then p_json k MMembers (skip_ws t2)
                                    else if c2 =? 125 then Some t2 else None
                      | [] => None
                      end
                    else None
                | [] => None
                end
              else None
          | [] => None
          end
      end
  end.

Definition valid_b (d : list Z) : bool :=
  match p_json (S (length d)) MValue (skip_ws d) with
  | Some r => match skip_ws r with [] => true | _ => false end
  | None => false
  end.
