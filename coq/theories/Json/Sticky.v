(* Json/Sticky.v — what is re-reported by further calls of Next after an ErrorGrammar:
   the end-of-input report (io.EOF) is repeated forever with the parser unchanged; Err() never becomes nil
   again; after a parse error Next may go on returning units (witness) while Err() keeps the error. *)
From Coq Require Import ZifyBool.
From Verif Require Import Common.Base Common.Tactics Common.Lx Json.Model Json.Lex Json.Spec Json.Grammar
  Json.AcceptLex Json.Proofs Json.Trace Json.Accept.

(* the parser has reported the end of the input: cursor at the end, nothing recorded, not in key position *)
Definition eof_state (d : list Z) (p : parser) : Prop :=
  json_inv d p /\ perr p = None /\ prd p = 0 /\ lpos (pz p) = len d /\ top (pst p) <> Some S_ObjectKey.

Lemma eof_state_kind d p : eof_state d p -> err_kind p = 1.
Proof.
  intros ((a & tok & s & Hd & Hc & _) & He & Hr & Hp & _). unfold err_kind. rewrite He, Hr. cbn [Z.eqb negb].
  rewrite (cur3_at_end _ _ _ _ Hc). rewrite (cur3_lpos _ _ _ _ Hc) in Hp. subst d. rewrite !len_app in Hp.
  replace (len s =? 0) with true by lia. reflexivity.
Qed.

Lemma eof_fix d p : eof_state d p ->
  exists p', next p = Some ((G_Error, None), p') /\ eof_state d p' /\ pst p' = pst p /\ pneed p' = pneed p.
Proof.
  intros (Hinv & He & Hr & Hp & Htop).
  destruct Hinv as (a & tok & s & Hd & Hc & Hok & Herr).
  assert (Hs : s = []).
  { apply len_zero_nil. rewrite (cur3_lpos _ _ _ _ Hc) in Hp. subst d. rewrite !len_app in Hp. lia. }
  subst s.
  destruct (stack_ok_top _ Hok) as (state & Hst & _).
  assert (Hc' : cur3 (pz p) a tok ([] ++ [])) by exact Hc.
  destruct (next_front p a tok [] [] (pneed p) state Hc' (lead_plain p [] ltac:(constructor)) eq_refl
              ltac:(cbn; lia) Hst) as (z1 & Hz1 & Hn).
  cbn [hd0] in Hn.
  destruct (body_eof p z1 a (tok ++ []) state (pneed p) Hz1 ltac:(congruence) Hr) as (z' & Hb & Hz').
  rewrite Hb in Hn. eexists. split; [exact Hn|]. cbn [pz pst perr pneed prd].
  split; [|split; reflexivity].
  split.
  { exists (a ++ tok ++ []), [], []. cbn [pz pst perr]. split; [|split; [exact Hz'|split; assumption]].
    rewrite Hd. rewrite !app_nil_r. reflexivity. }
  cbn [pz pst perr pneed prd]. split; [exact He|]. split; [exact Hr|]. split; [|exact Htop].
  rewrite (cur3_lpos _ _ _ _ Hz'). rewrite Hd. rewrite !len_app, !len_nil. lia.
Qed.

(* an ErrorGrammar after which Err() is io.EOF leaves the parser in eof_state *)
Lemma eof_report_state d p p1 : json_inv d p -> next p = Some ((G_Error, None), p1) -> err_kind p1 = 1 ->
  eof_state d p1.
Proof.
  intros Hinv Hn Hk. destruct (next_ok d p Hinv) as (u0 & p0 & E0 & Hinv1 & Hprd & _ & _ & Hm).
  rewrite Hn in E0. inversion E0; subst u0 p0. cbn [fst snd] in Hm.
  unfold err_kind in Hk.
  destruct (perr p1) as [o|] eqn:Ep; [lia|].
  destruct (negb (prd p1 =? 0)) eqn:Er; [lia|].
  destruct (at_end (pz p1)) eqn:Ea; [|lia].
  destruct Hm as (_ & [Hbad|(_ & Htop & _)] & _); [discriminate|].
  split; [exact Hinv1|]. split; [exact Ep|]. split; [lia|]. split; [|exact Htop].
  pose proof (json_inv_pos d p1 Hinv1) as Hpos.
  destruct Hinv1 as (a & tok & s & Hd & Hc & _). rewrite (cur3_at_end _ _ _ _ Hc) in Ea.
  rewrite (cur3_lpos _ _ _ _ Hc). subst d. rewrite !len_app. lia.
Qed.

Lemma eof_trace d : forall n p tr, eof_state d p -> trace n p = Some tr ->
  Forall (fun up => fst up = (G_Error, None) /\ err_kind (snd up) = 1 /\ pst (snd up) = pst p /\
                    pneed (snd up) = pneed p /\ lpos (pz (snd up)) = lpos (pz p)) tr.
Proof.
  induction n as [|n IH]; intros p tr He E; cbn [trace] in E.
  - inversion E. constructor.
  - destruct (eof_fix d p He) as (p' & Hn & He' & Hst & Hnd). rewrite Hn in E.
    destruct (trace n p') as [tr'|] eqn:E'; [|discriminate]. inversion E; subst tr.
    assert (Hpos : lpos (pz p') = lpos (pz p)).
    { destruct He as (_ & _ & _ & H1 & _). destruct He' as (_ & _ & _ & H2 & _). lia. }
    constructor.
    + cbn [fst snd]. split; [reflexivity|]. split; [apply (eof_state_kind d); exact He'|]. auto.
    + specialize (IH p' tr' He' E'). rewrite Hst, Hnd, Hpos in IH. exact IH.
Qed.

(* json_error_sticky, end-of-input clause, full strength *)
Theorem json_eof_sticky_proof : forall d p p1 n,
  json_inv d p -> next p = Some ((G_Error, None), p1) -> err_kind p1 = 1 ->
  exists tr, trace n p1 = Some tr /\ length tr = n /\
    Forall (fun up => fst up = (G_Error, None) /\ err_kind (snd up) = 1 /\ pst (snd up) = pst p1 /\
                      pneed (snd up) = pneed p1 /\ lpos (pz (snd up)) = lpos (pz p1)) tr.
Proof.
  intros d p p1 n Hinv Hn Hk. pose proof (eof_report_state d p p1 Hinv Hn Hk) as He.
  destruct He as (Hinv1 & Hrest).
  destruct (trace_steps d n p1 Hinv1) as (tr & E & Hl & _).
  exists tr. split; [exact E|]. split; [exact Hl|].
  apply (eof_trace d n p1 tr); [split; assumption|exact E].
Qed.

(* Err() never becomes nil again *)
Theorem json_err_stays_proof : forall d p u p', json_inv d p -> next p = Some (u, p') ->
  err_kind p <> 0 -> err_kind p' <> 0.
Proof.
  intros d p u p' Hinv Hn Hk. destruct (next_ok d p Hinv) as (u0 & p0 & E0 & Hinv' & Hprd & Hle & _ & Hm).
  rewrite Hn in E0. inversion E0; subst u0 p0.
  unfold err_kind in *.
  destruct (perr p') as [o|] eqn:Ep'; [lia|].
  assert (Hperr : perr p = None).
  { destruct (snd u) as [[lo b]|].
    - destruct Hm as (_ & _ & _ & _ & _ & He & _). congruence.
    - destruct Hm as (_ & [Hbad|(He & _)] & _); congruence. }
  rewrite Hperr in Hk. rewrite Hprd.
  destruct (negb (prd p =? 0)); [lia|].
  destruct (at_end (pz p)) eqn:Ea; [|lia].
  assert (Ea' : at_end (pz p') = true).
  { destruct Hinv as (a & tok & s & Hd & Hc & _). destruct Hinv' as (a' & tok' & s' & Hd' & Hc' & _).
    rewrite (cur3_at_end _ _ _ _ Hc) in Ea. rewrite (cur3_at_end _ _ _ _ Hc').
    rewrite (cur3_lpos _ _ _ _ Hc), (cur3_lpos _ _ _ _ Hc') in Hle.
    assert (len (a ++ tok ++ s) = len (a' ++ tok' ++ s')) by congruence.
    rewrite !len_app in *. pose proof (len_nonneg s'). lia. }
  rewrite Ea'. lia.
Qed.

(* Next does not look at p.err on entry: a caller that keeps calling after a parse error gets units again
   where the text allows it, while Err() keeps the first error.  After the expected-colon error on the
   document  { 'a' 'b' : 1 }  (with double quotes) the next call returns the String unit 'b'. *)
Theorem json_continues_after_error_proof :
  exists d tr, trace 3 (json_init d) = Some tr /\ grammars tr = [G_StartObject; G_Error; G_String] /\
               map (fun up => err_kind (snd up)) tr = [0; 2; 2].
Proof.
  exists [123; 34; 97; 34; 32; 34; 98; 34; 58; 49; 125]. eexists. split; [vm_compute; reflexivity|].
  split; reflexivity.
Qed.

(* non-vacuity of json_eof_sticky: [1 then the end of input *)
Example ex_eof_sticky : exists p p1, json_inv [91; 49] p /\ next p = Some ((G_Error, None), p1) /\ err_kind p1 = 1 /\
  state p1 = Some S_Array.
Proof.
  destruct (trace_steps [91; 49] 2 _ (json_inv_init _)) as (tr & E & _ & Hs).
  pose proof (steps_last_inv _ tr _ (json_inv_init _) Hs) as Hinv.
  vm_compute in E. inversion E; subst tr. clear E Hs.
  eexists _, _. split; [exact Hinv|]. split; [vm_compute; reflexivity|]. split; reflexivity.
Qed.
