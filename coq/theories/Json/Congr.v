(* Json/Congr.v — Next depends only on the buffer, the cursor offset, the state stack, needComma and the
   reader error: neither the start of the current lexeme nor the recorded error p.err influence what it
   returns.  Consequence: an ErrorGrammar call that leaves offset and needComma unchanged is a terminal
   report: every further call repeats it. *)
From Coq Require Import ZifyBool.
From Verif Require Import Common.Base Common.Tactics Common.Lx Json.Model Json.Lex Json.Spec Json.Proofs Json.Trace.

Definition lx_sim (z z' : lx) : Prop := lbuf z = lbuf z' /\ lpos z = lpos z'.

Definition core_eq (p q : parser) : Prop :=
  lx_sim (pz p) (pz q) /\ pst p = pst q /\ pneed p = pneed q /\ prd p = prd q.

Lemma lx_sim_refl z : lx_sim z z. Proof. split; reflexivity. Qed.
Lemma lx_sim_sym z z' : lx_sim z z' -> lx_sim z' z. Proof. intros [A B]. split; congruence. Qed.
Lemma lx_sim_trans a b c : lx_sim a b -> lx_sim b c -> lx_sim a c.
Proof. intros [A B] [C D]. split; congruence. Qed.

Lemma core_eq_refl p : core_eq p p.
Proof. repeat split. Qed.
Lemma core_eq_sym p q : core_eq p q -> core_eq q p.
Proof. intros (A & B & C & D). split; [apply lx_sim_sym; exact A|]. repeat split; congruence. Qed.
Lemma core_eq_trans p q r : core_eq p q -> core_eq q r -> core_eq p r.
Proof.
  intros (A & B & C & D) (A' & B' & C' & D'). split; [eapply lx_sim_trans; eassumption|].
  repeat split; congruence.
Qed.

Lemma pk_sim z z' i : lx_sim z z' -> pk z i = pk z' i.
Proof. intros [A B]. unfold pk. rewrite A, B. reflexivity. Qed.

Lemma suffix_sim z z' : lx_sim z z' -> suffix z = suffix z'.
Proof. intros [A B]. unfold suffix. rewrite A, B. reflexivity. Qed.

Lemma mv_sim z z' n : lx_sim z z' -> lx_sim (mv z n) (mv z' n).
Proof. intros [A B]. unfold lx_sim, mv. cbn [lbuf lpos]. split; congruence. Qed.

Lemma skip_sim z z' : lx_sim z z' -> skip z = skip z'.
Proof. intros [A B]. unfold skip. rewrite A, B. reflexivity. Qed.

Definition opt_sim (a b : option lx) : Prop :=
  match a, b with Some x, Some y => lx_sim x y | None, None => True | _, _ => False end.

Lemma scan_sim f z z' : lx_sim z z' -> opt_sim (scan f z) (scan f z').
Proof.
  intros H. unfold scan. rewrite (pk_sim z z' 0 H), (suffix_sim z z' H).
  destruct (pk z' 0); cbn [option_bind opt_sim]; [|exact I].
  destruct (scan_while f (suffix z')); cbn [option_bind opt_sim]; [|exact I].
  apply mv_sim. exact H.
Qed.

(* results agree up to the start of the lexeme and the copy of the old error *)
Definition res_rel (e e' : option Z) (r r' : option (unit_ * parser)) : Prop :=
  match r, r' with
  | None, None => True
  | Some (u, p1), Some (u', p1') =>
      u = u' /\ core_eq p1 p1' /\ ((perr p1 = e /\ perr p1' = e') \/ perr p1 = perr p1')
  | _, _ => False
  end.

Ltac congr_step :=
  match goal with
  | |- context [option_bind ?x _] => destruct x as [?|]; cbn [option_bind]
  | |- context [if ?b then _ else _] => destruct b
  end.

Ltac congr_leaf :=
  cbn [res_rel fst snd];
  try exact I;
  try (split; [reflexivity|split; [repeat split|]; cbn [perr]; auto]).

Lemma next_body_congr zA zB st e e' ndA ndB rd z1 z1' c need state :
  lx_sim z1 z1' ->
  res_rel e e' (next_body (mkP zA st e ndA rd) z1 c need state)
               (next_body (mkP zB st e' ndB rd) z1' c need state).
Proof.
  intros Hs. unfold next_body. rewrite (skip_sim z1 z1' Hs). set (z2 := skip z1').
  unfold next_key, next_value, emit_value, emit, fail_at, r_err.
  cbn [pst perr prd pneed pz].
  repeat congr_step; congr_leaf.
Qed.

Theorem next_congr p q : core_eq p q -> res_rel (perr p) (perr q) (next p) (next q).
Proof.
  intros (Hz & Hst & Hnd & Hrd).
  destruct p as [zA stA eA ndA rdA]. destruct q as [zB stB eB ndB rdB].
  cbn [pz pst pneed prd perr] in *. subst stB ndB rdB.
  unfold next. cbn [pz pst pneed prd perr]. unfold move_ws.
  pose proof (scan_sim is_ws zA zB Hz) as H0.
  destruct (scan is_ws zA) as [z0|], (scan is_ws zB) as [z0'|]; cbn [opt_sim] in H0; try contradiction;
    cbn [option_bind res_rel]; [|exact I].
  rewrite (pk_sim z0 z0' 0 H0). destruct (pk z0' 0) as [c0|]; cbn [option_bind res_rel]; [|exact I].
  destruct (top stA) as [state|]; cbn [option_bind res_rel]; [|exact I].
  unfold next_comma. cbn [pneed]. destruct (c0 =? 44).
  - destruct (negb (state =? S_Array) && negb (state =? S_ObjectKey)); cbn [option_bind].
    + unfold fail_at. cbn [res_rel pst pneed prd perr fst snd].
      split; [reflexivity|]. split; [|right; destruct H0 as [_ Hp]; cbn [perr]; congruence].
      repeat split; cbn [pz pst pneed prd]; try reflexivity; apply H0.
    + unfold move_ws. pose proof (scan_sim is_ws (mv z0 1) (mv z0' 1) (mv_sim _ _ 1 H0)) as H1.
      destruct (scan is_ws (mv z0 1)) as [z1|], (scan is_ws (mv z0' 1)) as [z1'|]; cbn [opt_sim] in H1;
        try contradiction; cbn [option_bind res_rel]; [|exact I].
      rewrite (pk_sim z1 z1' 0 H1). destruct (pk z1' 0) as [c|]; cbn [option_bind res_rel]; [|exact I].
      apply next_body_congr. exact H1.
  - cbn [option_bind]. apply next_body_congr. exact H0.
Qed.

(* ---------------------------------------------------------------------------------------------- *)
(* terminal reports *)

(* an ErrorGrammar call that changes neither the offset nor needComma (the state stack is never changed by
   an ErrorGrammar call) *)
Definition idle (p : parser) (u : unit_) (p' : parser) : Prop :=
  u = (G_Error, None) /\ lpos (pz p') = lpos (pz p) /\ pneed p' = pneed p.

Lemma st_rel_error st st' : st_rel st G_Error st' -> st' = st.
Proof.
  intros H. remember G_Error as g eqn:Eg. destruct H; try reflexivity; try discriminate.
  destruct H as [->|[->| ->]]; discriminate.
Qed.

Lemma error_keeps_stack d p u p' : json_inv d p -> next p = Some (u, p') -> fst u = G_Error ->
  pst p' = pst p /\ prd p' = prd p /\ lbuf (pz p') = lbuf (pz p) /\ snd u = None.
Proof.
  intros Hinv Hn Hg. destruct (next_ok d p Hinv) as (u0 & p0 & E0 & Hinv' & Hprd & _ & Hrel & Hm).
  rewrite Hn in E0. inversion E0; subst u0 p0.
  split. { rewrite Hg in Hrel. apply st_rel_error. exact Hrel. }
  split; [exact Hprd|]. split.
  { destruct Hinv as (a & tok & s & Hd & (Hb & _) & _). destruct Hinv' as (a' & tok' & s' & Hd' & (Hb' & _) & _).
    rewrite Hb, Hb'. rewrite !app_assoc. f_equal. rewrite <- !app_assoc. congruence. }
  destruct (snd u) as [[lo b]|]; [|reflexivity]. destruct Hm as (Hbad & _). congruence.
Qed.

Lemma idle_core d p u p' : json_inv d p -> next p = Some (u, p') -> idle p u p' -> core_eq p p'.
Proof.
  intros Hinv Hn (-> & Hpos & Hnd).
  destruct (error_keeps_stack d p _ p' Hinv Hn eq_refl) as (Hst & Hprd & Hbuf & _).
  split; [split; congruence|]. repeat split; congruence.
Qed.

(* the next call after an idle call is the same idle call *)
Lemma idle_repeats d p u p1 : json_inv d p -> next p = Some (u, p1) -> idle p u p1 ->
  exists p2, next p1 = Some (u, p2) /\ idle p1 u p2 /\ perr p2 = perr p1.
Proof.
  intros Hinv Hn Hidle. pose proof (idle_core d p u p1 Hinv Hn Hidle) as Hc.
  pose proof (next_congr p p1 Hc) as Hr. rewrite Hn in Hr.
  destruct (next p1) as [[u2 p2]|]; cbn [res_rel] in Hr; [|contradiction].
  destruct Hr as (-> & (Hz & Hst & Hnd & Hrd) & Hperr).
  exists p2. split; [reflexivity|]. destruct Hidle as (Hu & Hpos & Hneed).
  split.
  - split; [exact Hu|]. destruct Hz as [_ Hp]. split; congruence.
  - destruct Hperr as [[A B]|A]; congruence.
Qed.

Theorem terminal_report_proof : forall d n p u p1,
  json_inv d p -> next p = Some (u, p1) -> idle p u p1 ->
  exists tr, trace n p1 = Some tr /\ length tr = n /\
    Forall (fun up => fst up = (G_Error, None) /\ lpos (pz (snd up)) = lpos (pz p1) /\
                      pst (snd up) = pst p1 /\ pneed (snd up) = pneed p1 /\ perr (snd up) = perr p1 /\
                      err_kind (snd up) = err_kind p1) tr.
Proof.
  intros d n. induction n as [|n IH]; intros p u p1 Hinv Hn Hidle.
  - exists []. repeat split. constructor.
  - destruct (idle_repeats d p u p1 Hinv Hn Hidle) as (p2 & Hn2 & Hidle2 & Hperr).
    assert (Hinv1 : json_inv d p1).
    { destruct (json_step_total_proof d p Hinv) as (u0 & p0 & E0 & Hi). rewrite Hn in E0. inversion E0; subst. exact Hi. }
    destruct (IH p1 u p2 Hinv1 Hn2 Hidle2) as (tr & Et & Hl & Hf).
    destruct (error_keeps_stack d p1 u p2 Hinv1 Hn2) as (Hst & Hprd & Hbuf & _).
    { destruct Hidle as (-> & _). reflexivity. }
    destruct Hidle2 as (Hu & Hpos & Hnd).
    assert (Hk : err_kind p2 = err_kind p1).
    { unfold err_kind. rewrite Hperr, Hprd. unfold at_end, lx_len. rewrite Hbuf, Hpos. reflexivity. }
    exists ((u, p2) :: tr). cbn [trace]. rewrite Hn2, Et. split; [reflexivity|]. split; [cbn; lia|].
    constructor; [cbn [fst snd]; repeat split; assumption|].
    eapply Forall_impl; [|exact Hf]. cbn beta. intros [u' p'] (A & B & C & D & E & F). cbn [fst snd] in *.
    repeat split; congruence.
Qed.

(* ---------------------------------------------------------------------------------------------- *)
(* the linear bound when the caller keeps calling after errors *)

Definition phi (d : list Z) (p : parser) : Z :=
  2 * (len d - lpos (pz p)) + (if pneed p then 0 else 1).

Lemma step_phi d p u p' : json_inv d p -> next p = Some (u, p') ->
  (if idle_b p u p' then 0 else 1) + phi d p' <= phi d p.
Proof.
  intros Hinv Hn. destruct (next_ok d p Hinv) as (u0 & p0 & E0 & Hinv' & _ & Hle & _ & Hm).
  rewrite Hn in E0. inversion E0; subst u0 p0.
  pose proof (json_inv_pos d p' Hinv') as Hpos'. unfold phi, idle_b.
  destruct (snd u) as [[lo b]|].
  - destruct Hm as (Hg & Hb & Hlo & _ & Hhi & _).
    destruct b as [|c b]; [congruence|]. pose proof (len_pos_cons c b).
    replace (fst u =? G_Error) with false by lia. cbn [andb].
    destruct (pneed p), (pneed p'); lia.
  - destruct Hm as (Hg & _ & Hnm). rewrite Hg. rewrite Z.eqb_refl. cbn [andb].
    destruct (Z.eqb_spec (lpos (pz p')) (lpos (pz p))) as [Heq|Hne]; cbn [andb].
    + destruct (Hnm Heq) as [H1|H1]; rewrite H1.
      * rewrite Bool.eqb_reflx. rewrite Heq. lia.
      * rewrite Heq. destruct (pneed p); cbn [Bool.eqb]; lia.
    + destruct (pneed p), (pneed p'); lia.
Qed.

Lemma trace_active d : forall n p tr, json_inv d p -> trace n p = Some tr ->
  count_active p tr + phi d (last_parser p tr) <= phi d p.
Proof.
  induction n as [|n IH]; intros p tr Hinv E; cbn [trace] in E.
  - inversion E; subst. unfold last_parser. cbn. lia.
  - destruct (next p) as [[u p']|] eqn:Hn; [|discriminate].
    destruct (trace n p') as [tr'|] eqn:E'; [|discriminate]. inversion E; subst tr.
    assert (Hinv' : json_inv d p').
    { destruct (json_step_total_proof d p Hinv) as (u0 & p0 & E0 & Hi). rewrite Hn in E0. inversion E0; subst. exact Hi. }
    pose proof (step_phi d p u p' Hinv Hn) as H1. pose proof (IH p' tr' Hinv' E') as H2.
    cbn [count_active]. rewrite last_parser_cons. lia.
Qed.

(* however the caller reacts to errors, at most 2 * len d + 1 calls are not terminal reports *)
Theorem active_calls_linear_proof : forall d n tr, trace n (json_init d) = Some tr ->
  count_active (json_init d) tr <= 2 * len d + 1.
Proof.
  intros d n tr E. pose proof (trace_active d n _ tr (json_inv_init d) E) as H.
  assert (Hl : json_inv d (last_parser (json_init d) tr)).
  { destruct (trace_steps_of d n _ tr (json_inv_init d) E) as [_ Hs]. apply (steps_last_inv d tr _ (json_inv_init d) Hs). }
  pose proof (json_inv_pos d _ Hl) as Hp. unfold phi in H. cbn [json_init pz lx_init lpos pneed] in H.
  destruct (pneed (last_parser (json_init d) tr)); lia.
Qed.

(* idle_b is the boolean form of idle *)
Lemma idle_b_idle d p u p' : json_inv d p -> next p = Some (u, p') -> idle_b p u p' = true -> idle p u p'.
Proof.
  intros Hinv Hn Hb. unfold idle_b in Hb. apply andb_true_iff in Hb. destruct Hb as [Hb Hnd].
  apply andb_true_iff in Hb. destruct Hb as [Hg Hpos]. apply Z.eqb_eq in Hg. apply Z.eqb_eq in Hpos.
  destruct (error_keeps_stack d p u p' Hinv Hn Hg) as (_ & _ & _ & Hs).
  split; [destruct u as [g o]; cbn in *; subst; reflexivity|]. split; [exact Hpos|].
  apply Bool.eqb_prop. exact Hnd.
Qed.

(* hence a caller that calls Next 2 * len d + 2 times, whatever it does about errors, has seen a terminal
   report: some call among them is idle *)
Theorem terminal_within_proof : forall d tr,
  trace (Z.to_nat (2 * len d + 2)) (json_init d) = Some tr ->
  exists pre u p1 post, tr = pre ++ (u, p1) :: post /\ idle (last_parser (json_init d) pre) u p1.
Proof.
  intros d tr E.
  pose proof (active_calls_linear_proof d _ tr E) as Hb.
  destruct (trace_steps_of d _ _ tr (json_inv_init d) E) as [Hlen _].
  assert (Hgen : forall n p tr, json_inv d p -> trace n p = Some tr ->
            count_active p tr = Z.of_nat (length tr) \/
            exists pre u p1 post, tr = pre ++ (u, p1) :: post /\ idle (last_parser p pre) u p1).
  { induction n as [|n IH]; intros p tr0 Hinv E0; cbn [trace] in E0.
    - inversion E0; subst. left. reflexivity.
    - destruct (next p) as [[u p']|] eqn:Hn; [|discriminate].
      destruct (trace n p') as [tr'|] eqn:E'; [|discriminate]. inversion E0; subst tr0.
      assert (Hinv' : json_inv d p').
      { destruct (json_step_total_proof d p Hinv) as (u0 & p0 & E1 & Hi). rewrite Hn in E1. inversion E1; subst. exact Hi. }
      destruct (idle_b p u p') eqn:Eb.
      + right. exists [], u, p', tr'. split; [reflexivity|]. apply (idle_b_idle d p u p' Hinv Hn Eb).
      + destruct (IH p' tr' Hinv' E') as [Hc|(pre & u1 & p1 & post & Et & Hi)].
        * left. cbn [count_active length]. rewrite Eb, Hc. lia.
        * right. exists ((u, p') :: pre), u1, p1, post. split; [rewrite Et; reflexivity|].
          rewrite last_parser_cons. exact Hi. }
  destruct (Hgen _ _ tr (json_inv_init d) E) as [Hc|Hex]; [|exact Hex].
  exfalso. rewrite Hc, Hlen in Hb. pose proof (len_nonneg d). lia.
Qed.

(* non-vacuity: on the input  1 1  the third call is a terminal report *)
Example ex_idle :
  let p := mkP (mkLx [49; 32; 49; 0] 2 2) [0] (Some 2) true 0 in
  exists tr, trace 2 (json_init [49; 32; 49]) = Some tr /\ last_parser (json_init []) tr = p /\
             json_inv [49; 32; 49] p /\ exists p1, next p = Some ((G_Error, None), p1) /\ idle p (G_Error, None) p1.
Proof.
  cbn zeta. destruct (trace_steps [49; 32; 49] 2 _ (json_inv_init _)) as (tr & E & _ & Hs).
  pose proof (steps_last_inv _ tr _ (json_inv_init _) Hs) as Hinv.
  vm_compute in E. inversion E; subst tr. clear E Hs.
  eexists. split; [vm_compute; reflexivity|]. split; [reflexivity|]. split; [exact Hinv|].
  eexists. split; [vm_compute; reflexivity|]. repeat split.
Qed.
