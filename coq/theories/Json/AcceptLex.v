(* Json/AcceptLex.v — the token consumers of the model accept exactly the tokens of the RFC 8259 grammar
   (string, number, literal) when the token is followed by a separator; strip_ws on tokens. *)
From Coq Require Import ZifyBool.
From Verif Require Import Common.Base Common.Tactics Common.Lx Json.Model Json.Lex Json.Grammar.

(* ---------------------------------------------------------------------------------------------- *)
(* the byte classes of the grammar and of the model coincide *)
Lemma g_ws_is_ws c : g_ws c = is_ws c.
Proof. unfold g_ws, is_ws. destruct (c =? 32), (c =? 9), (c =? 10), (c =? 13); reflexivity. Qed.
Lemma g_digit_is_digit c : g_digit c = is_digit c.
Proof. reflexivity. Qed.
Lemma g_digit19_d19 c : g_digit19 c = d19 c.
Proof. reflexivity. Qed.

Lemma ws_Forall w : ws w -> Forall (fun c => is_ws c = true) w.
Proof. intros H. induction H; constructor; [rewrite <- g_ws_is_ws|]; assumption. Qed.
Lemma digits_Forall l : digits l -> Forall (fun c => is_digit c = true) l.
Proof. intros H. exact H. Qed.

(* what may follow a value: end of input, whitespace, or , ] } *)
Definition follow (r : list Z) : Prop :=
  match r with [] => True | c :: _ => is_ws c = true \/ c = 44 \/ c = 93 \/ c = 125 end.

Lemma follow_not_digit r : follow r -> is_digit (hd0 r) = false.
Proof.
  destruct r as [|c r]; cbn [follow hd0]; [reflexivity|]. unfold is_ws, is_digit. intros H. lia.
Qed.
Lemma follow_not_dot r : follow r -> (hd0 r =? 46) = false.
Proof. destruct r as [|c r]; cbn [follow hd0]; [reflexivity|]. unfold is_ws. intros H. lia. Qed.
Lemma follow_not_e r : follow r -> ((hd0 r =? 101) || (hd0 r =? 69)) = false.
Proof. destruct r as [|c r]; cbn [follow hd0]; [reflexivity|]. unfold is_ws. intros H. lia. Qed.

(* ---------------------------------------------------------------------------------------------- *)
(* strings *)

Lemma esc_parity_negb l : forall b, esc_parity l (negb b) = negb (esc_parity l b).
Proof.
  induction l as [|c t IH]; intros b; cbn [esc_parity]; [reflexivity|].
  destruct (c =? 92); [apply IH|reflexivity].
Qed.

Lemma esc_parity_other c l b : c <> 92 -> esc_parity (c :: l) b = b.
Proof. intros H. cbn [esc_parity]. replace (c =? 92) with false by lia. reflexivity. Qed.

Lemma esc_parity_bs l : esc_parity (92 :: l) false = negb (esc_parity l false).
Proof. cbn [esc_parity]. rewrite Z.eqb_refl. apply (esc_parity_negb l false). Qed.

(* moving over a byte that is neither the quote nor NUL *)
Lemma str_split_step c revlex t : c <> 34 -> c <> 0 ->
  str_split revlex (c :: t) =
  (fst (str_split (c :: revlex) t), (c :: fst (snd (str_split (c :: revlex) t)), snd (snd (str_split (c :: revlex) t)))).
Proof.
  intros H1 H2. cbn [str_split]. replace (c =? 34) with false by lia. replace (c =? 0) with false by lia.
  reflexivity.
Qed.

(* moving over an escaped quote *)
Lemma str_split_escq revlex t : esc_parity revlex false = true ->
  str_split revlex (34 :: t) =
  (fst (str_split (34 :: revlex) t), (34 :: fst (snd (str_split (34 :: revlex) t)), snd (snd (str_split (34 :: revlex) t)))).
Proof. intros H. cbn [str_split]. rewrite Z.eqb_refl, H. reflexivity. Qed.

Lemma g_hex_facts h : g_hex h = true -> h <> 34 /\ h <> 0 /\ h <> 92.
Proof. unfold g_hex, g_digit. intros H. lia. Qed.

Lemma jchars_str_split cs r : jchars cs -> forall revlex, esc_parity revlex false = false ->
  str_split revlex (cs ++ 34 :: r) = (true, (cs ++ [34], r)).
Proof.
  intros H. induction H as [|c cs Hc1 Hc2 Hc3 Hcs IH|c cs Hc Hcs IH|h1 h2 h3 h4 cs H1 H2 H3 H4 Hcs IH];
    intros revlex Hp; cbn [app].
  - cbn [str_split]. rewrite Z.eqb_refl, Hp. reflexivity.
  - rewrite str_split_step by lia. rewrite IH; [reflexivity|]. rewrite esc_parity_other by lia. reflexivity.
  - rewrite str_split_step by lia.
    assert (Hp1 : esc_parity (92 :: revlex) false = true) by (rewrite esc_parity_bs, Hp; reflexivity).
    destruct (Z.eq_dec c 34) as [->|Hn34].
    + rewrite str_split_escq by exact Hp1. rewrite IH; [reflexivity|].
      rewrite esc_parity_other by lia. reflexivity.
    + assert (Hc0 : c <> 0) by (unfold g_esc1 in Hc; lia).
      rewrite str_split_step by assumption. rewrite IH; [reflexivity|].
      destruct (Z.eq_dec c 92) as [->|Hn92].
      * rewrite esc_parity_bs, Hp1. reflexivity.
      * rewrite esc_parity_other by assumption. reflexivity.
  - destruct (g_hex_facts _ H1) as (? & ? & ?). destruct (g_hex_facts _ H2) as (? & ? & ?).
    destruct (g_hex_facts _ H3) as (? & ? & ?). destruct (g_hex_facts _ H4) as (? & ? & ?).
    rewrite str_split_step by lia. rewrite (str_split_step 117) by lia.
    rewrite (str_split_step h1) by assumption. rewrite (str_split_step h2) by assumption.
    rewrite (str_split_step h3) by assumption. rewrite (str_split_step h4) by assumption.
    rewrite IH; [reflexivity|]. rewrite esc_parity_other by assumption. reflexivity.
Qed.

(* a grammar string at the cursor is consumed exactly, whatever follows *)
Lemma jstring_split k r : jstring k -> exists cs, k = 34 :: cs ++ [34] /\
  str_split (rev [34]) (cs ++ 34 :: r) = (true, (cs ++ [34], r)).
Proof.
  intros H. destruct H as [cs Hcs]. exists cs. split; [reflexivity|].
  apply jchars_str_split; [exact Hcs|reflexivity].
Qed.

(* ---------------------------------------------------------------------------------------------- *)
(* numbers *)

Lemma takew_digits ds r : digits ds -> is_digit (hd0 r) = false ->
  takew is_digit (ds ++ r) = ds /\ dropw is_digit (ds ++ r) = r.
Proof. intros Hd Hr. apply takew_app_stop; [apply digits_Forall; exact Hd|exact Hr]. Qed.

Lemma int_split_jint i r : jint i -> is_digit (hd0 r) = false -> int_split (i ++ r) = Some (i, r).
Proof.
  intros H Hr. destruct H as [|c ds Hc Hds]; cbn [app int_split].
  - reflexivity.
  - rewrite g_digit19_d19 in Hc. rewrite Hc.
    destruct (takew_digits ds r Hds Hr) as [-> ->]. reflexivity.
Qed.

Lemma frac_split_jfrac f r : jfrac f -> is_digit (hd0 r) = false -> (hd0 r =? 46) = false ->
  frac_split (f ++ r) = (f, r, true).
Proof.
  intros H Hr Hdot. destruct H as [|c ds Hc Hds]; cbn [app].
  - destruct r as [|c r]; cbn [frac_split]; [reflexivity|]. cbn [hd0] in Hdot. rewrite Hdot. reflexivity.
  - cbn [frac_split]. rewrite Z.eqb_refl. cbn [hd0 app]. rewrite g_digit_is_digit in Hc. rewrite Hc. cbn [negb].
    assert (Hds' : digits (c :: ds)) by (constructor; assumption).
    destruct (takew_digits (c :: ds) r Hds' Hr) as [E1 E2]. cbn [app] in E1, E2. rewrite E1, E2. reflexivity.
Qed.

Lemma exp_split_jexp e r : jexp e -> is_digit (hd0 r) = false -> ((hd0 r =? 101) || (hd0 r =? 69)) = false ->
  exp_split (e ++ r) = (e, r).
Proof.
  intros H Hr He. destruct H as [|e sg c ds Hee Hsg Hc Hds]; cbn [app].
  - destruct r as [|c r]; cbn [exp_split]; [reflexivity|]. cbn [hd0] in He. rewrite He. reflexivity.
  - rewrite g_digit_is_digit in Hc.
    assert (Hds' : digits (c :: ds)) by (constructor; assumption).
    destruct (takew_digits (c :: ds) r Hds' Hr) as [E1 E2]. cbn [app] in E1, E2.
    cbn [exp_split]. replace ((e =? 101) || (e =? 69)) with true by lia.
    destruct Hsg as [->|[->| ->]]; cbn [app].
    + assert (Hnc : ((c =? 43) || (c =? 45)) = false) by (unfold is_digit in Hc; lia).
      rewrite Hnc. rewrite Hc. cbn [negb]. rewrite E1, E2. reflexivity.
    + cbn [orb Z.eqb]. replace ((43 =? 43) || (43 =? 45)) with true by reflexivity.
      cbn [hd0 app]. rewrite Hc. cbn [negb]. rewrite E1, E2. reflexivity.
    + replace ((45 =? 43) || (45 =? 45)) with true by reflexivity.
      cbn [hd0 app]. rewrite Hc. cbn [negb]. rewrite E1, E2. reflexivity.
Qed.

Lemma jint_hd i r : jint i -> is_digit (hd0 (i ++ r)) = true.
Proof.
  intros [|c ds Hc _]; cbn [app hd0]; [reflexivity|]. unfold g_digit19 in Hc. unfold is_digit. lia.
Qed.

Lemma hd0_app_first (x r : list Z) : x <> [] -> hd0 (x ++ r) = hd0 x.
Proof. destruct x; [congruence|reflexivity]. Qed.

(* head of f ++ e ++ r for a fraction, exponent and a follower *)
Lemma tail_heads f e r : jfrac f -> jexp e -> follow r ->
  is_digit (hd0 (f ++ e ++ r)) = false /\
  is_digit (hd0 (e ++ r)) = false /\ (hd0 (e ++ r) =? 46) = false.
Proof.
  intros Hf He Hr.
  assert (He' : is_digit (hd0 (e ++ r)) = false /\ (hd0 (e ++ r) =? 46) = false).
  { destruct He as [|e0 sg c ds Hee _ _ _]; cbn [app hd0].
    - split; [apply follow_not_digit|apply follow_not_dot]; exact Hr.
    - unfold is_digit. lia. }
  split; [|exact He'].
  destruct Hf as [|c ds _ _]; cbn [app hd0]; [apply He'|reflexivity].
Qed.

Lemma jnumber_split n r : jnumber n -> follow r -> num_split (n ++ r) = Some (n, r).
Proof.
  intros H Hr. destruct H as [m i f e Hm Hi Hf He].
  destruct (tail_heads f e r Hf He Hr) as (H1 & H2 & H3).
  unfold num_split. rewrite <- !app_assoc.
  assert (Hs : sign_split (m ++ i ++ f ++ e ++ r) = (m, i ++ f ++ e ++ r)).
  { destruct Hm as [->| ->]; cbn [app].
    - pose proof (jint_hd i (f ++ e ++ r) Hi) as Hd.
      destruct (i ++ f ++ e ++ r) as [|c t] eqn:E; [reflexivity|].
      cbn [sign_split]. cbn [hd0] in Hd. unfold is_digit in Hd. replace (c =? 45) with false by lia. reflexivity.
    - reflexivity. }
  rewrite Hs.
  rewrite (int_split_jint i (f ++ e ++ r) Hi H1).
  rewrite (frac_split_jfrac f (e ++ r) Hf H2 H3).
  rewrite (exp_split_jexp e r He (follow_not_digit r Hr) (follow_not_e r Hr)).
  reflexivity.
Qed.

Lemma jnumber_hd n r : jnumber n -> hd0 (n ++ r) = 45 \/ is_digit (hd0 (n ++ r)) = true.
Proof.
  intros [m i f e Hm Hi Hf He]. rewrite <- !app_assoc. destruct Hm as [->| ->]; cbn [app hd0].
  - right. apply jint_hd. exact Hi.
  - left. reflexivity.
Qed.

Lemma jnumber_nonempty n : jnumber n -> n <> [].
Proof.
  intros [m i f e Hm Hi Hf He]. destruct Hi; destruct Hm as [->| ->]; discriminate.
Qed.

(* ---------------------------------------------------------------------------------------------- *)
(* literals *)

Lemma lit_split_true r : lit_split (L_TRUE ++ r) = Some (L_TRUE, r).
Proof. reflexivity. Qed.
Lemma lit_split_false r : lit_split (L_FALSE ++ r) = Some (L_FALSE, r).
Proof. reflexivity. Qed.
Lemma lit_split_null r : lit_split (L_NULL ++ r) = Some (L_NULL, r).
Proof. reflexivity. Qed.
Lemma num_split_true r : num_split (L_TRUE ++ r) = None.
Proof. reflexivity. Qed.
Lemma num_split_false r : num_split (L_FALSE ++ r) = None.
Proof. reflexivity. Qed.
Lemma num_split_null r : num_split (L_NULL ++ r) = None.
Proof. reflexivity. Qed.

(* ---------------------------------------------------------------------------------------------- *)
(* strip_ws on tokens and on derivations *)

(* x leaves strip_ws in its initial mode (outside a string): it distributes over what follows *)
Definition balanced (x : list Z) : Prop := forall r, strip_ws (x ++ r) = strip_ws x ++ strip_ws r.

Lemma balanced_nil : balanced [].
Proof. intros r. reflexivity. Qed.

Lemma balanced_app x y : balanced x -> balanced y -> balanced (x ++ y).
Proof.
  intros Hx Hy r. rewrite <- app_assoc. rewrite Hx, Hy. rewrite Hx. rewrite app_assoc. reflexivity.
Qed.

Lemma strip_app x y : balanced x -> strip_ws (x ++ y) = strip_ws x ++ strip_ws y.
Proof. intros H. apply H. Qed.

Lemma ws_strip w : ws w -> strip_ws w = [] /\ balanced w.
Proof.
  intros H. induction H as [|c w Hc Hw [IH1 IH2]].
  - split; [reflexivity|apply balanced_nil].
  - split.
    + unfold strip_ws. cbn [strip_aux]. rewrite Hc. exact IH1.
    + intros r. unfold strip_ws. cbn [app strip_aux]. rewrite Hc. apply IH2.
Qed.

(* bytes that are neither whitespace nor the quote *)
Definition plainc (c : Z) : Prop := g_ws c = false /\ c <> 34.

Lemma plain_strip x : Forall plainc x -> strip_ws x = x /\ balanced x.
Proof.
  intros H. induction H as [|c x [Hc1 Hc2] Hx [IH1 IH2]].
  - split; [reflexivity|apply balanced_nil].
  - split.
    + unfold strip_ws. cbn [strip_aux]. rewrite Hc1. replace (c =? 34) with false by lia. f_equal. exact IH1.
    + intros r. unfold strip_ws. cbn [app strip_aux]. rewrite Hc1. replace (c =? 34) with false by lia.
      cbn [app]. f_equal. apply IH2.
Qed.

Lemma strip1 c : plainc c -> strip_ws [c] = [c] /\ balanced [c].
Proof. intros H. apply plain_strip. constructor; [exact H|constructor]. Qed.

Lemma plainc_struct c : c = 91 \/ c = 93 \/ c = 123 \/ c = 125 \/ c = 44 \/ c = 58 -> plainc c.
Proof. intros H. unfold plainc, g_ws. lia. Qed.

Lemma jchars_strip cs r : jchars cs ->
  strip_aux true false (cs ++ 34 :: r) = cs ++ 34 :: strip_aux false false r.
Proof.
  intros H. induction H as [|c cs Hc1 Hc2 Hc3 Hcs IH|c cs Hc Hcs IH|h1 h2 h3 h4 cs H1 H2 H3 H4 Hcs IH];
    cbn [app strip_aux].
  - reflexivity.
  - replace (c =? 92) with false by lia. replace (c =? 34) with false by lia. rewrite IH. reflexivity.
  - rewrite IH. reflexivity.
  - destruct (g_hex_facts _ H1) as (? & ? & ?). destruct (g_hex_facts _ H2) as (? & ? & ?).
    destruct (g_hex_facts _ H3) as (? & ? & ?). destruct (g_hex_facts _ H4) as (? & ? & ?).
    replace (h1 =? 92) with false by lia. replace (h1 =? 34) with false by lia.
    replace (h2 =? 92) with false by lia. replace (h2 =? 34) with false by lia.
    replace (h3 =? 92) with false by lia. replace (h3 =? 34) with false by lia.
    replace (h4 =? 92) with false by lia. replace (h4 =? 34) with false by lia.
    rewrite IH. reflexivity.
Qed.

Lemma jstring_strip k : jstring k -> strip_ws k = k /\ balanced k.
Proof.
  intros [cs Hcs].
  assert (H : forall r, strip_ws ((34 :: cs ++ [34]) ++ r) = (34 :: cs ++ [34]) ++ strip_ws r).
  { intros r. unfold strip_ws. cbn [app strip_aux]. cbn [g_ws Z.eqb orb].
    change (g_ws 34) with false. cbn iota. rewrite <- app_assoc. cbn [app].
    rewrite (jchars_strip cs r Hcs). rewrite <- app_assoc. reflexivity. }
  assert (H0 : strip_ws (34 :: cs ++ [34]) = 34 :: cs ++ [34]).
  { specialize (H []). rewrite !app_nil_r in H. exact H. }
  split; [exact H0|]. intros r. rewrite H, H0. reflexivity.
Qed.

Lemma Forall_plainc_digits ds : digits ds -> Forall plainc ds.
Proof.
  intros H. induction H as [|c ds Hc Hds IH]; constructor; [|exact IH].
  unfold plainc, g_ws. unfold g_digit in Hc. lia.
Qed.

Lemma jnumber_plain n : jnumber n -> Forall plainc n.
Proof.
  intros [m i f e Hm Hi Hf He].
  apply Forall_app; split; [|apply Forall_app; split; [|apply Forall_app; split]].
  - destruct Hm as [->| ->]; [constructor|]. constructor; [unfold plainc, g_ws; lia|constructor].
  - destruct Hi as [|c ds Hc Hds]; [constructor; [unfold plainc, g_ws; lia|constructor]|].
    constructor; [unfold plainc, g_ws; unfold g_digit19 in Hc; lia|apply Forall_plainc_digits; exact Hds].
  - destruct Hf as [|c ds Hc Hds]; [constructor|].
    constructor; [unfold plainc, g_ws; lia|].
    constructor; [unfold plainc, g_ws; unfold g_digit in Hc; lia|apply Forall_plainc_digits; exact Hds].
  - destruct He as [|e0 sg c ds Hee Hsg Hc Hds]; [constructor|].
    constructor; [unfold plainc, g_ws; lia|]. apply Forall_app. split.
    + destruct Hsg as [->|[->| ->]]; [constructor| |]; (constructor; [unfold plainc, g_ws; lia|constructor]).
    + constructor; [unfold plainc, g_ws; unfold g_digit in Hc; lia|apply Forall_plainc_digits; exact Hds].
Qed.

Lemma jnumber_strip n : jnumber n -> strip_ws n = n /\ balanced n.
Proof. intros H. apply plain_strip. apply jnumber_plain. exact H. Qed.

Lemma lit_strip x : x = L_TRUE \/ x = L_FALSE \/ x = L_NULL -> strip_ws x = x /\ balanced x.
Proof.
  intros H. apply plain_strip.
  destruct H as [->|[->| ->]]; repeat constructor; unfold g_ws; try lia.
Qed.

Scheme jvalue_mut := Induction for jvalue Sort Prop
  with jelems_mut := Induction for jelems Sort Prop
  with jmembers_mut := Induction for jmembers Sort Prop.
Combined Scheme json_mutind from jvalue_mut, jelems_mut, jmembers_mut.

Lemma json_balanced :
  (forall v, jvalue v -> balanced v) /\ (forall els, jelems els -> balanced els) /\
  (forall ms, jmembers ms -> balanced ms).
Proof.
  assert (Hc : forall c, c = 91 \/ c = 93 \/ c = 123 \/ c = 125 \/ c = 44 \/ c = 58 -> balanced [c]).
  { intros c H. apply strip1. apply plainc_struct. exact H. }
  apply json_mutind; intros.
  - apply lit_strip; auto.
  - apply lit_strip; auto.
  - apply lit_strip; auto.
  - apply jnumber_strip; assumption.
  - apply jstring_strip; assumption.
  - change (91 :: w ++ [93]) with ([91] ++ w ++ [93]).
    apply balanced_app; [apply Hc; lia|]. apply balanced_app; [apply ws_strip; assumption|apply Hc; lia].
  - change (91 :: els ++ [93]) with ([91] ++ els ++ [93]).
    apply balanced_app; [apply Hc; lia|]. apply balanced_app; [assumption|apply Hc; lia].
  - change (123 :: w ++ [125]) with ([123] ++ w ++ [125]).
    apply balanced_app; [apply Hc; lia|]. apply balanced_app; [apply ws_strip; assumption|apply Hc; lia].
  - change (123 :: ms ++ [125]) with ([123] ++ ms ++ [125]).
    apply balanced_app; [apply Hc; lia|]. apply balanced_app; [assumption|apply Hc; lia].
  - apply balanced_app; [apply ws_strip; assumption|]. apply balanced_app; [assumption|apply ws_strip; assumption].
  - apply balanced_app; [apply ws_strip; assumption|]. apply balanced_app; [assumption|].
    apply balanced_app; [apply ws_strip; assumption|].
    change (44 :: r) with ([44] ++ r). apply balanced_app; [apply Hc; lia|assumption].
  - apply balanced_app; [apply ws_strip; assumption|]. apply balanced_app; [apply jstring_strip; assumption|].
    apply balanced_app; [apply ws_strip; assumption|].
    change (58 :: w3 ++ v ++ w4) with ([58] ++ w3 ++ v ++ w4). apply balanced_app; [apply Hc; lia|].
    apply balanced_app; [apply ws_strip; assumption|]. apply balanced_app; [assumption|apply ws_strip; assumption].
  - apply balanced_app; [apply ws_strip; assumption|]. apply balanced_app; [apply jstring_strip; assumption|].
    apply balanced_app; [apply ws_strip; assumption|].
    change (58 :: w3 ++ v ++ w4 ++ 44 :: r) with ([58] ++ w3 ++ v ++ w4 ++ [44] ++ r).
    apply balanced_app; [apply Hc; lia|].
    apply balanced_app; [apply ws_strip; assumption|]. apply balanced_app; [assumption|].
    apply balanced_app; [apply ws_strip; assumption|]. apply balanced_app; [apply Hc; lia|assumption].
Qed.
