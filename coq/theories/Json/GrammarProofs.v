(* Json/GrammarProofs.v — the executable recogniser valid_b accepts exactly the documents of the inductive
   RFC 8259 grammar: valid_b d = true <-> value d. *)
From Coq Require Import ZifyBool.
From Verif Require Import Common.Base Common.Tactics Json.Grammar.

(* ---------------------------------------------------------------------------------------------- *)
(* whitespace and digit runs *)

Lemma skip_ws_split l : exists w, ws w /\ l = w ++ skip_ws l.
Proof.
  induction l as [|c t (w & Hw & Ht)]; [exists []; split; [constructor|reflexivity]|].
  cbn [skip_ws]. destruct (g_ws c) eqn:E.
  - exists (c :: w). split; [constructor; assumption|]. cbn [app]. f_equal. exact Ht.
  - exists []. split; [constructor|reflexivity].
Qed.

Lemma skip_ws_app w x : ws w -> skip_ws (w ++ x) = skip_ws x.
Proof. intros H. induction H as [|c w Hc Hw IH]; [reflexivity|]. cbn [app skip_ws]. rewrite Hc. exact IH. Qed.

Lemma skip_ws_cons c t : g_ws c = false -> skip_ws (c :: t) = c :: t.
Proof. intros H. cbn [skip_ws]. rewrite H. reflexivity. Qed.

Lemma skip_ws_to w c t : ws w -> g_ws c = false -> skip_ws (w ++ c :: t) = c :: t.
Proof. intros Hw Hc. rewrite skip_ws_app by exact Hw. apply skip_ws_cons. exact Hc. Qed.

Lemma skip_ws_all w : ws w -> skip_ws w = [].
Proof. intros H. rewrite <- (app_nil_r w). rewrite skip_ws_app by exact H. reflexivity. Qed.

Lemma skip_digits_split l : exists ds, digits ds /\ l = ds ++ skip_digits l.
Proof.
  induction l as [|c t (ds & Hd & Ht)]; [exists []; split; [constructor|reflexivity]|].
  cbn [skip_digits]. destruct (g_digit c) eqn:E.
  - exists (c :: ds). split; [constructor; assumption|]. cbn [app]. f_equal. exact Ht.
  - exists []. split; [constructor|reflexivity].
Qed.

Definition hdz0 (l : list Z) : Z := match l with c :: _ => c | [] => 0 end.

Lemma skip_digits_app ds r : digits ds -> g_digit (hdz0 r) = false -> skip_digits (ds ++ r) = r.
Proof.
  intros H Hr. induction H as [|c ds Hc Hd IH]; cbn [app].
  - destruct r as [|x r]; [reflexivity|]. cbn [skip_digits]. cbn [hdz0] in Hr. rewrite Hr. reflexivity.
  - cbn [skip_digits]. rewrite Hc. exact IH.
Qed.

(* ---------------------------------------------------------------------------------------------- *)
(* strings *)

Lemma p_chars_sound : forall n l r, (length l <= n)%nat -> p_chars l = Some r ->
  exists cs, jchars cs /\ l = cs ++ 34 :: r.
Proof.
  induction n as [|n IH]; intros l r Hlen H.
  { destruct l; [discriminate|cbn in Hlen; lia]. }
  destruct l as [|c t]; [discriminate|]. cbn [p_chars] in H. cbn [length] in Hlen.
  destruct (c =? 34) eqn:E34.
  { inversion H; subst. exists []. split; [constructor|]. cbn [app]. f_equal. lia. }
  destruct (c =? 92) eqn:E92.
  - destruct t as [|e t1]; [discriminate|]. cbn [length] in Hlen.
    destruct (g_esc1 e) eqn:Ee.
    + destruct (IH t1 r ltac:(lia) H) as (cs & Hcs & ->).
      exists (92 :: e :: cs). split; [apply jc_esc; assumption|]. cbn [app]. f_equal. lia.
    + destruct (e =? 117) eqn:Eu; [|discriminate].
      destruct t1 as [|h1 [|h2 [|h3 [|h4 t2]]]]; try discriminate. cbn [length] in Hlen.
      destruct (g_hex h1 && g_hex h2 && g_hex h3 && g_hex h4) eqn:Eh; [|discriminate].
      apply andb_true_iff in Eh. destruct Eh as [Eh H4]. apply andb_true_iff in Eh. destruct Eh as [Eh H3].
      apply andb_true_iff in Eh. destruct Eh as [H1 H2].
      destruct (IH t2 r ltac:(lia) H) as (cs & Hcs & ->).
      exists (92 :: 117 :: h1 :: h2 :: h3 :: h4 :: cs). split; [apply jc_uni; assumption|].
      cbn [app]. f_equal; [lia|]. f_equal. lia.
  - destruct (32 <=? c) eqn:E32; [|discriminate].
    destruct (IH t r ltac:(lia) H) as (cs & Hcs & ->).
    exists (c :: cs). split; [apply jc_plain; try lia; assumption|]. reflexivity.
Qed.

Lemma p_chars_complete cs r : jchars cs -> p_chars (cs ++ 34 :: r) = Some r.
Proof.
  intros H. induction H as [|c cs Hc1 Hc2 Hc3 Hcs IH|c cs Hc Hcs IH|h1 h2 h3 h4 cs H1 H2 H3 H4 Hcs IH];
    cbn [app p_chars].
  - reflexivity.
  - replace (c =? 34) with false by lia. replace (c =? 92) with false by lia.
    replace (32 <=? c) with true by lia. exact IH.
  - rewrite Hc. exact IH.
  - change (g_esc1 117) with false. cbn iota. rewrite H1, H2, H3, H4. exact IH.
Qed.

(* ---------------------------------------------------------------------------------------------- *)
(* numbers *)

Lemma p_digits1_sound l r : p_digits1 l = Some r -> exists c ds, g_digit c = true /\ digits ds /\ l = c :: ds ++ r.
Proof.
  destruct l as [|c t]; [discriminate|]. cbn [p_digits1]. destruct (g_digit c) eqn:E; [|discriminate].
  intros H. inversion H; subst. destruct (skip_digits_split t) as (ds & Hd & Ht).
  exists c, ds. split; [exact E|]. split; [exact Hd|]. f_equal. exact Ht.
Qed.

Lemma p_digits1_complete c ds r : g_digit c = true -> digits ds -> g_digit (hdz0 r) = false ->
  p_digits1 (c :: ds ++ r) = Some r.
Proof. intros Hc Hd Hr. cbn [p_digits1]. rewrite Hc. rewrite skip_digits_app by assumption. reflexivity. Qed.

Lemma p_int_sound l r : p_int l = Some r -> exists i, jint i /\ l = i ++ r.
Proof.
  destruct l as [|c t]; [discriminate|]. cbn [p_int]. destruct (c =? 48) eqn:E0.
  - intros H. inversion H; subst. exists [48]. split; [constructor|]. cbn [app]. f_equal. lia.
  - destruct (g_digit19 c) eqn:E; [|discriminate]. intros H. inversion H; subst.
    destruct (skip_digits_split t) as (ds & Hd & Ht). exists (c :: ds). split; [constructor; assumption|].
    cbn [app]. f_equal. exact Ht.
Qed.

Lemma p_frac_sound l r : p_frac l = Some r -> exists f, jfrac f /\ l = f ++ r.
Proof.
  destruct l as [|c t]; cbn [p_frac].
  - intros H. inversion H. exists []. split; [constructor|reflexivity].
  - destruct (c =? 46) eqn:E.
    + intros H. destruct (p_digits1_sound _ _ H) as (x & ds & Hx & Hd & ->).
      exists (46 :: x :: ds). split; [constructor; assumption|]. cbn [app]. f_equal. lia.
    + intros H. inversion H. exists []. split; [constructor|reflexivity].
Qed.

Lemma p_exp_sound l r : p_exp l = Some r -> exists e, jexp e /\ l = e ++ r.
Proof.
  destruct l as [|c t]; cbn [p_exp].
  - intros H. inversion H. exists []. split; [constructor|reflexivity].
  - destruct ((c =? 101) || (c =? 69)) eqn:E.
    + destruct t as [|s t1]; [discriminate|].
      destruct ((s =? 43) || (s =? 45)) eqn:Es.
      * intros H. destruct (p_digits1_sound _ _ H) as (x & ds & Hx & Hd & ->).
        exists (c :: [s] ++ x :: ds). split; [|reflexivity].
        apply je_some; try assumption; [lia|].
        assert (Hs : s = 43 \/ s = 45) by lia. destruct Hs as [->| ->]; auto.
      * intros H. destruct (p_digits1_sound _ _ H) as (x & ds & Hx & Hd & Ht).
        exists (c :: [] ++ x :: ds). split; [apply je_some; try assumption; [lia|auto]|].
        cbn [app]. f_equal. exact Ht.
    + intros H. inversion H. exists []. split; [constructor|reflexivity].
Qed.

Lemma p_number_sound l r : p_number l = Some r -> exists n, jnumber n /\ l = n ++ r.
Proof.
  unfold p_number. intros H.
  assert (Hm : exists m l1, (m = [] \/ m = [45]) /\ l = m ++ l1 /\
               match l with c :: t => if c =? 45 then t else l | [] => l end = l1).
  { destruct l as [|c t]; [exists [], []; auto|]. destruct (c =? 45) eqn:E.
    - exists [45], t. split; [auto|]. split; [cbn; f_equal; lia|reflexivity].
    - exists [], (c :: t). auto. }
  destruct Hm as (m & l1 & Hm & Hl & E). rewrite E in H.
  destruct (p_int l1) as [l2|] eqn:E2; [|discriminate]. cbn [option_bind] in H.
  destruct (p_frac l2) as [l3|] eqn:E3; [|discriminate]. cbn [option_bind] in H.
  destruct (p_int_sound _ _ E2) as (i & Hi & ->). destruct (p_frac_sound _ _ E3) as (f & Hf & ->).
  destruct (p_exp_sound _ _ H) as (e & He & ->).
  exists (m ++ i ++ f ++ e). split; [constructor; assumption|]. rewrite Hl. rewrite <- !app_assoc. reflexivity.
Qed.

(* what may follow a value *)
Definition gfollow (r : list Z) : Prop :=
  match r with [] => True | c :: _ => g_ws c = true \/ c = 44 \/ c = 93 \/ c = 125 end.

Lemma gfollow_facts r : gfollow r ->
  g_digit (hdz0 r) = false /\ (hdz0 r =? 46) = false /\ ((hdz0 r =? 101) || (hdz0 r =? 69)) = false.
Proof.
  destruct r as [|c r]; cbn [gfollow hdz0]; [auto|]. unfold g_ws, g_digit. intros H. repeat split; lia.
Qed.

Lemma p_exp_complete e r : jexp e -> gfollow r -> p_exp (e ++ r) = Some r.
Proof.
  intros H Hr. destruct (gfollow_facts r Hr) as (Hd & _ & He).
  destruct H as [|e0 sg c ds Hee Hsg Hc Hds]; cbn [app].
  - destruct r as [|x r]; [reflexivity|]. cbn [p_exp]. cbn [hdz0] in He. rewrite He. reflexivity.
  - cbn [p_exp]. replace ((e0 =? 101) || (e0 =? 69)) with true by lia.
    destruct Hsg as [->|[->| ->]]; cbn [app].
    + assert (Hnc : ((c =? 43) || (c =? 45)) = false) by (unfold g_digit in Hc; lia).
      rewrite Hnc. apply p_digits1_complete; assumption.
    + change ((43 =? 43) || (43 =? 45)) with true. cbn iota. apply p_digits1_complete; assumption.
    + change ((45 =? 43) || (45 =? 45)) with true. cbn iota. apply p_digits1_complete; assumption.
Qed.

Lemma jexp_hd e r : jexp e -> gfollow r -> g_digit (hdz0 (e ++ r)) = false /\ (hdz0 (e ++ r) =? 46) = false.
Proof.
  intros H Hr. destruct (gfollow_facts r Hr) as (Hd & Hdot & _).
  destruct H as [|e0 sg c ds Hee _ _ _]; cbn [app hdz0]; [auto|]. unfold g_digit. split; lia.
Qed.

Lemma p_frac_complete f r : jfrac f -> g_digit (hdz0 r) = false -> (hdz0 r =? 46) = false ->
  p_frac (f ++ r) = Some r.
Proof.
  intros H Hd Hdot. destruct H as [|c ds Hc Hds]; cbn [app].
  - destruct r as [|x r]; [reflexivity|]. cbn [p_frac]. cbn [hdz0] in Hdot. rewrite Hdot. reflexivity.
  - cbn [p_frac]. change (46 =? 46) with true. cbn iota. apply p_digits1_complete; assumption.
Qed.

Lemma p_int_complete i r : jint i -> g_digit (hdz0 r) = false -> p_int (i ++ r) = Some r.
Proof.
  intros H Hd. destruct H as [|c ds Hc Hds]; cbn [app p_int].
  - reflexivity.
  - replace (c =? 48) with false by (unfold g_digit19 in Hc; lia). rewrite Hc.
    rewrite skip_digits_app by assumption. reflexivity.
Qed.

Lemma p_number_complete n r : jnumber n -> gfollow r -> p_number (n ++ r) = Some r.
Proof.
  intros H Hr. destruct H as [m i f e Hm Hi Hf He]. unfold p_number. rewrite <- !app_assoc.
  destruct (jexp_hd e r He Hr) as [Hd2 Hdot2].
  assert (Hd1 : g_digit (hdz0 (f ++ e ++ r)) = false).
  { destruct Hf as [|c ds _ _]; cbn [app hdz0]; [exact Hd2|reflexivity]. }
  assert (Hs : match m ++ i ++ f ++ e ++ r with c :: t => if c =? 45 then t else m ++ i ++ f ++ e ++ r
               | [] => m ++ i ++ f ++ e ++ r end = i ++ f ++ e ++ r).
  { destruct Hm as [->| ->]; cbn [app]; [|reflexivity].
    destruct Hi as [|c ds Hc _]; cbn [app]; [reflexivity|].
    replace (c =? 45) with false by (unfold g_digit19 in Hc; lia). reflexivity. }
  rewrite Hs. rewrite (p_int_complete i _ Hi Hd1). cbn [option_bind].
  rewrite (p_frac_complete f _ Hf Hd2 Hdot2). cbn [option_bind].
  apply p_exp_complete; assumption.
Qed.

(* ---------------------------------------------------------------------------------------------- *)
(* literals *)

Lemma p_lit_sound pat : forall l r, p_lit pat l = Some r -> l = pat ++ r.
Proof.
  induction pat as [|c pt IH]; intros l r H; cbn [p_lit] in H; [cbn; congruence|].
  destruct l as [|x t]; [discriminate|]. destruct (x =? c) eqn:E; [|discriminate].
  cbn [app]. f_equal; [lia|]. apply IH. exact H.
Qed.

Lemma p_lit_complete pat r : p_lit pat (pat ++ r) = Some r.
Proof. induction pat as [|c pt IH]; cbn [app p_lit]; [reflexivity|]. rewrite Z.eqb_refl. exact IH. Qed.

(* ---------------------------------------------------------------------------------------------- *)
(* soundness of p_json *)

Definition sound_res (m : pmode) (l r : list Z) : Prop :=
  match m with
  | MValue => exists v, jvalue v /\ l = v ++ r
  | MElems => exists body, (forall w1, ws w1 -> jelems (w1 ++ body)) /\ l = body ++ 93 :: r
  | MMembers => exists body, (forall w1, ws w1 -> jmembers (w1 ++ body)) /\ l = body ++ 125 :: r
  end.

Lemma skip_ws_cons_split r c t : skip_ws r = c :: t -> exists w, ws w /\ r = w ++ c :: t.
Proof. intros H. destruct (skip_ws_split r) as (w & Hw & Hr). exists w. rewrite H in Hr. auto. Qed.

Lemma p_json_sound : forall fuel m l r, p_json fuel m l = Some r -> sound_res m l r.
Proof.
  induction fuel as [|k IH]; intros m l r H; [discriminate|]. cbn [p_json] in H.
  destruct m; cbn [sound_res].
  - (* value *)
    destruct l as [|c t]; [discriminate|].
    destruct (c =? 34) eqn:E34.
    { destruct (p_chars_sound (length t) t r (le_n _) H) as (cs & Hcs & ->).
      exists (34 :: cs ++ [34]). split; [apply jv_str; constructor; exact Hcs|].
      cbn [app]. rewrite <- app_assoc. f_equal. lia. }
    destruct (c =? 91) eqn:E91.
    { assert (c = 91) by lia. subst c.
      destruct (skip_ws t) as [|c1 t1] eqn:Es; [discriminate|].
      destruct (skip_ws_cons_split _ _ _ Es) as (w & Hw & ->).
      destruct (c1 =? 93) eqn:E93.
      - inversion H; subst. assert (c1 = 93) by lia. subst c1.
        exists (91 :: w ++ [93]). split; [apply jv_arr_empty; exact Hw|].
        cbn [app]. rewrite <- app_assoc. reflexivity.
      - destruct (IH MElems _ _ H) as (body & Hb & E). cbn [sound_res] in *.
        exists (91 :: (w ++ body) ++ [93]). split; [apply jv_arr; apply Hb; exact Hw|].
        cbn [app]. rewrite E. rewrite <- !app_assoc. reflexivity. }
    destruct (c =? 123) eqn:E123.
    { assert (c = 123) by lia. subst c.
      destruct (skip_ws t) as [|c1 t1] eqn:Es; [discriminate|].
      destruct (skip_ws_cons_split _ _ _ Es) as (w & Hw & ->).
      destruct (c1 =? 125) eqn:E125.
      - inversion H; subst. assert (c1 = 125) by lia. subst c1.
        exists (123 :: w ++ [125]). split; [apply jv_obj_empty; exact Hw|].
        cbn [app]. rewrite <- app_assoc. reflexivity.
      - destruct (IH MMembers _ _ H) as (body & Hb & E). cbn [sound_res] in *.
        exists (123 :: (w ++ body) ++ [125]). split; [apply jv_obj; apply Hb; exact Hw|].
        cbn [app]. rewrite E. rewrite <- !app_assoc. reflexivity. }
    destruct (c =? 116). { exists L_TRUE. split; [constructor|apply p_lit_sound; exact H]. }
    destruct (c =? 102). { exists L_FALSE. split; [constructor|apply p_lit_sound; exact H]. }
    destruct (c =? 110). { exists L_NULL. split; [constructor|apply p_lit_sound; exact H]. }
    destruct (p_number_sound _ _ H) as (n & Hn & E). exists n. split; [apply jv_num; exact Hn|exact E].
  - (* elements *)
    destruct (p_json k MValue l) as [r1|] eqn:E1; [|discriminate]. cbn [option_bind] in H.
    destruct (IH MValue _ _ E1) as (v & Hv & ->).
    destruct (skip_ws r1) as [|c t] eqn:Es; [discriminate|].
    destruct (skip_ws_cons_split _ _ _ Es) as (w2 & Hw2 & ->).
    destruct (c =? 44) eqn:E44.
    + assert (c = 44) by lia. subst c.
      destruct (IH MElems _ _ H) as (body & Hb & E). cbn [sound_res] in *.
      destruct (skip_ws_split t) as (w1' & Hw1' & Ht). rewrite E in Ht.
      exists (v ++ w2 ++ 44 :: (w1' ++ body)). split.
      * intros w1 Hw1. apply jel_more; try assumption. apply Hb. exact Hw1'.
      * rewrite Ht. rewrite <- !app_assoc. cbn [app]. rewrite <- !app_assoc. reflexivity.
    + destruct (c =? 93) eqn:E93; [|discriminate]. inversion H; subst. assert (c = 93) by lia. subst c.
      exists (v ++ w2). split.
      * intros w1 Hw1. apply jel_one; assumption.
      * rewrite <- !app_assoc. reflexivity.
  - (* members *)
    destruct l as [|c t]; [discriminate|].
    destruct (c =? 34) eqn:E34; [|discriminate]. assert (c = 34) by lia. subst c.
    destruct (p_chars t) as [r0|] eqn:Ek; [|discriminate]. cbn [option_bind] in H.
    destruct (p_chars_sound (length t) t r0 (le_n _) Ek) as (cs & Hcs & ->).
    destruct (skip_ws r0) as [|c1 t1] eqn:Es; [discriminate|].
    destruct (skip_ws_cons_split _ _ _ Es) as (w2 & Hw2 & ->).
    destruct (c1 =? 58) eqn:E58; [|discriminate]. assert (c1 = 58) by lia. subst c1.
    destruct (p_json k MValue (skip_ws t1)) as [r2|] eqn:E2; [|discriminate]. cbn [option_bind] in H.
    destruct (IH MValue _ _ E2) as (v & Hv & Ev).
    destruct (skip_ws_split t1) as (w3 & Hw3 & Ht1). rewrite Ev in Ht1.
    destruct (skip_ws r2) as [|c2 t2] eqn:Es2; [discriminate|].
    destruct (skip_ws_cons_split _ _ _ Es2) as (w4 & Hw4 & ->).
    assert (Hk : jstring (34 :: cs ++ [34])) by (constructor; exact Hcs).
    destruct (c2 =? 44) eqn:E44.
    + assert (c2 = 44) by lia. subst c2.
      destruct (IH MMembers _ _ H) as (body & Hb & E). cbn [sound_res] in *.
      destruct (skip_ws_split t2) as (w1' & Hw1' & Ht2). rewrite E in Ht2.
      exists ((34 :: cs ++ [34]) ++ w2 ++ 58 :: w3 ++ v ++ w4 ++ 44 :: (w1' ++ body)). split.
      * intros w1 Hw1. apply jm_more; try assumption. apply Hb. exact Hw1'.
      * rewrite Ht1, Ht2. cbn [app]. rewrite <- !app_assoc. cbn [app]. rewrite <- !app_assoc. cbn [app].
        rewrite <- !app_assoc. reflexivity.
    + destruct (c2 =? 125) eqn:E125; [|discriminate]. inversion H; subst. assert (c2 = 125) by lia. subst c2.
      exists ((34 :: cs ++ [34]) ++ w2 ++ 58 :: w3 ++ v ++ w4). split.
      * intros w1 Hw1. apply jm_one; assumption.
      * cbn [app]. repeat (rewrite <- app_assoc; cbn [app]). reflexivity.
Qed.

(* ---------------------------------------------------------------------------------------------- *)
(* completeness of p_json *)

Scheme jvalue_gmin := Minimality for jvalue Sort Prop
  with jelems_gmin := Minimality for jelems Sort Prop
  with jmembers_gmin := Minimality for jmembers Sort Prop.
Combined Scheme json_gmutmin from jvalue_gmin, jelems_gmin, jmembers_gmin.

Lemma jnumber_hd n r : jnumber n -> exists c t, n ++ r = c :: t /\ (c = 45 \/ g_digit c = true).
Proof.
  intros [m i f e Hm Hi Hf He]. rewrite <- !app_assoc.
  destruct Hm as [->| ->]; cbn [app]; [|eexists _, _; split; [reflexivity|auto]].
  destruct Hi as [|c ds Hc _]; cbn [app]; eexists _, _; (split; [reflexivity|right]).
  - reflexivity.
  - unfold g_digit19 in Hc. unfold g_digit. lia.
Qed.

(* the first byte of a value *)
Lemma jvalue_hd v : jvalue v -> exists c t, v = c :: t /\ g_ws c = false /\ c <> 93 /\ c <> 125 /\ c <> 44.
Proof.
  intros H. destruct H as [| | |n Hn|s [cs _]|w _|els _|w _|ms _];
    try (eexists _, _; split; [reflexivity|unfold g_ws; lia]).
  destruct (jnumber_hd n [] Hn) as (c & t & E & Hc). rewrite app_nil_r in E.
  exists c, t. split; [exact E|]. unfold g_ws, g_digit in *. lia.
Qed.

Lemma gfollow_ws_sep w c r : ws w -> c = 44 \/ c = 93 \/ c = 125 -> gfollow (w ++ c :: r).
Proof. intros Hw Hc. destruct Hw as [|x w Hx Hw]; cbn [app gfollow]; auto. Qed.

Definition C_val (v : list Z) : Prop := forall fuel rest, gfollow rest -> len v < Z.of_nat fuel ->
  p_json fuel MValue (v ++ rest) = Some rest.
Definition C_list (m : pmode) (close : Z) (body : list Z) : Prop := forall fuel rest,
  len body + 1 < Z.of_nat fuel -> p_json fuel m (skip_ws (body ++ close :: rest)) = Some rest.

Lemma fuel_S fuel n : n < Z.of_nat fuel -> 0 <= n -> exists k, fuel = S k /\ n <= Z.of_nat k.
Proof. intros H H0. destruct fuel as [|k]; [lia|]. exists k. split; [reflexivity|lia]. Qed.

Lemma jelems_skip els rest : jelems els ->
  exists c1 t1, skip_ws (els ++ 93 :: rest) = c1 :: t1 /\ c1 <> 93.
Proof.
  intros H. destruct H as [w1 v w2 Hw1 Hv Hw2|w1 v w2 r Hw1 Hv Hw2 Hr];
    destruct (jvalue_hd v Hv) as (c & t & -> & Hc & H93 & _); rewrite <- !app_assoc; cbn [app];
    rewrite skip_ws_to by assumption; eexists _, _; split; [reflexivity|exact H93| reflexivity|exact H93].
Qed.

Lemma jmembers_skip ms rest : jmembers ms ->
  exists c1 t1, skip_ws (ms ++ 125 :: rest) = c1 :: t1 /\ c1 <> 125.
Proof.
  intros H. destruct H as [w1 k w2 w3 v w4 Hw1 [cs _] _ _ _ _|w1 k w2 w3 v w4 r Hw1 [cs _] _ _ _ _ _];
    rewrite <- !app_assoc; cbn [app]; rewrite skip_ws_to by (try assumption; reflexivity);
    eexists _, _; (split; [reflexivity|lia]).
Qed.

Lemma len_ge0 {A} (l : list A) : 0 <= len l. Proof. apply len_nonneg. Qed.

Theorem p_json_complete :
  (forall v, jvalue v -> C_val v) /\ (forall els, jelems els -> C_list MElems 93 els) /\
  (forall ms, jmembers ms -> C_list MMembers 125 ms).
Proof.
  apply json_gmutmin.
  - intros fuel rest Hr Hf. destruct (fuel_S _ _ Hf (len_ge0 _)) as (k & -> & _). cbn [p_json app L_TRUE].
    apply (p_lit_complete L_TRUE).
  - intros fuel rest Hr Hf. destruct (fuel_S _ _ Hf (len_ge0 _)) as (k & -> & _). cbn [p_json app L_FALSE].
    apply (p_lit_complete L_FALSE).
  - intros fuel rest Hr Hf. destruct (fuel_S _ _ Hf (len_ge0 _)) as (k & -> & _). cbn [p_json app L_NULL].
    apply (p_lit_complete L_NULL).
  - (* number *)
    intros n Hn fuel rest Hr Hf. destruct (fuel_S _ _ Hf (len_ge0 _)) as (k & -> & _).
    destruct (jnumber_hd n rest Hn) as (c & t & E & Hc). cbn [p_json]. rewrite E.
    assert (Hcc : (c =? 34) = false /\ (c =? 91) = false /\ (c =? 123) = false /\ (c =? 116) = false /\
                  (c =? 102) = false /\ (c =? 110) = false) by (unfold g_digit in Hc; lia).
    destruct Hcc as (-> & -> & -> & -> & -> & ->). rewrite <- E. apply p_number_complete; assumption.
  - (* string *)
    intros s [cs Hcs] fuel rest Hr Hf. destruct (fuel_S _ _ Hf (len_ge0 _)) as (k & -> & _).
    cbn [p_json app]. change (34 =? 34) with true. cbn iota. rewrite <- app_assoc. cbn [app].
    apply p_chars_complete. exact Hcs.
  - (* [ ws ] *)
    intros w Hw fuel rest Hr Hf. destruct (fuel_S _ _ Hf (len_ge0 _)) as (k & -> & _).
    cbn [p_json app]. change (91 =? 34) with false. change (91 =? 91) with true. cbn iota.
    rewrite <- app_assoc. cbn [app]. rewrite skip_ws_to by (try assumption; reflexivity).
    change (93 =? 93) with true. reflexivity.
  - (* [ elements ] *)
    intros els Hels IH fuel rest Hr Hf. destruct (fuel_S _ _ Hf (len_ge0 _)) as (k & -> & Hk).
    cbn [p_json app]. change (91 =? 34) with false. change (91 =? 91) with true. cbn iota.
    rewrite <- app_assoc. cbn [app].
    destruct (jelems_skip els rest Hels) as (c1 & t1 & Es & Hc1). rewrite Es.
    replace (c1 =? 93) with false by lia. rewrite <- Es. apply IH.
    rewrite len_cons, len_app in Hk. change (len [93]) with 1 in Hk. lia.
  - (* { ws } *)
    intros w Hw fuel rest Hr Hf. destruct (fuel_S _ _ Hf (len_ge0 _)) as (k & -> & _).
    cbn [p_json app]. change (123 =? 34) with false. change (123 =? 91) with false.
    change (123 =? 123) with true. cbn iota.
    rewrite <- app_assoc. cbn [app]. rewrite skip_ws_to by (try assumption; reflexivity).
    change (125 =? 125) with true. reflexivity.
  - (* { members } *)
    intros ms Hms IH fuel rest Hr Hf. destruct (fuel_S _ _ Hf (len_ge0 _)) as (k & -> & Hk).
    cbn [p_json app]. change (123 =? 34) with false. change (123 =? 91) with false.
    change (123 =? 123) with true. cbn iota.
    rewrite <- app_assoc. cbn [app].
    destruct (jmembers_skip ms rest Hms) as (c1 & t1 & Es & Hc1). rewrite Es.
    replace (c1 =? 125) with false by lia. rewrite <- Es. apply IH.
    rewrite len_cons, len_app in Hk. change (len [125]) with 1 in Hk. lia.
  - (* one element *)
    intros w1 v w2 Hw1 Hv IHv Hw2 fuel rest Hf.
    pose proof (len_ge0 w1). pose proof (len_ge0 w2). pose proof (len_ge0 v).
    rewrite !len_app in Hf. destruct (fuel_S _ _ Hf ltac:(lia)) as (k & -> & Hk).
    destruct (jvalue_hd v Hv) as (c & t & Ev & Hc & _).
    rewrite <- !app_assoc. rewrite skip_ws_app by exact Hw1.
    rewrite Ev. cbn [app]. rewrite skip_ws_cons by exact Hc.
    cbn [p_json]. change (c :: t ++ w2 ++ 93 :: rest) with ((c :: t) ++ w2 ++ 93 :: rest). rewrite <- Ev.
    rewrite (IHv k (w2 ++ 93 :: rest)); [|apply gfollow_ws_sep; auto|lia]. cbn [option_bind].
    rewrite skip_ws_to by (try assumption; reflexivity).
    change (93 =? 44) with false. change (93 =? 93) with true. reflexivity.
  - (* element , elements *)
    intros w1 v w2 r Hw1 Hv IHv Hw2 Hr IHr fuel rest Hf.
    pose proof (len_ge0 w1). pose proof (len_ge0 w2). pose proof (len_ge0 v). pose proof (len_ge0 r).
    rewrite !len_app, len_cons in Hf. destruct (fuel_S _ _ Hf ltac:(lia)) as (k & -> & Hk).
    destruct (jvalue_hd v Hv) as (c & t & Ev & Hc & _).
    assert (Hv1 : 1 <= len v) by (rewrite Ev, len_cons; pose proof (len_ge0 t); lia).
    rewrite <- !app_assoc. rewrite skip_ws_app by exact Hw1.
    rewrite Ev. cbn [app]. rewrite skip_ws_cons by exact Hc.
    cbn [p_json]. change (c :: t ++ w2 ++ 44 :: r ++ 93 :: rest) with ((c :: t) ++ w2 ++ 44 :: r ++ 93 :: rest).
    rewrite <- Ev.
    rewrite (IHv k (w2 ++ 44 :: r ++ 93 :: rest)); [|apply gfollow_ws_sep; auto|lia]. cbn [option_bind].
    rewrite skip_ws_to by (try assumption; reflexivity).
    change (44 =? 44) with true. cbn iota. apply IHr. lia.
  - (* one member *)
    intros w1 k0 w2 w3 v w4 Hw1 Hk0 Hw2 Hw3 Hv IHv Hw4 fuel rest Hf.
    destruct Hk0 as [cs Hcs].
    pose proof (len_ge0 w1). pose proof (len_ge0 w2). pose proof (len_ge0 w3). pose proof (len_ge0 w4).
    pose proof (len_ge0 v). pose proof (len_ge0 cs).
    rewrite !len_app, !len_cons, !len_app in Hf. change (len [34]) with 1 in Hf.
    destruct (fuel_S _ _ Hf ltac:(lia)) as (k & -> & Hk).
    destruct (jvalue_hd v Hv) as (c & t & Ev & Hc & _).
    rewrite <- !app_assoc. rewrite skip_ws_app by exact Hw1. cbn [app].
    rewrite skip_ws_cons by reflexivity. cbn [p_json]. change (34 =? 34) with true. cbn iota.
    rewrite <- !app_assoc. cbn [app].
    rewrite (p_chars_complete cs _ Hcs). cbn [option_bind].
    rewrite skip_ws_to by (try assumption; reflexivity). change (58 =? 58) with true. cbn iota.
    rewrite skip_ws_app by exact Hw3. rewrite Ev. cbn [app]. rewrite skip_ws_cons by exact Hc.
    change (c :: t ++ w4 ++ 125 :: rest) with ((c :: t) ++ w4 ++ 125 :: rest). rewrite <- Ev.
    rewrite (IHv k (w4 ++ 125 :: rest)); [|apply gfollow_ws_sep; auto|lia]. cbn [option_bind].
    rewrite skip_ws_to by (try assumption; reflexivity).
    change (125 =? 44) with false. change (125 =? 125) with true. reflexivity.
  - (* member , members *)
    intros w1 k0 w2 w3 v w4 r Hw1 Hk0 Hw2 Hw3 Hv IHv Hw4 Hr IHr fuel rest Hf.
    destruct Hk0 as [cs Hcs].
    pose proof (len_ge0 w1). pose proof (len_ge0 w2). pose proof (len_ge0 w3). pose proof (len_ge0 w4).
    pose proof (len_ge0 v). pose proof (len_ge0 cs). pose proof (len_ge0 r).
    rewrite !len_app, !len_cons, !len_app, !len_cons in Hf. rewrite ?len_nil in Hf.
    destruct (fuel_S _ _ Hf ltac:(lia)) as (k & -> & Hk).
    destruct (jvalue_hd v Hv) as (c & t & Ev & Hc & _).
    rewrite <- !app_assoc. rewrite skip_ws_app by exact Hw1. cbn [app].
    rewrite skip_ws_cons by reflexivity. cbn [p_json]. change (34 =? 34) with true. cbn iota.
    rewrite <- !app_assoc. cbn [app].
    rewrite (p_chars_complete cs _ Hcs). cbn [option_bind].
    rewrite skip_ws_to by (try assumption; reflexivity). change (58 =? 58) with true. cbn iota.
    rewrite skip_ws_app by exact Hw3. rewrite Ev. cbn [app]. rewrite skip_ws_cons by exact Hc.
    change (c :: t ++ w4 ++ 44 :: r ++ 125 :: rest) with ((c :: t) ++ w4 ++ 44 :: r ++ 125 :: rest). rewrite <- Ev.
    rewrite (IHv k (w4 ++ 44 :: r ++ 125 :: rest)); [|apply gfollow_ws_sep; auto|lia]. cbn [option_bind].
    rewrite skip_ws_to by (try assumption; reflexivity).
    change (44 =? 44) with true. cbn iota. apply IHr. lia.
Qed.

(* ---------------------------------------------------------------------------------------------- *)
(* the equivalence *)

Theorem valid_b_value_proof : forall d, valid_b d = true <-> value d.
Proof.
  intros d. unfold valid_b. split.
  - destruct (p_json (S (length d)) MValue (skip_ws d)) as [r|] eqn:E; [|discriminate].
    destruct (skip_ws r) eqn:Er; [|discriminate]. intros _.
    destruct (p_json_sound _ _ _ _ E) as (v & Hv & Ed).
    destruct (skip_ws_split d) as (w1 & Hw1 & Hd). destruct (skip_ws_split r) as (w2 & Hw2 & Hr).
    rewrite Er, app_nil_r in Hr. rewrite Hd, Ed, Hr. constructor; assumption.
  - intros [w1 v w2 Hw1 Hv Hw2].
    destruct (jvalue_hd v Hv) as (c & t & Ev & Hc & _).
    rewrite skip_ws_app by exact Hw1. rewrite Ev. cbn [app]. rewrite skip_ws_cons by exact Hc.
    change (c :: t ++ w2) with ((c :: t) ++ w2). rewrite <- Ev.
    rewrite (proj1 p_json_complete v Hv (S (length (w1 ++ v ++ w2))) w2).
    + rewrite skip_ws_all by exact Hw2. reflexivity.
    + destruct Hw2 as [|x w2 Hx _]; cbn [gfollow]; auto.
    + rewrite !app_length. unfold len. lia.
Qed.

(* non-vacuity and the refutation witnesses of Props/C10.v rely on valid_b by computation *)
Example ex_valid_b : valid_b [32; 123; 34; 97; 34; 58; 91; 49; 44; 116; 114; 117; 101; 93; 125; 10] = true.
Proof. reflexivity. Qed.
