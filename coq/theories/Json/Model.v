(* Json/Model.v — executable model of json.Parser (/repo/json/parse.go) over the lexer cursor Common/Lx.v.
   Definitions only.  A Go panic is [None].  The model is a statement-by-statement transcription of
   moveWhitespace, consumeLiteralToken, consumeNumberToken, consumeStringToken, Next, State and Err
   (error kinds and offsets only, no messages). *)
From Verif Require Import Common.Base Common.Lx.

(* GrammarType *)
Definition G_Error := 0.
Definition G_Literal := 2.
Definition G_Number := 3.
Definition G_String := 4.
Definition G_StartObject := 5.
Definition G_EndObject := 6.
Definition G_StartArray := 7.
Definition G_EndArray := 8.

(* State *)
Definition S_Value := 0.
Definition S_ObjectKey := 1.
Definition S_ObjectValue := 2.
Definition S_Array := 3.

(* Parser{r, state, err, needComma}.  The Go slice p.state is kept with its LAST element first
   (pst = rev p.state); perr = offset recorded by parse.NewErrorLexer (r.Offset()) when p.err is a
   *parse.Error, None when p.err == nil; prd = error code of a failing io.Reader behind the Input
   (0 = none; a failing reader leaves buf = [0]). *)
Record parser := mkP { pz : lx; pst : list Z; perr : option Z; pneed : bool; prd : Z }.

Definition json_init (d : list Z) : parser := mkP (lx_init d) [S_Value] None false 0.
(* NewParser(parse.NewInput(r)) for a reader that fails with code e <> 0 *)
Definition json_init_failed (e : Z) : parser := mkP (lx_init []) [S_Value] None false e.

(* p.r.Err() != nil *)
Definition r_err (p : parser) (z : lx) : bool := negb (prd p =? 0) || at_end z.

(* Err(): 0 nil, 1 io.EOF, 2 *parse.Error, 3 the reader's error *)
Definition err_kind (p : parser) : Z :=
  match perr p with
  | Some _ => 2
  | None => if negb (prd p =? 0) then 3 else if at_end (pz p) then 1 else 0
  end.

(* State(): p.state[len(p.state)-1] *)
Definition top (st : list Z) : option Z := match st with s :: _ => Some s | [] => None end.
Definition state (p : parser) : option Z := top (pst p).

(* p.state[len(p.state)-1] = v *)
Definition set_top (st : list Z) (v : Z) : option (list Z) :=
  match st with _ :: t => Some (v :: t) | [] => None end.

(* p.state = p.state[:len(p.state)-1]
   if p.state[len(p.state)-1] == ObjectValueState { p.state[len(p.state)-1] = ObjectKeyState } *)
Definition pop_fix (st : list Z) : option (list Z) :=
  match st with
  | [] => None
  | _ :: t => match t with
              | [] => None
              | s :: t' => Some ((if s =? S_ObjectValue then S_ObjectKey else s) :: t')
              end
  end.

(* --- byte classes ------------------------------------------------------------------------ *)
Definition is_ws (c : Z) : bool := (c =? 32) || (c =? 10) || (c =? 13) || (c =? 9).
Definition is_digit (c : Z) : bool := (48 <=? c) && (c <=? 57).      (* !(c < '0' || c > '9') *)

(* for { if !p(Peek(0)) { break }; Move(1) } *)
Definition scan (p : Z -> bool) (z : lx) : option lx :=
  _ <- pk z 0 ;; n <- scan_while p (suffix z) ;; Some (mv z n).

Definition move_ws (z : lx) : option lx := scan is_ws z.

(* --- consumeLiteralToken ------------------------------------------------------------------ *)
(* a && b with Go's short circuit: b's peek is only performed (and can only panic) when a holds *)
Definition pk_is (z : lx) (i c : Z) : option bool := x <- pk z i ;; Some (x =? c).
Definition and_then (a b : option bool) : option bool :=
  match a with Some true => b | _ => a end.

Definition consume_literal (z : lx) : option (bool * lx) :=
  t <- and_then (pk_is z 0 116) (and_then (pk_is z 1 114) (and_then (pk_is z 2 117) (pk_is z 3 101))) ;;
  if t then Some (true, mv z 4) else
  f <- and_then (pk_is z 0 102) (and_then (pk_is z 1 97) (and_then (pk_is z 2 108)
          (and_then (pk_is z 3 115) (pk_is z 4 101)))) ;;
  if f then Some (true, mv z 5) else
  n <- and_then (pk_is z 0 110) (and_then (pk_is z 1 117) (and_then (pk_is z 2 108) (pk_is z 3 108))) ;;
  if n then Some (true, mv z 4) else Some (false, z).

(* --- consumeNumberToken ------------------------------------------------------------------- *)
(* the function is cut into its three blocks (integer part, fraction, exponent) *)

(* c := Peek(0); if '1'..'9' { Move(1); digits } else if c != '0' { Rewind(mark); return false } else { Move(1) }
   inner None = "Rewind(mark); return false" *)
Definition num_int (z1 : lx) : option (option lx) :=
  c <- pk z1 0 ;;
  if (49 <=? c) && (c <=? 57) then z2 <- scan is_digit (mv z1 1) ;; Some (Some z2)
  else if negb (c =? 48) then Some None
  else Some (Some (mv z1 1)).

(* if Peek(0) == '.' { Move(1); if !digit(Peek(0)) { Move(-1); return true }; digits }     inl = return true *)
Definition num_frac (z3 : lx) : option (lx + lx) :=
  c3 <- pk z3 0 ;;
  if c3 =? 46 then
    let z4 := mv z3 1 in
    c4 <- pk z4 0 ;;
    if negb (is_digit c4) then Some (inl (mv z4 (-1)))
    else z5 <- scan is_digit z4 ;; Some (inr z5)
  else Some (inr z3).

(* mark = Pos(); if e|E { Move(1); if +|- { Move(1) }; if !digit(Peek(0)) { Rewind(mark); return true }; digits } *)
Definition num_exp (z5 : lx) : option lx :=
  let mark1 := mark z5 in
  c5 <- pk z5 0 ;;
  if (c5 =? 101) || (c5 =? 69) then
    let z6 := mv z5 1 in
    c6 <- pk z6 0 ;;
    let z7 := if (c6 =? 43) || (c6 =? 45) then mv z6 1 else z6 in
    c7 <- pk z7 0 ;;
    if negb (is_digit c7) then Some (rewind z7 mark1)
    else scan is_digit z7
  else Some z5.

Definition consume_number (z : lx) : option (bool * lx) :=
  let mark0 := mark z in
  c0 <- pk z 0 ;;
  let z1 := if c0 =? 45 then mv z 1 else z in
  ip <- num_int z1 ;;
  match ip with
  | None => Some (false, rewind z1 mark0)
  | Some z3 =>
      fp <- num_frac z3 ;;
      match fp with
      | inl z => Some (true, z)
      | inr z5 => z8 <- num_exp z5 ;; Some (true, z8)
      end
  end.

(* --- consumeStringToken ------------------------------------------------------------------- *)
(* for i := Pos()-1; i >= 0; i-- { if Lexeme()[i] == '\\' { escaped = !escaped } else { break } }
   on the reversed lexeme *)
Fixpoint esc_parity (revlex : list Z) (escaped : bool) : bool :=
  match revlex with
  | c :: t => if c =? 92 then esc_parity t (negb escaped) else escaped
  | [] => escaped
  end.

(* the for loop after the initial Move(1): revlex = reversed Lexeme(), l = bytes from the cursor on.
   Result (returned bool, number of Move(1) performed); None = the loop ran off the buffer. *)
Fixpoint str_loop (revlex l : list Z) : option (bool * Z) :=
  match l with
  | [] => None
  | c :: t =>
      if c =? 34 then
        if esc_parity revlex false then
          r <- str_loop (c :: revlex) t ;; Some (fst r, 1 + snd r)
        else Some (true, 1)
      else if c =? 0 then Some (false, 0)
      else r <- str_loop (c :: revlex) t ;; Some (fst r, 1 + snd r)
  end.

Definition consume_string (z : lx) : option (bool * lx) :=
  let z1 := mv z 1 in
  _ <- pk z1 0 ;;
  lx0 <- lexeme z1 ;;
  r <- str_loop (rev lx0) (suffix z1) ;;
  Some (fst r, mv z1 (snd r)).

(* --- Next ----------------------------------------------------------------------------------- *)
(* what Next returns: the GrammarType and the byte slice (offset of its first byte in the input and
   its bytes); nil is None *)
Definition unit_ := (Z * option (Z * list Z))%type.

(* p.err = parse.NewErrorLexer(p.r, ...); return ErrorGrammar, nil *)
Definition fail_at (p : parser) (z : lx) (st : list Z) (need : bool) : option (unit_ * parser) :=
  Some ((G_Error, None), mkP z st (Some (lpos z)) need (prd p)).

(* return g, p.r.Shift() *)
Definition emit (p : parser) (g : Z) (z : lx) (st : list Z) (need : bool) : option (unit_ * parser) :=
  sh <- shift z ;;
  Some ((g, Some (lstart z, fst sh)), mkP (snd sh) st (perr p) need (prd p)).

(* the comma block at the head of Next: inl = "unexpected comma", inr (cursor, c, needComma) *)
Definition next_comma (p : parser) (z0 : lx) (c0 state : Z) : option (lx + lx * Z * bool) :=
  if c0 =? 44 then
    if negb (state =? S_Array) && negb (state =? S_ObjectKey) then Some (inl z0)
    else z1 <- move_ws (mv z0 1) ;; c <- pk z1 0 ;; Some (inr (z1, c, false))
  else Some (inr (z0, c0, pneed p)).

(* the "state == ObjectKeyState" block *)
Definition next_key (p : parser) (z2 : lx) (c : Z) (need : bool) : option (unit_ * parser) :=
  if negb (c =? 34) then fail_at p z2 (pst p) need               (* key is not a string *)
  else
    sr <- consume_string z2 ;;
    if negb (fst sr) then fail_at p (snd sr) (pst p) need        (* unterminated key *)
    else
      let n := mark (snd sr) in
      z4 <- move_ws (snd sr) ;;
      c4 <- pk z4 0 ;;
      if negb (c4 =? 58) then fail_at p z4 (pst p) need          (* expected colon *)
      else
        let z5 := mv z4 1 in
        st' <- set_top (pst p) S_ObjectValue ;;
        sh <- shift z5 ;;
        if slice_ok 0 n (len (fst sh)) then                      (* p.r.Shift()[:n] *)
          Some ((G_String, Some (lstart z5, firstz n (fst sh))),
                mkP (snd sh) st' (perr p) need (prd p))
        else None.

(* the final else block: a string, number or literal value.  needComma and the state are updated only
   when a value has been consumed (gt != ErrorGrammar) *)
Definition emit_value (p : parser) (g : Z) (z : lx) (state : Z) : option (unit_ * parser) :=
  st' <- (if state =? S_ObjectValue then set_top (pst p) S_ObjectKey else Some (pst p)) ;;
  emit p g z st' true.

Definition next_value (p : parser) (z2 : lx) (c : Z) (need : bool) (state : Z) : option (unit_ * parser) :=
  sr <- (if c =? 34 then consume_string z2 else Some (false, z2)) ;;
  if fst sr then emit_value p G_String (snd sr) state
  else
    nr <- consume_number (snd sr) ;;
    if fst nr then emit_value p G_Number (snd nr) state
    else
      lr <- consume_literal (snd nr) ;;
      if fst lr then emit_value p G_Literal (snd lr) state
      else
        let z6 := snd lr in
        c6 <- pk z6 0 ;;
        if (c6 =? 0) && negb (r_err p z6) then fail_at p z6 (pst p) need   (* unexpected NULL *)
        else if c6 =? 0 then
          Some ((G_Error, None), mkP z6 (pst p) (perr p) need (prd p))    (* EOF: p.err untouched *)
        else fail_at p z6 (pst p) need.                                    (* unexpected character *)

(* Next after the comma block: z1 = cursor, c = Peek(0), need = needComma, state = the state read on entry *)
Definition next_body (p : parser) (z1 : lx) (c : Z) (need : bool) (state : Z) : option (unit_ * parser) :=
  let z2 := skip z1 in
  if need && negb (c =? 125) && negb (c =? 93) && negb (c =? 0) then
    fail_at p z2 (pst p) need                                      (* expected comma or closer *)
  else if (c =? 123) && negb (state =? S_ObjectKey) then
    emit p G_StartObject (mv z2 1) (S_ObjectKey :: pst p) need
  else if c =? 125 then
    if negb (state =? S_ObjectKey) then fail_at p z2 (pst p) need  (* unexpected right brace *)
    else st' <- pop_fix (pst p) ;; emit p G_EndObject (mv z2 1) st' true
  else if (c =? 91) && negb (state =? S_ObjectKey) then
    emit p G_StartArray (mv z2 1) (S_Array :: pst p) need
  else if c =? 93 then
    if negb (state =? S_Array) then fail_at p z2 (pst p) true      (* unexpected right bracket *)
    else st' <- pop_fix (pst p) ;; emit p G_EndArray (mv z2 1) st' true
  else if state =? S_ObjectKey then next_key p z2 c need
  else next_value p z2 c need state.

Definition next (p : parser) : option (unit_ * parser) :=
  z0 <- move_ws (pz p) ;;
  c0 <- pk z0 0 ;;
  state <- top (pst p) ;;
  cm <- next_comma p z0 c0 state ;;
  match cm with
  | inl z => fail_at p z (pst p) (pneed p)                           (* unexpected comma *)
  | inr (z1, c, need) => next_body p z1 c need state
  end.
