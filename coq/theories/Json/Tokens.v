(* Json/Tokens.v — exactness of what one successful call of Next consumes, for ALL inputs:
   the unit is exactly one token (a Number unit is exactly an RFC 8259 number, a Literal unit exactly
   true/false/null, a String unit a quoted run without NUL ending at the first unescaped quote, brackets
   single bytes), the bytes skipped before it are whitespace or whitespace , whitespace (comma only inside an
   array or in key position, and required after a completed value unless a closer follows), and a key also
   consumes whitespace and the colon.  Together with json_state_machine this describes every accepted call
   sequence; the lenient extensions beyond RFC 8259 are listed with witnesses. *)
From Coq Require Import ZifyBool.
From Verif Require Import Common.Base Common.Tactics Common.Lx Json.Model Json.Lex Json.Spec Json.Grammar
  Json.GrammarProofs Json.AcceptLex Json.Proofs Json.Trace Json.Accept.

(* ---------------------------------------------------------------------------------------------- *)
(* a Number unit is an RFC 8259 number *)

Lemma takew_digits_sound t : digits (takew is_digit t).
Proof. apply takew_all. Qed.

Lemma int_split_sound s x r : int_split s = Some (x, r) -> jint x.
Proof.
  destruct s as [|c t]; cbn [int_split]; [discriminate|].
  destruct (d19 c) eqn:E.
  - intros H. inversion H; subst. apply ji_pos; [exact E|apply takew_digits_sound].
  - destruct (negb (c =? 48)) eqn:E0; [discriminate|]. intros H. inversion H; subst.
    assert (c = 48) by lia. subst c. constructor.
Qed.

Lemma takew_digit_head t : is_digit (hd0 t) = true -> exists c ds, takew is_digit t = c :: ds /\ is_digit c = true /\ digits ds.
Proof.
  destruct t as [|c t]; cbn [hd0]; [discriminate|]. intros H. cbn [takew]. rewrite H.
  exists c, (takew is_digit t). split; [reflexivity|]. split; [exact H|apply takew_digits_sound].
Qed.

Lemma frac_split_sound s x r b : frac_split s = (x, r, b) -> jfrac x.
Proof.
  destruct s as [|c t]; cbn [frac_split]; [intros H; inversion H; constructor|].
  destruct (c =? 46) eqn:E.
  - destruct (negb (is_digit (hd0 t))) eqn:Ed; intros H; inversion H; subst; [constructor|].
    apply negb_false_iff in Ed. destruct (takew_digit_head t Ed) as (c1 & ds & -> & Hc & Hd).
    assert (c = 46) by lia. subst c. apply jf_some; assumption.
  - intros H; inversion H; constructor.
Qed.

Lemma exp_split_sound s x r : exp_split s = (x, r) -> jexp x.
Proof.
  destruct s as [|c t]; cbn [exp_split]; [intros H; inversion H; constructor|].
  destruct ((c =? 101) || (c =? 69)) eqn:E; [|intros H; inversion H; constructor].
  destruct t as [|c1 t1]; [intros H; inversion H; constructor|].
  destruct ((c1 =? 43) || (c1 =? 45)) eqn:Es.
  - destruct (negb (is_digit (hd0 t1))) eqn:Ed; intros H; inversion H; subst; [constructor|].
    apply negb_false_iff in Ed. destruct (takew_digit_head t1 Ed) as (c2 & ds & -> & Hc & Hd).
    apply (je_some c [c1] c2 ds); try assumption; [lia|].
    assert (Hs : c1 = 43 \/ c1 = 45) by lia. destruct Hs as [->| ->]; auto.
  - destruct (negb (is_digit c1)) eqn:Ed; intros H; injection H as <- <-; [constructor|].
    apply negb_false_iff in Ed. cbn [takew]. rewrite Ed.
    apply (je_some c [] c1 (takew is_digit t1)); [lia|auto|exact Ed|apply takew_digits_sound].
Qed.

Lemma sign_split_sound s m r : sign_split s = (m, r) -> m = [] \/ m = [45].
Proof.
  destruct s as [|c t]; cbn [sign_split]; [intros H; inversion H; auto|].
  destruct (c =? 45) eqn:E; intros H; inversion H; subst; [right; f_equal; lia|auto].
Qed.

Theorem num_split_jnumber s x r : num_split s = Some (x, r) -> jnumber x.
Proof.
  unfold num_split. destruct (sign_split s) as [m s1] eqn:Em. apply sign_split_sound in Em.
  destruct (int_split s1) as [[i s3]|] eqn:Ei; [|discriminate]. apply int_split_sound in Ei.
  destruct (frac_split s3) as [[f s5] cont] eqn:Ef. pose proof (frac_split_sound _ _ _ _ Ef) as Hf.
  destruct cont.
  - destruct (exp_split s5) as [e s8] eqn:Ee. apply exp_split_sound in Ee.
    intros H. inversion H; subst. constructor; assumption.
  - intros H. inversion H; subst.
    replace (m ++ i ++ f) with (m ++ i ++ f ++ []) by (rewrite app_nil_r; reflexivity).
    constructor; try assumption. constructor.
Qed.

(* ---------------------------------------------------------------------------------------------- *)
(* the shape of a unit in terms of the grammar *)

Definition tok_exact (g : Z) (b : list Z) : Prop :=
  (g = G_StartObject /\ b = [123]) \/ (g = G_EndObject /\ b = [125]) \/
  (g = G_StartArray /\ b = [91]) \/ (g = G_EndArray /\ b = [93]) \/
  (g = G_Number /\ jnumber b) \/
  (g = G_Literal /\ (b = L_TRUE \/ b = L_FALSE \/ b = L_NULL)) \/
  (g = G_String /\ exists body, b = 34 :: body ++ [34] /\ Forall (fun c => c <> 0) body).

Lemma tok_ok_exact g b : tok_ok g b -> tok_exact g b.
Proof.
  unfold tok_ok, tok_exact. intros [H|[H|[H|[H|[H|[H|H]]]]]]; auto 10.
  destruct H as (Hg & s & r & Hn). do 4 right. left. split; [exact Hg|]. apply (num_split_jnumber s b r Hn).
Qed.

(* every successful call, on every input, from every reachable state *)
Theorem call_exact_proof : forall d p u p', json_inv d p -> next p = Some (u, p') ->
  match snd u with
  | Some (lo, b) => tok_exact (fst u) b /\ gapG d (lpos (pz p)) p (fst u) lo /\ unit_end d p' (fst u) lo b
  | None => fst u = G_Error
  end.
Proof.
  intros d p u p' Hinv Hn. destruct (next_ok d p Hinv) as (u0 & p0 & E0 & _ & _ & _ & _ & Hm).
  rewrite Hn in E0. inversion E0; subst u0 p0.
  destruct (snd u) as [[lo b]|].
  - destruct Hm as (_ & _ & _ & _ & _ & _ & _ & _ & Htk & HG & He).
    split; [apply tok_ok_exact; exact Htk|]. split; assumption.
  - destruct Hm as [Hg _]. exact Hg.
Qed.

(* along any trace *)
Fixpoint calls_exact (d : list Z) (p : parser) (tr : list (unit_ * parser)) : Prop :=
  match tr with
  | [] => True
  | (u, p') :: rest =>
      match snd u with
      | Some (lo, b) => tok_exact (fst u) b /\ gapG d (lpos (pz p)) p (fst u) lo /\ unit_end d p' (fst u) lo b
      | None => fst u = G_Error
      end /\ calls_exact d p' rest
  end.

Theorem trace_calls_exact_proof : forall d n tr, trace n (json_init d) = Some tr -> calls_exact d (json_init d) tr.
Proof.
  intros d n. generalize (json_inv_init d). generalize (json_init d).
  induction n as [|n IH]; intros p Hinv tr E; cbn [trace] in E.
  - inversion E. exact I.
  - destruct (next p) as [[u p']|] eqn:Hn; [|discriminate].
    destruct (trace n p') as [tr'|] eqn:E'; [|discriminate]. inversion E; subst tr.
    cbn [calls_exact]. split; [apply (call_exact_proof d p u p' Hinv Hn)|].
    apply IH; [|exact E'].
    destruct (json_step_total_proof d p Hinv) as (u0 & p0 & E0 & Hi). rewrite Hn in E0. inversion E0; subst. exact Hi.
Qed.

(* the units the driver collects are single tokens *)
Theorem drive_tokens_exact_proof : forall d fuel units final,
  drive fuel (json_init d) = Done units final -> Forall (fun u => tok_exact (sg u) (sbytes u)) units.
Proof.
  intros d fuel. generalize (json_inv_init d). generalize (json_init d).
  induction fuel as [|k IH]; intros p Hinv units final E; cbn [drive] in E; [discriminate|].
  destruct (next p) as [[[g data] p']|] eqn:Hn; [|discriminate].
  destruct (g =? G_Error) eqn:Eg; [inversion E; constructor|].
  destruct data as [[lo b]|]; [|discriminate].
  destruct (state p') as [s|]; [|discriminate].
  destruct (drive k p') as [us f| |] eqn:Ed; try discriminate. inversion E; subst units final.
  pose proof (call_exact_proof d p _ p' Hinv Hn) as Hx. cbn [fst snd] in Hx. destruct Hx as (Htk & _).
  assert (Hinv' : json_inv d p').
  { destruct (json_step_total_proof d p Hinv) as (u0 & p0 & E0 & Hi). rewrite Hn in E0. inversion E0; subst. exact Hi. }
  constructor; [exact Htk|]. exact (IH p' Hinv' us f Ed).
Qed.

(* ---------------------------------------------------------------------------------------------- *)
(* the accepted language is larger than RFC 8259: the lenient extensions, each with a witness that is not a
   grammar document but is parsed to the end of the input without a parse error (' stands for the quote):
     [1,]  [,1]  {,'a':1,}     a single comma before any element, key or closer inside a container
     '\x'  and a raw TAB in a string     string contents are not checked (only NUL and the closing quote matter)
     the empty input,  [1  and  ['a           the end of the input in a value position or after a value is
                                              reported as io.EOF, also with containers or a string left open *)
Definition lenient_witnesses : list (list Z) :=
  [ [91; 49; 44; 93]; [91; 44; 49; 93]; [123; 44; 34; 97; 34; 58; 49; 44; 125];
    [34; 92; 120; 34]; [34; 9; 34]; []; [91; 49]; [91; 34; 97] ].

Theorem lenient_extensions_proof :
  Forall (fun d => ~ value d /\
                   exists units final, drive (S (length d)) (json_init d) = Done units final /\ err_kind final = 1)
         lenient_witnesses.
Proof.
  unfold lenient_witnesses.
  repeat (constructor; [split; [intros Hv; apply valid_b_value_proof in Hv; vm_compute in Hv; discriminate
                               |eexists _, _; split; [vm_compute; reflexivity|reflexivity]]|]).
  constructor.
Qed.

(* non-vacuity of call_exact: the second call on [1 , 2] returns the Number 2 after the gap blank comma blank *)
Example ex_call_exact : exists p u p', json_inv [91; 49; 32; 44; 32; 50; 93] p /\ next p = Some (u, p') /\
  snd u = Some (5, [50]) /\ lpos (pz p) = 2.
Proof.
  destruct (trace_steps [91; 49; 32; 44; 32; 50; 93] 2 _ (json_inv_init _)) as (tr & E & _ & Hs).
  pose proof (steps_last_inv _ tr _ (json_inv_init _) Hs) as Hinv.
  vm_compute in E. inversion E; subst tr. clear E Hs.
  eexists _, _, _. split; [exact Hinv|]. split; [vm_compute; reflexivity|]. split; reflexivity.
Qed.
