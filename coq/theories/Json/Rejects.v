(* Json/Rejects.v — the listed rejections, in arbitrary contexts: mismatched or unopened closer, missing
   comma, missing colon, key that is not a string; the error is recorded at the offending byte and no
   unit is returned.  Also: an illegal byte at the start of a token is reported at its own offset.
   The container-as-key case is refuted (witness). *)
From Coq Require Import ZifyBool.
From Verif Require Import Common.Base Common.Tactics Common.Lx Json.Model Json.Lex Json.Spec Json.Grammar
  Json.GrammarProofs Json.AcceptLex Json.Proofs Json.Trace Json.Accept.

Lemma len_app3 (a tok lead : list Z) : len (a ++ tok ++ lead) = len a + len tok + len lead.
Proof. rewrite !len_app. lia. Qed.

(* shape of the conclusions: ErrorGrammar, error recorded at offset off, stack unchanged *)
Definition rejected_at (p : parser) (off : Z) : Prop :=
  exists p', next p = Some ((G_Error, None), p') /\ perr p' = Some off /\ pst p' = pst p.

(* the same with the complete description of the parser after the call: the cursor stands at offset off in
   front of the remaining input s', P holds of needComma *)
Definition rejected_to (p : parser) (off : Z) (s' : list Z) (P : bool -> Prop) : Prop :=
  exists p' a' tok', next p = Some ((G_Error, None), p') /\ perr p' = Some off /\ pst p' = pst p /\
    prd p' = prd p /\ cur3 (pz p') a' tok' s' /\ len a' + len tok' = off /\ P (pneed p').

Lemma rejected_to_at p off s' P : rejected_to p off s' P -> rejected_at p off.
Proof. intros (p' & a' & tok' & E & Hp & Hst & _). exists p'. auto. Qed.

Lemma fail_to p z a tok s need off (P : bool -> Prop) r :
  cur3 z a tok s -> r = fail_at p z (pst p) need -> len a + len tok = off -> P need ->
  exists p' a' tok', r = Some ((G_Error, None), p') /\ perr p' = Some off /\ pst p' = pst p /\
    prd p' = prd p /\ cur3 (pz p') a' tok' s /\ len a' + len tok' = off /\ P (pneed p').
Proof.
  intros Hc -> Hoff HP. unfold fail_at. eexists _, a, tok. split; [reflexivity|]. cbn [perr pst prd pz pneed].
  rewrite (cur3_lpos _ _ _ _ Hc). rewrite Hoff. auto 10.
Qed.

Definition anyb (_ : bool) : Prop := True.

(* --- a closing bracket that does not match the innermost open container (or none is open) --------- *)
Theorem rejects_closer_strong : forall p a tok lead c r nd state,
  cur3 (pz p) a tok (lead ++ c :: r) -> lead_ok p lead nd -> top (pst p) = Some state ->
  (c = 125 /\ state <> S_ObjectKey) \/ (c = 93 /\ state <> S_Array) ->
  rejected_to p (len a + len tok + len lead) (c :: r) anyb.
Proof.
  intros p a tok lead c r nd state Hc Hl Htop Hk.
  assert (Hws : is_ws (hd0 (c :: r)) = false /\ hd0 (c :: r) <> 44).
  { cbn [hd0]. unfold is_ws. destruct Hk as [(-> & _)|(-> & _)]; split; lia. }
  destruct (next_front p a tok lead (c :: r) nd state Hc Hl (proj1 Hws) (proj2 Hws) Htop) as (z1 & H1 & Hn).
  cbn [hd0] in Hn. unfold rejected_to. rewrite Hn. unfold next_body.
  pose proof (cur3_skip _ _ _ _ H1) as H2.
  assert (Hoff : len (a ++ tok ++ lead) + len (@nil Z) = len a + len tok + len lead)
    by (rewrite len_app3, len_nil; lia).
  destruct Hk as [(-> & Hs)|(-> & Hs)].
  - replace (nd && negb (125 =? 125) && negb (125 =? 93) && negb (125 =? 0)) with false by (destruct nd; reflexivity).
    cbn [Z.eqb Pos.eqb]. replace (state =? S_ObjectKey) with false by lia. cbn [negb].
    apply (fail_to p _ _ _ _ nd _ anyb _ H2 eq_refl Hoff I).
  - replace (nd && negb (93 =? 125) && negb (93 =? 93) && negb (93 =? 0)) with false by (destruct nd; reflexivity).
    cbn [Z.eqb Pos.eqb]. replace (state =? S_Array) with false by lia. cbn [negb].
    apply (fail_to p _ _ _ _ true _ anyb _ H2 eq_refl Hoff I).
Qed.

Theorem rejects_closer_proof : forall p a tok lead c r nd state,
  cur3 (pz p) a tok (lead ++ c :: r) -> lead_ok p lead nd -> top (pst p) = Some state ->
  (c = 125 /\ state <> S_ObjectKey) \/ (c = 93 /\ state <> S_Array) ->
  rejected_at p (len a + len tok + len lead).
Proof. intros. eapply rejected_to_at. eapply rejects_closer_strong; eauto. Qed.

(* --- a value has been completed (needComma) and something other than , ] } or the end follows -------- *)
Theorem rejects_missing_comma_strong : forall p a tok w c r state,
  cur3 (pz p) a tok (w ++ c :: r) -> ws w -> pneed p = true -> top (pst p) = Some state ->
  is_ws c = false -> c <> 44 -> c <> 125 -> c <> 93 -> c <> 0 ->
  rejected_to p (len a + len tok + len w) (c :: r) (fun n => n = true).
Proof.
  intros p a tok w c r state Hc Hw Hneed Htop Hws H44 H125 H93 H0.
  destruct (next_front p a tok w (c :: r) (pneed p) state Hc (lead_plain p w Hw) Hws H44 Htop) as (z1 & H1 & Hn).
  cbn [hd0] in Hn. unfold rejected_to. rewrite Hn. unfold next_body. rewrite Hneed.
  replace (true && negb (c =? 125) && negb (c =? 93) && negb (c =? 0)) with true by lia.
  pose proof (cur3_skip _ _ _ _ H1) as H2.
  apply (fail_to p _ _ _ _ true _ (fun n => n = true) _ H2 eq_refl); [|reflexivity].
  rewrite len_app3, len_nil. lia.
Qed.

Theorem rejects_missing_comma_proof : forall p a tok w c r state,
  cur3 (pz p) a tok (w ++ c :: r) -> ws w -> pneed p = true -> top (pst p) = Some state ->
  is_ws c = false -> c <> 44 -> c <> 125 -> c <> 93 -> c <> 0 ->
  rejected_at p (len a + len tok + len w).
Proof. intros. eapply rejected_to_at. eapply rejects_missing_comma_strong; eauto. Qed.

(* --- a comma where no comma may stand: at the top level or after a key ----------------------------------- *)
Theorem rejects_comma_strong : forall p a tok w r state,
  cur3 (pz p) a tok (w ++ 44 :: r) -> ws w -> top (pst p) = Some state ->
  state <> S_Array -> state <> S_ObjectKey ->
  rejected_to p (len a + len tok + len w) (44 :: r) anyb.
Proof.
  intros p a tok w r state Hc Hw Htop Hs3 Hs1. unfold rejected_to, next.
  destruct (move_ws_spec _ _ _ _ Hc) as (z0 & Hm & H0). rewrite Hm. cbn [option_bind].
  destruct (takew_ws w (44 :: r) Hw eq_refl) as [E1 E2]. rewrite E1, E2 in H0.
  rewrite (cur3_pk0 _ _ _ _ H0). cbn [option_bind hd0]. rewrite Htop. cbn [option_bind].
  unfold next_comma. rewrite Z.eqb_refl.
  replace (negb (state =? S_Array) && negb (state =? S_ObjectKey)) with true by lia. cbn [option_bind].
  apply (fail_to p _ _ _ _ (pneed p) _ anyb _ H0 eq_refl); [|exact I]. rewrite len_app. lia.
Qed.

(* needComma is set by every unit that completes a value *)
Theorem need_after_value_proof : forall d p u p', json_inv d p -> next p = Some (u, p') ->
  completes_value (fst u) (pst p') -> pneed p' = true.
Proof.
  intros d p u p' Hinv Hn Hcv. destruct (next_ok d p Hinv) as (u0 & p0 & E0 & _ & _ & _ & _ & Hm).
  rewrite Hn in E0. inversion E0; subst u0 p0.
  destruct (snd u) as [[lo b]|].
  - destruct Hm as (_ & _ & _ & _ & _ & _ & _ & Hnd). apply Hnd. exact Hcv.
  - destruct Hm as [Hg _]. unfold completes_value, G_Error, G_Literal, G_Number, G_EndObject, G_EndArray, G_String in *.
    lia.
Qed.

(* --- a key (in key position) that is followed by something other than the colon ------------------------ *)
Theorem rejects_missing_colon_strong : forall p a tok lead k w2 s2 st,
  cur3 (pz p) a tok (lead ++ k ++ w2 ++ s2) -> lead_ok p lead false -> pst p = S_ObjectKey :: st ->
  jstring k -> ws w2 -> is_ws (hd0 s2) = false -> hd0 s2 <> 58 ->
  rejected_to p (len a + len tok + len lead + len k + len w2) s2 (fun n => n = false).
Proof.
  intros p a tok lead k w2 s2 st Hc Hl Hst Hk Hw Hws H58.
  destruct (jstring_hd k (w2 ++ s2) Hk) as (t & Et).
  assert (Htop : top (pst p) = Some S_ObjectKey) by (rewrite Hst; reflexivity).
  assert (Hh : hd0 (k ++ w2 ++ s2) = 34) by (rewrite Et; reflexivity).
  destruct (next_front p a tok lead (k ++ w2 ++ s2) false S_ObjectKey Hc Hl) as (z1 & H1 & Hn);
    [rewrite Hh; reflexivity|rewrite Hh; lia|exact Htop|].
  rewrite Hh in Hn. unfold rejected_to. rewrite Hn.
  rewrite not_bracket_body by (try reflexivity; lia).
  cbn [Z.eqb Pos.eqb S_ObjectKey]. unfold next_key. cbn [Z.eqb Pos.eqb negb].
  pose proof (cur3_skip _ _ _ _ H1) as H2.
  destruct (jstring_split k (w2 ++ s2) Hk) as (cs & Ek & Hsp).
  assert (Ein : k ++ w2 ++ s2 = 34 :: cs ++ 34 :: w2 ++ s2).
  { rewrite Ek. cbn [app]. rewrite <- app_assoc. reflexivity. }
  rewrite Ein in H2.
  destruct (consume_string_spec _ _ _ _ _ H2) as (z3 & Hcs & H3). cbn [app] in Hcs, H3.
  rewrite Hsp in Hcs, H3. cbn [fst snd] in Hcs, H3.
  rewrite Hcs. cbn [option_bind fst snd negb].
  destruct (move_ws_spec _ _ _ _ H3) as (z4 & Hm & H4). rewrite Hm. cbn [option_bind].
  destruct (takew_ws w2 s2 Hw Hws) as [E1 E2]. rewrite E1, E2 in H4.
  rewrite (cur3_pk0 _ _ _ _ H4). cbn [option_bind].
  replace (negb (hd0 s2 =? 58)) with true by lia.
  apply (fail_to p _ _ _ _ false (len a + len tok + len lead + len k + len w2) (fun n => n = false) _ H4 eq_refl);
    [|reflexivity].
  rewrite <- Ek. rewrite !len_app. lia.
Qed.

Theorem rejects_missing_colon_proof : forall p a tok lead k w2 s2 st,
  cur3 (pz p) a tok (lead ++ k ++ w2 ++ s2) -> lead_ok p lead false -> pst p = S_ObjectKey :: st ->
  jstring k -> ws w2 -> is_ws (hd0 s2) = false -> hd0 s2 <> 58 ->
  rejected_at p (len a + len tok + len lead + len k + len w2).
Proof. intros. eapply rejected_to_at. eapply rejects_missing_colon_strong; eauto. Qed.

(* --- in key position, anything that is not a string: every byte other than the quote and } ------------------
   (a comma directly in key position is a separator and belongs to the lead; a second comma is rejected) *)
Lemma next_front_comma p a tok w w' s2 state :
  cur3 (pz p) a tok ((w ++ 44 :: w') ++ s2) -> ws w -> ws w' ->
  top (pst p) = Some state -> state = S_Array \/ state = S_ObjectKey -> is_ws (hd0 s2) = false ->
  exists z1, cur3 z1 a (tok ++ w ++ 44 :: w') s2 /\ next p = next_body p z1 (hd0 s2) false state.
Proof.
  intros Hc Hw Hw' Htop Hst Hws. unfold next.
  destruct (move_ws_spec _ _ _ _ Hc) as (z0 & Hm & H0). rewrite Hm. cbn [option_bind].
  rewrite <- app_assoc in H0. cbn [app] in H0.
  destruct (takew_ws w (44 :: w' ++ s2) Hw eq_refl) as [E1 E2]. rewrite E1, E2 in H0.
  rewrite (cur3_pk0 _ _ _ _ H0). cbn [option_bind hd0]. rewrite Htop. cbn [option_bind].
  unfold next_comma. rewrite Z.eqb_refl.
  replace (negb (state =? S_Array) && negb (state =? S_ObjectKey)) with false
    by (unfold S_Array, S_ObjectKey in *; lia).
  pose proof (cur3_mv1 _ _ _ _ _ H0) as H1.
  destruct (move_ws_spec _ _ _ _ H1) as (z1 & Hm1 & H1'). rewrite Hm1. cbn [option_bind].
  destruct (takew_ws w' s2 Hw' Hws) as [E3 E4]. rewrite E3, E4 in H1'.
  rewrite (cur3_pk0 _ _ _ _ H1'). cbn [option_bind].
  exists z1. split; [|reflexivity].
  replace (tok ++ w ++ 44 :: w') with (((tok ++ w) ++ [44]) ++ w'); [exact H1'|].
  rewrite <- !app_assoc. reflexivity.
Qed.

Theorem rejects_nonstring_key_strong : forall p a tok lead s2 nd st,
  cur3 (pz p) a tok (lead ++ s2) -> lead_ok p lead nd -> pst p = S_ObjectKey :: st ->
  is_ws (hd0 s2) = false -> hd0 s2 <> 34 -> hd0 s2 <> 125 ->
  (hd0 s2 <> 44 \/ exists w w', ws w /\ ws w' /\ lead = w ++ 44 :: w') ->
  rejected_to p (len a + len tok + len lead) s2 anyb.
Proof.
  intros p a tok lead s2 nd st Hc Hl Hst Hws H34 H125 H44.
  assert (Htop : top (pst p) = Some S_ObjectKey) by (rewrite Hst; reflexivity).
  assert (Hfront : exists z1 nd', cur3 z1 a (tok ++ lead) s2 /\ next p = next_body p z1 (hd0 s2) nd' S_ObjectKey).
  { destruct H44 as [H44|(w & w' & Hw & Hw' & ->)].
    - destruct (next_front p a tok lead s2 nd S_ObjectKey Hc Hl Hws H44 Htop) as (z1 & H1 & Hn). eauto.
    - destruct (next_front_comma p a tok w w' s2 S_ObjectKey Hc Hw Hw' Htop (or_intror eq_refl) Hws)
        as (z1 & H1 & Hn). eauto. }
  destruct Hfront as (z1 & nd' & H1 & Hn).
  unfold rejected_to. rewrite Hn. unfold next_body.
  pose proof (cur3_skip _ _ _ _ H1) as H2.
  assert (Hoff : len (a ++ tok ++ lead) + len (@nil Z) = len a + len tok + len lead)
    by (rewrite len_app3, len_nil; lia).
  pose proof (fun need => fail_to p _ _ _ _ need _ anyb _ H2 eq_refl Hoff I) as Hfin.
  destruct (nd' && negb (hd0 s2 =? 125) && negb (hd0 s2 =? 93) && negb (hd0 s2 =? 0)); [apply Hfin|].
  change (negb (S_ObjectKey =? S_ObjectKey)) with false. rewrite !andb_false_r.
  replace (hd0 s2 =? 125) with false by lia.
  destruct (hd0 s2 =? 93).
  { cbn [S_ObjectKey S_Array Z.eqb Pos.eqb negb]. apply Hfin. }
  cbn [S_ObjectKey Z.eqb Pos.eqb]. unfold next_key. replace (negb (hd0 s2 =? 34)) with true by lia. apply Hfin.
Qed.

Theorem rejects_nonstring_key_proof : forall p a tok lead s2 nd st,
  cur3 (pz p) a tok (lead ++ s2) -> lead_ok p lead nd -> pst p = S_ObjectKey :: st ->
  is_ws (hd0 s2) = false -> hd0 s2 <> 34 -> hd0 s2 <> 125 ->
  (hd0 s2 <> 44 \/ exists w w', ws w /\ ws w' /\ lead = w ++ 44 :: w') ->
  rejected_at p (len a + len tok + len lead).
Proof. intros. eapply rejected_to_at. eapply rejects_nonstring_key_strong; eauto. Qed.

(* the documents that were accepted before fix 1c3d0a4 are now rejected at the container in key position *)
Example ex_container_key_rejected :
  exists tr, trace 2 (json_init [123; 91; 49; 93; 125]) = Some tr /\ grammars tr = [G_StartObject; G_Error] /\
             map (fun up => perr (snd up)) tr = [None; Some 1].
Proof. eexists. split; [vm_compute; reflexivity|]. split; reflexivity. Qed.

(* --- an illegal byte where a token must start is reported at its own offset ------------------------------ *)
Definition illegal_start (c : Z) : Prop :=
  is_ws c = false /\ is_digit c = false /\
  c <> 123 /\ c <> 125 /\ c <> 91 /\ c <> 93 /\ c <> 44 /\ c <> 34 /\ c <> 45 /\ c <> 116 /\ c <> 102 /\ c <> 110.

Theorem error_at_illegal_byte_strong : forall p a tok lead c r nd state,
  cur3 (pz p) a tok (lead ++ c :: r) -> lead_ok p lead nd -> top (pst p) = Some state -> prd p = 0 ->
  illegal_start c ->
  rejected_to p (len a + len tok + len lead) (c :: r) anyb.
Proof.
  intros p a tok lead c r nd state Hc Hl Htop Hprd (Hws & Hdig & H1' & H2' & H3' & H4' & H5' & H6' & H7' & H8' & H9' & H10').
  destruct (next_front p a tok lead (c :: r) nd state Hc Hl Hws H5' Htop) as (z1 & H1 & Hn).
  cbn [hd0] in Hn. unfold rejected_to. rewrite Hn. unfold next_body.
  pose proof (cur3_skip _ _ _ _ H1) as H2.
  assert (Hoff : len (a ++ tok ++ lead) + len (@nil Z) = len a + len tok + len lead).
  { rewrite len_app3, len_nil. lia. }
  pose proof (fun need => fail_to p _ _ _ _ need _ anyb _ H2 eq_refl Hoff I) as Hfin.
  destruct (nd && negb (c =? 125) && negb (c =? 93) && negb (c =? 0)); [apply Hfin|].
  replace (c =? 123) with false by lia. replace (c =? 125) with false by lia.
  replace (c =? 91) with false by lia. replace (c =? 93) with false by lia. cbn [andb].
  destruct (state =? S_ObjectKey).
  { unfold next_key. replace (negb (c =? 34)) with true by lia. apply Hfin. }
  unfold next_value. replace (c =? 34) with false by lia. cbn [option_bind fst snd].
  pose proof (consume_number_spec _ _ _ _ H2) as Hnum.
  assert (Hns : num_split (c :: r) = None).
  { unfold num_split. cbn [sign_split]. replace (c =? 45) with false by lia. cbn [int_split].
    unfold d19. unfold is_digit in Hdig. replace ((49 <=? c) && (c <=? 57)) with false by lia.
    replace (negb (c =? 48)) with true by lia. reflexivity. }
  rewrite Hns in Hnum. destruct Hnum as (z4 & Hcn & H4). rewrite Hcn. cbn [option_bind fst snd].
  pose proof (consume_literal_spec _ _ _ _ H4) as Hlit.
  assert (Hls : lit_split (c :: r) = None).
  { unfold lit_split, TRUE, FALSE, NULL. cbn [strip].
    replace (c =? 116) with false by lia. replace (c =? 102) with false by lia.
    replace (c =? 110) with false by lia. reflexivity. }
  rewrite Hls in Hlit. rewrite Hlit. cbn [option_bind fst snd].
  rewrite (cur3_pk0 _ _ _ _ H4). cbn [option_bind hd0].
  assert (Hr : r_err p z4 = false).
  { unfold r_err. rewrite Hprd. cbn [Z.eqb negb orb]. rewrite (cur3_at_end _ _ _ _ H4).
    pose proof (len_pos_cons c r). lia. }
  rewrite Hr. cbn [negb]. rewrite andb_true_r.
  pose proof (fail_to p _ _ _ _ nd _ anyb _ H4 eq_refl Hoff I) as Hfin4.
  destruct (c =? 0); exact Hfin4.
Qed.

Theorem error_at_illegal_byte_proof : forall p a tok lead c r nd state,
  cur3 (pz p) a tok (lead ++ c :: r) -> lead_ok p lead nd -> top (pst p) = Some state -> prd p = 0 ->
  illegal_start c ->
  rejected_at p (len a + len tok + len lead).
Proof. intros. eapply rejected_to_at. eapply error_at_illegal_byte_strong; eauto. Qed.

(* non-vacuity: the bytes [1 }] after the two units [ and 1 *)
Example ex_rejects_closer : exists p a tok, cur3 (pz p) a tok ([32] ++ 125 :: [93]) /\ lead_ok p [32] true /\
  top (pst p) = Some S_Array /\ rejected_at p (len a + len tok + len [32]) /\
  trace 2 (json_init [91; 49; 32; 125; 93]) = Some [((G_StartArray, Some (0, [91])), mkP (mkLx [91; 49; 32; 125; 93; 0] 1 1) [3; 0] None false 0);
                                                    ((G_Number, Some (1, [49])), p)].
Proof.
  exists (mkP (mkLx [91; 49; 32; 125; 93; 0] 2 2) [3; 0] None true 0), [91; 49], [].
  split; [repeat split|]. split.
  { apply (lead_plain (mkP (mkLx [91; 49; 32; 125; 93; 0] 2 2) [3; 0] None true 0) [32]). repeat constructor. }
  split; [reflexivity|]. split; [|vm_compute; reflexivity].
  eexists. split; [vm_compute; reflexivity|]. split; reflexivity.
Qed.

(* further non-vacuity instances: the parser after the unit { of the inputs {"a"1} , {1 , and after [ of [# *)
Example ex_missing_colon :
  let p := mkP (mkLx [123; 34; 97; 34; 49; 125; 0] 1 1) [1; 0] None false 0 in
  trace 1 (json_init [123; 34; 97; 34; 49; 125]) = Some [((G_StartObject, Some (0, [123])), p)] /\
  rejected_at p 4.
Proof.
  cbn zeta. split; [vm_compute; reflexivity|].
  apply (rejects_missing_colon_proof _ [123] [] [] [34; 97; 34] [] [49; 125] [0]).
  - repeat split.
  - apply lead_plain_false; [constructor|reflexivity].
  - reflexivity.
  - exact (js_intro [97] (jc_plain 97 [] ltac:(lia) ltac:(lia) ltac:(lia) jc_nil)).
  - constructor.
  - reflexivity.
  - cbn. lia.
Qed.

Example ex_nonstring_key :
  let p := mkP (mkLx [123; 49; 0] 1 1) [1; 0] None false 0 in
  trace 1 (json_init [123; 49]) = Some [((G_StartObject, Some (0, [123])), p)] /\ rejected_at p 1.
Proof.
  cbn zeta. split; [vm_compute; reflexivity|].
  apply (rejects_nonstring_key_proof _ [123] [] [] [49] false [0]); try (cbn; lia); try reflexivity;
    try (apply lead_plain_false; [constructor|reflexivity]); try (left; cbn; lia); repeat split.
Qed.

Example ex_illegal_byte :
  let p := mkP (mkLx [91; 35; 0] 1 1) [3; 0] None false 0 in
  trace 1 (json_init [91; 35]) = Some [((G_StartArray, Some (0, [91])), p)] /\ rejected_at p 1.
Proof.
  cbn zeta. split; [vm_compute; reflexivity|].
  apply (error_at_illegal_byte_proof _ [91] [] [] 35 [] false 3); try reflexivity;
    try (apply lead_plain_false; [constructor|reflexivity]);
    try (unfold illegal_start, is_ws, is_digit; lia); repeat split.
Qed.
