(* Json/Harness.v — correspondence drivers for the JSON parser model (C10). *)
From Verif Require Import Common.Base Common.Codec Common.Lx Json.Model.

(* GrammarType, then -1 for a nil slice or |b| b.. lo *)
Definition enc_unit (u : unit_) : list Z :=
  match snd u with
  | None => [fst u; -1]
  | Some (lo, b) => fst u :: len b :: b ++ [lo]
  end.

(* State(), r.Offset(), kind of Err(), offset of the *parse.Error (-1 if none) *)
Definition enc_obs (p : parser) : option (list Z) :=
  s <- state p ;;
  Some [s; lpos (pz p); err_kind p; match perr p with Some o => o | None => -1 end].

(* Next is called until it has returned ErrorGrammar 1+extra times.  -1 panic, -2 end, -3 out of fuel *)
Fixpoint drive_enc (fuel : nat) (extra : Z) (p : parser) : list Z :=
  match fuel with
  | O => [-3]
  | S k =>
      match next p with
      | None => [-1]
      | Some (u, p') =>
          match enc_obs p' with
          | None => enc_unit u ++ [-1]
          | Some o =>
              enc_unit u ++ o ++
              (if fst u =? G_Error then (if extra <=? 0 then [-2] else drive_enc k (extra - 1) p')
               else drive_enc k extra p')
          end
      end
  end.

(* case: ctor extra |d| d     ctor 0 bytes, 1 string, 2 reader, 3 failing reader *)
Definition run_json (l : list Z) : list Z :=
  let ctor := hdz l in
  let extra := hdz (tlz l) in
  let '(d, _) := take_list (tlz (tlz l)) in
  let p := if ctor =? 3 then json_init_failed 2 else json_init d in
  match enc_obs p with
  | None => [-1]
  | Some o => o ++ drive_enc (length d + 2 + Z.to_nat extra) extra p
  end.

(* ---- the specification side: Json/Grammar.v against encoding/json ---- *)
From Verif Require Import Json.Grammar.

(* case: |d| d  ->  [1] if valid_b d else [0]      (diffed against encoding/json.Valid) *)
Definition run_json_valid (l : list Z) : list Z :=
  let '(d, _) := take_list l in
  [if valid_b d then 1 else 0].

(* case: |d| d  ->  strip_ws d      (diffed against encoding/json.Compact on valid documents) *)
Definition run_json_strip (l : list Z) : list Z :=
  let '(d, _) := take_list l in
  strip_ws d.
