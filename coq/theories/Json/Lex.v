(* Json/Lex.v — the lexer cursor seen as a three-way split of the input, and list-level specifications of
   the token consumers of Json/Model.v (whitespace, literal, number, string). *)
From Coq Require Import ZifyBool.
From Verif Require Import Common.Base Common.Tactics Common.Lx Json.Model.

(* ---------------------------------------------------------------------------------------------- *)
(* list helpers *)

Lemma skipz_app_len {A} (x y : list A) : skipz (len x) (x ++ y) = y.
Proof.
  unfold skipz, len. rewrite Nat2Z.id. rewrite skipn_app, skipn_all, Nat.sub_diag. reflexivity.
Qed.

Lemma firstz_app_len {A} (x y : list A) : firstz (len x) (x ++ y) = x.
Proof.
  unfold firstz, len. rewrite Nat2Z.id. rewrite firstn_app, firstn_all, Nat.sub_diag.
  cbn [firstn]. apply app_nil_r.
Qed.

Lemma slice_mid {A} (a b c : list A) : slice (a ++ b ++ c) (len a) (len a + len b) = b.
Proof.
  unfold slice. rewrite skipz_app_len. replace (len a + len b - len a) with (len b) by lia.
  apply firstz_app_len.
Qed.

Lemma peekz_cons_0 c l : peekz (c :: l) 0 = Some c.
Proof.
  unfold peekz. rewrite len_cons. pose proof (len_nonneg l).
  replace (0 <=? 0) with true by reflexivity.
  replace (0 <? 1 + len l) with true by (symmetry; apply Z.ltb_lt; lia). reflexivity.
Qed.

Lemma len_pos_cons {A} (c : A) l : 0 < len (c :: l).
Proof. rewrite len_cons. pose proof (len_nonneg l). lia. Qed.

Lemma len_zero_nil {A} (l : list A) : len l = 0 -> l = [].
Proof. destruct l; [reflexivity|]. intros H. pose proof (len_pos_cons a l). lia. Qed.

(* ---------------------------------------------------------------------------------------------- *)
(* cur3 z a tok s: the buffer is a ++ tok ++ s ++ [0], the lexeme (start..pos) is tok, s is still to
   be read *)
Definition cur3 (z : lx) (a tok s : list Z) : Prop :=
  lbuf z = a ++ tok ++ s ++ [0] /\ lstart z = len a /\ lpos z = len a + len tok.

Lemma cur3_init d : cur3 (lx_init d) [] [] d.
Proof. unfold cur3, lx_init. cbn. auto. Qed.

Lemma cur3_wf z a tok s : cur3 z a tok s -> lx_wf z.
Proof.
  intros (Hb & Hs & Hp). unfold lx_wf, lx_len. split.
  - exists (a ++ tok ++ s). rewrite Hb. rewrite <- !app_assoc. reflexivity.
  - rewrite Hb, Hs, Hp. rewrite !len_app. change (len [0]) with 1.
    pose proof (len_nonneg a). pose proof (len_nonneg tok). pose proof (len_nonneg s). lia.
Qed.

Lemma cur3_suffix z a tok s : cur3 z a tok s -> suffix z = s ++ [0].
Proof.
  intros (Hb & Hs & Hp). unfold suffix. rewrite Hb, Hp.
  rewrite app_assoc. rewrite <- len_app. apply skipz_app_len.
Qed.

Lemma cur3_pk z a tok s i : cur3 z a tok s -> 0 <= i -> pk z i = peekz (s ++ [0]) i.
Proof.
  intros (Hb & Hs & Hp) Hi. unfold pk. rewrite Hb, Hp.
  rewrite app_assoc. rewrite <- len_app.
  rewrite peekz_app_r by lia. f_equal. lia.
Qed.

Lemma cur3_pk0_cons z a tok c t : cur3 z a tok (c :: t) -> pk z 0 = Some c.
Proof.
  intros H. rewrite (cur3_pk _ _ _ _ 0 H) by lia. cbn [app]. apply peekz_cons_0.
Qed.

Lemma cur3_pk0_nil z a tok : cur3 z a tok [] -> pk z 0 = Some 0.
Proof.
  intros H. rewrite (cur3_pk _ _ _ _ 0 H) by lia. reflexivity.
Qed.

(* Peek(0) is the head of the remaining data, 0 at the end *)
Definition hd0 (s : list Z) : Z := match s with c :: _ => c | [] => 0 end.

Lemma cur3_pk0 z a tok s : cur3 z a tok s -> pk z 0 = Some (hd0 s).
Proof.
  destruct s; intros H; [apply (cur3_pk0_nil _ _ _ H)|apply (cur3_pk0_cons _ _ _ _ _ H)].
Qed.

Lemma cur3_mv z a tok x s : cur3 z a tok (x ++ s) -> cur3 (mv z (len x)) a (tok ++ x) s.
Proof.
  intros (Hb & Hs & Hp). unfold cur3, mv. cbn [lbuf lpos lstart].
  rewrite Hb, Hp. rewrite !len_app. rewrite <- !app_assoc. repeat split; auto; lia.
Qed.

Lemma cur3_mv1 z a tok c s : cur3 z a tok (c :: s) -> cur3 (mv z 1) a (tok ++ [c]) s.
Proof. intros H. apply (cur3_mv z a tok [c] s H). Qed.

(* moving back inside the lexeme *)
Lemma cur3_mv_back z a tok x s : cur3 z a (tok ++ x) s -> cur3 (mv z (- len x)) a tok (x ++ s).
Proof.
  intros (Hb & Hs & Hp). unfold cur3, mv. cbn [lbuf lpos lstart].
  rewrite Hb, Hp. rewrite !len_app. rewrite <- !app_assoc. repeat split; auto; lia.
Qed.

Lemma cur3_rewind z a tok x s : cur3 z a (tok ++ x) s -> cur3 (rewind z (len tok)) a tok (x ++ s).
Proof.
  intros (Hb & Hs & Hp). unfold cur3, rewind. cbn [lbuf lpos lstart].
  rewrite Hb, Hs. rewrite <- !app_assoc. repeat split; auto.
Qed.

Lemma cur3_mark z a tok s : cur3 z a tok s -> mark z = len tok.
Proof. intros (Hb & Hs & Hp). unfold mark. lia. Qed.

Lemma cur3_skip z a tok s : cur3 z a tok s -> cur3 (skip z) (a ++ tok) [] s.
Proof.
  intros (Hb & Hs & Hp). unfold cur3, skip. cbn [lbuf lpos lstart app].
  rewrite Hb, Hp. rewrite !len_app. rewrite <- !app_assoc. repeat split; auto. rewrite len_nil. lia.
Qed.

Lemma cur3_lexeme z a tok s : cur3 z a tok s -> lexeme z = Some tok.
Proof.
  intros (Hb & Hs & Hp). unfold lexeme, slice_ok. rewrite Hb, Hs, Hp.
  rewrite !len_app. change (len [0]) with 1.
  pose proof (len_nonneg a). pose proof (len_nonneg tok). pose proof (len_nonneg s).
  replace (0 <=? len a) with true by lia.
  replace (len a <=? len a + len tok) with true by lia.
  replace (len a + len tok <=? len a + (len tok + (len s + 1))) with true by lia.
  cbn [andb]. rewrite slice_mid. reflexivity.
Qed.

Lemma cur3_shift z a tok s : cur3 z a tok s -> shift z = Some (tok, skip z).
Proof. intros H. unfold shift. rewrite (cur3_lexeme _ _ _ _ H). reflexivity. Qed.

Lemma cur3_lpos z a tok s : cur3 z a tok s -> lpos z = len a + len tok.
Proof. intros (_ & _ & H). exact H. Qed.

Lemma cur3_lstart z a tok s : cur3 z a tok s -> lstart z = len a.
Proof. intros (_ & H & _). exact H. Qed.

Lemma cur3_at_end z a tok s : cur3 z a tok s -> at_end z = (len s =? 0).
Proof.
  intros (Hb & Hs & Hp). unfold at_end, lx_len. rewrite Hb, Hp. rewrite !len_app. change (len [0]) with 1.
  pose proof (len_nonneg s). lia.
Qed.

(* ---------------------------------------------------------------------------------------------- *)
(* loops "for p(Peek(0)) { Move(1) }" *)

Fixpoint takew (p : Z -> bool) (l : list Z) : list Z :=
  match l with c :: t => if p c then c :: takew p t else [] | [] => [] end.
Fixpoint dropw (p : Z -> bool) (l : list Z) : list Z :=
  match l with c :: t => if p c then dropw p t else l | [] => [] end.

Lemma takew_dropw p l : takew p l ++ dropw p l = l.
Proof. induction l as [|c t IH]; cbn; [reflexivity|]. destruct (p c); cbn; [rewrite IH|]; reflexivity. Qed.

Lemma takew_all p l : Forall (fun c => p c = true) (takew p l).
Proof. induction l as [|c t IH]; cbn; [constructor|]. destruct (p c) eqn:E; constructor; auto. Qed.

Lemma dropw_head p l : p (hd0 (dropw p l)) = true -> dropw p l = [].
Proof.
  induction l as [|c t IH]; cbn; [reflexivity|]. destruct (p c) eqn:E; [exact IH|].
  cbn [hd0]. congruence.
Qed.

Lemma takew_app_stop p x r : Forall (fun c => p c = true) x -> p (hd0 r) = false ->
  takew p (x ++ r) = x /\ dropw p (x ++ r) = r.
Proof.
  intros Hx Hr. induction Hx as [|c t Hc Ht IH]; cbn [app].
  - destruct r as [|c r]; cbn in *; [auto|]. rewrite Hr. auto.
  - cbn. rewrite Hc. destruct IH as [-> ->]. auto.
Qed.

Lemma scan_while_takew p s : p 0 = false -> scan_while p (s ++ [0]) = Some (len (takew p s)).
Proof.
  intros Hp. induction s as [|c t IH]; cbn [app scan_while takew].
  - rewrite Hp. reflexivity.
  - destruct (p c); [|reflexivity]. rewrite IH. rewrite len_cons. reflexivity.
Qed.

Lemma scan_spec p z a tok s : cur3 z a tok s -> p 0 = false ->
  exists z', scan p z = Some z' /\ cur3 z' a (tok ++ takew p s) (dropw p s).
Proof.
  intros H Hp. unfold scan. rewrite (cur3_pk0 _ _ _ _ H). cbn [option_bind].
  rewrite (cur3_suffix _ _ _ _ H). rewrite (scan_while_takew p s Hp). cbn [option_bind].
  eexists. split; [reflexivity|]. apply cur3_mv. rewrite takew_dropw. exact H.
Qed.

Lemma is_ws_0 : is_ws 0 = false. Proof. reflexivity. Qed.
Lemma is_digit_0 : is_digit 0 = false. Proof. reflexivity. Qed.

Lemma move_ws_spec z a tok s : cur3 z a tok s ->
  exists z', move_ws z = Some z' /\ cur3 z' a (tok ++ takew is_ws s) (dropw is_ws s).
Proof. intros H. apply scan_spec; [exact H|reflexivity]. Qed.

(* ---------------------------------------------------------------------------------------------- *)
(* consumeLiteralToken *)

Definition TRUE := [116; 114; 117; 101].
Definition FALSE := [102; 97; 108; 115; 101].
Definition NULL := [110; 117; 108; 108].

(* the rest of s after the prefix pat *)
Fixpoint strip (pat s : list Z) : option (list Z) :=
  match pat with
  | [] => Some s
  | c :: pt => match s with x :: st => if x =? c then strip pt st else None | [] => None end
  end.

Lemma strip_some pat s r : strip pat s = Some r -> s = pat ++ r.
Proof.
  revert s. induction pat as [|c pt IH]; intros s H; cbn [strip] in H; [cbn; congruence|].
  destruct s as [|x st]; [discriminate|]. destruct (x =? c) eqn:E; [|discriminate].
  apply Z.eqb_eq in E. subst x. cbn. f_equal. apply IH. exact H.
Qed.

Lemma strip_app pat r : strip pat (pat ++ r) = Some r.
Proof. induction pat as [|c pt IH]; cbn; [reflexivity|]. rewrite Z.eqb_refl. exact IH. Qed.

Definition is_some {A} (o : option A) : bool := match o with Some _ => true | None => false end.

Fixpoint chain (z : lx) (i c : Z) (rest : list Z) : option bool :=
  match rest with
  | [] => pk_is z i c
  | c' :: rest' => and_then (pk_is z i c) (chain z (i + 1) c' rest')
  end.

Lemma pk_mv z n i : pk (mv z n) i = pk z (n + i).
Proof. unfold pk, mv. cbn [lbuf lpos]. f_equal. lia. Qed.

Lemma chain_mv rest : forall z n i c, chain (mv z n) i c rest = chain z (n + i) c rest.
Proof.
  induction rest as [|c' rest IH]; intros z n i c; cbn [chain]; unfold pk_is; rewrite pk_mv; [reflexivity|].
  rewrite IH. replace (n + (i + 1)) with (n + i + 1) by lia. reflexivity.
Qed.

Lemma chain_spec rest : forall c z a tok s, cur3 z a tok s -> Forall (fun c => c <> 0) (c :: rest) ->
  chain z 0 c rest = Some (is_some (strip (c :: rest) s)).
Proof.
  induction rest as [|c' rest IH]; intros c z a tok s H Hnz; cbn [chain]; unfold pk_is;
    rewrite (cur3_pk0 _ _ _ _ H); cbn [option_bind]; inversion Hnz as [|? ? Hc Hrest]; subst.
  - destruct s as [|x st]; cbn [hd0 strip is_some].
    + replace (0 =? c) with false by lia. reflexivity.
    + destruct (x =? c); reflexivity.
  - destruct s as [|x st]; cbn [hd0 strip].
    + replace (0 =? c) with false by lia. reflexivity.
    + destruct (x =? c) eqn:E; cbn [and_then is_some]; [|reflexivity].
      change (chain z (0 + 1) c' rest) with (chain z (1 + 0) c' rest).
      rewrite <- chain_mv. apply (IH c' (mv z 1) a (tok ++ [x]) st); [|exact Hrest].
      apply cur3_mv1. exact H.
Qed.

Definition lit_split (s : list Z) : option (list Z * list Z) :=
  match strip TRUE s with Some r => Some (TRUE, r) | None =>
  match strip FALSE s with Some r => Some (FALSE, r) | None =>
  match strip NULL s with Some r => Some (NULL, r) | None => None end end end.

Lemma lit_split_app s x r : lit_split s = Some (x, r) -> s = x ++ r /\ (x = TRUE \/ x = FALSE \/ x = NULL).
Proof.
  unfold lit_split. intros H.
  destruct (strip TRUE s) eqn:E1; [inversion H; subst; split; [apply strip_some; exact E1|auto]|].
  destruct (strip FALSE s) eqn:E2; [inversion H; subst; split; [apply strip_some; exact E2|auto]|].
  destruct (strip NULL s) eqn:E3; [inversion H; subst; split; [apply strip_some; exact E3|auto]|].
  discriminate.
Qed.

Ltac nz_list := repeat constructor; lia.

Lemma consume_literal_spec z a tok s : cur3 z a tok s ->
  match lit_split s with
  | Some (x, r) => exists z', consume_literal z = Some (true, z') /\ cur3 z' a (tok ++ x) r
  | None => consume_literal z = Some (false, z)
  end.
Proof.
  intros H. unfold consume_literal, lit_split.
  change (and_then (pk_is z 0 116) (and_then (pk_is z 1 114) (and_then (pk_is z 2 117) (pk_is z 3 101))))
    with (chain z 0 116 [114; 117; 101]).
  change (and_then (pk_is z 0 102) (and_then (pk_is z 1 97) (and_then (pk_is z 2 108)
          (and_then (pk_is z 3 115) (pk_is z 4 101)))))
    with (chain z 0 102 [97; 108; 115; 101]).
  change (and_then (pk_is z 0 110) (and_then (pk_is z 1 117) (and_then (pk_is z 2 108) (pk_is z 3 108))))
    with (chain z 0 110 [117; 108; 108]).
  rewrite (chain_spec _ _ _ _ _ s H) by nz_list.
  rewrite (chain_spec _ _ _ _ _ s H) by nz_list.
  rewrite (chain_spec _ _ _ _ _ s H) by nz_list.
  cbn [option_bind]. fold TRUE FALSE NULL.
  destruct (strip TRUE s) as [r|] eqn:E1; cbn [is_some].
  { eexists. split; [reflexivity|]. apply strip_some in E1. subst s.
    change 4 with (len TRUE). apply cur3_mv. exact H. }
  destruct (strip FALSE s) as [r|] eqn:E2; cbn [is_some].
  { eexists. split; [reflexivity|]. apply strip_some in E2. subst s.
    change 5 with (len FALSE). apply cur3_mv. exact H. }
  destruct (strip NULL s) as [r|] eqn:E3; cbn [is_some].
  { eexists. split; [reflexivity|]. apply strip_some in E3. subst s.
    change 4 with (len NULL). apply cur3_mv. exact H. }
  reflexivity.
Qed.

(* ---------------------------------------------------------------------------------------------- *)
(* consumeNumberToken: the three blocks as splits of the remaining data *)

Definition d19 (c : Z) : bool := (49 <=? c) && (c <=? 57).

Definition int_split (s : list Z) : option (list Z * list Z) :=
  match s with
  | c :: t => if d19 c then Some (c :: takew is_digit t, dropw is_digit t)
              else if negb (c =? 48) then None else Some ([c], t)
  | [] => None
  end.

(* the boolean says whether the exponent block is reached *)
Definition frac_split (s : list Z) : list Z * list Z * bool :=
  match s with
  | c :: t => if c =? 46 then
                if negb (is_digit (hd0 t)) then ([], s, false)
                else (c :: takew is_digit t, dropw is_digit t, true)
              else ([], s, true)
  | [] => ([], s, true)
  end.

Definition exp_split (s : list Z) : list Z * list Z :=
  match s with
  | c :: t =>
      if (c =? 101) || (c =? 69) then
        match t with
        | c1 :: t1 =>
            if (c1 =? 43) || (c1 =? 45) then
              if negb (is_digit (hd0 t1)) then ([], s) else (c :: c1 :: takew is_digit t1, dropw is_digit t1)
            else if negb (is_digit c1) then ([], s) else (c :: takew is_digit t, dropw is_digit t)
        | [] => ([], s)
        end
      else ([], s)
  | [] => ([], s)
  end.

Definition sign_split (s : list Z) : list Z * list Z :=
  match s with c :: t => if c =? 45 then ([c], t) else ([], s) | [] => ([], s) end.

Definition num_split (s : list Z) : option (list Z * list Z) :=
  let '(m, s1) := sign_split s in
  match int_split s1 with
  | None => None
  | Some (i, s3) =>
      let '(f, s5, cont) := frac_split s3 in
      if cont then let '(e, s8) := exp_split s5 in Some (m ++ i ++ f ++ e, s8)
      else Some (m ++ i ++ f, s5)
  end.

Lemma int_split_app s x r : int_split s = Some (x, r) -> s = x ++ r /\ x <> [].
Proof.
  destruct s as [|c t]; cbn [int_split]; [discriminate|].
  destruct (d19 c).
  - intros H. inversion H; subst. cbn [app]. rewrite takew_dropw. split; [reflexivity|discriminate].
  - destruct (negb (c =? 48)); [discriminate|]. intros H. inversion H; subst. split; [reflexivity|discriminate].
Qed.

Lemma frac_split_app s x r b : frac_split s = (x, r, b) -> s = x ++ r.
Proof.
  destruct s as [|c t]; cbn [frac_split]; [intros H; inversion H; reflexivity|].
  destruct (c =? 46).
  - destruct (negb (is_digit (hd0 t))); intros H; inversion H; subst; [reflexivity|].
    cbn [app]. rewrite takew_dropw. reflexivity.
  - intros H; inversion H; reflexivity.
Qed.

Lemma exp_split_app s x r : exp_split s = (x, r) -> s = x ++ r.
Proof.
  destruct s as [|c t]; cbn [exp_split]; [intros H; inversion H; reflexivity|].
  destruct ((c =? 101) || (c =? 69)); [|intros H; inversion H; reflexivity].
  destruct t as [|c1 t1]; [intros H; inversion H; reflexivity|].
  destruct ((c1 =? 43) || (c1 =? 45)).
  - destruct (negb (is_digit (hd0 t1))); intros H; inversion H; subst; [reflexivity|].
    cbn [app]. rewrite takew_dropw. reflexivity.
  - destruct (negb (is_digit c1)); intros H; injection H as <- <-; [reflexivity|].
    cbn [app]. f_equal. symmetry. apply (takew_dropw is_digit (c1 :: t1)).
Qed.

Lemma sign_split_app s x r : sign_split s = (x, r) -> s = x ++ r.
Proof.
  destruct s as [|c t]; cbn [sign_split]; [intros H; inversion H; reflexivity|].
  destruct (c =? 45); intros H; inversion H; reflexivity.
Qed.

Lemma num_split_app s x r : num_split s = Some (x, r) -> s = x ++ r /\ x <> [].
Proof.
  unfold num_split. destruct (sign_split s) as [m s1] eqn:Em. apply sign_split_app in Em.
  destruct (int_split s1) as [[i s3]|] eqn:Ei; [|discriminate]. apply int_split_app in Ei. destruct Ei as [Ei Hi].
  destruct (frac_split s3) as [[f s5] cont] eqn:Ef. apply frac_split_app in Ef.
  destruct cont.
  - destruct (exp_split s5) as [e s8] eqn:Ee. apply exp_split_app in Ee.
    intros H. inversion H; subst. rewrite <- !app_assoc. split; [reflexivity|].
    destruct m; [|discriminate]. destruct i; [congruence|discriminate].
  - intros H. inversion H; subst. rewrite <- !app_assoc. split; [reflexivity|].
    destruct m; [|discriminate]. destruct i; [congruence|discriminate].
Qed.

Lemma num_int_spec z a tok s : cur3 z a tok s ->
  match int_split s with
  | Some (x, r) => exists z', num_int z = Some (Some z') /\ cur3 z' a (tok ++ x) r
  | None => num_int z = Some None
  end.
Proof.
  intros H. unfold num_int. rewrite (cur3_pk0 _ _ _ _ H). cbn [option_bind].
  destruct s as [|c t]; cbn [hd0 int_split]; [reflexivity|].
  fold (d19 c). destruct (d19 c).
  - destruct (scan_spec is_digit (mv z 1) a (tok ++ [c]) t (cur3_mv1 _ _ _ _ _ H) is_digit_0) as (z' & Hz & Hc).
    rewrite Hz. cbn [option_bind]. eexists. split; [reflexivity|].
    rewrite <- app_assoc in Hc. exact Hc.
  - destruct (negb (c =? 48)); [reflexivity|].
    eexists. split; [reflexivity|]. apply cur3_mv1. exact H.
Qed.

Lemma num_frac_spec z a tok s : cur3 z a tok s ->
  exists z', num_frac z = Some (if snd (frac_split s) then inr z' else inl z') /\
             cur3 z' a (tok ++ fst (fst (frac_split s))) (snd (fst (frac_split s))).
Proof.
  intros H. unfold num_frac. rewrite (cur3_pk0 _ _ _ _ H). cbn [option_bind].
  destruct s as [|c t]; cbn [hd0 frac_split].
  { exists z. cbn. rewrite app_nil_r. auto. }
  destruct (c =? 46) eqn:E46.
  - pose proof (cur3_mv1 _ _ _ _ _ H) as H1. rewrite (cur3_pk0 _ _ _ _ H1). cbn [option_bind].
    destruct (negb (is_digit (hd0 t))); cbn [fst snd].
    + eexists. split; [reflexivity|]. rewrite app_nil_r.
      change (-1) with (- len [c]). apply (cur3_mv_back (mv z 1) a tok [c] t). exact H1.
    + destruct (scan_spec is_digit (mv z 1) a (tok ++ [c]) t H1 is_digit_0) as (z' & Hz & Hc).
      rewrite Hz. cbn [option_bind]. exists z'. split; [reflexivity|].
      rewrite <- app_assoc in Hc. exact Hc.
  - exists z. cbn [fst snd]. rewrite app_nil_r. auto.
Qed.

Lemma num_exp_spec z a tok s : cur3 z a tok s ->
  exists z', num_exp z = Some z' /\ cur3 z' a (tok ++ fst (exp_split s)) (snd (exp_split s)).
Proof.
  intros H. unfold num_exp. rewrite (cur3_pk0 _ _ _ _ H). cbn [option_bind].
  rewrite (cur3_mark _ _ _ _ H).
  destruct s as [|c t]; cbn [hd0 exp_split].
  { exists z. cbn. rewrite app_nil_r. auto. }
  destruct ((c =? 101) || (c =? 69)).
  2:{ exists z. cbn [fst snd]. rewrite app_nil_r. auto. }
  pose proof (cur3_mv1 _ _ _ _ _ H) as H1. rewrite (cur3_pk0 _ _ _ _ H1). cbn [option_bind].
  destruct t as [|c1 t1]; cbn [hd0].
  { (* at the terminator *)
    cbn [orb Z.eqb]. rewrite (cur3_pk0 _ _ _ _ H1). cbn [option_bind hd0 is_digit].
    cbn. eexists. split; [reflexivity|]. rewrite app_nil_r.
    apply (cur3_rewind (mv z 1) a tok [c] []). exact H1. }
  destruct ((c1 =? 43) || (c1 =? 45)).
  - pose proof (cur3_mv1 _ _ _ _ _ H1) as H2. rewrite (cur3_pk0 _ _ _ _ H2). cbn [option_bind].
    destruct (negb (is_digit (hd0 t1))); cbn [fst snd].
    + eexists. split; [reflexivity|]. rewrite app_nil_r.
      rewrite <- app_assoc in H2. apply (cur3_rewind _ a tok ([c] ++ [c1]) t1). exact H2.
    + destruct (scan_spec is_digit _ a _ t1 H2 is_digit_0) as (z' & Hz & Hc).
      rewrite Hz. exists z'. split; [reflexivity|].
      rewrite <- !app_assoc in Hc. exact Hc.
  - rewrite (cur3_pk0 _ _ _ _ H1). cbn [option_bind hd0].
    destruct (negb (is_digit c1)) eqn:Ed; cbn [fst snd].
    + eexists. split; [reflexivity|]. rewrite app_nil_r.
      apply (cur3_rewind (mv z 1) a tok [c] (c1 :: t1)). exact H1.
    + destruct (scan_spec is_digit _ a _ (c1 :: t1) H1 is_digit_0) as (z' & Hz & Hc).
      rewrite Hz. exists z'. split; [reflexivity|].
      rewrite <- !app_assoc in Hc. exact Hc.
Qed.

Lemma consume_number_spec z a tok s : cur3 z a tok s ->
  match num_split s with
  | Some (x, r) => exists z', consume_number z = Some (true, z') /\ cur3 z' a (tok ++ x) r
  | None => exists z', consume_number z = Some (false, z') /\ cur3 z' a tok s
  end.
Proof.
  intros H. unfold consume_number, num_split.
  rewrite (cur3_pk0 _ _ _ _ H). cbn [option_bind]. rewrite (cur3_mark _ _ _ _ H).
  destruct (sign_split s) as [m s1] eqn:Em.
  assert (H1 : cur3 (if hd0 s =? 45 then mv z 1 else z) a (tok ++ m) s1).
  { destruct s as [|c t]; cbn [sign_split hd0] in *.
    - inversion Em; subst. cbn. rewrite app_nil_r. exact H.
    - destruct (c =? 45); inversion Em; subst; [apply cur3_mv1; exact H|rewrite app_nil_r; exact H]. }
  pose proof (sign_split_app _ _ _ Em) as Hs.
  set (z1 := if hd0 s =? 45 then mv z 1 else z) in *.
  pose proof (num_int_spec z1 a (tok ++ m) s1 H1) as Hi.
  destruct (int_split s1) as [[i s3]|].
  2:{ rewrite Hi. cbn [option_bind]. eexists. split; [reflexivity|].
      subst s. apply cur3_rewind. exact H1. }
  destruct Hi as (z3 & Hi & H3). rewrite Hi. cbn [option_bind].
  destruct (num_frac_spec z3 a _ s3 H3) as (z5 & Hf & H5). rewrite Hf.
  destruct (frac_split s3) as [[f s5] cont]. cbn [fst snd] in *.
  destruct cont; cbn [option_bind].
  - destruct (num_exp_spec z5 a _ s5 H5) as (z8 & He & H8). rewrite He. cbn [option_bind].
    destruct (exp_split s5) as [e s8]. cbn [fst snd] in *.
    exists z8. split; [reflexivity|]. rewrite <- !app_assoc in H8. exact H8.
  - exists z5. split; [reflexivity|]. rewrite <- !app_assoc in H5. exact H5.
Qed.

(* ---------------------------------------------------------------------------------------------- *)
(* consumeStringToken *)

(* (returned bool, bytes moved over after the opening quote, remaining data) *)
Fixpoint str_split (revlex t : list Z) : bool * (list Z * list Z) :=
  match t with
  | [] => (false, ([], []))
  | c :: t' =>
      if c =? 34 then
        if esc_parity revlex false then
          let r := str_split (c :: revlex) t' in (fst r, (c :: fst (snd r), snd (snd r)))
        else (true, ([c], t'))
      else if c =? 0 then (false, ([], t))
      else let r := str_split (c :: revlex) t' in (fst r, (c :: fst (snd r), snd (snd r)))
  end.

Lemma str_split_app t : forall revlex, fst (snd (str_split revlex t)) ++ snd (snd (str_split revlex t)) = t.
Proof.
  induction t as [|c t IH]; intros revlex; cbn [str_split]; [reflexivity|].
  destruct (c =? 34).
  - destruct (esc_parity revlex false); cbn [fst snd app]; [rewrite IH|]; reflexivity.
  - destruct (c =? 0); cbn [fst snd app]; [|rewrite IH]; reflexivity.
Qed.

Lemma str_loop_split t : forall revlex,
  str_loop revlex (t ++ [0]) =
  Some (fst (str_split revlex t), len (fst (snd (str_split revlex t)))).
Proof.
  induction t as [|c t IH]; intros revlex; cbn [str_split str_loop app].
  - reflexivity.
  - destruct (c =? 34).
    + destruct (esc_parity revlex false); cbn [fst snd]; [|reflexivity].
      rewrite IH. cbn [option_bind fst snd]. rewrite len_cons. reflexivity.
    + destruct (c =? 0); cbn [fst snd]; [reflexivity|].
      rewrite IH. cbn [option_bind fst snd]. rewrite len_cons. reflexivity.
Qed.

Lemma consume_string_spec z a tok q t : cur3 z a tok (q :: t) ->
  let r := str_split (rev (tok ++ [q])) t in
  exists z', consume_string z = Some (fst r, z') /\ cur3 z' a (tok ++ q :: fst (snd r)) (snd (snd r)).
Proof.
  intros H r. unfold consume_string.
  pose proof (cur3_mv1 _ _ _ _ _ H) as H1.
  rewrite (cur3_pk0 _ _ _ _ H1). cbn [option_bind].
  rewrite (cur3_lexeme _ _ _ _ H1). cbn [option_bind].
  rewrite (cur3_suffix _ _ _ _ H1). rewrite str_loop_split. cbn [option_bind fst snd].
  fold r. eexists. split; [reflexivity|].
  replace (tok ++ q :: fst (snd r)) with ((tok ++ [q]) ++ fst (snd r)) by (rewrite <- app_assoc; reflexivity).
  apply cur3_mv. unfold r. rewrite str_split_app. exact H1.
Qed.
