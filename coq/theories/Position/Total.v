(* Position/Total.v — Position never panics and never runs out of fuel, for every byte string,
   every offset, every reader outcome and every IsGraphic predicate. *)
From Verif Require Import Common.Base Common.Tactics Cursor.Model Cursor.Proofs Position.Model.
From Coq Require Import ZifyBool.

(* the cursor is over d ++ [0]; a reader error means no data (NewInput) *)
Definition inv (d : list Z) (z : input) : Prop :=
  buf z = d ++ [0] /\ (ierr z <> 0 -> d = []) /\ 0 <= start z <= pos z /\ pos z <= len d.

Lemma len_buf d z : buf z = d ++ [0] -> len (buf z) = len d + 1.
Proof. intros ->. rewrite len_app. reflexivity. Qed.

(* Err() == nil  iff  the cursor is before the terminator *)
Lemma peek_err_before d z :
  buf z = d ++ [0] -> (ierr z <> 0 -> d = []) -> 0 <= pos z <= len d ->
  (peek_err z 0 =? 0) = (pos z <? len d).
Proof.
  intros Hb He Hp. unfold peek_err. rewrite (len_buf d z Hb).
  destruct (Z.eqb_spec (ierr z) 0) as [E|E]; cbn [negb].
  - destruct (Z.leb_spec (len d + 1 - 1) (pos z + 0)); destruct (Z.ltb_spec (pos z) (len d)); try lia; reflexivity.
  - rewrite (He E) in *. change (len []) with 0 in *.
    destruct (Z.eqb_spec (ierr z) 0); [contradiction|]. destruct (Z.ltb_spec (pos z) 0); [lia|reflexivity].
Qed.

Lemma inv_with_pos d z p :
  inv d z -> start z <= p <= len d -> inv d (with_pos z p).
Proof. intros (Hb & He & Hs & Hp) H. unfold inv, with_pos. cbn. repeat split; try assumption; lia. Qed.

Lemma inv_skip d z : inv d z -> inv d (with_start z (pos z)).
Proof. intros (Hb & He & Hs & Hp). unfold inv, with_start. cbn. repeat split; try assumption; lia. Qed.

(* what one iteration decides *)
Definition classify_ok (d : list Z) (z : input) (k : option stepkind) : Prop :=
  match k with
  | Some SBreakLoop => pos z = len d
  | Some (SAdvance n _) => 1 <= n /\ pos z + n <= len d
  | None => False
  end.

Lemma classify_total d z : inv d z -> classify_ok d z (classify z).
Proof.
  intros (Hb & He & Hs & Hp).
  assert (Hr0 : 0 <= pos z + 0 <= len d) by lia.
  destruct (peek_some_in z d 0 Hb Hr0) as [c K0].
  unfold classify. rewrite K0. cbn [option_bind].
  assert (Hnz : c <> 0 -> pos z < len d).
  { intros Hc. pose proof (peek_nonzero_before_end z d 0 c Hb Hr0 K0 Hc). lia. }
  destruct (Z.eqb_spec c 10) as [E10|N10].
  { cbn. split; [lia|]. specialize (Hnz ltac:(lia)). lia. }
  destruct (Z.eqb_spec c 13) as [E13|N13].
  { specialize (Hnz ltac:(lia)).
    destruct (peek_some_in z d 1 Hb ltac:(lia)) as [c1 K1]. rewrite K1. cbn [option_bind].
    destruct (Z.eqb_spec c1 10) as [E|E]; cbn.
    - pose proof (peek_nonzero_before_end z d 1 c1 Hb ltac:(lia) K1 ltac:(lia)). lia.
    - lia. }
  destruct (Z.leb_spec 192 c) as [G|L].
  { specialize (Hnz ltac:(lia)).
    destruct (peekrune_total_proof FInput z d 0 Hb Hr0) as (r & n & Hpr & Hn & Hend).
    rewrite Hpr. cbn [option_bind snd fst]. cbn. lia. }
  destruct (Z.eqb_spec c 0) as [E0|N0]; cbn [andb].
  - rewrite (peek_err_before d z Hb He ltac:(lia)).
    destruct (Z.ltb_spec (pos z) (len d)); cbn; lia.
  - cbn. specialize (Hnz N0). lia.
Qed.

(* the loop: every iteration consumes at least one byte *)
Lemma pos_loop_total d : forall fuel z line offset,
  inv d z -> len d - pos z < Z.of_nat fuel ->
  exists z' line', pos_loop fuel z line offset = Done (z', line') /\ inv d z' /\ line <= line'.
Proof.
  induction fuel as [|fuel IH]; intros z line offset Hinv Hf.
  { destruct Hinv as (_ & _ & _ & Hp). lia. }
  cbn [pos_loop].
  destruct (pos z - start z <? offset); [|exists z, line; split; [reflexivity|split; [assumption|lia]]].
  pose proof (classify_total d z Hinv) as Hc.
  destruct (classify z) as [[|n nl]|]; cbn [classify_ok] in Hc; [| |contradiction].
  { exists z, line. split; [reflexivity|split; [assumption|lia]]. }
  destruct ((1 <? n) && (offset <? pos z - start z + n)).
  { exists z, line. split; [reflexivity|split; [assumption|lia]]. }
  assert (Hinv1 : inv d (with_pos z (pos z + n))).
  { apply inv_with_pos; [assumption|]. destruct Hinv as (_ & _ & Hs & _). lia. }
  destruct nl.
  - destruct (IH (with_start (with_pos z (pos z + n)) (pos (with_pos z (pos z + n)))) (line + 1)
               (offset - (pos (with_pos z (pos z + n)) - start (with_pos z (pos z + n)))))
      as (z' & l' & E & I' & Hl).
    + apply inv_skip. exact Hinv1.
    + cbn. lia.
    + exists z', l'. split; [exact E|split; [exact I'|lia]].
  - destruct (IH (with_pos z (pos z + n)) line offset Hinv1) as (z' & l' & E & I' & Hl).
    + cbn. lia.
    + exists z', l'. split; [exact E|split; [exact I'|lia]].
Qed.

Lemma lexeme_bytes_inv d z : inv d z -> lexeme_bytes z = Some (slice d (start z) (pos z)).
Proof.
  intros (Hb & _ & Hs & Hp). unfold lexeme_bytes, slice_ok. rewrite (len_buf d z Hb).
  zb. cbn. rewrite Hb. rewrite slice_app_l by lia. reflexivity.
Qed.

(* the scan of positionContext stops at the terminator at the latest *)
Lemma ctx_scan_total d z : buf z = d ++ [0] -> (ierr z <> 0 -> d = []) ->
  forall l p, 0 <= p <= len d -> skipz p (d ++ [0]) = l ->
  exists q, ctx_scan z l p = Some q /\ p <= q <= len d.
Proof.
  intros Hb He. induction l as [|c t IH]; intros p Hp Hl.
  { exfalso. unfold skipz in Hl.
    assert (length (skipn (Z.to_nat p) (d ++ [0])) = 0%nat) by (rewrite Hl; reflexivity).
    rewrite skipn_length, app_length in H. cbn in H. unfold len in Hp. lia. }
  destruct (skipz_cons_peek (d ++ [0]) p c t ltac:(lia) Hl) as (Hpk & Ht & _).
  cbn [ctx_scan].
  assert (Herr : (peek_err (with_pos z p) 0 =? 0) = (p <? len d)).
  { apply (peek_err_before d (with_pos z p)); cbn; assumption. }
  rewrite Herr.
  destruct (Z.eq_dec p (len d)) as [E|N].
  - subst p. rewrite peekz_sentinel in Hpk. inversion Hpk; subst c.
    replace (len d <? len d) with false by (symmetry; apply Z.ltb_ge; lia). cbn.
    exists (len d). split; [reflexivity|lia].
  - replace (p <? len d) with true by (symmetry; apply Z.ltb_lt; lia).
    cbn [negb andb orb]. rewrite andb_false_r. cbn [orb].
    destruct ((c =? 10) || (c =? 13)).
    + exists p. split; [reflexivity|lia].
    + destruct (IH (p + 1) ltac:(lia) Ht) as (q & E & Hq).
      assert (Hcont : exists q', ctx_scan z t (p + 1) = Some q' /\ p <= q' <= len d) by (exists q; split; [exact E|lia]).
      destruct (Z.eqb_spec c 226) as [E226|N226]; [|exact Hcont].
      (* Peek(1), Peek(2) stay inside the buffer: the bytes before them are not 0 *)
      destruct t as [|c1 t1].
      { exfalso. unfold skipz in Ht.
        assert (Hl0 : length (skipn (Z.to_nat (p + 1)) (d ++ [0])) = 0%nat) by (rewrite Ht; reflexivity).
        rewrite skipn_length, app_length in Hl0. cbn in Hl0. unfold len in Hp, N. lia. }
      destruct (Z.eqb_spec c1 128) as [E128|N128]; [|exact Hcont].
      destruct (skipz_cons_peek (d ++ [0]) (p + 1) c1 t1 ltac:(lia) Ht) as (Hpk1 & Ht1 & _).
      assert (p + 1 < len d).
      { destruct (Z.eq_dec (p + 1) (len d)) as [E1|N1]; [|lia].
        rewrite E1, peekz_sentinel in Hpk1. inversion Hpk1. lia. }
      destruct t1 as [|c2 t2].
      { exfalso. unfold skipz in Ht1.
        assert (Hl0 : length (skipn (Z.to_nat (p + 1 + 1)) (d ++ [0])) = 0%nat) by (rewrite Ht1; reflexivity).
        rewrite skipn_length, app_length in Hl0. cbn in Hl0. unfold len in *. lia. }
      destruct ((c2 =? 168) || (c2 =? 169)); [exists p; split; [reflexivity|lia]|exact Hcont].
Qed.

Lemma elide_total rs col :
  exists c, elide rs col = Some c /\ (1 <= col -> 1 <= c_col c).
Proof.
  unfold elide, chk_slice, slice_ok.
  destruct (Z.ltb_spec 60 (len rs)) as [L|S]; [|eexists; split; [reflexivity|cbn; lia]].
  destruct (Z.leb_spec col 40) as [C1|C1].
  { zb. cbn. eexists; split; [reflexivity|cbn; lia]. }
  destruct (Z.leb_spec (len rs - 23) col) as [C2|C2].
  { zb. cbn. eexists; split; [reflexivity|cbn; lia]. }
  zb. cbn. eexists; split; [reflexivity|cbn; lia].
Qed.

Section Total.
  Variable graphic : Z -> bool.

  Lemma context_line_total d z : inv d z ->
    exists q, ctx_scan z (skipz (pos z) (buf z)) (pos z) = Some q /\ pos z <= q <= len d /\
              context_line z = Some (go_runes (slice d (start z) q)).
  Proof.
    intros Hinv. pose proof Hinv as (Hb & He & Hs & Hp).
    destruct (ctx_scan_total d z Hb He (skipz (pos z) (buf z)) (pos z) ltac:(lia)) as (q & E & Hq).
    { rewrite Hb. reflexivity. }
    exists q. split; [exact E|]. split; [exact Hq|].
    unfold context_line. replace (pos z <? 0) with false by (symmetry; apply Z.ltb_ge; lia).
    rewrite E. cbn [option_bind].
    rewrite (lexeme_bytes_inv d (with_pos z q)) by (apply inv_with_pos; [assumption|lia]).
    reflexivity.
  Qed.

  Lemma position_context_total d z line col : inv d z -> 1 <= col ->
    exists ctx, position_context graphic z line col = Some ctx.
  Proof.
    intros Hinv Hcol. destruct (context_line_total d z Hinv) as (q & _ & _ & E).
    unfold position_context. rewrite E. cbn [option_bind].
    destruct (elide_total (go_runes (slice d (start z) q)) col) as (c & Ec & Hc). rewrite Ec. cbn [option_bind].
    unfold render. specialize (Hc Hcol). cbv zeta.
    assert (2 <= len (line_prefix line)).
    { unfold line_prefix. rewrite len_app. change (len [58; 32]) with 2. pose proof (len_nonneg (pad_left 5 (fmt_d line))). lia. }
    replace (len (line_prefix line) - 1 + c_col c <? 0) with false by (symmetry; apply Z.ltb_ge; lia). eauto.
  Qed.

  Lemma position_input_total d z offset : inv d z ->
    exists line col ctx, position_input graphic z offset = Done (line, col, ctx) /\ 1 <= col.
  Proof.
    intros Hinv. unfold position_input.
    destruct (pos_loop_total d (length (buf z)) z 1 offset Hinv) as (z1 & l1 & E & I1 & _).
    { destruct Hinv as (Hb & _ & Hs & Hp). pose proof (len_buf d z Hb) as Hl. unfold len in Hl at 1. lia. }
    rewrite E. rewrite (lexeme_bytes_inv d z1 I1).
    set (col := len (go_runes (slice d (start z1) (pos z1))) + 1).
    assert (Hcol : 1 <= col) by (unfold col; pose proof (len_nonneg (go_runes (slice d (start z1) (pos z1)))); lia).
    destruct (position_context_total d z1 l1 col I1 Hcol) as (ctx & Ec). rewrite Ec.
    exists l1, col, ctx. split; [reflexivity|exact Hcol].
  Qed.

  Lemma inv_new_string d : inv d (new_string d).
  Proof.
    unfold new_string, new_bytes, inv.
    destruct (Z.eqb_spec (len d) 0) as [E|E].
    - assert (d = []) by (destruct d; [reflexivity|rewrite len_cons in E; pose proof (len_nonneg d); lia]).
      subst d. cbn. repeat split; try lia; try (intros _; reflexivity).
    - cbn. pose proof (len_nonneg d). repeat split; try lia; try (intros H0; contradiction).
  Qed.

  Lemma inv_new_reader chunks e :
    inv (if e =? 0 then concat chunks else []) (new_reader chunks e).
  Proof.
    unfold new_reader. destruct (Z.eqb_spec e 0) as [E|E].
    - apply inv_new_string.
    - unfold inv. cbn. repeat split; try lia; try reflexivity.
  Qed.

  (* position_total: no panic, no fuel exhaustion, for all byte strings and all offsets *)
  Theorem position_total_proof data offset :
    exists line col ctx, position graphic data offset = Done (line, col, ctx) /\ 1 <= line /\ 1 <= col.
  Proof.
    unfold position, position_input.
    pose proof (inv_new_string data) as Hinv.
    destruct (pos_loop_total data (length (buf (new_string data))) (new_string data) 1 offset Hinv) as (z1 & l1 & E & I1 & Hl).
    { destruct Hinv as (Hb & _ & Hs & Hp). pose proof (len_buf data _ Hb) as Hlb. unfold len in Hlb at 1. lia. }
    rewrite E. rewrite (lexeme_bytes_inv data z1 I1).
    set (col := len (go_runes (slice data (start z1) (pos z1))) + 1).
    assert (Hcol : 1 <= col) by (unfold col; pose proof (len_nonneg (go_runes (slice data (start z1) (pos z1)))); lia).
    destruct (position_context_total data z1 l1 col I1 Hcol) as (ctx & Ec). rewrite Ec.
    exists l1, col, ctx. repeat split; [exact Hl|exact Hcol].
  Qed.

  Theorem position_reader_total_proof chunks e offset :
    exists line col ctx, position_reader graphic chunks e offset = Done (line, col, ctx).
  Proof.
    unfold position_reader.
    destruct (position_input_total _ _ offset (inv_new_reader chunks e)) as (l & c & x & E & _). eauto.
  Qed.

  (* NewErrorLexer on any cursor over d ++ [0], wherever it stands (even outside the buffer) *)
  Theorem new_error_lexer_total_proof z d :
    buf z = d ++ [0] ->
    exists line col ctx, new_error_lexer graphic z = Done (line, col, ctx) /\ new_error_lexer graphic z = position graphic d (pos z).
  Proof.
    intros Hb. unfold new_error_lexer, input_bytes, slice_ok. rewrite (len_buf d z Hb). pose proof (len_nonneg d).
    zb. cbn [andb]. rewrite Hb. replace (len d + 1 - 1) with (len d) by lia.
    rewrite slice_app_l by lia.
    assert (Hs : slice d 0 (len d) = d).
    { unfold slice, skipz. cbn [Z.to_nat skipn]. replace (len d - 0) with (len d) by lia.
      rewrite <- (app_nil_r d) at 2. apply firstz_app_exact. }
    rewrite Hs. unfold new_error.
    destruct (position_total_proof d (pos z)) as (l & c & x & E & _). rewrite E. eauto 6.
  Qed.
End Total.
