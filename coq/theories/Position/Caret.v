(* Position/Caret.v — the caret is under the character at the offset (every line number), the printed
   context is a window of at most 60 characters of the line the offset is in. *)
From Verif Require Import Common.Base Common.Tactics Cursor.Model Cursor.Proofs
  Position.Model Position.Spec Position.Lemmas Position.Total Position.LineCol Position.Context.
From Coq Require Import ZifyBool.

(* what "the caret (n spaces, then ^) is exactly under the character at the offset" means for the first
   printed line l1: the character of the unit at the offset, as displayed, is at index n; when the offset is
   at the end of the line (on \n, \r, \r\n, U+2028, U+2029 or at the end of the text) the caret is just past
   the line *)
Definition caret_under (graphic : Z -> bool) (cur : list cp) (l1 : list Z) (n : nat) : Prop :=
  match cur with
  | c :: _ => if brkc c then n = length l1
              else nth_error l1 n = Some (disp graphic (snd c))
  | [] => n = length l1
  end.

Lemma split_at_first {A} (x : A) : forall a a' b b',
  a ++ x :: b = a' ++ x :: b' -> ~ In x a -> ~ In x a' -> a = a' /\ b = b'.
Proof.
  induction a as [|y a IH]; intros a' b b' E Ha Ha'.
  - destruct a' as [|y' a']; cbn in E.
    + injection E as E. split; [reflexivity|exact E].
    + injection E as E1 E2. exfalso. apply Ha'. left. symmetry. exact E1.
  - destruct a' as [|y' a']; cbn in E.
    + injection E as E1 E2. exfalso. apply Ha. left. exact E1.
    + injection E as E1 E2. subst y'. destruct (IH a' b b' E2) as [-> ->].
      * intros H. apply Ha. right. exact H.
      * intros H. apply Ha'. right. exact H.
      * split; reflexivity.
Qed.

Lemma in_firstn' {A} (x : A) n l : In x (firstn n l) -> In x l.
Proof. intros H. rewrite <- (firstn_skipn n l). apply in_or_app. left. exact H. Qed.

Lemma in_slice {A} (x : A) l lo hi : In x (slice l lo hi) -> In x l.
Proof.
  unfold slice, firstz, skipz. intros H. apply in_firstn' in H.
  rewrite <- (firstn_skipn (Z.to_nat lo) l). apply in_or_app. right. exact H.
Qed.

Lemma len_length {A} (l : list A) : Z.to_nat (len l) = length l.
Proof. unfold len. apply Nat2Z.id. Qed.

Section Caret.
  Variable graphic : Z -> bool.

  Lemma disp_not_nl r : r <> 10 -> disp graphic r <> 10.
  Proof. intros H. unfold disp. destruct (graphic r); lia. Qed.

  Lemma disp_graphic r : graphic (disp graphic r) = true \/ disp graphic r = 183.
  Proof. unfold disp. destruct (graphic r) eqn:E; [left; exact E|right; reflexivity]. Qed.

  Lemma len_line_prefix line : len (line_prefix line) = len (pad_left 5 (fmt_d line)) + 2.
  Proof. unfold line_prefix. rewrite len_app. reflexivity. Qed.

  Lemma first_line_len line c :
    len (first_line graphic line c) =
      len (line_prefix line) + len (ellipsis (c_front c)) + len (c_body c) + len (ellipsis (c_rear c)).
  Proof. unfold first_line. rewrite !len_app, len_map. lia. Qed.

  (* index k of what follows "%5d: " and the front ellipsis *)
  Lemma first_line_nth line c k :
    0 <= k ->
    nth_error (first_line graphic line c) (Z.to_nat (len (line_prefix line) + len (ellipsis (c_front c)) + k)) =
      nth_error (map (disp graphic) (c_body c) ++ ellipsis (c_rear c)) (Z.to_nat k).
  Proof.
    intros Hk. unfold first_line. pose proof (len_nonneg (ellipsis (c_front c))) as He.
    pose proof (len_nonneg (line_prefix line)) as Hp.
    rewrite nth_error_app_at by (rewrite <- len_length; lia).
    rewrite nth_error_app_at by (rewrite <- !len_length; lia).
    f_equal. rewrite <- !len_length. lia.
  Qed.

  (* no line feed in the first printed line *)
  Lemma first_line_no_lf line c :
    0 <= line -> Forall (fun r => r <> 10) (c_body c) -> ~ In 10 (first_line graphic line c).
  Proof.
    intros Hl Hb. unfold first_line, line_prefix.
    apply not_in_app; [apply not_in_app; [unfold pad_left; apply not_in_app; [apply not_in_repeat; lia|]|]|].
    { apply (Forall_not_in (fun d => 48 <= d <= 57)); [apply fmt_d_range; exact Hl|lia]. }
    { cbn; intros [H|[H|[]]]; lia. }
    apply not_in_app; [destruct (c_front c); cbn; [intros [H|[H|[H|[]]]]; lia|tauto]|].
    apply not_in_app; [|destruct (c_rear c); cbn; [intros [H|[H|[H|[]]]]; lia|tauto]].
    intros Hin. apply in_map_iff in Hin. destruct Hin as (r & Hr & Hin).
    rewrite Forall_forall in Hb. exact (disp_not_nl r (Hb r Hin) Hr).
  Qed.

  Lemma whole_line_no_lf pre cur post : Forall (fun r => r <> 10) (whole_line pre cur post).
  Proof.
    unfold whole_line. rewrite runes_app. apply Forall_app. split.
    - destruct (after_last_spec brkc pre) as (_ & _ & Hn & _).
      unfold runes. apply Forall_forall. intros r Hin. apply in_map_iff in Hin. destruct Hin as (c & <- & Hc).
      rewrite forallb_forall in Hn. specialize (Hn c Hc). unfold brkc, is_break in Hn.
      intros E. rewrite E in Hn. discriminate.
    - pose proof (line_rest_no_break (cur ++ post)) as H. unfold runes.
      apply Forall_forall. intros r Hin. apply in_map_iff in Hin. destruct Hin as (c & <- & Hc).
      rewrite Forall_forall in H. specialize (H c Hc). unfold brkc, is_break in H.
      intros E. rewrite E in H. discriminate.
  Qed.

  (* the decomposition of a Done result of Position on a valid text *)
  Lemma position_valid_parts cps off pre cur post line col ctx :
    Forall cp_ok cps -> located cps off pre cur post ->
    position graphic (bytes cps) off = Done (line, col, ctx) ->
    line = 1 + breaks (runes pre) /\ col = 1 + len (last_line (runes pre)) /\
    exists c, elide (whole_line pre cur post) col = Some c /\
              ctx = first_line graphic line c ++ [10] ++ repeat 32 (Z.to_nat (len (line_prefix line) - 1 + c_col c)) ++ [94].
  Proof.
    intros Hok Hloc E. rewrite (position_valid graphic cps off pre cur post Hok Hloc) in E. cbv zeta in E.
    destruct (elide (whole_line pre cur post) (1 + len (last_line (runes pre)))) as [c|] eqn:Ec; [|discriminate].
    cbn [option_bind] in E. unfold render in E. cbv zeta in E.
    destruct (len (line_prefix (1 + breaks (runes pre))) - 1 + c_col c <? 0); [discriminate|].
    injection E as E1 E2 E3. subst line col. split; [reflexivity|]. split; [reflexivity|].
    exists c. split; [exact Ec|]. symmetry. exact E3.
  Qed.

  (* the character at the offset within the shown line *)
  Lemma whole_line_at pre cur post :
    let L := whole_line pre cur post in
    let i := len (last_line (runes pre)) in
    0 <= i <= len L /\
    match cur with
    | c :: _ => if brkc c then i = len L
                else nth_error L (Z.to_nat i) = Some (snd c) /\ i < len L
    | [] => post = [] -> i = len L
    end.
  Proof.
    cbv zeta. unfold whole_line. rewrite runes_app, len_app, last_line_runes.
    pose proof (len_nonneg (runes (after_last brkc pre))). pose proof (len_nonneg (runes (line_rest (cur ++ post)))).
    split; [lia|].
    destruct cur as [|c cur'].
    - intros ->. cbn. lia.
    - cbn [app line_rest]. destruct (brkc c).
      + cbn. lia.
      + cbn [runes map]. rewrite len_cons. split.
        * rewrite nth_error_app_at by (rewrite len_length; lia).
          rewrite len_length, Nat.sub_diag. reflexivity.
        * pose proof (len_nonneg (map snd (line_rest (cur' ++ post)))). lia.
  Qed.

  Theorem context_caret_proof cps off pre cur post line col ctx :
    Forall cp_ok cps -> located cps off pre cur post ->
    position graphic (bytes cps) off = Done (line, col, ctx) ->
    exists l1 n, ctx = l1 ++ 10 :: repeat 32 n ++ [94] /\ ~ In 10 l1 /\ caret_under graphic cur l1 n.
  Proof.
    intros Hok Hloc E.
    destruct (position_valid_parts cps off pre cur post line col ctx Hok Hloc E) as (El & Ecol & c & Ec & Ectx).
    pose proof (breaks_nonneg (runes pre)) as Hbn.
    set (L := whole_line pre cur post) in *.
    destruct (elide_window L col) as (c' & lo & hi & Ec' & Hbody & Hlo & Hhi & Hf & Hr & Htot & Hcc & Hwin).
    rewrite Ec in Ec'. injection Ec' as <-.
    destruct (whole_line_at pre cur post) as (Hi & Hat). fold L in Hi, Hat.
    set (i := len (last_line (runes pre))) in *.
    assert (Hcol : col - 1 = i) by lia.
    specialize (Hwin ltac:(lia)). destruct Hwin as (Hw1 & Hw2).
    exists (first_line graphic line c), (Z.to_nat (len (line_prefix line) - 1 + c_col c)).
    split; [exact Ectx|]. split.
    { apply first_line_no_lf; [lia|]. rewrite Hbody. apply Forall_forall. intros r Hin.
      pose proof (whole_line_no_lf pre cur post) as Hn. rewrite Forall_forall in Hn. apply Hn. fold L.
      exact (in_slice r L lo hi Hin). }
    pose proof (len_nonneg (ellipsis (c_front c))) as Hen.
    pose proof (len_nonneg (line_prefix line)) as Hpn.
    assert (Hidx : len (line_prefix line) - 1 + c_col c = len (line_prefix line) + len (ellipsis (c_front c)) + (i - lo)) by lia.
    assert (Heol : i = len L -> Z.to_nat (len (line_prefix line) - 1 + c_col c) = length (first_line graphic line c)).
    { intros Hend. rewrite <- len_length, first_line_len, Hbody.
      assert (hi = len L) by lia. subst hi.
      rewrite Hr. replace (len L <? len L) with false by (symmetry; apply Z.ltb_ge; lia).
      change (len (ellipsis false)) with 0. rewrite len_slice by lia. f_equal. lia. }
    unfold caret_under. destruct cur as [|cc cur'].
    - destruct Hloc as (_ & Hpost & _). apply Heol. apply Hat. exact Hpost.
    - destruct (brkc cc).
      + apply Heol. exact Hat.
      + destruct Hat as (Hnth & Hlt). specialize (Hw2 ltac:(lia)).
        rewrite Hidx. rewrite first_line_nth by lia.
        rewrite nth_error_app1 by (rewrite map_length, Hbody, <- len_length, len_slice by lia; lia).
        rewrite nth_error_map, Hbody, nth_error_slice by lia. rewrite Hnth. reflexivity.
  Qed.

  (* the context is a window of the line around the column, at most 60 characters with the ellipses,
     each ellipsis exactly where the line was cut, every character graphic or a middle dot; the caret
     column n is the printed index of the column's character *)
  Theorem context_window_proof cps off pre cur post line col ctx :
    Forall cp_ok cps -> located cps off pre cur post ->
    position graphic (bytes cps) off = Done (line, col, ctx) ->
    exists (front rear : bool) lo hi n,
      let L := whole_line pre cur post in
      ctx = line_prefix line ++ ellipsis front ++ map (disp graphic) (slice L lo hi) ++ ellipsis rear
              ++ [10] ++ repeat 32 n ++ [94] /\
      Z.of_nat n = len (line_prefix line) + len (ellipsis front) + (col - 1 - lo) /\
      0 <= lo <= col - 1 /\ col - 1 <= hi <= len L /\ (col - 1 < len L -> col - 1 < hi) /\
      (front = true <-> 0 < lo) /\ (rear = true <-> hi < len L) /\
      len (ellipsis front) + (hi - lo) + len (ellipsis rear) <= 60 /\
      (len L <= 60 -> lo = 0 /\ hi = len L).
  Proof.
    intros Hok Hloc E.
    destruct (position_valid_parts cps off pre cur post line col ctx Hok Hloc E) as (El & Ecol & c & Ec & Ectx).
    set (L := whole_line pre cur post) in *.
    destruct (elide_window L col) as (c' & lo & hi & Ec' & Hbody & Hlo & Hhi & Hf & Hr & Htot & Hcc & Hwin).
    rewrite Ec in Ec'. injection Ec' as <-.
    destruct (whole_line_at pre cur post) as (Hi & _). fold L in Hi.
    specialize (Hwin ltac:(lia)). destruct Hwin as (Hw1 & Hw2).
    pose proof (len_nonneg (ellipsis (c_front c))) as Hen.
    pose proof (len_nonneg (line_prefix line)) as Hpn.
    exists (c_front c), (c_rear c), lo, hi, (Z.to_nat (len (line_prefix line) - 1 + c_col c)). cbv zeta. fold L.
    split.
    { rewrite Ectx. unfold first_line. rewrite Hbody, <- !app_assoc. reflexivity. }
    split; [rewrite Z2Nat.id by lia; lia|].
    split; [lia|]. split; [lia|]. split; [exact Hw2|].
    split; [rewrite Hf; split; intros H; b2p; [lia|apply Z.ltb_lt; lia]|].
    split; [rewrite Hr; split; intros H; b2p; [lia|apply Z.ltb_lt; lia]|].
    split; [exact Htot|].
    intros Hshort. unfold elide in Ec. replace (60 <? len L) with false in Ec by (symmetry; apply Z.ltb_ge; lia).
    injection Ec as <-. cbn [c_front c_rear] in Hf, Hr.
    symmetry in Hf, Hr. b2p. lia.
  Qed.

  (* "a context made of that line": a line of at most 60 characters is printed exactly and in full — the
     code points from after the last break before the offset up to the next \n, \r, \r\n, U+2028, U+2029 or
     the end of the text, with the caret under column col *)
  Theorem context_whole_line_proof cps off pre cur post line col ctx :
    Forall cp_ok cps -> located cps off pre cur post ->
    position graphic (bytes cps) off = Done (line, col, ctx) ->
    len (whole_line pre cur post) <= 60 ->
    ctx = line_prefix line ++ map (disp graphic) (whole_line pre cur post)
            ++ [10] ++ repeat 32 (Z.to_nat (len (line_prefix line) + (col - 1))) ++ [94].
  Proof.
    intros Hok Hloc E Hshort.
    destruct (context_window_proof cps off pre cur post line col ctx Hok Hloc E)
      as (front & rear & lo & hi & n & Ectx & Hn & _ & _ & _ & Hf & Hr & _ & Hfull).
    cbv zeta in *.
    destruct (Hfull Hshort) as (-> & ->).
    assert (front = false) by (destruct front; [destruct Hf as [Hf _]; specialize (Hf eq_refl); lia|reflexivity]).
    assert (rear = false) by (destruct rear; [destruct Hr as [Hr _]; specialize (Hr eq_refl); lia|reflexivity]).
    subst front rear. rewrite Ectx. cbn [ellipsis app]. rewrite slice_full.
    change (len (ellipsis false)) with 0 in Hn.
    replace (Z.to_nat (len (line_prefix line) + (col - 1))) with n by lia. reflexivity.
  Qed.

  (* for all byte strings: at most 60 characters between "%5d: " and the end of the first line, every shown
     character graphic or a middle dot *)
  Theorem context_length_proof data off line col ctx :
    position graphic data off = Done (line, col, ctx) ->
    exists (front rear : bool) body n,
      ctx = line_prefix line ++ ellipsis front ++ body ++ ellipsis rear ++ [10] ++ repeat 32 n ++ [94] /\
      len (ellipsis front ++ body ++ ellipsis rear) <= 60 /\
      Forall (fun r => graphic r = true \/ r = 183) body.
  Proof.
    unfold position, position_input. intros E.
    destruct (pos_loop _ _ _ _) as [[z1 l1]| |]; try discriminate.
    destruct (lexeme_bytes z1) as [lx|]; [|discriminate].
    destruct (position_context graphic z1 l1 (len (go_runes lx) + 1)) as [x|] eqn:Ex; [|discriminate].
    injection E as E1 E2 E3. subst l1 col x.
    unfold position_context in Ex. destruct (context_line z1) as [rs|]; [|discriminate]. cbn [option_bind] in Ex.
    destruct (elide_window rs (len (go_runes lx) + 1)) as (c & lo & hi & Ec & Hbody & Hlo & Hhi & _ & _ & Htot & _ & _).
    rewrite Ec in Ex. cbn [option_bind] in Ex. unfold render in Ex. cbv zeta in Ex.
    destruct (len (line_prefix line) - 1 + c_col c <? 0); [discriminate|]. injection Ex as Ex.
    exists (c_front c), (c_rear c), (map (disp graphic) (c_body c)), (Z.to_nat (len (line_prefix line) - 1 + c_col c)).
    split; [rewrite <- Ex; unfold first_line; rewrite <- !app_assoc; reflexivity|]. split.
    - rewrite !len_app, len_map, Hbody, len_slice by lia. lia.
    - apply Forall_forall. intros r Hin. apply in_map_iff in Hin. destruct Hin as (r0 & <- & _). apply disp_graphic.
  Qed.
End Caret.

(* --- non-vacuity at line 100000 and with U+2028 -------------------------------------------------------------- *)
Definition nl_cp : cp := ([10], 10).

Lemma repeat_snoc {A} (x : A) n : repeat x (S n) = repeat x n ++ [x].
Proof. induction n as [|n IH]; [reflexivity|]. cbn [repeat app] in *. f_equal. exact IH. Qed.

Lemma after_last_repeat_nl n : after_last brkc (repeat nl_cp n) = [].
Proof. destruct n; [reflexivity|]. rewrite repeat_snoc, after_last_snoc. reflexivity. Qed.

Lemma breaks_repeat_nl n t : breaks (repeat 10 n ++ t) = Z.of_nat n + breaks t.
Proof.
  induction n as [|n IH]; [cbn; lia|].
  cbn [repeat app breaks]. rewrite IH.
  replace (is_break 10 && negb ((10 =? 13) && starts_lf (repeat 10 n ++ t))) with true by reflexivity.
  rewrite Nat2Z.inj_succ. lia.
Qed.

Lemma runes_repeat_nl n : runes (repeat nl_cp n) = repeat 10 n.
Proof. induction n as [|n IH]; [reflexivity|]. cbn [repeat runes map snd nl_cp] in *. f_equal. exact IH. Qed.

Lemma len_bytes_repeat_nl n : len (bytes (repeat nl_cp n)) = Z.of_nat n.
Proof.
  induction n as [|n IH]; [reflexivity|]. cbn [repeat]. rewrite bytes_cons, len_app, IH. cbn [fst nl_cp].
  change (len [10]) with 1. lia.
Qed.

Lemma Forall_repeat {A} (P : A -> Prop) x n : P x -> Forall P (repeat x n).
Proof. intros H. induction n; cbn; constructor; assumption. Qed.

Definition ascii_graphic (r : Z) : bool := (32 <=? r) && (r <=? 126).

(* 99999 line feeds, then "ab"; the offset of 'b' is on line 100000, whose number is 6 characters wide *)
Definition w_pre : list cp := repeat nl_cp (Z.to_nat 99999) ++ [([97], 97)].
Definition w_cur : list cp := [([98], 98)].
Definition w_cps : list cp := w_pre ++ w_cur ++ [].

Lemma w_ok : Forall cp_ok w_cps.
Proof.
  unfold w_cps, w_pre. apply Forall_app. split; [apply Forall_app; split|].
  - apply Forall_repeat. reflexivity.
  - repeat constructor.
  - repeat constructor.
Qed.

Lemma w_len_pre : len (bytes w_pre) = 100000.
Proof. unfold w_pre. rewrite bytes_app, len_app, len_bytes_repeat_nl. rewrite Z2Nat.id by lia. reflexivity. Qed.

Lemma w_located : located w_cps 100000 w_pre w_cur [].
Proof.
  split; [reflexivity|]. unfold w_cur. cbn [snd fst]. rewrite w_len_pre. change (len [98]) with 1.
  split; [lia|]. split; intros [H _]; discriminate.
Qed.

(* "100000: ab", line feed, 9 spaces, '^': the caret is under 'b' *)
Lemma w_position :
  position ascii_graphic (bytes w_cps) 100000 =
    Done (100000, 2, [49; 48; 48; 48; 48; 48; 58; 32; 97; 98; 10; 32; 32; 32; 32; 32; 32; 32; 32; 32; 94]).
Proof.
  rewrite (position_valid ascii_graphic w_cps 100000 w_pre w_cur [] w_ok w_located). cbv zeta.
  assert (Hal : after_last brkc w_pre = [([97], 97)]).
  { unfold w_pre. rewrite after_last_snoc. cbn [brkc snd]. change (is_break 97) with false.
    rewrite after_last_repeat_nl. reflexivity. }
  assert (Hbr : breaks (runes w_pre) = 99999).
  { unfold w_pre. rewrite runes_app, runes_repeat_nl. rewrite breaks_repeat_nl.
    rewrite Z2Nat.id by lia. reflexivity. }
  unfold whole_line. rewrite last_line_runes, Hal, Hbr. vm_compute. reflexivity.
Qed.

(* the hypotheses of context_caret are met at a line number of six digits *)
Example context_caret_line_100000 :
  exists l1 n,
    Forall cp_ok w_cps /\ located w_cps 100000 w_pre w_cur [] /\
    position ascii_graphic (bytes w_cps) 100000 = Done (100000, 2, l1 ++ 10 :: repeat 32 n ++ [94]) /\
    caret_under ascii_graphic w_cur l1 n /\ nth_error l1 n = Some 98.
Proof.
  exists [49; 48; 48; 48; 48; 48; 58; 32; 97; 98], 9%nat.
  split; [exact w_ok|]. split; [exact w_located|]. split; [exact w_position|]. split; reflexivity.
Qed.

(* "a", U+2028, "b": at offset 0 the context of line 1 is "a" only; at offset 4 the context of line 2 is "b" *)
Definition ls_cps : list cp := [([97], 97); ([226; 128; 168], 8232); ([98], 98)].

Example context_whole_line_ls :
  Forall cp_ok ls_cps /\
  located ls_cps 0 [] [([97], 97)] [([226; 128; 168], 8232); ([98], 98)] /\
  whole_line [] [([97], 97)] [([226; 128; 168], 8232); ([98], 98)] = [97] /\
  position ascii_graphic (bytes ls_cps) 0 =
    Done (1, 1, [32; 32; 32; 32; 49; 58; 32; 97; 10; 32; 32; 32; 32; 32; 32; 32; 94]) /\
  position ascii_graphic (bytes ls_cps) 4 =
    Done (2, 1, [32; 32; 32; 32; 50; 58; 32; 98; 10; 32; 32; 32; 32; 32; 32; 32; 94]) /\
  (* the offset of the U+2028 itself: end of line 1, the caret just past "a" *)
  position ascii_graphic (bytes ls_cps) 1 =
    Done (1, 2, [32; 32; 32; 32; 49; 58; 32; 97; 10; 32; 32; 32; 32; 32; 32; 32; 32; 94]).
Proof.
  split; [repeat constructor|]. split.
  { split; [reflexivity|]. cbn. split; [lia|]. split; intros [H _]; discriminate. }
  split; [reflexivity|]. repeat split; vm_compute; reflexivity.
Qed.
