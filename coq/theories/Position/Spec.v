(* Position/Spec.v — the declarative side of C15: code points of a valid UTF-8 text (by the RFC 3629
   decoder of Cursor/Model.v), line breaks, the current line, and where an offset falls.
   Definitions only. *)
From Verif Require Import Common.Base Cursor.Model.

(* a code point together with its UTF-8 bytes *)
Definition cp := (list Z * Z)%type.
Definition cp_ok (c : cp) : Prop := utf8_decode (fst c) = Some (snd c, len (fst c)).
Definition bytes (l : list cp) : list Z := concat (map fst l).
Definition runes (l : list cp) : list Z := map snd l.

(* t is valid UTF-8: it is the concatenation of the encodings of a list of code points *)
Definition valid_utf8 (t : list Z) : Prop := exists cps, Forall cp_ok cps /\ t = bytes cps.

(* the code points that are (part of) a line break: \n, \r, U+2028, U+2029 *)
Definition is_break (r : Z) : bool := (r =? 10) || (r =? 13) || (r =? 8232) || (r =? 8233).
Definition brkc (c : cp) : bool := is_break (snd c).

Definition starts_lf (l : list Z) : bool := match l with c :: _ => c =? 10 | [] => false end.
Definition ends_cr (l : list Z) : bool := last l 0 =? 13.

(* number of line breaks in a list of code points: \n, \r, U+2028, U+2029 count one each,
   except that a \r immediately followed by \n forms one break with it *)
Fixpoint breaks (rs : list Z) : Z :=
  match rs with
  | [] => 0
  | r :: t => (if is_break r && negb ((r =? 13) && starts_lf t) then 1 else 0) + breaks t
  end.

(* what follows the last element satisfying p (the whole list if there is none) *)
Fixpoint after_last {A} (p : A -> bool) (l : list A) : list A :=
  match l with
  | [] => []
  | x :: t => if existsb p t then after_last p t else if p x then t else x :: t
  end.

(* the code points of the current line: after the last break *)
Definition last_line (rs : list Z) : list Z := after_last is_break rs.

(* the longest prefix without any of the break code points: the rest of the line *)
Fixpoint line_rest (l : list cp) : list cp :=
  match l with
  | [] => []
  | c :: t => if brkc c then [] else c :: line_rest t
  end.

(* the code points of the line the offset is in: after the last break before the unit at the offset, up to
   the next \n, \r, \r\n, U+2028, U+2029 or the end of the text *)
Definition whole_line (pre cur post : list cp) : list Z :=
  runes (after_last brkc pre ++ line_rest (cur ++ post)).

(* [located cps off pre cur post]: the text cps = pre ++ cur ++ post, and cur is the unit the byte
   offset off falls into: one code point, or a \r\n pair (never split), or nothing at the very end.
   pre therefore holds exactly the code points and breaks that end at or before off. *)
Definition located (cps : list cp) (off : Z) (pre cur post : list cp) : Prop :=
  cps = pre ++ cur ++ post /\
  match cur with
  | [] => post = [] /\ off = len (bytes pre)
  | [c] => len (bytes pre) <= off < len (bytes pre) + len (fst c) /\
           ~ (snd c = 13 /\ starts_lf (runes post) = true) /\
           ~ (snd c = 10 /\ ends_cr (runes pre) = true)
  | [c1; c2] => snd c1 = 13 /\ snd c2 = 10 /\ len (bytes pre) <= off < len (bytes pre) + 2
  | _ => False
  end.

