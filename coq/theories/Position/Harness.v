(* Position/Harness.v — correspondence drivers for the Position model (C15). *)
From Verif Require Import Common.Base Common.Codec Cursor.Model Position.Model.

(* unicode.IsGraphic restricted to the runes of the case: the case carries the list of runes
   (of the decoded text) for which Go's unicode.IsGraphic is false *)
Definition graphic_of (ng : list Z) (r : Z) : bool := negb (existsb (Z.eqb r) ng).

Definition enc_outcome (o : outcome (Z * Z * list Z)) : list Z :=
  match o with
  | Done (line, col, ctx) => line :: col :: len ctx :: ctx
  | Panic => [-1]
  | OutOfFuel => [-2]
  end.

(* case: off e |d| d |ng| ng     e = 0: the reader delivers d; e <> 0: the reader fails *)
Definition run_position (l : list Z) : list Z :=
  let off := hdz l in
  let e := hdz (tlz l) in
  let '(d, r1) := take_list (tlz (tlz l)) in
  let '(ng, _) := take_list r1 in
  enc_outcome (position_reader (graphic_of ng) [d] e off).

(* case: p1 p2 |d| d |ng| ng     NewErrorLexer on an Input over d after Move(p1); Skip(); Move(p2) *)
Definition run_errlexer (l : list Z) : list Z :=
  let p1 := hdz l in
  let p2 := hdz (tlz l) in
  let '(d, r1) := take_list (tlz (tlz l)) in
  let '(ng, _) := take_list r1 in
  let z1 := with_pos (new_string d) p1 in
  let z2 := with_start z1 (pos z1) in
  enc_outcome (new_error_lexer (graphic_of ng) (with_pos z2 (pos z2 + p2))).

(* case: n     fmt.Sprintf("%5d", n) as the model prints it (the assumption behind the caret column) *)
Definition run_fmt5d (l : list Z) : list Z := pad_left 5 (fmt_d (hdz l)).
