(* Position/Lemmas.v — lists, UTF-8 and specification lemmas used by the C15 proofs. *)
From Verif Require Import Common.Base Common.Tactics Cursor.Model Cursor.Proofs Position.Model Position.Spec.
From Coq Require Import ZifyBool.

Ltac some_pair H Hr Hl :=
  match type of H with
  | Some (?a, ?b) = Some (?c, ?d) => assert (Hr : a = c) by congruence; assert (Hl : b = d) by congruence
  end.

(* --- lists ------------------------------------------------------------------------------------- *)
Lemma peekz_cons_0 c t : peekz (c :: t) 0 = Some c.
Proof. unfold peekz. rewrite len_cons. pose proof (len_nonneg t). zb. reflexivity. Qed.

Lemma peekz_cons_S c t i : 0 <= i -> peekz (c :: t) (i + 1) = peekz t i.
Proof.
  intros Hi. change (c :: t) with ([c] ++ t). rewrite peekz_app_r by (change (len [c]) with 1; lia).
  change (len [c]) with 1. f_equal. lia.
Qed.

Lemma skipz_app_len {A} (a b : list A) : skipz (len a) (a ++ b) = b.
Proof.
  unfold skipz, len. rewrite Nat2Z.id. rewrite skipn_app, Nat.sub_diag, skipn_all. reflexivity.
Qed.

Lemma skipz_0 {A} (l : list A) : skipz 0 l = l.
Proof. reflexivity. Qed.

Lemma slice_mid {A} (a m b : list A) : slice (a ++ m ++ b) (len a) (len a + len m) = m.
Proof.
  unfold slice. rewrite skipz_app_len. replace (len a + len m - len a) with (len m) by lia.
  apply firstz_app_exact.
Qed.

Lemma slice_full {A} (l : list A) : slice l 0 (len l) = l.
Proof.
  unfold slice. rewrite skipz_0. replace (len l - 0) with (len l) by lia.
  rewrite <- (app_nil_r l) at 2. apply firstz_app_exact.
Qed.

Lemma slice_prefix {A} (a b : list A) : slice (a ++ b) 0 (len a) = a.
Proof. unfold slice. rewrite skipz_0. replace (len a - 0) with (len a) by lia. apply firstz_app_exact. Qed.

Lemma len_zero_nil {A} (l : list A) : len l = 0 -> l = [].
Proof. destruct l; [reflexivity|]. rewrite len_cons. pose proof (len_nonneg l). lia. Qed.

Lemma len_map {A B} (f : A -> B) l : len (map f l) = len l.
Proof. unfold len. rewrite map_length. reflexivity. Qed.

Lemma len_repeat {A} (x : A) n : len (repeat x n) = Z.of_nat n.
Proof. unfold len. rewrite repeat_length. reflexivity. Qed.

Lemma bytes_app a b : bytes (a ++ b) = bytes a ++ bytes b.
Proof. unfold bytes. rewrite map_app, concat_app. reflexivity. Qed.

Lemma bytes_cons c l : bytes (c :: l) = fst c ++ bytes l.
Proof. reflexivity. Qed.

Lemma runes_app a b : runes (a ++ b) = runes a ++ runes b.
Proof. apply map_app. Qed.

(* --- the cursor over A ++ X: peeking at the cursor is peeking into X ++ [0] ----------------------- *)
Lemma peek_at z A X i :
  buf z = (A ++ X) ++ [0] -> pos z = len A -> 0 <= i -> peek z i = peekz (X ++ [0]) i.
Proof.
  intros Hb Hp Hi. unfold peek. rewrite Hb, Hp, <- app_assoc.
  rewrite peekz_app_r by lia. f_equal. lia.
Qed.

(* --- UTF-8 -------------------------------------------------------------------------------------- *)
Lemma cont_range c : cont c = true -> 128 <= c <= 191.
Proof. unfold cont. intros H. b2p. lia. Qed.

(* shape of a valid encoding *)
Lemma cp_ok_cases bs r : cp_ok (bs, r) ->
  (exists c, bs = [c] /\ 0 <= c <= 127 /\ r = c) \/
  (exists c t, bs = c :: t /\ 194 <= c <= 244 /\ 128 <= r /\ 2 <= len bs <= 4 /\ Forall (fun b => 128 <= b) bs).
Proof.
  unfold cp_ok. cbn [fst snd]. unfold utf8_decode.
  destruct bs as [|c t]; [discriminate|].
  destruct ((0 <=? c) && (c <=? 127)) eqn:C0.
  { intros H. left. exists c. some_pair H Hr Hl. b2p.
    rewrite len_cons in Hl. assert (t = []) by (apply len_zero_nil; lia). subst t. repeat split; lia. }
  destruct t as [|c1 t1]; [discriminate|].
  destruct ((194 <=? c) && (c <=? 223) && cont c1) eqn:C1.
  { intros H. right. exists c, (c1 :: t1). some_pair H Hr Hl. b2p.
    rewrite !len_cons in Hl. assert (t1 = []) by (apply len_zero_nil; lia). subst t1.
    pose proof (cont_range c1 ltac:(assumption)).
    split; [reflexivity|]. split; [lia|]. split; [lia|]. split; [rewrite !len_cons; change (len []) with 0; lia|].
    repeat constructor; lia. }
  destruct t1 as [|c2 t2]; [discriminate|].
  match goal with |- (if ?b then _ else _) = _ -> _ => destruct b eqn:C2 end.
  { intros H. right. exists c, (c1 :: c2 :: t2). some_pair H Hr Hl. b2p.
    rewrite !len_cons in Hl. assert (t2 = []) by (apply len_zero_nil; lia). subst t2.
    pose proof (cont_range c1 ltac:(assumption)). pose proof (cont_range c2 ltac:(assumption)).
    split; [reflexivity|]. split; [lia|]. split; [|split; [rewrite !len_cons; change (len []) with 0; lia|repeat constructor; lia]].
    destruct (Z.eq_dec c 224) as [E|E].
    - subst c. match goal with H : (224 =? 224) && (c1 <? 160) = false |- _ =>
        apply andb_false_iff in H; destruct H as [H|H]; b2p; lia end.
    - lia. }
  destruct t2 as [|c3 t3]; [discriminate|].
  match goal with |- (if ?b then _ else _) = _ -> _ => destruct b eqn:C3 end; [|discriminate].
  intros H. right. exists c, (c1 :: c2 :: c3 :: t3). some_pair H Hr Hl. b2p.
  rewrite !len_cons in Hl. assert (t3 = []) by (apply len_zero_nil; lia). subst t3.
  pose proof (cont_range c1 ltac:(assumption)). pose proof (cont_range c2 ltac:(assumption)).
  pose proof (cont_range c3 ltac:(assumption)).
  split; [reflexivity|]. split; [lia|]. split; [|split; [rewrite !len_cons; change (len []) with 0; lia|repeat constructor; lia]].
  destruct (Z.eq_dec c 240) as [E|E].
  - subst c. match goal with H : (240 =? 240) && (c1 <? 144) = false |- _ =>
      apply andb_false_iff in H; destruct H as [H|H]; b2p; lia end.
  - lia.
Qed.

(* the four forms of a valid encoding with the value they denote *)
Lemma cp_ok_inv bs r : cp_ok (bs, r) ->
  (exists c, bs = [c] /\ 0 <= c <= 127 /\ r = c) \/
  (exists c c1, bs = [c; c1] /\ 194 <= c <= 223 /\ 128 <= c1 <= 191 /\ r = (c - 192) * 64 + (c1 - 128)) \/
  (exists c c1 c2, bs = [c; c1; c2] /\ 224 <= c <= 239 /\ 128 <= c1 <= 191 /\ 128 <= c2 <= 191 /\
                   r = (c - 224) * 4096 + (c1 - 128) * 64 + (c2 - 128)) \/
  (exists c c1 c2 c3, bs = [c; c1; c2; c3] /\ 240 <= c <= 244 /\ 128 <= c1 <= 191 /\ 128 <= c2 <= 191 /\
                      128 <= c3 <= 191 /\ 65536 <= r).
Proof.
  unfold cp_ok. cbn [fst snd]. unfold utf8_decode.
  destruct bs as [|c t]; [discriminate|].
  destruct ((0 <=? c) && (c <=? 127)) eqn:C0.
  { intros H. left. exists c. some_pair H Hr Hl. b2p.
    rewrite len_cons in Hl. assert (t = []) by (apply len_zero_nil; lia). subst t. repeat split; lia. }
  destruct t as [|c1 t1]; [discriminate|].
  destruct ((194 <=? c) && (c <=? 223) && cont c1) eqn:C1.
  { intros H. right. left. exists c, c1. some_pair H Hr Hl. b2p.
    rewrite !len_cons in Hl. assert (t1 = []) by (apply len_zero_nil; lia). subst t1.
    pose proof (cont_range c1 ltac:(assumption)). repeat split; lia. }
  destruct t1 as [|c2 t2]; [discriminate|].
  match goal with |- (if ?b then _ else _) = _ -> _ => destruct b eqn:C2 end.
  { intros H. right. right. left. exists c, c1, c2. some_pair H Hr Hl. b2p.
    rewrite !len_cons in Hl. assert (t2 = []) by (apply len_zero_nil; lia). subst t2.
    pose proof (cont_range c1 ltac:(assumption)). pose proof (cont_range c2 ltac:(assumption)).
    repeat split; lia. }
  destruct t2 as [|c3 t3]; [discriminate|].
  match goal with |- (if ?b then _ else _) = _ -> _ => destruct b eqn:C3 end; [|discriminate].
  intros H. right. right. right. exists c, c1, c2, c3. some_pair H Hr Hl. b2p.
  rewrite !len_cons in Hl. assert (t3 = []) by (apply len_zero_nil; lia). subst t3.
  pose proof (cont_range c1 ltac:(assumption)). pose proof (cont_range c2 ltac:(assumption)).
  pose proof (cont_range c3 ltac:(assumption)).
  split; [reflexivity|]. split; [lia|]. split; [lia|]. split; [lia|]. split; [lia|].
  destruct (Z.eq_dec c 240) as [E|E].
  - subst c. match goal with H : (240 =? 240) && (c1 <? 144) = false |- _ =>
      apply andb_false_iff in H; destruct H as [H|H]; b2p; lia end.
  - lia.
Qed.

(* U+2028 and U+2029 have exactly one encoding, and E2 80 xx decodes to U+2000 + (xx - 0x80) *)
Lemma cp_ok_lsps bs r : cp_ok (bs, r) -> r = 8232 \/ r = 8233 -> bs = [226; 128; r - 8064].
Proof.
  intros H Hr.
  destruct (cp_ok_inv bs r H) as [(c & -> & ? & ?)|[(c & c1 & -> & ? & ? & ?)|[(c & c1 & c2 & -> & ? & ? & ? & E)|(c & c1 & c2 & c3 & -> & ? & ? & ? & ? & ?)]]]; try lia.
  assert (c = 226 /\ c1 = 128) by lia. destruct H3 as [-> ->]. f_equal. f_equal. f_equal. lia.
Qed.

Lemma cp_ok_e2_80 c2 t r : cp_ok (226 :: 128 :: c2 :: t, r) -> t = [] /\ r = 8064 + c2.
Proof.
  intros H.
  destruct (cp_ok_inv _ r H) as [(c & E & ? & ?)|[(c & c1 & E & ? & ? & ?)|[(c & c1 & c2' & E & ? & ? & ? & Er)|(c & c1 & c2' & c3 & E & ? & ? & ? & ? & ?)]]];
    try discriminate.
  - injection E as <- <- <- ->. split; [reflexivity|lia].
  - injection E as <- <- <- ?. lia.
Qed.

(* the decoder only looks at the bytes of the first code point *)
Lemma utf8_decode_prefix bs r X : cp_ok (bs, r) -> utf8_decode (bs ++ X) = Some (r, len bs).
Proof.
  unfold cp_ok. cbn [fst snd]. unfold utf8_decode.
  destruct bs as [|c t]; [discriminate|]. cbn [app].
  destruct ((0 <=? c) && (c <=? 127)) eqn:C0.
  { intros H. exact H. }
  destruct t as [|c1 t1]; [discriminate|]. cbn [app].
  destruct ((194 <=? c) && (c <=? 223) && cont c1) eqn:C1.
  { intros H. exact H. }
  destruct t1 as [|c2 t2]; [discriminate|]. cbn [app].
  match goal with |- (if ?b then _ else _) = _ -> _ => destruct b eqn:C2 end.
  { intros H. exact H. }
  destruct t2 as [|c3 t3]; [discriminate|]. cbn [app].
  match goal with |- (if ?b then _ else _) = _ -> _ => destruct b eqn:C3 end; [|discriminate].
  intros H. exact H.
Qed.

Lemma cp_ok_len bs r : cp_ok (bs, r) -> 1 <= len bs <= 4.
Proof.
  intros H. destruct (cp_ok_cases bs r H) as [(c & -> & _)|(c & t & _ & _ & _ & Hl & _)].
  - change (len [c]) with 1. lia.
  - lia.
Qed.

Lemma len_bytes_nonneg l : 0 <= len (bytes l).
Proof. apply len_nonneg. Qed.

(* first byte 10 / 13 iff the code point is \n / \r, and then it is that single byte *)
Lemma cp_ok_ascii bs r : cp_ok (bs, r) -> r < 128 -> bs = [r].
Proof.
  intros H Hr. destruct (cp_ok_cases bs r H) as [(c & -> & _ & ->)|(c & t & _ & _ & Hr' & _)]; [reflexivity|lia].
Qed.

Lemma cp_ok_first bs r X : cp_ok (bs, r) ->
  exists c t, bs ++ X = c :: t /\ ((0 <= c <= 127 /\ r = c /\ bs = [c] /\ t = X) \/ (194 <= c /\ 128 <= r)).
Proof.
  intros H. destruct (cp_ok_cases bs r H) as [(c & -> & Hc & ->)|(c & t & -> & Hc & Hr & _)].
  - exists c, X. split; [reflexivity|]. left. repeat split; lia.
  - exists c, (t ++ X). split; [reflexivity|]. right. lia.
Qed.

Lemma starts_lf_bytes c post : cp_ok c -> Forall cp_ok post ->
  starts_lf (bytes (c :: post)) = starts_lf (runes (c :: post)).
Proof.
  intros Hc _. destruct c as [bs r]. cbn [bytes map concat runes fst snd starts_lf].
  destruct (cp_ok_first bs r (concat (map fst post)) Hc) as (b & t & E & [(Hb & Hr & _)|(Hb & Hr)]).
  - rewrite E. cbn. subst r. reflexivity.
  - rewrite E. cbn.
    replace (b =? 10) with false by (symmetry; apply Z.eqb_neq; lia).
    replace (r =? 10) with false by (symmetry; apply Z.eqb_neq; lia). reflexivity.
Qed.

(* --- []rune(string(...)) on valid text ----------------------------------------------------------- *)
Lemma go_runes_aux_skip t X : go_runes_aux (length t) (t ++ X) = go_runes_aux 0 X.
Proof. induction t as [|c t IH]; [reflexivity|]. cbn [length app go_runes_aux]. exact IH. Qed.

Lemma go_runes_cp bs r X : cp_ok (bs, r) -> go_runes (bs ++ X) = r :: go_runes X.
Proof.
  intros H. pose proof (utf8_decode_prefix bs r X H) as Hd. pose proof (cp_ok_len bs r H) as Hl.
  unfold go_runes. destruct bs as [|c t]; [change (len []) with 0 in Hl; lia|].
  cbn [app go_runes_aux]. unfold go_decode. cbn [app] in Hd. rewrite Hd. cbn [fst snd].
  f_equal. rewrite len_cons. replace (Z.to_nat (1 + len t) - 1)%nat with (length t) by (unfold len; lia).
  apply go_runes_aux_skip.
Qed.

Lemma go_runes_valid cps X : Forall cp_ok cps -> go_runes (bytes cps ++ X) = runes cps ++ go_runes X.
Proof.
  induction 1 as [|c l Hc _ IH]; [reflexivity|].
  rewrite bytes_cons, <- app_assoc. destruct c as [bs r]. cbn [fst].
  rewrite (go_runes_cp bs r _ Hc). cbn [runes map snd app]. f_equal. exact IH.
Qed.

Lemma go_runes_valid0 cps : Forall cp_ok cps -> go_runes (bytes cps) = runes cps.
Proof.
  intros H. rewrite <- (app_nil_r (bytes cps)). rewrite (go_runes_valid cps [] H).
  cbn. apply app_nil_r.
Qed.

(* --- after_last ---------------------------------------------------------------------------------- *)
Lemma existsb_snoc {A} (p : A -> bool) l x : existsb p (l ++ [x]) = existsb p l || p x.
Proof. rewrite existsb_app. cbn. rewrite orb_false_r. reflexivity. Qed.

Lemma after_last_snoc {A} (p : A -> bool) l x :
  after_last p (l ++ [x]) = if p x then [] else after_last p l ++ [x].
Proof.
  induction l as [|y t IH]; cbn [app after_last existsb].
  - destruct (p x); reflexivity.
  - rewrite existsb_snoc. destruct (p x) eqn:Px.
    + rewrite orb_true_r. exact IH.
    + rewrite orb_false_r. destruct (existsb p t); [exact IH|].
      destruct (p y); reflexivity.
Qed.

Lemma existsb_map' {A B} (f : A -> B) (p : B -> bool) l : existsb p (map f l) = existsb (fun x => p (f x)) l.
Proof. induction l as [|x t IH]; [reflexivity|]. cbn. rewrite IH. reflexivity. Qed.

Lemma after_last_map {A B} (f : A -> B) (p : B -> bool) l :
  after_last p (map f l) = map f (after_last (fun x => p (f x)) l).
Proof.
  induction l as [|x t IH]; [reflexivity|]. cbn [map after_last].
  rewrite existsb_map'. destruct (existsb (fun x0 => p (f x0)) t); [exact IH|].
  destruct (p (f x)); reflexivity.
Qed.

Lemma last_line_runes cps : last_line (runes cps) = runes (after_last brkc cps).
Proof. unfold last_line, runes. rewrite after_last_map. reflexivity. Qed.

(* the current line is a suffix without breaks, preceded by nothing or by a break *)
Lemma after_last_spec {A} (p : A -> bool) l :
  exists a, l = a ++ after_last p l /\ forallb (fun x => negb (p x)) (after_last p l) = true /\
            (a = [] \/ exists a' b, a = a' ++ [b] /\ p b = true).
Proof.
  induction l as [|x t (a & E & Hn & Ha)]; [exists []; repeat split; left; reflexivity|].
  cbn [after_last]. destruct (existsb p t) eqn:Ex.
  - exists (x :: a). split; [cbn; f_equal; exact E|]. split; [exact Hn|].
    right. destruct Ha as [->|(a' & b & -> & Pb)].
    + (* no break found although existsb says there is one *)
      cbn [app] in E. exfalso. rewrite E in Ex.
      assert (existsb p (after_last p t) = false).
      { clear -Hn. induction (after_last p t) as [|y u IH]; [reflexivity|].
        cbn in *. apply andb_true_iff in Hn. destruct Hn as [H1 H2].
        apply negb_true_iff in H1. rewrite H1. exact (IH H2). }
      congruence.
    + exists (x :: a'), b. split; [reflexivity|exact Pb].
  - assert (Hall : forallb (fun y => negb (p y)) t = true).
    { clear -Ex. induction t as [|y u IH]; [reflexivity|]. cbn in *.
      apply orb_false_iff in Ex. destruct Ex as [H1 H2]. rewrite H1. exact (IH H2). }
    destruct (p x) eqn:Px.
    + exists [x]. split; [reflexivity|]. split; [exact Hall|]. right. exists [], x. split; [reflexivity|exact Px].
    + exists []. split; [reflexivity|]. split; [cbn; rewrite Px; exact Hall|]. left. reflexivity.
Qed.

(* --- breaks -------------------------------------------------------------------------------------- *)
Lemma breaks_nonneg rs : 0 <= breaks rs.
Proof. induction rs as [|r t IH]; cbn [breaks]; [lia|]. destruct (is_break r && negb ((r =? 13) && starts_lf t)); lia. Qed.

Lemma starts_lf_app a b : starts_lf (a ++ b) = match a with [] => starts_lf b | _ => starts_lf a end.
Proof. destruct a; reflexivity. Qed.

Lemma ends_cr_cons r t : t <> [] -> ends_cr (r :: t) = ends_cr t.
Proof. intros H. unfold ends_cr. destruct t; [contradiction|reflexivity]. Qed.

(* breaks is additive over a cut that does not separate \r from \n *)
Lemma breaks_app a b : ~ (ends_cr a = true /\ starts_lf b = true) -> breaks (a ++ b) = breaks a + breaks b.
Proof.
  induction a as [|r t IH]; intros H; [reflexivity|].
  cbn [app breaks]. destruct t as [|r' t'].
  - cbn [app breaks]. unfold ends_cr in H. cbn [last] in H.
    destruct (r =? 13) eqn:E13.
    + assert (starts_lf b = false) by (destruct (starts_lf b); [exfalso; apply H; split; reflexivity|reflexivity]).
      cbn [starts_lf]. rewrite H0. lia.
    + rewrite !andb_false_l. cbn [negb]. lia.
  - rewrite IH.
    + cbn [app starts_lf]. lia.
    + rewrite ends_cr_cons in H by discriminate. exact H.
Qed.
