(* Position/LineCol.v — the loop of Position against the declarative line/column specification. *)
From Verif Require Import Common.Base Common.Tactics Cursor.Model Cursor.Proofs
  Position.Model Position.Spec Position.Lemmas Position.Total.
From Coq Require Import ZifyBool.

Ltac appn := repeat first [rewrite <- !app_assoc | progress cbn [app]].

Lemma peekz_cons_1 c t : peekz (c :: t) 1 = peekz t 0.
Proof. exact (peekz_cons_S c t 0 ltac:(lia)). Qed.

(* --- one iteration, by the kind of unit under the cursor ------------------------------------------ *)
Lemma peek_err_mid z A X :
  buf z = (A ++ X) ++ [0] -> ierr z = 0 -> pos z = len A -> X <> [] -> peek_err z 0 = 0.
Proof.
  intros Hb He Hp HX. unfold peek_err. rewrite He, Hb, Hp. cbn [Z.eqb negb].
  rewrite !len_app. change (len [0]) with 1.
  assert (1 <= len X) by (destruct X; [contradiction|rewrite len_cons; pose proof (len_nonneg X); lia]).
  zb. reflexivity.
Qed.

Lemma is_break_high r : 128 <= r -> is_break r = (r =? 8232) || (r =? 8233).
Proof. intros H. unfold is_break. zb. reflexivity. Qed.

Lemma is_break_low r : r <= 127 -> is_break r = (r =? 10) || (r =? 13).
Proof. intros H. unfold is_break. zb. rewrite !orb_false_r. reflexivity. Qed.

Lemma classify_char z A bs r B :
  buf z = (A ++ bs ++ B) ++ [0] -> ierr z = 0 -> pos z = len A -> cp_ok (bs, r) -> r <> 13 ->
  classify z = Some (SAdvance (len bs) (is_break r)).
Proof.
  intros Hb He Hp Hok H13.
  destruct (cp_ok_cases bs r Hok) as [(c & -> & Hc & ->)|(c & t & -> & Hc & Hr & Hl & _)].
  - assert (K0 : peek z 0 = Some c).
    { rewrite (peek_at z A ([c] ++ B) 0 Hb Hp ltac:(lia)). apply peekz_cons_0. }
    unfold classify. rewrite K0. cbn [option_bind]. change (len [c]) with 1.
    rewrite is_break_low by lia.
    destruct (Z.eqb_spec c 10) as [E|E]; [reflexivity|].
    replace (c =? 13) with false by (symmetry; apply Z.eqb_neq; lia).
    replace (192 <=? c) with false by (symmetry; apply Z.leb_gt; lia).
    rewrite (peek_err_mid z A ([c] ++ B) Hb He Hp) by discriminate.
    cbn. rewrite andb_false_r. reflexivity.
  - assert (K0 : peek z 0 = Some c).
    { rewrite (peek_at z A ((c :: t) ++ B) 0 Hb Hp ltac:(lia)). apply peekz_cons_0. }
    unfold classify. rewrite K0. cbn [option_bind].
    replace (c =? 10) with false by (symmetry; apply Z.eqb_neq; lia).
    replace (c =? 13) with false by (symmetry; apply Z.eqb_neq; lia).
    replace (192 <=? c) with true by (symmetry; apply Z.leb_le; lia).
    assert (Hpr : peek_rune FInput z 0 = Some (r, len (c :: t))).
    { apply (peek_rune_valid FInput z (A ++ (c :: t) ++ B) 0 r (len (c :: t)) Hb); [pose proof (len_nonneg A); lia|].
      rewrite Hp, Z.add_0_r, skipz_app_len. apply utf8_decode_prefix. exact Hok. }
    rewrite Hpr. cbn [option_bind fst snd]. rewrite is_break_high by lia. reflexivity.
Qed.

Lemma classify_cr z A B :
  buf z = (A ++ [13] ++ B) ++ [0] -> pos z = len A -> starts_lf B = false ->
  classify z = Some (SAdvance 1 true).
Proof.
  intros Hb Hp Hlf.
  assert (K0 : peek z 0 = Some 13).
  { rewrite (peek_at z A ([13] ++ B) 0 Hb Hp ltac:(lia)). apply peekz_cons_0. }
  assert (K1 : exists c1, peek z 1 = Some c1 /\ c1 <> 10).
  { rewrite (peek_at z A ([13] ++ B) 1 Hb Hp ltac:(lia)). cbn [app].
    rewrite peekz_cons_1. destruct B as [|b B'].
    - exists 0. split; [reflexivity|lia].
    - exists b. split; [apply peekz_cons_0|]. cbn [starts_lf] in Hlf. b2p. exact Hlf. }
  destruct K1 as (c1 & K1 & Hc1).
  unfold classify. rewrite K0. cbn [option_bind]. cbn [Z.eqb Pos.eqb]. rewrite K1. cbn [option_bind].
  replace (c1 =? 10) with false by (symmetry; apply Z.eqb_neq; lia). reflexivity.
Qed.

Lemma classify_crlf z A B :
  buf z = (A ++ 13 :: 10 :: B) ++ [0] -> pos z = len A -> classify z = Some (SAdvance 2 true).
Proof.
  intros Hb Hp.
  assert (K0 : peek z 0 = Some 13).
  { rewrite (peek_at z A (13 :: 10 :: B) 0 Hb Hp ltac:(lia)). apply peekz_cons_0. }
  assert (K1 : peek z 1 = Some 10).
  { rewrite (peek_at z A (13 :: 10 :: B) 1 Hb Hp ltac:(lia)). cbn [app].
    rewrite peekz_cons_1. apply peekz_cons_0. }
  unfold classify. rewrite K0. cbn [option_bind]. cbn [Z.eqb Pos.eqb]. rewrite K1. reflexivity.
Qed.

(* --- unfolding one iteration ----------------------------------------------------------------------- *)
Lemma loop_step z line offset fuel n nl :
  classify z = Some (SAdvance n nl) -> pos z - start z < offset ->
  ~ (1 < n /\ offset < pos z - start z + n) ->
  pos_loop (S fuel) z line offset =
    if nl then pos_loop fuel (with_start (with_pos z (pos z + n)) (pos z + n)) (line + 1) (offset - (pos z + n - start z))
    else pos_loop fuel (with_pos z (pos z + n)) line offset.
Proof.
  intros Hc Ht Hs. cbn [pos_loop]. rewrite Hc.
  replace (pos z - start z <? offset) with true by (symmetry; apply Z.ltb_lt; lia).
  assert (E : (1 <? n) && (offset <? pos z - start z + n) = false).
  { destruct (Z.ltb_spec 1 n); destruct (Z.ltb_spec offset (pos z - start z + n)); try reflexivity. exfalso. apply Hs. lia. }
  rewrite E. destruct nl; reflexivity.
Qed.

Lemma loop_stop z line offset fuel :
  offset <= pos z - start z -> pos_loop fuel z line offset = Done (z, line).
Proof.
  intros H. destruct fuel; cbn [pos_loop];
    replace (pos z - start z <? offset) with false by (symmetry; apply Z.ltb_ge; lia); reflexivity.
Qed.

Lemma loop_straddle z line offset fuel n nl :
  classify z = Some (SAdvance n nl) -> pos z - start z < offset -> 1 < n -> offset < pos z - start z + n ->
  pos_loop (S fuel) z line offset = Done (z, line).
Proof.
  intros Hc Ht H1 H2. cbn [pos_loop]. rewrite Hc.
  replace (pos z - start z <? offset) with true by (symmetry; apply Z.ltb_lt; lia).
  replace (1 <? n) with true by (symmetry; apply Z.ltb_lt; lia).
  replace (offset <? pos z - start z + n) with true by (symmetry; apply Z.ltb_lt; lia). reflexivity.
Qed.

(* more fuel does not change a result *)
Lemma pos_loop_fuel_mono : forall f z l o res, pos_loop f z l o = Done res -> forall m, pos_loop (f + m) z l o = Done res.
Proof.
  induction f as [|f IH]; intros z l o res H m.
  - cbn [pos_loop] in H. destruct (pos z - start z <? o) eqn:T; [discriminate|].
    destruct m; cbn [Nat.add pos_loop]; rewrite T; exact H.
  - cbn [Nat.add pos_loop] in *. destruct (pos z - start z <? o); [|exact H].
    destruct (classify z) as [[|n nl]|]; [exact H| |discriminate].
    destruct ((1 <? n) && (o <? pos z - start z + n)); [exact H|].
    destruct nl; apply IH; exact H.
Qed.

(* --- walking over whole units ------------------------------------------------------------------------ *)
(* where the current line starts after the units [mid] have been consumed *)
Definition walk_start (s p' : Z) (mid : list cp) : Z :=
  if existsb brkc mid then p' - len (bytes (after_last brkc mid)) else s.

Lemma with_with z a b c d : with_start (with_pos (with_start (with_pos z a) b) c) d = with_start (with_pos z c) d.
Proof. reflexivity. Qed.

Lemma with_with' z a c d : with_start (with_pos (with_pos z a) c) d = with_start (with_pos z c) d.
Proof. reflexivity. Qed.

Lemma with_id z : with_start (with_pos z (pos z)) (start z) = z.
Proof. destruct z; reflexivity. Qed.

Lemma walk_start_brk s p' c mid' : brkc c = true ->
  walk_start s p' (c :: mid') = walk_start (p' - len (bytes mid')) p' mid'.
Proof.
  intros Hc. unfold walk_start. cbn [existsb after_last]. rewrite Hc. cbn [orb].
  destruct (existsb brkc mid'); reflexivity.
Qed.

Lemma walk_start_nobrk s p' c mid' : brkc c = false ->
  walk_start s p' (c :: mid') = walk_start s p' mid'.
Proof.
  intros Hc. unfold walk_start. cbn [existsb after_last]. rewrite Hc. cbn [orb].
  destruct (existsb brkc mid'); reflexivity.
Qed.

Lemma breaks_crlf t : breaks (13 :: 10 :: t) = 1 + breaks t.
Proof. cbn [breaks starts_lf]. unfold is_break. cbn. lia. Qed.

Lemma breaks_single r t : (r =? 13) && starts_lf t = false ->
  breaks (r :: t) = (if is_break r then 1 else 0) + breaks t.
Proof. intros H. cbn [breaks]. rewrite H. cbn [negb]. rewrite andb_true_r. reflexivity. Qed.

Lemma ends_cr_tail c mid : ends_cr (runes mid) = true -> ends_cr (runes (c :: mid)) = true.
Proof.
  destruct mid as [|c3 m3]; [unfold ends_cr; cbn; discriminate|].
  intros H. cbn [runes map] in *. rewrite ends_cr_cons by discriminate. exact H.
Qed.

Lemma loop_walk : forall n mid, (length mid <= n)%nat ->
  forall A rest z line offset fuel' res,
  Forall cp_ok mid ->
  buf z = (A ++ bytes mid ++ rest) ++ [0] -> ierr z = 0 -> pos z = len A ->
  len (bytes mid) <= offset - (pos z - start z) ->
  (ends_cr (runes mid) = true -> starts_lf rest = false) ->
  pos_loop fuel' (with_start (with_pos z (pos z + len (bytes mid))) (walk_start (start z) (pos z + len (bytes mid)) mid))
           (line + breaks (runes mid))
           (offset - (walk_start (start z) (pos z + len (bytes mid)) mid - start z)) = Done res ->
  pos_loop (length mid + fuel') z line offset = Done res.
Proof.
  induction n as [|n IH]; intros mid Hn A rest z line offset fuel' res Hok Hb He Hp Hoff Hcr Hfin.
  { destruct mid; [|cbn in Hn; lia]. cbn [length Nat.add]. cbn [bytes map concat runes breaks] in Hfin.
    change (len []) with 0 in Hfin. unfold walk_start in Hfin. cbn [existsb] in Hfin.
    rewrite !Z.add_0_r, Z.sub_diag, Z.sub_0_r, with_id in Hfin. exact Hfin. }
  destruct mid as [|c mid'].
  { cbn [length Nat.add]. cbn [bytes map concat runes breaks] in Hfin.
    change (len []) with 0 in Hfin. unfold walk_start in Hfin. cbn [existsb] in Hfin.
    rewrite !Z.add_0_r, Z.sub_diag, Z.sub_0_r, with_id in Hfin. exact Hfin. }
  destruct c as [bs r]. inversion Hok as [|? ? Hc Hok']; subst.
  pose proof (cp_ok_len bs r Hc) as Hlbs.
  rewrite bytes_cons in *. cbn [fst] in *. rewrite len_app in *.
  pose proof (len_bytes_nonneg mid') as Hnn.
  cbn [length Nat.add].
  destruct ((r =? 13) && starts_lf (runes mid')) eqn:Hcrlf.
  - (* \r\n *)
    apply andb_true_iff in Hcrlf. destruct Hcrlf as [E13 Hlf]. b2p. subst r.
    destruct mid' as [|[bs2 r2] mid'']; [discriminate|]. cbn [runes map snd starts_lf] in Hlf. b2p. subst r2.
    inversion Hok' as [|? ? Hc2 Hok'']; subst.
    assert (bs = [13]) by (apply cp_ok_ascii; [exact Hc|lia]). subst bs.
    assert (bs2 = [10]) by (apply cp_ok_ascii; [exact Hc2|lia]). subst bs2.
    rewrite bytes_cons in *. cbn [fst] in *. rewrite len_app in *. change (len [13]) with 1 in *. change (len [10]) with 1 in *.
    pose proof (len_bytes_nonneg mid'') as Hnn2.
    cbn [length Nat.add].
    assert (Hcl : classify z = Some (SAdvance 2 true)).
    { apply (classify_crlf z A (bytes mid'' ++ rest)); [|exact Hp]. rewrite Hb. appn. reflexivity. }
    rewrite (loop_step z line offset _ 2 true Hcl) by lia.
    replace (S (length mid'' + fuel')) with (length mid'' + S fuel')%nat by lia.
    apply (IH mid'' ltac:(cbn in Hn; lia) (A ++ [13; 10]) rest); try assumption.
    + cbn [buf with_start with_pos]. rewrite Hb. appn. reflexivity.
    + cbn [pos with_start with_pos]. rewrite Hp, len_app. reflexivity.
    + cbn [pos start with_start with_pos]. lia.
    + intros Hcr'. apply Hcr. apply ends_cr_tail, ends_cr_tail. exact Hcr'.
    + cbn [pos start with_start with_pos]. rewrite with_with.
      change (runes (([13], 13) :: ([10], 10) :: mid'')) with (13 :: 10 :: runes mid'') in Hfin. rewrite breaks_crlf in Hfin.
      rewrite (walk_start_brk (start z) _ ([13], 13) (([10], 10) :: mid'') eq_refl) in Hfin.
      rewrite (walk_start_brk _ _ ([10], 10) mid'' eq_refl) in Hfin.
      apply (pos_loop_fuel_mono fuel' _ _ _ _) with (m := 1%nat) in Hfin.
      replace (fuel' + 1)%nat with (S fuel') in Hfin by lia.
      match type of Hfin with pos_loop _ (with_start (with_pos _ ?p1) (walk_start ?s1 ?q1 _)) ?l1 ?o1 = _ =>
        match goal with |- pos_loop _ (with_start (with_pos _ ?p2) (walk_start ?s2 ?q2 _)) ?l2 ?o2 = _ =>
          replace p2 with p1 by lia; replace s2 with s1 by lia; replace q2 with q1 by lia;
          replace l2 with l1 by lia
        end end.
      match type of Hfin with pos_loop _ _ _ ?o1 = _ =>
        match goal with |- pos_loop _ _ _ ?o2 = _ => replace o2 with o1 by lia end end.
      exact Hfin.
  - (* a single code point *)
    assert (Hcl : classify z = Some (SAdvance (len bs) (is_break r))).
    { destruct (Z.eq_dec r 13) as [E|E].
      - subst r. assert (bs = [13]) by (apply cp_ok_ascii; [exact Hc|lia]). subst bs.
        change (len [13]) with 1. change (is_break 13) with true.
        apply (classify_cr z A (bytes mid' ++ rest)); [rewrite Hb; appn; reflexivity|exact Hp|].
        cbn [Z.eqb Pos.eqb andb] in Hcrlf.
        destruct mid' as [|c2 m2].
        + cbn [bytes map concat app]. apply Hcr. reflexivity.
        + inversion Hok' as [|? ? Hc2 Hok'']; subst.
          rewrite starts_lf_app.
          assert (bytes (c2 :: m2) <> []).
          { destruct c2 as [b2 r2]. rewrite bytes_cons. cbn [fst]. pose proof (cp_ok_len b2 r2 Hc2).
            destruct b2; [change (len []) with 0 in *; lia|discriminate]. }
          destruct (bytes (c2 :: m2)) eqn:Eb; [contradiction|]. rewrite <- Eb.
          rewrite (starts_lf_bytes c2 m2 Hc2 Hok''). exact Hcrlf.
      - apply (classify_char z A bs r (bytes mid' ++ rest)); try assumption.
        rewrite Hb. appn. reflexivity. }
    rewrite (loop_step z line offset _ (len bs) (is_break r) Hcl) by lia.
    assert (Hbuf : buf z = ((A ++ bs) ++ bytes mid' ++ rest) ++ [0]) by (rewrite Hb; appn; reflexivity).
    assert (Hcr' : ends_cr (runes mid') = true -> starts_lf rest = false).
    { intros H. apply Hcr. apply ends_cr_tail. exact H. }
    change (runes ((bs, r) :: mid')) with (r :: runes mid') in Hfin. rewrite (breaks_single r _ Hcrlf) in Hfin.
    destruct (is_break r) eqn:Hbr.
    + apply (IH mid' ltac:(cbn in Hn; lia) (A ++ bs) rest); try assumption.
      * cbn [pos with_start with_pos]. rewrite Hp, len_app. reflexivity.
      * cbn [pos start with_start with_pos]. lia.
      * cbn [pos start with_start with_pos]. rewrite with_with.
        rewrite (walk_start_brk (start z) _ (bs, r) mid' Hbr) in Hfin.
        match type of Hfin with pos_loop _ (with_start (with_pos _ ?p1) (walk_start ?s1 ?q1 _)) ?l1 ?o1 = _ =>
          match goal with |- pos_loop _ (with_start (with_pos _ ?p2) (walk_start ?s2 ?q2 _)) ?l2 ?o2 = _ =>
            replace p2 with p1 by lia; replace s2 with s1 by lia; replace q2 with q1 by lia;
            replace l2 with l1 by lia
          end end.
        match type of Hfin with pos_loop _ _ _ ?o1 = _ =>
          match goal with |- pos_loop _ _ _ ?o2 = _ => replace o2 with o1 by lia end end.
        exact Hfin.
    + apply (IH mid' ltac:(cbn in Hn; lia) (A ++ bs) rest); try assumption.
      * cbn [pos with_pos]. rewrite Hp, len_app. reflexivity.
      * cbn [pos start with_pos]. lia.
      * cbn [pos start with_pos]. rewrite with_with'.
        rewrite (walk_start_nobrk (start z) _ (bs, r) mid' Hbr) in Hfin.
        match type of Hfin with pos_loop _ (with_start (with_pos _ ?p1) (walk_start ?s1 ?q1 _)) ?l1 ?o1 = _ =>
          match goal with |- pos_loop _ (with_start (with_pos _ ?p2) (walk_start ?s2 ?q2 _)) ?l2 ?o2 = _ =>
            replace p2 with p1 by lia; replace q2 with q1 by lia;
            replace l2 with l1 by lia
          end end.
        exact Hfin.
Qed.

(* --- from the start of the text to the unit the offset falls into ------------------------------------- *)
Lemma new_string_fields d :
  buf (new_string d) = d ++ [0] /\ ierr (new_string d) = 0 /\ pos (new_string d) = 0 /\ start (new_string d) = 0.
Proof.
  unfold new_string, new_bytes. destruct (Z.eqb_spec (len d) 0) as [E|E].
  - rewrite (len_zero_nil d E). repeat split.
  - repeat split.
Qed.

Lemma after_last_none {A} (p : A -> bool) l : existsb p l = false -> after_last p l = l.
Proof.
  induction l as [|x t IH]; [reflexivity|]. cbn [existsb after_last]. intros H.
  apply orb_false_iff in H. destruct H as [H1 H2]. rewrite H1, H2. reflexivity.
Qed.

Lemma walk_start_0 pre :
  walk_start 0 (len (bytes pre)) pre = len (bytes pre) - len (bytes (after_last brkc pre)).
Proof.
  unfold walk_start. destruct (existsb brkc pre) eqn:E; [reflexivity|].
  rewrite (after_last_none _ _ E). lia.
Qed.

Lemma length_le_bytes l : Forall cp_ok l -> Z.of_nat (length l) <= len (bytes l).
Proof.
  induction 1 as [|c t Hc _ IH]; [reflexivity|].
  rewrite bytes_cons, len_app. cbn [length]. destruct c as [bs r]. pose proof (cp_ok_len bs r Hc). cbn [fst]. lia.
Qed.

Lemma Forall_app_l {A} (P : A -> Prop) a b : Forall P (a ++ b) -> Forall P a.
Proof. intros H. apply Forall_app in H. tauto. Qed.
Lemma Forall_app_r {A} (P : A -> Prop) a b : Forall P (a ++ b) -> Forall P b.
Proof. intros H. apply Forall_app in H. tauto. Qed.

Lemma len_after_last_le pre :
  exists a, pre = a ++ after_last brkc pre /\ len (bytes pre) = len (bytes a) + len (bytes (after_last brkc pre)).
Proof.
  destruct (after_last_spec brkc pre) as (a & E & _). exists a. split; [exact E|].
  rewrite E at 1. rewrite bytes_app, len_app. reflexivity.
Qed.

(* the cursor after the loop *)
Definition final_cursor (cps pre : list cp) : input :=
  with_start (with_pos (new_string (bytes cps)) (len (bytes pre)))
             (len (bytes pre) - len (bytes (after_last brkc pre))).

Lemma loop_located cps off pre cur post :
  Forall cp_ok cps -> located cps off pre cur post ->
  pos_loop (length (buf (new_string (bytes cps)))) (new_string (bytes cps)) 1 off =
    Done (final_cursor cps pre, 1 + breaks (runes pre)).
Proof.
  intros Hok (Hcps & Hloc).
  set (z0 := new_string (bytes cps)).
  destruct (new_string_fields (bytes cps)) as (Hb & He & Hp & Hs). fold z0 in Hb, He, Hp, Hs.
  assert (Hpre : Forall cp_ok pre) by (rewrite Hcps in Hok; exact (Forall_app_l _ _ _ Hok)).
  assert (Hrest : Forall cp_ok (cur ++ post)) by (rewrite Hcps in Hok; exact (Forall_app_r _ _ _ Hok)).
  assert (Hd : bytes cps = bytes pre ++ bytes cur ++ bytes post) by (rewrite Hcps, !bytes_app; reflexivity).
  pose proof (len_bytes_nonneg pre) as Hnp.
  (* enough fuel *)
  assert (Hfuel : exists m, length (buf z0) = (length pre + 1 + m)%nat).
  { exists (length (buf z0) - (length pre + 1))%nat.
    pose proof (length_le_bytes pre Hpre). rewrite Hb, app_length, Hd, !app_length. cbn [length].
    unfold len in H. lia. }
  destruct Hfuel as (m & Hm). rewrite Hm.
  apply pos_loop_fuel_mono.
  apply (loop_walk (length pre) pre (le_n _) [] (bytes cur ++ bytes post) z0 1 off 1); try assumption.
  - rewrite Hb, Hd. reflexivity.
  - rewrite Hp, Hs. destruct cur as [|c1 [|c2 [|c3 cur']]]; try contradiction.
    + destruct Hloc as (_ & ->). lia.
    + destruct Hloc as (H & _). lia.
    + destruct Hloc as (_ & _ & H). lia.
  - intros Hcr. destruct cur as [|c1 [|c2 [|c3 cur']]]; try contradiction.
    + destruct Hloc as (-> & _). reflexivity.
    + destruct Hloc as (_ & _ & H10).
      inversion Hrest as [|? ? Hc1 Hpost]; subst.
      change (bytes [c1] ++ bytes post) with (bytes ([c1] ++ post)) || rewrite <- bytes_app.
      cbn [app]. rewrite (starts_lf_bytes c1 post Hc1 Hpost). cbn [runes map starts_lf].
      destruct (Z.eqb_spec (snd c1) 10) as [E|E]; [exfalso; apply H10; split; assumption|reflexivity].
    + destruct Hloc as (H13 & _ & _).
      inversion Hrest as [|? ? Hc1 Hpost]; subst. destruct c1 as [b1 r1]. cbn [snd] in H13. subst r1.
      rewrite (cp_ok_ascii b1 13 Hc1 ltac:(lia)). reflexivity.
  - (* the last iteration (if any) does not move *)
    rewrite Hp, Hs, Z.add_0_l, walk_start_0.
    unfold final_cursor. fold z0.
    set (p := len (bytes pre)) in *. set (s := p - len (bytes (after_last brkc pre))).
    set (z1 := with_start (with_pos z0 p) s).
    assert (Hal : 0 <= len (bytes (after_last brkc pre)) <= p).
    { destruct (len_after_last_le pre) as (a & _ & E). fold p in E.
      pose proof (len_bytes_nonneg a). pose proof (len_bytes_nonneg (after_last brkc pre)). lia. }
    assert (Hb1 : buf z1 = (bytes pre ++ bytes cur ++ bytes post) ++ [0]) by (cbn; rewrite Hb, Hd; reflexivity).
    replace (1 + breaks (runes pre)) with (1 + breaks (runes pre)) by reflexivity.
    destruct cur as [|c1 [|c2 [|c3 cur']]]; try contradiction.
    + destruct Hloc as (_ & ->). apply loop_stop. cbn. lia.
    + destruct Hloc as (Hr & H13 & _). destruct (Z.eq_dec off p) as [E|E].
      * apply loop_stop. cbn. lia.
      * inversion Hrest as [|? ? Hc1 Hpost]; subst. destruct c1 as [b1 r1]. cbn [fst snd] in *.
        assert (Hr1 : r1 <> 13).
        { intros ->. rewrite (cp_ok_ascii b1 13 Hc1 ltac:(lia)) in Hr. change (len [13]) with 1 in Hr. lia. }
        assert (Hcl : classify z1 = Some (SAdvance (len b1) (is_break r1))).
        { apply (classify_char z1 (bytes pre) b1 r1 (bytes post)); try assumption; try reflexivity.
          rewrite Hb1. cbn [bytes map concat fst]. rewrite app_nil_r. reflexivity. }
        apply (loop_straddle z1 _ _ 0 _ _ Hcl); cbn [pos start z1 with_start with_pos]; lia.
    + destruct Hloc as (H13 & H10 & Hr). destruct (Z.eq_dec off p) as [E|E].
      * apply loop_stop. cbn. lia.
      * inversion Hrest as [|? ? Hc1 Hrest']; subst. inversion Hrest' as [|? ? Hc2 Hpost]; subst.
        destruct c1 as [b1 r1]. destruct c2 as [b2 r2]. cbn [snd] in H13, H10. subst r1 r2.
        assert (Hcl : classify z1 = Some (SAdvance 2 true)).
        { apply (classify_crlf z1 (bytes pre) (bytes post)); [|reflexivity].
          rewrite Hb1. cbn [bytes map concat fst].
          rewrite (cp_ok_ascii b1 13 Hc1 ltac:(lia)), (cp_ok_ascii b2 10 Hc2 ltac:(lia)). reflexivity. }
        apply (loop_straddle z1 _ _ 0 _ _ Hcl); cbn [pos start z1 with_start with_pos]; lia.
Qed.

Lemma final_cursor_facts cps off pre cur post :
  Forall cp_ok cps -> located cps off pre cur post ->
  inv (bytes cps) (final_cursor cps pre) /\
  lexeme_bytes (final_cursor cps pre) = Some (bytes (after_last brkc pre)) /\
  pos (final_cursor cps pre) = len (bytes pre) /\
  Forall cp_ok (after_last brkc pre).
Proof.
  intros Hok (Hcps & _).
  destruct (new_string_fields (bytes cps)) as (Hb & He & _ & _).
  destruct (len_after_last_le pre) as (a & Ea & El).
  assert (Hd : bytes cps = bytes a ++ bytes (after_last brkc pre) ++ bytes (cur ++ post)).
  { rewrite Hcps, bytes_app. rewrite Ea at 1. rewrite bytes_app, <- app_assoc. reflexivity. }
  pose proof (len_bytes_nonneg a). pose proof (len_bytes_nonneg (after_last brkc pre)).
  pose proof (len_bytes_nonneg (cur ++ post)).
  assert (Hinv : inv (bytes cps) (final_cursor cps pre)).
  { unfold inv, final_cursor. cbn [buf ierr start pos with_start with_pos]. split; [exact Hb|].
    split; [intros Hne; contradiction|].
    assert (len (bytes cps) = len (bytes a) + (len (bytes (after_last brkc pre)) + len (bytes (cur ++ post)))) by (rewrite Hd, !len_app; reflexivity).
    lia. }
  split; [exact Hinv|]. split.
  - rewrite (lexeme_bytes_inv _ _ Hinv). unfold final_cursor. cbn [start pos with_start with_pos].
    f_equal. rewrite Hd. replace (len (bytes pre) - len (bytes (after_last brkc pre))) with (len (bytes a)) by lia.
    rewrite El. apply slice_mid.
  - split; [reflexivity|].
    assert (Hpre : Forall cp_ok pre) by (rewrite Hcps in Hok; exact (Forall_app_l _ _ _ Hok)).
    rewrite Ea in Hpre. exact (Forall_app_r _ _ _ Hpre).
Qed.

Section LineCol.
  Variable graphic : Z -> bool.

  (* position_line_col: line = 1 + breaks before the unit at the offset, col = 1 + code points after the
     last of them *)
  Theorem position_line_col_proof cps off pre cur post :
    Forall cp_ok cps -> located cps off pre cur post ->
    exists ctx, position graphic (bytes cps) off =
                  Done (1 + breaks (runes pre), 1 + len (last_line (runes pre)), ctx).
  Proof.
    intros Hok Hloc. unfold position, position_input.
    rewrite (loop_located cps off pre cur post Hok Hloc).
    destruct (final_cursor_facts cps off pre cur post Hok Hloc) as (Hinv & Hlx & _ & Hal).
    rewrite Hlx. rewrite (go_runes_valid0 _ Hal). rewrite <- last_line_runes.
    destruct (position_context_total graphic (bytes cps) (final_cursor cps pre) (1 + breaks (runes pre))
                (len (last_line (runes pre)) + 1) Hinv) as (ctx & Ec).
    { pose proof (len_nonneg (last_line (runes pre))). lia. }
    rewrite Ec. exists ctx. f_equal. f_equal. f_equal. lia.
  Qed.
End LineCol.

(* --- every offset of a valid text falls into exactly one unit ------------------------------------------ *)
Lemma ends_cr_snoc l r : ends_cr (l ++ [r]) = (r =? 13).
Proof. unfold ends_cr. rewrite last_last. reflexivity. Qed.

Lemma located_exists : forall cps, Forall cp_ok cps ->
  forall off, 0 <= off <= len (bytes cps) -> exists pre cur post, located cps off pre cur post.
Proof.
  intros cps Hok.
  (* generalise: a prefix pre0 already passed, not ending in \r when the rest starts with \n *)
  assert (G : forall todo pre0, Forall cp_ok todo ->
            ~ (ends_cr (runes pre0) = true /\ starts_lf (runes todo) = true) ->
            forall off, len (bytes pre0) <= off <= len (bytes pre0) + len (bytes todo) ->
            exists pre cur post, located (pre0 ++ todo) off pre cur post).
  { intros todo. remember (length todo) as n eqn:Hn. revert todo Hn.
    induction n as [n IH] using lt_wf_ind. intros todo Hn pre0 Ht Hsplit off Hoff.
    destruct todo as [|c todo'].
    - exists pre0, [], []. split; [rewrite !app_nil_r; reflexivity|]. split; [reflexivity|].
      cbn [bytes map concat] in Hoff. change (len []) with 0 in Hoff. lia.
    - inversion Ht as [|? ? Hc Ht']; subst. destruct c as [bs r].
      pose proof (cp_ok_len bs r Hc) as Hl.
      rewrite bytes_cons, len_app in Hoff. cbn [fst] in Hoff.
      destruct ((r =? 13) && starts_lf (runes todo')) eqn:Hcrlf.
      + apply andb_true_iff in Hcrlf. destruct Hcrlf as [E13 Hlf]. b2p. subst r.
        destruct todo' as [|[bs2 r2] todo'']; [discriminate|]. cbn [runes map snd starts_lf] in Hlf. b2p. subst r2.
        inversion Ht' as [|? ? Hc2 Ht'']; subst.
        assert (bs = [13]) by (apply cp_ok_ascii; [exact Hc|lia]). subst bs.
        assert (bs2 = [10]) by (apply cp_ok_ascii; [exact Hc2|lia]). subst bs2.
        rewrite bytes_cons, len_app in Hoff. cbn [fst] in Hoff. change (len [13]) with 1 in *. change (len [10]) with 1 in *.
        destruct (Z.lt_ge_cases off (len (bytes pre0) + 2)) as [Hin|Hout].
        * exists pre0, [([13], 13); ([10], 10)], todo''. split; [reflexivity|]. repeat split; lia.
        * destruct (IH (length todo'') ltac:(cbn [length]; lia) todo'' eq_refl (pre0 ++ [([13], 13); ([10], 10)]) Ht'') with (off := off)
            as (pre & cur & post & Hloc).
          -- rewrite runes_app. change (runes [([13], 13); ([10], 10)]) with ([13] ++ [10]).
             rewrite app_assoc, ends_cr_snoc. cbn. intros [H _]. discriminate.
          -- rewrite bytes_app, len_app. change (len (bytes [([13], 13); ([10], 10)])) with 2. lia.
          -- exists pre, cur, post. rewrite <- app_assoc in Hloc. exact Hloc.
      + destruct (Z.lt_ge_cases off (len (bytes pre0) + len bs)) as [Hin|Hout].
        * exists pre0, [(bs, r)], todo'. split; [reflexivity|]. cbn [fst snd]. split; [lia|]. split.
          -- intros [E Hs]. subst r. rewrite Hs in Hcrlf. discriminate.
          -- intros [E Hs]. subst r. apply Hsplit. split; [exact Hs|reflexivity].
        * destruct (IH (length todo') ltac:(cbn [length]; lia) todo' eq_refl (pre0 ++ [(bs, r)]) Ht') with (off := off)
            as (pre & cur & post & Hloc).
          -- rewrite runes_app. cbn [runes map snd]. rewrite ends_cr_snoc. intros [H1 H2]. rewrite H1, H2 in Hcrlf. discriminate.
          -- rewrite bytes_app, len_app. cbn [bytes map concat fst]. rewrite app_nil_r. lia.
          -- exists pre, cur, post. rewrite <- app_assoc in Hloc. exact Hloc. }
  intros off Hoff. apply (G cps [] Hok).
  - intros [H _]. unfold ends_cr in H. cbn in H. discriminate.
  - cbn [bytes map concat]. change (len []) with 0. lia.
Qed.

(* --- offsets at and beyond the end (all byte strings) --------------------------------------------------- *)
Lemma loop_beyond d : forall fuel z line o1 o2,
  inv d z -> len d <= o1 + start z -> len d <= o2 + start z -> len d - pos z < Z.of_nat fuel ->
  exists z' l', pos_loop fuel z line o1 = Done (z', l') /\ pos_loop fuel z line o2 = Done (z', l').
Proof.
  induction fuel as [|fuel IH]; intros z line o1 o2 Hinv H1 H2 Hf.
  { destruct Hinv as (_ & _ & _ & Hp). lia. }
  pose proof Hinv as (Hb & He & Hs & Hp).
  pose proof (classify_total d z Hinv) as Hc.
  cbn [pos_loop].
  destruct (Z.eq_dec (pos z) (len d)) as [Eend|Nend].
  - (* at the terminator: either the test fails or the loop breaks *)
    assert (Hcl : classify z = Some SBreakLoop).
    { destruct (peek_some_in z d 0 Hb ltac:(lia)) as [c K0]. pose proof K0 as K0'.
      rewrite (peek_data z d 0 Hb ltac:(lia)) in K0'.
      replace (pos z + 0 =? len d) with true in K0' by (symmetry; apply Z.eqb_eq; lia).
      assert (c = 0) by congruence. subst c.
      unfold classify. rewrite K0. cbn [option_bind]. cbn [Z.eqb Z.leb Z.compare].
      rewrite (peek_err_before d z Hb He ltac:(lia)).
      replace (pos z <? len d) with false by (symmetry; apply Z.ltb_ge; lia). reflexivity. }
    rewrite Hcl. exists z, line. split; destruct (pos z - start z <? _); reflexivity.
  - destruct (classify z) as [[|n nl]|]; cbn [classify_ok] in Hc; [lia| |contradiction].
    replace (pos z - start z <? o1) with true by (symmetry; apply Z.ltb_lt; lia).
    replace (pos z - start z <? o2) with true by (symmetry; apply Z.ltb_lt; lia).
    replace (o1 <? pos z - start z + n) with false by (symmetry; apply Z.ltb_ge; lia).
    replace (o2 <? pos z - start z + n) with false by (symmetry; apply Z.ltb_ge; lia).
    rewrite !andb_false_r.
    assert (Hinv1 : inv d (with_pos z (pos z + n))) by (apply inv_with_pos; [assumption|lia]).
    destruct nl.
    + apply IH; [apply inv_skip; exact Hinv1|cbn; lia|cbn; lia|cbn; lia].
    + apply IH; [exact Hinv1|cbn; lia|cbn; lia|cbn; lia].
Qed.

Section Clamp.
  Variable graphic : Z -> bool.

  Theorem position_clamp_high_proof data offset :
    len data <= offset -> position graphic data offset = position graphic data (len data).
  Proof.
    intros H. unfold position, position_input.
    pose proof (inv_new_string data) as Hinv.
    destruct (new_string_fields data) as (Hb & _ & Hp & Hs).
    destruct (loop_beyond data (length (buf (new_string data))) (new_string data) 1 offset (len data) Hinv)
      as (z' & l' & E1 & E2); try lia.
    { rewrite Hb, app_length. cbn [length]. unfold len. lia. }
    rewrite E1, E2. reflexivity.
  Qed.
End Clamp.

(* --- the unit an offset falls into is unique ------------------------------------------------------------ *)
Lemma located_no_overlap cps off pre cur post l cur' post' :
  Forall cp_ok (cur ++ post) ->
  located cps off pre cur post -> located cps off (pre ++ l) cur' post' ->
  cur ++ post = l ++ cur' ++ post' -> l = [].
Proof.
  intros Hok (_ & H) (_ & H') E.
  destruct l as [|x l']; [reflexivity|]. exfalso.
  assert (Hb' : len (bytes pre) + len (bytes (x :: l')) <= off).
  { rewrite <- len_app, <- bytes_app.
    destruct cur' as [|d1 [|d2 [|d3 cur'']]]; try contradiction.
    - destruct H' as (_ & ->). lia.
    - destruct H' as (Hr & _). lia.
    - destruct H' as (_ & _ & Hr). lia. }
  rewrite bytes_cons, len_app in Hb'. pose proof (len_bytes_nonneg l') as Hnl.
  destruct cur as [|c1 [|c2 [|c3 cur'']]]; try contradiction.
  - destruct H as (-> & _). discriminate.
  - cbn [app] in E. injection E as -> E. destruct H as (Hr & _). lia.
  - cbn [app] in E. injection E as -> E. destruct H as (H13 & H10 & Hr).
    inversion Hok as [|? ? Hc1 Hok']; subst. inversion Hok' as [|? ? Hc2 _]; subst.
    destruct x as [b1 r1]. destruct c2 as [b2 r2]. cbn [fst snd] in *.
    pose proof (cp_ok_len b1 r1 Hc1). pose proof (cp_ok_len b2 r2 Hc2).
    destruct l' as [|y l''].
    + cbn [app] in E.
      assert (Hcr : ends_cr (runes (pre ++ [(b1, r1)])) = true).
      { rewrite runes_app. cbn [runes map snd]. rewrite ends_cr_snoc. subst r1. reflexivity. }
      destruct cur' as [|d1 [|d2 [|d3 cur'']]]; try contradiction.
      * destruct H' as (-> & _). discriminate.
      * cbn [app] in E. injection E as <- _. destruct H' as (_ & _ & Hn). apply Hn. split; [exact H10|exact Hcr].
      * cbn [app] in E. injection E as <- _. destruct H' as (Hd13 & _). cbn [snd] in Hd13. lia.
    + cbn [app] in E. injection E as <- _. rewrite bytes_cons, len_app in Hb'. cbn [fst] in Hb'.
      pose proof (len_bytes_nonneg l''). lia.
Qed.

Lemma located_unique cps off pre cur post pre' cur' post' :
  Forall cp_ok cps -> located cps off pre cur post -> located cps off pre' cur' post' ->
  pre = pre' /\ cur = cur' /\ post = post'.
Proof.
  intros Hok L1 L2. pose proof L1 as (E1 & H1). pose proof L2 as (E2 & H2).
  assert (Hr1 : Forall cp_ok (cur ++ post)) by (rewrite E1 in Hok; exact (Forall_app_r _ _ _ Hok)).
  assert (Hr2 : Forall cp_ok (cur' ++ post')) by (rewrite E2 in Hok; exact (Forall_app_r _ _ _ Hok)).
  assert (Hpre : pre = pre' /\ cur ++ post = cur' ++ post').
  { assert (E : pre ++ cur ++ post = pre' ++ cur' ++ post') by congruence.
    apply app_eq_app in E. destruct E as (l & [(Ea & Eb)|(Ea & Eb)]).
    - subst pre. assert (l = []) by (eapply (located_no_overlap cps off pre' cur' post' l cur post); eauto).
      subst l. rewrite app_nil_r. cbn [app] in Eb. split; [reflexivity|congruence].
    - subst pre'. assert (l = []) by (eapply (located_no_overlap cps off pre cur post l cur' post'); eauto).
      subst l. rewrite app_nil_r. cbn [app] in Eb. split; [reflexivity|congruence]. }
  destruct Hpre as (<- & E). split; [reflexivity|].
  destruct cur as [|c1 [|c2 [|c3 cur0]]]; try contradiction;
  destruct cur' as [|d1 [|d2 [|d3 cur0']]]; try contradiction; cbn [app] in E.
  - destruct H1 as (-> & _). destruct H2 as (-> & _). split; reflexivity.
  - destruct H1 as (-> & _). discriminate.
  - destruct H1 as (-> & _). discriminate.
  - destruct H2 as (-> & _). discriminate.
  - injection E as -> ->. split; reflexivity.
  - injection E as -> ->. exfalso. destruct H1 as (_ & Hn & _). destruct H2 as (H13 & H10 & _).
    apply Hn. split; [exact H13|]. cbn [runes map starts_lf]. apply Z.eqb_eq. exact H10.
  - destruct H2 as (-> & _). discriminate.
  - injection E as -> <-. exfalso. destruct H2 as (_ & Hn & _). destruct H1 as (H13 & H10 & _).
    apply Hn. split; [exact H13|]. cbn [runes map starts_lf]. apply Z.eqb_eq. exact H10.
  - injection E as -> -> ->. split; reflexivity.
Qed.

(* --- an offset at the end of a valid prefix, whatever bytes follow ------------------------------------------ *)
(* (the usual situation of an error at an invalid byte: the text before it is valid, the rest need not be) *)
Definition prefix_cursor (d : list Z) (pre : list cp) : input :=
  with_start (with_pos (new_string d) (len (bytes pre)))
             (len (bytes pre) - len (bytes (after_last brkc pre))).

Lemma loop_prefix pre tail :
  Forall cp_ok pre -> (ends_cr (runes pre) = true -> starts_lf tail = false) ->
  pos_loop (length (buf (new_string (bytes pre ++ tail)))) (new_string (bytes pre ++ tail)) 1 (len (bytes pre)) =
    Done (prefix_cursor (bytes pre ++ tail) pre, 1 + breaks (runes pre)).
Proof.
  intros Hpre Hcr.
  set (d := bytes pre ++ tail). set (z0 := new_string d).
  destruct (new_string_fields d) as (Hb & He & Hp & Hs). fold z0 in Hb, He, Hp, Hs.
  pose proof (len_bytes_nonneg pre) as Hnp.
  assert (Hfuel : exists m, length (buf z0) = (length pre + 1 + m)%nat).
  { exists (length (buf z0) - (length pre + 1))%nat.
    pose proof (length_le_bytes pre Hpre). rewrite Hb, app_length. unfold d. rewrite app_length. cbn [length].
    unfold len in H. lia. }
  destruct Hfuel as (m & Hm). rewrite Hm.
  apply pos_loop_fuel_mono.
  apply (loop_walk (length pre) pre (le_n _) [] tail z0 1 (len (bytes pre)) 1); try assumption.
  - rewrite Hp, Hs. lia.
  - rewrite Hp, Hs, Z.add_0_l, walk_start_0. unfold prefix_cursor. fold z0.
    apply loop_stop. cbn [pos start with_start with_pos]. lia.
Qed.

Lemma prefix_cursor_facts pre tail :
  Forall cp_ok pre ->
  inv (bytes pre ++ tail) (prefix_cursor (bytes pre ++ tail) pre) /\
  lexeme_bytes (prefix_cursor (bytes pre ++ tail) pre) = Some (bytes (after_last brkc pre)) /\
  Forall cp_ok (after_last brkc pre).
Proof.
  intros Hpre. set (d := bytes pre ++ tail).
  destruct (new_string_fields d) as (Hb & He & _ & _).
  destruct (len_after_last_le pre) as (a & Ea & El).
  assert (Hd : d = bytes a ++ bytes (after_last brkc pre) ++ tail).
  { unfold d. rewrite Ea at 1. rewrite bytes_app, <- app_assoc. reflexivity. }
  pose proof (len_bytes_nonneg a). pose proof (len_bytes_nonneg (after_last brkc pre)). pose proof (len_nonneg tail).
  assert (Hinv : inv d (prefix_cursor d pre)).
  { unfold inv, prefix_cursor. cbn [buf ierr start pos with_start with_pos]. split; [exact Hb|].
    split; [intros Hne; contradiction|].
    assert (len d = len (bytes pre) + len tail) by (unfold d; rewrite len_app; reflexivity). lia. }
  split; [exact Hinv|]. split.
  - rewrite (lexeme_bytes_inv _ _ Hinv). unfold prefix_cursor. cbn [start pos with_start with_pos].
    f_equal. rewrite Hd. replace (len (bytes pre) - len (bytes (after_last brkc pre))) with (len (bytes a)) by lia.
    rewrite El. apply slice_mid.
  - rewrite Ea in Hpre. exact (Forall_app_r _ _ _ Hpre).
Qed.

Section Prefix.
  Variable graphic : Z -> bool.

  Theorem position_prefix_proof pre tail :
    Forall cp_ok pre -> (ends_cr (runes pre) = true -> starts_lf tail = false) ->
    exists ctx, position graphic (bytes pre ++ tail) (len (bytes pre)) =
                  Done (1 + breaks (runes pre), 1 + len (last_line (runes pre)), ctx).
  Proof.
    intros Hpre Hcr. unfold position, position_input.
    rewrite (loop_prefix pre tail Hpre Hcr).
    destruct (prefix_cursor_facts pre tail Hpre) as (Hinv & Hlx & Hal).
    rewrite Hlx. rewrite (go_runes_valid0 _ Hal). rewrite <- last_line_runes.
    destruct (position_context_total graphic (bytes pre ++ tail) _ (1 + breaks (runes pre))
                (len (last_line (runes pre)) + 1) Hinv) as (ctx & Ec).
    { pose proof (len_nonneg (last_line (runes pre))). lia. }
    rewrite Ec. exists ctx. f_equal. f_equal. f_equal. lia.
  Qed.
End Prefix.
