(* Position/Context.v — positionContext: the elision window, the printed line and the caret. *)
From Verif Require Import Common.Base Common.Tactics Cursor.Model Cursor.Proofs
  Position.Model Position.Spec Position.Lemmas Position.Total Position.LineCol.
From Coq Require Import ZifyBool.

Lemma len_ellipsis b : len (ellipsis b) = if b then 3 else 0.
Proof. destruct b; reflexivity. Qed.

(* --- the elision window ------------------------------------------------------------------------------ *)
(* what is shown is rs[lo:hi]; an ellipsis stands exactly where something was cut; ellipses included the
   line is at most 60 characters; the caret column is the column's distance from lo, plus the ellipsis *)
Lemma elide_window rs col :
  exists c lo hi,
    elide rs col = Some c /\ c_body c = slice rs lo hi /\ 0 <= lo <= hi /\ hi <= len rs /\
    c_front c = (0 <? lo) /\ c_rear c = (hi <? len rs) /\
    len (ellipsis (c_front c)) + (hi - lo) + len (ellipsis (c_rear c)) <= 60 /\
    c_col c = col - lo + len (ellipsis (c_front c)) /\
    (1 <= col <= len rs + 1 -> lo <= col - 1 <= hi /\ (col - 1 < len rs -> col - 1 < hi)).
Proof.
  unfold elide, chk_slice, slice_ok. pose proof (len_nonneg rs) as Hn.
  destruct (Z.ltb_spec 60 (len rs)) as [L|S].
  - destruct (Z.leb_spec col 40) as [C1|C1].
    { zb. cbn [andb option_bind]. exists (mkCtx false (slice rs 0 57) true col), 0, 57. split; [reflexivity|]. cbn [c_body c_front c_rear c_col].
      zb. rewrite !len_ellipsis. repeat split; lia. }
    destruct (Z.leb_spec (len rs - 23) col) as [C2|C2].
    { zb. cbn [andb option_bind]. exists (mkCtx true (slice rs (len rs - 44) (len rs)) false (col - (len rs - 47))), (len rs - 44), (len rs). split; [reflexivity|]. cbn [c_body c_front c_rear c_col].
      zb. rewrite !len_ellipsis. repeat split; lia. }
    zb. cbn [andb option_bind]. exists (mkCtx true (slice rs (col - 21) (col + 20)) true 24), (col - 21), (col + 20). split; [reflexivity|]. cbn [c_body c_front c_rear c_col].
    zb. rewrite !len_ellipsis. repeat split; lia.
  - exists (mkCtx false rs false col), 0, (len rs). split; [reflexivity|]. cbn [c_body c_front c_rear c_col].
    rewrite slice_full. zb. rewrite !len_ellipsis. repeat split; lia.
Qed.

(* --- decimal digits ------------------------------------------------------------------------------------ *)
Lemma dec_digits_range fuel : forall n, 0 <= n -> Forall (fun d => 48 <= d <= 57) (dec_digits fuel n).
Proof.
  induction fuel as [|f IH]; intros n Hn; cbn [dec_digits]; [constructor|].
  destruct (Z.ltb_spec n 10).
  - repeat constructor; lia.
  - apply Forall_app. split; [apply IH; apply Z.div_pos; lia|].
    pose proof (Z.mod_pos_bound n 10 ltac:(lia)). repeat constructor; lia.
Qed.

Lemma dec_digits_len_le fuel : forall (k : nat) n, 0 <= n < 10 ^ Z.of_nat k -> (1 <= k)%nat ->
  len (dec_digits fuel n) <= Z.of_nat k.
Proof.
  induction fuel as [|f IH]; intros k n Hn Hk; cbn [dec_digits]; [change (len []) with 0; lia|].
  destruct (Z.ltb_spec n 10).
  - change (len [48 + n]) with 1. lia.
  - destruct k as [|k]; [lia|]. destruct k as [|k].
    + change (10 ^ Z.of_nat 1) with 10 in Hn. lia.
    + rewrite len_app. change (len [48 + n mod 10]) with 1.
      specialize (IH (S k) (n / 10)).
      assert (0 <= n / 10 < 10 ^ Z.of_nat (S k)).
      { split; [apply Z.div_pos; lia|]. apply Z.div_lt_upper_bound; [lia|].
        replace (Z.of_nat (S (S k))) with (Z.of_nat (S k) + 1) in Hn by lia.
        rewrite Z.pow_add_r in Hn by lia. lia. }
      specialize (IH H0 ltac:(lia)). lia.
Qed.

Lemma fmt_d_len5 line : 0 <= line < 100000 -> len (fmt_d line) <= 5.
Proof.
  intros H. unfold fmt_d. replace (line <? 0) with false by (symmetry; apply Z.ltb_ge; lia).
  apply (dec_digits_len_le _ 5%nat line); [change (10 ^ Z.of_nat 5) with 100000; lia|lia].
Qed.

Lemma fmt_d_range line : 0 <= line -> Forall (fun d => 48 <= d <= 57) (fmt_d line).
Proof.
  intros H. unfold fmt_d. replace (line <? 0) with false by (symmetry; apply Z.ltb_ge; lia).
  apply dec_digits_range. exact H.
Qed.

Lemma pad_left_len5 l : len l <= 5 -> len (pad_left 5 l) = 5.
Proof. intros H. unfold pad_left. rewrite len_app, len_repeat. pose proof (len_nonneg l). lia. Qed.

Lemma Forall_not_in (P : Z -> Prop) l x : Forall P l -> ~ P x -> ~ In x l.
Proof. intros H Hx Hin. rewrite Forall_forall in H. exact (Hx (H x Hin)). Qed.

Lemma not_in_app {A} (x : A) a b : ~ In x a -> ~ In x b -> ~ In x (a ++ b).
Proof. intros H1 H2 H. apply in_app_or in H. tauto. Qed.

Lemma not_in_repeat {A} (x y : A) n : x <> y -> ~ In x (repeat y n).
Proof. intros H Hin. apply repeat_spec in Hin. congruence. Qed.

(* --- indexing ------------------------------------------------------------------------------------------ *)
Lemma nth_error_skipn {A} (l : list A) n k : nth_error (skipn n l) k = nth_error l (n + k).
Proof.
  revert l. induction n as [|n IH]; intros l; [reflexivity|].
  destruct l as [|x t]; [destruct k; reflexivity|]. cbn [skipn Nat.add nth_error]. apply IH.
Qed.

Lemma nth_error_firstn {A} (l : list A) n k : (k < n)%nat -> nth_error (firstn n l) k = nth_error l k.
Proof.
  revert l k. induction n as [|n IH]; intros l k H; [lia|].
  destruct l as [|x t]; [destruct k; reflexivity|]. destruct k as [|k]; [reflexivity|].
  cbn [firstn nth_error]. apply IH. lia.
Qed.

Lemma nth_error_slice {A} (rs : list A) lo hi i :
  0 <= lo <= i -> i < hi -> nth_error (slice rs lo hi) (Z.to_nat (i - lo)) = nth_error rs (Z.to_nat i).
Proof.
  intros H1 H2. unfold slice, firstz, skipz. rewrite nth_error_firstn by lia. rewrite nth_error_skipn.
  f_equal. lia.
Qed.

Lemma nth_error_app_at {A} (a b : list A) n : (length a <= n)%nat -> nth_error (a ++ b) n = nth_error b (n - length a).
Proof. intros H. apply nth_error_app2. exact H. Qed.

(* --- the scan of positionContext on valid text ------------------------------------------------------------ *)
Lemma ctx_scan_skip d z : buf z = d ++ [0] -> ierr z = 0 ->
  forall bs X p, Forall (fun b => b <> 10 /\ b <> 13 /\ b <> 226) bs -> 0 <= p -> p + len bs <= len d ->
  ctx_scan z (bs ++ X) p = ctx_scan z X (p + len bs).
Proof.
  intros Hb He. induction bs as [|b t IH]; intros X p Hf Hp Hl.
  { change (len []) with 0. rewrite Z.add_0_r. reflexivity. }
  inversion Hf as [|? ? (H10 & H13 & H226) Hf']; subst. rewrite len_cons in *. pose proof (len_nonneg t).
  cbn [app ctx_scan].
  assert (Herr : (peek_err (with_pos z p) 0 =? 0) = (p <? len d)).
  { apply (peek_err_before d (with_pos z p)); cbn [buf ierr pos with_pos]; [exact Hb|intros; contradiction|lia]. }
  rewrite Herr. replace (p <? len d) with true by (symmetry; apply Z.ltb_lt; lia).
  replace (b =? 10) with false by (symmetry; apply Z.eqb_neq; lia).
  replace (b =? 13) with false by (symmetry; apply Z.eqb_neq; lia).
  replace (b =? 226) with false by (symmetry; apply Z.eqb_neq; lia).
  cbn [negb]. rewrite andb_false_r. cbn [orb].
  rewrite IH by (try assumption; lia). f_equal. lia.
Qed.

Lemma is_break_false r : is_break r = false -> r <> 10 /\ r <> 13 /\ r <> 8232 /\ r <> 8233.
Proof. unfold is_break. intros H. repeat (apply orb_false_iff in H; destruct H as [H ?]). b2p. lia. Qed.

(* the scan passes over a code point that is not a break *)
Lemma ctx_scan_cp d z : buf z = d ++ [0] -> ierr z = 0 ->
  forall bs r X p, cp_ok (bs, r) -> is_break r = false -> 0 <= p -> p + len bs <= len d ->
  ctx_scan z (bs ++ X) p = ctx_scan z X (p + len bs).
Proof.
  intros Hb He bs r X p Hc Hbr Hp Hl. destruct (is_break_false r Hbr) as (H10 & H13 & HLS & HPS).
  destruct (cp_ok_inv bs r Hc) as [(c & -> & ? & ?)|[(c & c1 & -> & ? & ? & ?)|[(c & c1 & c2 & -> & ? & ? & ? & Er)|(c & c1 & c2 & c3 & -> & ? & ? & ? & ? & ?)]]].
  - apply (ctx_scan_skip d z Hb He); try assumption. repeat constructor; lia.
  - apply (ctx_scan_skip d z Hb He); try assumption. repeat constructor; lia.
  - destruct (Z.eq_dec c 226) as [E|N].
    + subst c. rewrite !len_cons in *. change (len []) with 0 in *.
      cbn [app ctx_scan].
      assert (Herr : (peek_err (with_pos z p) 0 =? 0) = (p <? len d)).
      { apply (peek_err_before d (with_pos z p)); cbn [buf ierr pos with_pos]; [exact Hb|intros; contradiction|lia]. }
      rewrite Herr. replace (p <? len d) with true by (symmetry; apply Z.ltb_lt; lia).
      cbn [Z.eqb Pos.eqb negb andb orb].
      assert (Hcont : ctx_scan z (c1 :: c2 :: X) (p + 1) = ctx_scan z X (p + (1 + (1 + (1 + 0))))).
      { change (c1 :: c2 :: X) with ([c1; c2] ++ X).
        rewrite (ctx_scan_skip d z Hb He [c1; c2] X (p + 1)); [f_equal; rewrite !len_cons; change (len []) with 0; lia| |lia|rewrite !len_cons; change (len []) with 0; lia].
        repeat constructor; lia. }
      destruct (Z.eqb_spec c1 128) as [E1|N1]; [|exact Hcont].
      replace ((c2 =? 168) || (c2 =? 169)) with false; [exact Hcont|].
      symmetry. apply orb_false_iff. split; apply Z.eqb_neq; lia.
    + apply (ctx_scan_skip d z Hb He); try assumption. repeat constructor; lia.
  - apply (ctx_scan_skip d z Hb He); try assumption. repeat constructor; lia.
Qed.

(* the scan stops in front of a break (the cursor is inside the data) *)
Lemma ctx_scan_break z bs r X p : cp_ok (bs, r) -> is_break r = true -> ctx_scan z (bs ++ X) p = Some p.
Proof.
  intros Hc Hbr. unfold is_break in Hbr.
  destruct (Z.eqb_spec r 10) as [E|N10].
  { subst r. rewrite (cp_ok_ascii bs 10 Hc ltac:(lia)). cbn [app ctx_scan]. cbn [Z.eqb Pos.eqb orb].
    rewrite orb_true_r. reflexivity. }
  destruct (Z.eqb_spec r 13) as [E|N13].
  { subst r. rewrite (cp_ok_ascii bs 13 Hc ltac:(lia)). cbn [app ctx_scan]. cbn [Z.eqb Pos.eqb orb].
    rewrite orb_true_r. reflexivity. }
  cbn [orb] in Hbr. apply orb_true_iff in Hbr.
  assert (Hr : r = 8232 \/ r = 8233) by (destruct Hbr as [H|H]; b2p; [left|right]; exact H).
  rewrite (cp_ok_lsps bs r Hc Hr). cbn [app ctx_scan]. cbn [Z.eqb Pos.eqb andb orb].
  destruct Hr as [-> | ->]; reflexivity.
Qed.

Lemma ctx_scan_valid d z : buf z = d ++ [0] -> ierr z = 0 ->
  forall todo p, Forall cp_ok todo -> 0 <= p -> p + len (bytes todo) = len d ->
  ctx_scan z (bytes todo ++ [0]) p = Some (p + len (bytes (line_rest todo))).
Proof.
  intros Hb He. induction todo as [|[bs r] t IH]; intros p Hok Hp Hl.
  - cbn [bytes map concat app line_rest ctx_scan] in *. change (len []) with 0 in *.
    assert (Herr : (peek_err (with_pos z p) 0 =? 0) = (p <? len d)).
    { apply (peek_err_before d (with_pos z p)); cbn [buf ierr pos with_pos]; [exact Hb|intros; contradiction|lia]. }
    rewrite Herr. replace (p <? len d) with false by (symmetry; apply Z.ltb_ge; lia).
    cbn. f_equal. lia.
  - inversion Hok as [|? ? Hc Hok']; subst.
    rewrite bytes_cons in *. cbn [fst] in *. rewrite len_app in Hl.
    pose proof (cp_ok_len bs r Hc). pose proof (len_bytes_nonneg t).
    cbn [line_rest]. unfold brkc at 1. cbn [snd].
    destruct (is_break r) eqn:Hbr.
    + rewrite <- app_assoc. rewrite (ctx_scan_break z bs r _ p Hc Hbr).
      cbn [bytes map concat]. change (len []) with 0. rewrite Z.add_0_r. reflexivity.
    + rewrite <- app_assoc.
      rewrite (ctx_scan_cp d z Hb He bs r _ p Hc Hbr Hp ltac:(lia)).
      rewrite (IH (p + len bs) Hok' ltac:(lia) ltac:(lia)).
      f_equal. rewrite bytes_cons, len_app. cbn [fst]. lia.
Qed.

Lemma line_rest_prefix l : exists l', l = line_rest l ++ l'.
Proof.
  induction l as [|c t (l' & E)]; [exists []; reflexivity|]. cbn [line_rest].
  destruct (brkc c); [exists (c :: t); reflexivity|].
  exists l'. cbn [app]. f_equal. exact E.
Qed.

Lemma line_rest_no_break l : Forall (fun c => brkc c = false) (line_rest l).
Proof.
  induction l as [|c t IH]; [constructor|]. cbn [line_rest].
  destruct (brkc c) eqn:E; [constructor|]. constructor; [exact E|exact IH].
Qed.

Section Ctx.
  Variable graphic : Z -> bool.

  Lemma context_line_valid cps off pre cur post :
    Forall cp_ok cps -> located cps off pre cur post ->
    context_line (final_cursor cps pre) = Some (whole_line pre cur post).
  Proof.
    intros Hok Hloc. pose proof Hloc as (Hcps & _).
    destruct (final_cursor_facts cps off pre cur post Hok Hloc) as (Hinv & _ & Hpos & Hal).
    destruct (context_line_total (bytes cps) _ Hinv) as (q & Hscan & _ & Hctx).
    destruct (new_string_fields (bytes cps)) as (Hb & He & _ & _).
    destruct (len_after_last_le pre) as (a & Ea & El).
    destruct (line_rest_prefix (cur ++ post)) as (l' & Elr).
    assert (Hrest : Forall cp_ok (cur ++ post)) by (rewrite Hcps in Hok; exact (Forall_app_r _ _ _ Hok)).
    assert (Hd : bytes cps = bytes pre ++ bytes (cur ++ post)) by (rewrite Hcps, bytes_app; reflexivity).
    set (z1 := final_cursor cps pre) in *.
    assert (Hb1 : buf z1 = bytes cps ++ [0]) by exact Hb.
    assert (Hq : q = len (bytes pre) + len (bytes (line_rest (cur ++ post)))).
    { rewrite Hb1, Hpos in Hscan. rewrite Hd in Hscan at 1. rewrite <- app_assoc, skipz_app_len in Hscan.
      rewrite (ctx_scan_valid (bytes cps) z1 Hb1 He (cur ++ post) (len (bytes pre)) Hrest (len_bytes_nonneg pre)) in Hscan.
      - congruence.
      - rewrite Hd, len_app. reflexivity. }
    rewrite Hctx. f_equal. unfold whole_line.
    assert (Hlr : Forall cp_ok (line_rest (cur ++ post))) by (rewrite Elr in Hrest; exact (Forall_app_l _ _ _ Hrest)).
    rewrite <- (go_runes_valid0 (after_last brkc pre ++ line_rest (cur ++ post))) by (apply Forall_app; split; assumption).
    f_equal. unfold z1, final_cursor. cbn [start with_start with_pos]. rewrite Hq.
    replace (len (bytes pre) - len (bytes (after_last brkc pre))) with (len (bytes a)) by lia.
    assert (Hd2 : bytes cps = bytes a ++ (bytes (after_last brkc pre) ++ bytes (line_rest (cur ++ post))) ++ bytes l').
    { rewrite Hd. rewrite Ea at 1. rewrite Elr at 1. rewrite !bytes_app, <- !app_assoc. reflexivity. }
    rewrite Hd2. rewrite bytes_app.
    replace (len (bytes pre) + len (bytes (line_rest (cur ++ post))))
      with (len (bytes a) + len (bytes (after_last brkc pre) ++ bytes (line_rest (cur ++ post)))) by (rewrite len_app; lia).
    apply slice_mid.
  Qed.

  (* Position on a valid text, in closed form *)
  Lemma position_valid cps off pre cur post :
    Forall cp_ok cps -> located cps off pre cur post ->
    let line := 1 + breaks (runes pre) in
    let col := 1 + len (last_line (runes pre)) in
    position graphic (bytes cps) off =
      match (c <- elide (whole_line pre cur post) col ;; render graphic line c) with
      | Some ctx => Done (line, col, ctx)
      | None => Panic
      end.
  Proof.
    intros Hok Hloc line col. unfold position, position_input.
    rewrite (loop_located cps off pre cur post Hok Hloc).
    destruct (final_cursor_facts cps off pre cur post Hok Hloc) as (Hinv & Hlx & _ & Hal).
    rewrite Hlx. rewrite (go_runes_valid0 _ Hal). rewrite <- last_line_runes.
    unfold position_context. rewrite (context_line_valid cps off pre cur post Hok Hloc). cbn [option_bind].
    replace (len (last_line (runes pre)) + 1) with col by (unfold col; lia). reflexivity.
  Qed.
End Ctx.
