(* Position/Model.v — executable model of parse.Position / positionContext (position.go) and of
   parse.NewError / NewErrorLexer (error.go), on top of the C12 cursor model (Cursor/Model.v).
   Definitions only.  A Go panic is [Panic] / [None]; running out of loop fuel is the distinct
   value [OutOfFuel] (excluded by position_total).

   Text is a list of bytes (Z), a rune is a Z; the printed context is a list of runes (the Go string
   is the UTF-8 encoding of exactly that list, all runes come out of a decoder). *)
From Verif Require Import Common.Base Cursor.Model.

Inductive outcome (A : Type) := Done (a : A) | Panic | OutOfFuel.
Arguments Done {A} a.
Arguments Panic {A}.
Arguments OutOfFuel {A}.

(* --- []rune(string(b)) : Go's conversion decodes with utf8.DecodeRune semantics: a valid RFC 3629
   sequence gives its code point and width, anything else gives (RuneError, 1). ----------------- *)
Definition rune_error : Z := 65533.

Definition go_decode (l : list Z) : Z * Z :=
  match utf8_decode l with Some rn => rn | None => (rune_error, 1) end.

(* structural recursion on the bytes; [skip] = continuation bytes of the rune just decoded *)
Fixpoint go_runes_aux (skip : nat) (l : list Z) : list Z :=
  match l with
  | [] => []
  | _ :: t =>
      match skip with
      | S k => go_runes_aux k t
      | O => let rn := go_decode l in fst rn :: go_runes_aux (Z.to_nat (snd rn) - 1) t
      end
  end.
Definition go_runes (l : list Z) : list Z := go_runes_aux 0 l.

(* --- the loop of Position ---------------------------------------------------------------------- *)
(* what one iteration decides before the straddle test: leave the loop (the `break` at the end of
   input) or advance n bytes, with or without a line break *)
Inductive stepkind := SBreakLoop | SAdvance (n : Z) (newline : bool).

Definition classify (z : input) : option stepkind :=
  c <- peek z 0 ;;
  if c =? 10 then Some (SAdvance 1 true)                                   (* '\n' *)
  else if c =? 13 then                                                     (* '\r' *)
    c1 <- peek z 1 ;;
    if c1 =? 10 then Some (SAdvance 2 true) else Some (SAdvance 1 true)
  else if 192 <=? c then                                                   (* c >= 0xC0 *)
    rn <- peek_rune FInput z 0 ;;
    Some (SAdvance (snd rn) ((fst rn =? 8232) || (fst rn =? 8233)))        (* U+2028, U+2029 *)
  else if (c =? 0) && negb (peek_err z 0 =? 0) then Some SBreakLoop        (* c == 0 && l.Err() != nil *)
  else Some (SAdvance 1 false).

(* for l.Pos() < offset { ... } ; the result is the cursor and the line number *)
Fixpoint pos_loop (fuel : nat) (z : input) (line offset : Z) : outcome (input * Z) :=
  if pos z - start z <? offset then
    match fuel with
    | O => OutOfFuel
    | S fuel' =>
        match classify z with
        | None => Panic
        | Some SBreakLoop => Done (z, line)
        | Some (SAdvance n newline) =>
            if (1 <? n) && (offset <? pos z - start z + n) then Done (z, line)   (* 1 < n && offset < l.Pos()+n *)
            else
              let z1 := with_pos z (pos z + n) in                                (* l.Move(n) *)
              if newline then
                (* line++ ; offset -= l.Pos() ; l.Skip() *)
                pos_loop fuel' (with_start z1 (pos z1)) (line + 1) (offset - (pos z1 - start z1))
              else pos_loop fuel' z1 line offset
        end
    end
  else Done (z, line).

(* l.Lexeme() : buf[start:pos:pos] *)
Definition lexeme_bytes (z : input) : option (list Z) :=
  if slice_ok (start z) (pos z) (len (buf z)) then Some (slice (buf z) (start z) (pos z)) else None.

(* --- positionContext ---------------------------------------------------------------------------- *)
(* for { c := l.Peek(0)
         if c == 0 && l.Err() != nil || c == '\n' || c == '\r' { break }
         else if c == 0xE2 && l.Peek(1) == 0x80 && (l.Peek(2) == 0xA8 || l.Peek(2) == 0xA9) { break }
         l.Move(1) }
   structural recursion on the remaining buffer l = buf[p:]; returns the final pos; running off the buffer
   is a panic of Peek (also of Peek(1) / Peek(2), which && evaluates only after the tests before them) *)
Fixpoint ctx_scan (z : input) (l : list Z) (p : Z) : option Z :=
  match l with
  | [] => None
  | c :: t =>
      if ((c =? 0) && negb (peek_err (with_pos z p) 0 =? 0)) || (c =? 10) || (c =? 13) then Some p
      else if c =? 226 then
        match t with
        | [] => None
        | c1 :: t1 =>
            if c1 =? 128 then
              match t1 with
              | [] => None
              | c2 :: _ => if (c2 =? 168) || (c2 =? 169) then Some p else ctx_scan z t (p + 1)
              end
            else ctx_scan z t (p + 1)
        end
      else ctx_scan z t (p + 1)
  end.

Definition chk_slice (rs : list Z) (lo hi : Z) : option (list Z) :=
  if slice_ok lo hi (len rs) then Some (slice rs lo hi) else None.

(* the parts of the first printed line after "%5d: " and the caret column *)
Record ctxparts := mkCtx { c_front : bool; c_body : list Z; c_rear : bool; c_col : Z }.

(* limit = 60, offset = 20 *)
Definition elide (rs : list Z) (col : Z) : option ctxparts :=
  let n := len rs in
  if 60 <? n then
    if col <=? 40 then                                   (* col <= limit-offset *)
      b <- chk_slice rs 0 57 ;;                          (* rs[:limit-3] *)
      Some (mkCtx false b true col)
    else if n - 23 <=? col then                          (* col >= len(rs)-offset-3 *)
      b <- chk_slice rs (n - 44) n ;;                    (* rs[len(rs)-offset-offset-4:] *)
      Some (mkCtx true b false (col - (n - 47)))         (* col -= len(rs)-offset-offset-7 *)
    else
      b <- chk_slice rs (col - 21) (col + 20) ;;         (* rs[col-offset-1 : col+offset] *)
      Some (mkCtx true b true 24)                        (* col = offset+4 *)
  else Some (mkCtx false rs false col).

(* %d of a non-negative integer (fuel = number of binary digits >= number of decimal digits) *)
Fixpoint dec_digits (fuel : nat) (n : Z) : list Z :=
  match fuel with
  | O => []
  | S f => if n <? 10 then [48 + n] else dec_digits f (n / 10) ++ [48 + n mod 10]
  end.
Definition fmt_d (n : Z) : list Z :=
  if n <? 0 then 45 :: dec_digits (S (Z.to_nat (Z.log2 (- n)))) (- n)
  else dec_digits (S (Z.to_nat (Z.log2 n))) n.
(* %5d : padded on the left with spaces to width 5, longer numbers are printed in full *)
Definition pad_left (w : Z) (l : list Z) : list Z := repeat 32 (Z.to_nat (w - len l)) ++ l.

Definition ellipsis (b : bool) : list Z := if b then [46; 46; 46] else [].

Section WithGraphic.
  Variable graphic : Z -> bool.          (* unicode.IsGraphic *)

  Definition disp (r : Z) : Z := if graphic r then r else 183.     (* '·' *)

  (* prefix := fmt.Sprintf("%5d: ", line) *)
  Definition line_prefix (line : Z) : list Z := pad_left 5 (fmt_d line) ++ [58; 32].

  (* fmt.Sprintf("%s%s%s%s\n", prefix, front, string(rs), rear) without the line feed *)
  Definition first_line (line : Z) (c : ctxparts) : list Z :=
    line_prefix line ++ ellipsis (c_front c) ++ map disp (c_body c) ++ ellipsis (c_rear c).

  (* ... + fmt.Sprintf("%s^", strings.Repeat(" ", len(prefix)-1+col)) ; Repeat panics on a negative count *)
  Definition render (line : Z) (c : ctxparts) : option (list Z) :=
    let n := len (line_prefix line) - 1 + c_col c in
    if n <? 0 then None
    else Some (first_line line c ++ [10] ++ repeat 32 (Z.to_nat n) ++ [94]).

  (* the runes of the whole line the cursor is in (from start to the next \n, \r, U+2028, U+2029 or the end) *)
  Definition context_line (z : input) : option (list Z) :=
    if pos z <? 0 then None else
    p <- ctx_scan z (skipz (pos z) (buf z)) (pos z) ;;
    lx <- lexeme_bytes (with_pos z p) ;;
    Some (go_runes lx).

  Definition position_context (z : input) (line col : Z) : option (list Z) :=
    rs <- context_line z ;;
    c <- elide rs col ;;
    render line c.

  (* Position on an already constructed Input *)
  Definition position_input (z : input) (offset : Z) : outcome (Z * Z * list Z) :=
    match pos_loop (length (buf z)) z 1 offset with
    | Done (z1, line) =>
        match lexeme_bytes z1 with
        | None => Panic
        | Some lx =>
            let col := len (go_runes lx) + 1 in              (* len([]rune(string(l.Lexeme()))) + 1 *)
            match position_context z1 line col with
            | None => Panic
            | Some ctx => Done (line, col, ctx)
            end
        end
    | Panic => Panic
    | OutOfFuel => OutOfFuel
    end.

  (* Position(r, offset) for a reader that delivers [data] *)
  Definition position (data : list Z) (offset : Z) : outcome (Z * Z * list Z) :=
    position_input (new_string data) offset.

  (* Position(r, offset) for a reader given by its schedule: chunks, then EOF (e = 0) or an error *)
  Definition position_reader (chunks : list (list Z)) (e : Z) (offset : Z) : outcome (Z * Z * list Z) :=
    position_input (new_reader chunks e) offset.

  (* NewError(r, offset, msg): the Error carries Position(r, offset) (Line, Column, Context) *)
  Definition new_error (data : list Z) (offset : Z) : outcome (Z * Z * list Z) := position data offset.

  (* NewErrorLexer(l, msg): r = bytes.NewBuffer(l.Bytes()), offset = l.Offset() *)
  Definition input_bytes (z : input) : option (list Z) :=
    if slice_ok 0 (len (buf z) - 1) (len (buf z)) then Some (slice (buf z) 0 (len (buf z) - 1)) else None.

  Definition new_error_lexer (z : input) : outcome (Z * Z * list Z) :=
    match input_bytes z with
    | None => Panic
    | Some d => new_error d (pos z)
    end.
End WithGraphic.
