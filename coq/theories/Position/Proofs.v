(* Position/Proofs.v — the lemmas that Props/C15.v states, with their non-vacuity examples. *)
From Verif Require Import Common.Base Common.Tactics Cursor.Model Cursor.Proofs Position.Model Position.Spec
  Position.Lemmas Position.Total Position.LineCol Position.Context Position.Caret.
From Coq Require Import ZifyBool.

Section Proofs.
  Variable graphic : Z -> bool.

  (* offsets below 0 behave as offset 0 (the loop is not entered) *)
  Lemma position_clamp_low_proof data offset :
    offset <= 0 -> position graphic data offset = position graphic data 0.
  Proof.
    intros H. unfold position, position_input.
    pose proof (inv_new_string data) as (Hb & _ & Hs & Hp).
    assert (E : forall o, o <= 0 -> pos_loop (length (buf (new_string data))) (new_string data) 1 o = Done (new_string data, 1)).
    { intros o Ho. destruct (length (buf (new_string data))); cbn [pos_loop];
        replace (pos (new_string data) - start (new_string data) <? o) with false
          by (symmetry; apply Z.ltb_ge; lia); reflexivity. }
    rewrite (E offset H), (E 0 ltac:(lia)). reflexivity.
  Qed.

  (* a failing reader: line 1, column 1, the context of an empty line *)
  Lemma position_reader_error_proof chunks e offset :
    e <> 0 ->
    position_reader graphic chunks e offset =
      Done (1, 1, [32; 32; 32; 32; 49; 58; 32; 10; 32; 32; 32; 32; 32; 32; 32; 94]).
  Proof.
    intros He. unfold position_reader, new_reader.
    replace (e =? 0) with false by (symmetry; apply Z.eqb_neq; exact He).
    unfold position_input. cbn [buf length].
    assert (E : pos_loop 1 (mkInput [0] 0 0 e [] None) 1 offset = Done (mkInput [0] 0 0 e [] None, 1)).
    { cbn [pos_loop pos start]. destruct (0 - 0 <? offset); [|reflexivity].
      unfold classify, peek, peek_err. cbn [buf pos ierr option_bind].
      replace (e =? 0) with false by (symmetry; apply Z.eqb_neq; exact He). cbn.
      replace (e =? 0) with false by (symmetry; apply Z.eqb_neq; exact He). reflexivity. }
    rewrite E.
    assert (Hne : (e =? 0) = false) by (apply Z.eqb_neq; exact He).
    unfold position_context, context_line, ctx_scan, peek_err, lexeme_bytes, with_pos.
    cbn [pos buf start ierr skipz Z.to_nat skipn]. cbn. rewrite !Hne. cbn. rewrite ?Hne. reflexivity.
  Qed.

  (* line and column of every offset of a valid UTF-8 text *)
  Theorem position_line_col_full cps off :
    Forall cp_ok cps -> 0 <= off <= len (bytes cps) ->
    (exists pre cur post, located cps off pre cur post) /\
    (forall pre cur post pre' cur' post', located cps off pre cur post -> located cps off pre' cur' post' ->
       pre = pre' /\ cur = cur' /\ post = post') /\
    (forall pre cur post, located cps off pre cur post ->
       exists ctx, position graphic (bytes cps) off =
                     Done (1 + breaks (runes pre), 1 + len (last_line (runes pre)), ctx)).
  Proof.
    intros Hok Hoff. split; [apply located_exists; assumption|].
    split; [intros pre cur post pre' cur' post'; apply located_unique; exact Hok|].
    intros pre cur post Hloc. apply (position_line_col_proof graphic cps off pre cur post); assumption.
  Qed.

  (* outside [0, len]: as at the nearest end, for all byte strings *)
  Theorem position_clamp_proof data offset :
    (offset <= 0 -> position graphic data offset = position graphic data 0) /\
    (len data <= offset -> position graphic data offset = position graphic data (len data)).
  Proof. split; [apply position_clamp_low_proof|apply position_clamp_high_proof]. Qed.

  (* the position an error carries is the position of a byte inside the input (or of its end) *)
  Theorem error_offset_in_input_proof z d :
    buf z = d ++ [0] ->
    exists k, 0 <= k <= len d /\ new_error_lexer graphic z = position graphic d k /\
              (0 <= pos z <= len d -> k = pos z).
  Proof.
    intros Hb. destruct (new_error_lexer_total_proof graphic z d Hb) as (_ & _ & _ & _ & E).
    pose proof (len_nonneg d).
    destruct (Z.le_gt_cases (pos z) 0) as [L|G].
    - exists 0. split; [lia|]. split; [rewrite E; apply position_clamp_low_proof; exact L|lia].
    - destruct (Z.le_gt_cases (len d) (pos z)) as [L2|G2].
      + exists (len d). split; [lia|]. split; [rewrite E; apply position_clamp_high_proof; exact L2|lia].
      + exists (pos z). split; [lia|]. split; [exact E|reflexivity].
  Qed.
End Proofs.

(* --- non-vacuity ----------------------------------------------------------------------- *)

(* "a\r\nb" at offset 3 (the 'b'): line 2, column 1 *)
Example position_example_crlf :
  position ascii_graphic [97; 13; 10; 98] 3 =
    Done (2, 1, [32; 32; 32; 32; 50; 58; 32; 98; 10; 32; 32; 32; 32; 32; 32; 32; 94]).
Proof. vm_compute. reflexivity. Qed.

Example position_clamp_low_nonvacuous :
  position ascii_graphic [97; 10; 98] (-1) = position ascii_graphic [97; 10; 98] 0.
Proof. exact (position_clamp_low_proof ascii_graphic [97; 10; 98] (-1) ltac:(lia)). Qed.

Example position_reader_error_nonvacuous :
  exists x, position_reader ascii_graphic [[97; 98]; [99]] 2 1 = Done x.
Proof. eexists. apply position_reader_error_proof. lia. Qed.

(* "a\r\nbé": the offset of the \n inside \r\n is the position of the pair: line 1, column 2 *)
Definition ex_cps : list cp := [([97], 97); ([13], 13); ([10], 10); ([98], 98); ([195; 169], 233)].
Example ex_cps_ok : Forall cp_ok ex_cps.
Proof. repeat constructor. Qed.
Example ex_located_crlf : located ex_cps 2 [([97], 97)] [([13], 13); ([10], 10)] [([98], 98); ([195; 169], 233)].
Proof. split; [reflexivity|]. cbn. repeat split; lia. Qed.
Example ex_located_multibyte : located ex_cps 5 [([97], 97); ([13], 13); ([10], 10); ([98], 98)] [([195; 169], 233)] [].
Proof.
  split; [reflexivity|]. cbn. split; [lia|]. split; intros [H _]; discriminate.
Qed.
Example position_line_col_nonvacuous :
  exists ctx, position ascii_graphic (bytes ex_cps) 5 = Done (2, 2, ctx).
Proof.
  destruct (position_line_col_proof ascii_graphic ex_cps 5 _ _ _ ex_cps_ok ex_located_multibyte) as (ctx & E).
  exists ctx. exact E.
Qed.
Example position_clamp_high_nonvacuous :
  position ascii_graphic [97; 10; 98] 4 = position ascii_graphic [97; 10; 98] 3.
Proof. apply position_clamp_high_proof. cbn. lia. Qed.

(* a line of 100 'a' after "x\n": the three elision regimes and the caret in each *)
Definition ex_long (n : nat) : list cp := [([120], 120); ([10], 10)] ++ repeat ([97], 97) n.
Lemma ex_long_ok n : Forall cp_ok (ex_long n).
Proof. unfold ex_long. apply Forall_app. split; [repeat constructor|apply Forall_repeat; reflexivity]. Qed.

Example context_rear_regime :
  position ascii_graphic (bytes (ex_long 100)) 12 =
    Done (2, 11, pad_left 5 [50] ++ [58; 32] ++ repeat 97 57 ++ [46; 46; 46] ++ [10] ++ repeat 32 17 ++ [94]).
Proof. vm_compute. reflexivity. Qed.
Example context_both_regime :
  position ascii_graphic (bytes (ex_long 100)) 52 =
    Done (2, 51, pad_left 5 [50] ++ [58; 32] ++ [46; 46; 46] ++ repeat 97 41 ++ [46; 46; 46] ++ [10] ++ repeat 32 30 ++ [94]).
Proof. vm_compute. reflexivity. Qed.
Example context_front_regime :
  position ascii_graphic (bytes (ex_long 100)) 102 =
    Done (2, 101, pad_left 5 [50] ++ [58; 32] ++ [46; 46; 46] ++ repeat 97 44 ++ [10] ++ repeat 32 54 ++ [94]).
Proof. vm_compute. reflexivity. Qed.

(* the hypotheses of context_caret are met in the "both" regime, by a character that is not graphic *)
Definition ex_tab : list cp := repeat ([97], 97) 50 ++ [([9], 9)] ++ repeat ([97], 97) 50.
Example context_caret_nonvacuous :
  exists l1 n, Forall cp_ok ex_tab /\ located ex_tab 50 (repeat ([97], 97) 50) [([9], 9)] (repeat ([97], 97) 50) /\
    position ascii_graphic (bytes ex_tab) 50 = Done (1, 51, l1 ++ 10 :: repeat 32 n ++ [94]) /\
    nth_error l1 n = Some 183.
Proof.
  exists (pad_left 5 [49] ++ [58; 32] ++ [46; 46; 46] ++ repeat 97 20 ++ [183] ++ repeat 97 20 ++ [46; 46; 46]), 30%nat.
  split; [unfold ex_tab; repeat (apply Forall_app; split); try (apply Forall_repeat; reflexivity); repeat constructor|].
  split; [split; [reflexivity|]; cbn; repeat split; try lia; intros [H _]; discriminate|].
  split; vm_compute; reflexivity.
Qed.

(* "é\n" followed by the invalid byte 0xFF and more garbage: the position of the invalid byte *)
Example position_prefix_nonvacuous :
  exists ctx, position ascii_graphic (bytes [([195; 169], 233); ([10], 10)] ++ [255; 128; 13]) 3 = Done (2, 1, ctx).
Proof.
  destruct (position_prefix_proof ascii_graphic [([195; 169], 233); ([10], 10)] [255; 128; 13]) as (ctx & E).
  - repeat constructor.
  - intros H. vm_compute in H. discriminate.
  - exists ctx. exact E.
Qed.
