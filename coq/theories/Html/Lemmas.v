(* Html/Lemmas.v — proof infrastructure for the HTML lexer model: a small "safe r Q" logic over the
   result monad (r is Ok and its value satisfies Q), the loop rule, cursor facts. *)
From Verif Require Import Common.Base Common.Tactics Common.Lx Gen.Tables Html.Model.
From Coq Require Import ZifyBool.

(* ---- safe ------------------------------------------------------------------------------------ *)
Definition safe {A} (r : res A) (Q : A -> Prop) : Prop :=
  match r with Ok a => Q a | _ => False end.

Lemma safe_ok {A} (a : A) (Q : A -> Prop) : Q a -> safe (Ok a) Q.
Proof. exact (fun H => H). Qed.

Lemma safe_bind {A B} (e : res A) (k : A -> res B) (P : A -> Prop) (Q : B -> Prop) :
  safe e P -> (forall x, P x -> safe (k x) Q) -> safe (rbind e k) Q.
Proof. destruct e as [a| |]; cbn; intros H1 H2; [apply H2, H1|contradiction|contradiction]. Qed.

Lemma safe_mono {A} (e : res A) (P Q : A -> Prop) :
  safe e P -> (forall x, P x -> Q x) -> safe e Q.
Proof. destruct e as [a| |]; cbn; intros H1 H2; [apply H2, H1|contradiction|contradiction]. Qed.

Lemma safe_inv {A} (e : res A) (Q : A -> Prop) : safe e Q -> exists a, e = Ok a /\ Q a.
Proof. destruct e as [a| |]; cbn; intros H; [eauto|contradiction|contradiction]. Qed.

Lemma safe_of_eq {A} (e : res A) a (Q : A -> Prop) : e = Ok a -> Q a -> safe e Q.
Proof. intros -> H. exact H. Qed.

Lemma safe_and {A} (e : res A) (P Q : A -> Prop) : safe e P -> safe e Q -> safe e (fun x => P x /\ Q x).
Proof. destruct e as [a| |]; cbn; tauto. Qed.

(* ---- the loop rule ----------------------------------------------------------------------------- *)
Lemma safe_loop {S R} (I : S -> Prop) (m : S -> nat) (Q : R -> Prop) (body : S -> res (lp S R)) :
  (forall s, I s -> safe (body s) (fun x => match x with
                                            | Cont s' => I s' /\ (m s' < m s)%nat
                                            | Brk r => Q r
                                            end)) ->
  forall fuel s, I s -> (m s < fuel)%nat -> safe (loop fuel body s) Q.
Proof.
  intros Hb fuel. induction fuel as [|k IH]; intros s Hs Hm; [lia|].
  cbn [loop]. eapply safe_bind; [apply Hb, Hs|].
  intros [s'|r] Hx; cbn beta iota.
  - destruct Hx as [Hi Hlt]. apply IH; [exact Hi|lia].
  - exact Hx.
Qed.

(* partial correctness: whatever fuel, an Ok result satisfies Q *)
Lemma loop_inv {S R} (I : S -> Prop) (Q : R -> Prop) (body : S -> res (lp S R)) :
  (forall s x, I s -> body s = Ok x -> match x with Cont s' => I s' | Brk r => Q r end) ->
  forall fuel s r, I s -> loop fuel body s = Ok r -> Q r.
Proof.
  intros Hb fuel. induction fuel as [|k IH]; intros s r Hs H; [discriminate|].
  cbn [loop] in H. destruct (body s) as [x| |] eqn:E; cbn [rbind] in H; try discriminate.
  specialize (Hb s x Hs E). destruct x as [s'|r']; [exact (IH s' r Hb H)|].
  injection H as <-. exact Hb.
Qed.

(* more fuel does not change an Ok result *)
Lemma loop_fuel_mono {S R} (body : S -> res (lp S R)) fuel fuel' s r :
  loop fuel body s = Ok r -> (fuel <= fuel')%nat -> loop fuel' body s = Ok r.
Proof.
  revert fuel' s. induction fuel as [|k IH]; intros fuel' s H Hle; [discriminate|].
  destruct fuel' as [|k']; [lia|]. cbn [loop] in *.
  destruct (body s) as [x| |]; cbn [rbind] in *; try discriminate.
  destruct x as [s'|r']; [apply IH; [exact H|lia]|exact H].
Qed.

(* ---- cursor facts --------------------------------------------------------------------------- *)
Definition adv (z z' : lx) : Prop :=
  lbuf z' = lbuf z /\ lstart z' = lstart z /\ lpos z <= lpos z' <= lx_len z.

Lemma lx_len_same z z' : lbuf z' = lbuf z -> lx_len z' = lx_len z.
Proof. unfold lx_len. intros ->. reflexivity. Qed.

Lemma adv_refl z : lx_wf z -> adv z z.
Proof. intros (_ & _ & H). unfold adv. split; [reflexivity|split; [reflexivity|lia]]. Qed.

Lemma adv_trans a b c : adv a b -> adv b c -> adv a c.
Proof.
  intros (H1 & H2 & H3) (H4 & H5 & H6). unfold adv.
  rewrite (lx_len_same a b H1) in H6. split; [congruence|]. split; [congruence|lia].
Qed.

Lemma adv_wf z z' : lx_wf z -> adv z z' -> lx_wf z'.
Proof.
  intros ((d & Hd) & Hs & Hp) (H1 & H2 & H3). unfold lx_wf.
  rewrite (lx_len_same z z' H1), H1, H2. split; [eauto|lia].
Qed.

Lemma adv_len z z' : adv z z' -> lx_len z' = lx_len z.
Proof. intros (H & _). apply lx_len_same, H. Qed.

Lemma adv_mv z n : 0 <= n -> lpos z + n <= lx_len z -> adv z (mv z n).
Proof. intros H1 H2. unfold adv, mv. cbn [lbuf lstart lpos]. split; [reflexivity|split; [reflexivity|lia]]. Qed.

Lemma adv_mv' z0 z n : adv z0 z -> 0 <= n -> lpos z + n <= lx_len z -> adv z0 (mv z n).
Proof. intros H H1 H2. eapply adv_trans; [exact H|apply adv_mv; assumption]. Qed.

Lemma lx_wf_len z : lx_wf z -> len (lbuf z) = lx_len z + 1 /\ 0 <= lx_len z.
Proof. intros (_ & H1 & H2). unfold lx_len in *. lia. Qed.

(* the last byte of the buffer is the terminator *)
Lemma pk_terminator z i c : lx_wf z -> pk z i = Some c -> lpos z + i = lx_len z -> c = 0.
Proof.
  intros ((d & Hd) & _ & _) H E. unfold pk, lx_len in *. rewrite Hd in *.
  rewrite len_app in E. change (len [0]) with 1 in E.
  replace (lpos z + i) with (len d) in H by lia. rewrite peekz_sentinel in H. congruence.
Qed.

Lemma pk_range z i c : pk z i = Some c -> 0 <= lpos z + i <= lx_len z.
Proof. unfold pk, lx_len. intros H. apply peekz_some in H. lia. Qed.

(* a non-zero byte is not the terminator *)
Lemma pk_nz_lt z i c : lx_wf z -> pk z i = Some c -> c <> 0 -> lpos z + i < lx_len z.
Proof.
  intros Hw H Hc. pose proof (pk_range _ _ _ H) as Hr.
  destruct (Z.eq_dec (lpos z + i) (lx_len z)) as [E|E]; [|lia].
  exfalso. apply Hc. eapply pk_terminator; eauto.
Qed.

Lemma pkr_some z i : lx_wf z -> 0 <= lpos z + i <= lx_len z -> exists c, pkr z i = Ok c /\ pk z i = Some c.
Proof.
  intros Hw Hr. destruct (pk_in_range z i Hw Hr) as [c Hc]. exists c. unfold pkr. rewrite Hc. split; reflexivity.
Qed.

Lemma pkr0 z : lx_wf z -> exists c, pkr z 0 = Ok c /\ pk z 0 = Some c.
Proof. intros Hw. apply pkr_some; [exact Hw|]. destruct Hw as (_ & H1 & H2). lia. Qed.

(* after a non-zero byte at i the byte at i+1 can be read *)
Lemma pkr_next z i c : lx_wf z -> pk z i = Some c -> c <> 0 ->
  exists c', pkr z (i + 1) = Ok c' /\ pk z (i + 1) = Some c'.
Proof.
  intros Hw H Hc. pose proof (pk_nz_lt _ _ _ Hw H Hc). pose proof (pk_range _ _ _ H).
  apply pkr_some; [exact Hw|lia].
Qed.

Lemma eof0_true z c : lx_wf z -> pk z 0 = Some c -> eof0 z c = true -> lpos z = lx_len z.
Proof.
  intros (_ & _ & Hp) H E. unfold eof0, at_end in E. b2p. lia.
Qed.

Lemma eof0_false z c : lx_wf z -> pk z 0 = Some c -> eof0 z c = false -> lpos z < lx_len z.
Proof.
  intros Hw H E. pose proof (pk_range _ _ _ H) as Hr.
  destruct (Z.eq_dec (lpos z) (lx_len z)) as [E1|E1]; [|lia].
  exfalso. assert (c = 0) by (eapply pk_terminator; eauto; lia). subst c.
  unfold eof0, at_end in E. rewrite E1 in E. rewrite Z.leb_refl in E. cbn in E. discriminate.
Qed.

Lemma at_end_true z : lx_wf z -> at_end z = true -> lpos z = lx_len z.
Proof. intros (_ & _ & Hp) E. unfold at_end in E. b2p. lia. Qed.

Lemma pk_mv z n i : pk (mv z n) i = pk z (n + i).
Proof. unfold pk, mv. cbn [lbuf lpos]. f_equal. lia. Qed.

Lemma pk_adv_buf z z' i : lbuf z' = lbuf z -> lpos z' = lpos z -> pk z' i = pk z i.
Proof. unfold pk. intros -> ->. reflexivity. Qed.

(* fuel computed at an earlier cursor suffices *)
Lemma fuel_enough zf z0 z : lbuf zf = lbuf z0 -> lpos zf <= lpos z -> lbuf z = lbuf z0 ->
  (Z.to_nat (lx_len z0 - lpos z) < fuel_of zf)%nat.
Proof. unfold fuel_of, lx_len. intros -> H _. lia. Qed.

(* the cursor loop rule: state S with a cursor projection; every iteration moves forward *)
Lemma safe_cloop {S R} (cur : S -> lx) (z0 : lx) (J : S -> Prop) (Q : R -> Prop)
      (body : S -> res (lp S R)) (fuel : nat) (s0 : S) :
  (forall s, adv z0 (cur s) -> J s ->
     safe (body s) (fun x => match x with
                             | Cont s' => adv z0 (cur s') /\ lpos (cur s) < lpos (cur s') /\ J s'
                             | Brk r => Q r
                             end)) ->
  adv z0 (cur s0) -> J s0 -> (Z.to_nat (lx_len z0 - lpos (cur s0)) < fuel)%nat ->
  safe (loop fuel body s0) Q.
Proof.
  intros Hb Ha Hj Hf.
  apply (safe_loop (fun s => adv z0 (cur s) /\ J s) (fun s => Z.to_nat (lx_len z0 - lpos (cur s))) Q body).
  - intros s (Hs1 & Hs2). eapply safe_mono; [apply Hb; assumption|].
    intros [s'|r]; [|tauto]. intros (H1 & H2 & H3). split; [tauto|].
    destruct H1 as (_ & _ & H1). lia.
  - tauto.
  - exact Hf.
Qed.

(* ---- bytes ---------------------------------------------------------------------------------- *)
Lemma is_ws_nz c : is_ws c = true -> c <> 0.
Proof. unfold is_ws. intros H ->. cbn in H. discriminate. Qed.

Lemma is_letter_nz c : is_letter c = true -> c <> 0.
Proof. unfold is_letter. intros H ->. cbn in H. discriminate. Qed.

Lemma lower_idem c : lower (lower c) = lower c.
Proof. unfold lower. destruct ((65 <=? c) && (c <=? 90)) eqn:E; [|rewrite E; reflexivity]. b2p. zb. reflexivity. Qed.

Lemma lower_0 : lower 0 = 0.
Proof. reflexivity. Qed.

Lemma lower_nz c : c <> 0 -> lower c <> 0.
Proof. unfold lower. destruct ((65 <=? c) && (c <=? 90)) eqn:E; [b2p; lia|auto]. Qed.
