(* Html/Hash.v — html.ToHash (model over the generated table): totality and the values on the ten names. *)
From Verif Require Import Common.Base Common.Tactics Common.Bits Common.Lx Gen.Tables Html.Model Html.Lemmas.
From Coq Require Import ZifyBool.

Lemma hash_cmp_ok t s : len s <= len t -> exists b, hash_cmp t s = Ok b.
Proof.
  revert t. induction s as [|c s IH]; intros t H; cbn [hash_cmp]; [eauto|].
  destruct t as [|x t]; [rewrite len_cons, len_nil in H; pose proof (len_nonneg s); lia|].
  destruct (x =? c); [|eauto]. apply IH. rewrite !len_cons in H. lia.
Qed.

Definition slot_ok (i : Z) : bool :=
  match hash_text_slice i with Ok t => len t =? Z.land i 255 | _ => false end.

Lemma table_slots_ok : forallb slot_ok html_hash_table = true.
Proof. vm_compute. reflexivity. Qed.

Lemma table_len : len html_hash_table = 16.
Proof. reflexivity. Qed.

Lemma hash_probe_ok slot s : 0 <= slot < 16 -> exists r, hash_probe slot s = Ok r.
Proof.
  intros H. unfold hash_probe.
  destruct (peekz_in_range html_hash_table slot) as [i Hi]; [rewrite table_len; exact H|].
  rewrite Hi. cbn [opt_res rbind].
  assert (Hin : In i html_hash_table).
  { unfold peekz in Hi. destruct ((0 <=? slot) && (slot <? len html_hash_table)); [|discriminate].
    eapply nth_error_In; eauto. }
  pose proof table_slots_ok as Ht. rewrite forallb_forall in Ht. specialize (Ht i Hin).
  unfold slot_ok in Ht. destruct (Z.land i 255 =? len s) eqn:E; [|eauto].
  destruct (hash_text_slice i) as [t| |]; try discriminate. cbn [rbind].
  apply Z.eqb_eq in Ht, E. destruct (hash_cmp_ok t s) as [b Hb]; [lia|]. rewrite Hb. cbn [rbind]. eauto.
Qed.

Lemma land15 h : 0 <= Z.land h 15 < 16.
Proof. change 15 with (2 ^ 4 - 1). rewrite land_mask by lia. apply Z.mod_pos_bound. lia. Qed.

Lemma to_hash_ok s : exists h, to_hash s = Ok h.
Proof.
  unfold to_hash. destruct ((len s =? 0) || (html_hash_maxlen <? len s)); [eauto|].
  rewrite table_len. change (16 - 1) with 15.
  destruct (hash_probe_ok (Z.land (fnv s) 15) s (land15 _)) as [r1 H1]. rewrite H1. cbn [rbind].
  destruct r1 as [i|]; [eauto|].
  destruct (hash_probe_ok (Z.land (Z.shiftr (fnv s) 16) 15) s (land15 _)) as [r2 H2]. rewrite H2. cbn [rbind]. eauto.
Qed.

Lemma safe_to_hash s : safe (to_hash s) (fun _ => True).
Proof. destruct (to_hash_ok s) as [h ->]. exact I. Qed.

(* the ten names hash to their constants *)
Definition names10 : list (list Z * Z) :=
  [ ([105;102;114;97;109;101], html_hash_Iframe); ([109;97;116;104], html_hash_Math);
    ([112;108;97;105;110;116;101;120;116], html_hash_Plaintext); ([115;99;114;105;112;116], html_hash_Script);
    ([115;116;121;108;101], html_hash_Style); ([115;118;103], html_hash_Svg);
    ([116;101;120;116;97;114;101;97], html_hash_Textarea); ([116;105;116;108;101], html_hash_Title);
    ([120;109;108], html_hash_Xml); ([120;109;112], html_hash_Xmp) ].

Lemma names10_hash :
  forallb (fun p => match to_hash (fst p) with Ok h => h =? snd p | _ => false end) names10 = true.
Proof. vm_compute. reflexivity. Qed.
