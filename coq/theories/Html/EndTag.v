(* Html/EndTag.v — end tags are faithful: only the ASCII case of the tag name changes, and Text() carries no
   trailing whitespace. *)
From Verif Require Import Common.Base Common.Tactics Common.Lx Gen.Tables Html.Model Html.Lemmas Html.ListLemmas
     Html.Hash Html.Safety Html.Step Html.Spec Html.RawText Html.Func Html.Proofs Html.Views.
From Coq Require Import ZifyBool.

(* ---- the trimmed length ---------------------------------------------------------------------------------------------- *)
Lemma trim_rev_split r : exists u, r = u ++ trim_rev r /\ Forall (fun c => is_ws c = true) u /\
  (trim_rev r = [] \/ exists c t, trim_rev r = c :: t /\ is_ws c = false).
Proof.
  induction r as [|c r IH]; [exists []; split; [reflexivity|split; [constructor|left; reflexivity]]|].
  cbn [trim_rev]. destruct (is_ws c) eqn:E.
  - destruct IH as (u & Hu & Hf & Ht). exists (c :: u). split; [cbn [app]; f_equal; exact Hu|]. split; [constructor; assumption|exact Ht].
  - exists []. split; [reflexivity|]. split; [constructor|]. right. exists c, r. split; [reflexivity|exact E].
Qed.

(* bs = a ++ u with u the trailing whitespace and a not ending in whitespace; the trimmed length is that of a *)
Lemma trim_split bs : exists a u, bs = a ++ u /\ trim_end_len bs = len a /\ Forall (fun c => is_ws c = true) u /\
  (a = [] \/ exists a' c, a = a' ++ [c] /\ is_ws c = false).
Proof.
  destruct (trim_rev_split (rev bs)) as (u & Hu & Hf & Ht).
  exists (rev (trim_rev (rev bs))), (rev u). split.
  - rewrite <- rev_app_distr, <- Hu, rev_involutive. reflexivity.
  - split; [unfold trim_end_len, len; rewrite rev_length; reflexivity|]. split; [apply Forall_rev; exact Hf|].
    destruct Ht as [->|(c & t & -> & Hc)]; [left; reflexivity|right]. exists (rev t), c. split; [reflexivity|exact Hc].
Qed.

Lemma skipz_slice (B : list Z) p n k : 0 <= p -> 0 <= k <= n -> p + n <= len B ->
  skipz k (slice B p (p + n)) = slice B (p + k) (p + n).
Proof.
  intros Hp Hk Hl. apply peekz_ext. intros i.
  destruct (Z.lt_ge_cases i 0) as [Hn|Hn]; [rewrite !peekz_neg by lia; reflexivity|].
  rewrite peekz_skipz by lia.
  destruct (Z.lt_ge_cases (k + i) n) as [Hlt|Hge].
  - rewrite !peekz_slice by lia. f_equal. lia.
  - assert (N1 : peekz (slice B p (p + n)) (k + i) = None) by (apply peekz_none_iff; rewrite len_slice by lia; lia).
    assert (N2 : peekz (slice B (p + k) (p + n)) i = None) by (apply peekz_none_iff; rewrite len_slice by lia; lia).
    congruence.
Qed.

(* ---- what is observed of an end tag, in terms of the input ----------------------------------------------------------- *)
(* the token [s, s+n) of input d is an end tag: with nr = the length of its name (the bytes after "</" up to the
   first whitespace, '>' or '/', or up to the start of a template delimiter if one comes first: nr is at most the
   length up to whitespace, '>' or '/'), its bytes are the input bytes with exactly the name lower-cased; Text() starts after
   "</", does not end in whitespace, and is followed by whitespace and '>' only. *)
Definition endtag_faithful (d : list Z) (r : Z * option sl * lexer) : Prop :=
  let '(ty, tk, l') := r in
  ty = EndTagT ->
  exists v t nr, tk = Some v /\ ltext l' = Some t /\
    let s := so v in let n := sn v in
    nr <= name_run [] (slice d (s + 2) (s + n)) /\
    2 <= n /\ 0 <= nr /\ s + 2 + nr <= s + n /\
    view_bytes (lbuf (lz l')) v =
      slice d s (s + 2) ++ map lower (slice d (s + 2) (s + 2 + nr)) ++ slice d (s + 2 + nr) (s + n) /\
    so t = s + 2 /\ 0 <= sn t /\ so t + sn t <= s + n /\
    (sn t = 0 \/ is_ws (getz d (so t + sn t - 1)) = false) /\
    (forall i, so t + sn t <= i < s + n -> is_ws (getz d i) = true \/ getz d i = 62).

Lemma chain_until_error_forall (P : Z * option sl * lexer -> Prop) (inv : lexer -> Prop) :
  (forall l r, inv l -> step_post l r -> fst (fst r) <> ErrorT -> inv (snd r) /\ P r) ->
  forall tr l, inv l -> chain l tr -> Forall P (until_error tr).
Proof.
  intros H tr. induction tr as [|r rest IH]; intros l Hi Hch; [constructor|].
  cbn [chain] in Hch. destruct Hch as [Hs Hch]. cbn [until_error].
  destruct (fst (fst r) =? ErrorT) eqn:E; [constructor|].
  assert (Hne : fst (fst r) <> ErrorT) by (b2p; assumption).
  destruct (H l r Hi Hs Hne) as [Hi' Hp]. constructor; [exact Hp|]. exact (IH (snd r) Hi' Hch).
Qed.

Lemma getz_peekz (l : list Z) i c : peekz l i = Some c -> getz l i = c.
Proof. intros H. unfold getz. rewrite H. reflexivity. Qed.

Lemma endtag_step d l ty tk l' : html_inv d l -> lstart (lz l) = lpos (lz l) -> step_post l (ty, tk, l') ->
  endtag_faithful d (ty, tk, l').
Proof.
  intros Hi Hcl Hs. cbn [endtag_faithful]. intros ->.
  pose proof Hi as ((Hw & _) & Hlen & Hsuf & _). pose proof (lx_wf_len _ Hw) as [Hbl _].
  assert (H0 : 0 <= lpos (lz l)) by (destruct Hw as (_ & ? & _); lia).
  cbn [step_post] in Hs. destruct Hs as (_ & _ & (w & Hb & W1 & W2 & W3 & Wr) & Hpos & Htk & _).
  rewrite Hlen in *.
  unfold low_rule in Wr. change ((EndTagT =? StartTagT) || (EndTagT =? SvgT) || (EndTagT =? MathT) || (EndTagT =? XmlT)) with false in Wr.
  change (EndTagT =? EndTagT) with true in Wr. cbn iota in Wr.
  destruct tk as [v|]; [|contradiction]. destruct Wr as [[tbx Hwv] (t & k & T1 & T2 & T3 & T4 & T5 & T6)].
  destruct Htk as (_ & V1 & V2 & V3 & _).
  set (B := lbuf (lz l)) in *. set (s := so v) in *. set (n := sn v) in *.
  (* the buffer agrees with the input on the token *)
  assert (Hpk : forall i, s <= i < len d -> peekz B i = peekz d i).
  { intros i Hi'. unfold B. rewrite Hsuf by lia. apply peekz_app_l. lia. }
  assert (Hsl : forall a b, s <= a -> a <= b -> b <= s + n -> slice B a b = slice d a b).
  { intros a b Ha Hab Hbn. apply slice_ext; [lia|lia|lia|]. intros i Hi'. apply Hpk. lia. }
  assert (Hw2 : so w = s + 2 /\ sn w = name_run tbx (slice d (s + 2) (s + n))).
  { rewrite Hwv. unfold endtag_name_view. cbn [so sn]. split; [reflexivity|]. f_equal. unfold view_bytes. fold s n.
    assert (2 <= n).
    { rewrite Hwv in W3. unfold endtag_name_view in W3. cbn [so sn] in W3. rewrite Hwv in W2. cbn [endtag_name_view sn] in W2. lia. }
    rewrite skipz_slice by lia. apply Hsl; lia. }
  destruct Hw2 as [Hw2a Hw2b]. set (nr := name_run tbx (slice d (s + 2) (s + n))) in *.
  exists v, t, nr. split; [reflexivity|]. split; [exact T1|]. cbn zeta. fold s n.
  assert (Hn2 : 2 <= n) by lia.
  split; [apply name_run_le|]. split; [exact Hn2|]. split; [lia|]. split; [lia|]. split.
  - rewrite Hb. destruct w as [wo wn]. cbn [so sn] in *. subst wo wn.
    replace (mkSl (s + 2) nr) with (mkSl (s + 2) (2 + nr - 2)) by (f_equal; lia).
    replace v with (mkSl s n) by (destruct v; reflexivity).
    rewrite view_lower_middle by lia. unfold view_bytes. cbn [so sn].
    replace (s + 2 + (2 + nr - 2)) with (s + 2 + nr) by lia. replace (s + (2 + nr)) with (s + 2 + nr) by lia.
    replace (s + 2 + nr + (n - (2 + nr))) with (s + n) by lia.
    rewrite !Hsl by lia. reflexivity.
  - split; [exact T2|]. 
    (* the trimmed text *)
    set (bs := view_bytes B (mkSl (s + 2) k)) in *.
    assert (Hbs : bs = slice d (s + 2) (s + 2 + k)) by (unfold bs, view_bytes; cbn [so sn]; apply Hsl; lia).
    assert (Hlbs : len bs = k) by (rewrite Hbs, len_slice by lia; lia).
    destruct (trim_split bs) as (a & u & Eb & Ea & Hu & Hlast).
    assert (Hlau : len a + len u = k) by (rewrite <- Hlbs, Eb, len_app; reflexivity).
    pose proof (len_nonneg a). pose proof (len_nonneg u).
    rewrite Ea in T5.
    assert (Hbyte : forall j, 0 <= j < k -> peekz bs j = peekz d (s + 2 + j)).
    { intros j Hj. rewrite Hbs, peekz_slice by lia. reflexivity. }
    split; [lia|]. split; [lia|]. split.
    + destruct Hlast as [->|(a' & c & -> & Hc)]; [left; rewrite T5; reflexivity|right].
      rewrite len_app in *. change (len [c]) with 1 in *. pose proof (len_nonneg a').
      assert (Hpc : peekz bs (len a') = Some c).
      { rewrite Eb, <- app_assoc. rewrite peekz_app_r0. apply peekz_cons_0. }
      rewrite Hbyte in Hpc by lia. rewrite T2, T5.
      replace (s + 2 + (len a' + 1) - 1) with (s + 2 + len a') by lia. rewrite (getz_peekz _ _ _ Hpc). exact Hc.
    + intros i Hi'. rewrite T2, T5 in Hi'.
      destruct (Z.lt_ge_cases i (s + 2 + k)) as [Hlt|Hge].
      * left. destruct (peekz_in u (i - s - 2 - len a) ltac:(lia)) as (c & Hc & Hin).
        assert (Hpc : peekz bs (i - s - 2) = Some c).
        { rewrite Eb. replace (i - s - 2) with (len a + (i - s - 2 - len a)) by lia. rewrite peekz_app_rk by lia. exact Hc. }
        rewrite Hbyte in Hpc by lia. replace (s + 2 + (i - s - 2)) with i in Hpc by lia.
        rewrite (getz_peekz _ _ _ Hpc). rewrite Forall_forall in Hu. apply Hu, Hin.
      * right. assert (i = s + 2 + k) by lia. subst i.
        specialize (T6 ltac:(lia)). rewrite Hpk in T6 by lia. apply getz_peekz, T6.
Qed.

Lemma html_endtag_faithful_proof : forall c d n tr, cfg_ok c -> run c n (new_lexer d) = Ok tr ->
  Forall (endtag_faithful d) (until_error tr).
Proof.
  intros c d n tr Hc Hr. destruct (run_inv_chain c n _ tr Hc (new_lexer_lwf d) Hr) as [_ Hch].
  apply (chain_until_error_forall (endtag_faithful d) (fun l => html_inv d l /\ lstart (lz l) = lpos (lz l))) with (l := new_lexer d);
    [|split; [apply html_inv_init|reflexivity]|exact Hch].
  intros l [[ty tk] l'] [Hi Hcl] Hs Hne. cbn [fst snd] in *. split.
  - split; [exact (html_inv_step d l ty tk l' Hi Hs)|]. cbn [step_post] in Hs. destruct Hs as (_ & _ & _ & _ & Htk & _).
    destruct tk as [v|]; [tauto|]. destruct Htk as [E _]. congruence.
  - exact (endtag_step d l ty tk l' Hi Hcl Hs).
Qed.

(* non-vacuity: "</A X=Y >": the name is lower-cased, X=Y is returned as it is, Text() is "a X=Y" *)
Example html_endtag_faithful_nonvacuous :
  exists v t l', next no_tmpl (new_lexer [60; 47; 65; 32; 88; 61; 89; 32; 62]) = Ok (EndTagT, Some v, l') /\
    view_bytes (lbuf (lz l')) v = [60; 47; 97; 32; 88; 61; 89; 32; 62] /\ ltext l' = Some t /\
    view_bytes (lbuf (lz l')) t = [97; 32; 88; 61; 89].
Proof. eexists _, _, _. split; [vm_compute; reflexivity|]. split; [vm_compute; reflexivity|]. split; [reflexivity|vm_compute; reflexivity]. Qed.
