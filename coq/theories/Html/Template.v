(* Html/Template.v — template regions where the lexer looks for them. *)
From Verif Require Import Common.Base Common.Tactics Common.Lx Gen.Tables Html.Model Html.Lemmas Html.ListLemmas
     Html.Hash Html.Safety Html.Step Html.Spec Html.RawText Html.Func Html.Proofs.
From Coq Require Import ZifyBool.

(* what is left of the buffer is what is left of the input *)
Lemma rem_inv d l : html_inv d l -> rem (lz l) = skipz (lpos (lz l)) d.
Proof.
  intros ((Hw & _) & Hlen & Hsuf & _). pose proof (lx_wf_len _ Hw) as [Hbl _].
  assert (H0 : 0 <= lpos (lz l) <= lx_len (lz l)) by (destruct Hw as (_ & ? & ?); lia).
  unfold rem. apply peekz_ext. intros i.
  destruct (Z.lt_ge_cases i 0) as [Hn|Hn]; [rewrite !peekz_neg by lia; reflexivity|].
  rewrite peekz_skipz by lia.
  destruct (Z.lt_ge_cases i (lx_len (lz l) - lpos (lz l))) as [Hlt|Hge].
  - rewrite peekz_slice by lia. rewrite Hsuf by lia. apply peekz_app_l. lia.
  - assert (N1 : peekz (slice (lbuf (lz l)) (lpos (lz l)) (lx_len (lz l))) i = None)
      by (apply peekz_none_iff; rewrite len_slice by lia; lia).
    assert (N2 : peekz d (lpos (lz l) + i) = None) by (apply peekz_none_iff; lia).
    congruence.
Qed.

Lemma skipz_skipz {A} a b (l : list A) : 0 <= a -> 0 <= b -> skipz b (skipz a l) = skipz (a + b) l.
Proof.
  intros Ha Hb. unfold skipz. replace (Z.to_nat (a + b)) with (Z.to_nat a + Z.to_nat b)%nat by lia.
  generalize (Z.to_nat a) as n. generalize (Z.to_nat b) as m. intros m n. revert l.
  induction n as [|n IH]; intros l; [reflexivity|]. destruct l as [|x l]; [destruct m; reflexivity|]. cbn [skipn Nat.add]. apply IH.
Qed.

Lemma length_skipz_le' {A} n (l : list A) : (length (skipz n l) <= length l)%nat.
Proof. unfold skipz. rewrite skipn_length. lia. Qed.

(* ---- (i) a region that starts in text is exactly one Template token ---------------------------------------------- *)
Lemma html_template_token_proof : forall c d l p q, cfg_ok c -> html_inv d l -> intag l = false -> rawtag l = 0 ->
  p = lpos (lz l) -> is_region c d p q ->
  exists l', next c l = Ok (TemplateT, Some (mkSl p (q - p)), l') /\ lhas l' = true /\ lpos (lz l') = q.
Proof.
  intros c d l p q Hc Hi Hit Hraw -> (Hp0 & Htb & Hpre & ->).
  pose proof Hi as (Hl & Hlen & _). pose proof Hl as [Hw _]. pose proof (lwf_clean l Hl Hit) as Hcl.
  pose proof (rem_inv d l Hi) as Hrem. destruct Hc as [Hntb Hnte].
  unfold next. cbn [lz rawtag intag lerr ltext lattr lhas]. rewrite Hit, Hraw. cbn [Z.eqb negb].
  unfold next_content. cbn [lz rawtag intag lerr ltext lattr lhas].
  (* the text loop stops at once *)
  assert (Hloop : loop (fuel_of (lz l)) (text_body c) (lz l) = Ok (lz l, DTmpl)).
  { unfold fuel_of. cbn [loop]. unfold text_body at 1.
    destruct (pkr0 _ Hw) as (c0 & Hc0 & _). rewrite Hc0. cbn [rbind].
    unfold tmpl_at. replace (has_delims c) with true by (unfold has_delims; destruct (tb c); congruence).
    rewrite at_rem by assumption. rewrite Hrem, Hpre. cbn [rbind].
    unfold mark. replace (0 <? lpos (lz l) - lstart (lz l)) with false by (symmetry; apply Z.ltb_ge; lia). reflexivity. }
  rewrite Hloop. cbn [rbind].
  (* the region is skipped as a whole *)
  pose proof (prefixb_len _ _ Hpre) as Hlen_tb. rewrite <- Hrem in Hlen_tb.
  destruct (rem_mv (lz l) (len (tb c)) Hw) as [Hr1 Hw1]; [pose proof (len_nonneg (tb c)); lia|].
  unfold tmpl_skip. rewrite (move_template_region c _ (conj Hntb Hnte) Hw1). cbn [rbind].
  rewrite Hr1, Hrem. rewrite skipz_skipz by (lia || apply len_nonneg).
  set (s2 := skipz (lpos (lz l) + len (tb c)) d).
  rewrite (region_len_fuel (te c) (length s2) (length d) s2) by (try lia; apply length_skipz_le').
  set (n := region_len (length d) (te c) s2).
  assert (Hn : 0 <= n <= len s2) by apply region_len_bound.
  assert (Hs2 : len s2 = len (rem (lz l)) - len (tb c)).
  { unfold s2. rewrite Hrem. rewrite <- skipz_skipz by (lia || apply len_nonneg).
    apply len_skipz. rewrite <- Hrem. pose proof (len_nonneg (tb c)). lia. }
  destruct (rem_mv (mv (lz l) (len (tb c))) n Hw1) as [_ Hw2]; [rewrite Hr1, Hrem; fold s2; rewrite skipz_skipz by (lia || apply len_nonneg); fold s2; lia|].
  rewrite shiftv_spec by exact Hw2. cbn [rbind fst snd].
  eexists. split.
  - unfold mv, skip. cbn [lbuf lstart lpos so sn]. rewrite Hcl. reflexivity.
  - split; [reflexivity|]. cbn [lz skip mv lpos]. lia.
Qed.

(* ---- (ii) ordinary text tokens contain no region and report none --------------------------------------------------- *)
Lemma skipz_peek_cons (l : list Z) i x : peekz l i = Some x -> skipz i l = x :: skipz (i + 1) l.
Proof.
  intros H. pose proof (peekz_some _ _ _ H) as Hr. apply peekz_ext. intros k.
  destruct (Z.lt_ge_cases k 0) as [Hk|Hk]; [rewrite !peekz_neg by lia; reflexivity|].
  destruct (Z.eq_dec k 0) as [->|Hk0].
  - rewrite peekz_skipz, peekz_cons_0 by lia. rewrite Z.add_0_r. exact H.
  - replace k with (k - 1 + 1) at 2 by lia. rewrite peekz_cons_succ by lia. rewrite !peekz_skipz by lia. f_equal. lia.
Qed.

(* l.at(b...) without any well-formedness assumption: if it returns, it says whether b is a prefix of the buffer there *)
Lemma at_from_buf z bs : forall i b, at_from z i bs = Ok b -> bs <> [] -> b = prefixb bs (skipz (lpos z + i) (lbuf z)).
Proof.
  induction bs as [|c t IH]; intros i b H Hne; [congruence|]. cbn [at_from] in H.
  unfold pkr in H. destruct (pk z i) as [x|] eqn:Hp; cbn [opt_res rbind] in H; [|discriminate].
  unfold pk in Hp. rewrite (skipz_peek_cons _ _ _ Hp). cbn [prefixb].
  destruct (x =? c) eqn:E.
  - apply Z.eqb_eq in E. subst x. rewrite Z.eqb_refl. cbn [andb].
    destruct t as [|c2 t2]; [cbn [at_from] in H; cbn [prefixb]; congruence|].
    replace (lpos z + i + 1) with (lpos z + (i + 1)) by lia. apply IH; [exact H|discriminate].
  - rewrite Z.eqb_sym in E. rewrite E. cbn [andb]. congruence.
Qed.

Lemma text_loop_run c z fuel r : tb c <> [] -> loop fuel (text_body c) z = Ok r ->
  same z (fst r) /\ lpos z <= lpos (fst r) /\
  forall p, lpos z <= p < lpos (fst r) -> prefixb (tb c) (skipz p (lbuf z)) = false.
Proof.
  intros Htb H.
  refine (loop_inv (fun s => same z s /\ lpos z <= lpos s /\ forall p, lpos z <= p < lpos s -> prefixb (tb c) (skipz p (lbuf z)) = false)
                   (fun r => same z (fst r) /\ lpos z <= lpos (fst r) /\
                             forall p, lpos z <= p < lpos (fst r) -> prefixb (tb c) (skipz p (lbuf z)) = false)
                   (text_body c) _ _ z r _ H); [|split; [apply same_refl|split; [lia|intros; lia]]].
  clear H r. intros s x (Hs & Hle & Hno) Hx. unfold text_body in Hx.
  destruct (pkr s 0) as [c0| |]; cbn [rbind] in Hx; try discriminate.
  destruct (tmpl_at c s) as [t| |] eqn:Et; cbn [rbind] in Hx; try discriminate.
  destruct t; [injection Hx as <-; cbn [fst]; tauto|].
  (* no delimiter at this position *)
  assert (Hhere : prefixb (tb c) (skipz (lpos s) (lbuf z)) = false).
  { unfold tmpl_at in Et. replace (has_delims c) with true in Et by (unfold has_delims; destruct (tb c); congruence).
    apply at_from_buf in Et; [|exact Htb]. destruct Hs as [Hb _]. rewrite Hb, Z.add_0_r in Et. congruence. }
  assert (Hstep : same z (mv s 1) /\ lpos z <= lpos (mv s 1) /\
                  forall p, lpos z <= p < lpos (mv s 1) -> prefixb (tb c) (skipz p (lbuf z)) = false).
  { split; [eapply same_trans; [exact Hs|apply same_mv]|]. cbn [mv lpos]. split; [lia|].
    intros p Hp. destruct (Z.eq_dec p (lpos s)) as [->|Hne]; [exact Hhere|apply Hno; lia]. }
  destruct (c0 =? 60).
  - destruct (pkr s 1) as [c1| |]; cbn [rbind] in Hx; try discriminate.
    destruct (if c1 =? 47 then c2 <-- pkr s 2;; Ok (negb (c2 =? 62) && (negb (c2 =? 0) || negb (at_end_i s 2))) else Ok false)
      as [ie| |]; cbn [rbind] in Hx; try discriminate.
    destruct (negb ie && negb (is_letter c1) && negb (c1 =? 33) && negb (c1 =? 63)); [injection Hx as <-; exact Hstep|].
    destruct (0 <? mark s); [injection Hx as <-; cbn [fst]; tauto|].
    destruct ie; [injection Hx as <-; cbn [fst]; tauto|].
    destruct (is_letter c1); [injection Hx as <-; cbn [fst]; tauto|].
    destruct (c1 =? 33); [injection Hx as <-; cbn [fst]; tauto|].
    destruct (c1 =? 63); injection Hx as <-; cbn [fst]; tauto.
  - destruct (eof0 s c0); injection Hx as <-; [cbn [fst]; tauto|exact Hstep].
Qed.

(* from the cursor on, the buffer and the input have the same delimiter occurrences *)
Lemma prefixb_inv d l bs p : html_inv d l -> nz_list bs -> lpos (lz l) <= p <= len d ->
  prefixb bs (skipz p (lbuf (lz l))) = prefixb bs (skipz p d).
Proof.
  intros ((Hw & _) & Hlen & Hsuf & _) Hn Hp. pose proof (lx_wf_len _ Hw) as [Hbl _].
  assert (H0 : 0 <= lpos (lz l)) by (destruct Hw as (_ & ? & _); lia).
  assert (E : skipz p (lbuf (lz l)) = skipz p d ++ [0]).
  { apply peekz_ext. intros i. destruct (Z.lt_ge_cases i 0) as [Hi|Hi]; [rewrite !peekz_neg by lia; reflexivity|].
    rewrite peekz_skipz by lia. rewrite Hsuf by lia.
    assert (Hls : len (skipz p d) = len d - p) by (apply len_skipz; lia).
    destruct (Z.lt_ge_cases (p + i) (len d)) as [Hlt|Hge].
    - rewrite peekz_app_l by lia. rewrite peekz_app_l by lia. rewrite peekz_skipz by lia. reflexivity.
    - rewrite peekz_app_r by lia. rewrite peekz_app_r by lia. f_equal. lia. }
  rewrite E. apply prefixb_app_nz, Hn.
Qed.

Ltac binv H :=
  match type of H with
  | rbind ?e _ = Ok _ => let E := fresh "E" in destruct e eqn:E; cbn [rbind] in H; [|discriminate|discriminate]
  end.

Lemma html_text_no_template_proof : forall c d l v l', cfg_ok c -> tb c <> [] -> html_inv d l ->
  intag l = false -> rawtag l = 0 -> next c l = Ok (TextT, Some v, l') -> ltext l' = Some v ->
  lhas l' = false /\ forall p, so v <= p < so v + sn v -> prefixb (tb c) (skipz p d) = false.
Proof.
  intros c d l v l' Hc Htb Hi Hit Hraw Hn Htx. pose proof Hi as (Hl & Hlen & _). pose proof Hl as [Hw _].
  pose proof (lwf_clean l Hl Hit) as Hcl.
  unfold next in Hn. cbn [lz rawtag intag lerr ltext lattr lhas] in Hn. rewrite Hit, Hraw in Hn. cbn [Z.eqb negb] in Hn.
  unfold next_content in Hn. cbn [lz rawtag intag lerr ltext lattr lhas] in Hn.
  destruct (safe_inv _ _ (text_loop_spec c (lz l) Hc Hw)) as ([z dsp] & El & Ha & Hd). rewrite El in Hn. cbn [rbind fst snd] in *.
  assert (Hwz : lx_wf z) by eauto using adv_wf.
  destruct dsp; cbn [disp_post] in Hd.
  - (* the text token *)
    rewrite shiftv_spec in Hn by exact Hwz. cbn [rbind fst snd] in Hn. injection Hn as <- <-. cbn [lhas]. split; [reflexivity|].
    cbn [so sn]. intros p Hp. destruct (text_loop_run c _ _ _ Htb El) as (_ & _ & Hno). cbn [fst] in Hno.
    pose proof Ha as (A1 & A2 & A3). rewrite Hlen in A3.
    rewrite <- (prefixb_inv d l) by (exact Hi || apply Hc || lia). apply Hno. lia.
  - binv Hn. binv Hn. discriminate.
  - destruct Hd as (Hm & Hp1 & c2 & Hp2). binv Hn. destruct (negb (is_letter a)); binv Hn; discriminate.
  - destruct Hd as (Hm & c1 & Hp1 & Hl1). exfalso.
    assert (z = lz l) by (eapply adv_same; eauto). subst z.
    assert (Hlim : lpos (lz l) + 1 < lx_len (lz l)) by (pose proof (pk_nz_lt _ 1 c1 Hw Hp1 (is_letter_nz _ Hl1)); lia).
    assert (Ha1 : adv (lz l) (mv (lz l) 1)) by (apply adv_mv; lia).
    pose proof (safe_eq _ _ _ (shift_starttag_spec c _ (mv (lz l) 1) Hc ltac:(eauto using adv_wf) ltac:(cbn; lia)) Hn) as Hp.
    cbn [starttag_post] in Hp. destruct Hp as (t & _ & _ & _ & _ & _ & _ & _ & _ & _ & _ & _ & Hcases).
    destruct Hcases as [(? & _)|[([?|[?|?]] & _)|(? & _)]]; discriminate.
  - destruct Hd as (Hm & Hp1). exfalso.
    assert (z = lz l) by (eapply adv_same; eauto). subst z.
    assert (Hlim : lpos (lz l) + 2 <= lx_len (lz l)) by (pose proof (pk_nz_lt _ 1 33 Hw Hp1 ltac:(lia)); lia).
    assert (Ha2 : adv (lz l) (mv (lz l) 2)) by (apply adv_mv; lia).
    binv Hn. destruct a as [[[[ty tk] tx] z'] hm].
    pose proof (safe_eq _ _ _ (read_markup_spec c (mv (lz l) 2) _ Hc ltac:(eauto using adv_wf) ltac:(cbn; lia)) E) as Hp.
    cbn [markup_post fst] in Hp. destruct Hp as (_ & _ & _ & _ & Hlt).
    injection Hn as -> <- <-. cbn [ltext] in Htx. injection Htx as ->. lia.
  - binv Hn. discriminate.
  - discriminate.
Qed.

(* ---- (iv) a region after a tag name or an attribute starts an Attribute token that contains all of it -------------- *)
Lemma ws_loop_func : forall n z fuel k, n = Z.to_nat k -> 0 <= k -> (n < fuel)%nat ->
  (forall i, 0 <= i < k -> exists c, pk z i = Some c /\ is_ws c = true) ->
  (exists c, pk z k = Some c /\ is_ws c = false) ->
  loop fuel ws_body z = Ok (mv z k).
Proof.
  induction n as [|n IH]; intros z fuel k Hn Hk Hf Hws (c & Hc & Hnws); (destruct fuel as [|f]; [lia|]); cbn [loop].
  - assert (k = 0) by lia. subst k. unfold ws_body, pkr. rewrite Hc. cbn [opt_res rbind]. rewrite Hnws. cbn [rbind]. rewrite mv_0. reflexivity.
  - destruct (Hws 0 ltac:(lia)) as (c0 & Hc0 & Hw0). unfold ws_body at 1, pkr. rewrite Hc0. cbn [opt_res rbind]. rewrite Hw0. cbn [rbind].
    rewrite (IH (mv z 1) f (k - 1)); [rewrite mv_mv; replace (1 + (k - 1)) with k by lia; reflexivity|lia|lia|lia| |].
    + intros i Hi. rewrite pk_mv. apply Hws. lia.
    + exists c. rewrite pk_mv. replace (1 + (k - 1)) with k by lia. tauto.
Qed.

Lemma tmpl_rep_from c z0 z b0 : cfg_ok c -> tb c <> [] -> lx_wf z0 -> adv z0 z ->
  forall fuel, (Z.to_nat (lx_len z0 - lpos z) < fuel)%nat ->
  safe (loop fuel (tmpl_rep_body c) (z, b0)) (fun r => adv z (fst r) /\ (b0 = true -> snd r = true)).
Proof.
  intros Hc Hne Hw Ha fuel Hf.
  assert (Hwz : lx_wf z) by eauto using adv_wf.
  apply (safe_cloop fst z (fun s => b0 = true -> snd s = true));
    [|apply adv_refl, Hwz|cbn; tauto|cbn [fst]; rewrite (adv_len _ _ Ha); exact Hf].
  intros [s b] Has Hj. cbn [fst snd] in *. unfold tmpl_rep_body. cbn [fst snd].
  assert (Hws : lx_wf s) by eauto using adv_wf.
  eapply safe_bind; [apply at_spec; [exact Hws|apply Hc]|]. cbn beta. intros a Hat.
  destruct a; [|cbn [safe fst snd]; split; [exact Has|exact Hj]].
  specialize (Hat eq_refl).
  eapply safe_bind; [apply tmpl_skip_spec; assumption|]. cbn beta. intros z' (Hz1 & Hz2).
  cbn [safe fst snd].
  assert (0 < len (tb c)).
  { destruct (tb c) as [|x t]; [congruence|]. rewrite len_cons. pose proof (len_nonneg t). lia. }
  split; [eapply adv_trans; eauto|]. split; [lia|tauto].
Qed.

(* the region at the cursor: its end *)
Definition region_end_here (c : cfg) (z : lx) : Z :=
  lpos z + len (tb c) + region_len (length (rem z)) (te c) (skipz (len (tb c)) (rem z)).

Lemma tmpl_skip_here c z : cfg_ok c -> lx_wf z -> prefixb (tb c) (rem z) = true ->
  tmpl_skip c z = Ok (mkLx (lbuf z) (region_end_here c z) (lstart z)) /\ region_end_here c z <= lx_len z.
Proof.
  intros Hc Hw Hpre. pose proof (prefixb_len _ _ Hpre) as Hl.
  destruct (rem_mv z (len (tb c)) Hw) as [Hr1 Hw1]; [pose proof (len_nonneg (tb c)); lia|].
  unfold tmpl_skip. rewrite (move_template_region c _ Hc Hw1). rewrite Hr1.
  rewrite (region_len_fuel (te c) _ (length (rem z))) by (try lia; apply length_skipz_le').
  pose proof (region_len_bound (te c) (length (rem z)) (skipz (len (tb c)) (rem z))) as Hb.
  assert (len (skipz (len (tb c)) (rem z)) = len (rem z) - len (tb c)) by (apply len_skipz; pose proof (len_nonneg (tb c)); lia).
  rewrite len_rem in * by exact Hw.
  split; [|unfold region_end_here; lia].
  unfold mv, region_end_here. cbn [lbuf lpos lstart]. reflexivity.
Qed.

Lemma tmpl_rep_first c z : cfg_ok c -> tb c <> [] -> lx_wf z -> prefixb (tb c) (rem z) = true ->
  exists r, tmpl_rep c z = Ok r /\ lbuf (fst r) = lbuf z /\ lstart (fst r) = lstart z /\
            region_end_here c z <= lpos (fst r) <= lx_len z /\ snd r = true.
Proof.
  intros Hc Hne Hw Hpre. destruct (tmpl_skip_here c z Hc Hw Hpre) as [Hsk Hle].
  unfold tmpl_rep, fuel_of. cbn [loop]. unfold tmpl_rep_body at 1. cbn [fst snd].
  rewrite at_rem by (apply Hc || exact Hw). rewrite Hpre. cbn [rbind]. rewrite Hsk. cbn [rbind].
  set (z' := mkLx (lbuf z) (region_end_here c z) (lstart z)).
  assert (0 < len (tb c)).
  { destruct (tb c) as [|x t]; [congruence|]. rewrite len_cons. pose proof (len_nonneg t). lia. }
  assert (Hge : lpos z + len (tb c) <= region_end_here c z).
  { unfold region_end_here. pose proof (region_len_bound (te c) (length (rem z)) (skipz (len (tb c)) (rem z))). lia. }
  assert (Ha : adv z z') by (unfold adv, z'; cbn [lbuf lstart lpos]; split; [reflexivity|split; [reflexivity|lia]]).
  destruct (safe_inv _ _ (tmpl_rep_from c z z' true Hc Hne Hw Ha (Z.to_nat (len (lbuf z) - lpos z)) ltac:(unfold lx_len in *; unfold z'; cbn [lpos]; lia)))
    as (r & Er & Har & Hb).
  exists r. split; [exact Er|]. destruct Har as (A1 & A2 & A3). unfold z' in *. cbn [lbuf lstart lpos] in *.
  unfold lx_len in *. cbn [lbuf] in A3. split; [exact A1|]. split; [exact A2|]. split; [lia|]. apply Hb. reflexivity.
Qed.

Definition tb_plain (c : cfg) : Prop :=
  exists x t, tb c = x :: t /\ is_ws x = false /\ x <> 62 /\ x <> 47.

Lemma prefixb_head x t s : prefixb (x :: t) s = true -> exists s', s = x :: s'.
Proof. destruct s as [|y s']; cbn [prefixb]; [discriminate|]. intros H. apply andb_true_iff in H. destruct H as [H _]. apply Z.eqb_eq in H. subst. eauto. Qed.

Lemma html_template_attr_proof : forall c d l p q, cfg_ok c -> tb_plain c -> html_inv d l -> intag l = true ->
  lstart (lz l) = lpos (lz l) -> lpos (lz l) <= p ->
  (forall i, lpos (lz l) <= i < p -> is_ws (getz d i) = true) -> is_region c d p q ->
  exists v l', next c l = Ok (AttributeT, Some v, l') /\ lhas l' = true /\ so v = lpos (lz l) /\ q <= so v + sn v.
Proof.
  intros c d l p q Hc (x & t & Etb & Hxws & Hx62 & Hx47) Hi Hit Hcl Hp Hws (Hp0 & Htb & Hpre & ->).
  pose proof Hi as (Hl & Hlen & Hsuf & _). pose proof Hl as [Hw _].
  pose proof (lx_wf_len _ Hw) as [Hbl _].
  assert (H0lp : 0 <= lpos (lz l)) by (destruct Hw as (_ & ? & _); lia).
  pose proof (prefixb_len _ _ Hpre) as Hpl.
  assert (Hpd : p + len (tb c) <= len d).
  { assert (len (skipz p d) <= len d - p \/ len d < p) as [?|?]; [destruct (Z.le_gt_cases p (len d)); [left; rewrite len_skipz by lia; lia|right; lia]|lia|].
    exfalso. rewrite Etb in Hpre. apply prefixb_head in Hpre. destruct Hpre as [s' Es].
    assert (len (skipz p d) = 0); [|rewrite Es, len_cons in *; pose proof (len_nonneg s'); lia].
    unfold skipz, len. rewrite skipn_all2 by (unfold len in *; lia). reflexivity. }
  assert (Hlt : 0 < len (tb c)) by (rewrite Etb, len_cons; pose proof (len_nonneg t); lia).
  (* the byte at p is the first delimiter byte *)
  assert (Hpx : peekz d p = Some x).
  { rewrite Etb in Hpre. apply prefixb_head in Hpre. destruct Hpre as [s' Es].
    rewrite <- (Z.add_0_r p), <- peekz_skipz by lia. rewrite Es. apply peekz_cons_0. }
  (* whitespace loop *)
  assert (Hz1 : ws_loop (lz l) = Ok (mv (lz l) (p - lpos (lz l)))).
  { unfold ws_loop. apply (ws_loop_func (Z.to_nat (p - lpos (lz l)))); [reflexivity|lia|unfold fuel_of; lia| |].
    - intros i Hr. exists (getz d (lpos (lz l) + i)). split; [|apply Hws; lia].
      unfold pk. rewrite Hsuf by lia. rewrite peekz_app_l by lia. unfold getz.
      destruct (peekz_in_range d (lpos (lz l) + i) ltac:(lia)) as [cc ->]. reflexivity.
    - exists x. split; [|exact Hxws]. unfold pk. replace (lpos (lz l) + (p - lpos (lz l))) with p by lia.
      rewrite Hsuf by lia. rewrite peekz_app_l by lia. exact Hpx. }
  set (z1 := mv (lz l) (p - lpos (lz l))) in *.
  assert (Ha1 : adv (lz l) z1) by (apply adv_mv; lia).
  assert (Hw1 : lx_wf z1) by eauto using adv_wf.
  assert (Hp1 : pk z1 0 = Some x).
  { unfold z1. rewrite pk_mv. unfold pk. replace (lpos (lz l) + (p - lpos (lz l) + 0)) with p by lia.
    rewrite Hsuf by lia. rewrite peekz_app_l by lia. exact Hpx. }
  assert (Hrem1 : rem z1 = skipz p d).
  { destruct (rem_mv (lz l) (p - lpos (lz l)) Hw) as [Hr _]; [rewrite len_rem by exact Hw; lia|].
    unfold z1. rewrite Hr, (rem_inv d l Hi). rewrite skipz_skipz by lia. f_equal. lia. }
  unfold next. cbn [lz rawtag intag lerr ltext lattr lhas]. rewrite Hit.
  unfold next_intag. cbn [lz rawtag intag lerr ltext lattr lhas]. rewrite Hz1. cbn [rbind].
  unfold pkr at 1. rewrite Hp1. cbn [opt_res rbind].
  assert (Hne0 : eof0 z1 x = false).
  { unfold eof0. replace (x =? 0) with false; [reflexivity|]. symmetry. apply Z.eqb_neq. intros ->. cbn in Hxws.
    destruct Hc as [Hn _]. rewrite Etb in Hn. inversion Hn. congruence. }
  rewrite Hne0.
  replace (x =? 62) with false by (symmetry; apply Z.eqb_neq; exact Hx62).
  replace (x =? 47) with false by (symmetry; apply Z.eqb_neq; exact Hx47). cbn [rbind].
  (* the attribute *)
  assert (Hfirst : attr_first z1).
  { exists x. split; [exact Hp1|]. split; [exact Hxws|]. split; [exact Hne0|]. split; [exact Hx62|]. intros [? _]. congruence. }
  destruct (safe_inv _ _ (shift_attribute_spec c (mkL (lz l) (rawtag l) true (lerr l) None None false) z1 Hc Hw1 Hfirst))
    as ([v l'] & Ea & (r0 & Er0 & Hr0a & Hr0b) & (tx & _ & _ & _ & _ & T5 & T6 & _)).
  rewrite Ea. cbn [rbind fst snd]. exists v, l'. split; [reflexivity|].
  (* the first thing shift_attribute does is to skip the region *)
  cbn [lhas] in Er0. unfold tmpl_rep_guarded in Er0.
  replace (has_delims c) with true in Er0 by (unfold has_delims; rewrite Etb; reflexivity).
  destruct (tmpl_rep_first c z1 Hc Htb Hw1 ltac:(rewrite Hrem1; exact Hpre)) as (r & Er & _ & _ & Hrpos & Hrb).
  rewrite Er in Er0. cbn [rbind] in Er0. injection Er0 as <-. cbn [fst snd] in *.
  split; [apply Hr0b; rewrite Hrb; reflexivity|].
  unfold z1 in T5 at 1. cbn [mv lstart] in T5. rewrite Hcl in T5. split; [exact T5|].
  rewrite T6. unfold region_end_here in Hrpos. rewrite Hrem1 in Hrpos. unfold z1 in Hrpos at 1. cbn [mv lpos] in Hrpos.
  rewrite (region_len_fuel (te c) (length (skipz p d)) (length d)) in Hrpos.
  2: apply length_skipz_le'.
  2: { eapply Nat.le_trans; [apply length_skipz_le'|apply length_skipz_le']. }
  rewrite skipz_skipz in Hrpos by lia.
  lia.
Qed.

(* ---- (v) a region at the start of raw text (delimiter not starting with '<') lies inside the Text token ------------ *)
Lemma script_comment_loop_has c fuel s r : loop fuel (script_comment_loop_body c) s = Ok r -> snd s = true -> snd r = true.
Proof.
  intros H Hs. unfold script_comment_loop_body in H.
  refine (with_tmpl_inv c _ _ (fun sh : lx * bool * bool => snd sh = true) (fun r : (lx + lx) * bool => snd r = true)
            script_comment_body _ _ fuel s r Hs H).
  - intros; reflexivity.
  - intros s0 h x Hh _. cbn [snd] in Hh. destruct x; exact Hh.
Qed.

Lemma rawtext_loop_has c raw fuel s r : loop fuel (rawtext_body c raw) s = Ok r -> snd s = true -> snd r = true.
Proof.
  intros H Hs.
  refine (loop_inv (fun x => snd x = true) (fun x => snd x = true) (rawtext_body c raw) _ _ s r Hs H).
  clear. intros [z has] x Hh Hx. cbn [snd] in Hh. subst has. unfold rawtext_body in Hx.
  destruct (pkr z 0) as [c0| |]; cbn [rbind] in Hx; try discriminate.
  destruct (skip_tmpl c z) as [[zt|]| |]; cbn [rbind] in Hx; try discriminate; [injection Hx as <-; reflexivity|].
  destruct (c0 =? 60).
  - destruct (pkr z 1) as [c1| |]; cbn [rbind] in Hx; try discriminate.
    destruct (c1 =? 47).
    + destruct (letters_loop (mv z 2)) as [z2| |]; cbn [rbind] in Hx; try discriminate.
      destruct (hash_lexeme_from z2 (mark z + 2)) as [h| |]; cbn [rbind] in Hx; try discriminate.
      destruct (h =? raw); [|injection Hx as <-; reflexivity].
      destruct (pkr z2 0) as [cz| |]; cbn [rbind] in Hx; try discriminate.
      destruct (is_tagend cz || eof0 z2 cz); injection Hx as <-; reflexivity.
    + destruct (if (raw =? html_hash_Script) && (c1 =? 33)
                then c2 <-- pkr z 2;; (if c2 =? 45 then c3 <-- pkr z 3;; Ok (c3 =? 45) else Ok false)
                else Ok false) as [sc| |]; cbn [rbind] in Hx; try discriminate.
      destruct sc; [|injection Hx as <-; reflexivity].
      destruct (loop (fuel_of z) (script_comment_loop_body c) (mv z 4, false, true)) as [[r2 h2]| |] eqn:E2; cbn [rbind] in Hx; try discriminate.
      pose proof (script_comment_loop_has _ _ _ _ E2 eq_refl) as Hh2. cbn [snd] in Hh2. subst h2.
      destruct r2; injection Hx as <-; reflexivity.
  - destruct (eof0 z c0); injection Hx as <-; reflexivity.
Qed.

Lemma html_template_rawtext_proof : forall c d l p q, cfg_ok c -> html_inv d l -> intag l = false ->
  rawtag l <> 0 -> rawtag l <> html_hash_Plaintext -> (exists x t, tb c = x :: t /\ x <> 60) ->
  p = lpos (lz l) -> is_region c d p q ->
  exists v l', next c l = Ok (TextT, Some v, l') /\ lhas l' = true /\ so v = p /\ q <= so v + sn v.
Proof.
  intros c d l p q Hc Hi Hit Hraw Hnpl (x & t & Etb & Hx60) -> (Hp0 & Htb & Hpre & ->).
  pose proof Hi as (Hl & Hlen & Hsuf & _). pose proof Hl as [Hw _].
  pose proof (lwf_clean l Hl Hit) as Hcl. pose proof (rem_inv d l Hi) as Hrem.
  assert (Hlt : 0 < len (tb c)) by (rewrite Etb, len_cons; pose proof (len_nonneg t); lia).
  unfold next. cbn [lz rawtag intag lerr ltext lattr lhas]. rewrite Hit.
  replace (negb (rawtag l =? 0)) with true by (symmetry; apply negb_true_iff, Z.eqb_neq; exact Hraw).
  unfold shift_rawtext. replace (rawtag l =? html_hash_Plaintext) with false by (symmetry; apply Z.eqb_neq; exact Hnpl).
  (* first iteration: the region is skipped *)
  assert (Hpre' : prefixb (tb c) (rem (lz l)) = true) by (rewrite Hrem; exact Hpre).
  destruct (tmpl_skip_here c (lz l) Hc Hw Hpre') as [Hsk Hle].
  set (z' := mkLx (lbuf (lz l)) (region_end_here c (lz l)) (lstart (lz l))) in *.
  assert (Hge : lpos (lz l) + len (tb c) <= region_end_here c (lz l)).
  { unfold region_end_here. pose proof (region_len_bound (te c) (length (rem (lz l))) (skipz (len (tb c)) (rem (lz l)))). lia. }
  assert (Ha : adv (lz l) z') by (unfold adv, z'; cbn [lbuf lstart lpos]; split; [reflexivity|split; [reflexivity|lia]]).
  assert (Hw' : lx_wf z') by eauto using adv_wf.
  assert (Hp1 : pk (lz l) 0 = Some x).
  { rewrite Etb in Hpre'. apply prefixb_head in Hpre'. destruct Hpre' as [s' Es]. apply (rem_cons _ _ _ Hw Es). }
  destruct (safe_inv _ _ (rawtext_loop_spec c (rawtag l) z' true Hc Hw')) as (r & Er & Har).
  assert (Hloop : loop (fuel_of (lz l)) (rawtext_body c (rawtag l)) (lz l, false) = Ok r).
  { unfold fuel_of at 1. cbn [loop]. unfold rawtext_body at 1. unfold pkr at 1. rewrite Hp1. cbn [opt_res rbind].
    unfold skip_tmpl, tmpl_at. replace (has_delims c) with true by (unfold has_delims; rewrite Etb; reflexivity).
    rewrite at_rem by (apply Hc || exact Hw). rewrite Hpre'. cbn [rbind]. rewrite Hsk. cbn [rbind].
    eapply loop_fuel_mono; [exact Er|]. unfold fuel_of, z'. unfold lx_len in Hle. cbn [lbuf lpos]. lia. }
  rewrite Hloop. cbn [rbind].
  pose proof (rawtext_loop_has _ _ _ _ _ Er eq_refl) as Hhas.
  assert (Har2 : adv (lz l) (fst r)) by eauto using adv_trans.
  rewrite shiftv_spec by eauto using adv_wf. cbn [rbind fst snd sn].
  pose proof Har as (A1 & A2 & A3). unfold z' in A1, A2, A3. cbn [lbuf lstart lpos] in A1, A2, A3.
  replace (0 <? lpos (fst r) - lstart (fst r)) with true by (symmetry; apply Z.ltb_lt; lia).
  eexists. eexists. split; [reflexivity|]. cbn [lhas so sn]. split; [exact Hhas|]. split; [lia|].
  unfold region_end_here in A3. rewrite Hrem in A3. 
  rewrite (region_len_fuel (te c) (length (skipz (lpos (lz l)) d)) (length d)) in A3.
  2: apply length_skipz_le'.
  2: { eapply Nat.le_trans; [apply length_skipz_le'|apply length_skipz_le']. }
  rewrite skipz_skipz in A3 by lia. lia.
Qed.

(* non-vacuity: {{x}}b in text; <a{{x}}> after a tag name *)
Example html_template_token_nonvacuous :
  is_region go_tmpl [123;123;120;125;125;98] 0 5 /\
  exists l', next go_tmpl (new_lexer [123;123;120;125;125;98]) = Ok (TemplateT, Some (mkSl 0 5), l') /\ lhas l' = true.
Proof.
  split; [split; [lia|split; [discriminate|split; vm_compute; reflexivity]]|].
  eexists. split; vm_compute; reflexivity.
Qed.

Example html_template_attr_nonvacuous :
  is_region go_tmpl [60;97;123;123;120;125;125;62] 2 7 /\ tb_plain go_tmpl /\
  exists tr, run go_tmpl 2 (new_lexer [60;97;123;123;120;125;125;62]) = Ok tr /\
    map (fun r => (fst (fst r), snd (fst r), lhas (snd r))) tr = [(StartTagT, Some (mkSl 0 2), false); (AttributeT, Some (mkSl 2 5), true)].
Proof.
  split; [split; [lia|split; [discriminate|split; vm_compute; reflexivity]]|].
  split; [exists 123, [123]; repeat split; discriminate || lia|].
  eexists. split; vm_compute; reflexivity.
Qed.
