(* Html/Template.v — template regions where the lexer looks for them. *)
From Verif Require Import Common.Base Common.Tactics Common.Lx Gen.Tables Html.Model Html.Lemmas Html.ListLemmas
     Html.Hash Html.Safety Html.Step Html.Spec Html.RawText Html.Func Html.Proofs.
From Coq Require Import ZifyBool.

(* what is left of the buffer is what is left of the input *)
Lemma rem_inv d l : html_inv d l -> rem (lz l) = skipz (lpos (lz l)) d.
Proof.
  intros ((Hw & _) & Hlen & Hsuf & _). pose proof (lx_wf_len _ Hw) as [Hbl _].
  assert (H0 : 0 <= lpos (lz l) <= lx_len (lz l)) by (destruct Hw as (_ & ? & ?); lia).
  unfold rem. apply peekz_ext. intros i.
  destruct (Z.lt_ge_cases i 0) as [Hn|Hn]; [rewrite !peekz_neg by lia; reflexivity|].
  rewrite peekz_skipz by lia.
  destruct (Z.lt_ge_cases i (lx_len (lz l) - lpos (lz l))) as [Hlt|Hge].
  - rewrite peekz_slice by lia. rewrite Hsuf by lia. apply peekz_app_l. lia.
  - assert (N1 : peekz (slice (lbuf (lz l)) (lpos (lz l)) (lx_len (lz l))) i = None)
      by (apply peekz_none_iff; rewrite len_slice by lia; lia).
    assert (N2 : peekz d (lpos (lz l) + i) = None) by (apply peekz_none_iff; lia).
    congruence.
Qed.

Lemma skipz_skipz {A} a b (l : list A) : 0 <= a -> 0 <= b -> skipz b (skipz a l) = skipz (a + b) l.
Proof.
  intros Ha Hb. unfold skipz. replace (Z.to_nat (a + b)) with (Z.to_nat a + Z.to_nat b)%nat by lia.
  generalize (Z.to_nat a) as n. generalize (Z.to_nat b) as m. intros m n. revert l.
  induction n as [|n IH]; intros l; [reflexivity|]. destruct l as [|x l]; [destruct m; reflexivity|]. cbn [skipn Nat.add]. apply IH.
Qed.

Lemma length_skipz_le' {A} n (l : list A) : (length (skipz n l) <= length l)%nat.
Proof. unfold skipz. rewrite skipn_length. lia. Qed.

(* ---- (i) a region that starts in text is exactly one Template token ---------------------------------------------- *)
Lemma html_template_token_proof : forall c d l p q, cfg_ok c -> html_inv d l -> intag l = false -> rawtag l = 0 ->
  p = lpos (lz l) -> is_region c d p q ->
  exists l', next c l = Ok (TemplateT, Some (mkSl p (q - p)), l') /\ lhas l' = true /\ lpos (lz l') = q.
Proof.
  intros c d l p q Hc Hi Hit Hraw -> (Hp0 & Htb & Hpre & ->).
  pose proof Hi as (Hl & Hlen & _). pose proof Hl as [Hw _]. pose proof (lwf_clean l Hl Hit) as Hcl.
  pose proof (rem_inv d l Hi) as Hrem. destruct Hc as [Hntb Hnte].
  unfold next. cbn [lz rawtag intag lerr ltext lattr lhas]. rewrite Hit, Hraw. cbn [Z.eqb negb].
  unfold next_content. cbn [lz rawtag intag lerr ltext lattr lhas].
  (* the text loop stops at once *)
  assert (Hloop : loop (fuel_of (lz l)) (text_body c) (lz l) = Ok (lz l, DTmpl)).
  { unfold fuel_of. cbn [loop]. unfold text_body at 1.
    destruct (pkr0 _ Hw) as (c0 & Hc0 & _). rewrite Hc0. cbn [rbind].
    unfold tmpl_at. replace (has_delims c) with true by (unfold has_delims; destruct (tb c); congruence).
    rewrite at_rem by assumption. rewrite Hrem, Hpre. cbn [rbind].
    unfold mark. replace (0 <? lpos (lz l) - lstart (lz l)) with false by (symmetry; apply Z.ltb_ge; lia). reflexivity. }
  rewrite Hloop. cbn [rbind].
  (* the region is skipped as a whole *)
  pose proof (prefixb_len _ _ Hpre) as Hlen_tb. rewrite <- Hrem in Hlen_tb.
  destruct (rem_mv (lz l) (len (tb c)) Hw) as [Hr1 Hw1]; [pose proof (len_nonneg (tb c)); lia|].
  unfold tmpl_skip. rewrite (move_template_region c _ (conj Hntb Hnte) Hw1). cbn [rbind].
  rewrite Hr1, Hrem. rewrite skipz_skipz by (lia || apply len_nonneg).
  set (s2 := skipz (lpos (lz l) + len (tb c)) d).
  rewrite (region_len_fuel (te c) (length s2) (length d) s2) by (try lia; apply length_skipz_le').
  set (n := region_len (length d) (te c) s2).
  assert (Hn : 0 <= n <= len s2) by apply region_len_bound.
  assert (Hs2 : len s2 = len (rem (lz l)) - len (tb c)).
  { unfold s2. rewrite Hrem. rewrite <- skipz_skipz by (lia || apply len_nonneg).
    apply len_skipz. rewrite <- Hrem. pose proof (len_nonneg (tb c)). lia. }
  destruct (rem_mv (mv (lz l) (len (tb c))) n Hw1) as [_ Hw2]; [rewrite Hr1, Hrem; fold s2; rewrite skipz_skipz by (lia || apply len_nonneg); fold s2; lia|].
  rewrite shiftv_spec by exact Hw2. cbn [rbind fst snd].
  eexists. split.
  - unfold mv, skip. cbn [lbuf lstart lpos so sn]. rewrite Hcl. reflexivity.
  - split; [reflexivity|]. cbn [lz skip mv lpos]. lia.
Qed.

(* ---- (ii) ordinary text tokens contain no region and report none --------------------------------------------------- *)
Lemma skipz_peek_cons (l : list Z) i x : peekz l i = Some x -> skipz i l = x :: skipz (i + 1) l.
Proof.
  intros H. pose proof (peekz_some _ _ _ H) as Hr. apply peekz_ext. intros k.
  destruct (Z.lt_ge_cases k 0) as [Hk|Hk]; [rewrite !peekz_neg by lia; reflexivity|].
  destruct (Z.eq_dec k 0) as [->|Hk0].
  - rewrite peekz_skipz, peekz_cons_0 by lia. rewrite Z.add_0_r. exact H.
  - replace k with (k - 1 + 1) at 2 by lia. rewrite peekz_cons_succ by lia. rewrite !peekz_skipz by lia. f_equal. lia.
Qed.

(* l.at(b...) without any well-formedness assumption: if it returns, it says whether b is a prefix of the buffer there *)
Lemma at_from_buf z bs : forall i b, at_from z i bs = Ok b -> bs <> [] -> b = prefixb bs (skipz (lpos z + i) (lbuf z)).
Proof.
  induction bs as [|c t IH]; intros i b H Hne; [congruence|]. cbn [at_from] in H.
  unfold pkr in H. destruct (pk z i) as [x|] eqn:Hp; cbn [opt_res rbind] in H; [|discriminate].
  unfold pk in Hp. rewrite (skipz_peek_cons _ _ _ Hp). cbn [prefixb].
  destruct (x =? c) eqn:E.
  - apply Z.eqb_eq in E. subst x. rewrite Z.eqb_refl. cbn [andb].
    destruct t as [|c2 t2]; [cbn [at_from] in H; cbn [prefixb]; congruence|].
    replace (lpos z + i + 1) with (lpos z + (i + 1)) by lia. apply IH; [exact H|discriminate].
  - rewrite Z.eqb_sym in E. rewrite E. cbn [andb]. congruence.
Qed.

Lemma text_loop_run c z fuel r : tb c <> [] -> loop fuel (text_body c) z = Ok r ->
  same z (fst r) /\ lpos z <= lpos (fst r) /\
  forall p, lpos z <= p < lpos (fst r) -> prefixb (tb c) (skipz p (lbuf z)) = false.
Proof.
  intros Htb H.
  refine (loop_inv (fun s => same z s /\ lpos z <= lpos s /\ forall p, lpos z <= p < lpos s -> prefixb (tb c) (skipz p (lbuf z)) = false)
                   (fun r => same z (fst r) /\ lpos z <= lpos (fst r) /\
                             forall p, lpos z <= p < lpos (fst r) -> prefixb (tb c) (skipz p (lbuf z)) = false)
                   (text_body c) _ _ z r _ H); [|split; [apply same_refl|split; [lia|intros; lia]]].
  clear H r. intros s x (Hs & Hle & Hno) Hx. unfold text_body in Hx.
  destruct (pkr s 0) as [c0| |]; cbn [rbind] in Hx; try discriminate.
  destruct (tmpl_at c s) as [t| |] eqn:Et; cbn [rbind] in Hx; try discriminate.
  destruct t; [injection Hx as <-; cbn [fst]; tauto|].
  (* no delimiter at this position *)
  assert (Hhere : prefixb (tb c) (skipz (lpos s) (lbuf z)) = false).
  { unfold tmpl_at in Et. replace (has_delims c) with true in Et by (unfold has_delims; destruct (tb c); congruence).
    apply at_from_buf in Et; [|exact Htb]. destruct Hs as [Hb _]. rewrite Hb, Z.add_0_r in Et. congruence. }
  assert (Hstep : same z (mv s 1) /\ lpos z <= lpos (mv s 1) /\
                  forall p, lpos z <= p < lpos (mv s 1) -> prefixb (tb c) (skipz p (lbuf z)) = false).
  { split; [eapply same_trans; [exact Hs|apply same_mv]|]. cbn [mv lpos]. split; [lia|].
    intros p Hp. destruct (Z.eq_dec p (lpos s)) as [->|Hne]; [exact Hhere|apply Hno; lia]. }
  destruct (c0 =? 60).
  - destruct (pkr s 1) as [c1| |]; cbn [rbind] in Hx; try discriminate.
    destruct (if c1 =? 47 then c2 <-- pkr s 2;; Ok (negb (c2 =? 62) && (negb (c2 =? 0) || negb (at_end_i s 2))) else Ok false)
      as [ie| |]; cbn [rbind] in Hx; try discriminate.
    destruct (negb ie && negb (is_letter c1) && negb (c1 =? 33) && negb (c1 =? 63)); [injection Hx as <-; exact Hstep|].
    destruct (0 <? mark s); [injection Hx as <-; cbn [fst]; tauto|].
    destruct ie; [injection Hx as <-; cbn [fst]; tauto|].
    destruct (is_letter c1); [injection Hx as <-; cbn [fst]; tauto|].
    destruct (c1 =? 33); [injection Hx as <-; cbn [fst]; tauto|].
    destruct (c1 =? 63); injection Hx as <-; cbn [fst]; tauto.
  - destruct (eof0 s c0); injection Hx as <-; [cbn [fst]; tauto|exact Hstep].
Qed.

(* from the cursor on, the buffer and the input have the same delimiter occurrences *)
Lemma prefixb_inv d l bs p : html_inv d l -> nz_list bs -> lpos (lz l) <= p <= len d ->
  prefixb bs (skipz p (lbuf (lz l))) = prefixb bs (skipz p d).
Proof.
  intros ((Hw & _) & Hlen & Hsuf & _) Hn Hp. pose proof (lx_wf_len _ Hw) as [Hbl _].
  assert (H0 : 0 <= lpos (lz l)) by (destruct Hw as (_ & ? & _); lia).
  assert (E : skipz p (lbuf (lz l)) = skipz p d ++ [0]).
  { apply peekz_ext. intros i. destruct (Z.lt_ge_cases i 0) as [Hi|Hi]; [rewrite !peekz_neg by lia; reflexivity|].
    rewrite peekz_skipz by lia. rewrite Hsuf by lia.
    assert (Hls : len (skipz p d) = len d - p) by (apply len_skipz; lia).
    destruct (Z.lt_ge_cases (p + i) (len d)) as [Hlt|Hge].
    - rewrite peekz_app_l by lia. rewrite peekz_app_l by lia. rewrite peekz_skipz by lia. reflexivity.
    - rewrite peekz_app_r by lia. rewrite peekz_app_r by lia. f_equal. lia. }
  rewrite E. apply prefixb_app_nz, Hn.
Qed.

Ltac binv H :=
  match type of H with
  | rbind ?e _ = Ok _ => let E := fresh "E" in destruct e eqn:E; cbn [rbind] in H; [|discriminate|discriminate]
  end.

Lemma html_text_no_template_proof : forall c d l v l', cfg_ok c -> tb c <> [] -> html_inv d l ->
  intag l = false -> rawtag l = 0 -> next c l = Ok (TextT, Some v, l') -> ltext l' = Some v ->
  lhas l' = false /\ forall p, so v <= p < so v + sn v -> prefixb (tb c) (skipz p d) = false.
Proof.
  intros c d l v l' Hc Htb Hi Hit Hraw Hn Htx. pose proof Hi as (Hl & Hlen & _). pose proof Hl as [Hw _].
  pose proof (lwf_clean l Hl Hit) as Hcl.
  unfold next in Hn. cbn [lz rawtag intag lerr ltext lattr lhas] in Hn. rewrite Hit, Hraw in Hn. cbn [Z.eqb negb] in Hn.
  unfold next_content in Hn. cbn [lz rawtag intag lerr ltext lattr lhas] in Hn.
  destruct (safe_inv _ _ (text_loop_spec c (lz l) Hc Hw)) as ([z dsp] & El & Ha & Hd). rewrite El in Hn. cbn [rbind fst snd] in *.
  assert (Hwz : lx_wf z) by eauto using adv_wf.
  destruct dsp; cbn [disp_post] in Hd.
  - (* the text token *)
    rewrite shiftv_spec in Hn by exact Hwz. cbn [rbind fst snd] in Hn. injection Hn as <- <-. cbn [lhas]. split; [reflexivity|].
    cbn [so sn]. intros p Hp. destruct (text_loop_run c _ _ _ Htb El) as (_ & _ & Hno). cbn [fst] in Hno.
    pose proof Ha as (A1 & A2 & A3). rewrite Hlen in A3.
    rewrite <- (prefixb_inv d l) by (exact Hi || apply Hc || lia). apply Hno. lia.
  - binv Hn. binv Hn. discriminate.
  - destruct Hd as (Hm & Hp1 & c2 & Hp2). binv Hn. destruct (negb (is_letter a)); binv Hn; discriminate.
  - destruct Hd as (Hm & c1 & Hp1 & Hl1). exfalso.
    assert (z = lz l) by (eapply adv_same; eauto). subst z.
    assert (Hlim : lpos (lz l) + 1 < lx_len (lz l)) by (pose proof (pk_nz_lt _ 1 c1 Hw Hp1 (is_letter_nz _ Hl1)); lia).
    assert (Ha1 : adv (lz l) (mv (lz l) 1)) by (apply adv_mv; lia).
    pose proof (safe_eq _ _ _ (shift_starttag_spec c _ (mv (lz l) 1) Hc ltac:(eauto using adv_wf) ltac:(cbn; lia)) Hn) as Hp.
    cbn [starttag_post] in Hp. destruct Hp as (t & _ & _ & _ & _ & _ & _ & _ & _ & _ & _ & _ & Hcases).
    destruct Hcases as [(? & _)|[([?|[?|?]] & _)|(? & _)]]; discriminate.
  - destruct Hd as (Hm & Hp1). exfalso.
    assert (z = lz l) by (eapply adv_same; eauto). subst z.
    assert (Hlim : lpos (lz l) + 2 <= lx_len (lz l)) by (pose proof (pk_nz_lt _ 1 33 Hw Hp1 ltac:(lia)); lia).
    assert (Ha2 : adv (lz l) (mv (lz l) 2)) by (apply adv_mv; lia).
    binv Hn. destruct a as [[[ty tk] tx] z'].
    pose proof (safe_eq _ _ _ (read_markup_spec (mv (lz l) 2) ltac:(eauto using adv_wf) ltac:(cbn; lia)) E) as Hp.
    cbn [markup_post] in Hp. destruct Hp as (_ & _ & _ & _ & Hlt).
    injection Hn as -> <- <-. cbn [ltext] in Htx. injection Htx as ->. lia.
  - binv Hn. discriminate.
  - discriminate.
Qed.
