(* Html/Step.v — the specification of one call of Next on a well-formed lexer state. *)
From Verif Require Import Common.Base Common.Tactics Common.Lx Gen.Tables Html.Model Html.Lemmas Html.ListLemmas Html.Hash Html.Safety.
From Coq Require Import ZifyBool.

(* between calls the selection is empty, except in the sticky end-of-input state inside a tag *)
Definition lwf (l : lexer) : Prop :=
  lx_wf (lz l) /\ (lstart (lz l) = lpos (lz l) \/ (intag l = true /\ lpos (lz l) = lx_len (lz l))).

Lemma lwf_intro z rt it er tx av has :
  lx_wf z -> (lstart z = lpos z \/ (it = true /\ lpos z = lx_len z)) -> lwf (mkL z rt it er tx av has).
Proof. intros H1 H2. split; assumption. Qed.

(* which bytes a call lower-cases (view w), by token type — exactly what the code does *)
(* Text() of an end tag v: starts after "</", ends before the '>' (if any) minus trailing whitespace *)
Definition endtag_text (buf : list Z) (v : sl) (o : option sl) : Prop :=
  exists t k, o = Some t /\ so t = so v + 2 /\ 0 <= k /\ so v + 2 + k <= so v + sn v <= so v + 2 + k + 1 /\
              sn t = trim_end_len (view_bytes buf (mkSl (so v + 2) k)) /\
              (so v + sn v = so v + 2 + k + 1 -> peekz buf (so v + 2 + k) = Some 62).

(* which bytes a call lower-cases (view w), by token type — exactly what the code does; buf is the buffer before the call *)
Definition low_rule (buf : list Z) (ty : Z) (tk : option sl) (w : sl) (l' : lexer) : Prop :=
  if (ty =? StartTagT) || (ty =? SvgT) || (ty =? MathT) || (ty =? XmlT) then ltext l' = Some w
  else if ty =? EndTagT then
    match tk with Some v => (exists tb, w = endtag_name_view tb buf v) /\ endtag_text buf v (ltext l') | None => False end
  else if ty =? AttributeT then (ltext l' = Some w \/ (sn w = 0 /\ lhas l' = true))
  else if ty =? ErrorT then (sn w = 0 \/ (ltext l' = Some w /\ lerr l' = true))
  else sn w = 0.

Definition opt_within (o : option sl) (a b : Z) : Prop :=
  match o with Some t => a <= so t /\ 0 <= sn t /\ so t + sn t <= b | None => True end.

(* Text() lies in the bytes consumed by the call; AttrVal() is only set by attribute tokens *)
Definition views_ok (l : lexer) (ty : Z) (l' : lexer) : Prop :=
  opt_within (ltext l') (lpos (lz l)) (lpos (lz l')) /\ (lattr l' = None \/ lattr l' = lattr l \/ ty = AttributeT).

Definition step_post (l : lexer) (r : Z * option sl * lexer) : Prop :=
  let '(ty, tk, l') := r in
  lwf l' /\ views_ok l ty l' /\
  (exists w, lbuf (lz l') = lower_view (lbuf (lz l)) w /\ lpos (lz l) <= so w /\ 0 <= sn w /\
             so w + sn w <= lpos (lz l') /\ low_rule (lbuf (lz l)) ty tk w l') /\
  lpos (lz l) <= lpos (lz l') <= lx_len (lz l) /\
  match tk with
  | Some v => ty <> ErrorT /\ lpos (lz l) <= so v /\ 0 < sn v /\ so v + sn v = lpos (lz l') /\
              lstart (lz l') = lpos (lz l') /\
              (forall i, lpos (lz l) <= i < so v -> exists c, peekz (lbuf (lz l)) i = Some c /\ is_ws c = true) /\
              (lpos (lz l) < so v -> ty = StartTagCloseT \/ ty = StartTagVoidT) /\
              opt_inview (ltext l') v /\ (ty = AttributeT -> opt_inview (lattr l') v)
  | None => ty = ErrorT /\
            ((lpos (lz l') = lx_len (lz l) /\
              forall i, lpos (lz l) <= i < lpos (lz l') -> exists c, peekz (lbuf (lz l)) i = Some c /\ is_ws c = true)
             \/ (lerr l' = true /\ lpos (lz l) < lpos (lz l')))
  end /\
  (intag l = true -> ty = AttributeT \/ ty = StartTagCloseT \/ ty = StartTagVoidT \/ ty = ErrorT) /\
  (intag l = false -> ty <> AttributeT /\ ty <> StartTagCloseT /\ ty <> StartTagVoidT) /\
  (ty <> ErrorT -> (intag l' = true <-> (ty = StartTagT \/ ty = AttributeT))) /\
  (lerr l = true -> lerr l' = true) /\
  (lerr l' = true -> lerr l = true \/ lpos (lz l) < lpos (lz l')) /\
  (ty <> ErrorT -> lerr l' = lerr l).

Lemma lerr_tail_same (a b : bool) (ty : Z) (p : Prop) : a = b ->
  (b = true -> a = true) /\ (a = true -> b = true \/ p) /\ (ty <> ErrorT -> a = b).
Proof. intros ->. tauto. Qed.

(* whitespace loop: everything moved over is whitespace *)
Lemma ws_loop_gap z z' : ws_loop z = Ok z' ->
  forall i, lpos z <= i < lpos z' -> exists c, peekz (lbuf z) i = Some c /\ is_ws c = true.
Proof.
  unfold ws_loop. intros H.
  refine (loop_inv (fun s => lbuf s = lbuf z /\ forall i, lpos z <= i < lpos s -> exists c, peekz (lbuf z) i = Some c /\ is_ws c = true)
                   (fun s => forall i, lpos z <= i < lpos s -> exists c, peekz (lbuf z) i = Some c /\ is_ws c = true)
                   ws_body _ _ z z' _ H); [|split; [reflexivity|intros; lia]].
  intros s x [Hb Hi] Hx. unfold ws_body, pkr in Hx.
  destruct (pk s 0) as [c|] eqn:Hp; cbn [opt_res rbind] in Hx; [|discriminate].
  destruct (is_ws c) eqn:E; injection Hx as <-; [|exact Hi].
  split; [exact Hb|]. intros i Hr. cbn [mv lpos] in Hr.
  destruct (Z.eq_dec i (lpos s)) as [->|Hne]; [|apply Hi; lia].
  exists c. split; [|exact E]. unfold pk in Hp. rewrite Hb, Z.add_0_r in Hp. exact Hp.
Qed.

(* ---- the text loop of Next ------------------------------------------------------------------------- *)
Definition disp_post (c : cfg) (z' : lx) (d : dispatch) : Prop :=
  match d with
  | DText => lstart z' < lpos z'
  | DTmpl => lstart z' = lpos z' /\ 0 < len (tb c) /\ lpos z' + len (tb c) <= lx_len z'
  | DEndTag => lstart z' = lpos z' /\ pk z' 1 = Some 47 /\ (exists c2, pk z' 2 = Some c2)
  | DStartTag => lstart z' = lpos z' /\ exists c1, pk z' 1 = Some c1 /\ is_letter c1 = true
  | DMarkup => lstart z' = lpos z' /\ pk z' 1 = Some 33
  | DBogusQ => lstart z' = lpos z' /\ pk z' 1 = Some 63
  | DEof => lstart z' = lpos z' /\ lpos z' = lx_len z'
  end.

Lemma mark_le0 z : lx_wf z -> (0 <? mark z) = false -> lstart z = lpos z.
Proof. intros (_ & H & _) E. unfold mark in E. b2p. lia. Qed.

Lemma mark_gt0 z : (0 <? mark z) = true -> lstart z < lpos z.
Proof. intros E. unfold mark in E. b2p. lia. Qed.

Lemma text_loop_spec c z : cfg_ok c -> lx_wf z ->
  safe (loop (fuel_of z) (text_body c) z) (fun r => adv z (fst r) /\ disp_post c (fst r) (snd r)).
Proof.
  intros Hc Hw.
  apply (safe_cloop (fun s => s) z (fun _ => True)); [|apply adv_refl, Hw|exact I|apply fuel_enough; reflexivity || lia].
  intros s Ha _. unfold text_body.
  assert (Hws : lx_wf s) by eauto using adv_wf.
  peek0 s c0 Hc0 Hp0.
  eapply safe_bind; [apply tmpl_at_spec; assumption|]. cbn beta. intros t Ht.
  destruct t.
  { destruct (Ht eq_refl) as [Hl Hr]. cbn [safe fst snd]. split; [exact Ha|].
    destruct (0 <? mark s) eqn:Em; cbn [disp_post]; [apply mark_gt0, Em|].
    split; [apply mark_le0; assumption|tauto]. }
  destruct (c0 =? 60) eqn:E60.
  { peek1 s c0 Hp0 c1 Hc1 Hp1.
    assert (Hie : safe (if c1 =? 47 then c2 <-- pkr s 2;; Ok (negb (c2 =? 62) && (negb (c2 =? 0) || negb (at_end_i s 2))) else Ok false)
                       (fun ie => ie = true -> c1 = 47 /\ exists c2, pk s 2 = Some c2)).
    { destruct (c1 =? 47) eqn:E47; [|cbn; discriminate]. peek2 s c1 Hp1 c2 Hc2 Hp2. cbn [safe]. intros _. b2p. eauto. }
    eapply safe_bind; [exact Hie|]. cbn beta. intros ie Hie2.
    assert (Hm1 : adv z (mv s 1)) by (apply (adv_mv_nz z s 0 c0); try assumption; nz || lia).
    destruct ie eqn:Eie.
    - destruct (Hie2 eq_refl) as [-> Hc2]. cbn [negb andb].
      destruct (0 <? mark s) eqn:Em; cbn [safe fst snd disp_post].
      + split; [exact Ha|apply mark_gt0, Em].
      + split; [exact Ha|]. split; [apply mark_le0; assumption|tauto].
    - cbn [negb andb].
      destruct (is_letter c1) eqn:El; cbn [negb andb].
      { destruct (0 <? mark s) eqn:Em; cbn [safe fst snd disp_post].
        + split; [exact Ha|apply mark_gt0, Em].
        + split; [exact Ha|]. split; [apply mark_le0; assumption|eauto]. }
      destruct (c1 =? 33) eqn:E33; cbn [negb andb].
      { destruct (0 <? mark s) eqn:Em; cbn [safe fst snd disp_post].
        + split; [exact Ha|apply mark_gt0, Em].
        + split; [exact Ha|]. split; [apply mark_le0; assumption|]. b2p. subst. exact Hp1. }
      destruct (c1 =? 63) eqn:E63; cbn [negb andb].
      { destruct (0 <? mark s) eqn:Em; cbn [safe fst snd disp_post].
        + split; [exact Ha|apply mark_gt0, Em].
        + split; [exact Ha|]. split; [apply mark_le0; assumption|]. b2p. subst. exact Hp1. }
      cbn [safe]. split; [exact Hm1|split; [cbn; lia|exact I]]. }
  destruct (eof0 s c0) eqn:Ee.
  { cbn [safe fst snd]. split; [exact Ha|].
    destruct (0 <? mark s) eqn:Em; cbn [disp_post]; [apply mark_gt0, Em|].
    split; [apply mark_le0; assumption|]. eapply eof0_true; eauto. }
  cbn [safe]. split; [eapply adv_mv1; eauto|split; [cbn; lia|exact I]].
Qed.

(* ---- assembling step_post ---------------------------------------------------------------------------- *)
Lemma step_post_ext l1 l2 r : lz l1 = lz l2 -> intag l1 = intag l2 -> lerr l1 = lerr l2 -> lattr l1 = lattr l2 -> step_post l1 r -> step_post l2 r.
Proof. intros H1 H2 H3 H4. destruct r as [[ty tk] l']. unfold step_post, views_ok. rewrite H1, H2, H3, H4. exact (fun x => x). Qed.

Definition plain_ty (ty : Z) : Prop := ty = CommentT \/ ty = DoctypeT \/ ty = TextT \/ ty = TemplateT.

Lemma shifted_wf z v z' : lx_wf z -> shifted z v z' -> lx_wf z'.
Proof.
  intros ((d & Hd) & Hs & Hp) (B1 & B2 & B3 & B4 & B5). unfold lx_wf. rewrite (lx_len_same z z' B1), B1. split; [eauto|lia].
Qed.

(* a token of a type that writes nothing, produced outside a tag *)
Lemma step_post_plain l ty v z' rt er tx av has :
  lx_wf (lz l) -> lstart (lz l) = lpos (lz l) -> intag l = false ->
  shifted (lz l) v z' -> lpos (lz l) < lpos z' -> plain_ty ty -> opt_inview tx v -> er = lerr l ->
  av = lattr l ->
  step_post l (ty, Some v, mkL z' rt false er tx av has).
Proof.
  intros Hw Hcl Hit Hs Hlt Hty Htx Her Hav. pose proof Hs as (B1 & B2 & B3 & B4 & B5).
  pose proof (lx_wf_len _ Hw) as [Hlen _]. assert (0 <= lpos (lz l)) by (destruct Hw as (_ & ? & _); lia).
  cbn [step_post lz intag lerr ltext lattr lhas].
  split; [apply lwf_intro; [eapply shifted_wf; eauto|left; exact B4]|].
  split.
  { split; [|right; left; exact Hav]. cbn [ltext lz]. destruct tx as [t|]; [|exact I].
    cbn [opt_within opt_inview] in *. unfold inview in Htx. lia. }
  split.
  { exists (mkSl (lpos (lz l)) 0). cbn [so sn]. rewrite lower_view_empty by lia.
    split; [exact B1|]. split; [lia|]. split; [lia|]. split; [lia|].
    unfold low_rule, plain_ty in *. destruct Hty as [-> | [-> | [-> | -> ]]]; reflexivity. }
  split; [lia|].
  split.
  { split; [unfold plain_ty in Hty; intros ->; destruct Hty as [?|[?|[?|?]]]; discriminate|].
    split; [lia|]. split; [lia|]. split; [lia|]. split; [exact B4|].
    split; [intros i Hi; lia|]. split; [intros; lia|]. split; [exact Htx|].
    intros ->. unfold plain_ty in Hty. destruct Hty as [?|[?|[?|?]]]; discriminate. }
  split; [rewrite Hit; discriminate|].
  split; [intros _; unfold plain_ty in Hty; repeat split; intros ->; destruct Hty as [?|[?|[?|?]]]; discriminate|].
  split; [|subst er; split; [tauto|split; [intros _; right; exact Hlt|intros _; reflexivity]]].
  intros _. split; [discriminate|]. unfold plain_ty in Hty. intros [-> | -> ]; destruct Hty as [?|[?|[?|?]]]; discriminate.
Qed.

(* ---- Next inside a tag --------------------------------------------------------------------------------- *)
Lemma next_intag_spec c l : cfg_ok c -> lwf l -> intag l = true -> ltext l = None -> safe (next_intag c l) (step_post l).
Proof.
  intros Hc [Hw Hcl] Hit Htx. unfold next_intag. rewrite Htx. cbn [lz rawtag intag lerr ltext lattr lhas].
  destruct (safe_inv _ _ (ws_loop_spec _ Hw)) as (z1 & Ez1 & Ha1 & cw & Hpw & Hcw). rewrite Ez1. cbn [rbind].
  assert (Hw1 : lx_wf z1) by eauto using adv_wf.
  unfold pkr at 1. rewrite Hpw. cbn [opt_res rbind].
  pose proof (lx_wf_len _ Hw) as [Hlen _]. assert (H0 : 0 <= lpos (lz l)) by (destruct Hw as (_ & ? & _); lia).
  pose proof Ha1 as (A1 & A2 & A3).
  destruct (eof0 z1 cw) eqn:Ee.
  { pose proof (eof0_true z1 cw Hw1 Hpw Ee) as Hend. rewrite (lx_len_same _ _ A1) in Hend.
    cbn [safe step_post lz intag lerr ltext lattr lhas].
    split; [apply lwf_intro; [exact Hw1|right; rewrite (lx_len_same _ _ A1); tauto]|].
    split; [split; [exact I|left; reflexivity]|].
    split.
    { exists (mkSl (lpos (lz l)) 0). cbn [so sn]. rewrite lower_view_empty by lia.
      split; [exact A1|]. split; [lia|]. split; [lia|]. split; [lia|]. left. reflexivity. }
    split; [lia|]. split; [split; [reflexivity|left; split; [exact Hend|apply (ws_loop_gap _ _ Ez1)]]|].
    split; [tauto|]. split; [rewrite Hit; discriminate|]. split; [intros H; exfalso; apply H; reflexivity|apply lerr_tail_same; reflexivity]. }
  (* not at the end: the selection was empty *)
  assert (Hclean : lstart (lz l) = lpos (lz l)).
  { destruct Hcl as [?|[_ Hcl]]; [assumption|]. pose proof (eof0_false z1 cw Hw1 Hpw Ee).
    rewrite (lx_len_same _ _ A1) in *. lia. }
  assert (Hattr : safe (if cw =? 62 then Ok false else if cw =? 47 then c1 <-- pkr z1 1;; Ok (negb (c1 =? 62)) else Ok true)
                       (fun b => (b = true -> attr_first z1) /\
                                 (b = false -> cw = 62 \/ (cw = 47 /\ pk z1 1 = Some 62)))).
  { destruct (cw =? 62) eqn:E62; [cbn; split; [discriminate|intros _; b2p; tauto]|].
    destruct (cw =? 47) eqn:E47.
    - peek1 z1 cw Hpw c1 Hc1 Hp1. cbn [safe]. split.
      + intros Hb. exists cw. split; [exact Hpw|]. split; [exact Hcw|]. split; [exact Ee|]. split; [b2p; lia|].
        intros [_ H62]. rewrite Hp1 in H62. injection H62 as ->. discriminate.
      + intros Hb. right. b2p. subst. tauto.
    - cbn [safe]. split; [|discriminate]. intros _. exists cw. split; [exact Hpw|]. split; [exact Hcw|]. split; [exact Ee|].
      split; [b2p; lia|]. intros [H47 _]. b2p. lia. }
  eapply safe_bind; [exact Hattr|]. cbn beta. intros b [Hb1 Hb2]. destruct b.
  - (* attribute *)
    eapply safe_bind; [apply shift_attribute_spec; [exact Hc|exact Hw1|apply Hb1; reflexivity]|]. cbn beta.
    intros [v l'] (_ & t & T1 & T2 & T3 & T4 & T5 & T6 & T7 & T8 & T9 & T10 & T11 & T12).
    cbn [fst snd safe step_post lz intag lerr ltext lattr lhas] in *.
    rewrite A2, Hclean in T5.
    split; [split; [exact T9|left; exact T7]|].
    split.
    { split; [|right; right; reflexivity]. rewrite T1. cbn [opt_within]. destruct T2 as (I1 & I2 & I3). lia. }
    split.
    { destruct T4 as [T4|[T4 T4h]].
      - exists t. rewrite T4, A1. split; [reflexivity|]. destruct T2 as (I1 & I2 & I3).
        split; [lia|]. split; [lia|]. split; [lia|]. unfold low_rule. cbn. left. exact T1.
      - exists (mkSl (lpos (lz l)) 0). cbn [so sn]. rewrite lower_view_empty by lia. rewrite T4.
        split; [exact A1|]. split; [lia|]. split; [lia|]. split; [lia|]. unfold low_rule. cbn. right. tauto. }
    rewrite (lx_len_same _ _ A1) in T8.
    split; [lia|].
    split.
    { split; [discriminate|]. split; [lia|]. split; [lia|]. split; [exact T6|]. split; [exact T7|].
      split; [intros i Hi; lia|]. split; [intros; lia|]. split; [rewrite T1; exact T2|]. intros _. exact T3. }
    split; [tauto|]. split; [rewrite Hit; discriminate|].
    split; [intros _; rewrite T10, Hit; tauto|]. apply lerr_tail_same. exact T12.
  - (* '>' or '/>' *)
    specialize (Hb2 eq_refl).
    set (n := if cw =? 47 then 2 else 1).
    assert (Hn : 1 <= n <= 2) by (unfold n; destruct (cw =? 47); lia).
    assert (Hlim : lpos z1 + n <= lx_len z1).
    { unfold n. destruct Hb2 as [-> | [-> Hp1]].
      - cbn. pose proof (pk_nz_lt z1 0 62 Hw1 Hpw ltac:(lia)). lia.
      - cbn. pose proof (pk_nz_lt z1 1 62 Hw1 Hp1 ltac:(lia)). lia. }
    assert (Hw2 : lx_wf (mv (skip z1) n)).
    { destruct Hw1 as (Hd & Hs & Hp). unfold lx_wf, skip, mv, lx_len in *. cbn [lbuf lstart lpos]. split; [exact Hd|lia]. }
    rewrite shiftv_spec by exact Hw2. cbn [rbind safe fst snd step_post lz intag lerr ltext lattr lhas].
    unfold skip, mv. cbn [lbuf lstart lpos so sn]. rewrite (lx_len_same _ _ A1) in Hlim.
    split; [apply lwf_intro; [apply skip_wf in Hw2; exact Hw2|left; reflexivity]|].
    split; [split; [exact I|left; reflexivity]|].
    split.
    { exists (mkSl (lpos (lz l)) 0). cbn [so sn]. rewrite lower_view_empty by lia.
      split; [exact A1|]. split; [lia|]. split; [lia|]. split; [lia|].
      unfold low_rule. destruct (cw =? 47); reflexivity. }
    split; [lia|].
    split.
    { split; [destruct (cw =? 47); discriminate|]. split; [lia|]. split; [lia|]. split; [lia|]. split; [reflexivity|].
      split; [intros i Hi; apply (ws_loop_gap _ _ Ez1); lia|].
      split; [intros _; destruct (cw =? 47); tauto|]. split; [exact I|]. destruct (cw =? 47); discriminate. }
    split; [intros _; destruct (cw =? 47); tauto|]. split; [rewrite Hit; discriminate|].
    split; [|apply lerr_tail_same; reflexivity]. intros _. split; [discriminate|]. destruct (cw =? 47); intros [?|?]; discriminate.
Qed.

(* ---- Next outside a tag ---------------------------------------------------------------------------------- *)
Lemma lwf_clean l : lwf l -> intag l = false -> lstart (lz l) = lpos (lz l).
Proof. intros [_ [H|[H _]]] Hi; [exact H|congruence]. Qed.

(* at the text loop's exit with an empty selection the cursor has not moved *)
Lemma adv_same z z' : adv z z' -> lstart z = lpos z -> lstart z' = lpos z' -> z' = z.
Proof.
  intros (A1 & A2 & A3) H1 H2. destruct z as [b p s], z' as [b' p' s']. cbn in *. subst. first [reflexivity | f_equal; lia].
Qed.

Lemma next_content_spec c l : cfg_ok c -> lwf l -> intag l = false -> ltext l = None ->
  safe (next_content c l) (step_post l).
Proof.
  intros Hc Hl Hit Htx. pose proof Hl as [Hw _]. pose proof (lwf_clean l Hl Hit) as Hcl.
  unfold next_content.
  eapply safe_bind; [apply text_loop_spec; assumption|]. cbn beta. intros [z d] [Ha Hd]. cbn [fst snd] in *.
  assert (Hwz : lx_wf z) by eauto using adv_wf.
  pose proof (lx_wf_len _ Hw) as [Hlen _]. assert (H0 : 0 <= lpos (lz l)) by (destruct Hw as (_ & ? & _); lia).
  destruct d; cbn [disp_post] in Hd.
  - (* text *)
    rewrite shiftv_spec by exact Hwz. cbn [rbind safe fst snd].
    pose proof Ha as (A1 & A2 & A3). rewrite Hit.
    apply step_post_plain; [exact Hw|exact Hcl|exact Hit| | | | |reflexivity|reflexivity].
    + unfold shifted, skip. cbn [lbuf lstart lpos so sn]. split; [exact A1|]. split; [exact A2|]. split; [lia|]. split; [reflexivity|lia].
    + cbn. lia.
    + unfold plain_ty, TextT. tauto.
    + cbn. unfold inview. cbn. lia.
  - (* template *)
    destruct Hd as (Hm & Hl0 & Hr).
    assert (z = lz l) by (eapply adv_same; eauto). subst z.
    eapply safe_bind; [apply tmpl_skip_spec; assumption|]. cbn beta. intros z1 (Hz1 & Hz2).
    rewrite shiftv_spec by eauto using adv_wf. cbn [rbind safe fst snd].
    pose proof Hz1 as (A1 & A2 & A3). rewrite Hit, Htx.
    apply step_post_plain; [exact Hw|exact Hcl|exact Hit| | | |exact I|reflexivity|reflexivity].
    + unfold shifted, skip. cbn [lbuf lstart lpos so sn]. split; [exact A1|]. split; [exact A2|]. split; [lia|]. split; [reflexivity|lia].
    + cbn. lia.
    + unfold plain_ty. tauto.
  - (* end tag or bogus comment *)
    destruct Hd as (Hm & Hp1 & c2 & Hp2).
    assert (z = lz l) by (eapply adv_same; eauto). subst z.
    assert (Hlim : lpos (lz l) + 2 <= lx_len (lz l)) by (pose proof (pk_nz_lt _ 1 47 Hw Hp1 ltac:(lia)); lia).
    assert (Ha2 : adv (lz l) (mv (lz l) 2)) by (apply adv_mv; lia).
    assert (Hw2 : lx_wf (mv (lz l) 2)) by eauto using adv_wf.
    unfold pkr. rewrite pk_mv. change (2 + 0) with 2. rewrite Hp2. cbn [opt_res rbind].
    destruct (negb (is_letter c2)).
    + eapply safe_bind; [apply shift_bogus_spec; [exact Hc|exact Hw2|left; cbn; lia]|]. cbn beta zeta.
      intros [[[v t] z'] hb] (S1 & S2 & _). cbn [fst snd safe] in *. rewrite Hit.
      apply step_post_plain; [exact Hw|exact Hcl|exact Hit| | | |exact S2|reflexivity|reflexivity].
      * destruct S1 as (B1 & B2 & B3 & B4 & B5). unfold shifted. cbn [mv lbuf lstart lpos] in *.
        rewrite (lx_len_same (lz l) (mv (lz l) 2) eq_refl) in B5. split; [exact B1|]. split; [exact B2|]. split; [exact B3|]. split; [exact B4|lia].
      * destruct S1 as (_ & _ & _ & _ & B5). cbn [mv lpos] in B5. lia.
      * unfold plain_ty. tauto.
    + eapply safe_bind; [apply shift_endtag_spec; [exact Hc|exact Hw2|cbn; lia]|]. cbn beta.
      intros [[[v t] z'] hb] (S1 & S2 & S3 & S4 & S5). cbn [fst snd safe] in *.
      destruct S1 as (B1 & B2 & B3 & B4 & B5 & B6). cbn [mv lbuf lstart lpos] in *.
      rewrite (lx_len_same (lz l) (mv (lz l) 2) eq_refl) in B6.
      cbn [step_post lz intag lerr ltext lattr lhas].
      split; [apply lwf_intro; [exact S3|left; exact B5]|].
      split.
      { split; [|right; left; reflexivity]. cbn [opt_within ltext lz]. destruct S2 as (I1 & I2 & I3). lia. }
      split.
      { exists (endtag_name_view (tb c) (lbuf (lz l)) v). split; [exact B1|]. destruct B2 as (I1 & I2 & I3). split; [lia|]. split; [lia|]. split; [lia|].
        unfold low_rule. cbn [Z.eqb orb EndTagT StartTagT SvgT MathT XmlT Pos.eqb]. split; [exists (tb c); reflexivity|].
        destruct S5 as (k & K1 & K2 & K3 & K4). exists t, k. cbn [ltext]. repeat split; try assumption; lia. }
      split; [lia|].
      split.
      { split; [discriminate|]. split; [lia|]. split; [lia|]. split; [exact B4|]. split; [exact B5|].
        split; [intros i Hi; lia|]. split; [intros; lia|]. split; [exact S2|]. discriminate. }
      split; [rewrite Hit; discriminate|]. split; [intros _; repeat split; discriminate|].
      split; [|apply lerr_tail_same; reflexivity]. intros _. rewrite Hit. split; [discriminate|]. intros [?|?]; discriminate.
  - (* start tag *)
    destruct Hd as (Hm & c1 & Hp1 & Hl1).
    assert (z = lz l) by (eapply adv_same; eauto). subst z.
    assert (Hlim : lpos (lz l) + 1 < lx_len (lz l)) by (pose proof (pk_nz_lt _ 1 c1 Hw Hp1 (is_letter_nz _ Hl1)); lia).
    assert (Ha1 : adv (lz l) (mv (lz l) 1)) by (apply adv_mv; lia).
    eapply safe_mono; [apply shift_starttag_spec; [exact Hc|eauto using adv_wf|cbn; lia]|].
    intros [[ty tk] l'] (t & T1 & T2 & T3 & T4 & T5 & T6 & T7 & T8 & T9 & T10 & Terr & T11).
    cbn [mv lbuf lstart lpos lattr lhas lerr rawtag] in *.
    rewrite (lx_len_same (lz l) (mv (lz l) 1) eq_refl) in T8.
    cbn [step_post].
    split; [split; [exact T6|left; exact T7]|].
    split.
    { split; [|right; left; exact T9]. rewrite T1. cbn [opt_within]. lia. }
    split.
    { exists t. split; [exact T5|]. split; [lia|]. split; [lia|]. split; [lia|].
      unfold low_rule. destruct T11 as [(-> & _)|[([-> | [-> | ->]] & _)|(-> & _ & _ & H & _)]]; cbn; try exact T1. right. tauto. }
    split; [lia|].
    assert (Htv : forall v, so v = lstart (lz l) -> so v + sn v = lpos (lz l') -> opt_inview (ltext l') v).
    { intros v V1 V2. rewrite T1. unfold opt_inview, inview. lia. }
    split.
    { destruct T11 as [(-> & -> & Hx & _)|[(Hty & -> & _)|(-> & -> & _ & H & _)]].
      - split; [discriminate|]. cbn [so sn]. split; [lia|]. split; [lia|]. split; [lia|]. split; [exact T7|].
        split; [intros i Hi; lia|]. split; [intros; lia|]. split; [apply Htv; cbn; lia|]. discriminate.
      - split; [destruct Hty as [-> | [-> | ->]]; discriminate|]. cbn [so sn]. split; [lia|]. split; [lia|]. split; [lia|]. split; [exact T7|].
        split; [intros i Hi; lia|]. split; [intros; lia|]. split; [apply Htv; cbn; lia|].
        destruct Hty as [-> | [-> | ->]]; discriminate.
      - split; [reflexivity|right; split; [exact H|lia]]. }
    split; [rewrite Hit; discriminate|].
    split.
    { intros _. destruct T11 as [(-> & _)|[([-> | [-> | ->]] & _)|(-> & _)]]; repeat split; discriminate. }
    split.
    { intros Hne. destruct T11 as [(-> & _ & _ & -> & _)|[(Hty & _ & -> & _)|(-> & _)]].
      - tauto.
      - split; [discriminate|]. destruct Hty as [-> | [-> | ->]]; intros [?|?]; discriminate.
      - exfalso. apply Hne. reflexivity. }
    split; [exact Terr|]. split; [intros _; right; lia|].
    intros Hne. destruct T11 as [(_ & _ & _ & _ & E)|[(_ & _ & _ & E & _)|(E & _)]]; [exact E| |congruence].
    destruct (lerr l) eqn:El; [|congruence]. rewrite (Terr eq_refl) in E. discriminate.
  - (* <! markup *)
    destruct Hd as (Hm & Hp1).
    assert (z = lz l) by (eapply adv_same; eauto). subst z.
    assert (Hlim : lpos (lz l) + 2 <= lx_len (lz l)) by (pose proof (pk_nz_lt _ 1 33 Hw Hp1 ltac:(lia)); lia).
    assert (Ha2 : adv (lz l) (mv (lz l) 2)) by (apply adv_mv; lia).
    eapply safe_bind; [apply read_markup_spec; [exact Hc|eauto using adv_wf|cbn; lia]|]. cbn beta.
    intros [[[[ty v] t] z'] hb] (S1 & S2 & S3 & S4 & _). cbn [safe]. rewrite Hit.
    apply step_post_plain; [exact Hw|exact Hcl|exact Hit| | | |exact S2|reflexivity|reflexivity].
    + destruct S1 as (B1 & B2 & B3 & B4 & B5). unfold shifted. cbn [mv lbuf lstart lpos] in *.
      rewrite (lx_len_same (lz l) (mv (lz l) 2) eq_refl) in B5. split; [exact B1|]. split; [exact B2|]. split; [exact B3|]. split; [exact B4|lia].
    + cbn [mv lpos] in S4. lia.
    + unfold plain_ty. tauto.
  - (* <? bogus comment *)
    destruct Hd as (Hm & Hp1).
    assert (z = lz l) by (eapply adv_same; eauto). subst z.
    assert (Hlim : lpos (lz l) + 1 < lx_len (lz l)) by (pose proof (pk_nz_lt _ 1 63 Hw Hp1 ltac:(lia)); lia).
    assert (Ha1 : adv (lz l) (mv (lz l) 1)) by (apply adv_mv; lia).
    eapply safe_bind.
    { apply shift_bogus_spec; [exact Hc|eauto using adv_wf|]. right. cbn [mv lstart lpos]. split; [lia|].
      exists 63. rewrite pk_mv. change (1 + 0) with 1. split; [exact Hp1|lia]. }
    cbn beta zeta. intros [[[v t] z'] hb] (S1 & S2 & _). cbn [fst snd safe] in *. rewrite Hit.
    apply step_post_plain; [exact Hw|exact Hcl|exact Hit| | | |exact S2|reflexivity|reflexivity].
    + destruct S1 as (B1 & B2 & B3 & B4 & B5). unfold shifted. cbn [mv lbuf lstart lpos] in *.
      rewrite (lx_len_same (lz l) (mv (lz l) 1) eq_refl) in B5. split; [exact B1|]. split; [exact B2|]. split; [exact B3|]. split; [exact B4|lia].
    + destruct S1 as (_ & _ & _ & _ & B5). cbn [mv lpos] in B5. lia.
    + unfold plain_ty. tauto.
  - (* end of input *)
    destruct Hd as (Hm & Hend).
    assert (z = lz l) by (eapply adv_same; eauto). subst z.
    cbn [safe step_post lz intag lerr ltext lattr lhas].
    split; [apply lwf_intro; [exact Hw|left; exact Hcl]|].
    split; [split; [rewrite Htx; exact I|right; left; reflexivity]|].
    split.
    { exists (mkSl (lpos (lz l)) 0). cbn [so sn]. rewrite lower_view_empty by lia.
      split; [reflexivity|]. split; [lia|]. split; [lia|]. split; [lia|]. left. reflexivity. }
    split; [lia|]. split; [split; [reflexivity|left; split; [exact Hend|intros i Hi; lia]]|].
    split; [rewrite Hit; discriminate|]. split; [intros _; repeat split; discriminate|].
    split; [intros H; exfalso; apply H; reflexivity|apply lerr_tail_same; reflexivity].
Qed.

(* ---- Next --------------------------------------------------------------------------------------------------- *)
Theorem next_spec c l : cfg_ok c -> lwf l -> safe (next c l) (step_post l).
Proof.
  intros Hc Hl. unfold next.
  set (l1 := mkL (lz l) (rawtag l) (intag l) (lerr l) None (lattr l) false).
  assert (Hl1 : lwf l1) by exact Hl.
  assert (Hext : forall r, step_post l1 r -> step_post l r).
  { intros r. apply step_post_ext; reflexivity. }
  destruct (intag l1) eqn:Hit.
  - eapply safe_mono; [apply next_intag_spec; [exact Hc|exact Hl1|exact Hit|reflexivity]|exact Hext].
  - pose proof Hl1 as [Hw _]. pose proof (lwf_clean l1 Hl1 Hit) as Hcl.
    destruct (negb (rawtag l1 =? 0)).
    + eapply safe_bind; [apply shift_rawtext_spec; [exact Hc|exact Hw]|]. cbn beta.
      intros [[v z] has] Hs. cbn [fst snd] in Hs. pose proof Hs as (B1 & B2 & B3 & B4 & B5).
      destruct (0 <? sn v) eqn:Esn.
      * cbn [safe]. apply Hext.
        apply step_post_plain; [exact Hw|exact Hcl|exact Hit|exact Hs| | | |reflexivity|reflexivity].
        -- b2p. lia.
        -- unfold plain_ty. tauto.
        -- cbn. unfold inview. lia.
      * (* empty raw text: the cursor did not move, continue with ordinary content *)
        assert (z = lz l1).
        { b2p. destruct z as [b p s0]. destruct (lz l1) as [b1 p1 s1] eqn:E1. cbn in *. subst. f_equal; lia. }
        subst z.
        eapply safe_mono.
        -- apply next_content_spec; [exact Hc|apply lwf_intro; [exact Hw|left; exact Hcl]|reflexivity|reflexivity].
        -- intros r Hr. apply Hext. eapply step_post_ext; [| | | |exact Hr]; [reflexivity|symmetry; exact Hit|reflexivity|reflexivity].
    + eapply safe_mono; [apply next_content_spec; [exact Hc|exact Hl1|exact Hit|reflexivity]|exact Hext].
Qed.
