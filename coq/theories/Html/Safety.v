(* Html/Safety.v — every helper of the lexer model returns Ok on a well-formed cursor, moves the cursor
   forward inside the data, and hands out views that lie inside the buffer. *)
From Verif Require Import Common.Base Common.Tactics Common.Lx Gen.Tables Html.Model Html.Lemmas Html.ListLemmas Html.Hash.
From Coq Require Import ZifyBool.

Definition nz_list (l : list Z) : Prop := Forall (fun c => c <> 0) l.
Definition cfg_ok (c : cfg) : Prop := nz_list (tb c) /\ nz_list (te c).

(* peek at 0: always possible on a well-formed cursor *)
Ltac peek0 z c Hc Hp :=
  let H := fresh in
  assert (H : lx_wf z) by eauto using adv_wf;
  destruct (pkr0 z H) as (c & Hc & Hp); rewrite Hc; cbn [rbind]; clear H.

(* ---- at ------------------------------------------------------------------------------------------ *)
Lemma at_from_spec z bs : lx_wf z -> nz_list bs -> forall i, 0 <= i -> lpos z + i <= lx_len z ->
  safe (at_from z i bs) (fun b => b = true -> lpos z + i + len bs <= lx_len z).
Proof.
  intros Hw Hn. induction Hn as [|c t Hc Ht IH]; intros i Hi Hr; cbn [at_from].
  - cbn [safe]. intros _. rewrite len_nil. lia.
  - destruct (pkr_some z i Hw) as (x & Hx & Hp); [destruct Hw as (_ & ? & ?); lia|].
    rewrite Hx. cbn [rbind]. destruct (x =? c) eqn:E; [|cbn; discriminate].
    apply Z.eqb_eq in E. subst x.
    pose proof (pk_nz_lt z i c Hw Hp Hc).
    eapply safe_mono; [apply IH; lia|]. cbn beta. intros b Hb Hbt. rewrite len_cons. specialize (Hb Hbt). lia.
Qed.

Lemma at_spec z bs : lx_wf z -> nz_list bs ->
  safe (at_ z bs) (fun b => b = true -> lpos z + len bs <= lx_len z).
Proof.
  intros Hw Hn. unfold at_. eapply safe_mono; [apply at_from_spec; try assumption; destruct Hw as (_ & ? & ?); lia|].
  cbn beta. intros b H Hb. specialize (H Hb). lia.
Qed.

Lemma atci_from_spec z bs : lx_wf z -> Forall (fun c => c <> 0 /\ c <> 32) bs -> forall i, 0 <= i -> lpos z + i <= lx_len z ->
  safe (atci_from z i bs) (fun b => b = true -> lpos z + i + len bs <= lx_len z).
Proof.
  intros Hw Hn. induction Hn as [|c t Hc Ht IH]; intros i Hi Hr; cbn [atci_from].
  - cbn [safe]. intros _. rewrite len_nil. lia.
  - destruct (pkr_some z i Hw) as (x & Hx & Hp); [destruct Hw as (_ & ? & ?); lia|].
    rewrite Hx. cbn [rbind]. destruct ((x =? c) || ((x + 32) mod 256 =? c)) eqn:E; [|cbn; discriminate].
    assert (Hx0 : x <> 0).
    { intros ->. change ((0 + 32) mod 256) with 32 in E. destruct Hc as [Hc1 Hc2].
      apply orb_true_iff in E. destruct E as [E|E]; apply Z.eqb_eq in E; congruence. }
    pose proof (pk_nz_lt z i x Hw Hp Hx0).
    eapply safe_mono; [apply IH; lia|]. cbn beta. intros b Hb Hbt. rewrite len_cons. specialize (Hb Hbt). lia.
Qed.

(* ---- small loops ----------------------------------------------------------------------------------- *)
Lemma ws_loop_spec z : lx_wf z ->
  safe (ws_loop z) (fun z' => adv z z' /\ exists c, pk z' 0 = Some c /\ is_ws c = false).
Proof.
  intros Hw. unfold ws_loop.
  apply (safe_cloop (fun s => s) z (fun _ => True)); [|apply adv_refl, Hw|exact I|apply fuel_enough; reflexivity || lia].
  intros s Ha _. unfold ws_body. peek0 s c Hc Hp.
  destruct (is_ws c) eqn:E; cbn [safe].
  - pose proof (pk_nz_lt s 0 c ltac:(eauto using adv_wf) Hp (is_ws_nz _ E)).
    split; [|split; [cbn; lia|exact I]]. apply adv_mv'; [exact Ha|lia|rewrite (adv_len _ _ Ha) in *; lia].
  - split; [exact Ha|eauto].
Qed.

Lemma ws_loop_stop z c : pk z 0 = Some c -> is_ws c = false -> ws_loop z = Ok z.
Proof.
  intros H E. unfold ws_loop, fuel_of. cbn [loop]. unfold ws_body, pkr. rewrite H. cbn [opt_res rbind]. rewrite E. reflexivity.
Qed.

Lemma letters_loop_spec z : lx_wf z ->
  safe (letters_loop z) (fun z' => adv z z' /\ exists c, pk z' 0 = Some c /\ is_letter c = false).
Proof.
  intros Hw. unfold letters_loop.
  apply (safe_cloop (fun s => s) z (fun _ => True)); [|apply adv_refl, Hw|exact I|apply fuel_enough; reflexivity || lia].
  intros s Ha _. unfold letters_body. peek0 s c Hc Hp.
  destruct (is_letter c) eqn:E; cbn [safe].
  - pose proof (pk_nz_lt s 0 c ltac:(eauto using adv_wf) Hp (is_letter_nz _ E)).
    split; [|split; [cbn; lia|exact I]]. apply adv_mv'; [exact Ha|lia|rewrite (adv_len _ _ Ha) in *; lia].
  - split; [exact Ha|eauto].
Qed.

(* Lexeme()[a:] is fine whenever a is inside the selection *)
Lemma lexeme_ok_wf z : lx_wf z -> lexeme_ok z = true.
Proof.
  intros Hw. pose proof (lx_wf_len z Hw). destruct Hw as (_ & H1 & H2).
  unfold lexeme_ok, slice_ok. zb. reflexivity.
Qed.

Lemma lexeme_from_spec z a : lx_wf z -> 0 <= a <= lpos z - lstart z ->
  lexeme_from z a = Ok (mkSl (lstart z + a) (lpos z - lstart z - a)).
Proof. intros Hw H. unfold lexeme_from. rewrite lexeme_ok_wf by exact Hw. zb. reflexivity. Qed.

Lemma lexeme_sub_spec z a b : lx_wf z -> 0 <= a <= b -> b <= lpos z - lstart z ->
  lexeme_sub z a b = Ok (mkSl (lstart z + a) (b - a)).
Proof. intros Hw H1 H2. unfold lexeme_sub. rewrite lexeme_ok_wf by exact Hw. zb. reflexivity. Qed.

Lemma shiftv_spec z : lx_wf z -> shiftv z = Ok (mkSl (lstart z) (lpos z - lstart z), skip z).
Proof. intros Hw. unfold shiftv. rewrite lexeme_ok_wf by exact Hw. reflexivity. Qed.

Lemma hash_lexeme_from_spec z a : lx_wf z -> 0 <= a <= lpos z - lstart z ->
  safe (hash_lexeme_from z a) (fun _ => True).
Proof.
  intros Hw H. unfold hash_lexeme_from. rewrite lexeme_from_spec by assumption. cbn [rbind]. apply safe_to_hash.
Qed.

(* ---- moveTemplate ---------------------------------------------------------------------------------- *)
Lemma mt_str_spec q z0 z : lx_wf z0 -> adv z0 z -> forall fuel, (Z.to_nat (lx_len z0 - lpos z) < fuel)%nat ->
  forall esc, safe (loop fuel (mt_str_body q) (z, esc)) (fun r => adv z (fst r)).
Proof.
  intros Hw Ha fuel Hf esc.
  apply (safe_cloop fst z (fun _ => True)); [|apply adv_refl; eauto using adv_wf|exact I|cbn [fst]; rewrite (adv_len _ _ Ha); exact Hf].
  intros [s e] Has _. cbn [fst] in *. unfold mt_str_body.
  assert (Hws : lx_wf s) by eauto using adv_wf.
  peek0 s c Hc Hp.
  destruct (eof0 s c) eqn:E1; [cbn; exact Has|].
  pose proof (eof0_false s c Hws Hp E1) as Hlt. rewrite (adv_len _ _ Has) in Hlt.
  assert (Hm : adv z (mv s 1)) by (apply adv_mv'; [exact Has|lia|rewrite (adv_len _ _ Has); lia]).
  destruct (negb e && (c =? q)); [cbn; exact Hm|].
  destruct (c =? 92); cbn [safe fst]; (split; [exact Hm|split; [cbn; lia|exact I]]).
Qed.

Lemma move_template_spec c z : cfg_ok c -> lx_wf z -> safe (move_template c z) (fun z' => adv z z').
Proof.
  intros [_ Hte] Hw. unfold move_template.
  apply (safe_cloop (fun s => s) z (fun _ => True)); [|apply adv_refl, Hw|exact I|apply fuel_enough; reflexivity || lia].
  intros s Ha _. unfold mt_body.
  assert (Hws : lx_wf s) by eauto using adv_wf.
  peek0 s c0 Hc Hp.
  destruct (eof0 s c0) eqn:E1; [cbn; exact Ha|].
  pose proof (eof0_false s c0 Hws Hp E1) as Hlt.
  eapply safe_bind; [apply at_spec; assumption|]. cbn beta. intros e He.
  destruct e.
  - cbn [safe]. specialize (He eq_refl). apply adv_mv'; [exact Ha|apply len_nonneg|exact He].
  - destruct ((c0 =? 34) || (c0 =? 39)).
    + eapply safe_bind.
      * apply (mt_str_spec c0 z (mv s 1) Hw).
        -- apply adv_mv'; [exact Ha|lia|lia].
        -- unfold fuel_of, lx_len. destruct Ha as (Hb & _ & _). rewrite Hb. cbn [mv lpos]. lia.
      * cbn beta. intros r Hr.
        assert (Har : adv z (fst r)).
        { eapply adv_trans; [|exact Hr]. apply adv_mv'; [exact Ha|lia|lia]. }
        destruct (snd r); cbn [safe]; [exact Har|].
        split; [exact Har|split; [|exact I]]. destruct Hr as (_ & _ & Hr). cbn [mv lpos] in Hr. lia.
    + cbn [safe]. split; [apply adv_mv'; [exact Ha|lia|lia]|split; [cbn; lia|exact I]].
Qed.

Lemma tmpl_at_spec c z : cfg_ok c -> lx_wf z ->
  safe (tmpl_at c z) (fun b => b = true -> 0 < len (tb c) /\ lpos z + len (tb c) <= lx_len z).
Proof.
  intros [Htb _] Hw. unfold tmpl_at, has_delims.
  destruct (tb c) as [|x t] eqn:E; [cbn; discriminate|].
  eapply safe_mono; [apply at_spec; assumption|]. cbn beta. intros b H Hb. specialize (H Hb).
  split; [rewrite len_cons; pose proof (len_nonneg t); lia|exact H].
Qed.

Lemma tmpl_skip_spec c z : cfg_ok c -> lx_wf z -> lpos z + len (tb c) <= lx_len z ->
  safe (tmpl_skip c z) (fun z' => adv z z' /\ lpos z + len (tb c) <= lpos z').
Proof.
  intros Hc Hw Hr. unfold tmpl_skip.
  assert (Ha : adv z (mv z (len (tb c)))) by (apply adv_mv; [apply len_nonneg|exact Hr]).
  eapply safe_mono; [apply move_template_spec; [exact Hc|eauto using adv_wf]|].
  cbn beta. intros z' Hz'. split; [eapply adv_trans; eauto|]. destruct Hz' as (_ & _ & H). cbn [mv lpos] in H. lia.
Qed.

(* l.skipTemplate() *)
Lemma skip_tmpl_spec c z : cfg_ok c -> lx_wf z ->
  safe (skip_tmpl c z) (fun o => match o with Some z' => adv z z' /\ lpos z < lpos z' | None => True end).
Proof.
  intros Hc Hw. unfold skip_tmpl.
  eapply safe_bind; [apply tmpl_at_spec; assumption|]. cbn beta. intros t Ht.
  destruct t; [|exact I]. destruct (Ht eq_refl) as [Hl Hr].
  eapply safe_bind; [apply tmpl_skip_spec; assumption|]. cbn beta. intros z' (Hz1 & Hz2). cbn [safe]. split; [exact Hz1|lia].
Qed.

Lemma skip_tmpl_none z : skip_tmpl no_tmpl z = Ok None.
Proof. reflexivity. Qed.

(* the cursor loop rule for a loop whose first test is l.skipTemplate() *)
Lemma with_tmpl_cloop_has {S R} c (cur : S -> lx) (setc : S -> lx -> S) (z0 : lx) (J : S -> Prop) (Q : R -> Prop)
      (body : S -> res (lp S R)) (fuel : nat) (s0 : S) (h0 : bool) :
  cfg_ok c -> lx_wf z0 -> (forall s z', cur (setc s z') = z') ->
  (forall s z', J s -> adv (cur s) z' -> lpos (cur s) < lpos z' -> J (setc s z')) ->
  (forall s, adv z0 (cur s) -> J s ->
     safe (body s) (fun x => match x with
                             | Cont s' => adv z0 (cur s') /\ lpos (cur s) < lpos (cur s') /\ J s'
                             | Brk r => Q r
                             end)) ->
  adv z0 (cur s0) -> J s0 -> (Z.to_nat (lx_len z0 - lpos (cur s0)) < fuel)%nat ->
  safe (loop fuel (with_tmpl c cur setc body) (s0, h0)) (fun r => Q (fst r) /\ (h0 = true -> snd r = true)).
Proof.
  intros Hc Hw Hcs HJ Hb Ha Hj Hf.
  apply (safe_cloop (fun sh : S * bool => cur (fst sh)) z0 (fun sh => J (fst sh) /\ (h0 = true -> snd sh = true))); [|exact Ha|split; [exact Hj|tauto]|exact Hf].
  intros [s h] Has [Hjs Hh]. cbn [fst snd] in *. unfold with_tmpl.
  eapply safe_bind; [apply skip_tmpl_spec; [exact Hc|eauto using adv_wf]|]. cbn beta. intros [z'|] Hsk.
  - destruct Hsk as [Hz1 Hz2]. cbn [safe fst snd]. rewrite Hcs. split; [eauto using adv_trans|split; [exact Hz2|split; [apply HJ; assumption|tauto]]].
  - eapply safe_bind; [apply Hb; assumption|]. cbn beta. intros [s'|r] Hx; cbn [safe fst snd]; tauto.
Qed.

Lemma with_tmpl_cloop {S R} c (cur : S -> lx) (setc : S -> lx -> S) (z0 : lx) (J : S -> Prop) (Q : R -> Prop)
      (body : S -> res (lp S R)) (fuel : nat) (s0 : S) (h0 : bool) :
  cfg_ok c -> lx_wf z0 -> (forall s z', cur (setc s z') = z') ->
  (forall s z', J s -> adv (cur s) z' -> lpos (cur s) < lpos z' -> J (setc s z')) ->
  (forall s, adv z0 (cur s) -> J s ->
     safe (body s) (fun x => match x with
                             | Cont s' => adv z0 (cur s') /\ lpos (cur s) < lpos (cur s') /\ J s'
                             | Brk r => Q r
                             end)) ->
  adv z0 (cur s0) -> J s0 -> (Z.to_nat (lx_len z0 - lpos (cur s0)) < fuel)%nat ->
  safe (loop fuel (with_tmpl c cur setc body) (s0, h0)) (fun r => Q (fst r)).
Proof.
  intros Hc Hw Hcs HJ Hb Ha Hj Hf. eapply safe_mono; [eapply with_tmpl_cloop_has; eassumption|]. cbn beta. tauto.
Qed.

(* without delimiters the loop is the plain loop *)
Lemma loop_with_no_tmpl {S R} (cur : S -> lx) (setc : S -> lx -> S) (body : S -> res (lp S R)) : forall fuel s h,
  loop fuel (with_tmpl no_tmpl cur setc body) (s, h) = (r <-- loop fuel body s ;; Ok (r, h)).
Proof.
  induction fuel as [|k IH]; intros s h; [reflexivity|]. cbn [loop]. unfold with_tmpl at 1. rewrite skip_tmpl_none. cbn [rbind].
  destruct (body s) as [[s'|r]| |]; cbn [rbind]; [apply IH|reflexivity|reflexivity|reflexivity].
Qed.

(* partial correctness: an invariant over (state, flag) *)
Lemma with_tmpl_inv {S R} c (cur : S -> lx) (setc : S -> lx -> S) (I : S * bool -> Prop) (Q : R * bool -> Prop)
      (body : S -> res (lp S R)) :
  (forall s h z', I (s, h) -> tmpl_at c (cur s) = Ok true -> tmpl_skip c (cur s) = Ok z' -> I (setc s z', true)) ->
  (forall s h x, I (s, h) -> body s = Ok x -> match x with Cont s' => I (s', h) | Brk r => Q (r, h) end) ->
  forall fuel sh r, I sh -> loop fuel (with_tmpl c cur setc body) sh = Ok r -> Q r.
Proof.
  intros Ht Hb fuel sh r Hi H.
  refine (loop_inv I Q (with_tmpl c cur setc body) _ fuel sh r Hi H).
  clear Hi H. intros [s h] x Hs Hx. unfold with_tmpl, skip_tmpl in Hx.
  destruct (tmpl_at c (cur s)) as [t| |] eqn:Et; cbn [rbind] in Hx; try discriminate.
  destruct t.
  - destruct (tmpl_skip c (cur s)) as [z'| |] eqn:Ek; cbn [rbind] in Hx; try discriminate. injection Hx as <-. eapply Ht; eauto.
  - cbn [rbind] in Hx. destruct (body s) as [y| |] eqn:Eb; cbn [rbind] in Hx; try discriminate. injection Hx as <-.
    specialize (Hb s h y Hs Eb). destruct y; exact Hb.
Qed.

Lemma tmpl_rep_spec c z0 z : cfg_ok c -> tb c <> [] -> lx_wf z0 -> adv z0 z ->
  forall fuel, (Z.to_nat (lx_len z0 - lpos z) < fuel)%nat ->
  safe (loop fuel (tmpl_rep_body c) (z, false)) (fun r => adv z (fst r) /\ (snd r = true -> lpos z < lpos (fst r))).
Proof.
  intros Hc Hne Hw Ha fuel Hf.
  assert (Hwz : lx_wf z) by eauto using adv_wf.
  apply (safe_cloop fst z (fun s => snd s = true -> lpos z < lpos (fst s)));
    [|apply adv_refl, Hwz|cbn; discriminate|cbn [fst]; rewrite (adv_len _ _ Ha); exact Hf].
  intros [s b] Has Hj. cbn [fst snd] in *. unfold tmpl_rep_body. cbn [fst snd].
  assert (Hws : lx_wf s) by eauto using adv_wf.
  eapply safe_bind; [apply at_spec; [exact Hws|apply Hc]|]. cbn beta. intros a Hat.
  destruct a; [|cbn [safe fst snd]; split; [exact Has|exact Hj]].
  specialize (Hat eq_refl).
  eapply safe_bind; [apply tmpl_skip_spec; assumption|]. cbn beta. intros z' (Hz1 & Hz2).
  cbn [safe fst snd].
  assert (0 < len (tb c)).
  { destruct (tb c) as [|x t]; [congruence|]. rewrite len_cons. pose proof (len_nonneg t). lia. }
  split; [eapply adv_trans; eauto|]. destruct Has as (_ & _ & Hsp). split; [lia|intros _; lia].
Qed.

Lemma tmpl_rep_top_spec c z : cfg_ok c -> tb c <> [] -> lx_wf z ->
  safe (tmpl_rep c z) (fun r => adv z (fst r) /\ (snd r = true -> lpos z < lpos (fst r))).
Proof.
  intros Hc Hne Hw. unfold tmpl_rep. apply (tmpl_rep_spec c z z); try assumption; [apply adv_refl, Hw|].
  apply fuel_enough; reflexivity || lia.
Qed.

Lemma tmpl_rep_guarded_spec c z has : cfg_ok c -> lx_wf z ->
  safe (tmpl_rep_guarded c z has) (fun r => adv z (fst r) /\ (has = true -> snd r = true)).
Proof.
  intros Hc Hw. unfold tmpl_rep_guarded, has_delims. destruct (tb c) as [|x t] eqn:E; [cbn; split; [apply adv_refl, Hw|tauto]|].
  eapply safe_bind; [apply tmpl_rep_top_spec; [exact Hc|rewrite E; discriminate|exact Hw]|].
  cbn beta. intros r [Hr _]. cbn. split; [exact Hr|]. intros ->. reflexivity.
Qed.

(* peeks after a non-zero byte *)
Lemma pkr_next0 z c : lx_wf z -> pk z 0 = Some c -> c <> 0 -> exists c', pkr z 1 = Ok c' /\ pk z 1 = Some c'.
Proof. intros. exact (pkr_next z 0 c H H0 H1). Qed.
Lemma pkr_next1 z c : lx_wf z -> pk z 1 = Some c -> c <> 0 -> exists c', pkr z 2 = Ok c' /\ pk z 2 = Some c'.
Proof. intros. exact (pkr_next z 1 c H H0 H1). Qed.
Lemma pkr_next2 z c : lx_wf z -> pk z 2 = Some c -> c <> 0 -> exists c', pkr z 3 = Ok c' /\ pk z 3 = Some c'.
Proof. intros. exact (pkr_next z 2 c H H0 H1). Qed.

Ltac nz := first [assumption | b2p; lia | (intros ->; cbn in *; discriminate)].
Ltac peek1 z c Hp c' Hc' Hp' :=
  destruct (pkr_next0 z c ltac:(eauto using adv_wf) Hp ltac:(nz)) as (c' & Hc' & Hp'); rewrite Hc'; cbn [rbind].
Ltac peek2 z c Hp c' Hc' Hp' :=
  destruct (pkr_next1 z c ltac:(eauto using adv_wf) Hp ltac:(nz)) as (c' & Hc' & Hp'); rewrite Hc'; cbn [rbind].
Ltac peek3 z c Hp c' Hc' Hp' :=
  destruct (pkr_next2 z c ltac:(eauto using adv_wf) Hp ltac:(nz)) as (c' & Hc' & Hp'); rewrite Hc'; cbn [rbind].

(* moving over bytes that were read as non-zero *)
Lemma adv_mv_nz z0 z i c : lx_wf z0 -> adv z0 z -> pk z i = Some c -> c <> 0 -> 0 <= i -> adv z0 (mv z (i + 1)).
Proof.
  intros Hw Ha Hp Hc Hi. pose proof (pk_nz_lt z i c ltac:(eauto using adv_wf) Hp Hc).
  apply adv_mv'; [exact Ha|lia|lia].
Qed.

Lemma adv_mv1 z0 z c : lx_wf z0 -> adv z0 z -> pk z 0 = Some c -> eof0 z c = false -> adv z0 (mv z 1).
Proof.
  intros Hw Ha Hp He. pose proof (eof0_false z c ltac:(eauto using adv_wf) Hp He).
  apply adv_mv'; [exact Ha|lia|lia].
Qed.

Lemma adv_rewind z0 s z2 m : adv z0 s -> adv s z2 -> m = lpos s - lstart s -> adv z0 (rewind z2 m).
Proof.
  intros (H1 & H2 & H3) (H4 & H5 & H6) ->. unfold adv, rewind. cbn [lbuf lstart lpos].
  rewrite H4, H5, H1, H2. split; [reflexivity|split; [reflexivity|lia]].
Qed.

Lemma adv_lpos_le a b : adv a b -> lpos a <= lpos b.
Proof. intros (_ & _ & H). lia. Qed.

Lemma adv_lstart a b : adv a b -> lstart b = lstart a.
Proof. intros (_ & H & _). exact H. Qed.

(* ---- shiftRawText ------------------------------------------------------------------------------- *)
Definition sum_adv (z : lx) (r : lx + lx) : Prop := match r with inl z' => adv z z' | inr z' => adv z z' end.

Lemma script_comment_step zs : lx_wf zs -> forall s : lx * bool, adv zs (fst s) -> True ->
  safe (script_comment_body s) (fun x => match x with
                                         | Cont s' => adv zs (fst s') /\ lpos (fst s) < lpos (fst s') /\ True
                                         | Brk r => sum_adv zs r
                                         end).
Proof.
  intros Hw [s ins] Ha _. cbn [fst] in *. unfold script_comment_body.
  assert (Hws : lx_wf s) by eauto using adv_wf.
  peek0 s c Hc Hp.
  destruct (c =? 45) eqn:E45.
  { peek1 s c Hp c1 Hc1 Hp1.
    assert (Hm1 : adv zs (mv s 1)) by (apply (adv_mv_nz zs s 0 c); try assumption; nz || lia).
    destruct (c1 =? 45) eqn:E1.
    - peek2 s c1 Hp1 c2 Hc2 Hp2.
      destruct (c2 =? 62) eqn:E2; cbn [safe sum_adv fst].
      + apply (adv_mv_nz zs s 2 c2); try assumption; nz || lia.
      + split; [exact Hm1|split; [cbn; lia|exact I]].
    - cbn [safe fst]. split; [exact Hm1|split; [cbn; lia|exact I]]. }
  destruct (c =? 60) eqn:E60.
  { peek1 s c Hp c1 Hc1 Hp1.
    set (isend := c1 =? 47). set (z1 := mv s (if isend then 2 else 1)).
    assert (Hz1 : adv zs z1 /\ lpos s < lpos z1).
    { unfold z1. destruct isend eqn:Ei.
      - split; [apply (adv_mv_nz zs s 1 c1); try assumption; unfold isend in Ei; nz || lia|cbn; lia].
      - split; [apply (adv_mv_nz zs s 0 c); try assumption; nz || lia|cbn; lia]. }
    destruct Hz1 as [Hz1 Hlt].
    eapply safe_bind; [apply letters_loop_spec; eauto using adv_wf|]. cbn beta. intros z2 (Hz2 & _).
    assert (Haz2 : adv zs z2) by eauto using adv_trans.
    eapply safe_bind.
    { apply hash_lexeme_from_spec; [eauto using adv_wf|]. unfold mark.
      pose proof (adv_lpos_le _ _ Hz2). rewrite (adv_lstart _ _ Hz2).
      assert (lx_wf z1) as (_ & ? & _) by eauto using adv_wf. lia. }
    cbn beta. intros h _.
    pose proof (adv_lpos_le _ _ Hz2) as Hle.
    destruct (h =? html_hash_Script); [|cbn [safe fst]; split; [exact Haz2|split; [lia|exact I]]].
    assert (Hwz2 : lx_wf z2) by eauto using adv_wf.
    destruct (pkr0 z2 Hwz2) as (cz & Hcz & _). rewrite Hcz. cbn [rbind].
    destruct (is_tagend cz || eof0 z2 cz).
    - destruct (negb isend) eqn:En; [cbn [safe fst]; split; [exact Haz2|split; [lia|exact I]]|].
      destruct (negb ins); cbn [safe fst sum_adv].
      + apply negb_false_iff in En. eapply (adv_rewind zs s z2); [exact Ha| |].
        * eapply adv_trans; [|exact Hz2]. unfold z1. rewrite En. apply adv_mv.
          -- lia.
          -- destruct Hz1 as (_ & _ & Hz1). unfold z1 in Hz1. rewrite En in Hz1. cbn [mv lpos] in Hz1.
             rewrite (adv_len _ _ Ha). lia.
        * unfold mark, z1. rewrite En. cbn [mv lpos lstart]. lia.
      + split; [exact Haz2|split; [lia|exact I]].
    - cbn [safe fst]. split; [exact Haz2|split; [lia|exact I]]. }
  destruct (eof0 s c) eqn:Ee; cbn [safe sum_adv fst]; [exact Ha|].
  split; [eapply adv_mv1; eauto|split; [cbn; lia|exact I]].
Qed.

Lemma script_comment_spec c zs b h : cfg_ok c -> lx_wf zs -> forall fuel, (Z.to_nat (lx_len zs - lpos zs) < fuel)%nat ->
  safe (loop fuel (script_comment_loop_body c) (zs, b, h)) (fun r => sum_adv zs (fst r)).
Proof.
  intros Hc Hw fuel Hf. unfold script_comment_loop_body.
  apply (with_tmpl_cloop c (fun s : lx * bool => fst s) (fun s z' => (z', snd s)) zs (fun _ => True));
    [exact Hc|exact Hw|reflexivity|tauto|apply script_comment_step; exact Hw|apply adv_refl, Hw|exact I|exact Hf].
Qed.

Definition shifted (z : lx) (v : sl) (z' : lx) : Prop :=
  lbuf z' = lbuf z /\ so v = lstart z /\ so v + sn v = lpos z' /\ lstart z' = lpos z' /\ lpos z <= lpos z' <= lx_len z.

Lemma shiftv_adv z0 z : lx_wf z0 -> adv z0 z -> safe (shiftv z) (fun r => shifted z0 (fst r) (snd r)).
Proof.
  intros Hw Ha. rewrite shiftv_spec by eauto using adv_wf. cbn [safe fst snd].
  destruct Ha as (H1 & H2 & H3). unfold shifted, skip. cbn [lbuf lstart lpos so sn].
  split; [exact H1|]. split; [exact H2|]. split; [lia|]. split; [reflexivity|lia].
Qed.

Lemma rawtext_loop_spec c raw z has : cfg_ok c -> lx_wf z ->
  safe (loop (fuel_of z) (rawtext_body c raw) (z, has)) (fun r => adv z (fst r)).
Proof.
  intros Hc Hw.
  apply (safe_cloop fst z (fun _ => True)); [|apply adv_refl, Hw|exact I|apply fuel_enough; reflexivity || lia].
  intros [s h0] Ha _. cbn [fst] in *. unfold rawtext_body.
  assert (Hws : lx_wf s) by eauto using adv_wf.
  peek0 s c0 Hc0 Hp0.
  eapply safe_bind; [apply skip_tmpl_spec; assumption|]. cbn beta. intros [zt|] Hsk.
  { destruct Hsk as [Hz1 Hz2]. cbn [safe fst]. split; [eauto using adv_trans|split; [exact Hz2|exact I]]. }
  destruct (c0 =? 60) eqn:E60.
  { peek1 s c0 Hp0 c1 Hc1 Hp1.
    destruct (c1 =? 47) eqn:E47.
    - assert (Hm2 : adv z (mv s 2)) by (apply (adv_mv_nz z s 1 c1); try assumption; nz || lia).
      eapply safe_bind; [apply letters_loop_spec; eauto using adv_wf|]. cbn beta. intros z2 (Hz2 & _).
      pose proof (adv_lpos_le _ _ Hz2) as Hle. cbn [mv lpos] in Hle.
      eapply safe_bind.
      { apply hash_lexeme_from_spec; [eauto using adv_wf|]. unfold mark.
        rewrite (adv_lstart _ _ Hz2). cbn [mv lstart]. destruct Hws as (_ & ? & _). lia. }
      cbn beta. intros h _.
      destruct (h =? raw); [|cbn [safe fst]; split; [eauto using adv_trans|split; [lia|exact I]]].
      assert (Hwz2 : lx_wf z2) by (eapply adv_wf; [|exact Hz2]; eauto using adv_wf).
      destruct (pkr0 z2 Hwz2) as (cz & Hcz & _). rewrite Hcz. cbn [rbind].
      destruct (is_tagend cz || eof0 z2 cz); cbn [safe fst].
      + eapply (adv_rewind z s z2); [exact Ha| |reflexivity].
        eapply adv_trans; [|exact Hz2]. apply adv_mv; [lia|]. destruct Hm2 as (_ & _ & Hm2). cbn [mv lpos] in Hm2.
        rewrite (adv_len _ _ Ha). lia.
      + split; [eauto using adv_trans|split; [lia|exact I]].
    - assert (Hm1 : adv z (mv s 1)) by (apply (adv_mv_nz z s 0 c0); try assumption; nz || lia).
      assert (Hsc : safe (if (raw =? html_hash_Script) && (c1 =? 33)
                          then c2 <-- pkr s 2;; (if c2 =? 45 then c3 <-- pkr s 3;; Ok (c3 =? 45) else Ok false)
                          else Ok false) (fun sc => sc = true -> lpos s + 4 <= lx_len s)).
      { destruct ((raw =? html_hash_Script) && (c1 =? 33)) eqn:E; [|cbn; discriminate].
        apply andb_true_iff in E. destruct E as [_ E33].
        peek2 s c1 Hp1 c2 Hc2 Hp2. destruct (c2 =? 45) eqn:E2; [|cbn; discriminate].
        peek3 s c2 Hp2 c3 Hc3 Hp3. cbn [safe]. intros E3.
        pose proof (pk_nz_lt s 3 c3 Hws Hp3 ltac:(nz)). lia. }
      eapply safe_bind; [exact Hsc|]. cbn beta. intros sc Hsc4.
      destruct sc; [|cbn [safe fst]; split; [exact Hm1|split; [cbn; lia|exact I]]].
      specialize (Hsc4 eq_refl).
      assert (Hm4 : adv z (mv s 4)) by (apply adv_mv'; [exact Ha|lia|lia]).
      eapply safe_bind.
      { apply script_comment_spec; [exact Hc|eauto using adv_wf|].
        unfold fuel_of, lx_len. cbn [mv lbuf lpos]. lia. }
      cbn beta. intros [r hr] Hr. cbn [fst] in Hr. destruct r as [z'|z']; cbn [sum_adv] in Hr; cbn [safe fst].
      + split; [eauto using adv_trans|split; [|exact I]]. apply adv_lpos_le in Hr. cbn [mv lpos] in Hr. lia.
      + eauto using adv_trans. }
  destruct (eof0 s c0) eqn:Ee; cbn [safe fst]; [exact Ha|].
  split; [eapply adv_mv1; eauto|split; [cbn; lia|exact I]].
Qed.

Lemma plaintext_loop_spec cf z has : cfg_ok cf -> lx_wf z ->
  safe (loop (fuel_of z) (with_tmpl_lx cf plaintext_body) (z, has)) (fun r => adv z (fst r)).
Proof.
  intros Hcf Hw. unfold with_tmpl_lx.
  apply (with_tmpl_cloop cf (fun s : lx => s) (fun _ z' => z') z (fun _ => True) (fun z' => adv z z')); [exact Hcf|exact Hw|reflexivity|tauto| |apply adv_refl, Hw|exact I|apply fuel_enough; reflexivity || lia].
  intros s Ha _. unfold plaintext_body. peek0 s c Hc Hp.
  destruct (eof0 s c) eqn:Ee; cbn [safe]; [exact Ha|].
  split; [eapply adv_mv1; eauto|split; [cbn; lia|exact I]].
Qed.

Lemma shift_rawtext_spec c raw z has : cfg_ok c -> lx_wf z ->
  safe (shift_rawtext c raw z has) (fun r => shifted z (fst (fst r)) (snd (fst r))).
Proof.
  intros Hc Hw. unfold shift_rawtext. destruct (raw =? html_hash_Plaintext).
  - eapply safe_bind; [apply plaintext_loop_spec; assumption|]. cbn beta. intros [z' hz] Hz'. cbn [fst snd] in *.
    eapply safe_bind; [apply (shiftv_adv z); assumption|]. cbn beta. intros r Hr. cbn. exact Hr.
  - eapply safe_bind; [apply rawtext_loop_spec; assumption|]. cbn beta. intros s Hs.
    eapply safe_bind; [apply (shiftv_adv z); assumption|]. cbn beta. intros r Hr. cbn. exact Hr.
Qed.

(* ---- bogus comment, markup ------------------------------------------------------------------------ *)
(* the token shifted at (mv z1 n) after the text view Lexeme()[k:] was taken at z1 *)
Lemma shift_with_text z z1 k n : lx_wf z -> adv z z1 -> 0 <= k -> lstart z + k <= lpos z1 -> 0 <= n ->
  lpos z1 + n <= lx_len z ->
  exists (t v : sl) (z' : lx), lexeme_from z1 k = Ok t /\ shiftv (mv z1 n) = Ok (v, z') /\
                 shifted z v z' /\ inview t v /\ so t = lstart z + k /\ lpos z' = lpos z1 + n.
Proof.
  intros Hw Ha Hk Hle Hn Hl.
  assert (Hw1 : lx_wf z1) by eauto using adv_wf.
  assert (Hm : adv z (mv z1 n)) by (apply adv_mv'; [exact Ha|lia|rewrite (adv_len _ _ Ha); lia]).
  rewrite lexeme_from_spec by (exact Hw1 || (rewrite (adv_lstart _ _ Ha); lia)).
  rewrite shiftv_spec by eauto using adv_wf.
  eexists _, _, _. split; [reflexivity|split; [reflexivity|]].
  destruct Ha as (A1 & A2 & A3). unfold shifted, inview, skip, mv. cbn [lbuf lstart lpos so sn].
  rewrite A2. repeat split; try lia; assumption.
Qed.

Lemma bogus_loop_spec cf z has : cfg_ok cf -> lx_wf z ->
  (lstart z + 2 <= lpos z \/ (lstart z + 1 <= lpos z /\ exists c, pk z 0 = Some c /\ c <> 62 /\ c <> 0)) ->
  safe (loop (fuel_of z) (with_tmpl_lx cf bogus_body) (z, has))
       (fun rh => let r := fst rh in adv z (fst r) /\ lstart z + 2 <= lpos (fst r) /\ 0 <= snd r <= 1 /\ lpos (fst r) + snd r <= lx_len z).
Proof.
  intros Hcfg Hw Hpre. unfold with_tmpl_lx.
  apply (with_tmpl_cloop cf (fun s : lx => s) (fun _ z' => z') z (fun s => lstart z + 2 <= lpos s \/ s = z)
           (fun r : lx * Z => adv z (fst r) /\ lstart z + 2 <= lpos (fst r) /\ 0 <= snd r <= 1 /\ lpos (fst r) + snd r <= lx_len z));
    [exact Hcfg|exact Hw|reflexivity| | |apply adv_refl, Hw|right; reflexivity|apply fuel_enough; reflexivity || lia].
  { intros s z' Hj Hadv Hlt. left. destruct Hj as [Hj| ->]; [lia|]. destruct Hpre as [?|[? _]]; lia. }
  intros s Ha Hj. unfold bogus_body. peek0 s c Hc Hp.
  assert (Hws : lx_wf s) by eauto using adv_wf.
  assert (Hbrk : lstart z + 2 <= lpos s \/ (c <> 62 /\ c <> 0)).
  { destruct Hj as [Hj| ->]; [left; exact Hj|]. destruct Hpre as [Hpre|(Hpre & c' & Hc' & H62 & H0)]; [left; exact Hpre|].
    right. rewrite Hp in Hc'. injection Hc' as ->. tauto. }
  destruct (c =? 62) eqn:E62.
  { cbn [safe fst snd]. destruct Hbrk as [Hb|[Hb _]]; [|b2p; congruence].
    pose proof (pk_nz_lt s 0 c Hws Hp ltac:(nz)). rewrite (adv_len _ _ Ha) in *. split; [exact Ha|lia]. }
  destruct (eof0 s c) eqn:Ee.
  { cbn [safe fst snd]. destruct Hbrk as [Hb|[_ Hb]].
    - split; [exact Ha|]. destruct Ha as (A1 & A2 & A3). lia.
    - unfold eof0 in Ee. b2p. congruence. }
  cbn [safe]. split; [eapply adv_mv1; eauto|split; [cbn; lia|]]. left. cbn [mv lpos].
  destruct Hbrk as [Hb|_]; [lia|]. destruct Hj as [Hj| ->]; [lia|]. destruct Hpre as [?|[? _]]; lia.
Qed.

Lemma shift_bogus_spec cf z has : cfg_ok cf -> lx_wf z ->
  (lstart z + 2 <= lpos z \/ (lstart z + 1 <= lpos z /\ exists c, pk z 0 = Some c /\ c <> 62 /\ c <> 0)) ->
  safe (shift_bogus cf z has) (fun rh => let r := fst rh in shifted z (fst (fst r)) (snd r) /\ inview (snd (fst r)) (fst (fst r)) /\
                                 so (fst (fst r)) < so (snd (fst r))).
Proof.
  intros Hcf Hw Hpre. unfold shift_bogus.
  eapply safe_bind; [apply bogus_loop_spec; assumption|]. cbn beta zeta. intros [[z1 n] hr] (Ha & H2 & Hn & Hl). cbn [fst snd] in *.
  destruct (shift_with_text z z1 2 n) as (t & v & z' & Ht & Hs & S1 & S2 & S3 & _); try assumption; try lia.
  rewrite Ht. cbn [rbind]. rewrite Hs. cbn [rbind safe fst snd]. split; [exact S1|split; [exact S2|]].
  destruct S1 as (_ & B2 & _). lia.
Qed.

Definition scan_post (z0 : lx) (r : lx * Z) : Prop :=
  adv z0 (fst r) /\ 0 <= snd r /\ lpos (fst r) + snd r <= lx_len z0.

Lemma nz3 a b c : a <> 0 -> b <> 0 -> c <> 0 -> nz_list [a; b; c].
Proof. intros. repeat constructor; assumption. Qed.

Lemma comment_loop_spec cf z0 has : cfg_ok cf -> lx_wf z0 -> forall fuel, (Z.to_nat (lx_len z0 - lpos z0) < fuel)%nat ->
  safe (loop fuel (with_tmpl_lx cf comment_body) (z0, has)) (fun rh => scan_post z0 (fst rh)).
Proof.
  intros Hcf Hw fuel Hf. unfold with_tmpl_lx.
  apply (with_tmpl_cloop cf (fun s : lx => s) (fun _ z' => z') z0 (fun _ => True) (scan_post z0)); [exact Hcf|exact Hw|reflexivity|tauto| |apply adv_refl, Hw|exact I|exact Hf].
  intros s Ha _. unfold comment_body. peek0 s c Hc Hp.
  assert (Hws : lx_wf s) by eauto using adv_wf.
  destruct (eof0 s c) eqn:Ee.
  { cbn [safe]. unfold scan_post. cbn [fst snd]. split; [exact Ha|]. destruct Ha as (_ & _ & ?). lia. }
  eapply safe_bind; [apply at_spec; [exact Hws|repeat constructor; lia]|]. cbn beta. intros a3 H3.
  destruct a3.
  { cbn [safe]. unfold scan_post. cbn [fst snd]. specialize (H3 eq_refl). change (len [45; 45; 62]) with 3 in H3.
    rewrite (adv_len _ _ Ha) in H3. split; [exact Ha|lia]. }
  eapply safe_bind; [apply at_spec; [exact Hws|repeat constructor; lia]|]. cbn beta. intros a4 H4.
  destruct a4.
  { cbn [safe]. unfold scan_post. cbn [fst snd]. specialize (H4 eq_refl). change (len [45; 45; 33; 62]) with 4 in H4.
    rewrite (adv_len _ _ Ha) in H4. split; [exact Ha|lia]. }
  cbn [safe]. split; [eapply adv_mv1; eauto|split; [cbn; lia|exact I]].
Qed.

Lemma cdata_loop_spec cf z0 has : cfg_ok cf -> lx_wf z0 -> forall fuel, (Z.to_nat (lx_len z0 - lpos z0) < fuel)%nat ->
  safe (loop fuel (with_tmpl_lx cf cdata_body) (z0, has)) (fun rh => scan_post z0 (fst rh)).
Proof.
  intros Hcf Hw fuel Hf. unfold with_tmpl_lx.
  apply (with_tmpl_cloop cf (fun s : lx => s) (fun _ z' => z') z0 (fun _ => True) (scan_post z0)); [exact Hcf|exact Hw|reflexivity|tauto| |apply adv_refl, Hw|exact I|exact Hf].
  intros s Ha _. unfold cdata_body. peek0 s c Hc Hp.
  assert (Hws : lx_wf s) by eauto using adv_wf.
  destruct (eof0 s c) eqn:Ee.
  { cbn [safe]. unfold scan_post. cbn [fst snd]. split; [exact Ha|]. destruct Ha as (_ & _ & ?). lia. }
  eapply safe_bind; [apply at_spec; [exact Hws|repeat constructor; lia]|]. cbn beta. intros a3 H3.
  destruct a3.
  { cbn [safe]. unfold scan_post. cbn [fst snd]. specialize (H3 eq_refl). change (len [93; 93; 62]) with 3 in H3.
    rewrite (adv_len _ _ Ha) in H3. split; [exact Ha|lia]. }
  cbn [safe]. split; [eapply adv_mv1; eauto|split; [cbn; lia|exact I]].
Qed.

Lemma doctype_loop_spec cf z0 has : cfg_ok cf -> lx_wf z0 -> forall fuel, (Z.to_nat (lx_len z0 - lpos z0) < fuel)%nat ->
  safe (loop fuel (with_tmpl_lx cf doctype_body) (z0, has)) (fun rh => scan_post z0 (fst rh)).
Proof.
  intros Hcf Hw fuel Hf. unfold with_tmpl_lx.
  apply (with_tmpl_cloop cf (fun s : lx => s) (fun _ z' => z') z0 (fun _ => True) (scan_post z0)); [exact Hcf|exact Hw|reflexivity|tauto| |apply adv_refl, Hw|exact I|exact Hf].
  intros s Ha _. unfold doctype_body. peek0 s c Hc Hp.
  assert (Hws : lx_wf s) by eauto using adv_wf.
  destruct (c =? 62) eqn:E62.
  { cbn [orb safe]. unfold scan_post. cbn [fst snd]. pose proof (pk_nz_lt s 0 c Hws Hp ltac:(nz)).
    rewrite (adv_len _ _ Ha) in *. split; [exact Ha|lia]. }
  cbn [orb]. destruct (eof0 s c) eqn:Ee.
  { cbn [safe]. unfold scan_post. cbn [fst snd]. split; [exact Ha|]. destruct Ha as (_ & _ & ?). lia. }
  cbn [safe]. split; [eapply adv_mv1; eauto|split; [cbn; lia|exact I]].
Qed.

Lemma endtag_loop_spec cf z0 has : cfg_ok cf -> lx_wf z0 -> forall fuel, (Z.to_nat (lx_len z0 - lpos z0) < fuel)%nat ->
  safe (loop fuel (with_tmpl_lx cf endtag_body) (z0, has)) (fun rh => scan_post z0 (fst rh)).
Proof.
  intros Hcf Hw fuel Hf. unfold with_tmpl_lx.
  apply (with_tmpl_cloop cf (fun s : lx => s) (fun _ z' => z') z0 (fun _ => True) (scan_post z0)); [exact Hcf|exact Hw|reflexivity|tauto| |apply adv_refl, Hw|exact I|exact Hf].
  intros s Ha _. unfold endtag_body. peek0 s c Hc Hp.
  assert (Hws : lx_wf s) by eauto using adv_wf.
  destruct (c =? 62) eqn:E62.
  { cbn [safe]. unfold scan_post. cbn [fst snd]. pose proof (pk_nz_lt s 0 c Hws Hp ltac:(nz)).
    rewrite (adv_len _ _ Ha) in *. split; [exact Ha|lia]. }
  destruct (eof0 s c) eqn:Ee.
  { cbn [safe]. unfold scan_post. cbn [fst snd]. split; [exact Ha|]. destruct Ha as (_ & _ & ?). lia. }
  cbn [safe]. split; [eapply adv_mv1; eauto|split; [cbn; lia|exact I]].
Qed.

(* common tail: l.text = Lexeme()[k:]; Move(n); Shift() *)
Lemma scan_post_trans z0 z r : adv z0 z -> scan_post z r -> scan_post z0 r /\ lpos z <= lpos (fst r).
Proof.
  intros Ha (H1 & H2 & H3). unfold scan_post. rewrite (adv_len _ _ Ha) in H3.
  split; [split; [eauto using adv_trans|lia]|apply adv_lpos_le, H1].
Qed.

Lemma text_shift_tail {A} z k (r : lx * Z) (f : sl -> sl -> lx -> A) (Q : A -> Prop) :
  lx_wf z -> scan_post z r -> 0 <= k -> lstart z + k <= lpos (fst r) ->
  (forall t v z', shifted z v z' -> inview t v -> so t = lstart z + k -> lpos z' = lpos (fst r) + snd r -> Q (f t v z')) ->
  safe (t <-- lexeme_from (fst r) k ;; s <-- shiftv (mv (fst r) (snd r)) ;; Ok (f t (fst s) (snd s))) Q.
Proof.
  intros Hw (Ha & Hn & Hl) Hk Hle HQ.
  destruct (shift_with_text z (fst r) k (snd r)) as (t & v & z' & Ht & Hs & S1 & S2 & S3 & S4); try assumption.
  rewrite Ht. cbn [rbind]. rewrite Hs. cbn [rbind safe fst snd]. apply HQ; assumption.
Qed.

Definition markup_post (z : lx) (r : Z * sl * sl * lx) : Prop :=
  let '(ty, v, t, z') := r in
  shifted z v z' /\ inview t v /\ (ty = CommentT \/ ty = TextT \/ ty = DoctypeT) /\ lpos z <= lpos z' /\ so v < so t.

Lemma read_markup_spec cf z has : cfg_ok cf -> lx_wf z -> lpos z = lstart z + 2 ->
  safe (read_markup cf z has) (fun r => markup_post z (fst r)).
Proof.
  intros Hcf Hw Hpos. unfold read_markup.
  eapply safe_bind; [apply at_spec; [exact Hw|repeat constructor; lia]|]. cbn beta. intros a Ha.
  destruct a.
  { specialize (Ha eq_refl). change (len [45; 45]) with 2 in Ha.
    eapply safe_bind.
    { apply (comment_loop_spec cf (mv z 2)); [exact Hcf|apply (adv_wf z); [exact Hw|apply adv_mv; lia]|]. unfold fuel_of, lx_len. cbn [mv lbuf lpos]. lia. }
    cbn beta zeta. intros [r hr] Hr. cbn [fst snd] in *. apply (scan_post_trans z) in Hr; [|apply adv_mv; lia]. destruct Hr as [Hr Hle]. cbn [mv lpos] in Hle.
    apply (text_shift_tail z 4 r (fun t v z' => (CommentT, v, t, z', hr)) (fun x => markup_post z (fst x))); try assumption; try lia.
    intros t v z' S1 S2 S3 S4. unfold markup_post. cbn [fst]. split; [exact S1|split; [exact S2|split; [tauto|]]].
    destruct Hr as (_ & ? & _). destruct S1 as (_ & B2 & _). split; lia. }
  clear Ha.
  eapply safe_bind; [apply at_spec; [exact Hw|repeat constructor; lia]|]. cbn beta. intros a Ha.
  destruct a.
  { specialize (Ha eq_refl). change (len [91; 67; 68; 65; 84; 65; 91]) with 7 in Ha.
    eapply safe_bind.
    { apply (cdata_loop_spec cf (mv z 7)); [exact Hcf|apply (adv_wf z); [exact Hw|apply adv_mv; lia]|]. unfold fuel_of, lx_len. cbn [mv lbuf lpos]. lia. }
    cbn beta zeta. intros [r hr] Hr. cbn [fst snd] in *. apply (scan_post_trans z) in Hr; [|apply adv_mv; lia]. destruct Hr as [Hr Hle]. cbn [mv lpos] in Hle.
    apply (text_shift_tail z 9 r (fun t v z' => (TextT, v, t, z', hr)) (fun x => markup_post z (fst x))); try assumption; try lia.
    intros t v z' S1 S2 S3 S4. unfold markup_post. cbn [fst]. split; [exact S1|split; [exact S2|split; [tauto|]]].
    destruct Hr as (_ & ? & _). destruct S1 as (_ & B2 & _). split; lia. }
  clear Ha.
  eapply safe_bind.
  { apply (atci_from_spec z [100; 111; 99; 116; 121; 112; 101] Hw); [repeat constructor; lia|lia|destruct Hw as (_ & _ & ?); lia]. }
  cbn beta. intros a Ha.
  destruct a.
  { specialize (Ha eq_refl). change (len [100; 111; 99; 116; 121; 112; 101]) with 7 in Ha.
    assert (Ha7 : adv z (mv z 7)) by (apply adv_mv; lia).
    assert (Hw7 : lx_wf (mv z 7)) by eauto using adv_wf.
    destruct (pkr0 (mv z 7) Hw7) as (c & Hc & Hp). rewrite Hc. cbn [rbind].
    set (z2 := if c =? 32 then mv (mv z 7) 1 else mv z 7).
    assert (Hz2 : adv z z2 /\ lpos z + 7 <= lpos z2).
    { unfold z2. destruct (c =? 32) eqn:E; [|split; [exact Ha7|cbn; lia]].
      split; [apply (adv_mv_nz z (mv z 7) 0 c); try assumption; nz || lia|cbn; lia]. }
    destruct Hz2 as [Hz2 Hz2p].
    eapply safe_bind.
    { apply (doctype_loop_spec cf z2); [exact Hcf|eauto using adv_wf|]. unfold fuel_of, lx_len. lia. }
    cbn beta zeta. intros [r hr] Hr. cbn [fst snd] in *. apply (scan_post_trans z) in Hr; [|exact Hz2]. destruct Hr as [Hr Hle].
    apply (text_shift_tail z 9 r (fun t v z' => (DoctypeT, v, t, z', hr)) (fun x => markup_post z (fst x))); try assumption; try lia.
    intros t v z' S1 S2 S3 S4. unfold markup_post. cbn [fst]. split; [exact S1|split; [exact S2|split; [tauto|]]].
    destruct Hr as (_ & ? & _). destruct S1 as (_ & B2 & _). split; lia. }
  eapply safe_bind; [apply shift_bogus_spec; [exact Hcf|exact Hw|left; lia]|]. cbn beta zeta.
  intros [[[v t] z'] hr] (S1 & S2 & S3). cbn [fst snd safe markup_post] in *. split; [exact S1|split; [exact S2|split; [tauto|]]].
  destruct S1 as (_ & _ & _ & _ & ?). split; [lia|exact S3].
Qed.

(* ---- shiftXML --------------------------------------------------------------------------------------- *)
Lemma xml_loop_spec cf raw z : cfg_ok cf -> lx_wf z -> forall fuel, (Z.to_nat (lx_len z - lpos z) < fuel)%nat ->
  forall it q sk has, safe (loop fuel (with_tmpl cf xml_cur xml_setc (xml_body raw)) (z, it, q, sk, has)) (fun r => sum_adv z (fst r) /\ (has = true -> snd r = true)).
Proof.
  intros Hcf Hw fuel Hf it0 q sk0 has.
  apply (with_tmpl_cloop_has cf xml_cur xml_setc z (fun _ => True) (sum_adv z)); [exact Hcf|exact Hw|reflexivity|tauto| |apply adv_refl, Hw|exact I|exact Hf].
  intros [[[s it] q0] sk] Ha _. unfold xml_cur in *. cbn [fst] in *. unfold xml_body.
  assert (Hws : lx_wf s) by eauto using adv_wf.
  peek0 s c Hc Hp.
  (* a step of n >= 1 bytes that stay inside the input *)
  assert (Hmove : forall n (it' : bool) (q' sk' : Z), 1 <= n -> lpos s + n <= lx_len s ->
            adv z (fst (fst (fst (mv s n, it', q', sk')))) /\ lpos s < lpos (fst (fst (fst (mv s n, it', q', sk')))) /\ True).
  { intros n it' q' sk' Hn Hle. cbn [fst]. split; [apply adv_mv'; [exact Ha|lia|exact Hle]|split; [cbn; lia|exact I]]. }
  assert (Hstep : forall (it' : bool) (q' sk' : Z), (c =? 0) = false ->
            adv z (fst (fst (fst (mv s 1, it', q', sk')))) /\ lpos s < lpos (fst (fst (fst (mv s 1, it', q', sk')))) /\ True).
  { intros it' q' sk' E0. apply Hmove; [lia|]. pose proof (pk_nz_lt s 0 c Hws Hp ltac:(nz)). lia. }
  destruct (negb (sk =? 0) && negb (c =? 0)) eqn:Esk.
  { apply andb_true_iff in Esk. destruct Esk as [_ Esk]. apply negb_true_iff in Esk.
    assert (Hat : forall pat, nz_list pat -> safe (at_ s pat) (fun b => b = true -> lpos s + len pat <= lx_len s)) by (intros pat Hn; apply at_spec; assumption).
    eapply safe_bind.
    { instantiate (1 := fun b => b = true -> lpos s + 3 <= lx_len s).
      destruct (sk =? 1); [apply (Hat [45; 45; 62]); repeat constructor; lia|].
      destruct (sk =? 2); [apply (Hat [93; 93; 62]); repeat constructor; lia|]. cbn. discriminate. }
    cbn beta. intros a Ha3. destruct a; [cbn [safe]; apply Hmove; [lia|apply Ha3; reflexivity]|].
    eapply safe_bind.
    { instantiate (1 := fun b => b = true -> lpos s + 2 <= lx_len s).
      destruct (sk =? 3); [apply (Hat [63; 62]); repeat constructor; lia|]. cbn. discriminate. }
    cbn beta. intros b Hb2. destruct b; cbn [safe]; [apply Hmove; [lia|apply Hb2; reflexivity]|apply Hstep; exact Esk]. }
  destruct (negb (q0 =? 0) && negb (c =? 0)) eqn:Eq.
  { cbn [safe]. apply Hstep. apply andb_true_iff in Eq. destruct Eq as [_ Eq]. apply negb_true_iff in Eq. exact Eq. }
  destruct (it && negb (c =? 0)) eqn:Ei.
  { cbn [safe]. apply Hstep. apply andb_true_iff in Ei. destruct Ei as [_ Ei]. apply negb_true_iff in Ei. exact Ei. }
  destruct (c =? 60) eqn:E60.
  { peek1 s c Hp c1 Hc1 Hp1.
    destruct (negb (c1 =? 47)) eqn:E47.
    { assert (Hc0 : (c =? 0) = false) by (b2p; subst c; reflexivity).
      eapply safe_bind; [apply (at_spec s [60; 33; 45; 45] Hws); repeat constructor; lia|]. cbn beta. intros a1 Ha1.
      destruct a1; [cbn [safe]; apply Hmove; [lia|apply Ha1; reflexivity]|].
      eapply safe_bind; [apply (at_spec s [60; 33; 91; 67; 68; 65; 84; 65; 91] Hws); repeat constructor; lia|]. cbn beta. intros a2 Ha2.
      destruct a2; [cbn [safe]; apply Hmove; [lia|apply Ha2; reflexivity]|].
      destruct (c1 =? 63) eqn:E63; cbn [safe]; [|apply Hstep; exact Hc0].
      apply Hmove; [lia|]. pose proof (pk_nz_lt s 1 c1 Hws Hp1 ltac:(nz)). lia. }
    apply negb_false_iff in E47.
    assert (He2 : lpos s + 2 <= lx_len s) by (pose proof (pk_nz_lt s 1 c1 Hws Hp1 ltac:(nz)); lia).
    assert (Hm2 : adv z (mv s 2)) by (apply adv_mv'; [exact Ha|lia|lia]).
    eapply safe_bind; [apply letters_loop_spec; eauto using adv_wf|]. cbn beta. intros z2 (Hz2 & _).
    pose proof (adv_lpos_le _ _ Hz2) as Hle. cbn [mv lpos] in Hle.
    eapply safe_bind.
    { apply hash_lexeme_from_spec; [eauto using adv_wf|]. unfold mark.
      rewrite (adv_lstart _ _ Hz2). cbn [mv lstart]. destruct Hws as (_ & ? & _). lia. }
    cbn beta. intros h _.
    destruct (h =? raw); cbn [safe fst sum_adv]; [eauto using adv_trans|].
    split; [eauto using adv_trans|split; [lia|exact I]]. }
  destruct (c =? 0) eqn:E0; cbn [safe fst sum_adv]; [exact Ha|].
  apply (Hstep it q0 sk). reflexivity.
Qed.

Lemma xml_close_loop_spec cf z has : cfg_ok cf -> lx_wf z -> forall fuel, (Z.to_nat (lx_len z - lpos z) < fuel)%nat ->
  safe (loop fuel (with_tmpl_lx cf xml_close_body) (z, has)) (fun r => sum_adv z (fst r) /\ (has = true -> snd r = true)).
Proof.
  intros Hcf Hw fuel Hf. unfold with_tmpl_lx.
  apply (with_tmpl_cloop_has cf (fun s : lx => s) (fun _ z' => z') z (fun _ => True) (sum_adv z)); [exact Hcf|exact Hw|reflexivity|tauto| |apply adv_refl, Hw|exact I|exact Hf].
  intros s Ha _. unfold xml_close_body.
  assert (Hws : lx_wf s) by eauto using adv_wf.
  peek0 s c Hc Hp.
  destruct (c =? 62) eqn:E62.
  { cbn [safe sum_adv]. apply (adv_mv_nz z s 0 c); try assumption; nz || lia. }
  destruct (c =? 0) eqn:E0; cbn [safe sum_adv]; [exact Ha|].
  split; [apply (adv_mv_nz z s 0 c); try assumption; nz || lia|split; [cbn; lia|exact I]].
Qed.

Lemma shift_xml_spec cf raw z err has : cfg_ok cf -> lx_wf z ->
  safe (shift_xml cf raw z err has) (fun r => shifted z (fst (fst (fst r))) (snd (fst (fst r))) /\ (err = true -> snd (fst r) = true) /\
                                                (has = true -> snd r = true)).
Proof.
  intros Hcf Hw. unfold shift_xml.
  eapply safe_bind; [apply xml_loop_spec; [exact Hcf|exact Hw|apply fuel_enough; reflexivity || lia]|]. cbn beta.
  intros [[z'|z'] hr] [Hr Hh1]; cbn [sum_adv fst snd] in *.
  - eapply safe_bind; [apply xml_close_loop_spec; [exact Hcf|eauto using adv_wf|]|].
    { unfold fuel_of, lx_len. lia. }
    cbn beta. intros [[z''|z''] hr2] [Hr2 Hh2]; cbn [sum_adv fst snd] in *.
    + eapply safe_bind; [apply (shiftv_adv z); [exact Hw|eauto using adv_trans]|]. cbn beta. intros s Hs.
      cbn [safe fst snd]. split; [exact Hs|tauto].
    + eapply safe_bind; [apply (shiftv_adv z); [exact Hw|eauto using adv_trans]|]. cbn beta. intros s Hs.
      cbn [safe fst snd]. split; [exact Hs|]. split; [intros ->; reflexivity|tauto].
  - eapply safe_bind; [apply (shiftv_adv z); assumption|]. cbn beta. intros s Hs.
    cbn [safe fst snd]. split; [exact Hs|]. split; [intros ->; reflexivity|tauto].
Qed.

(* ---- shiftEndTag ------------------------------------------------------------------------------------ *)
Lemma trim_rev_len r : len (trim_rev r) <= len r.
Proof.
  induction r as [|c t IH]; cbn [trim_rev]; [lia|]. destruct (is_ws c); [rewrite len_cons; lia|lia].
Qed.

Lemma trim_end_len_bound bs : 0 <= trim_end_len bs <= len bs.
Proof.
  unfold trim_end_len. pose proof (trim_rev_len (rev bs)). pose proof (len_nonneg (trim_rev (rev bs))).
  unfold len in *. rewrite rev_length in *. lia.
Qed.

(* what a buffer-writing helper does to the cursor: the bytes of view w, inside the token, were lower-cased *)
Definition shifted_low (z : lx) (v w : sl) (z' : lx) : Prop :=
  lbuf z' = lower_view (lbuf z) w /\ inview w v /\
  so v = lstart z /\ so v + sn v = lpos z' /\ lstart z' = lpos z' /\ lpos z <= lpos z' <= lx_len z.

Lemma endtag_loop_end cf z has fuel rh : loop fuel (with_tmpl_lx cf endtag_body) (z, has) = Ok rh ->
  (snd (fst rh) = 1 /\ pk (fst (fst rh)) 0 = Some 62) \/ (snd (fst rh) = 0 /\ at_end (fst (fst rh)) = true).
Proof.
  intros H. unfold with_tmpl_lx in H.
  refine (with_tmpl_inv cf _ _ (fun _ => True)
            (fun rh : lx * Z * bool => (snd (fst rh) = 1 /\ pk (fst (fst rh)) 0 = Some 62) \/ (snd (fst rh) = 0 /\ at_end (fst (fst rh)) = true))
            endtag_body _ _ fuel (z, has) rh I H); [tauto|].
  clear. intros s h x _ Hx. unfold endtag_body, pkr in Hx.
  destruct (pk s 0) as [c|] eqn:Hp; cbn [opt_res rbind] in Hx; [|discriminate].
  destruct (c =? 62) eqn:E62; [injection Hx as <-; left; cbn [fst snd]; b2p; subst; tauto|].
  destruct (eof0 s c) eqn:Ee; injection Hx as <-; [|exact I].
  right. cbn [fst snd]. unfold eof0 in Ee. b2p. tauto.
Qed.

Lemma name_run_bound tb bs : 0 <= name_run tb bs <= len bs.
Proof.
  induction bs as [|c t IH]; cbn [name_run]; [change (len (@nil Z)) with 0; lia|]. rewrite len_cons. destruct (is_tagend c); [lia|].
  destruct (match tb with [] => false | _ :: _ => prefixb tb (c :: t) end); lia.
Qed.

(* with delimiters the name can only be shorter *)
Lemma name_run_le tb bs : name_run tb bs <= name_run [] bs.
Proof.
  induction bs as [|c t IH]; cbn [name_run]; [lia|]. destruct (is_tagend c); [lia|].
  pose proof (name_run_bound [] t). destruct (match tb with [] => false | _ :: _ => prefixb tb (c :: t) end); lia.
Qed.

(* the view of the tag name inside an end-tag token v of buffer buf: data[2:n] *)
Definition endtag_name_view (tb : list Z) (buf : list Z) (v : sl) : sl := mkSl (so v + 2) (name_run tb (skipz 2 (view_bytes buf v))).

Definition endtag_post (tb : list Z) (z : lx) (r : sl * sl * lx) : Prop :=
  let '(v, t', z'') := r in
  shifted_low z v (endtag_name_view tb (lbuf z) v) z'' /\ inview t' v /\ lx_wf z'' /\ so t' = so v + 2 /\
  exists k, 0 <= k /\ so v + 2 + k <= so v + sn v <= so v + 2 + k + 1 /\
            sn t' = trim_end_len (view_bytes (lbuf z) (mkSl (so v + 2) k)) /\
            (so v + sn v = so v + 2 + k + 1 -> peekz (lbuf z) (so v + 2 + k) = Some 62).

Lemma shift_endtag_spec cf z has : cfg_ok cf -> lx_wf z -> lstart z + 2 <= lpos z ->
  safe (shift_endtag cf z has) (fun r => endtag_post (tb cf) z (fst r)).
Proof.
  intros Hcf Hw Hpre. unfold shift_endtag.
  destruct (safe_inv _ _ (endtag_loop_spec cf z has Hcf Hw (fuel_of z) ltac:(apply fuel_enough; reflexivity || lia))) as ([r hr] & Er & Hr).
  rewrite Er. cbn [rbind fst snd]. cbn [fst] in Hr. pose proof Hr as (Ha & Hn & Hl).
  pose proof (endtag_loop_end _ _ _ _ _ Er) as Hend. cbn [fst snd] in Hend.
  assert (Hn1 : snd r <= 1) by (destruct Hend as [[-> _]|[-> _]]; lia).
  assert (Hgt : snd r = 1 -> peekz (lbuf z) (lpos (fst r)) = Some 62).
  { intros E1. destruct Hend as [[_ Hpk]|[E0 _]]; [|lia]. unfold pk in Hpk. destruct Ha as (Hb & _). rewrite Hb, Z.add_0_r in Hpk. exact Hpk. }
  pose proof (adv_lpos_le _ _ Ha) as Hle.
  destruct (shift_with_text z (fst r) 2 (snd r)) as (t & v & z' & Ht & Hs & S1 & S2 & S3 & S4); try assumption; try lia.
  rewrite Ht. cbn [rbind]. rewrite Hs. cbn [rbind fst snd].
  pose proof (lx_wf_len z Hw) as [Hlen _].
  assert (Hs0 : 0 <= lstart z) by (destruct Hw as (_ & ? & _); lia).
  destruct S1 as (B1 & B2 & B3 & B4 & B5). destruct S2 as (I1 & I2 & I3).
  assert (Hw' : lx_wf z').
  { destruct Hw as ((d & Hd) & Hs1 & Hp1). unfold lx_wf. rewrite (lx_len_same z z' B1), B1. split; [eauto|lia]. }
  assert (Hsn : 2 <= sn v) by lia.
  replace (2 <=? sn v) with true by (symmetry; apply Z.leb_le; exact Hsn). cbn [safe endtag_post].
  set (n := name_run (tb cf) (skipz 2 (view_bytes (lbuf z) v))).
  assert (Hnb : 0 <= n <= sn v - 2).
  { unfold n. pose proof (name_run_bound (tb cf) (skipz 2 (view_bytes (lbuf z) v))) as Hb.
    rewrite len_skipz in Hb by (rewrite len_view_bytes by lia; lia). rewrite len_view_bytes in Hb by lia. lia. }
  (* the text view was taken n bytes before the end of the token, n = 0 or 1 *)
  rewrite lexeme_from_spec in Ht by (eauto using adv_wf || (rewrite (adv_lstart _ _ Ha); lia)). injection Ht as <-.
  cbn [so sn] in *. rewrite (adv_lstart _ _ Ha) in *.
  split; [|split; [|split; [|split]]].
  - unfold shifted_low, lx_lower, endtag_name_view. cbn [lbuf lstart lpos]. fold n. rewrite B1.
    split; [reflexivity|]. split; [unfold inview; cbn [so sn]; lia|]. tauto.
  - pose proof (trim_end_len_bound (view_bytes (lbuf z) (mkSl (lstart z + 2) (lpos (fst r) - lstart z - 2)))) as Hb.
    rewrite len_view_bytes in Hb by (cbn [so sn]; lia). unfold inview. cbn [so sn] in *. lia.
  - apply lx_lower_wf; [exact Hw'|cbn [so sn]; lia|cbn [so sn]; lia|]. cbn [so sn]. rewrite (lx_len_same z z' B1). lia.
  - cbn [so]. lia.
  - exists (lpos (fst r) - lstart z - 2). split; [lia|]. split; [lia|]. cbn [sn]. rewrite B2. split; [reflexivity|].
    intros E. replace (lstart z + 2 + (lpos (fst r) - lstart z - 2)) with (lpos (fst r)) by lia. apply Hgt. lia.
Qed.

(* ---- shiftStartTag ---------------------------------------------------------------------------------- *)
Lemma starttag_loop_spec c z : cfg_ok c -> lx_wf z ->
  safe (loop (fuel_of z) (starttag_body c) z) (fun z' => adv z z').
Proof.
  intros Hc Hw.
  apply (safe_cloop (fun s => s) z (fun _ => True)); [|apply adv_refl, Hw|exact I|apply fuel_enough; reflexivity || lia].
  intros s Ha _. unfold starttag_body.
  assert (Hws : lx_wf s) by eauto using adv_wf.
  peek0 s c0 Hc0 Hp0.
  assert (Hb : safe (if (c0 =? 32) || (c0 =? 62) then Ok true
                     else s0 <-- (if c0 =? 47 then c1 <-- pkr s 1;; Ok (c1 =? 62) else Ok false);;
                          (if s0 then Ok true
                           else if (c0 =? 9) || (c0 =? 10) || (c0 =? 13) || (c0 =? 12) || eof0 s c0 then Ok true
                                else tmpl_at c s))
                    (fun b => b = false -> eof0 s c0 = false)).
  { destruct ((c0 =? 32) || (c0 =? 62)); [cbn; discriminate|].
    eapply safe_bind with (P := fun _ => True).
    { destruct (c0 =? 47) eqn:E47; [|exact I]. peek1 s c0 Hp0 c1 Hc1 Hp1. exact I. }
    cbn beta. intros s0 _. destruct s0; [cbn; discriminate|].
    destruct (eof0 s c0).
    - rewrite orb_true_r. cbn. discriminate.
    - destruct ((c0 =? 9) || (c0 =? 10) || (c0 =? 13) || (c0 =? 12) || false); [cbn; discriminate|].
      eapply safe_mono; [apply tmpl_at_spec; assumption|]. cbn beta. intros; reflexivity. }
  eapply safe_bind; [exact Hb|]. cbn beta. intros b Hbf. destruct b; cbn [safe]; [exact Ha|].
  split; [eapply adv_mv1; eauto|split; [cbn; lia|exact I]].
Qed.

Definition starttag_post (l : lexer) (z : lx) (r : Z * option sl * lexer) : Prop :=
  let '(ty, tk, l') := r in
  exists t, ltext l' = Some t /\ so t = lstart z + 1 /\ 0 <= sn t /\ so t + sn t <= lpos (lz l') /\
    lbuf (lz l') = lower_view (lbuf z) t /\ lx_wf (lz l') /\ lstart (lz l') = lpos (lz l') /\
    lpos z <= lpos (lz l') <= lx_len z /\ lattr l' = lattr l /\ (lhas l = true -> lhas l' = true) /\ (lerr l = true -> lerr l' = true) /\
    ((ty = StartTagT /\ tk = Some (mkSl (lstart z) (sn t + 1)) /\ lstart z + 1 + sn t = lpos (lz l') /\
      intag l' = true /\ lerr l' = lerr l)
     \/ ((ty = SvgT \/ ty = MathT \/ ty = XmlT) /\ tk = Some (mkSl (lstart z) (lpos (lz l') - lstart z)) /\
         intag l' = false /\ lerr l' = false /\ rawtag l' = rawtag l)
     \/ (ty = ErrorT /\ tk = None /\ intag l' = true /\ lerr l' = true /\ rawtag l' = rawtag l)).

Lemma shift_starttag_spec c l z : cfg_ok c -> lx_wf z -> lpos z = lstart z + 1 ->
  safe (shift_starttag c l z) (starttag_post l z).
Proof.
  intros Hc Hw Hpos. unfold shift_starttag.
  eapply safe_bind; [apply starttag_loop_spec; assumption|]. cbn beta. intros z1 Ha.
  assert (Hw1 : lx_wf z1) by eauto using adv_wf.
  pose proof (adv_lpos_le _ _ Ha) as Hle. pose proof (adv_lstart _ _ Ha) as Hst.
  destruct Ha as (A1 & A2 & A3).
  rewrite lexeme_from_spec by (exact Hw1 || lia). cbn [rbind].
  set (t := mkSl (lstart z1 + 1) (lpos z1 - lstart z1 - 1)).
  assert (Hs0 : 0 <= lstart z) by (destruct Hw as (_ & ? & _); lia).
  assert (Hw2 : lx_wf (lx_lower z1 t)).
  { apply lx_lower_wf; [exact Hw1|cbn; lia|cbn; lia|cbn; rewrite (lx_len_same z z1 A1); lia]. }
  assert (Hlen2 : lx_len (lx_lower z1 t) = lx_len z).
  { rewrite lx_lower_len; [apply lx_len_same, A1|exact Hw1|cbn; lia|cbn; lia|cbn; rewrite (lx_len_same z z1 A1); lia]. }
  eapply safe_bind; [apply safe_to_hash|]. cbn beta. intros h _.
  assert (Hst_tok : forall (rt : Z) (e : bool),
    let s := (mkSl (lstart z1) (lpos z1 - lstart z1), skip (lx_lower z1 t)) in
    starttag_post l z (StartTagT, Some (fst s), mkL (snd s) rt true (lerr l) (Some t) (lattr l) (lhas l))).
  { intros rt e. cbn [fst snd starttag_post]. exists t. cbn [ltext lz lattr lhas intag lerr].
    unfold skip, lx_lower. cbn [lbuf lstart lpos so sn t].
    split; [reflexivity|]. split; [lia|]. split; [lia|]. split; [lia|].
    split; [rewrite A1; reflexivity|]. split.
    { destruct Hw2 as ((d & Hd) & _ & Hp2). unfold lx_wf, lx_len in *. cbn [lbuf lstart lpos lx_lower] in *. split; [eauto|lia]. }
    split; [reflexivity|]. split; [lia|]. split; [reflexivity|]. split; [tauto|]. split; [tauto|].
    left. split; [reflexivity|]. split; [f_equal; f_equal; lia|]. split; [lia|tauto]. }
  destruct (is_raw_hash h).
  - destruct (is_xml_hash h).
    + eapply safe_bind; [apply shift_xml_spec; [exact Hc|exact Hw2]|]. cbn beta. intros [[[d z3] e] hx] (Hs & Hee & Hhx). cbn [fst snd] in Hs, Hee, Hhx.
      destruct Hs as (B1 & B2 & B3 & B4 & B5). rewrite Hlen2 in B5.
      unfold lx_lower in B1, B2, B5. cbn [lbuf lstart lpos] in B1, B2, B5.
      assert (Hw3 : lx_wf z3).
      { destruct Hw2 as ((d2 & Hd2) & _ & _). unfold lx_wf. rewrite (lx_len_same (lx_lower z1 t) z3 B1), Hlen2.
        split; [exists d2; rewrite B1; exact Hd2|lia]. }
      assert (Hcommon : forall ty tk it, 
         ((ty = SvgT \/ ty = MathT \/ ty = XmlT) /\ tk = Some d /\ it = false /\ e = false) \/ (ty = ErrorT /\ tk = None /\ it = true /\ e = true) ->
         starttag_post l z (ty, tk, mkL z3 (rawtag l) it e (Some t) (lattr l) hx)).
      { intros ty tk it Hcase. cbn [starttag_post]. exists t. cbn [ltext lz lattr lhas intag lerr rawtag].
        split; [reflexivity|]. split; [cbn; lia|]. split; [cbn; lia|]. split; [cbn; lia|].
        split; [rewrite B1, A1; reflexivity|]. split; [exact Hw3|]. split; [exact B4|]. split; [lia|].
        split; [reflexivity|]. split; [|split; [exact Hee|]].
        { exact Hhx. }
        right. destruct Hcase as [(H1 & -> & -> & ->)|(-> & -> & -> & ->)]; [left|right; tauto].
        split; [exact H1|]. split; [|tauto]. f_equal. destruct d as [o n]. cbn [so sn] in *. f_equal; lia. }
      destruct e; cbn [safe].
      * apply Hcommon. right. tauto.
      * apply Hcommon. left. split; [|tauto].
        destruct (h =? html_hash_Svg); [tauto|]. destruct (h =? html_hash_Math); tauto.
    + rewrite shiftv_spec by exact Hw2. cbn [rbind safe]. apply (Hst_tok h true).
  - rewrite shiftv_spec by exact Hw2. cbn [rbind safe]. apply (Hst_tok (rawtag l) true).
Qed.

(* ---- shiftAttribute --------------------------------------------------------------------------------- *)
Definition name_stop (z : lx) (c : Z) : Prop :=
  c = 61 \/ is_ws c = true \/ c = 62 \/ eof0 z c = true \/ (c = 47 /\ pk z 1 = Some 62).

Lemma attrname_loop_spec c zs has : cfg_ok c -> lx_wf zs ->
  safe (loop (fuel_of zs) (attrname_body c) (zs, has))
       (fun r => adv zs (fst r) /\ (has = true -> snd r = true) /\ exists c0, pk (fst r) 0 = Some c0 /\ name_stop (fst r) c0).
Proof.
  intros Hc Hw.
  apply (safe_cloop fst zs (fun s => has = true -> snd s = true));
    [|apply adv_refl, Hw|cbn; tauto|apply fuel_enough; reflexivity || lia].
  intros [s h0] Ha Hj. cbn [fst snd] in *. unfold attrname_body.
  assert (Hws : lx_wf s) by eauto using adv_wf.
  eapply safe_bind; [apply tmpl_at_spec; assumption|]. cbn beta. intros t Ht.
  destruct t.
  { destruct (Ht eq_refl) as [Hl Hr].
    eapply safe_bind; [apply tmpl_skip_spec; assumption|]. cbn beta. intros z' (Hz1 & Hz2).
    cbn [safe fst snd]. split; [eauto using adv_trans|split; [lia|tauto]]. }
  peek0 s c0 Hc0 Hp0.
  assert (Hb : safe (if (c0 =? 32) || (c0 =? 61) || (c0 =? 62) then Ok true
                     else s0 <-- (if c0 =? 47 then c1 <-- pkr s 1;; Ok (c1 =? 62) else Ok false);;
                          (if s0 then Ok true
                           else Ok ((c0 =? 9) || (c0 =? 10) || (c0 =? 13) || (c0 =? 12) || eof0 s c0)))
                    (fun b => (b = false -> eof0 s c0 = false) /\ (b = true -> name_stop s c0))).
  { destruct ((c0 =? 32) || (c0 =? 61) || (c0 =? 62)) eqn:E1.
    { cbn [safe]. split; [discriminate|]. intros _. unfold name_stop, is_ws.
      apply orb_true_iff in E1. destruct E1 as [E1|E1]; [apply orb_true_iff in E1; destruct E1 as [E1|E1]|].
      - right; left. rewrite E1. reflexivity.
      - left. b2p. lia.
      - right; right; left. b2p. lia. }
    destruct (c0 =? 47) eqn:E47.
    - peek1 s c0 Hp0 c1 Hc1 Hp1. destruct (c1 =? 62) eqn:E62; cbn [safe].
      + split; [discriminate|]. intros _. right; right; right; right. b2p. subst. tauto.
      + split.
        * intros Hb. apply orb_false_iff in Hb. tauto.
        * intros Hb. unfold name_stop, is_ws. b2p.
          repeat (apply orb_true_iff in Hb; destruct Hb as [Hb|Hb]); try (right; left; rewrite Hb; repeat rewrite orb_true_r; reflexivity); tauto.
    - cbn [rbind safe]. split.
      + intros Hb. apply orb_false_iff in Hb. tauto.
      + intros Hb. unfold name_stop, is_ws.
        repeat (apply orb_true_iff in Hb; destruct Hb as [Hb|Hb]); try (right; left; rewrite Hb; repeat rewrite orb_true_r; reflexivity); tauto. }
  eapply safe_bind; [exact Hb|]. cbn beta. intros b [Hb1 Hb2]. destruct b; cbn [safe fst snd].
  - split; [exact Ha|split; [exact Hj|eauto]].
  - split; [eapply adv_mv1; eauto|split; [cbn; lia|exact Hj]].
Qed.

Lemma attrq_loop_spec c delim zs nh : cfg_ok c -> lx_wf zs -> delim <> 0 ->
  forall fuel, (Z.to_nat (lx_len zs - lpos zs) < fuel)%nat ->
  safe (loop fuel (attrq_body c delim) (zs, nh)) (fun r => adv zs (fst r) /\ (nh = true -> snd r = true)).
Proof.
  intros Hc Hw Hd fuel Hf.
  apply (safe_cloop fst zs (fun s => nh = true -> snd s = true)); [|apply adv_refl, Hw|cbn; tauto|exact Hf].
  intros [s h0] Ha Hj. cbn [fst snd] in *. unfold attrq_body.
  assert (Hws : lx_wf s) by eauto using adv_wf.
  peek0 s c0 Hc0 Hp0.
  eapply safe_bind; [apply tmpl_at_spec; assumption|]. cbn beta. intros t Ht.
  destruct t.
  { destruct (Ht eq_refl) as [Hl Hr].
    eapply safe_bind; [apply tmpl_skip_spec; assumption|]. cbn beta. intros z1 (Hz1 & Hz2).
    eapply safe_bind.
    { apply tmpl_rep_top_spec; [exact Hc| |eauto using adv_wf]. intros E. rewrite E in Hl. cbn in Hl. lia. }
    cbn beta. intros r [Hr1 _]. cbn [safe fst snd].
    split; [eauto using adv_trans|]. split; [|tauto]. apply adv_lpos_le in Hr1. lia. }
  destruct (c0 =? delim) eqn:Ed.
  { cbn [safe fst snd]. split; [|exact Hj]. apply (adv_mv_nz zs s 0 c0); try assumption; lia. }
  destruct (eof0 s c0) eqn:Ee; cbn [safe fst snd]; [tauto|].
  split; [eapply adv_mv1; eauto|split; [cbn; lia|exact Hj]].
Qed.

Lemma attru_loop_spec cf zs nh : cfg_ok cf -> lx_wf zs -> forall fuel, (Z.to_nat (lx_len zs - lpos zs) < fuel)%nat ->
  safe (loop fuel (with_tmpl_lx cf attru_body) (zs, nh)) (fun r => adv zs (fst r) /\ (nh = true -> snd r = true)).
Proof.
  intros Hcf Hw fuel Hf. unfold with_tmpl_lx.
  apply (with_tmpl_cloop_has cf (fun s : lx => s) (fun _ z' => z') zs (fun _ => True) (fun z' => adv zs z')); [exact Hcf|exact Hw|reflexivity|tauto| |apply adv_refl, Hw|exact I|exact Hf].
  intros s Ha _. unfold attru_body. peek0 s c0 Hc0 Hp0.
  destruct (eof0 s c0) eqn:Ee.
  { rewrite !orb_true_r. cbn. exact Ha. }
  destruct ((c0 =? 32) || (c0 =? 62) || (c0 =? 9) || (c0 =? 10) || (c0 =? 13) || (c0 =? 12) || false); cbn [safe]; [exact Ha|].
  split; [eapply adv_mv1; eauto|split; [cbn; lia|exact I]].
Qed.

Definition opt_inview (o : option sl) (v : sl) : Prop := match o with Some t => inview t v | None => True end.

Definition attr_first (z : lx) : Prop :=
  exists c0, pk z 0 = Some c0 /\ is_ws c0 = false /\ eof0 z c0 = false /\ c0 <> 62 /\ ~ (c0 = 47 /\ pk z 1 = Some 62).

Definition attr_post (c : cfg) (l : lexer) (z : lx) (r : sl * lexer) : Prop :=
  let '(v, l') := r in
  (exists r0, tmpl_rep_guarded c z (lhas l) = Ok r0 /\ lpos (fst r0) <= lpos (lz l') /\ (snd r0 = true -> lhas l' = true)) /\
  exists t, ltext l' = Some t /\ inview t v /\ opt_inview (lattr l') v /\
    (lbuf (lz l') = lower_view (lbuf z) t \/ (lbuf (lz l') = lbuf z /\ lhas l' = true)) /\
    so v = lstart z /\ so v + sn v = lpos (lz l') /\ lstart (lz l') = lpos (lz l') /\
    lpos z < lpos (lz l') <= lx_len z /\ lx_wf (lz l') /\
    intag l' = intag l /\ rawtag l' = rawtag l /\ lerr l' = lerr l.

Lemma skip_wf z : lx_wf z -> lx_wf (skip z).
Proof. intros (Hd & Hs & Hp). unfold lx_wf, skip, lx_len in *. cbn [lbuf lstart lpos]. split; [exact Hd|lia]. Qed.

Lemma shift_attribute_spec c l z : cfg_ok c -> lx_wf z -> attr_first z ->
  safe (shift_attribute c l z) (attr_post c l z).
Proof.
  intros Hc Hw (cf & Hpf & Hf1 & Hf2 & Hf3 & Hf4). unfold shift_attribute.
  assert (Hs0 : 0 <= lstart z <= lpos z) by (destruct Hw as (_ & ? & _); lia).
  destruct (safe_inv _ _ (tmpl_rep_guarded_spec c z (lhas l) Hc Hw)) as ([z0 h0] & Er0 & Hr0 & _). rewrite Er0. cbn [rbind fst snd] in *.
  eapply safe_bind; [apply attrname_loop_spec; [exact Hc|eauto using adv_wf]|]. cbn beta.
  intros [z1 nh] (Hr1 & Hnh1 & c0 & Hp1 & Hstop). cbn [fst snd] in *.
  assert (Ha1 : adv z z1) by eauto using adv_trans.
  assert (Hw1 : lx_wf z1) by eauto using adv_wf.
  pose proof (adv_lstart _ _ Ha1) as Hst1. pose proof (adv_lpos_le _ _ Ha1) as Hle1.
  destruct (safe_inv _ _ (ws_loop_spec z1 Hw1)) as (z2 & Ez2 & Hz2 & cw & Hpw & Hcw). rewrite Ez2. cbn [rbind].
  assert (Ha2 : adv z z2) by eauto using adv_trans.
  assert (Hw2 : lx_wf z2) by eauto using adv_wf.
  unfold pkr at 1. rewrite Hpw. cbn [opt_res rbind].
  (* either the name loop moved, or it stopped at once on '=' *)
  assert (Hprog : lpos z < lpos z1 \/ cw = 61).
  { destruct (Z.eq_dec (lpos z1) (lpos z)) as [E|E]; [|left; lia]. right.
    assert (Hsame : forall i, pk z1 i = pk z i).
    { intros i. apply pk_adv_buf; [apply Ha1|exact E]. }
    rewrite Hsame in Hp1. rewrite Hpf in Hp1. injection Hp1 as <-.
    assert (Hc61 : cf = 61).
    { destruct Hstop as [H|[H|[H|[H|[H1 H2]]]]]; try congruence.
      - unfold eof0, at_end in *. rewrite (lx_len_same z z1), E in H by apply Ha1. congruence.
      - rewrite Hsame in H2. tauto. }
    subst cf. rewrite (ws_loop_stop z1 61) in Ez2; [|rewrite Hsame; exact Hpf|reflexivity].
    injection Ez2 as <-. rewrite Hsame, Hpf in Hpw. congruence. }
  eapply safe_bind with (P := fun r3 => let '(z5, has5, av) := r3 in
      adv z1 z5 /\ lpos z < lpos z5 /\ (nh = true -> has5 = true) /\
      match av with Some a => lstart z <= so a /\ 0 <= sn a /\ so a + sn a = lpos z5 | None => True end).
  { destruct (cw =? 61) eqn:E61.
    - assert (Hm : adv z2 (mv z2 1)).
      { pose proof (pk_nz_lt z2 0 cw Hw2 Hpw ltac:(nz)). apply adv_mv; lia. }
      assert (Hwm : lx_wf (mv z2 1)) by eauto using adv_wf.
      destruct (safe_inv _ _ (ws_loop_spec _ Hwm)) as (z3 & Ez3 & Hz3 & c1 & Hp3 & _). rewrite Ez3. cbn [rbind].
      assert (Ha3 : adv z1 z3) by eauto using adv_trans.
      assert (Hw3 : lx_wf z3) by eauto using adv_wf.
      assert (Hlt3 : lpos z < lpos z3).
      { apply adv_lpos_le in Hz3. cbn [mv lpos] in Hz3. apply adv_lpos_le in Hz2. lia. }
      unfold pkr at 1. rewrite Hp3. cbn [opt_res rbind].
      eapply safe_bind; [apply tmpl_at_spec; assumption|]. cbn beta. intros t Ht.
      eapply safe_bind with (P := fun r => adv z3 (fst r) /\ (nh = true -> snd r = true)).
      { destruct t.
        - destruct (Ht eq_refl) as [Hl Hr].
          eapply safe_bind; [apply tmpl_skip_spec; assumption|]. cbn beta. intros z4 (Hz4 & _).
          eapply safe_bind.
          { apply tmpl_rep_top_spec; [exact Hc| |eauto using adv_wf]. intros E. rewrite E in Hl. cbn in Hl. lia. }
          cbn beta. intros r [Hq1 _]. cbn [safe fst snd]. split; [eauto using adv_trans|tauto].
        - destruct ((c1 =? 34) || (c1 =? 39)) eqn:Eq.
          + assert (Hc1 : c1 <> 0) by (intros ->; cbn in Eq; discriminate).
            assert (Hm3 : adv z3 (mv z3 1)).
            { pose proof (pk_nz_lt z3 0 c1 Hw3 Hp3 Hc1). apply adv_mv; lia. }
            eapply safe_mono.
            { apply attrq_loop_spec; [exact Hc|eauto using adv_wf|exact Hc1|]. unfold fuel_of, lx_len. cbn [mv lbuf lpos]. lia. }
            cbn beta. intros r [Hq1 Hq2]. split; [eauto using adv_trans|exact Hq2].
          + eapply safe_mono; [apply attru_loop_spec; [exact Hc|exact Hw3|apply fuel_enough; reflexivity || lia]|].
            cbn beta. intros r [Hq1 Hq2]. tauto. }
      cbn beta. intros r [Hq1 Hq2].
      pose proof (adv_lpos_le _ _ Hq1) as Hle. pose proof (adv_lstart _ _ Hq1) as Hstr.
      pose proof (adv_lstart _ _ Ha3) as Hst3.
      assert (lstart z3 <= lpos z3) by (destruct Hw3 as (_ & ? & _); lia).
      rewrite lexeme_from_spec by (eauto using adv_wf || (unfold mark; lia)).
      cbn [rbind safe]. split; [eauto using adv_trans|]. split; [lia|]. split; [exact Hq2|].
      cbn [so sn]. unfold mark. lia.
    - cbn [safe]. split; [|split; [|tauto]].
      + eapply (adv_rewind z1 z1 z2); [apply adv_refl, Hw1|exact Hz2|reflexivity].
      + unfold rewind, mark. cbn [lpos]. rewrite (adv_lstart _ _ Hz2).
        destruct Hprog as [Hprog|Hprog]; [lia|]. subst cw. discriminate. }
  cbn beta. intros [[z5 has5] av] (H5a & H5b & H5c & H5d).
  assert (Ha5 : adv z z5) by eauto using adv_trans.
  eapply safe_bind; [apply tmpl_rep_guarded_spec; [exact Hc|eauto using adv_wf]|]. cbn beta.
  intros [z6 h6] [H6a H6b]. cbn [fst snd] in *.
  assert (Ha6 : adv z z6) by eauto using adv_trans.
  assert (Hw6 : lx_wf z6) by eauto using adv_wf.
  pose proof (adv_lpos_le _ _ H5a) as Hle5. pose proof (adv_lpos_le _ _ H6a) as Hle6.
  pose proof (adv_lstart _ _ Ha6) as Hst6.
  rewrite lexeme_sub_spec by (exact Hw6 || (unfold mark; lia)). cbn [rbind].
  set (t := mkSl (lstart z6 + mark z) (mark z1 - mark z)).
  assert (Ht1 : so t = lpos z) by (cbn; unfold mark; lia).
  assert (Ht2 : sn t = lpos z1 - lpos z) by (cbn; unfold mark; lia).
  destruct Ha6 as (B1 & B2 & B3).
  assert (Hw7 : lx_wf (if nh then z6 else lx_lower z6 t)).
  { destruct nh; [exact Hw6|]. apply lx_lower_wf; [exact Hw6|lia|lia|]. rewrite (lx_len_same z z6 B1). lia. }
  rewrite shiftv_spec by exact Hw7. cbn [rbind safe fst snd attr_post].
  assert (Hpos7 : lpos (if nh then z6 else lx_lower z6 t) = lpos z6) by (destruct nh; reflexivity).
  split.
  { exists (z0, h0). split; [exact Er0|]. cbn [fst snd lz lhas skip lpos]. rewrite Hpos7.
    split; [apply adv_lpos_le in Hr1; lia|]. intros Hh0. apply H6b, H5c, Hnh1, Hh0. }
  exists t. cbn [ltext lattr lhas lz intag rawtag lerr].
  assert (Hst7 : lstart (if nh then z6 else lx_lower z6 t) = lstart z) by (destruct nh; cbn; lia).
  split; [reflexivity|]. split; [unfold inview; cbn [so sn]; rewrite Hpos7, Hst7; cbn [so sn] in Ht1, Ht2; lia|].
  split.
  { destruct av as [a|]; [|exact I]. unfold opt_inview, inview. cbn [so sn]. rewrite Hpos7, Hst7. lia. }
  split.
  { destruct nh; cbn [skip lbuf lx_lower].
    - right. split; [exact B1|]. apply H6b, H5c. reflexivity.
    - left. rewrite B1. reflexivity. }
  cbn [so sn skip lstart lpos]. rewrite Hpos7, Hst7.
  split; [reflexivity|]. split; [lia|]. split; [reflexivity|]. split; [lia|].
  split; [apply skip_wf, Hw7|tauto].
Qed.
