(* Html/RawText.v — where the raw-text scanner stops: at the end of input or at the first end tag of the element. *)
From Verif Require Import Common.Base Common.Tactics Common.Lx Gen.Tables Html.Model Html.Lemmas Html.ListLemmas
     Html.Hash Html.Safety Html.Step.
From Coq Require Import ZifyBool.

(* "</" + a maximal run of n letters whose lower-cased hash is raw, at offset p of buf.
   strict: the byte after the letters is whitespace, '/', '>' or the end of input (the terminator, last byte of buf). *)
Definition end_tag_gen (strict : bool) (raw : Z) (buf : list Z) (p : Z) : Prop :=
  peekz buf p = Some 60 /\ peekz buf (p + 1) = Some 47 /\
  exists n, 0 <= n /\
    (forall i, p + 2 <= i < p + 2 + n -> exists c, peekz buf i = Some c /\ is_letter c = true) /\
    (exists c, peekz buf (p + 2 + n) = Some c /\ is_letter c = false /\
               (strict = true -> is_tagend c = true \/ (c = 0 /\ p + 2 + n = len buf - 1))) /\
    to_hash (map lower (slice buf (p + 2) (p + 2 + n))) = Ok raw.

(* an end tag of the element: what ends raw text *)
Definition end_tag_at := end_tag_gen true.
(* "</name" followed by any non-letter: what still ends a script inside its "<!--" section *)
Definition end_tag_weak := end_tag_gen false.

Lemma end_tag_at_weak raw buf p : end_tag_at raw buf p -> end_tag_weak raw buf p.
Proof.
  intros (P0 & P1 & n & Hn & Pl & (c & Pc & Pnl & _) & Ph). split; [exact P0|]. split; [exact P1|].
  exists n. split; [exact Hn|]. split; [exact Pl|]. split; [|exact Ph]. exists c. split; [exact Pc|]. split; [exact Pnl|discriminate].
Qed.

(* cursors over the same buffer with the same selection start *)
Definition same (z z' : lx) : Prop := lbuf z' = lbuf z /\ lstart z' = lstart z.

Lemma same_refl z : same z z. Proof. split; reflexivity. Qed.
Lemma same_trans a b c : same a b -> same b c -> same a c.
Proof. intros [H1 H2] [H3 H4]. split; congruence. Qed.
Lemma same_mv z n : same z (mv z n). Proof. split; reflexivity. Qed.
Lemma same_rewind z m : same z (rewind z m). Proof. split; reflexivity. Qed.

(* the letters loop: moves over letters only and stops at a non-letter *)
Lemma letters_loop_run z z' : letters_loop z = Ok z' ->
  same z z' /\ lpos z <= lpos z' /\
  (forall i, lpos z <= i < lpos z' -> exists c, peekz (lbuf z) i = Some c /\ is_letter c = true) /\
  (exists c, peekz (lbuf z) (lpos z') = Some c /\ is_letter c = false).
Proof.
  unfold letters_loop. intros H.
  refine (loop_inv (fun s => same z s /\ lpos z <= lpos s /\
                     forall i, lpos z <= i < lpos s -> exists c, peekz (lbuf z) i = Some c /\ is_letter c = true)
                   (fun s => same z s /\ lpos z <= lpos s /\
                     (forall i, lpos z <= i < lpos s -> exists c, peekz (lbuf z) i = Some c /\ is_letter c = true) /\
                     (exists c, peekz (lbuf z) (lpos s) = Some c /\ is_letter c = false))
                   letters_body _ _ z z' _ H); [|split; [apply same_refl|split; [lia|intros; lia]]].
  intros s x (Hs & Hle & Hi) Hx. unfold letters_body, pkr in Hx.
  destruct (pk s 0) as [c|] eqn:Hp; cbn [opt_res rbind] in Hx; [|discriminate].
  assert (Hpc : peekz (lbuf z) (lpos s) = Some c).
  { unfold pk in Hp. destruct Hs as [Hb _]. rewrite Hb, Z.add_0_r in Hp. exact Hp. }
  destruct (is_letter c) eqn:E; injection Hx as <-.
  - split; [eapply same_trans; [exact Hs|apply same_mv]|]. cbn [mv lpos]. split; [lia|].
    intros i Hr. destruct (Z.eq_dec i (lpos s)) as [->|Hne]; [eauto|apply Hi; lia].
  - split; [exact Hs|]. split; [exact Hle|]. split; [exact Hi|eauto].
Qed.

Lemma hash_lexeme_from_eq z a h : hash_lexeme_from z a = Ok h ->
  0 <= a /\ to_hash (map lower (slice (lbuf z) (lstart z + a) (lpos z))) = Ok h.
Proof.
  unfold hash_lexeme_from, lexeme_from. destruct (lexeme_ok z && (0 <=? a) && (a <=? lpos z - lstart z)) eqn:E; [|discriminate].
  cbn [rbind]. unfold view_bytes. cbn [so sn]. intros H. b2p. split; [lia|].
  replace (lstart z + a + (lpos z - lstart z - a)) with (lpos z) in H by lia. exact H.
Qed.

(* at a "</", after the letters loop: the tag found there, and nothing else between *)
Lemma end_tag_here raw z z2 h : pk z 0 = Some 60 -> pk z 1 = Some 47 -> letters_loop (mv z 2) = Ok z2 ->
  hash_lexeme_from z2 (mark z + 2) = Ok h ->
  exists cs, pk z2 0 = Some cs /\
  (h = raw -> end_tag_weak raw (lbuf z) (lpos z)) /\
  (h = raw -> is_tagend cs || eof0 z2 cs = true -> end_tag_at raw (lbuf z) (lpos z)) /\
  (forall strict, h <> raw -> forall p, lpos z <= p < lpos z2 -> ~ end_tag_gen strict raw (lbuf z) p) /\
  (is_tagend cs || eof0 z2 cs = false -> forall p, lpos z <= p < lpos z2 -> ~ end_tag_at raw (lbuf z) p).
Proof.
  intros H0 H1 Hl Hh. destruct (letters_loop_run _ _ Hl) as ((Hb & Hst) & Hle & Hlet & (cs & Hcs & Hns)).
  cbn [mv lbuf lstart lpos] in *. apply hash_lexeme_from_eq in Hh. destruct Hh as [_ Hh].
  unfold mark in Hh. rewrite Hb, Hst in Hh. replace (lstart z + (lpos z - lstart z + 2)) with (lpos z + 2) in Hh by lia.
  unfold pk in H0, H1. rewrite Z.add_0_r in H0.
  exists cs. split; [unfold pk; rewrite Hb, Z.add_0_r; exact Hcs|].
  assert (Hgen : forall strict, h = raw -> (strict = true -> is_tagend cs = true \/ (cs = 0 /\ lpos z2 = len (lbuf z) - 1)) ->
                 end_tag_gen strict raw (lbuf z) (lpos z)).
  { intros strict -> Hfol. split; [exact H0|]. split; [exact H1|]. exists (lpos z2 - lpos z - 2). split; [lia|].
    split; [intros i Hi; apply Hlet; lia|]. replace (lpos z + 2 + (lpos z2 - lpos z - 2)) with (lpos z2) by lia.
    split; [|exact Hh]. exists cs. split; [exact Hcs|]. split; [exact Hns|exact Hfol]. }
  (* any match in the run is at lpos z with the same letters *)
  assert (Hsame : forall strict p, lpos z <= p < lpos z2 -> end_tag_gen strict raw (lbuf z) p ->
                  h = raw /\ (strict = true -> is_tagend cs = true \/ (cs = 0 /\ lpos z2 = len (lbuf z) - 1))).
  { intros strict p Hp (P0 & P1 & n & Hn & Pl & (pc & Ppc & Pnl & Pfol) & Phash).
    destruct (Z.eq_dec p (lpos z)) as [->|Hpne].
    - assert (n = lpos z2 - lpos z - 2).
      { destruct (Z.lt_trichotomy n (lpos z2 - lpos z - 2)) as [Hlt|[?|Hgt]]; [|assumption|].
        - destruct (Hlet (lpos z + 2 + n) ltac:(lia)) as (c & Hc & Hcl). rewrite Ppc in Hc. congruence.
        - destruct (Pl (lpos z2) ltac:(lia)) as (c & Hc & Hcl). rewrite Hcs in Hc. congruence. }
      subst n. replace (lpos z + 2 + (lpos z2 - lpos z - 2)) with (lpos z2) in * by lia.
      rewrite Hcs in Ppc. injection Ppc as <-. split; [congruence|exact Pfol].
    - exfalso. destruct (Z.eq_dec p (lpos z + 1)) as [->|Hp1]; [rewrite H1 in P0; discriminate|].
      destruct (Hlet p ltac:(lia)) as (c & Hc & Hcl). rewrite P0 in Hc. injection Hc as <-. discriminate. }
  split; [intros E; apply Hgen; [exact E|discriminate]|]. split; [|split].
  - intros E Hf. apply Hgen; [exact E|]. intros _. apply orb_true_iff in Hf. destruct Hf as [Hf|Hf]; [left; exact Hf|right].
    unfold eof0, at_end, lx_len in Hf. rewrite Hb in Hf. apply peekz_some in Hcs. b2p. split; lia.
  - intros strict Hne p Hp Hm. destruct (Hsame strict p Hp Hm) as [E _]. congruence.
  - intros Hf p Hp Hm. destruct (Hsame true p Hp Hm) as [_ Hfol]. apply orb_false_iff in Hf. destruct Hf as [Hf1 Hf2].
    destruct (Hfol eq_refl) as [Ht|[-> Hend]]; [congruence|].
    unfold eof0, at_end, lx_len in Hf2. rewrite Hb in Hf2. cbn [Z.eqb andb] in Hf2. b2p. lia.
Qed.

Lemma not_lt_here buf raw p c : peekz buf p = Some c -> c <> 60 -> ~ end_tag_at raw buf p.
Proof. intros H Hc (P0 & _). rewrite H in P0. congruence. Qed.

Lemma not_slash_here buf raw p c : peekz buf (p + 1) = Some c -> c <> 47 -> ~ end_tag_at raw buf p.
Proof. intros H Hc (_ & P1 & _). rewrite H in P1. congruence. Qed.

Lemma pk_peekz z i c : pk z i = Some c -> peekz (lbuf z) (lpos z + i) = Some c.
Proof. exact (fun H => H). Qed.


(* monotonicity of the template skipper (partial correctness, no well-formedness needed) *)
Definition samele (z z' : lx) : Prop := same z z' /\ lpos z <= lpos z'.
Lemma samele_refl z : samele z z. Proof. split; [apply same_refl|lia]. Qed.
Lemma samele_trans a b c : samele a b -> samele b c -> samele a c.
Proof. intros [H1 H2] [H3 H4]. split; [eapply same_trans; eauto|lia]. Qed.
Lemma samele_mv z n : 0 <= n -> samele z (mv z n).
Proof. intros H. split; [apply same_mv|cbn; lia]. Qed.

Lemma mt_str_run q fuel s r : loop fuel (mt_str_body q) s = Ok r -> samele (fst s) (fst r).
Proof.
  intros H.
  refine (loop_inv (fun x => samele (fst s) (fst x)) (fun x => samele (fst s) (fst x)) (mt_str_body q) _ _ s r _ H); [|apply samele_refl].
  clear. intros [z e] x Hs Hx. cbn [fst] in *. unfold mt_str_body in Hx.
  destruct (pkr z 0) as [c2| |]; cbn [rbind] in Hx; try discriminate.
  destruct (eof0 z c2); [injection Hx as <-; exact Hs|].
  destruct (negb e && (c2 =? q)); [injection Hx as <-; cbn [fst]; eapply samele_trans; [exact Hs|apply samele_mv; lia]|].
  destruct (c2 =? 92); injection Hx as <-; cbn [fst]; (eapply samele_trans; [exact Hs|apply samele_mv; lia]).
Qed.

Lemma move_template_run c z z' : move_template c z = Ok z' -> samele z z'.
Proof.
  unfold move_template. intros H.
  refine (loop_inv (fun x => samele z x) (fun x => samele z x) (mt_body c) _ _ z z' _ H); [|apply samele_refl].
  clear. intros s x Hs Hx. unfold mt_body in Hx.
  destruct (pkr s 0) as [c0| |]; cbn [rbind] in Hx; try discriminate.
  destruct (eof0 s c0); [injection Hx as <-; exact Hs|].
  destruct (at_ s (te c)) as [e| |]; cbn [rbind] in Hx; try discriminate.
  destruct e; [injection Hx as <-; eapply samele_trans; [exact Hs|apply (samele_mv s (len (te c))), len_nonneg]|].
  destruct ((c0 =? 34) || (c0 =? 39)).
  - destruct (loop (fuel_of s) (mt_str_body c0) (mv s 1, false)) as [r| |] eqn:Er; cbn [rbind] in Hx; try discriminate.
    apply mt_str_run in Er. cbn [fst] in Er.
    destruct (snd r); injection Hx as <-; (eapply samele_trans; [exact Hs|eapply samele_trans; [apply (samele_mv s 1); lia|exact Er]]).
  - injection Hx as <-. eapply samele_trans; [exact Hs|apply samele_mv; lia].
Qed.

Lemma tmpl_skip_run c z z' : tmpl_skip c z = Ok z' -> samele z z'.
Proof.
  unfold tmpl_skip. intros H. apply move_template_run in H. eapply samele_trans; [apply (samele_mv z (len (tb c))), len_nonneg|exact H].
Qed.

(* the loop inside "<!--" of a script element *)
Definition sc_post (zs : lx) (r : lx + lx) : Prop :=
  match r with
  | inl z' => samele zs z'
  | inr z' => samele zs z' /\ (at_end z' = true \/ end_tag_at html_hash_Script (lbuf zs) (lpos z'))
  end.

Lemma script_comment_step_run zs (s0 : lx * bool) x : samele zs (fst s0) -> script_comment_body s0 = Ok x ->
  match x with Cont s' => samele zs (fst s') | Brk r => sc_post zs r end.
Proof.
  unfold sc_post. destruct s0 as [s ins]. intros Hs Hx. cbn [fst] in Hs. unfold script_comment_body in Hx.
  destruct (pkr s 0) as [c| |] eqn:E0; cbn [rbind] in Hx; try discriminate.
  assert (Hp0 : pk s 0 = Some c) by (unfold pkr in E0; destruct (pk s 0); cbn in E0; congruence).
  destruct (c =? 45) eqn:E45.
  { destruct (pkr s 1) as [c1| |]; cbn [rbind] in Hx; try discriminate.
    destruct (c1 =? 45).
    - destruct (pkr s 2) as [c2| |]; cbn [rbind] in Hx; try discriminate.
      destruct (c2 =? 62); injection Hx as <-; cbn [fst]; (eapply samele_trans; [exact Hs|apply samele_mv; lia]).
    - injection Hx as <-. cbn [fst]. eapply samele_trans; [exact Hs|apply samele_mv; lia]. }
  destruct (c =? 60) eqn:E60.
  { destruct (pkr s 1) as [c1| |] eqn:E1; cbn [rbind] in Hx; try discriminate.
    assert (Hp1 : pk s 1 = Some c1) by (unfold pkr in E1; destruct (pk s 1); cbn in E1; congruence).
    destruct (letters_loop (mv s (if c1 =? 47 then 2 else 1))) as [z2| |] eqn:El; cbn [rbind] in Hx; try discriminate.
    destruct (hash_lexeme_from z2 (mark (mv s (if c1 =? 47 then 2 else 1)))) as [h| |] eqn:Eh; cbn [rbind] in Hx; try discriminate.
    destruct (letters_loop_run _ _ El) as (Hs2 & Hle2 & _).
    assert (Hsz2 : samele zs z2).
    { eapply samele_trans; [exact Hs|]. eapply samele_trans; [apply (samele_mv s (if c1 =? 47 then 2 else 1)); destruct (c1 =? 47); lia|].
      split; assumption. }
    destruct (h =? html_hash_Script) eqn:EhS; [|injection Hx as <-; exact Hsz2].
    destruct (pkr z2 0) as [cz| |] eqn:Ecz; cbn [rbind] in Hx; try discriminate.
    assert (Hpz : pk z2 0 = Some cz) by (unfold pkr in Ecz; destruct (pk z2 0); cbn in Ecz; congruence).
    destruct (is_tagend cz || eof0 z2 cz) eqn:Efol; [|injection Hx as <-; exact Hsz2].
    destruct (negb (c1 =? 47)) eqn:En; [injection Hx as <-; exact Hsz2|].
    apply negb_false_iff in En. rewrite En in *.
    destruct (negb ins); injection Hx as <-; [|exact Hsz2].
    assert (Hpos : lpos (rewind z2 (mark (mv s 2) - 2)) = lpos s).
    { unfold rewind, mark. cbn [mv lpos lstart]. destruct Hs2 as [_ Hst2]. cbn [mv lstart] in Hst2. lia. }
    split.
    { split; [eapply same_trans; [apply Hsz2|apply same_rewind]|]. rewrite Hpos. apply Hs. }
    right.
    assert (Hmk : mark (mv s 2) = mark s + 2) by (unfold mark; cbn; lia). rewrite Hmk in Eh.
    apply Z.eqb_eq in E60, En, EhS. subst c c1 h.
    destruct (end_tag_here html_hash_Script s z2 html_hash_Script Hp0 Hp1 El Eh) as (cs & Hcs & _ & Hm & _).
    rewrite Hpz in Hcs. injection Hcs as <-.
    destruct Hs as [[Hb _] _]. rewrite <- Hb. rewrite Hpos. apply Hm; [reflexivity|exact Efol]. }
  destruct (eof0 s c) eqn:Ee; injection Hx as <-.
  - split; [exact Hs|]. left. unfold eof0 in Ee. b2p. assumption.
  - cbn [fst]. eapply samele_trans; [exact Hs|apply samele_mv; lia].
Qed.

Lemma script_comment_run c zs b h fuel r : loop fuel (script_comment_loop_body c) (zs, b, h) = Ok r -> sc_post zs (fst r).
Proof.
  intros H. unfold script_comment_loop_body in H.
  refine (with_tmpl_inv c _ _ (fun sh : lx * bool * bool => samele zs (fst (fst sh))) (fun r : (lx + lx) * bool => sc_post zs (fst r))
            script_comment_body _ _ fuel (zs, b, h) r (samele_refl zs) H).
  - intros s h0 z' Hs _ Hk. cbn [fst] in *. eapply samele_trans; [exact Hs|apply (tmpl_skip_run _ _ _ Hk)].
  - intros s h0 x Hs Hx. cbn [fst] in *. pose proof (script_comment_step_run zs s x Hs Hx) as Hp. destruct x; exact Hp.
Qed.

Definition nomatch (raw : Z) (buf : list Z) (a b : Z) : Prop := forall p, a <= p < b -> ~ end_tag_at raw buf p.

Lemma nomatch_app raw buf a b c : nomatch raw buf a b -> nomatch raw buf b c -> nomatch raw buf a c.
Proof. intros H1 H2 p Hp. destruct (Z.lt_ge_cases p b); [apply H1|apply H2]; lia. Qed.

(* "<!--" at offset p: what opens the double-escape section of a script *)
Definition comment_open (buf : list Z) (p : Z) : Prop :=
  peekz buf p = Some 60 /\ peekz buf (p + 1) = Some 33 /\ peekz buf (p + 2) = Some 45 /\ peekz buf (p + 3) = Some 45.

(* outside script, or no "<!--" in [a, b) *)
Definition plain_raw (raw : Z) (buf : list Z) (a b : Z) : Prop :=
  raw <> html_hash_Script \/ forall p, a <= p < b -> ~ comment_open buf p.

Lemma plain_raw_mono raw buf a b b' : b <= b' -> plain_raw raw buf a b' -> plain_raw raw buf a b.
Proof. intros Hb [H|H]; [left; exact H|right; intros p Hp; apply H; lia]. Qed.

(* no end tag at any p in [a, b) that is reached without passing a "<!--" of a script *)
Definition nomatchp (raw : Z) (buf : list Z) (a b : Z) : Prop :=
  forall p, a <= p < b -> plain_raw raw buf a (p + 1) -> ~ end_tag_at raw buf p.

Lemma rawtext_loop_run c raw z has fuel r : loop fuel (rawtext_body c raw) (z, has) = Ok r ->
  same z (fst r) /\ lpos z <= lpos (fst r) /\
  (at_end (fst r) = true \/ end_tag_at raw (lbuf z) (lpos (fst r))) /\
  (has_delims c = false -> nomatchp raw (lbuf z) (lpos z) (lpos (fst r))).
Proof.
  intros H.
  refine (loop_inv (fun s => same z (fst s) /\ lpos z <= lpos (fst s) /\
                             (has_delims c = false -> nomatchp raw (lbuf z) (lpos z) (lpos (fst s))))
            (fun r => same z (fst r) /\ lpos z <= lpos (fst r) /\
                      (at_end (fst r) = true \/ end_tag_at raw (lbuf z) (lpos (fst r))) /\
                      (has_delims c = false -> nomatchp raw (lbuf z) (lpos z) (lpos (fst r))))
            (rawtext_body c raw) _ _ (z, has) r _ H); [|split; [apply same_refl|split; [cbn; lia|intros _ p Hp; cbn in Hp; lia]]].
  clear H r. intros [s h0] x (Hs & Hle & Hnm0) Hx. cbn [fst] in *. unfold rawtext_body in Hx.
  pose proof Hs as [Hb Hst].
  (* extending the range by positions that carry no end tag *)
  assert (Hext : forall b, (forall p, lpos s <= p < b -> ~ end_tag_at raw (lbuf z) p) ->
                 has_delims c = false -> nomatchp raw (lbuf z) (lpos z) b).
  { intros b Hno Hd p Hp Hpl. destruct (Z.lt_ge_cases p (lpos s)) as [Hlt|Hge]; [apply (Hnm0 Hd p); [lia|exact Hpl]|apply Hno; lia]. }
  destruct (pkr s 0) as [c0| |] eqn:E0; cbn [rbind] in Hx; try discriminate.
  assert (Hp0 : pk s 0 = Some c0) by (unfold pkr in E0; destruct (pk s 0); cbn in E0; congruence).
  assert (Hq0 : peekz (lbuf z) (lpos s) = Some c0) by (rewrite <- Hb; apply pk_peekz in Hp0; rewrite Z.add_0_r in Hp0; exact Hp0).
  (* l.skipTemplate() first *)
  unfold skip_tmpl in Hx.
  destruct (tmpl_at c s) as [t| |] eqn:Et; cbn [rbind] in Hx; try discriminate.
  destruct t.
  { destruct (tmpl_skip c s) as [z'| |] eqn:Ez'; cbn [rbind] in Hx; try discriminate. injection Hx as <-. cbn [fst].
    apply tmpl_skip_run in Ez'. destruct Ez' as [Hz' Hz'le].
    split; [eapply same_trans; eauto|]. split; [lia|].
    intros Hd. unfold tmpl_at in Et. rewrite Hd in Et. discriminate. }
  cbn [rbind] in Hx.
  (* moving one byte over something that is not the start of an end tag *)
  assert (Hstep1 : (c0 <> 60 \/ exists c1, pk s 1 = Some c1 /\ c1 <> 47) ->
                   has_delims c = false -> nomatchp raw (lbuf z) (lpos z) (lpos s + 1)).
  { intros Hc. apply Hext. intros p Hp. assert (p = lpos s) as -> by lia.
    destruct Hc as [Hc|(c1 & Hc1 & Hc)]; [eapply not_lt_here; eauto|].
    apply pk_peekz in Hc1. rewrite Hb in Hc1. eapply not_slash_here; eauto. }
  destruct (c0 =? 60) eqn:E60.
  { destruct (pkr s 1) as [c1| |] eqn:E1; cbn [rbind] in Hx; try discriminate.
    assert (Hp1 : pk s 1 = Some c1) by (unfold pkr in E1; destruct (pk s 1); cbn in E1; congruence).
    destruct (c1 =? 47) eqn:E47.
    - destruct (letters_loop (mv s 2)) as [z2| |] eqn:El; cbn [rbind] in Hx; try discriminate.
      destruct (hash_lexeme_from z2 (mark s + 2)) as [h| |] eqn:Eh; cbn [rbind] in Hx; try discriminate.
      destruct (letters_loop_run _ _ El) as (Hs2 & Hle2 & _). cbn [mv lpos] in Hle2.
      assert (c0 = 60) by (b2p; assumption). assert (c1 = 47) by (b2p; assumption). subst c0 c1.
      destruct (end_tag_here raw s z2 h Hp0 Hp1 El Eh) as (cs & Hcs & _ & Hm & Hn & Hnf). rewrite Hb in Hm, Hn, Hnf.
      assert (Hcont : same z z2 /\ lpos z <= lpos z2) by (split; [eapply same_trans; [exact Hs|eapply same_trans; [apply same_mv|exact Hs2]]|lia]).
      destruct (h =? raw) eqn:Ehr.
      + unfold pkr in Hx. rewrite Hcs in Hx. cbn [opt_res rbind] in Hx.
        destruct (is_tagend cs || eof0 z2 cs) eqn:Efol; injection Hx as <-; cbn [fst].
        * assert (Hpos : lpos (rewind z2 (mark s)) = lpos s).
          { unfold rewind, mark. cbn [lpos]. destruct Hs2 as [_ Hst2]. cbn [mv lstart] in Hst2. lia. }
          split; [eapply same_trans; [exact Hs|eapply same_trans; [apply same_mv|eapply same_trans; [exact Hs2|apply same_rewind]]]|].
          rewrite Hpos. split; [lia|]. split; [right; apply Hm; [b2p; assumption|reflexivity]|exact Hnm0].
        * split; [apply Hcont|]. split; [apply Hcont|].
          apply Hext. intros p Hp. apply Hnf; [reflexivity|exact Hp].
      + injection Hx as <-; cbn [fst]. split; [apply Hcont|]. split; [apply Hcont|].
        apply Hext. intros p Hp. apply (Hn true); [b2p; assumption|exact Hp].
    - destruct (if (raw =? html_hash_Script) && (c1 =? 33)
                then c2 <-- pkr s 2;; (if c2 =? 45 then c3 <-- pkr s 3;; Ok (c3 =? 45) else Ok false)
                else Ok false) as [sc| |] eqn:Esc; cbn [rbind] in Hx; try discriminate.
      assert (Hnot47 : c1 <> 47) by (b2p; assumption).
      destruct sc.
      + assert (Hraw : raw = html_hash_Script).
        { destruct ((raw =? html_hash_Script) && (c1 =? 33)) eqn:E; [b2p; assumption|discriminate]. }
        (* "<!--" stands here *)
        assert (Hco : comment_open (lbuf z) (lpos s)).
        { destruct ((raw =? html_hash_Script) && (c1 =? 33)) eqn:E; [|discriminate].
          destruct (pkr s 2) as [c2| |] eqn:E2; cbn [rbind] in Esc; try discriminate.
          assert (Hp2 : pk s 2 = Some c2) by (unfold pkr in E2; destruct (pk s 2); cbn in E2; congruence).
          destruct (c2 =? 45) eqn:E245; [|discriminate].
          destruct (pkr s 3) as [c3| |] eqn:E3; cbn [rbind] in Esc; try discriminate.
          assert (Hp3 : pk s 3 = Some c3) by (unfold pkr in E3; destruct (pk s 3); cbn in E3; congruence).
          injection Esc as E345. b2p. subst c0 c1 c2 c3.
          apply pk_peekz in Hp1, Hp2, Hp3. rewrite Hb in Hp1, Hp2, Hp3. repeat split; assumption. }
        assert (Hvac : forall b, has_delims c = false -> nomatchp raw (lbuf z) (lpos z) b).
        { intros b Hd p Hp Hpl. destruct (Z.lt_ge_cases p (lpos s)) as [Hlt|Hge]; [apply (Hnm0 Hd p); [lia|exact Hpl]|].
          exfalso. destruct Hpl as [Hr|Hnc]; [congruence|]. apply (Hnc (lpos s)); [lia|exact Hco]. }
        destruct (loop (fuel_of s) (script_comment_loop_body c) (mv s 4, false, h0)) as [[r2 h2]| |] eqn:Er2; cbn [rbind] in Hx; try discriminate.
        pose proof (script_comment_run _ _ _ _ _ _ Er2) as Hr2. cbn [fst] in Hr2. unfold sc_post in Hr2.
        (* positions are monotone: use the total specification for that *)
        destruct r2 as [z'|z']; injection Hx as <-; cbn [fst].
        * destruct Hr2 as [Hr2 Hr2le]. cbn [mv lpos] in Hr2le.
          split; [eapply same_trans; [exact Hs|eapply same_trans; [apply same_mv|exact Hr2]]|].
          split; [lia|apply Hvac].
        * destruct Hr2 as [[Hr2 Hr2le] He]. cbn [mv lpos] in Hr2le.
          split; [eapply same_trans; [exact Hs|eapply same_trans; [apply same_mv|exact Hr2]]|].
          split; [lia|]. split; [|apply Hvac].
          destruct He as [He|He]; [left; exact He|right]. cbn [mv lbuf] in He. rewrite Hb in He. rewrite Hraw. exact He.
      + injection Hx as <-. cbn [fst]. split; [eapply same_trans; [exact Hs|apply same_mv]|]. cbn [mv lpos]. split; [lia|].
        apply Hstep1. right. eauto. }
  assert (Hc60 : c0 <> 60) by (b2p; assumption).
  destruct (eof0 s c0) eqn:Ee; injection Hx as <-; cbn [fst].
  - split; [exact Hs|]. split; [exact Hle|]. split; [left; unfold eof0 in Ee; b2p; assumption|exact Hnm0].
  - split; [eapply same_trans; [exact Hs|apply same_mv]|]. cbn [mv lpos]. split; [lia|]. apply Hstep1. left. exact Hc60.
Qed.

Lemma plaintext_loop_run c z h fuel r : loop fuel (with_tmpl_lx c plaintext_body) (z, h) = Ok r -> at_end (fst r) = true.
Proof.
  intros H. unfold with_tmpl_lx in H.
  refine (with_tmpl_inv c _ _ (fun _ => True) (fun r : lx * bool => at_end (fst r) = true) plaintext_body _ _ fuel (z, h) r I H); [tauto|].
  clear. intros s h0 x _ Hx. unfold plaintext_body in Hx.
  destruct (pkr s 0) as [c0| |]; cbn [rbind] in Hx; try discriminate.
  destruct (eof0 s c0) eqn:Ee; injection Hx as <-; [|exact I]. cbn [fst]. unfold eof0 in Ee. b2p. assumption.
Qed.

(* end_tag_gen only looks at the bytes from p on (and at the length of the buffer) *)
Lemma end_tag_at_ext strict raw b1 b2 a p : (forall i, a <= i -> peekz b1 i = peekz b2 i) -> len b1 = len b2 -> a <= p -> 0 <= a ->
  end_tag_gen strict raw b1 p -> end_tag_gen strict raw b2 p.
Proof.
  intros Hext Hlen Hap Ha (P0 & P1 & n & Hn & Pl & (c & Pc & Pnl & Pfol) & Ph).
  split; [rewrite <- Hext by lia; exact P0|]. split; [rewrite <- Hext by lia; exact P1|].
  exists n. split; [exact Hn|]. split; [intros i Hi; rewrite <- Hext by lia; apply Pl; exact Hi|].
  split; [exists c; rewrite <- Hext by lia; rewrite <- Hlen; tauto|].
  rewrite <- Ph. f_equal. f_equal. symmetry.
  assert (L1 : p + 2 + n < len b1) by (apply peekz_some in Pc; lia).
  assert (L2 : p + 2 + n < len b2) by lia.
  apply peekz_ext. intros i.
  destruct (Z.lt_ge_cases i 0) as [Hneg|Hneg]; [rewrite !peekz_neg by lia; reflexivity|].
  destruct (Z.lt_ge_cases i n) as [Hl|Hl].
  - rewrite !peekz_slice by lia. apply Hext. lia.
  - assert (N1 : peekz (slice b1 (p + 2) (p + 2 + n)) i = None) by (apply peekz_none_iff; rewrite len_slice by lia; lia).
    assert (N2 : peekz (slice b2 (p + 2) (p + 2 + n)) i = None) by (apply peekz_none_iff; rewrite len_slice by lia; lia).
    congruence.
Qed.
