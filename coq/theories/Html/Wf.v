(* Html/Wf.v — one token per well-formed construct (no template delimiters): exact results of Next on inputs of a
   given shape.  Infrastructure: reading the remaining bytes, running a loop along a sequence of states. *)
From Verif Require Import Common.Base Common.Tactics Common.Lx Gen.Tables Html.Model Html.Lemmas Html.ListLemmas
     Html.Hash Html.Safety Html.Step Html.Spec Html.RawText Html.Func Html.Proofs Html.Views Html.Template.
From Coq Require Import ZifyBool.

(* a loop that continues along f 0, f 1, ..., f n and breaks there *)
Lemma loop_seq {S R} (body : S -> res (lp S R)) (f : nat -> S) (n : nat) : forall fuel r,
  (forall i, (i < n)%nat -> body (f i) = Ok (Cont (f (Datatypes.S i)))) -> body (f n) = Ok (Brk r) -> (n < fuel)%nat ->
  loop fuel body (f 0%nat) = Ok r.
Proof.
  revert f. induction n as [|n IH]; intros f fuel r Hc Hb Hf; (destruct fuel as [|k]; [lia|]); cbn [loop].
  - rewrite Hb. reflexivity.
  - rewrite (Hc 0%nat) by lia. cbn [rbind]. apply (IH (fun i => f (Datatypes.S i))); [intros i Hi; apply Hc; lia|exact Hb|lia].
Qed.

(* the cursor z reads the bytes s and then the end of input *)
Definition reads (z : lx) (s : list Z) : Prop := lx_wf z /\ rem z = s.

Lemma reads_mv z s i : reads z s -> 0 <= i <= len s -> reads (mv z i) (skipz i s).
Proof. intros [Hw Hr] Hi. destruct (rem_mv z i Hw) as [H1 H2]; [rewrite Hr; exact Hi|]. split; [exact H2|]. rewrite H1, Hr. reflexivity. Qed.

Lemma reads_peek z s i c : reads z s -> peekz s i = Some c -> pk z i = Some c /\ lpos z + i < lx_len z.
Proof.
  intros [Hw Hr] Hp. pose proof (peekz_some _ _ _ Hp) as Hi. pose proof (len_rem z Hw) as Hl. rewrite Hr in Hl.
  split; [rewrite <- peekz_rem by (assumption || lia); rewrite Hr; exact Hp|lia].
Qed.

Lemma reads_pkr z s i c : reads z s -> peekz s i = Some c -> pkr z i = Ok c.
Proof. intros H Hp. unfold pkr. destruct (reads_peek z s i c H Hp) as [-> _]. reflexivity. Qed.

Lemma reads_end z s : reads z s -> pk z (len s) = Some 0 /\ lpos z + len s = lx_len z.
Proof.
  intros [Hw Hr]. pose proof (len_rem z Hw) as Hl. rewrite Hr in Hl.
  destruct (rem_mv z (len s) Hw) as [_ Hw2]; [rewrite Hr; pose proof (len_nonneg s); lia|].
  split; [|lia]. rewrite <- (Z.add_0_r (len s)), <- pk_mv. apply pk_at_terminator; [exact Hw2|]. cbn [mv lpos]. unfold lx_len in *. cbn [mv lbuf]. lia.
Qed.

(* eof0 at offset i *)
Lemma reads_eof0_in z s i c : reads z s -> peekz s i = Some c -> eof0 (mv z i) c = false.
Proof.
  intros H Hp. destruct (reads_peek z s i c H Hp) as [_ Hlt]. unfold eof0, at_end.
  replace (lx_len (mv z i) <=? lpos (mv z i)) with false; [apply andb_false_r|].
  symmetry. apply Z.leb_gt. unfold lx_len in *. cbn [mv lbuf lpos]. lia.
Qed.

Lemma reads_eof0_end z s : reads z s -> eof0 (mv z (len s)) 0 = true.
Proof.
  intros H. destruct (reads_end z s H) as [_ He]. unfold eof0, at_end. cbn [Z.eqb andb].
  apply Z.leb_le. unfold lx_len in *. cbn [mv lbuf lpos]. lia.
Qed.

Lemma pkr_mv0 z i : pkr (mv z i) 0 = pkr z i.
Proof. unfold pkr. rewrite pk_mv, Z.add_0_r. reflexivity. Qed.

Lemma pkr_mv z i j : pkr (mv z i) j = pkr z (i + j).
Proof. unfold pkr. rewrite pk_mv. reflexivity. Qed.

Lemma skipz_app_len {A} (a b : list A) : skipz (len a) (a ++ b) = b.
Proof. unfold skipz, len. rewrite Nat2Z.id. rewrite skipn_app, Nat.sub_diag, skipn_all. reflexivity. Qed.

Lemma mv_nat z i : mv z (Z.of_nat (S i)) = mv (mv z (Z.of_nat i)) 1.
Proof. rewrite mv_mv. f_equal. lia. Qed.

(* a scanning loop "peek; if stop then break else move one": runs over n bytes *)
Lemma loop_scan {R} (body : lx -> res (lp lx R)) z n fuel r :
  0 <= n ->
  (forall i, 0 <= i < n -> body (mv z i) = Ok (Cont (mv z (i + 1)))) ->
  body (mv z n) = Ok (Brk r) -> (Z.to_nat n < fuel)%nat -> loop fuel body z = Ok r.
Proof.
  intros Hn Hc Hb Hf.
  rewrite <- (mv_0 z). change 0 with (Z.of_nat 0).
  apply (loop_seq body (fun i => mv z (Z.of_nat i)) (Z.to_nat n)); [| |exact Hf].
  - intros i Hi. rewrite Hc by lia. do 2 f_equal. f_equal. lia.
  - rewrite Z2Nat.id by lia. exact Hb.
Qed.

(* the state between two calls of Next on input d: before the bytes s, nothing selected *)
Definition at_input (d : list Z) (l : lexer) (pre s : list Z) : Prop :=
  html_inv d l /\ lstart (lz l) = lpos (lz l) /\ d = pre ++ s /\ lpos (lz l) = len pre.

Lemma at_input_reads d l pre s : at_input d l pre s -> reads (lz l) s.
Proof.
  intros (Hi & _ & -> & Hp). split; [apply Hi|]. rewrite (rem_inv _ _ Hi), Hp. apply skipz_app_len.
Qed.

Lemma fuel_of_enough z s n : reads z s -> n <= len s -> (Z.to_nat n < fuel_of z)%nat.
Proof.
  intros [Hw Hr] Hn. pose proof (len_rem z Hw) as Hl. rewrite Hr in Hl. unfold fuel_of, lx_len in *. lia.
Qed.

(* ---- text ------------------------------------------------------------------------------------------------------- *)
(* what may follow a text: the end of input or something that opens a tag / markup *)
Definition tag_start (rest : list Z) : Prop :=
  exists c1 r, rest = 60 :: c1 :: r /\
    (is_letter c1 = true \/ c1 = 33 \/ c1 = 63 \/ (c1 = 47 /\ exists c2 r', r = c2 :: r' /\ c2 <> 62)).

Lemma tmpl_at_none z : tmpl_at no_tmpl z = Ok false.
Proof. reflexivity. Qed.

Lemma text_loop_text z t rest : reads z (t ++ rest) -> lstart z = lpos z -> t <> [] -> Forall (fun c => c <> 60) t ->
  (rest = [] \/ tag_start rest) ->
  loop (fuel_of z) (text_body no_tmpl) z = Ok (mv z (len t), DText).
Proof.
  intros Hr Hcl Hne Ht Hrest. pose proof (len_nonneg t) as Hlt.
  assert (Hpos : 0 < len t) by (destruct t; [congruence|rewrite len_cons; pose proof (len_nonneg t); lia]).
  apply (loop_scan _ z (len t)); [lia| | |eapply fuel_of_enough; [exact Hr|rewrite len_app; pose proof (len_nonneg rest); lia]].
  - intros i Hi. destruct (peekz_in t i Hi) as (c & Hc & Hin).
    rewrite Forall_forall in Ht. specialize (Ht c Hin).
    unfold text_body. rewrite pkr_mv0, (reads_pkr z _ i c Hr (peekz_app_l' _ _ _ _ Hc)). cbn [rbind].
    rewrite tmpl_at_none. cbn [rbind].
    replace (c =? 60) with false by (symmetry; apply Z.eqb_neq; exact Ht).
    rewrite (reads_eof0_in z _ i c Hr (peekz_app_l' _ _ _ _ Hc)). rewrite mv_mv. reflexivity.
  - assert (Hmark : (0 <? mark (mv z (len t))) = true) by (unfold mark; cbn [mv lpos lstart]; apply Z.ltb_lt; lia).
    unfold text_body. rewrite pkr_mv0. destruct Hrest as [->|(c1 & r & -> & Hc1)].
    + rewrite app_nil_r in Hr. destruct (reads_end z t Hr) as [Hp _]. unfold pkr. rewrite Hp. cbn [opt_res rbind].
      rewrite tmpl_at_none. cbn [rbind Z.eqb]. rewrite (reads_eof0_end z t Hr), Hmark. reflexivity.
    + rewrite (reads_pkr z _ (len t) 60 Hr) by (rewrite peekz_app_r0; apply peekz_cons_0). cbn [rbind].
      rewrite tmpl_at_none. cbn [rbind Z.eqb].
      rewrite pkr_mv, (reads_pkr z _ (len t + 1) c1 Hr) by (rewrite peekz_app_rk by lia; apply peekz_1).
      cbn [rbind]. rewrite Hmark.
      destruct Hc1 as [Hl|[->|[->|(-> & c2 & r' & -> & Hc2)]]].
      * replace (c1 =? 47) with false by (symmetry; apply Z.eqb_neq; intros ->; discriminate). cbn [rbind]. rewrite Hl. cbn. reflexivity.
      * reflexivity.
      * reflexivity.
      * cbn [Z.eqb]. rewrite pkr_mv, (reads_pkr z _ (len t + 2) c2 Hr).
        2:{ rewrite peekz_app_rk by lia. apply peekz_2. }
        cbn [rbind]. replace (c2 =? 62) with false by (symmetry; apply Z.eqb_neq; exact Hc2). cbn [negb andb].
        assert (Hae : at_end_i (mv z (len t)) 2 = false).
        { unfold at_end_i. apply Z.leb_gt. destruct Hr as [Hw Hrem]. pose proof (len_rem z Hw) as Hl. rewrite Hrem in Hl.
          rewrite len_app, !len_cons in Hl. pose proof (len_nonneg r'). unfold lx_len in *. cbn [mv lbuf lpos]. lia. }
        rewrite Hae. rewrite orb_true_r. cbn. reflexivity.
Qed.

(* after a call that returned a token ending n bytes further, the lexer stands before the rest *)
Lemma at_input_next d l pre x rest ty v l' : at_input d l pre (x ++ rest) -> next no_tmpl l = Ok (ty, Some v, l') ->
  so v + sn v = len pre + len x -> at_input d l' (pre ++ x) rest.
Proof.
  intros (Hi & Hcl & Hd & Hp) Hn Hv. pose proof Hi as (Hl & _).
  pose proof (safe_eq _ _ _ (next_spec no_tmpl l cfg_ok_no_tmpl Hl) Hn) as Hs.
  pose proof (html_inv_step d l ty (Some v) l' Hi Hs) as Hi'.
  cbn [step_post] in Hs. destruct Hs as (_ & _ & _ & _ & (_ & _ & _ & T3 & T4 & _) & _).
  split; [exact Hi'|]. split; [exact T4|]. split; [rewrite Hd, app_assoc; reflexivity|]. rewrite len_app. lia.
Qed.

(* bytes of the buffer from the cursor on are the input bytes *)
Lemma at_input_slice d l pre s a b : at_input d l pre s -> 0 <= a <= b -> b <= len s ->
  slice (lbuf (lz l)) (len pre + a) (len pre + b) = slice s a b.
Proof.
  intros (Hi & _ & -> & Hp) Hab Hb. destruct Hi as ((Hw & _) & Hlen & Hsuf & _). pose proof (lx_wf_len _ Hw) as [Hbl _].
  pose proof (len_nonneg pre). rewrite len_app in Hlen.
  apply peekz_ext. intros i. destruct (Z.lt_ge_cases i 0) as [Hn|Hn]; [rewrite !peekz_neg by lia; reflexivity|].
  destruct (Z.lt_ge_cases i (b - a)) as [Hl|Hl].
  - rewrite !peekz_slice by lia. rewrite Hsuf by lia. rewrite <- app_assoc.
    replace (len pre + a + i) with (len pre + (a + i)) by lia. rewrite peekz_app_rk by lia. apply peekz_app_l. lia.
  - assert (N1 : peekz (slice (lbuf (lz l)) (len pre + a) (len pre + b)) i = None) by (apply peekz_none_iff; rewrite len_slice by lia; lia).
    assert (N2 : peekz (slice s a b) i = None) by (apply peekz_none_iff; rewrite len_slice by lia; lia).
    congruence.
Qed.

Lemma slice_app_first {A} (x rest : list A) : slice (x ++ rest) 0 (len x) = x.
Proof.
  unfold slice, skipz, firstz, len. cbn [Z.to_nat skipn]. rewrite Z.sub_0_r, Nat2Z.id.
  rewrite firstn_app, Nat.sub_diag, firstn_all. cbn. apply app_nil_r.
Qed.

Lemma slice_mid' {A} (x y z : list A) : slice (x ++ y ++ z) (len x) (len x + len y) = y.
Proof.
  unfold slice. rewrite skipz_app_len. replace (len x + len y - len x) with (len y) by lia.
  unfold firstz, len. rewrite Nat2Z.id, firstn_app, Nat.sub_diag, firstn_all. cbn. apply app_nil_r.
Qed.

Lemma next_text d l pre t rest : at_input d l pre (t ++ rest) -> intag l = false -> rawtag l = 0 ->
  t <> [] -> Forall (fun c => c <> 60) t -> (rest = [] \/ tag_start rest) ->
  exists l', next no_tmpl l = Ok (TextT, Some (mkSl (len pre) (len t)), l') /\
    ltext l' = Some (mkSl (len pre) (len t)) /\ lbuf (lz l') = lbuf (lz l) /\
    intag l' = false /\ rawtag l' = 0 /\ lerr l' = lerr l.
Proof.
  intros Hat Hit Hraw Hne Ht Hrest. pose proof (at_input_reads _ _ _ _ Hat) as Hr.
  destruct Hat as (Hi & Hcl & Hd & Hp).
  unfold next. cbn [lz rawtag intag lerr ltext lattr lhas]. rewrite Hit, Hraw. cbn [Z.eqb negb].
  unfold next_content. cbn [lz rawtag intag lerr ltext lattr lhas].
  rewrite (text_loop_text _ t rest Hr Hcl Hne Ht Hrest). cbn [rbind].
  destruct (reads_mv _ _ (len t) Hr) as [Hw2 _]; [rewrite len_app; pose proof (len_nonneg t); pose proof (len_nonneg rest); lia|].
  rewrite shiftv_spec by exact Hw2. cbn [rbind fst snd mv lstart lpos].
  rewrite Hcl, Hp. replace (len pre + len t - len pre) with (len t) by lia.
  eexists. split; [reflexivity|]. cbn [ltext lz intag rawtag lerr skip lbuf mv]. repeat split.
Qed.

(* ---- at a '<' that opens something: the text loop dispatches at once ------------------------------------------------ *)
Lemma text_loop_dispatch z c1 r : reads z (60 :: c1 :: r) -> lstart z = lpos z ->
  loop (fuel_of z) (text_body no_tmpl) z =
  Ok (z, if is_letter c1 then DStartTag else if c1 =? 33 then DMarkup else if c1 =? 63 then DBogusQ else DEndTag) \/
  ~ (is_letter c1 = true \/ c1 = 33 \/ c1 = 63 \/ (c1 = 47 /\ exists c2 r', r = c2 :: r' /\ c2 <> 62)).
Proof.
  intros Hr Hcl.
  assert (Hm : (0 <? mark z) = false) by (unfold mark; apply Z.ltb_ge; lia).
  assert (Hstart : forall x, text_body no_tmpl z = Ok (Brk x) -> loop (fuel_of z) (text_body no_tmpl) z = Ok x).
  { intros x Hx. apply (loop_scan _ z 0); [lia|intros i Hi; lia|rewrite mv_0; exact Hx|unfold fuel_of; lia]. }
  assert (Hbody : text_body no_tmpl z =
     (isend <-- (if c1 =? 47 then c2 <-- pkr z 2;; Ok (negb (c2 =? 62) && (negb (c2 =? 0) || negb (at_end_i z 2))) else Ok false);;
      (if negb isend && negb (is_letter c1) && negb (c1 =? 33) && negb (c1 =? 63) then Ok (Cont (mv z 1))
       else if isend then Ok (Brk (z, DEndTag))
       else if is_letter c1 then Ok (Brk (z, DStartTag))
       else if c1 =? 33 then Ok (Brk (z, DMarkup))
       else if c1 =? 63 then Ok (Brk (z, DBogusQ)) else Ok (Cont z)))).
  { unfold text_body. rewrite (reads_pkr z _ 0 60 Hr (peekz_cons_0 _ _)). cbn [rbind]. rewrite tmpl_at_none. cbn [rbind Z.eqb].
    rewrite (reads_pkr z _ 1 c1 Hr (peekz_1 _ _ _)). cbn [rbind]. rewrite Hm. reflexivity. }
  destruct (is_letter c1) eqn:El.
  { left. apply Hstart. rewrite Hbody.
    replace (c1 =? 47) with false by (symmetry; apply Z.eqb_neq; intros ->; discriminate). cbn [rbind]. reflexivity. }
  destruct (c1 =? 33) eqn:E33.
  { left. apply Hstart. rewrite Hbody. apply Z.eqb_eq in E33. subst c1. reflexivity. }
  destruct (c1 =? 63) eqn:E63.
  { left. apply Hstart. rewrite Hbody. apply Z.eqb_eq in E63. subst c1. reflexivity. }
  destruct (c1 =? 47) eqn:E47.
  2:{ right. intros [?|[?|[?|[? _]]]]; b2p; congruence. }
  apply Z.eqb_eq in E47. subst c1.
  destruct r as [|c2 r']; [right; intros [H|[H|[H|(_ & c2 & r' & H & _)]]]; discriminate|].
  destruct (Z.eq_dec c2 62) as [->|Hc2]; [right; intros [H|[H|[H|(_ & c & r2 & H & Hne)]]]; try discriminate; injection H as <- <-; congruence|].
  left. apply Hstart. rewrite Hbody. cbn [Z.eqb].
  rewrite (reads_pkr z _ 2 c2 Hr (peekz_2 _ _ _ _)). cbn [rbind].
  replace (c2 =? 62) with false by (symmetry; apply Z.eqb_neq; exact Hc2). cbn [negb andb].
  assert (Hae : at_end_i z 2 = false).
  { unfold at_end_i. apply Z.leb_gt. destruct Hr as [Hw Hrem]. pose proof (len_rem z Hw) as Hl. rewrite Hrem, !len_cons in Hl.
    pose proof (len_nonneg r'). lia. }
  rewrite Hae, orb_true_r. reflexivity.
Qed.

(* ---- end tags ------------------------------------------------------------------------------------------------------- *)
Lemma reads_slice z s a b : reads z s -> 0 <= a <= b -> b <= len s -> slice (lbuf z) (lpos z + a) (lpos z + b) = slice s a b.
Proof.
  intros [Hw Hr] Hab Hb. pose proof (len_rem z Hw) as Hl. rewrite Hr in Hl. pose proof (lx_wf_len z Hw) as [Hbl _].
  assert (H0 : 0 <= lpos z) by (destruct Hw as (_ & ? & _); lia).
  apply peekz_ext. intros i. destruct (Z.lt_ge_cases i 0) as [Hn|Hn]; [rewrite !peekz_neg by lia; reflexivity|].
  destruct (Z.lt_ge_cases i (b - a)) as [Hlt|Hge].
  - rewrite !peekz_slice by lia. rewrite <- Hr. rewrite peekz_rem by (assumption || lia). unfold pk. f_equal. lia.
  - assert (N1 : peekz (slice (lbuf z) (lpos z + a) (lpos z + b)) i = None) by (apply peekz_none_iff; rewrite len_slice by lia; lia).
    assert (N2 : peekz (slice s a b) i = None) by (apply peekz_none_iff; rewrite len_slice by lia; lia).
    congruence.
Qed.

Lemma endtag_loop_run z bs rest : reads z (bs ++ 62 :: rest) -> Forall (fun c => c <> 62) bs ->
  loop (fuel_of z) endtag_body z = Ok (mv z (len bs), 1).
Proof.
  intros Hr Hb. pose proof (len_nonneg bs).
  apply (loop_scan _ z (len bs)); [lia| | |eapply fuel_of_enough; [exact Hr|rewrite len_app, len_cons; pose proof (len_nonneg rest); lia]].
  - intros i Hi. destruct (peekz_in bs i Hi) as (c & Hc & Hin). rewrite Forall_forall in Hb. specialize (Hb c Hin).
    unfold endtag_body. rewrite pkr_mv0, (reads_pkr z _ i c Hr (peekz_app_l' _ _ _ _ Hc)). cbn [rbind].
    replace (c =? 62) with false by (symmetry; apply Z.eqb_neq; exact Hb).
    rewrite (reads_eof0_in z _ i c Hr (peekz_app_l' _ _ _ _ Hc)). rewrite mv_mv. reflexivity.
  - unfold endtag_body. rewrite pkr_mv0, (reads_pkr z _ (len bs) 62 Hr) by (rewrite peekz_app_r0; apply peekz_cons_0). reflexivity.
Qed.

Lemma trim_rev_ws u r : Forall (fun c => is_ws c = true) u -> trim_rev (u ++ r) = trim_rev r.
Proof. intros Hu. induction Hu as [|c u Hc Hu IH]; [reflexivity|]. cbn [app trim_rev]. rewrite Hc. exact IH. Qed.

(* name ++ ws with ws trailing blanks and no blank in name: the trimmed length is that of name *)
Lemma trim_end_len_app a w : Forall (fun c => is_ws c = true) w -> Forall (fun c => is_ws c = false) a ->
  trim_end_len (a ++ w) = len a.
Proof.
  intros Hw Ha. unfold trim_end_len. rewrite rev_app_distr, trim_rev_ws by (apply Forall_rev; exact Hw).
  apply Forall_rev in Ha. replace (len a) with (len (rev a)) by (unfold len; rewrite rev_length; reflexivity).
  destruct (rev a) as [|y r]; [reflexivity|]. cbn [trim_rev]. inversion Ha as [|? ? Hy _]. rewrite Hy. reflexivity.
Qed.

Lemma view_bytes_lower_view buf v : 0 <= so v -> 0 <= sn v -> so v + sn v <= len buf ->
  view_bytes (lower_view buf v) v = map lower (view_bytes buf v).
Proof.
  intros H1 H2 H3. unfold view_bytes. apply peekz_ext. intros i.
  destruct (Z.lt_ge_cases i 0) as [Hn|Hn]; [rewrite !peekz_neg by lia; reflexivity|].
  rewrite peekz_map.
  destruct (Z.lt_ge_cases i (sn v)) as [Hl|Hl].
  - rewrite !peekz_slice by lia. rewrite peekz_lower_view by lia.
    replace ((so v <=? so v + i) && (so v + i <? so v + sn v)) with true; [reflexivity|].
    symmetry. apply andb_true_iff. split; [apply Z.leb_le|apply Z.ltb_lt]; lia.
  - assert (N1 : peekz (slice (lower_view buf v) (so v) (so v + sn v)) i = None)
      by (apply peekz_none_iff; rewrite len_slice by (rewrite ?len_lower_view by lia; lia); lia).
    assert (N2 : peekz (slice buf (so v) (so v + sn v)) i = None) by (apply peekz_none_iff; rewrite len_slice by lia; lia).
    rewrite N1, N2. reflexivity.
Qed.

Lemma is_tagend_ws c : is_ws c = true -> is_tagend c = true.
Proof. intros H. unfold is_tagend. rewrite H. reflexivity. Qed.

Lemma tagend_false c : is_tagend c = false -> is_ws c = false /\ c <> 62 /\ c <> 47.
Proof.
  unfold is_tagend. intros H. apply orb_false_iff in H. destruct H as [H H47]. apply orb_false_iff in H. destruct H as [Hw H62].
  split; [exact Hw|]. split; apply Z.eqb_neq; assumption.
Qed.

(* the name of an end tag: the bytes up to the first of whitespace, '>', '/' *)
Lemma name_run_app a b : Forall (fun c => is_tagend c = false) a -> (b = [] \/ exists c r, b = c :: r /\ is_tagend c = true) ->
  name_run [] (a ++ b) = len a.
Proof.
  intros Ha Hb. induction Ha as [|x a Hx Ha IH]; cbn [app name_run].
  - destruct Hb as [->|(c & r & -> & Hc)]; [reflexivity|]. cbn [name_run]. rewrite Hc. reflexivity.
  - rewrite Hx, IH, len_cons. reflexivity.
Qed.

Lemma next_endtag d l pre name ws rest :
  at_input d l pre (60 :: 47 :: name ++ ws ++ 62 :: rest) -> intag l = false -> rawtag l = 0 ->
  (exists c nm, name = c :: nm /\ is_letter c = true) -> Forall (fun c => is_tagend c = false) name ->
  Forall (fun c => is_ws c = true) ws ->
  exists l', next no_tmpl l = Ok (EndTagT, Some (mkSl (len pre) (3 + len name + len ws)), l') /\
    ltext l' = Some (mkSl (len pre + 2) (len name)) /\
    lbuf (lz l') = lower_view (lbuf (lz l)) (mkSl (len pre + 2) (len name)) /\
    intag l' = false /\ rawtag l' = 0 /\ lerr l' = lerr l.
Proof.
  intros Hat Hit Hraw (c & nm & Ename & Hlet) Hname Hws. pose proof (at_input_reads _ _ _ _ Hat) as Hr.
  destruct Hat as (Hi & Hcl & Hd & Hp).
  assert (Hno62 : Forall (fun c => c <> 62) (name ++ ws)).
  { apply Forall_app. split; [eapply Forall_impl; [|exact Hname]; cbn beta; intros a Ha; apply tagend_false in Ha; tauto|].
    eapply Forall_impl; [|exact Hws]. cbn. intros a Ha ->. discriminate. }
  unfold next. cbn [lz rawtag intag lerr ltext lattr lhas]. rewrite Hit, Hraw. cbn [Z.eqb negb].
  unfold next_content. cbn [lz rawtag intag lerr ltext lattr lhas].
  destruct (text_loop_dispatch (lz l) 47 (name ++ ws ++ 62 :: rest) Hr Hcl) as [Hdisp|Hno].
  2:{ exfalso. apply Hno. right; right; right. split; [reflexivity|]. subst name. cbn [app]. eexists _, _. split; [reflexivity|].
      intros ->. discriminate. }
  change (if is_letter 47 then DStartTag else if 47 =? 33 then DMarkup else if 47 =? 63 then DBogusQ else DEndTag) with DEndTag in Hdisp.
  rewrite Hdisp. cbn [rbind].
  pose proof (reads_mv _ _ 2 Hr ltac:(rewrite !len_cons; pose proof (len_nonneg (name ++ ws ++ 62 :: rest)); lia)) as Hr2.
  change (skipz 2 (60 :: 47 :: name ++ ws ++ 62 :: rest)) with (name ++ ws ++ 62 :: rest) in Hr2.
  rewrite (reads_pkr _ _ 0 c Hr2) by (subst name; apply peekz_cons_0). cbn [rbind]. rewrite Hlet. cbn [negb].
  unfold shift_endtag. rewrite app_assoc in Hr2.
  unfold with_tmpl_lx; rewrite loop_with_no_tmpl; rewrite (endtag_loop_run _ (name ++ ws) rest Hr2 Hno62). cbn [rbind fst snd].
  destruct Hr2 as [Hw2 Hrem2].
  pose proof (len_nonneg name). pose proof (len_nonneg ws). pose proof (len_nonneg rest).
  assert (Hlim : len (name ++ ws) + 1 <= len ((name ++ ws) ++ 62 :: rest)) by (rewrite (len_app (name ++ ws)), len_cons; lia).
  destruct (rem_mv _ (len (name ++ ws)) Hw2) as [_ Hw3]; [rewrite Hrem2; pose proof (len_nonneg (name ++ ws)); lia|].
  rewrite lexeme_from_spec by (exact Hw3 || (cbn [mv lpos lstart]; pose proof (len_nonneg (name ++ ws)); lia)). cbn [rbind].
  destruct (rem_mv _ (len (name ++ ws) + 1) Hw2) as [_ Hw4]; [rewrite Hrem2; pose proof (len_nonneg (name ++ ws)); lia|].
  assert (Hw4' : lx_wf (mv (mv (mv (lz l) 2) (len (name ++ ws))) 1)) by (rewrite (mv_mv (mv (lz l) 2)); exact Hw4).
  rewrite shiftv_spec by exact Hw4'. cbn [rbind fst snd mv lstart lpos so sn lbuf].
  assert (Hlenall : len (60 :: 47 :: name ++ ws ++ 62 :: rest) = 3 + len name + len ws + len rest) by (rewrite !len_cons, !len_app, len_cons; lia).
  (* the trimmed text *)
  assert (Htrim : trim_end_len (view_bytes (lbuf (lz l)) (mkSl (lstart (lz l) + 2) (lpos (lz l) + 2 + len (name ++ ws) - lstart (lz l) - 2))) = len name).
  { unfold view_bytes. cbn [so sn]. rewrite Hcl.
    replace (lpos (lz l) + 2 + (lpos (lz l) + 2 + len (name ++ ws) - lpos (lz l) - 2)) with (lpos (lz l) + (2 + len (name ++ ws))) by lia.
    rewrite (reads_slice (lz l) _ 2 (2 + len (name ++ ws)) Hr) by (rewrite ?len_app in *; lia).
    assert (Hs : slice (60 :: 47 :: name ++ ws ++ 62 :: rest) 2 (2 + len (name ++ ws)) = name ++ ws).
    { rewrite (app_assoc name ws). exact (slice_mid' [60; 47] (name ++ ws) (62 :: rest)). }
    rewrite Hs. apply trim_end_len_app; [exact Hws|]. eapply Forall_impl; [|exact Hname]. cbn beta. intros a Ha. apply tagend_false in Ha. tauto. }
  rewrite Htrim.
  (* the name *)
  assert (Hname_run : name_run [] (skipz 2 (view_bytes (lbuf (lz l)) (mkSl (lstart (lz l)) (lpos (lz l) + 2 + len (name ++ ws) + 1 - lstart (lz l))))) = len name).
  { unfold view_bytes. cbn [so sn]. rewrite Hcl.
    replace (lpos (lz l) + (lpos (lz l) + 2 + len (name ++ ws) + 1 - lpos (lz l))) with (lpos (lz l) + (3 + len (name ++ ws))) by lia.
    pose proof (reads_slice (lz l) _ 0 (3 + len (name ++ ws)) Hr ltac:(pose proof (len_nonneg (name ++ ws)); lia) ltac:(rewrite ?len_app in *; lia)) as Hsl.
    rewrite Z.add_0_r in Hsl. rewrite Hsl.
    assert (Hs : slice (60 :: 47 :: name ++ ws ++ 62 :: rest) 0 (3 + len (name ++ ws)) = 60 :: 47 :: name ++ ws ++ [62]).
    { replace (60 :: 47 :: name ++ ws ++ 62 :: rest) with ((60 :: 47 :: name ++ ws ++ [62]) ++ rest) by (cbn [app]; rewrite <- !app_assoc; reflexivity).
      replace (3 + len (name ++ ws)) with (len (60 :: 47 :: name ++ ws ++ [62])) by (rewrite !len_cons, !len_app; change (len [62]) with 1; lia).
      apply slice_app_first. }
    rewrite Hs. change (skipz 2 (60 :: 47 :: name ++ ws ++ [62])) with (name ++ ws ++ [62]).
    apply name_run_app; [exact Hname|]. right. destruct ws as [|w ws']; [exists 62, []; split; reflexivity|].
    exists w, (ws' ++ [62]). split; [reflexivity|]. apply is_tagend_ws. inversion Hws; assumption. }
  change (tb no_tmpl) with (@nil Z). rewrite Hname_run. rewrite len_app. rewrite Hcl, Hp.
  replace (len pre + 2 + (len name + len ws) + 1 - len pre) with (3 + len name + len ws) by lia.
  replace (2 <=? 3 + len name + len ws) with true by (symmetry; apply Z.leb_le; lia).
  eexists. split; [reflexivity|].
  cbn [ltext lz intag rawtag lerr lx_lower lbuf skip mv]. repeat split.
Qed.

(* ---- comments, CDATA, doctype ---------------------------------------------------------------------------------------- *)
(* body ++ term contains none of the patterns before position len body *)
Definition no_term (pats : list (list Z)) (body term : list Z) : Prop :=
  forall k, 0 <= k < len body -> forall p, In p pats -> prefixb p (skipz k (body ++ term)) = false.

Lemma prefixb_app_irrel p x r : len p <= len x -> prefixb p (x ++ r) = prefixb p x.
Proof.
  revert x. induction p as [|c p IH]; intros x H; [reflexivity|].
  destruct x as [|y x]; [rewrite len_cons, len_nil in H; pose proof (len_nonneg p); lia|].
  cbn [app prefixb]. rewrite IH; [reflexivity|]. rewrite !len_cons in H. lia.
Qed.

Lemma skipz_app_l {A} k (a r : list A) : 0 <= k <= len a -> skipz k (a ++ r) = skipz k a ++ r.
Proof.
  intros H. unfold skipz, len in *. rewrite skipn_app. replace (Z.to_nat k - length a)%nat with 0%nat by lia. reflexivity.
Qed.

Lemma reads_at z s k pat : reads z s -> nz_list pat -> 0 <= k <= len s -> at_ (mv z k) pat = Ok (prefixb pat (skipz k s)).
Proof.
  intros Hr Hn Hk. destruct (reads_mv z s k Hr Hk) as [Hw Hrem]. rewrite at_rem by assumption. rewrite Hrem. reflexivity.
Qed.

Lemma comment_loop_run z body rest : reads z (body ++ 45 :: 45 :: 62 :: rest) ->
  no_term [[45; 45; 62]; [45; 45; 33; 62]] body [45; 45; 62] ->
  loop (fuel_of z) comment_body z = Ok (mv z (len body), 3).
Proof.
  intros Hr Hclean. pose proof (len_nonneg body). pose proof (len_nonneg rest).
  assert (Hlen : len (body ++ 45 :: 45 :: 62 :: rest) = len body + 3 + len rest) by (rewrite len_app, !len_cons; lia).
  apply (loop_scan _ z (len body)); [lia| | |eapply fuel_of_enough; [exact Hr|lia]].
  - intros i Hi. destruct (peekz_in body i Hi) as (c & Hc & _).
    unfold comment_body. rewrite pkr_mv0, (reads_pkr z _ i c Hr (peekz_app_l' _ _ _ _ Hc)). cbn [rbind].
    rewrite (reads_eof0_in z _ i c Hr (peekz_app_l' _ _ _ _ Hc)).
    assert (Hpre : forall p, In p [[45; 45; 62]; [45; 45; 33; 62]] -> prefixb p (skipz i (body ++ 45 :: 45 :: 62 :: rest)) = false).
    { intros p Hp. change (45 :: 45 :: 62 :: rest) with ([45; 45; 62] ++ rest). rewrite app_assoc.
      rewrite skipz_app_l by (rewrite len_app; change (len [45; 45; 62]) with 3; lia).
      rewrite prefixb_app_irrel; [apply Hclean; assumption|].
      rewrite len_skipz by (rewrite len_app; change (len [45; 45; 62]) with 3; lia). rewrite len_app. change (len [45; 45; 62]) with 3.
      destruct Hp as [<-|[<-|[]]]; cbn; lia. }
    rewrite (reads_at z _ i [45; 45; 62] Hr) by (repeat constructor; lia || lia). rewrite Hpre by (left; reflexivity). cbn [rbind].
    rewrite (reads_at z _ i [45; 45; 33; 62] Hr) by (repeat constructor; lia || lia). rewrite Hpre by (right; left; reflexivity). cbn [rbind].
    rewrite mv_mv. reflexivity.
  - unfold comment_body. rewrite pkr_mv0, (reads_pkr z _ (len body) 45 Hr) by (rewrite peekz_app_r0; apply peekz_cons_0). cbn [rbind].
    rewrite (reads_eof0_in z _ (len body) 45 Hr) by (rewrite peekz_app_r0; apply peekz_cons_0).
    rewrite (reads_at z _ (len body) [45; 45; 62] Hr) by (repeat constructor; lia || lia).
    rewrite skipz_app_len. cbn [prefixb Z.eqb andb rbind]. reflexivity.
Qed.

Lemma cdata_loop_run z body rest : reads z (body ++ 93 :: 93 :: 62 :: rest) ->
  no_term [[93; 93; 62]] body [93; 93; 62] ->
  loop (fuel_of z) cdata_body z = Ok (mv z (len body), 3).
Proof.
  intros Hr Hclean. pose proof (len_nonneg body). pose proof (len_nonneg rest).
  assert (Hlen : len (body ++ 93 :: 93 :: 62 :: rest) = len body + 3 + len rest) by (rewrite len_app, !len_cons; lia).
  apply (loop_scan _ z (len body)); [lia| | |eapply fuel_of_enough; [exact Hr|lia]].
  - intros i Hi. destruct (peekz_in body i Hi) as (c & Hc & _).
    unfold cdata_body. rewrite pkr_mv0, (reads_pkr z _ i c Hr (peekz_app_l' _ _ _ _ Hc)). cbn [rbind].
    rewrite (reads_eof0_in z _ i c Hr (peekz_app_l' _ _ _ _ Hc)).
    rewrite (reads_at z _ i [93; 93; 62] Hr) by (repeat constructor; lia || lia).
    change (93 :: 93 :: 62 :: rest) with ([93; 93; 62] ++ rest). rewrite app_assoc.
    rewrite skipz_app_l by (rewrite len_app; change (len [93; 93; 62]) with 3; lia).
    rewrite prefixb_app_irrel.
    + rewrite (Hclean i Hi) by (left; reflexivity). cbn [rbind]. rewrite mv_mv. reflexivity.
    + rewrite len_skipz by (rewrite len_app; change (len [93; 93; 62]) with 3; lia). rewrite len_app. change (len [93; 93; 62]) with 3. lia.
  - unfold cdata_body. rewrite pkr_mv0, (reads_pkr z _ (len body) 93 Hr) by (rewrite peekz_app_r0; apply peekz_cons_0). cbn [rbind].
    rewrite (reads_eof0_in z _ (len body) 93 Hr) by (rewrite peekz_app_r0; apply peekz_cons_0).
    rewrite (reads_at z _ (len body) [93; 93; 62] Hr) by (repeat constructor; lia || lia).
    rewrite skipz_app_len. cbn [prefixb Z.eqb andb rbind]. reflexivity.
Qed.

Lemma fuel_of_mv_le z n : 0 <= n -> (fuel_of (mv z n) <= fuel_of z)%nat.
Proof. intros H. unfold fuel_of. cbn [mv lbuf lpos]. lia. Qed.

Lemma next_comment d l pre body rest :
  at_input d l pre (60 :: 33 :: 45 :: 45 :: body ++ 45 :: 45 :: 62 :: rest) -> intag l = false -> rawtag l = 0 ->
  no_term [[45; 45; 62]; [45; 45; 33; 62]] body [45; 45; 62] ->
  exists l', next no_tmpl l = Ok (CommentT, Some (mkSl (len pre) (7 + len body)), l') /\
    ltext l' = Some (mkSl (len pre + 4) (len body)) /\ lbuf (lz l') = lbuf (lz l) /\
    intag l' = false /\ rawtag l' = 0 /\ lerr l' = lerr l.
Proof.
  intros Hat Hit Hraw Hclean. pose proof (at_input_reads _ _ _ _ Hat) as Hr.
  destruct Hat as (Hi & Hcl & Hd & Hp). pose proof (len_nonneg body). pose proof (len_nonneg rest).
  assert (Hlen : len (60 :: 33 :: 45 :: 45 :: body ++ 45 :: 45 :: 62 :: rest) = 7 + len body + len rest) by (rewrite !len_cons, len_app, !len_cons; lia).
  unfold next. cbn [lz rawtag intag lerr ltext lattr lhas]. rewrite Hit, Hraw. cbn [Z.eqb negb].
  unfold next_content. cbn [lz rawtag intag lerr ltext lattr lhas].
  destruct (text_loop_dispatch (lz l) 33 _ Hr Hcl) as [Hdisp|Hno]; [|exfalso; apply Hno; tauto].
  change (if is_letter 33 then DStartTag else if 33 =? 33 then DMarkup else if 33 =? 63 then DBogusQ else DEndTag) with DMarkup in Hdisp.
  rewrite Hdisp. cbn [rbind].
  unfold read_markup.
  rewrite (reads_at (lz l) _ 2 [45; 45] Hr) by (repeat constructor; lia || lia).
  change (prefixb [45; 45] (skipz 2 (60 :: 33 :: 45 :: 45 :: body ++ 45 :: 45 :: 62 :: rest))) with true. cbn [rbind].
  pose proof (reads_mv _ _ 4 Hr ltac:(lia)) as Hr4.
  change (skipz 4 (60 :: 33 :: 45 :: 45 :: body ++ 45 :: 45 :: 62 :: rest)) with (body ++ 45 :: 45 :: 62 :: rest) in Hr4.
  rewrite (mv_mv (lz l) 2 2). change (2 + 2) with 4.
  unfold with_tmpl_lx; rewrite loop_with_no_tmpl; rewrite (loop_fuel_mono _ _ (fuel_of (mv (lz l) 2)) _ _ (comment_loop_run _ body rest Hr4 Hclean))
    by (unfold fuel_of; cbn [mv lbuf lpos]; lia).
  cbn [rbind fst snd].
  destruct Hr4 as [Hw4 Hrem4].
  destruct (rem_mv _ (len body) Hw4) as [_ Hw5]; [rewrite Hrem4, len_app, !len_cons; lia|].
  rewrite lexeme_from_spec by (exact Hw5 || (cbn [mv lpos lstart]; lia)). cbn [rbind].
  destruct (rem_mv _ (len body + 3) Hw4) as [_ Hw6]; [rewrite Hrem4, len_app, !len_cons; lia|].
  assert (Hw6' : lx_wf (mv (mv (mv (lz l) 4) (len body)) 3)) by (rewrite (mv_mv (mv (lz l) 4)); exact Hw6).
  rewrite shiftv_spec by exact Hw6'. cbn [rbind fst snd mv lstart lpos so sn]. rewrite Hcl, Hp.
  replace (len pre + 4 + len body + 3 - len pre) with (7 + len body) by lia.
  replace (len pre + 4 + len body - len pre - 4) with (len body) by lia.
  eexists. split; [reflexivity|]. cbn [ltext lz intag rawtag lerr lbuf skip mv]. repeat split.
Qed.

Lemma next_cdata d l pre body rest :
  at_input d l pre (60 :: 33 :: 91 :: 67 :: 68 :: 65 :: 84 :: 65 :: 91 :: body ++ 93 :: 93 :: 62 :: rest) -> intag l = false -> rawtag l = 0 ->
  no_term [[93; 93; 62]] body [93; 93; 62] ->
  exists l', next no_tmpl l = Ok (TextT, Some (mkSl (len pre) (12 + len body)), l') /\
    ltext l' = Some (mkSl (len pre + 9) (len body)) /\ lbuf (lz l') = lbuf (lz l) /\
    intag l' = false /\ rawtag l' = 0 /\ lerr l' = lerr l.
Proof.
  intros Hat Hit Hraw Hclean. pose proof (at_input_reads _ _ _ _ Hat) as Hr.
  destruct Hat as (Hi & Hcl & Hd & Hp). pose proof (len_nonneg body). pose proof (len_nonneg rest).
  assert (Hlen : len (60 :: 33 :: 91 :: 67 :: 68 :: 65 :: 84 :: 65 :: 91 :: body ++ 93 :: 93 :: 62 :: rest) = 12 + len body + len rest)
    by (rewrite !len_cons, len_app, !len_cons; lia).
  unfold next. cbn [lz rawtag intag lerr ltext lattr lhas]. rewrite Hit, Hraw. cbn [Z.eqb negb].
  unfold next_content. cbn [lz rawtag intag lerr ltext lattr lhas].
  destruct (text_loop_dispatch (lz l) 33 _ Hr Hcl) as [Hdisp|Hno]; [|exfalso; apply Hno; tauto].
  change (if is_letter 33 then DStartTag else if 33 =? 33 then DMarkup else if 33 =? 63 then DBogusQ else DEndTag) with DMarkup in Hdisp.
  rewrite Hdisp. cbn [rbind].
  unfold read_markup.
  rewrite (reads_at (lz l) _ 2 [45; 45] Hr) by (repeat constructor; lia || lia).
  change (prefixb [45; 45] (skipz 2 (60 :: 33 :: 91 :: 67 :: 68 :: 65 :: 84 :: 65 :: 91 :: body ++ 93 :: 93 :: 62 :: rest))) with false. cbn [rbind].
  rewrite (reads_at (lz l) _ 2 [91; 67; 68; 65; 84; 65; 91] Hr) by (repeat constructor; lia || lia).
  change (prefixb [91; 67; 68; 65; 84; 65; 91] (skipz 2 (60 :: 33 :: 91 :: 67 :: 68 :: 65 :: 84 :: 65 :: 91 :: body ++ 93 :: 93 :: 62 :: rest))) with true. cbn [rbind].
  pose proof (reads_mv _ _ 9 Hr ltac:(lia)) as Hr9.
  change (skipz 9 (60 :: 33 :: 91 :: 67 :: 68 :: 65 :: 84 :: 65 :: 91 :: body ++ 93 :: 93 :: 62 :: rest)) with (body ++ 93 :: 93 :: 62 :: rest) in Hr9.
  rewrite (mv_mv (lz l) 2 7). change (2 + 7) with 9.
  unfold with_tmpl_lx; rewrite loop_with_no_tmpl; rewrite (loop_fuel_mono _ _ (fuel_of (mv (lz l) 2)) _ _ (cdata_loop_run _ body rest Hr9 Hclean))
    by (unfold fuel_of; cbn [mv lbuf lpos]; lia).
  cbn [rbind fst snd].
  destruct Hr9 as [Hw9 Hrem9].
  destruct (rem_mv _ (len body) Hw9) as [_ Hw5]; [rewrite Hrem9, len_app, !len_cons; lia|].
  rewrite lexeme_from_spec by (exact Hw5 || (cbn [mv lpos lstart]; lia)). cbn [rbind].
  destruct (rem_mv _ (len body + 3) Hw9) as [_ Hw6]; [rewrite Hrem9, len_app, !len_cons; lia|].
  assert (Hw6' : lx_wf (mv (mv (mv (lz l) 9) (len body)) 3)) by (rewrite (mv_mv (mv (lz l) 9)); exact Hw6).
  rewrite shiftv_spec by exact Hw6'. cbn [rbind fst snd mv lstart lpos so sn]. rewrite Hcl, Hp.
  replace (len pre + 9 + len body + 3 - len pre) with (12 + len body) by lia.
  replace (len pre + 9 + len body - len pre - 9) with (len body) by lia.
  eexists. split; [reflexivity|]. cbn [ltext lz intag rawtag lerr lbuf skip mv]. repeat split.
Qed.

Definition ci_eq (x c : Z) : Prop := x = c \/ x = c - 32.

Lemma atci_from_reads z s : reads z s -> forall ps xs i, 0 <= i -> Forall2 ci_eq xs ps -> Forall (fun c => 97 <= c <= 122) ps ->
  prefixb xs (skipz i s) = true -> atci_from z i ps = Ok true.
Proof.
  intros Hr ps. induction ps as [|c ps IH]; intros xs i Hi Hf Hps Hpre; [reflexivity|].
  inversion Hf as [|x c' xs' ps' Hx Hf']; subst. inversion Hps as [|? ? Hc Hps']; subst.
  cbn [atci_from]. destruct (skipz i s) as [|y r] eqn:Es; [discriminate|]. cbn [prefixb] in Hpre.
  apply andb_true_iff in Hpre. destruct Hpre as [Exy Hpre]. apply Z.eqb_eq in Exy. subst y.
  assert (Hpk : peekz s i = Some x).
  { rewrite <- (Z.add_0_r i), <- peekz_skipz by lia. rewrite Es. apply peekz_cons_0. }
  rewrite (reads_pkr z s i x Hr Hpk). cbn [rbind].
  assert (Hm : (x =? c) || ((x + 32) mod 256 =? c) = true).
  { destruct Hx as [->| ->]; [rewrite Z.eqb_refl; reflexivity|]. apply orb_true_iff. right. apply Z.eqb_eq.
    replace (c - 32 + 32) with c by lia. apply Z.mod_small. lia. }
  rewrite Hm. apply (IH xs' (i + 1)); [lia|exact Hf'|exact Hps'|].
  rewrite (skipz_peek_cons s i x Hpk) in Es. injection Es as <-. exact Hpre.
Qed.

Lemma doctype_loop_run z bs rest : reads z (bs ++ 62 :: rest) -> Forall (fun c => c <> 62) bs ->
  loop (fuel_of z) doctype_body z = Ok (mv z (len bs), 1).
Proof.
  intros Hr Hb. pose proof (len_nonneg bs).
  apply (loop_scan _ z (len bs)); [lia| | |eapply fuel_of_enough; [exact Hr|rewrite len_app, len_cons; pose proof (len_nonneg rest); lia]].
  - intros i Hi. destruct (peekz_in bs i Hi) as (c & Hc & Hin). rewrite Forall_forall in Hb. specialize (Hb c Hin).
    unfold doctype_body. rewrite pkr_mv0, (reads_pkr z _ i c Hr (peekz_app_l' _ _ _ _ Hc)). cbn [rbind].
    replace (c =? 62) with false by (symmetry; apply Z.eqb_neq; exact Hb). cbn [orb].
    rewrite (reads_eof0_in z _ i c Hr (peekz_app_l' _ _ _ _ Hc)). rewrite mv_mv. reflexivity.
  - unfold doctype_body. rewrite pkr_mv0, (reads_pkr z _ (len bs) 62 Hr) by (rewrite peekz_app_r0; apply peekz_cons_0). reflexivity.
Qed.

Lemma next_doctype d l pre x0 x1 x2 x3 x4 x5 x6 after rest :
  let dt := [x0; x1; x2; x3; x4; x5; x6] in
  at_input d l pre (60 :: 33 :: dt ++ after ++ 62 :: rest) -> intag l = false -> rawtag l = 0 ->
  Forall2 ci_eq dt [100; 111; 99; 116; 121; 112; 101] -> Forall (fun c => c <> 62) after ->
  exists l', next no_tmpl l = Ok (DoctypeT, Some (mkSl (len pre) (10 + len after)), l') /\
    ltext l' = Some (mkSl (len pre + 9) (len after)) /\ lbuf (lz l') = lbuf (lz l) /\
    intag l' = false /\ rawtag l' = 0 /\ lerr l' = lerr l.
Proof.
  intros dt Hat Hit Hraw Hdt Hafter. pose proof (at_input_reads _ _ _ _ Hat) as Hr.
  destruct Hat as (Hi & Hcl & Hd & Hp). pose proof (len_nonneg after). pose proof (len_nonneg rest).
  assert (Hdt7 : len dt = 7) by reflexivity.
  assert (Hd0 : x0 = 100 \/ x0 = 68) by (inversion Hdt as [|? ? ? ? Hx _]; subst; destruct Hx; lia).
  assert (Hlen : len (60 :: 33 :: dt ++ after ++ 62 :: rest) = 10 + len after + len rest)
    by (rewrite !len_cons, len_app, len_app, len_cons; lia).
  unfold next. cbn [lz rawtag intag lerr ltext lattr lhas]. rewrite Hit, Hraw. cbn [Z.eqb negb].
  unfold next_content. cbn [lz rawtag intag lerr ltext lattr lhas].
  destruct (text_loop_dispatch (lz l) 33 _ Hr Hcl) as [Hdisp|Hno]; [|exfalso; apply Hno; tauto].
  change (if is_letter 33 then DStartTag else if 33 =? 33 then DMarkup else if 33 =? 63 then DBogusQ else DEndTag) with DMarkup in Hdisp.
  rewrite Hdisp. cbn [rbind].
  unfold read_markup.
  pose proof (reads_mv _ _ 2 Hr ltac:(lia)) as Hr2.
  change (skipz 2 (60 :: 33 :: dt ++ after ++ 62 :: rest)) with (dt ++ after ++ 62 :: rest) in Hr2.
  assert (Hat1 : at_ (mv (lz l) 2) [45; 45] = Ok false).
  { destruct Hr2 as [Hw2 Hrem2]. rewrite (at_rem (mv (lz l) 2) [45; 45] ltac:(repeat constructor; lia) Hw2). rewrite Hrem2. unfold dt. cbn [app prefixb].
    destruct Hd0 as [-> | -> ]; reflexivity. }
  assert (Hat2 : at_ (mv (lz l) 2) [91; 67; 68; 65; 84; 65; 91] = Ok false).
  { destruct Hr2 as [Hw2 Hrem2]. rewrite (at_rem (mv (lz l) 2) [91; 67; 68; 65; 84; 65; 91] ltac:(repeat constructor; lia) Hw2). rewrite Hrem2. unfold dt. cbn [app prefixb].
    destruct Hd0 as [-> | -> ]; reflexivity. }
  rewrite Hat1. cbn [rbind]. rewrite Hat2. cbn [rbind].
  rewrite (atci_from_reads _ _ Hr2 _ dt 0); [|lia|exact Hdt|repeat constructor; lia|].
  2:{ unfold skipz, dt. cbn [Z.to_nat skipn app prefixb]. rewrite !Z.eqb_refl. reflexivity. }
  cbn [rbind].
  pose proof (reads_mv _ _ 7 Hr2 ltac:(rewrite len_app, len_app, len_cons; lia)) as Hr9.
  replace (skipz 7 (dt ++ after ++ 62 :: rest)) with (after ++ 62 :: rest) in Hr9 by reflexivity.
  (* the optional blank and the loop up to '>' *)
  set (z7 := mv (mv (lz l) 2) 7) in *.
  assert (Hloop : forall c0, pkr z7 0 = Ok c0 ->
     loop (fuel_of (if c0 =? 32 then mv z7 1 else z7)) doctype_body (if c0 =? 32 then mv z7 1 else z7) = Ok (mv z7 (len after), 1)).
  { intros c0 Hc0. destruct (c0 =? 32) eqn:E32; [|apply (doctype_loop_run z7 after rest); assumption].
    apply Z.eqb_eq in E32. subst c0. destruct after as [|a0 after'].
    - rewrite (reads_pkr z7 _ 0 62 Hr9) in Hc0 by apply peekz_cons_0. discriminate.
    - rewrite (reads_pkr z7 _ 0 a0 Hr9) in Hc0 by apply peekz_cons_0. injection Hc0 as ->.
      pose proof (reads_mv _ _ 1 Hr9 ltac:(cbn [app]; rewrite len_cons; pose proof (len_nonneg (after' ++ 62 :: rest)); lia)) as Hr10.
      change (skipz 1 ((32 :: after') ++ 62 :: rest)) with (after' ++ 62 :: rest) in Hr10.
      rewrite (doctype_loop_run _ after' rest Hr10) by (inversion Hafter; assumption).
      rewrite mv_mv, len_cons. reflexivity. }
  destruct (pkr0 z7 (proj1 Hr9)) as (c0 & Hc0 & _). rewrite Hc0. cbn [rbind]. unfold with_tmpl_lx; rewrite loop_with_no_tmpl. rewrite (Hloop c0 Hc0). cbn [rbind fst snd].
  destruct Hr9 as [Hw9 Hrem9].
  destruct (rem_mv _ (len after) Hw9) as [_ Hw5]; [rewrite Hrem9, len_app, !len_cons; lia|].
  rewrite lexeme_from_spec by (exact Hw5 || (unfold z7; cbn [mv lpos lstart]; lia)). cbn [rbind].
  destruct (rem_mv _ (len after + 1) Hw9) as [_ Hw6]; [rewrite Hrem9, len_app, !len_cons; lia|].
  assert (Hw6' : lx_wf (mv (mv z7 (len after)) 1)) by (rewrite mv_mv; exact Hw6).
  rewrite shiftv_spec by exact Hw6'. unfold z7. cbn [rbind fst snd mv lstart lpos so sn]. rewrite Hcl, Hp.
  replace (len pre + 2 + 7 + len after + 1 - len pre) with (10 + len after) by lia.
  replace (len pre + 2 + 7 + len after - len pre - 9) with (len after) by lia.
  eexists. split; [reflexivity|]. cbn [ltext lz intag rawtag lerr lbuf skip mv]. repeat split.
Qed.

(* ---- start tags ------------------------------------------------------------------------------------------------------ *)
Definition namechar (c : Z) : Prop := is_ws c = false /\ c <> 62 /\ c <> 47.

(* what ends a tag name / an attribute name: end of input, whitespace, '>', "/>" *)
Definition tag_stop (rest : list Z) : Prop :=
  rest = [] \/ exists c r, rest = c :: r /\ (is_ws c = true \/ c = 62 \/ (c = 47 /\ exists r', r = 62 :: r')).

Lemma is_ws_cases c : is_ws c = true -> c = 32 \/ c = 9 \/ c = 10 \/ c = 13 \/ c = 12.
Proof. unfold is_ws. intros H. repeat (apply orb_true_iff in H; destruct H as [H|H]); b2p; lia. Qed.

Lemma starttag_loop_run z name rest : reads z (name ++ rest) -> Forall namechar name -> tag_stop rest ->
  loop (fuel_of z) (starttag_body no_tmpl) z = Ok (mv z (len name)).
Proof.
  intros Hr Hn Hstop. pose proof (len_nonneg name).
  apply (loop_scan _ z (len name)); [lia| | |eapply fuel_of_enough; [exact Hr|rewrite len_app; pose proof (len_nonneg rest); lia]].
  - intros i Hi. destruct (peekz_in name i Hi) as (c & Hc & Hin). rewrite Forall_forall in Hn. destruct (Hn c Hin) as (Hw & H62 & H47).
    unfold starttag_body. rewrite pkr_mv0, (reads_pkr z _ i c Hr (peekz_app_l' _ _ _ _ Hc)). cbn [rbind].
    rewrite (reads_eof0_in z _ i c Hr (peekz_app_l' _ _ _ _ Hc)). rewrite tmpl_at_none.
    unfold is_ws in Hw. apply orb_false_iff in Hw. destruct Hw as [Hw H12]. apply orb_false_iff in Hw. destruct Hw as [Hw H13].
    apply orb_false_iff in Hw. destruct Hw as [Hw H10]. apply orb_false_iff in Hw. destruct Hw as [H32 H9].
    rewrite H32, H9, H10, H13, H12.
    replace (c =? 62) with false by (symmetry; apply Z.eqb_neq; exact H62).
    replace (c =? 47) with false by (symmetry; apply Z.eqb_neq; exact H47). cbn [orb rbind]. rewrite mv_mv. reflexivity.
  - unfold starttag_body. rewrite pkr_mv0. destruct Hstop as [->|(c & r & -> & Hc)].
    + rewrite app_nil_r in Hr. destruct (reads_end z name Hr) as [Hp _]. unfold pkr. rewrite Hp. cbn [opt_res rbind Z.eqb orb].
      rewrite (reads_eof0_end z name Hr). cbn [orb rbind]. reflexivity.
    + rewrite (reads_pkr z _ (len name) c Hr) by (rewrite peekz_app_r0; apply peekz_cons_0). cbn [rbind].
      destruct Hc as [Hw|[->|(-> & r' & ->)]].
      * destruct (is_ws_cases c Hw) as [->|[->|[->|[->| ->]]]]; cbn [Z.eqb orb rbind]; reflexivity.
      * reflexivity.
      * cbn [Z.eqb orb]. rewrite pkr_mv, (reads_pkr z _ (len name + 1) 62 Hr) by (rewrite peekz_app_rk by lia; apply peekz_1). reflexivity.
Qed.

Lemma namechar_letter c : is_letter c = true -> namechar c.
Proof.
  unfold is_letter, namechar, is_ws. intros H. apply orb_true_iff in H.
  assert (65 <= c <= 122) by (destruct H as [H|H]; b2p; lia).
  repeat split; lia.
Qed.

(* the start tag of an element that is neither raw text nor svg/math/xml (raw = false), or of a raw-text element *)
Lemma next_starttag d l pre name rest h :
  at_input d l pre (60 :: name ++ rest) -> intag l = false -> rawtag l = 0 ->
  (exists c nm, name = c :: nm /\ is_letter c = true) -> Forall namechar name -> tag_stop rest ->
  to_hash (map lower name) = Ok h -> is_xml_hash h = false ->
  exists l', next no_tmpl l = Ok (StartTagT, Some (mkSl (len pre) (1 + len name)), l') /\
    ltext l' = Some (mkSl (len pre + 1) (len name)) /\
    lbuf (lz l') = lower_view (lbuf (lz l)) (mkSl (len pre + 1) (len name)) /\
    intag l' = true /\ rawtag l' = (if is_raw_hash h then h else 0) /\ lerr l' = lerr l.
Proof.
  intros Hat Hit Hraw (c & nm & Ename & Hlet) Hname Hstop Hh Hxml. pose proof (at_input_reads _ _ _ _ Hat) as Hr.
  pose proof Hat as (Hi & Hcl & Hd & Hp). pose proof (len_nonneg name). pose proof (len_nonneg rest).
  unfold next. cbn [lz rawtag intag lerr ltext lattr lhas]. rewrite Hit, Hraw. cbn [Z.eqb negb].
  unfold next_content. cbn [lz rawtag intag lerr ltext lattr lhas].
  assert (Hr' : reads (lz l) (60 :: c :: nm ++ rest)) by (rewrite Ename in Hr; exact Hr).
  destruct (text_loop_dispatch (lz l) c (nm ++ rest) Hr' Hcl) as [Hdisp|Hno]; [|exfalso; apply Hno; tauto].
  rewrite Hlet in Hdisp. rewrite Hdisp. cbn [rbind].
  pose proof (reads_mv _ _ 1 Hr ltac:(rewrite len_cons; pose proof (len_nonneg (name ++ rest)); lia)) as Hr1.
  change (skipz 1 (60 :: name ++ rest)) with (name ++ rest) in Hr1.
  unfold shift_starttag. rewrite (starttag_loop_run _ name rest Hr1 Hname Hstop). cbn [rbind].
  destruct Hr1 as [Hw1 Hrem1].
  destruct (rem_mv _ (len name) Hw1) as [_ Hw2]; [rewrite Hrem1, len_app; lia|].
  rewrite lexeme_from_spec by (exact Hw2 || (cbn [mv lpos lstart]; lia)). cbn [rbind mv lstart lpos].
  set (t := mkSl (lstart (lz l) + 1) (lpos (lz l) + 1 + len name - lstart (lz l) - 1)).
  assert (Ht : t = mkSl (len pre + 1) (len name)) by (unfold t; rewrite Hcl, Hp; f_equal; lia).
  (* the lower-cased name *)
  pose proof (lx_wf_len _ Hw2) as [Hbl _].
  assert (Hlim : len pre + 1 + len name <= lx_len (lz l)).
  { destruct Hw2 as (_ & _ & Hq). cbn [mv lpos] in Hq. unfold lx_len in *. cbn [mv lbuf] in Hq. lia. }
  assert (Hbytes : view_bytes (lbuf (lx_lower (mv (mv (lz l) 1) (len name)) t)) t = map lower name).
  { unfold lx_lower. cbn [lbuf mv]. rewrite Ht. rewrite view_bytes_lower_view by (cbn [so sn]; pose proof (len_nonneg pre); unfold lx_len in *; cbn [mv lbuf] in Hbl; lia).
    f_equal. unfold view_bytes. cbn [so sn]. replace (len pre + 1 + len name) with (len pre + (1 + len name)) by lia.
    rewrite (at_input_slice d l pre _ 1 (1 + len name) Hat) by (rewrite ?len_cons, ?len_app; lia).
    unfold slice. change (skipz 1 (60 :: name ++ rest)) with (name ++ rest). replace (1 + len name - 1) with (len name) by lia.
    unfold firstz, len. rewrite Nat2Z.id, firstn_app, Nat.sub_diag, firstn_all. cbn. apply app_nil_r. }
  rewrite Hbytes, Hh. cbn [rbind].
  assert (Hw3 : lx_wf (lx_lower (mv (mv (lz l) 1) (len name)) t)).
  { apply lx_lower_wf; [exact Hw2|rewrite Ht; cbn; pose proof (len_nonneg pre); lia|rewrite Ht; cbn; lia|].
    rewrite Ht. cbn [so sn]. unfold lx_len in *. cbn [mv lbuf]. lia. }
  rewrite Hxml. rewrite shiftv_spec by exact Hw3. cbn [lx_lower lstart lpos mv].
  destruct (is_raw_hash h); cbn [rbind fst snd]; rewrite Ht, Hcl, Hp;
    replace (len pre + 1 + len name - len pre) with (1 + len name) by lia;
    (eexists; split; [reflexivity|]; cbn [ltext lz intag rawtag lerr lbuf skip lx_lower mv]; repeat split).
Qed.

(* ---- inside a tag: whitespace, '>' and '/>' ---------------------------------------------------------------------------- *)
Lemma ws_loop_reads z ws rest : reads z (ws ++ rest) -> Forall (fun c => is_ws c = true) ws ->
  (rest = [] \/ exists c r, rest = c :: r /\ is_ws c = false) -> ws_loop z = Ok (mv z (len ws)).
Proof.
  intros Hr Hws Hrest. pose proof (len_nonneg ws). unfold ws_loop.
  apply (ws_loop_func (Z.to_nat (len ws))); [reflexivity|lia|eapply fuel_of_enough; [exact Hr|rewrite len_app; pose proof (len_nonneg rest); lia]| |].
  - intros i Hi. destruct (peekz_in ws i Hi) as (c & Hc & Hin). rewrite Forall_forall in Hws.
    exists c. split; [apply (reads_peek z _ i c Hr), peekz_app_l', Hc|apply Hws, Hin].
  - destruct Hrest as [->|(c & r & -> & Hc)].
    + rewrite app_nil_r in Hr. exists 0. split; [apply (reads_end z ws Hr)|reflexivity].
    + exists c. split; [|exact Hc]. apply (reads_peek z _ (len ws) c Hr). rewrite peekz_app_r0. apply peekz_cons_0.
Qed.

Lemma next_close d l pre ws rest : at_input d l pre (ws ++ 62 :: rest) -> intag l = true ->
  Forall (fun c => is_ws c = true) ws ->
  exists l', next no_tmpl l = Ok (StartTagCloseT, Some (mkSl (len pre + len ws) 1), l') /\
    ltext l' = None /\ lbuf (lz l') = lbuf (lz l) /\ intag l' = false /\ rawtag l' = rawtag l /\ lerr l' = lerr l.
Proof.
  intros Hat Hit Hws. pose proof (at_input_reads _ _ _ _ Hat) as Hr. destruct Hat as (Hi & Hcl & Hd & Hp).
  pose proof (len_nonneg ws). pose proof (len_nonneg rest).
  unfold next. cbn [lz rawtag intag lerr ltext lattr lhas]. rewrite Hit.
  unfold next_intag. cbn [lz rawtag intag lerr ltext lattr lhas].
  rewrite (ws_loop_reads _ ws (62 :: rest) Hr Hws) by (right; eexists _, _; split; reflexivity). cbn [rbind].
  rewrite pkr_mv0, (reads_pkr _ _ (len ws) 62 Hr) by (rewrite peekz_app_r0; apply peekz_cons_0). cbn [rbind].
  rewrite (reads_eof0_in _ _ (len ws) 62 Hr) by (rewrite peekz_app_r0; apply peekz_cons_0). change (62 =? 62) with true. change (62 =? 47) with false. cbn [rbind].
  destruct (reads_mv _ _ (len ws + 1) Hr) as [Hw2 _]; [rewrite len_app, len_cons; lia|].
  assert (Hw3 : lx_wf (mv (skip (mv (lz l) (len ws))) 1)).
  { destruct Hw2 as (Hb & Hs & Hq). unfold lx_wf, skip, mv, lx_len in *. cbn [lbuf lstart lpos] in *. split; [exact Hb|lia]. }
  rewrite shiftv_spec by exact Hw3. cbn [rbind fst snd skip mv lstart lpos so sn]. rewrite Hp.
  replace (len pre + len ws + 1 - (len pre + len ws)) with 1 by lia.
  eexists. split; [reflexivity|]. cbn [ltext lz intag rawtag lerr lbuf skip mv]. repeat split.
Qed.

Lemma next_void d l pre ws rest : at_input d l pre (ws ++ 47 :: 62 :: rest) -> intag l = true ->
  Forall (fun c => is_ws c = true) ws ->
  exists l', next no_tmpl l = Ok (StartTagVoidT, Some (mkSl (len pre + len ws) 2), l') /\
    ltext l' = None /\ lbuf (lz l') = lbuf (lz l) /\ intag l' = false /\ rawtag l' = rawtag l /\ lerr l' = lerr l.
Proof.
  intros Hat Hit Hws. pose proof (at_input_reads _ _ _ _ Hat) as Hr. destruct Hat as (Hi & Hcl & Hd & Hp).
  pose proof (len_nonneg ws). pose proof (len_nonneg rest).
  unfold next. cbn [lz rawtag intag lerr ltext lattr lhas]. rewrite Hit.
  unfold next_intag. cbn [lz rawtag intag lerr ltext lattr lhas].
  rewrite (ws_loop_reads _ ws (47 :: 62 :: rest) Hr Hws) by (right; eexists _, _; split; reflexivity). cbn [rbind].
  rewrite pkr_mv0, (reads_pkr _ _ (len ws) 47 Hr) by (rewrite peekz_app_r0; apply peekz_cons_0). cbn [rbind].
  rewrite (reads_eof0_in _ _ (len ws) 47 Hr) by (rewrite peekz_app_r0; apply peekz_cons_0). change (47 =? 62) with false. change (47 =? 47) with true.
  rewrite pkr_mv, (reads_pkr _ _ (len ws + 1) 62 Hr) by (rewrite peekz_app_rk by lia; apply peekz_1). change (62 =? 62) with true. cbn [rbind negb].
  destruct (reads_mv _ _ (len ws + 2) Hr) as [Hw2 _]; [rewrite len_app, !len_cons; lia|].
  assert (Hw3 : lx_wf (mv (skip (mv (lz l) (len ws))) 2)).
  { destruct Hw2 as (Hb & Hs & Hq). unfold lx_wf, skip, mv, lx_len in *. cbn [lbuf lstart lpos] in *. split; [exact Hb|lia]. }
  rewrite shiftv_spec by exact Hw3. cbn [rbind fst snd skip mv lstart lpos so sn]. rewrite Hp.
  replace (len pre + len ws + 2 - (len pre + len ws)) with 2 by lia.
  eexists. split; [reflexivity|]. cbn [ltext lz intag rawtag lerr lbuf skip mv]. repeat split.
Qed.

(* ---- attributes ------------------------------------------------------------------------------------------------------- *)
Definition keychar (c : Z) : Prop := is_ws c = false /\ c <> 61 /\ c <> 62 /\ c <> 47.

Definition key_stop (rest : list Z) : Prop :=
  rest = [] \/ exists c r, rest = c :: r /\ (is_ws c = true \/ c = 61 \/ c = 62 \/ (c = 47 /\ exists r', r = 62 :: r')).

Lemma loop_scan2 {F R} (body : lx * F -> res (lp (lx * F) R)) z (f : F) n fuel r :
  0 <= n ->
  (forall i, 0 <= i < n -> body (mv z i, f) = Ok (Cont (mv z (i + 1), f))) ->
  body (mv z n, f) = Ok (Brk r) -> (Z.to_nat n < fuel)%nat -> loop fuel body (z, f) = Ok r.
Proof.
  intros Hn Hc Hb Hf.
  rewrite <- (mv_0 z). change 0 with (Z.of_nat 0).
  apply (loop_seq body (fun i => (mv z (Z.of_nat i), f)) (Z.to_nat n)); [| |exact Hf].
  - intros i Hi. rewrite Hc by lia. do 3 f_equal. f_equal. lia.
  - rewrite Z2Nat.id by lia. exact Hb.
Qed.

Lemma attrname_loop_run z key rest has : reads z (key ++ rest) -> Forall keychar key -> key_stop rest ->
  loop (fuel_of z) (attrname_body no_tmpl) (z, has) = Ok (mv z (len key), has).
Proof.
  intros Hr Hk Hstop. pose proof (len_nonneg key).
  apply (loop_scan2 _ z has (len key)); [lia| | |eapply fuel_of_enough; [exact Hr|rewrite len_app; pose proof (len_nonneg rest); lia]].
  - intros i Hi. destruct (peekz_in key i Hi) as (c & Hc & Hin). rewrite Forall_forall in Hk. destruct (Hk c Hin) as (Hw & H61 & H62 & H47).
    unfold attrname_body. rewrite tmpl_at_none. cbn [rbind].
    rewrite pkr_mv0, (reads_pkr z _ i c Hr (peekz_app_l' _ _ _ _ Hc)). cbn [rbind].
    rewrite (reads_eof0_in z _ i c Hr (peekz_app_l' _ _ _ _ Hc)).
    unfold is_ws in Hw. apply orb_false_iff in Hw. destruct Hw as [Hw H12]. apply orb_false_iff in Hw. destruct Hw as [Hw H13].
    apply orb_false_iff in Hw. destruct Hw as [Hw H10]. apply orb_false_iff in Hw. destruct Hw as [H32 H9].
    rewrite H32, H9, H10, H13, H12.
    replace (c =? 61) with false by (symmetry; apply Z.eqb_neq; exact H61).
    replace (c =? 62) with false by (symmetry; apply Z.eqb_neq; exact H62).
    replace (c =? 47) with false by (symmetry; apply Z.eqb_neq; exact H47). cbn [orb rbind]. rewrite mv_mv. reflexivity.
  - unfold attrname_body. rewrite tmpl_at_none. cbn [rbind]. rewrite pkr_mv0. destruct Hstop as [->|(c & r & -> & Hc)].
    + rewrite app_nil_r in Hr. destruct (reads_end z key Hr) as [Hp _]. unfold pkr. rewrite Hp. cbn [opt_res rbind Z.eqb orb].
      rewrite (reads_eof0_end z key Hr). cbn [orb rbind]. reflexivity.
    + rewrite (reads_pkr z _ (len key) c Hr) by (rewrite peekz_app_r0; apply peekz_cons_0). cbn [rbind].
      destruct Hc as [Hw|[->|[->|(-> & r' & ->)]]].
      * destruct (is_ws_cases c Hw) as [->|[->|[->|[->| ->]]]]; cbn [Z.eqb orb rbind]; reflexivity.
      * reflexivity.
      * reflexivity.
      * cbn [Z.eqb orb]. rewrite pkr_mv, (reads_pkr z _ (len key + 1) 62 Hr) by (rewrite peekz_app_rk by lia; apply peekz_1). reflexivity.
Qed.

Definition uchar (c : Z) : Prop := is_ws c = false /\ c <> 62.

Lemma attru_loop_run z u rest : reads z (u ++ rest) -> Forall uchar u ->
  (rest = [] \/ exists c r, rest = c :: r /\ (is_ws c = true \/ c = 62)) ->
  loop (fuel_of z) attru_body z = Ok (mv z (len u)).
Proof.
  intros Hr Hu Hstop. pose proof (len_nonneg u).
  apply (loop_scan _ z (len u)); [lia| | |eapply fuel_of_enough; [exact Hr|rewrite len_app; pose proof (len_nonneg rest); lia]].
  - intros i Hi. destruct (peekz_in u i Hi) as (c & Hc & Hin). rewrite Forall_forall in Hu. destruct (Hu c Hin) as (Hw & H62).
    unfold attru_body. rewrite pkr_mv0, (reads_pkr z _ i c Hr (peekz_app_l' _ _ _ _ Hc)). cbn [rbind].
    rewrite (reads_eof0_in z _ i c Hr (peekz_app_l' _ _ _ _ Hc)).
    unfold is_ws in Hw. apply orb_false_iff in Hw. destruct Hw as [Hw H12]. apply orb_false_iff in Hw. destruct Hw as [Hw H13].
    apply orb_false_iff in Hw. destruct Hw as [Hw H10]. apply orb_false_iff in Hw. destruct Hw as [H32 H9].
    rewrite H32, H9, H10, H13, H12.
    replace (c =? 62) with false by (symmetry; apply Z.eqb_neq; exact H62). cbn [orb]. rewrite mv_mv. reflexivity.
  - unfold attru_body. rewrite pkr_mv0. destruct Hstop as [->|(c & r & -> & Hc)].
    + rewrite app_nil_r in Hr. destruct (reads_end z u Hr) as [Hp _]. unfold pkr. rewrite Hp. cbn [opt_res rbind Z.eqb orb].
      rewrite (reads_eof0_end z u Hr). reflexivity.
    + rewrite (reads_pkr z _ (len u) c Hr) by (rewrite peekz_app_r0; apply peekz_cons_0). cbn [rbind].
      destruct Hc as [Hw| ->]; [|reflexivity].
      destruct (is_ws_cases c Hw) as [->|[->|[->|[->| ->]]]]; reflexivity.
Qed.

Lemma attrq_loop_run z q body rest has : reads z (body ++ q :: rest) -> Forall (fun c => c <> q) body ->
  loop (fuel_of z) (attrq_body no_tmpl q) (z, has) = Ok (mv z (len body + 1), has).
Proof.
  intros Hr Hb. pose proof (len_nonneg body).
  apply (loop_scan2 _ z has (len body)); [lia| | |eapply fuel_of_enough; [exact Hr|rewrite len_app, len_cons; pose proof (len_nonneg rest); lia]].
  - intros i Hi. destruct (peekz_in body i Hi) as (c & Hc & Hin). rewrite Forall_forall in Hb. specialize (Hb c Hin).
    unfold attrq_body. rewrite pkr_mv0, (reads_pkr z _ i c Hr (peekz_app_l' _ _ _ _ Hc)). cbn [rbind]. rewrite tmpl_at_none. cbn [rbind].
    replace (c =? q) with false by (symmetry; apply Z.eqb_neq; exact Hb).
    rewrite (reads_eof0_in z _ i c Hr (peekz_app_l' _ _ _ _ Hc)). rewrite mv_mv. reflexivity.
  - unfold attrq_body. rewrite pkr_mv0, (reads_pkr z _ (len body) q Hr) by (rewrite peekz_app_r0; apply peekz_cons_0). cbn [rbind].
    rewrite tmpl_at_none. cbn [rbind]. rewrite Z.eqb_refl. rewrite mv_mv. reflexivity.
Qed.

Definition attr_follow (r2 : list Z) : Prop := r2 = [] \/ exists c r, r2 = c :: r /\ is_ws c = false /\ c <> 61.

Lemma rewind_mv z a b : rewind (mv z a) b = mkLx (lbuf z) (lstart z + b) (lstart z).
Proof. reflexivity. Qed.

Lemma keychar_head key : key <> [] -> Forall keychar key -> exists c k, key = c :: k /\ keychar c.
Proof. intros Hne Hk. destruct key as [|c k]; [congruence|]. inversion Hk; subst. eauto. Qed.

(* the common first part of an attribute: whitespace, the name, whitespace *)
Lemma attr_prefix d l pre ws1 key ws2 r2 : at_input d l pre (ws1 ++ key ++ ws2 ++ r2) -> intag l = true ->
  Forall (fun c => is_ws c = true) ws1 -> key <> [] -> Forall keychar key -> key_stop (ws2 ++ r2) ->
  Forall (fun c => is_ws c = true) ws2 -> (r2 = [] \/ exists c r, r2 = c :: r /\ is_ws c = false) ->
  let z1 := mv (lz l) (len ws1) in
  let l1 := mkL (lz l) (rawtag l) (intag l) (lerr l) None None false in
  next no_tmpl l = (a <-- shift_attribute no_tmpl l1 z1;; Ok (AttributeT, Some (fst a), snd a)) /\
  reads z1 (key ++ ws2 ++ r2) /\
  loop (fuel_of z1) (attrname_body no_tmpl) (z1, false) = Ok (mv z1 (len key), false) /\
  ws_loop (mv z1 (len key)) = Ok (mv (mv z1 (len key)) (len ws2)) /\
  reads (mv (mv z1 (len key)) (len ws2)) r2.
Proof.
  intros Hat Hit Hws1 Hne Hk Hstop Hws2 Hr2 z1 l1. pose proof (at_input_reads _ _ _ _ Hat) as Hr. destruct Hat as (Hi & Hcl & Hd & Hp).
  pose proof (len_nonneg ws1). pose proof (len_nonneg key). pose proof (len_nonneg ws2). pose proof (len_nonneg r2).
  destruct (keychar_head key Hne Hk) as (c & k & Ekey & (Hcw & Hc61 & Hc62 & Hc47)).
  assert (Hr1 : reads z1 (key ++ ws2 ++ r2)).
  { unfold z1. replace (key ++ ws2 ++ r2) with (skipz (len ws1) (ws1 ++ key ++ ws2 ++ r2)) by apply skipz_app_len.
    apply reads_mv; [exact Hr|]. rewrite len_app. pose proof (len_nonneg (key ++ ws2 ++ r2)). lia. }
  split; [|split; [exact Hr1|split; [apply (attrname_loop_run z1 key (ws2 ++ r2)); assumption|]]].
  - unfold next. cbn [lz rawtag intag lerr ltext lattr lhas]. rewrite Hit.
    unfold next_intag. cbn [lz rawtag intag lerr ltext lattr lhas].
    rewrite (ws_loop_reads _ ws1 (key ++ ws2 ++ r2) Hr Hws1) by (right; rewrite Ekey; eexists _, _; split; [reflexivity|exact Hcw]).
    cbn [rbind]. fold z1.
    rewrite (reads_pkr z1 _ 0 c Hr1) by (rewrite Ekey; apply peekz_cons_0). cbn [rbind].
    assert (He : eof0 z1 c = false).
    { rewrite <- (mv_0 z1). apply (reads_eof0_in z1 _ 0 c Hr1). rewrite Ekey. apply peekz_cons_0. }
    rewrite He.
    replace (c =? 62) with false by (symmetry; apply Z.eqb_neq; exact Hc62).
    replace (c =? 47) with false by (symmetry; apply Z.eqb_neq; exact Hc47). cbn [rbind]. unfold l1. rewrite Hit. reflexivity.
  - assert (Hr2' : reads (mv z1 (len key)) (ws2 ++ r2)).
    { replace (ws2 ++ r2) with (skipz (len key) (key ++ ws2 ++ r2)) by apply skipz_app_len.
      apply reads_mv; [exact Hr1|]. rewrite len_app. pose proof (len_nonneg (ws2 ++ r2)). lia. }
    split; [apply (ws_loop_reads _ ws2 r2 Hr2' Hws2 Hr2)|].
    pose proof (reads_mv _ _ (len ws2) Hr2' ltac:(rewrite len_app; lia)) as Hr3.
    rewrite skipz_app_len in Hr3. exact Hr3.
Qed.

Lemma tmpl_rep_guarded_none z has : tmpl_rep_guarded no_tmpl z has = Ok (z, has).
Proof. reflexivity. Qed.

Lemma view_key_bytes d l pre ws1 key tail : at_input d l pre (ws1 ++ key ++ tail) ->
  view_bytes (lbuf (lz l)) (mkSl (len pre + len ws1) (len key)) = key.
Proof.
  intros Hat. unfold view_bytes. cbn [so sn]. pose proof (len_nonneg ws1). pose proof (len_nonneg key). pose proof (len_nonneg tail).
  replace (len pre + len ws1 + len key) with (len pre + (len ws1 + len key)) by lia.
  rewrite (at_input_slice d l pre _ (len ws1) (len ws1 + len key) Hat) by (rewrite ?len_app; lia).
  unfold slice. rewrite skipz_app_len. replace (len ws1 + len key - len ws1) with (len key) by lia.
  unfold firstz, len. rewrite Nat2Z.id, firstn_app, Nat.sub_diag, firstn_all. cbn. apply app_nil_r.
Qed.

(* an attribute without a value *)
Lemma next_attr_valueless d l pre ws1 key ws2 r2 : at_input d l pre (ws1 ++ key ++ ws2 ++ r2) -> intag l = true ->
  Forall (fun c => is_ws c = true) ws1 -> key <> [] -> Forall keychar key -> key_stop (ws2 ++ r2) ->
  Forall (fun c => is_ws c = true) ws2 -> attr_follow r2 ->
  exists l', next no_tmpl l = Ok (AttributeT, Some (mkSl (len pre) (len ws1 + len key)), l') /\
    ltext l' = Some (mkSl (len pre + len ws1) (len key)) /\ lattr l' = None /\
    lbuf (lz l') = lower_view (lbuf (lz l)) (mkSl (len pre + len ws1) (len key)) /\
    intag l' = true /\ rawtag l' = rawtag l /\ lerr l' = lerr l.
Proof.
  intros Hat Hit Hws1 Hne Hk Hstop Hws2 Hfol.
  assert (Hr2 : r2 = [] \/ exists c r, r2 = c :: r /\ is_ws c = false).
  { destruct Hfol as [->|(c & r & -> & Hc & _)]; [left; reflexivity|right; eauto]. }
  destruct (attr_prefix d l pre ws1 key ws2 r2 Hat Hit Hws1 Hne Hk Hstop Hws2 Hr2) as (Hnext & Hr1 & Hloop & Hwsl & Hr3).
  destruct Hat as (Hi & Hcl & Hd & Hp).
  pose proof (len_nonneg ws1). pose proof (len_nonneg key). pose proof (len_nonneg ws2). pose proof (len_nonneg r2).
  set (z1 := mv (lz l) (len ws1)) in *.
  rewrite Hnext. unfold shift_attribute. cbn [lhas]. rewrite tmpl_rep_guarded_none. cbn [rbind fst snd].
  rewrite Hloop. cbn [rbind fst snd]. rewrite Hwsl. cbn [rbind].
  (* the byte after the blanks is not '=' *)
  assert (Hc0 : exists c0, pkr (mv (mv z1 (len key)) (len ws2)) 0 = Ok c0 /\ (c0 =? 61) = false).
  { destruct Hfol as [->|(c & r & -> & _ & Hc)].
    - exists 0. destruct (reads_end _ _ Hr3) as [Hp0 _]. unfold pkr. change (len []) with 0 in Hp0. rewrite Hp0. split; reflexivity.
    - exists c. split; [apply (reads_pkr _ _ 0 c Hr3), peekz_cons_0|apply Z.eqb_neq; exact Hc]. }
  destruct Hc0 as (c0 & Hc0 & H61). rewrite Hc0. cbn [rbind]. rewrite H61. cbn [rbind].
  rewrite tmpl_rep_guarded_none. cbn [rbind fst snd].
  unfold z1, rewind, mark. cbn [mv lbuf lpos lstart]. rewrite Hcl, Hp.
  replace (len pre + (len pre + len ws1 + len key - len pre)) with (len pre + len ws1 + len key) by lia.
  replace (len pre + len ws1 + len key - len pre) with (len ws1 + len key) by lia.
  replace (len pre + len ws1 - len pre) with (len ws1) by lia.
  set (z5 := mkLx (lbuf (lz l)) (len pre + len ws1 + len key) (len pre)).
  assert (Hw5 : lx_wf z5).
  { destruct Hr1 as [Hw1 Hrem1]. destruct (rem_mv _ (len key) Hw1) as [_ Hw2]; [rewrite Hrem1, len_app; pose proof (len_nonneg (ws2 ++ r2)); lia|].
    destruct Hw2 as (Hb & Hs & Hq). unfold lx_wf, z5, z1, mv, lx_len in *. cbn [lbuf lstart lpos] in *. split; [exact Hb|lia]. }
  rewrite lexeme_sub_spec by (exact Hw5 || (unfold z5; cbn [lpos lstart]; lia)). cbn [rbind]. unfold z5 at 1. cbn [lstart].
  replace (len ws1 + len key - len ws1) with (len key) by lia.
  assert (Hlim : len pre + len ws1 + len key <= lx_len (lz l)).
  { destruct Hw5 as (_ & _ & Hq). unfold z5, lx_len in *. cbn [lbuf lpos] in Hq. lia. }
  assert (Hw6 : lx_wf (lx_lower z5 (mkSl (len pre + len ws1) (len key)))).
  { apply lx_lower_wf; [exact Hw5|cbn; pose proof (len_nonneg pre); lia|cbn; lia|].
    cbn [so sn]. unfold lx_len, z5 in *. cbn [lbuf]. lia. }
  rewrite shiftv_spec by exact Hw6. cbn [rbind fst snd lx_lower skip lstart lpos lbuf]. unfold z5. cbn [lbuf lstart lpos].
  replace (len pre + len ws1 + len key - len pre) with (len ws1 + len key) by lia.
  eexists. split; [reflexivity|]. cbn [ltext lattr lz intag rawtag lerr lbuf]. repeat split. exact Hit.
Qed.

(* the bytes of an attribute value and what must follow it *)
Definition unquoted_value (u rest : list Z) : Prop :=
  (exists c t, u = c :: t /\ c <> 34 /\ c <> 39) /\ Forall uchar u /\
  (rest = [] \/ exists c r, rest = c :: r /\ (is_ws c = true \/ c = 62)).

Definition quoted_value (val : list Z) : Prop :=
  exists q body, val = q :: body ++ [q] /\ (q = 34 \/ q = 39) /\ Forall (fun c => c <> q) body.

(* a quoted value that the end of input cuts: the opening quote and bytes other than the quote *)
Definition cut_quoted_value (val : list Z) : Prop :=
  exists q body, val = q :: body /\ (q = 34 \/ q = 39) /\ Forall (fun c => c <> q) body.

Lemma attrq_cut_loop z q body has : reads z body -> Forall (fun c => c <> q) body -> q <> 0 ->
  loop (fuel_of z) (attrq_body no_tmpl q) (z, has) = Ok (mv z (len body), has).
Proof.
  intros Hr Hb Hq. pose proof (len_nonneg body).
  apply (loop_scan2 _ z has (len body)); [lia| | |eapply fuel_of_enough; [exact Hr|lia]].
  - intros i Hi. destruct (peekz_in body i Hi) as (c & Hc & Hin). rewrite Forall_forall in Hb. specialize (Hb c Hin).
    unfold attrq_body. rewrite pkr_mv0, (reads_pkr z _ i c Hr Hc). cbn [rbind]. rewrite tmpl_at_none. cbn [rbind].
    replace (c =? q) with false by (symmetry; apply Z.eqb_neq; exact Hb).
    rewrite (reads_eof0_in z _ i c Hr Hc). rewrite mv_mv. reflexivity.
  - unfold attrq_body. rewrite pkr_mv0. destruct (reads_end z body Hr) as [Hp _]. unfold pkr. rewrite Hp. cbn [opt_res rbind].
    rewrite tmpl_at_none. cbn [rbind]. replace (0 =? q) with false by (symmetry; apply Z.eqb_neq; lia).
    rewrite (reads_eof0_end z body Hr). reflexivity.
Qed.

Lemma next_attr_valued d l pre ws1 key ws2 ws3 val rest :
  at_input d l pre (ws1 ++ key ++ ws2 ++ 61 :: ws3 ++ val ++ rest) -> intag l = true ->
  Forall (fun c => is_ws c = true) ws1 -> key <> [] -> Forall keychar key ->
  Forall (fun c => is_ws c = true) ws2 -> Forall (fun c => is_ws c = true) ws3 ->
  (unquoted_value val rest \/ quoted_value val \/ (cut_quoted_value val /\ rest = [])) ->
  let n := len ws1 + len key + len ws2 + 1 + len ws3 + len val in
  exists l', next no_tmpl l = Ok (AttributeT, Some (mkSl (len pre) n), l') /\
    ltext l' = Some (mkSl (len pre + len ws1) (len key)) /\
    lattr l' = Some (mkSl (len pre + n - len val) (len val)) /\
    lbuf (lz l') = lower_view (lbuf (lz l)) (mkSl (len pre + len ws1) (len key)) /\
    intag l' = true /\ rawtag l' = rawtag l /\ lerr l' = lerr l.
Proof.
  intros Hat Hit Hws1 Hne Hk Hws2 Hws3 Hval n.
  set (r2 := 61 :: ws3 ++ val ++ rest) in *.
  assert (Hstop : key_stop (ws2 ++ r2)).
  { right. destruct ws2 as [|w ws2']; [exists 61, (ws3 ++ val ++ rest); split; [reflexivity|tauto]|].
    exists w, (ws2' ++ r2). split; [reflexivity|left]. inversion Hws2; assumption. }
  assert (Hr2 : r2 = [] \/ exists c r, r2 = c :: r /\ is_ws c = false) by (right; exists 61, (ws3 ++ val ++ rest); split; reflexivity).
  destruct (attr_prefix d l pre ws1 key ws2 r2 Hat Hit Hws1 Hne Hk Hstop Hws2 Hr2) as (Hnext & Hr1 & Hloop & Hwsl & Hr3).
  destruct Hat as (Hi & Hcl & Hd & Hp).
  pose proof (len_nonneg ws1). pose proof (len_nonneg key). pose proof (len_nonneg ws2). pose proof (len_nonneg ws3).
  pose proof (len_nonneg val). pose proof (len_nonneg rest).
  set (z1 := mv (lz l) (len ws1)) in *.
  set (zz2 := mv (mv z1 (len key)) (len ws2)) in *.
  rewrite Hnext. unfold shift_attribute. cbn [lhas]. rewrite tmpl_rep_guarded_none. cbn [rbind fst snd].
  rewrite Hloop. cbn [rbind fst snd]. rewrite Hwsl. cbn [rbind].
  rewrite (reads_pkr zz2 _ 0 61 Hr3) by apply peekz_cons_0. cbn [rbind]. change (61 =? 61) with true. cbn [rbind].
  (* the first byte of the value *)
  assert (Hv0 : exists c1 vt, val = c1 :: vt /\ is_ws c1 = false).
  { destruct Hval as [((c & t & -> & _) & Hu & _)|[(q & body & -> & Hq & _)|((q & body & -> & Hq & _) & _)]].
    - exists c, t. split; [reflexivity|]. inversion Hu as [|? ? Hc _]. apply Hc.
    - exists q, (body ++ [q]). split; [reflexivity|]. destruct Hq as [-> | -> ]; reflexivity.
    - exists q, body. split; [reflexivity|]. destruct Hq as [-> | -> ]; reflexivity. }
  destruct Hv0 as (c1 & vt & Ev & Hc1ws).
  pose proof (reads_mv _ _ 1 Hr3 ltac:(unfold r2; rewrite len_cons; pose proof (len_nonneg (ws3 ++ val ++ rest)); lia)) as Hr4.
  change (skipz 1 r2) with (ws3 ++ val ++ rest) in Hr4.
  rewrite (ws_loop_reads _ ws3 (val ++ rest) Hr4 Hws3) by (right; rewrite Ev; eexists _, _; split; [reflexivity|exact Hc1ws]).
  cbn [rbind].
  pose proof (reads_mv _ _ (len ws3) Hr4 ltac:(rewrite len_app; pose proof (len_nonneg (val ++ rest)); lia)) as Hr5.
  rewrite skipz_app_len in Hr5.
  set (z3 := mv (mv zz2 1) (len ws3)) in *.
  rewrite (reads_pkr z3 _ 0 c1 Hr5) by (rewrite Ev; apply peekz_cons_0). cbn [rbind].
  rewrite tmpl_at_none. cbn [rbind].
  (* the value loop *)
  assert (Hvloop : (if (c1 =? 34) || (c1 =? 39) then loop (fuel_of z3) (attrq_body no_tmpl c1) (mv z3 1, false)
                    else loop (fuel_of z3) (with_tmpl_lx no_tmpl attru_body) (z3, false)) = Ok (mv z3 (len val), false)).
  { destruct Hval as [((c & t & Eu & Hc34 & Hc39) & Hu & Hrest)|[(q & body & Eq & Hq & Hbody)|((q & body & Eq & Hq & Hbody) & Hrest)]].
    - rewrite Eu in Ev. injection Ev as <- <-.
      replace ((c =? 34) || (c =? 39)) with false by (symmetry; apply orb_false_iff; split; apply Z.eqb_neq; assumption).
      unfold with_tmpl_lx; rewrite loop_with_no_tmpl; rewrite (attru_loop_run z3 val rest Hr5 Hu Hrest). reflexivity.
    - rewrite Eq in Ev. injection Ev as <- <-.
      replace ((q =? 34) || (q =? 39)) with true by (symmetry; destruct Hq as [-> | -> ]; reflexivity).
      pose proof (reads_mv _ _ 1 Hr5 ltac:(rewrite Eq; cbn [app]; rewrite len_cons; pose proof (len_nonneg ((body ++ [q]) ++ rest)); lia)) as Hr6.
      rewrite Eq in Hr6. change (skipz 1 ((q :: body ++ [q]) ++ rest)) with ((body ++ [q]) ++ rest) in Hr6.
      rewrite <- app_assoc in Hr6. cbn [app] in Hr6.
      rewrite (loop_fuel_mono _ _ (fuel_of z3) _ _ (attrq_loop_run _ q body rest false Hr6 Hbody)) by (apply fuel_of_mv_le; lia).
      rewrite mv_mv, Eq, len_cons, len_app. change (len [q]) with 1. first [reflexivity | do 3 f_equal; lia | do 2 f_equal; lia].
    - rewrite Eq in Ev. injection Ev as <- <-.
      replace ((q =? 34) || (q =? 39)) with true by (symmetry; destruct Hq as [-> | -> ]; reflexivity).
      pose proof (reads_mv _ _ 1 Hr5 ltac:(rewrite Eq; cbn [app]; rewrite len_cons; pose proof (len_nonneg (body ++ rest)); lia)) as Hr6.
      rewrite Eq in Hr6. change (skipz 1 ((q :: body) ++ rest)) with (body ++ rest) in Hr6. rewrite Hrest, app_nil_r in Hr6.
      rewrite (loop_fuel_mono _ _ (fuel_of z3) _ _ (attrq_cut_loop _ q body false Hr6 Hbody ltac:(destruct Hq; lia))) by (apply fuel_of_mv_le; lia).
      rewrite mv_mv, Eq, len_cons. first [reflexivity | do 3 f_equal; lia | do 2 f_equal; lia]. }
  rewrite Hvloop. cbn [rbind fst snd].
  destruct Hr5 as [Hw3 Hrem3].
  destruct (rem_mv _ (len val) Hw3) as [_ Hw4]; [rewrite Hrem3, len_app; lia|].
  rewrite lexeme_from_spec by (exact Hw4 || (unfold z3, zz2, z1, mark; cbn [mv lpos lstart]; lia)). cbn [rbind].
  rewrite tmpl_rep_guarded_none. cbn [rbind fst snd].
  set (zf := mv z3 (len val)) in *.
  assert (Hzf : lbuf zf = lbuf (lz l) /\ lstart zf = len pre /\ lpos zf = len pre + n - 0).
  { unfold zf, z3, zz2, z1, n. cbn [mv lbuf lpos lstart]. rewrite Hcl, Hp. repeat split. lia. }
  destruct Hzf as (Zb & Zs & Zp).
  assert (Hm1 : mark z1 = len ws1) by (unfold mark, z1; cbn [mv lpos lstart]; lia).
  assert (Hm2 : mark (mv z1 (len key)) = len ws1 + len key) by (unfold mark, z1; cbn [mv lpos lstart]; lia).
  assert (Hm3 : mark z3 = n - len val) by (unfold mark, z3, zz2, z1, n; cbn [mv lpos lstart]; lia).
  rewrite Hm1, Hm2, Hm3.
  rewrite lexeme_sub_spec by (exact Hw4 || (rewrite ?Zs, ?Zp; unfold n; lia)). cbn [rbind]. rewrite Zs.
  replace (len ws1 + len key - len ws1) with (len key) by lia.
  assert (Hlim : len pre + n <= lx_len (lz l)).
  { destruct Hw4 as (_ & _ & Hq). rewrite Zp in Hq. unfold lx_len in *. rewrite Zb in Hq. lia. }
  assert (Hw6 : lx_wf (lx_lower zf (mkSl (len pre + len ws1) (len key)))).
  { apply lx_lower_wf; [exact Hw4|cbn; pose proof (len_nonneg pre); lia|cbn; lia|].
    cbn [so sn]. unfold lx_len in *. rewrite Zb. unfold n in Hlim. lia. }
  rewrite shiftv_spec by exact Hw6. cbn [rbind fst snd lx_lower skip lstart lpos lbuf]. rewrite ?Zb, ?Zs, ?Zp.
  replace (len pre + n - 0 - len pre) with n by lia.
  replace (len pre + n - 0 - len pre - (n - len val)) with (len val) by lia.
  replace (len pre + (n - len val)) with (len pre + n - len val) by lia.
  eexists. split; [reflexivity|]. cbn [ltext lattr lz intag rawtag lerr].
  repeat split; first [exact Hit | reflexivity | (do 2 f_equal; lia) | (cbn [skip lx_lower lbuf]; rewrite Zb; reflexivity)].
Qed.

(* ---- svg / math / xml ------------------------------------------------------------------------------------------------- *)
Lemma letters_loop_reads z ls rest : reads z (ls ++ rest) -> Forall (fun c => is_letter c = true) ls ->
  (rest = [] \/ exists c r, rest = c :: r /\ is_letter c = false) -> letters_loop z = Ok (mv z (len ls)).
Proof.
  intros Hr Hl Hrest. pose proof (len_nonneg ls). unfold letters_loop.
  apply (loop_scan _ z (len ls)); [lia| | |eapply fuel_of_enough; [exact Hr|rewrite len_app; pose proof (len_nonneg rest); lia]].
  - intros i Hi. destruct (peekz_in ls i Hi) as (c & Hc & Hin). rewrite Forall_forall in Hl. specialize (Hl c Hin).
    unfold letters_body. rewrite pkr_mv0, (reads_pkr z _ i c Hr (peekz_app_l' _ _ _ _ Hc)). cbn [rbind]. rewrite Hl, mv_mv. reflexivity.
  - unfold letters_body. rewrite pkr_mv0. destruct Hrest as [->|(c & r & -> & Hc)].
    + rewrite app_nil_r in Hr. destruct (reads_end z ls Hr) as [Hp _]. unfold pkr. rewrite Hp. reflexivity.
    + rewrite (reads_pkr z _ (len ls) c Hr) by (rewrite peekz_app_r0; apply peekz_cons_0). cbn [rbind]. rewrite Hc. reflexivity.
Qed.

(* the maximal run of letters at the head *)
Fixpoint letter_run (s : list Z) : list Z :=
  match s with
  | c :: t => if is_letter c then c :: letter_run t else []
  | [] => []
  end.

Lemma letter_run_split s : exists r, s = letter_run s ++ r /\ Forall (fun c => is_letter c = true) (letter_run s) /\
  (r = [] \/ exists c r', r = c :: r' /\ is_letter c = false).
Proof.
  induction s as [|c t (r & E & Hl & Hr)]; [exists []; split; [reflexivity|split; [constructor|left; reflexivity]]|].
  cbn [letter_run]. destruct (is_letter c) eqn:El.
  - exists r. split; [cbn [app]; f_equal; exact E|]. split; [constructor; assumption|exact Hr].
  - exists (c :: t). split; [reflexivity|]. split; [constructor|right; eauto].
Qed.

(* The bytes between the name of an svg / math / xml start tag and the end tag of the element, read as shiftXML reads
   them.  State: inside a tag (it; we start inside the start tag), inside an attribute value quoted by q (0 = none),
   inside a comment / CDATA section / processing instruction (sk = 1 / 2 / 3, 0 = none; "-->", "]]>", "?>" end them;
   whatever they contain, end tags of the element included, is skipped).
   Quotes count only inside tags; '>' leaves a tag; in character data "<!--", "<![CDATA[", "<?" open a skipped section, any
   other '<' enters a tag unless "<!" follows, and "</" + letters must not name the element itself (nested end tags
   are character data); no NUL; at the end we are in character data.  fuel: at least the length of s. *)
Fixpoint xml_wf (fuel : nat) (raw : Z) (it : bool) (q sk : Z) (s : list Z) : bool :=
  match s with
  | [] => negb it && (q =? 0) && (sk =? 0)
  | c :: t =>
      match fuel with
      | O => false
      | S k =>
          if c =? 0 then false
          else if negb (sk =? 0) then
            if ((sk =? 1) && prefixb [45; 45; 62] s) || ((sk =? 2) && prefixb [93; 93; 62] s) then xml_wf k raw it q 0 (skipz 2 t)
            else if (sk =? 3) && prefixb [63; 62] s then xml_wf k raw it q 0 (skipz 1 t)
            else xml_wf k raw it q sk t
          else if negb (q =? 0) then xml_wf k raw it (if c =? q then 0 else q) 0 t
          else if it then xml_wf k raw (negb (c =? 62)) (if (c =? 34) || (c =? 39) then c else 0) 0 t
          else if c =? 60 then
            match t with
            | [] => false
            | c1 :: t1 =>
                if c1 =? 47
                then match to_hash (map lower (letter_run t1)) with Ok h => negb (h =? raw) | _ => false end &&
                     xml_wf k raw false 0 0 (skipz (len (letter_run t1)) t1)
                else if prefixb [33; 45; 45] t then xml_wf k raw false 0 1 (skipz 3 t)
                else if prefixb [33; 91; 67; 68; 65; 84; 65; 91] t then xml_wf k raw false 0 2 (skipz 8 t)
                else if c1 =? 63 then xml_wf k raw false 0 3 t1
                else xml_wf k raw (negb (c1 =? 33)) 0 0 t
            end
          else xml_wf k raw false 0 0 t
      end
  end.

(* at "</" + letters in character data: the hash of the letters decides *)
Lemma xml_body_endtag raw z ls rest : reads z (60 :: 47 :: ls ++ rest) -> Forall (fun c => is_letter c = true) ls ->
  (rest = [] \/ exists c r, rest = c :: r /\ is_letter c = false) ->
  xml_body raw (z, false, 0, 0) =
  (h <-- to_hash (map lower ls) ;;
   if h =? raw then Ok (Brk (inl (mv z (2 + len ls)))) else Ok (Cont (mv z (2 + len ls), false, 0, 0))).
Proof.
  intros Hr Hlet Hrest. pose proof (len_nonneg ls). pose proof (len_nonneg rest).
  assert (Hst : lstart z <= lpos z) by (destruct Hr as [(_ & ? & _) _]; lia).
  unfold xml_body. rewrite (reads_pkr z _ 0 60 Hr (peekz_cons_0 _ _)). cbn [rbind Z.eqb Pos.eqb negb andb].
  rewrite (reads_pkr z _ 1 47 Hr (peekz_1 _ _ _)). cbn [rbind Z.eqb Pos.eqb negb].
  pose proof (reads_mv _ _ 2 Hr ltac:(rewrite !len_cons; pose proof (len_nonneg (ls ++ rest)); lia)) as Hr2.
  change (skipz 2 (60 :: 47 :: ls ++ rest)) with (ls ++ rest) in Hr2.
  rewrite (letters_loop_reads _ ls rest Hr2 Hlet Hrest). cbn [rbind].
  unfold hash_lexeme_from. destruct Hr2 as [Hw2 Hrem2].
  destruct (rem_mv _ (len ls) Hw2) as [_ Hw3]; [rewrite Hrem2, len_app; lia|].
  rewrite lexeme_from_spec by (exact Hw3 || (unfold mark; cbn [mv lpos lstart]; lia)). cbn [rbind].
  assert (Hbytes : view_bytes (lbuf (mv (mv z 2) (len ls)))
                     (mkSl (lstart (mv (mv z 2) (len ls)) + (mark z + 2))
                           (lpos (mv (mv z 2) (len ls)) - lstart (mv (mv z 2) (len ls)) - (mark z + 2))) = ls).
  { unfold view_bytes, mark. cbn [so sn mv lbuf lpos lstart].
    replace (lstart z + (lpos z - lstart z + 2)) with (lpos z + 2) by lia.
    replace (lpos z + 2 + (lpos z + 2 + len ls - lstart z - (lpos z - lstart z + 2))) with (lpos z + (2 + len ls)) by lia.
    rewrite (reads_slice z _ 2 (2 + len ls) Hr) by (rewrite ?len_cons, ?len_app; lia).
    exact (slice_mid' [60; 47] ls rest). }
  rewrite Hbytes. rewrite mv_mv. reflexivity.
Qed.

Lemma prefixb_app_stop p : forall r x rest, ~ In x p -> prefixb p (r ++ x :: rest) = prefixb p r.
Proof.
  induction p as [|y p IH]; intros r x rest Hn; [reflexivity|]. destruct r as [|b r]; cbn [app prefixb].
  - replace (y =? x) with false; [reflexivity|]. symmetry. apply Z.eqb_neq. intros ->. apply Hn. left. reflexivity.
  - rewrite IH; [reflexivity|]. intros Hin. apply Hn. right. exact Hin.
Qed.

Lemma prefixb_cons_same x p s : prefixb (x :: p) (x :: s) = prefixb p s.
Proof. cbn [prefixb]. rewrite Z.eqb_refl. reflexivity. Qed.

Lemma xml_loop_run raw ename erest : Forall (fun c => is_letter c = true) ename -> to_hash (map lower ename) = Ok raw ->
  (erest = [] \/ exists c r, erest = c :: r /\ is_letter c = false) ->
  forall n inner, (length inner <= n)%nat -> forall z it q sk fuel,
  reads z (inner ++ 60 :: 47 :: ename ++ erest) -> xml_wf n raw it q sk inner = true -> (length inner < fuel)%nat ->
  loop fuel (xml_body raw) (z, it, q, sk) = Ok (inl (mv z (len inner + 2 + len ename))).
Proof.
  intros Hlet Hhash Herest. induction n as [|n IH]; intros inner Hn z it q sk fuel Hr Hwf Hf.
  all: destruct fuel as [|k]; [lia|]; cbn [loop].
  all: destruct inner as [|c t].
  1,3: (* at the end tag *)
    cbn [xml_wf] in Hwf; apply andb_true_iff in Hwf; destruct Hwf as [Hwf Hsk]; apply andb_true_iff in Hwf; destruct Hwf as [Hit Hq];
    apply negb_true_iff in Hit; apply Z.eqb_eq in Hq; apply Z.eqb_eq in Hsk; subst it q sk;
    cbn [app] in Hr; rewrite (xml_body_endtag raw z ename erest Hr Hlet) by exact Herest;
    rewrite Hhash; cbn [rbind]; rewrite Z.eqb_refl; cbn [rbind]; change (len (@nil Z)) with 0; reflexivity.
  - cbn [length] in Hn. lia.
  - cbn [length] in Hn, Hf. cbn [app] in Hr.
    set (tail := 60 :: 47 :: ename ++ erest) in *.
    pose proof (len_nonneg t). pose proof (len_nonneg ename). pose proof (len_nonneg erest).
    assert (Hlt : 1 <= len (c :: t ++ tail)) by (rewrite len_cons; pose proof (len_nonneg (t ++ tail)); lia).
    (* a step of j bytes to the suffix s' of t *)
    assert (Hjump : forall j s' it' q' sk', 1 <= j -> skipz j (c :: t) = s' -> j <= len (c :: t) ->
              xml_body raw (z, it, q, sk) = Ok (Cont (mv z j, it', q', sk')) -> xml_wf n raw it' q' sk' s' = true ->
              rbind (xml_body raw (z, it, q, sk)) (fun x => match x with Cont s'' => loop k (xml_body raw) s'' | Brk r => Ok r end) =
              Ok (inl (mv z (len (c :: t) + 2 + len ename)))).
    { intros j s' it' q' sk' Hj Hs' Hjl Hb Hw'. rewrite Hb. cbn [rbind].
      assert (Hlen' : len s' = len (c :: t) - j) by (rewrite <- Hs'; apply len_skipz; lia).
      assert (Hr' : reads (mv z j) (s' ++ tail)).
      { pose proof (reads_mv _ _ j Hr ltac:(change (c :: t ++ tail) with ((c :: t) ++ tail); rewrite len_app; pose proof (len_nonneg tail); lia)) as Hr'.
        change (c :: t ++ tail) with ((c :: t) ++ tail) in Hr'. rewrite skipz_app_l in Hr' by lia. rewrite Hs' in Hr'. exact Hr'. }
      assert (Hls' : (length s' < length (c :: t))%nat) by (unfold len in *; lia). cbn [length] in Hls'.
      rewrite (IH s' ltac:(lia) (mv z j) it' q' sk' k Hr' Hw' ltac:(lia)).
      rewrite mv_mv. do 3 f_equal. lia. }
    assert (Hone : forall it' q' sk', xml_body raw (z, it, q, sk) = Ok (Cont (mv z 1, it', q', sk')) -> xml_wf n raw it' q' sk' t = true ->
              rbind (xml_body raw (z, it, q, sk)) (fun x => match x with Cont s'' => loop k (xml_body raw) s'' | Brk r => Ok r end) =
              Ok (inl (mv z (len (c :: t) + 2 + len ename)))).
    { intros it' q' sk'. apply (Hjump 1 t); [lia|reflexivity|rewrite len_cons; lia]. }
    (* what l.at sees: the pattern against the construct's own bytes *)
    assert (Hatp : forall pat, nz_list pat -> ~ In 60 pat -> at_ z pat = Ok (prefixb pat (c :: t))).
    { intros pat Hnz Hni. destruct Hr as [Hw Hrem]. rewrite at_rem by assumption. rewrite Hrem.
      change (c :: t ++ tail) with ((c :: t) ++ 60 :: 47 :: ename ++ erest). rewrite prefixb_app_stop by exact Hni. reflexivity. }
    cbn [xml_wf] in Hwf.
    destruct (c =? 0) eqn:E0; [discriminate|].
    assert (Hpk : pkr z 0 = Ok c) by (apply (reads_pkr z _ 0 c Hr), peekz_cons_0).
    destruct (negb (sk =? 0)) eqn:Esk.
    { (* inside a comment, CDATA section or processing instruction *)
      assert (Hb1 : (if sk =? 1 then at_ z [45; 45; 62] else if sk =? 2 then at_ z [93; 93; 62] else Ok false) =
                    Ok (((sk =? 1) && prefixb [45; 45; 62] (c :: t)) || ((sk =? 2) && prefixb [93; 93; 62] (c :: t)))).
      { destruct (sk =? 1) eqn:E1; cbn [andb orb].
        - rewrite Hatp by (try (repeat constructor; lia); intros [E|[E|[E|[]]]]; discriminate).
          replace (sk =? 2) with false by (symmetry; b2p; apply Z.eqb_neq; lia). cbn [andb]. rewrite orb_false_r. reflexivity.
        - destruct (sk =? 2); cbn [andb]; [|reflexivity]. apply Hatp; [repeat constructor; lia|intros [E|[E|[E|[]]]]; discriminate]. }
      assert (Hb2 : (if sk =? 3 then at_ z [63; 62] else Ok false) = Ok ((sk =? 3) && prefixb [63; 62] (c :: t))).
      { destruct (sk =? 3); cbn [andb]; [|reflexivity]. apply Hatp; [repeat constructor; lia|intros [E|[E|[]]]; discriminate]. }
      assert (Hbody : xml_body raw (z, it, q, sk) =
                (if ((sk =? 1) && prefixb [45; 45; 62] (c :: t)) || ((sk =? 2) && prefixb [93; 93; 62] (c :: t)) then Ok (Cont (mv z 3, it, q, 0))
                 else if (sk =? 3) && prefixb [63; 62] (c :: t) then Ok (Cont (mv z 2, it, q, 0)) else Ok (Cont (mv z 1, it, q, sk)))).
      { unfold xml_body. rewrite Hpk. cbn [rbind]. rewrite Esk, E0. cbn [negb andb]. rewrite Hb1. cbn [rbind].
        destruct (((sk =? 1) && prefixb [45; 45; 62] (c :: t)) || ((sk =? 2) && prefixb [93; 93; 62] (c :: t))); [reflexivity|].
        rewrite Hb2. cbn [rbind]. destruct ((sk =? 3) && prefixb [63; 62] (c :: t)); reflexivity. }
      destruct (((sk =? 1) && prefixb [45; 45; 62] (c :: t)) || ((sk =? 2) && prefixb [93; 93; 62] (c :: t))) eqn:Ep3.
      - assert (H3 : 3 <= len (c :: t)).
        { apply orb_true_iff in Ep3. destruct Ep3 as [Ep3|Ep3]; apply andb_true_iff in Ep3; destruct Ep3 as [_ Ep3]; apply prefixb_len in Ep3; exact Ep3. }
        apply (Hjump 3 (skipz 2 t) it q 0); [lia|reflexivity|exact H3|exact Hbody|exact Hwf].
      - destruct ((sk =? 3) && prefixb [63; 62] (c :: t)) eqn:Ep2.
        + assert (H2 : 2 <= len (c :: t)) by (apply andb_true_iff in Ep2; destruct Ep2 as [_ Ep2]; apply prefixb_len in Ep2; exact Ep2).
          apply (Hjump 2 (skipz 1 t) it q 0); [lia|reflexivity|exact H2|exact Hbody|exact Hwf].
        + apply (Hone it q sk); [exact Hbody|exact Hwf]. }
    apply negb_false_iff, Z.eqb_eq in Esk. subst sk.
    destruct (negb (q =? 0)) eqn:Eq.
    { apply (Hone it (if c =? q then 0 else q) 0); [|exact Hwf]. unfold xml_body. rewrite Hpk. cbn [rbind Z.eqb negb andb]. rewrite Eq, E0. reflexivity. }
    apply negb_false_iff, Z.eqb_eq in Eq. subst q.
    destruct it.
    { apply (Hone (negb (c =? 62)) (if (c =? 34) || (c =? 39) then c else 0) 0); [|exact Hwf].
      unfold xml_body. rewrite Hpk. cbn [rbind Z.eqb negb andb]. rewrite E0. cbn [negb]. destruct (c =? 62); reflexivity. }
    destruct (c =? 60) eqn:E60.
    2:{ apply (Hone false 0 0); [|exact Hwf]. unfold xml_body. rewrite Hpk. cbn [rbind Z.eqb negb andb]. rewrite E60, E0. reflexivity. }
    apply Z.eqb_eq in E60. subst c.
    destruct t as [|c1 t1]; [discriminate|].
    assert (Hpk1 : pkr z 1 = Ok c1) by (apply (reads_pkr z _ 1 c1 Hr), peekz_1).
    destruct (c1 =? 47) eqn:E47.
    2:{ (* "<" + something that is not "/" *)
      assert (Hat4 : at_ z [60; 33; 45; 45] = Ok (prefixb [33; 45; 45] (c1 :: t1))).
      { destruct Hr as [Hw Hrem]. rewrite at_rem by (try assumption; repeat constructor; lia). rewrite Hrem.
        change (60 :: (c1 :: t1) ++ tail) with (60 :: (c1 :: t1) ++ 60 :: 47 :: ename ++ erest). rewrite prefixb_cons_same.
        rewrite prefixb_app_stop by (intros [E|[E|[E|[]]]]; discriminate). reflexivity. }
      assert (Hat9 : at_ z [60; 33; 91; 67; 68; 65; 84; 65; 91] = Ok (prefixb [33; 91; 67; 68; 65; 84; 65; 91] (c1 :: t1))).
      { destruct Hr as [Hw Hrem]. rewrite at_rem by (try assumption; repeat constructor; lia). rewrite Hrem.
        change (60 :: (c1 :: t1) ++ tail) with (60 :: (c1 :: t1) ++ 60 :: 47 :: ename ++ erest). rewrite prefixb_cons_same.
        rewrite prefixb_app_stop by (intros [E|[E|[E|[E|[E|[E|[E|[E|[]]]]]]]]]; discriminate). reflexivity. }
      assert (Hbody : xml_body raw (z, false, 0, 0) =
                (if prefixb [33; 45; 45] (c1 :: t1) then Ok (Cont (mv z 4, false, 0, 1))
                 else if prefixb [33; 91; 67; 68; 65; 84; 65; 91] (c1 :: t1) then Ok (Cont (mv z 9, false, 0, 2))
                 else if c1 =? 63 then Ok (Cont (mv z 2, false, 0, 3)) else Ok (Cont (mv z 1, negb (c1 =? 33), 0, 0)))).
      { unfold xml_body. rewrite Hpk. cbn [rbind Z.eqb Pos.eqb negb andb]. rewrite Hpk1. cbn [rbind]. rewrite E47. cbn [negb].
        rewrite Hat4. cbn [rbind]. destruct (prefixb [33; 45; 45] (c1 :: t1)); [reflexivity|].
        rewrite Hat9. cbn [rbind]. destruct (prefixb [33; 91; 67; 68; 65; 84; 65; 91] (c1 :: t1)); reflexivity. }
      destruct (prefixb [33; 45; 45] (c1 :: t1)) eqn:P4.
      { pose proof (prefixb_len _ _ P4) as L4. change (len [33; 45; 45]) with 3 in L4.
        apply (Hjump 4 (skipz 3 (c1 :: t1)) false 0 1); [lia|reflexivity|rewrite len_cons; lia|exact Hbody|exact Hwf]. }
      destruct (prefixb [33; 91; 67; 68; 65; 84; 65; 91] (c1 :: t1)) eqn:P9.
      { pose proof (prefixb_len _ _ P9) as L9. change (len [33; 91; 67; 68; 65; 84; 65; 91]) with 8 in L9.
        apply (Hjump 9 (skipz 8 (c1 :: t1)) false 0 2); [lia|reflexivity|rewrite len_cons; lia|exact Hbody|exact Hwf]. }
      destruct (c1 =? 63) eqn:E63.
      { apply (Hjump 2 t1 false 0 3); [lia|reflexivity|rewrite !len_cons; pose proof (len_nonneg t1); lia|exact Hbody|exact Hwf]. }
      apply (Hone (negb (c1 =? 33)) 0 0); [exact Hbody|exact Hwf]. }
    (* a nested end tag: jump over its letters *)
    apply Z.eqb_eq in E47. subst c1. apply andb_true_iff in Hwf. destruct Hwf as [Hh Hwf].
    destruct (letter_run_split t1) as (r1 & Et1 & Hl1 & Hr1').
    set (ls := letter_run t1) in *.
    destruct (to_hash (map lower ls)) as [h| |] eqn:Eh; try discriminate.
    assert (Hr' : reads z (60 :: 47 :: ls ++ r1 ++ tail)).
    { cbn [app] in Hr. rewrite Et1, <- app_assoc in Hr. exact Hr. }
    assert (Hsk1 : skipz (len ls) t1 = r1) by (rewrite Et1; apply skipz_app_len).
    rewrite Hsk1 in Hwf.
    pose proof (len_nonneg ls). pose proof (len_nonneg r1).
    assert (Hlt1 : len t1 = len ls + len r1) by (rewrite Et1 at 1; apply len_app).
    apply (Hjump (2 + len ls) r1 false 0 0); [lia| |rewrite !len_cons; lia| |exact Hwf].
    { change (60 :: 47 :: t1) with ([60; 47] ++ t1). rewrite Et1, app_assoc.
      replace (2 + len ls) with (len ([60; 47] ++ ls)) by (rewrite len_app; reflexivity). apply skipz_app_len. }
    rewrite (xml_body_endtag raw z ls _ Hr' Hl1).
    2:{ right. destruct Hr1' as [->|(c' & r' & -> & Hc')]; [exists 60, (47 :: ename ++ erest); split; reflexivity|exists c', (r' ++ tail); split; [reflexivity|exact Hc']]. }
    rewrite Eh. cbn [rbind]. apply negb_true_iff in Hh. rewrite Hh. reflexivity.
Qed.

(* one step of the first loop of shiftXML on the remaining input s, in the state (inside a tag, quote, skipped
   section): the number of bytes moved and the new state; None where the loop ends (NUL / end of input, or "</" +
   letters that hash to the element's name) *)
Definition xml_step (raw : Z) (it : bool) (q sk : Z) (s : list Z) : option (Z * bool * Z * Z) :=
  match s with
  | [] => None
  | c :: t =>
      if c =? 0 then None
      else if negb (sk =? 0) then
        if ((sk =? 1) && prefixb [45; 45; 62] s) || ((sk =? 2) && prefixb [93; 93; 62] s) then Some (3, it, q, 0)
        else if (sk =? 3) && prefixb [63; 62] s then Some (2, it, q, 0)
        else Some (1, it, q, sk)
      else if negb (q =? 0) then Some (1, it, (if c =? q then 0 else q), sk)
      else if it then Some (1, (if c =? 62 then false else it), (if (c =? 34) || (c =? 39) then c else q), sk)
      else if c =? 60 then
        if negb (hd 0 t =? 47) then
          if prefixb [60; 33; 45; 45] s then Some (4, it, q, 1)
          else if prefixb [60; 33; 91; 67; 68; 65; 84; 65; 91] s then Some (9, it, q, 2)
          else if hd 0 t =? 63 then Some (2, it, q, 3)
          else Some (1, negb (hd 0 t =? 33), q, sk)
        else
          match to_hash (map lower (letter_run (tl t))) with
          | Ok h => if h =? raw then None else Some (2 + len (letter_run (tl t)), it, q, sk)
          | _ => None
          end
      else Some (1, it, q, sk)
  end.

Lemma xml_body_step raw z it q sk s j it' q' sk' : reads z s -> xml_step raw it q sk s = Some (j, it', q', sk') ->
  xml_body raw (z, it, q, sk) = Ok (Cont (mv z j, it', q', sk')) /\ 1 <= j <= len s.
Proof.
  intros Hr H. destruct s as [|c t]; [discriminate|]. unfold xml_step in H.
  pose proof (len_nonneg t) as Hlt.
  assert (Hl1 : len (c :: t) = 1 + len t) by (rewrite len_cons; lia).
  assert (Hpk : pkr z 0 = Ok c) by (apply (reads_pkr z _ 0 c Hr), peekz_cons_0).
  assert (Hatp : forall pat, nz_list pat -> at_ z pat = Ok (prefixb pat (c :: t))).
  { intros pat Hnz. destruct Hr as [Hw Hrem]. rewrite at_rem by assumption. rewrite Hrem. reflexivity. }
  destruct (c =? 0) eqn:E0; [discriminate|].
  destruct (negb (sk =? 0)) eqn:Esk.
  { assert (Hb1 : (if sk =? 1 then at_ z [45; 45; 62] else if sk =? 2 then at_ z [93; 93; 62] else Ok false) =
                  Ok (((sk =? 1) && prefixb [45; 45; 62] (c :: t)) || ((sk =? 2) && prefixb [93; 93; 62] (c :: t)))).
    { destruct (sk =? 1) eqn:E1; cbn [andb orb].
      - rewrite Hatp by (repeat constructor; lia).
        replace (sk =? 2) with false by (symmetry; b2p; apply Z.eqb_neq; lia). cbn [andb]. rewrite orb_false_r. reflexivity.
      - destruct (sk =? 2); cbn [andb]; [|reflexivity]. apply Hatp; repeat constructor; lia. }
    assert (Hb2 : (if sk =? 3 then at_ z [63; 62] else Ok false) = Ok ((sk =? 3) && prefixb [63; 62] (c :: t))).
    { destruct (sk =? 3); cbn [andb]; [|reflexivity]. apply Hatp; repeat constructor; lia. }
    assert (Hbody : xml_body raw (z, it, q, sk) =
              (if ((sk =? 1) && prefixb [45; 45; 62] (c :: t)) || ((sk =? 2) && prefixb [93; 93; 62] (c :: t)) then Ok (Cont (mv z 3, it, q, 0))
               else if (sk =? 3) && prefixb [63; 62] (c :: t) then Ok (Cont (mv z 2, it, q, 0)) else Ok (Cont (mv z 1, it, q, sk)))).
    { unfold xml_body. rewrite Hpk. cbn [rbind]. rewrite Esk, E0. cbn [negb andb]. rewrite Hb1. cbn [rbind].
      destruct (((sk =? 1) && prefixb [45; 45; 62] (c :: t)) || ((sk =? 2) && prefixb [93; 93; 62] (c :: t))); [reflexivity|].
      rewrite Hb2. cbn [rbind]. destruct ((sk =? 3) && prefixb [63; 62] (c :: t)); reflexivity. }
    rewrite Hbody.
    destruct (((sk =? 1) && prefixb [45; 45; 62] (c :: t)) || ((sk =? 2) && prefixb [93; 93; 62] (c :: t))) eqn:Ep3.
    - injection H as <- <- <- <-. split; [reflexivity|].
      apply orb_true_iff in Ep3. destruct Ep3 as [Ep3|Ep3]; apply andb_true_iff in Ep3; destruct Ep3 as [_ Ep3]; apply prefixb_len in Ep3;
        unfold len in Ep3 at 1; cbn [length] in Ep3; lia.
    - destruct ((sk =? 3) && prefixb [63; 62] (c :: t)) eqn:Ep2.
      + injection H as <- <- <- <-. split; [reflexivity|].
        apply andb_true_iff in Ep2; destruct Ep2 as [_ Ep2]; apply prefixb_len in Ep2; unfold len in Ep2 at 1; cbn [length] in Ep2; lia.
      + injection H as <- <- <- <-. split; [reflexivity|lia]. }
  apply negb_false_iff, Z.eqb_eq in Esk. subst sk.
  destruct (negb (q =? 0)) eqn:Eq.
  { injection H as <- <- <- <-. split; [|lia]. unfold xml_body. rewrite Hpk. cbn [rbind Z.eqb negb andb]. rewrite Eq, E0. reflexivity. }
  apply negb_false_iff, Z.eqb_eq in Eq. subst q.
  destruct it.
  { injection H as <- <- <- <-. split; [|lia]. unfold xml_body. rewrite Hpk. cbn [rbind Z.eqb negb andb]. rewrite E0. cbn [negb]. reflexivity. }
  destruct (c =? 60) eqn:E60.
  2:{ injection H as <- <- <- <-. split; [|lia]. unfold xml_body. rewrite Hpk. cbn [rbind Z.eqb negb andb]. rewrite E60, E0. reflexivity. }
  apply Z.eqb_eq in E60. subst c.
  assert (Hpk1 : pkr z 1 = Ok (hd 0 t)).
  { destruct t as [|x t1]; cbn [hd].
    - destruct (reads_end z [60] Hr) as [Hp _]. change (len [60]) with 1 in Hp. unfold pkr. rewrite Hp. reflexivity.
    - apply (reads_pkr z _ 1 x Hr), peekz_1. }
  destruct (negb (hd 0 t =? 47)) eqn:E47.
  { assert (Hbody : xml_body raw (z, false, 0, 0) =
              (if prefixb [60; 33; 45; 45] (60 :: t) then Ok (Cont (mv z 4, false, 0, 1))
               else if prefixb [60; 33; 91; 67; 68; 65; 84; 65; 91] (60 :: t) then Ok (Cont (mv z 9, false, 0, 2))
               else if hd 0 t =? 63 then Ok (Cont (mv z 2, false, 0, 3)) else Ok (Cont (mv z 1, negb (hd 0 t =? 33), 0, 0)))).
    { unfold xml_body. rewrite Hpk. cbn [rbind Z.eqb Pos.eqb negb andb]. rewrite Hpk1. cbn [rbind]. rewrite E47.
      rewrite Hatp by (repeat constructor; lia). cbn [rbind]. destruct (prefixb [60; 33; 45; 45] (60 :: t)); [reflexivity|].
      rewrite Hatp by (repeat constructor; lia). cbn [rbind]. destruct (prefixb [60; 33; 91; 67; 68; 65; 84; 65; 91] (60 :: t)); reflexivity. }
    rewrite Hbody.
    destruct (prefixb [60; 33; 45; 45] (60 :: t)) eqn:P4.
    { injection H as <- <- <- <-. split; [reflexivity|]. apply prefixb_len in P4. unfold len in P4 at 1; cbn [length] in P4. lia. }
    destruct (prefixb [60; 33; 91; 67; 68; 65; 84; 65; 91] (60 :: t)) eqn:P9.
    { injection H as <- <- <- <-. split; [reflexivity|]. apply prefixb_len in P9. unfold len in P9 at 1; cbn [length] in P9. lia. }
    destruct (hd 0 t =? 63) eqn:E63.
    { injection H as <- <- <- <-. split; [reflexivity|]. destruct t as [|x t1]; [cbn [hd] in E63; discriminate|]. rewrite !len_cons. pose proof (len_nonneg t1). lia. }
    injection H as <- <- <- <-. split; [reflexivity|lia]. }
  apply negb_false_iff, Z.eqb_eq in E47.
  destruct t as [|x t1]; [cbn [hd] in E47; discriminate|]. simpl tl in H. simpl hd in *. subst x.
  destruct (letter_run_split t1) as (r1 & Et1 & Hlr & Hr1).
  set (ls := letter_run t1) in *.
  destruct (to_hash (map lower ls)) as [h| |] eqn:Eh; try discriminate.
  destruct (h =? raw) eqn:Ehr; [discriminate|].
  assert (Ej : j = 2 + len ls) by congruence. assert (Eit : it' = false) by congruence. assert (Eq' : q' = 0) by congruence. assert (Esk' : sk' = 0) by congruence.
  subst j it' q' sk'. clear H.
  assert (Hlt1 : len t1 = len ls + len r1) by (rewrite Et1 at 1; apply len_app).
  assert (Hr' : reads z (60 :: 47 :: ls ++ r1)) by (rewrite <- Et1; exact Hr).
  split; [|rewrite !len_cons; pose proof (len_nonneg ls); pose proof (len_nonneg r1); lia].
  rewrite (xml_body_endtag raw z ls r1 Hr' Hlr Hr1). rewrite Eh. cbn [rbind]. rewrite Ehr. reflexivity.
Qed.

(* at the end of input the loop stops ("c == 0") *)
Lemma xml_body_end raw z it q sk : reads z [] -> xml_body raw (z, it, q, sk) = Ok (Brk (inr z)).
Proof.
  intros Hr. destruct (reads_end z [] Hr) as [Hp _]. change (len (@nil Z)) with 0 in Hp.
  unfold xml_body, pkr. rewrite Hp. cbn [opt_res rbind Z.eqb negb]. rewrite !andb_false_r. reflexivity.
Qed.

(* content that the end of input cuts: every step of shiftXML's first loop continues, whatever the state at the end *)
Fixpoint xml_cut_ok (fuel : nat) (raw : Z) (it : bool) (q sk : Z) (s : list Z) : bool :=
  match s with
  | [] => true
  | _ :: _ =>
      match fuel with
      | O => false
      | S k => match xml_step raw it q sk s with
               | Some (j, it', q', sk') => xml_cut_ok k raw it' q' sk' (skipz j s)
               | None => false
               end
      end
  end.

Lemma xml_cut_loop raw : forall n s, (length s <= n)%nat -> forall z it q sk fuel,
  reads z s -> xml_cut_ok n raw it q sk s = true -> (length s < fuel)%nat ->
  loop fuel (xml_body raw) (z, it, q, sk) = Ok (inr (mv z (len s))).
Proof.
  induction n as [|n IH]; intros s Hn z it q sk fuel Hr Hok Hf.
  all: destruct fuel as [|k]; [lia|]; cbn [loop].
  all: destruct s as [|c t].
  1,3: rewrite (xml_body_end raw z it q sk Hr); cbn [rbind]; change (len (@nil Z)) with 0; rewrite mv_0; reflexivity.
  - cbn [length] in Hn. lia.
  - cbn [xml_cut_ok] in Hok. destruct (xml_step raw it q sk (c :: t)) as [[[[j it'] q'] sk']|] eqn:Es; [|discriminate].
    destruct (xml_body_step raw z it q sk _ j it' q' sk' Hr Es) as [Hb Hj]. rewrite Hb. cbn [rbind].
    pose proof (reads_mv _ _ j Hr ltac:(lia)) as Hr'.
    assert (Hlen' : len (skipz j (c :: t)) = len (c :: t) - j) by (apply len_skipz; lia).
    assert (Hls : (length (skipz j (c :: t)) < length (c :: t))%nat) by (unfold len in *; lia).
    cbn [length] in Hls, Hn, Hf.
    rewrite (IH (skipz j (c :: t)) ltac:(lia) (mv z j) it' q' sk' k Hr' Hok ltac:(lia)). rewrite mv_mv. do 3 f_equal. lia.
Qed.

Lemma xml_close_loop_run z ews rest : reads z (ews ++ 62 :: rest) -> Forall (fun c => c <> 62 /\ c <> 0) ews ->
  loop (fuel_of z) xml_close_body z = Ok (inl (mv z (len ews + 1))).
Proof.
  intros Hr Hb. pose proof (len_nonneg ews).
  apply (loop_scan _ z (len ews)); [lia| | |eapply fuel_of_enough; [exact Hr|rewrite len_app, len_cons; pose proof (len_nonneg rest); lia]].
  - intros i Hi. destruct (peekz_in ews i Hi) as (c & Hc & Hin). rewrite Forall_forall in Hb. destruct (Hb c Hin) as [H62 H0'].
    unfold xml_close_body. rewrite pkr_mv0, (reads_pkr z _ i c Hr (peekz_app_l' _ _ _ _ Hc)). cbn [rbind].
    replace (c =? 62) with false by (symmetry; apply Z.eqb_neq; exact H62).
    replace (c =? 0) with false by (symmetry; apply Z.eqb_neq; exact H0'). rewrite mv_mv. reflexivity.
  - unfold xml_close_body. rewrite pkr_mv0, (reads_pkr z _ (len ews) 62 Hr) by (rewrite peekz_app_r0; apply peekz_cons_0). cbn [rbind].
    change (62 =? 62) with true. rewrite mv_mv. reflexivity.
Qed.

(* lower-casing bytes before the cursor does not change what is read *)
Lemma reads_lower z s v : reads z s -> 0 <= so v -> 0 <= sn v -> so v + sn v <= lpos z -> reads (lx_lower z v) s.
Proof.
  intros [Hw Hr] H1 H2 H3. pose proof (lx_wf_len z Hw) as [Hbl _]. pose proof Hw as (_ & Hs & Hp).
  split; [apply lx_lower_wf; [exact Hw|lia|lia|lia]|].
  rewrite <- Hr. unfold rem. rewrite (lx_lower_len z v Hw) by lia. unfold lx_lower. cbn [lbuf lpos].
  apply slice_ext; [lia|rewrite len_lower_view by lia; lia|lia|].
  intros i Hi. rewrite peekz_lower_view by lia.
  replace ((so v <=? i) && (i <? so v + sn v)) with false; [reflexivity|].
  symmetry. apply andb_false_iff. right. apply Z.ltb_ge. lia.
Qed.

Lemma is_xml_raw h : is_xml_hash h = true -> is_raw_hash h = true.
Proof.
  unfold is_xml_hash, is_raw_hash. intros H.
  apply orb_true_iff in H. destruct H as [H|H]; [apply orb_true_iff in H; destruct H as [H|H]|]; rewrite H; repeat rewrite orb_true_r; reflexivity.
Qed.

Definition foreign_ty (h : Z) : Z := if h =? html_hash_Svg then SvgT else if h =? html_hash_Math then MathT else XmlT.

(* "<svg" inner "</svg" ews ">" : one token *)
Lemma next_foreign d l pre name inner ename ews rest h :
  at_input d l pre (60 :: name ++ inner ++ 60 :: 47 :: ename ++ ews ++ 62 :: rest) -> intag l = false -> rawtag l = 0 ->
  lerr l = false ->
  (exists c nm, name = c :: nm /\ is_letter c = true) -> Forall namechar name ->
  to_hash (map lower name) = Ok h -> to_hash (map lower ename) = Ok h -> is_xml_hash h = true ->
  (exists c r, inner = c :: r /\ (is_ws c = true \/ c = 62)) -> xml_wf (length inner) h true 0 0 inner = true ->
  Forall (fun c => is_letter c = true) ename -> Forall (fun c => is_ws c = true) ews ->
  let n := 1 + len name + len inner + 2 + len ename + len ews + 1 in
  exists l', next no_tmpl l = Ok (foreign_ty h, Some (mkSl (len pre) n), l') /\
    ltext l' = Some (mkSl (len pre + 1) (len name)) /\
    lbuf (lz l') = lower_view (lbuf (lz l)) (mkSl (len pre + 1) (len name)) /\
    intag l' = false /\ rawtag l' = 0 /\ lerr l' = false.
Proof.
  intros Hat Hit Hraw Hle (c & nm & Ename & Hlet) Hname Hh Heh Hxml (ci & ri & Ei & Hci) Hinner Helet Hews n.
  pose proof (at_input_reads _ _ _ _ Hat) as Hr.
  pose proof Hat as (Hi & Hcl & Hd & Hp).
  pose proof (len_nonneg name). pose proof (len_nonneg inner). pose proof (len_nonneg ename). pose proof (len_nonneg ews). pose proof (len_nonneg rest).
  set (tl := inner ++ 60 :: 47 :: ename ++ ews ++ 62 :: rest) in *.
  assert (Hltl : len tl = len inner + 2 + len ename + len ews + 1 + len rest) by (unfold tl; rewrite len_app, !len_cons, len_app, len_app, len_cons; lia).
  assert (Hstop : tag_stop tl).
  { right. unfold tl. rewrite Ei. cbn [app]. exists ci, (ri ++ 60 :: 47 :: ename ++ ews ++ 62 :: rest). split; [reflexivity|].
    destruct Hci as [Hw| ->]; [left; exact Hw|right; left; reflexivity]. }
  unfold next. cbn [lz rawtag intag lerr ltext lattr lhas]. rewrite Hit, Hraw. cbn [Z.eqb negb].
  unfold next_content. cbn [lz rawtag intag lerr ltext lattr lhas].
  assert (Hr' : reads (lz l) (60 :: c :: nm ++ tl)) by (rewrite Ename in Hr; exact Hr).
  destruct (text_loop_dispatch (lz l) c (nm ++ tl) Hr' Hcl) as [Hdisp|Hno]; [|exfalso; apply Hno; tauto].
  rewrite Hlet in Hdisp. rewrite Hdisp. cbn [rbind].
  pose proof (reads_mv _ _ 1 Hr ltac:(rewrite len_cons; pose proof (len_nonneg (name ++ tl)); lia)) as Hr1.
  change (skipz 1 (60 :: name ++ tl)) with (name ++ tl) in Hr1.
  unfold shift_starttag. rewrite (starttag_loop_run _ name tl Hr1 Hname Hstop). cbn [rbind].
  pose proof (reads_mv _ _ (len name) Hr1 ltac:(rewrite len_app; lia)) as Hr2. rewrite skipz_app_len in Hr2.
  destruct Hr2 as [Hw2 Hrem2].
  rewrite lexeme_from_spec by (exact Hw2 || (cbn [mv lpos lstart]; lia)). cbn [rbind mv lstart lpos].
  set (t := mkSl (lstart (lz l) + 1) (lpos (lz l) + 1 + len name - lstart (lz l) - 1)).
  assert (Ht : t = mkSl (len pre + 1) (len name)) by (unfold t; rewrite Hcl, Hp; f_equal; lia).
  pose proof (lx_wf_len _ Hw2) as [Hbl _].
  assert (Hlim : len pre + 1 + len name + len tl <= lx_len (lz l)).
  { pose proof (len_rem _ Hw2) as Hlr. rewrite Hrem2 in Hlr. cbn [mv lpos] in Hlr. unfold lx_len in *. cbn [mv lbuf] in Hlr. lia. }
  assert (Hbytes : view_bytes (lbuf (lx_lower (mv (mv (lz l) 1) (len name)) t)) t = map lower name).
  { unfold lx_lower. cbn [lbuf mv]. rewrite Ht. rewrite view_bytes_lower_view by (cbn [so sn]; pose proof (len_nonneg pre); unfold lx_len in *; cbn [mv lbuf] in Hbl; lia).
    f_equal. unfold view_bytes. cbn [so sn]. replace (len pre + 1 + len name) with (len pre + (1 + len name)) by lia.
    rewrite (at_input_slice d l pre _ 1 (1 + len name) Hat) by (rewrite ?len_cons, ?len_app; lia).
    exact (slice_mid' [60] name tl). }
  rewrite Hbytes, Hh. cbn [rbind]. rewrite (is_xml_raw h Hxml), Hxml.
  (* shiftXML *)
  set (z2 := lx_lower (mv (mv (lz l) 1) (len name)) t).
  assert (Hr3 : reads z2 tl).
  { apply reads_lower; [split; assumption|rewrite Ht; cbn; pose proof (len_nonneg pre); lia|rewrite Ht; cbn; lia|].
    rewrite Ht. cbn [so sn mv lpos]. lia. }
  assert (Herest : exists c0 r0, ews ++ 62 :: rest = c0 :: r0 /\ is_letter c0 = false).
  { destruct ews as [|w ews']; [exists 62, rest; split; reflexivity|]. exists w, (ews' ++ 62 :: rest). split; [reflexivity|].
    inversion Hews as [|? ? Hw _]; subst. unfold is_ws in Hw. unfold is_letter.
    repeat (apply orb_true_iff in Hw; destruct Hw as [Hw|Hw]); apply Z.eqb_eq in Hw; subst w; reflexivity. }
  unfold shift_xml. rewrite loop_with_no_tmpl.
  rewrite (xml_loop_run h ename (ews ++ 62 :: rest) Helet Heh (or_intror Herest) (length inner) inner (le_n _) z2 true 0 0 (fuel_of z2) Hr3 Hinner).
  2:{ pose proof (fuel_of_enough z2 tl (len inner) Hr3 ltac:(lia)) as Hfe. unfold len in Hfe. rewrite Nat2Z.id in Hfe. exact Hfe. }
  cbn [rbind fst snd].
  pose proof (reads_mv _ _ (len inner + 2 + len ename) Hr3 ltac:(lia)) as Hr4.
  assert (Hsk : skipz (len inner + 2 + len ename) tl = ews ++ 62 :: rest).
  { unfold tl. replace (inner ++ 60 :: 47 :: ename ++ ews ++ 62 :: rest) with ((inner ++ 60 :: 47 :: ename) ++ ews ++ 62 :: rest)
      by (rewrite <- app_assoc; cbn [app]; rewrite <- ?app_assoc; reflexivity).
    replace (len inner + 2 + len ename) with (len (inner ++ 60 :: 47 :: ename)) by (rewrite len_app, !len_cons; lia). apply skipz_app_len. }
  rewrite Hsk in Hr4.
  assert (Hews2 : Forall (fun c0 => c0 <> 62 /\ c0 <> 0) ews).
  { eapply Forall_impl; [|exact Hews]. cbn beta. intros a Ha. unfold is_ws in Ha. 
    repeat (apply orb_true_iff in Ha; destruct Ha as [Ha|Ha]); apply Z.eqb_eq in Ha; subst a; split; discriminate. }
  unfold with_tmpl_lx; rewrite loop_with_no_tmpl; rewrite (xml_close_loop_run _ ews rest Hr4 Hews2). cbn [rbind fst snd].
  destruct Hr4 as [Hw4 Hrem4].
  destruct (rem_mv _ (len ews + 1) Hw4) as [_ Hw5]; [rewrite Hrem4, len_app, len_cons; lia|].
  rewrite shiftv_spec by exact Hw5. rewrite Hle. cbn [rbind fst snd orb].
  unfold z2, lx_lower. cbn [mv lbuf lstart lpos so sn skip]. rewrite Ht, Hcl, Hp.
  replace (len pre + 1 + len name + (len inner + 2 + len ename) + (len ews + 1) - len pre) with n by (unfold n; lia).
  eexists. split; [reflexivity|]. cbn [ltext lz intag rawtag lerr lbuf]. repeat split.
Qed.

Lemma xml_close_cut_run z ews : reads z ews -> Forall (fun c => c <> 62 /\ c <> 0) ews ->
  loop (fuel_of z) xml_close_body z = Ok (inr (mv z (len ews))).
Proof.
  intros Hr Hb. pose proof (len_nonneg ews).
  apply (loop_scan _ z (len ews)); [lia| | |eapply fuel_of_enough; [exact Hr|lia]].
  - intros i Hi. destruct (peekz_in ews i Hi) as (c & Hc & Hin). rewrite Forall_forall in Hb. destruct (Hb c Hin) as [H62 H0'].
    unfold xml_close_body. rewrite pkr_mv0, (reads_pkr z _ i c Hr Hc). cbn [rbind].
    replace (c =? 62) with false by (symmetry; apply Z.eqb_neq; exact H62).
    replace (c =? 0) with false by (symmetry; apply Z.eqb_neq; exact H0'). rewrite mv_mv. reflexivity.
  - unfold xml_close_body. rewrite pkr_mv0. destruct (reads_end z ews Hr) as [Hp _]. unfold pkr. rewrite Hp. reflexivity.
Qed.

(* "<svg" inner "</svg" ews, cut by the end of input inside the end tag: one token, no error *)
Lemma next_foreign_cut_end d l pre name inner ename ews h :
  at_input d l pre (60 :: name ++ inner ++ 60 :: 47 :: ename ++ ews) -> intag l = false -> rawtag l = 0 ->
  lerr l = false ->
  (exists c nm, name = c :: nm /\ is_letter c = true) -> Forall namechar name ->
  to_hash (map lower name) = Ok h -> to_hash (map lower ename) = Ok h -> is_xml_hash h = true ->
  (exists c r, inner = c :: r /\ (is_ws c = true \/ c = 62)) -> xml_wf (length inner) h true 0 0 inner = true ->
  Forall (fun c => is_letter c = true) ename -> Forall (fun c => is_ws c = true) ews ->
  let n := 1 + len name + len inner + 2 + len ename + len ews in
  exists l', next no_tmpl l = Ok (foreign_ty h, Some (mkSl (len pre) n), l') /\
    ltext l' = Some (mkSl (len pre + 1) (len name)) /\
    lbuf (lz l') = lower_view (lbuf (lz l)) (mkSl (len pre + 1) (len name)) /\
    intag l' = false /\ rawtag l' = 0 /\ lerr l' = false.
Proof.
  intros Hat Hit Hraw Hle (c & nm & Ename & Hlet) Hname Hh Heh Hxml (ci & ri & Ei & Hci) Hinner Helet Hews n.
  pose proof (at_input_reads _ _ _ _ Hat) as Hr.
  pose proof Hat as (Hi & Hcl & Hd & Hp).
  pose proof (len_nonneg name). pose proof (len_nonneg inner). pose proof (len_nonneg ename). pose proof (len_nonneg ews).
  set (tl := inner ++ 60 :: 47 :: ename ++ ews) in *.
  assert (Hltl : len tl = len inner + 2 + len ename + len ews) by (unfold tl; rewrite len_app, !len_cons, len_app; lia).
  assert (Hstop : tag_stop tl).
  { right. unfold tl. rewrite Ei. cbn [app]. exists ci, (ri ++ 60 :: 47 :: ename ++ ews). split; [reflexivity|].
    destruct Hci as [Hw| ->]; [left; exact Hw|right; left; reflexivity]. }
  unfold next. cbn [lz rawtag intag lerr ltext lattr lhas]. rewrite Hit, Hraw. cbn [Z.eqb negb].
  unfold next_content. cbn [lz rawtag intag lerr ltext lattr lhas].
  assert (Hr' : reads (lz l) (60 :: c :: nm ++ tl)) by (rewrite Ename in Hr; exact Hr).
  destruct (text_loop_dispatch (lz l) c (nm ++ tl) Hr' Hcl) as [Hdisp|Hno]; [|exfalso; apply Hno; tauto].
  rewrite Hlet in Hdisp. rewrite Hdisp. cbn [rbind].
  pose proof (reads_mv _ _ 1 Hr ltac:(rewrite len_cons; pose proof (len_nonneg (name ++ tl)); lia)) as Hr1.
  change (skipz 1 (60 :: name ++ tl)) with (name ++ tl) in Hr1.
  unfold shift_starttag. rewrite (starttag_loop_run _ name tl Hr1 Hname Hstop). cbn [rbind].
  pose proof (reads_mv _ _ (len name) Hr1 ltac:(rewrite len_app; lia)) as Hr2. rewrite skipz_app_len in Hr2.
  destruct Hr2 as [Hw2 Hrem2].
  rewrite lexeme_from_spec by (exact Hw2 || (cbn [mv lpos lstart]; lia)). cbn [rbind mv lstart lpos].
  set (t := mkSl (lstart (lz l) + 1) (lpos (lz l) + 1 + len name - lstart (lz l) - 1)).
  assert (Ht : t = mkSl (len pre + 1) (len name)) by (unfold t; rewrite Hcl, Hp; f_equal; lia).
  pose proof (lx_wf_len _ Hw2) as [Hbl _].
  assert (Hlim : len pre + 1 + len name + len tl <= lx_len (lz l)).
  { pose proof (len_rem _ Hw2) as Hlr. rewrite Hrem2 in Hlr. cbn [mv lpos] in Hlr. unfold lx_len in *. cbn [mv lbuf] in Hlr. lia. }
  assert (Hbytes : view_bytes (lbuf (lx_lower (mv (mv (lz l) 1) (len name)) t)) t = map lower name).
  { unfold lx_lower. cbn [lbuf mv]. rewrite Ht. rewrite view_bytes_lower_view by (cbn [so sn]; pose proof (len_nonneg pre); unfold lx_len in *; cbn [mv lbuf] in Hbl; lia).
    f_equal. unfold view_bytes. cbn [so sn]. replace (len pre + 1 + len name) with (len pre + (1 + len name)) by lia.
    rewrite (at_input_slice d l pre _ 1 (1 + len name) Hat) by (rewrite ?len_cons, ?len_app; lia).
    exact (slice_mid' [60] name tl). }
  rewrite Hbytes, Hh. cbn [rbind]. rewrite (is_xml_raw h Hxml), Hxml.
  (* shiftXML *)
  set (z2 := lx_lower (mv (mv (lz l) 1) (len name)) t).
  assert (Hr3 : reads z2 tl).
  { apply reads_lower; [split; assumption|rewrite Ht; cbn; pose proof (len_nonneg pre); lia|rewrite Ht; cbn; lia|].
    rewrite Ht. cbn [so sn mv lpos]. lia. }
  assert (Herest : ews = [] \/ exists c0 r0, ews = c0 :: r0 /\ is_letter c0 = false).
  { destruct ews as [|w ews']; [left; reflexivity|right]. exists w, ews'. split; [reflexivity|].
    inversion Hews as [|? ? Hw _]; subst. unfold is_ws in Hw. unfold is_letter.
    repeat (apply orb_true_iff in Hw; destruct Hw as [Hw|Hw]); apply Z.eqb_eq in Hw; subst w; reflexivity. }
  unfold shift_xml. rewrite loop_with_no_tmpl.
  rewrite (xml_loop_run h ename ews Helet Heh Herest (length inner) inner (le_n _) z2 true 0 0 (fuel_of z2) Hr3 Hinner).
  2:{ pose proof (fuel_of_enough z2 tl (len inner) Hr3 ltac:(lia)) as Hfe. unfold len in Hfe. rewrite Nat2Z.id in Hfe. exact Hfe. }
  cbn [rbind fst snd].
  pose proof (reads_mv _ _ (len inner + 2 + len ename) Hr3 ltac:(lia)) as Hr4.
  assert (Hsk : skipz (len inner + 2 + len ename) tl = ews).
  { unfold tl. replace (inner ++ 60 :: 47 :: ename ++ ews) with ((inner ++ 60 :: 47 :: ename) ++ ews)
      by (rewrite <- app_assoc; cbn [app]; rewrite <- ?app_assoc; reflexivity).
    replace (len inner + 2 + len ename) with (len (inner ++ 60 :: 47 :: ename)) by (rewrite len_app, !len_cons; lia). apply skipz_app_len. }
  rewrite Hsk in Hr4.
  assert (Hews2 : Forall (fun c0 => c0 <> 62 /\ c0 <> 0) ews).
  { eapply Forall_impl; [|exact Hews]. cbn beta. intros a Ha. unfold is_ws in Ha. 
    repeat (apply orb_true_iff in Ha; destruct Ha as [Ha|Ha]); apply Z.eqb_eq in Ha; subst a; split; discriminate. }
  unfold with_tmpl_lx; rewrite loop_with_no_tmpl; rewrite (xml_close_cut_run _ ews Hr4 Hews2). cbn [rbind fst snd].
  destruct Hr4 as [Hw4 Hrem4].
  destruct (rem_mv _ (len ews) Hw4) as [_ Hw5]; [rewrite Hrem4; lia|].
  assert (Hend : at_end (mv (mv z2 (len inner + 2 + len ename)) (len ews)) = true).
  { destruct (reads_end _ _ (conj Hw4 Hrem4)) as [_ He]. unfold at_end. apply Z.leb_le. cbn [mv lpos lbuf] in *. unfold lx_len in *. cbn [mv lbuf] in *. lia. }
  rewrite shiftv_spec by exact Hw5. rewrite Hle, Hend. cbn [rbind fst snd orb negb].
  unfold z2, lx_lower. cbn [mv lbuf lstart lpos so sn skip]. rewrite Ht, Hcl, Hp.
  replace (len pre + 1 + len name + (len inner + 2 + len ename) + len ews - len pre) with n by (unfold n; lia).
  eexists. split; [reflexivity|]. cbn [ltext lz intag rawtag lerr lbuf]. repeat split.
Qed.

(* "<svg" inner, cut by the end of input: one token, no error *)
Lemma next_foreign_cut d l pre name inner h :
  at_input d l pre (60 :: name ++ inner) -> intag l = false -> rawtag l = 0 -> lerr l = false ->
  (exists c nm, name = c :: nm /\ is_letter c = true) -> Forall namechar name ->
  to_hash (map lower name) = Ok h -> is_xml_hash h = true ->
  (inner = [] \/ exists c r, inner = c :: r /\ (is_ws c = true \/ c = 62)) -> xml_cut_ok (length inner) h true 0 0 inner = true ->
  exists l', next no_tmpl l = Ok (foreign_ty h, Some (mkSl (len pre) (1 + len name + len inner)), l') /\
    ltext l' = Some (mkSl (len pre + 1) (len name)) /\
    lbuf (lz l') = lower_view (lbuf (lz l)) (mkSl (len pre + 1) (len name)) /\
    intag l' = false /\ rawtag l' = 0 /\ lerr l' = false.
Proof.
  intros Hat Hit Hraw Hle (c & nm & Ename & Hlet) Hname Hh Hxml Hfirst Hinner.
  pose proof (at_input_reads _ _ _ _ Hat) as Hr.
  pose proof Hat as (Hi & Hcl & Hd & Hp).
  pose proof (len_nonneg name). pose proof (len_nonneg inner).
  assert (Hstop : tag_stop inner).
  { destruct Hfirst as [->|(ci & ri & Ei & Hci)]; [left; reflexivity|right]. exists ci, ri. split; [exact Ei|].
    destruct Hci as [Hw| ->]; [left; exact Hw|right; left; reflexivity]. }
  unfold next. cbn [lz rawtag intag lerr ltext lattr lhas]. rewrite Hit, Hraw. cbn [Z.eqb negb].
  unfold next_content. cbn [lz rawtag intag lerr ltext lattr lhas].
  assert (Hr' : reads (lz l) (60 :: c :: nm ++ inner)) by (rewrite Ename in Hr; exact Hr).
  destruct (text_loop_dispatch (lz l) c (nm ++ inner) Hr' Hcl) as [Hdisp|Hno]; [|exfalso; apply Hno; tauto].
  rewrite Hlet in Hdisp. rewrite Hdisp. cbn [rbind].
  pose proof (reads_mv _ _ 1 Hr ltac:(rewrite len_cons; pose proof (len_nonneg (name ++ inner)); lia)) as Hr1.
  change (skipz 1 (60 :: name ++ inner)) with (name ++ inner) in Hr1.
  unfold shift_starttag. rewrite (starttag_loop_run _ name inner Hr1 Hname Hstop). cbn [rbind].
  pose proof (reads_mv _ _ (len name) Hr1 ltac:(rewrite len_app; lia)) as Hr2. rewrite skipz_app_len in Hr2.
  destruct Hr2 as [Hw2 Hrem2].
  rewrite lexeme_from_spec by (exact Hw2 || (cbn [mv lpos lstart]; lia)). cbn [rbind mv lstart lpos].
  set (t := mkSl (lstart (lz l) + 1) (lpos (lz l) + 1 + len name - lstart (lz l) - 1)).
  assert (Ht : t = mkSl (len pre + 1) (len name)) by (unfold t; rewrite Hcl, Hp; f_equal; lia).
  pose proof (lx_wf_len _ Hw2) as [Hbl _].
  assert (Hlim : len pre + 1 + len name + len inner <= lx_len (lz l)).
  { pose proof (len_rem _ Hw2) as Hlr. rewrite Hrem2 in Hlr. cbn [mv lpos] in Hlr. unfold lx_len in *. cbn [mv lbuf] in Hlr. lia. }
  assert (Hbytes : view_bytes (lbuf (lx_lower (mv (mv (lz l) 1) (len name)) t)) t = map lower name).
  { unfold lx_lower. cbn [lbuf mv]. rewrite Ht. rewrite view_bytes_lower_view by (cbn [so sn]; pose proof (len_nonneg pre); unfold lx_len in *; cbn [mv lbuf] in Hbl; lia).
    f_equal. unfold view_bytes. cbn [so sn]. replace (len pre + 1 + len name) with (len pre + (1 + len name)) by lia.
    rewrite (at_input_slice d l pre _ 1 (1 + len name) Hat) by (rewrite ?len_cons, ?len_app; lia).
    exact (slice_mid' [60] name inner). }
  rewrite Hbytes, Hh. cbn [rbind]. rewrite (is_xml_raw h Hxml), Hxml.
  set (z2 := lx_lower (mv (mv (lz l) 1) (len name)) t).
  assert (Hr3 : reads z2 inner).
  { apply reads_lower; [split; assumption|rewrite Ht; cbn; pose proof (len_nonneg pre); lia|rewrite Ht; cbn; lia|].
    rewrite Ht. cbn [so sn mv lpos]. lia. }
  unfold shift_xml. rewrite loop_with_no_tmpl.
  rewrite (xml_cut_loop h (length inner) inner (le_n _) z2 true 0 0 (fuel_of z2) Hr3 Hinner).
  2:{ pose proof (fuel_of_enough z2 inner (len inner) Hr3 ltac:(lia)) as Hfe. unfold len in Hfe. rewrite Nat2Z.id in Hfe. exact Hfe. }
  cbn [rbind fst snd].
  pose proof (reads_mv z2 inner (len inner) Hr3 ltac:(lia)) as Hr4.
  destruct Hr4 as [Hw4 Hrem4].
  rewrite shiftv_spec by exact Hw4. rewrite Hle. cbn [rbind fst snd orb].
  assert (Hend : at_end (mv z2 (len inner)) = true).
  { destruct (reads_end z2 inner Hr3) as [_ He]. unfold at_end. apply Z.leb_le. cbn [mv lpos lbuf]. unfold lx_len in *. cbn [mv lbuf]. lia. }
  rewrite Hend. cbn [negb].
  unfold z2, lx_lower. cbn [mv lbuf lstart lpos so sn skip]. rewrite Ht, Hcl, Hp.
  replace (len pre + 1 + len name + len inner - len pre) with (1 + len name + len inner) by lia.
  eexists. split; [reflexivity|]. cbn [ltext lz intag rawtag lerr lbuf]. repeat split.
Qed.

(* ---- raw text without any '<' (also for script) ------------------------------------------------------------------------ *)
Lemma tagend_not_letter c : is_tagend c = true -> is_letter c = false.
Proof.
  unfold is_tagend, is_ws, is_letter. intros H.
  repeat (apply orb_true_iff in H; destruct H as [H|H]); apply Z.eqb_eq in H; subst c; reflexivity.
Qed.

Lemma rawtext_loop_nolt raw z content ename erest has :
  reads z (content ++ 60 :: 47 :: ename ++ erest) -> Forall (fun c => c <> 60) content ->
  Forall (fun c => is_letter c = true) ename -> to_hash (map lower ename) = Ok raw ->
  (exists c r, erest = c :: r /\ is_tagend c = true) -> lstart z <= lpos z ->
  loop (fuel_of z) (rawtext_body no_tmpl raw) (z, has) = Ok (mkLx (lbuf z) (lpos z + len content) (lstart z), has).
Proof.
  intros Hr Hc Hlet Hhash (ce & re & Ee & Hte) Hst.
  assert (Hce : is_letter ce = false) by (apply tagend_not_letter; exact Hte).
  pose proof (len_nonneg content). pose proof (len_nonneg ename). pose proof (len_nonneg erest).
  assert (Hlens : len (content ++ 60 :: 47 :: ename ++ erest) = len content + 2 + len ename + len erest) by (rewrite len_app, !len_cons, len_app; lia).
  apply (loop_scan2 _ z has (len content)); [lia| | |eapply fuel_of_enough; [exact Hr|lia]].
  - intros i Hi. destruct (peekz_in content i Hi) as (c & Hcc & Hci). rewrite Forall_forall in Hc. specialize (Hc c Hci).
    unfold rawtext_body. rewrite pkr_mv0, (reads_pkr z _ i c Hr (peekz_app_l' _ _ _ _ Hcc)). cbn [rbind]. rewrite skip_tmpl_none. cbn [rbind].
    replace (c =? 60) with false by (symmetry; apply Z.eqb_neq; exact Hc).
    rewrite (reads_eof0_in z _ i c Hr (peekz_app_l' _ _ _ _ Hcc)). rewrite mv_mv. reflexivity.
  - unfold rawtext_body. rewrite pkr_mv0, (reads_pkr z _ (len content) 60 Hr) by (rewrite peekz_app_r0; apply peekz_cons_0). cbn [rbind]. rewrite skip_tmpl_none. cbn [rbind].
    change (60 =? 60) with true.
    rewrite pkr_mv, (reads_pkr z _ (len content + 1) 47 Hr) by (rewrite peekz_app_rk by lia; apply peekz_1). cbn [rbind].
    change (47 =? 47) with true.
    pose proof (reads_mv _ _ (len content + 2) Hr ltac:(lia)) as Hr2.
    assert (Hsk : skipz (len content + 2) (content ++ 60 :: 47 :: ename ++ erest) = ename ++ erest).
    { replace (content ++ 60 :: 47 :: ename ++ erest) with ((content ++ [60; 47]) ++ ename ++ erest) by (rewrite <- app_assoc; reflexivity).
      replace (len content + 2) with (len (content ++ [60; 47])) by (rewrite len_app; reflexivity). apply skipz_app_len. }
    rewrite Hsk in Hr2. rewrite mv_mv.
    rewrite (letters_loop_reads _ ename erest Hr2 Hlet) by (right; rewrite Ee; eauto). cbn [rbind].
    unfold hash_lexeme_from. destruct Hr2 as [Hw2 Hrem2].
    destruct (rem_mv _ (len ename) Hw2) as [_ Hw3]; [rewrite Hrem2, len_app; lia|].
    rewrite lexeme_from_spec by (exact Hw3 || (unfold mark; cbn [mv lpos lstart]; lia)). cbn [rbind].
    assert (Hbytes : view_bytes (lbuf (mv (mv z (len content + 2)) (len ename)))
                       (mkSl (lstart (mv (mv z (len content + 2)) (len ename)) + (mark (mv z (len content)) + 2))
                             (lpos (mv (mv z (len content + 2)) (len ename)) - lstart (mv (mv z (len content + 2)) (len ename)) - (mark (mv z (len content)) + 2))) = ename).
    { unfold view_bytes, mark. cbn [so sn mv lbuf lpos lstart].
      replace (lstart z + (lpos z + len content - lstart z + 2)) with (lpos z + (len content + 2)) by lia.
      replace (lpos z + (len content + 2) + (lpos z + (len content + 2) + len ename - lstart z - (lpos z + len content - lstart z + 2))) with (lpos z + (len content + 2 + len ename)) by lia.
      rewrite (reads_slice z _ (len content + 2) (len content + 2 + len ename) Hr) by lia.
      replace (content ++ 60 :: 47 :: ename ++ erest) with ((content ++ [60; 47]) ++ ename ++ erest) by (rewrite <- app_assoc; reflexivity).
      replace (len content + 2) with (len (content ++ [60; 47])) by (rewrite len_app; reflexivity). apply slice_mid'. }
    rewrite Hbytes, Hhash. cbn [rbind]. rewrite Z.eqb_refl.
    rewrite pkr_mv0, (reads_pkr _ _ (len ename) ce (conj Hw2 Hrem2)) by (rewrite peekz_app_r0, Ee; apply peekz_cons_0). cbn [rbind].
    rewrite Hte. cbn [orb].
    unfold rewind, mark. cbn [mv lbuf lpos lstart]. do 3 f_equal. f_equal. lia.
Qed.

Lemma next_rawtext_nolt d l pre content ename erest h :
  at_input d l pre (content ++ 60 :: 47 :: ename ++ erest) -> intag l = false -> rawtag l = h ->
  h <> 0 -> h <> html_hash_Plaintext -> content <> [] -> Forall (fun c => c <> 60) content ->
  Forall (fun c => is_letter c = true) ename -> to_hash (map lower ename) = Ok h ->
  (exists c r, erest = c :: r /\ is_tagend c = true) ->
  exists l', next no_tmpl l = Ok (TextT, Some (mkSl (len pre) (len content)), l') /\
    ltext l' = Some (mkSl (len pre) (len content)) /\ lbuf (lz l') = lbuf (lz l) /\
    intag l' = false /\ rawtag l' = 0 /\ lerr l' = lerr l.
Proof.
  intros Hat Hit Hraw Hh0 Hnp Hne Hc Hlet Hhash Herest. pose proof (at_input_reads _ _ _ _ Hat) as Hr.
  destruct Hat as (Hi & Hcl & Hd & Hp). pose proof (len_nonneg content).
  assert (Hcpos : 0 < len content) by (destruct content; [congruence|rewrite len_cons; pose proof (len_nonneg content); lia]).
  unfold next. cbn [lz rawtag intag lerr ltext lattr lhas]. rewrite Hit, Hraw.
  replace (negb (h =? 0)) with true by (symmetry; apply negb_true_iff, Z.eqb_neq; exact Hh0).
  unfold shift_rawtext. replace (h =? html_hash_Plaintext) with false by (symmetry; apply Z.eqb_neq; exact Hnp).
  rewrite (rawtext_loop_nolt h _ content ename erest false Hr Hc Hlet Hhash Herest) by lia. cbn [rbind fst snd].
  assert (Hw2 : lx_wf (mkLx (lbuf (lz l)) (lpos (lz l) + len content) (lstart (lz l)))).
  { destruct (reads_mv _ _ (len content) Hr) as [Hw _]; [rewrite len_app; pose proof (len_nonneg (60 :: 47 :: ename ++ erest)); lia|]. exact Hw. }
  rewrite shiftv_spec by exact Hw2. cbn [rbind fst snd lstart lpos so sn skip lbuf]. rewrite Hcl, Hp.
  replace (len pre + len content - len pre) with (len content) by lia.
  replace (0 <? len content) with true by (symmetry; apply Z.ltb_lt; lia).
  eexists. split; [reflexivity|]. cbn [ltext lz intag rawtag lerr lbuf]. repeat split.
Qed.

(* ---- bogus comments: "<?" body ">", "<!" body ">" (no comment, CDATA or doctype), "</" non-letter body ">" -------------- *)
Lemma bogus_loop_run z bs rest : reads z (bs ++ 62 :: rest) -> Forall (fun c => c <> 62) bs ->
  loop (fuel_of z) bogus_body z = Ok (mv z (len bs), 1).
Proof.
  intros Hr Hb. pose proof (len_nonneg bs).
  apply (loop_scan _ z (len bs)); [lia| | |eapply fuel_of_enough; [exact Hr|rewrite len_app, len_cons; pose proof (len_nonneg rest); lia]].
  - intros i Hi. destruct (peekz_in bs i Hi) as (c & Hc & Hin). rewrite Forall_forall in Hb. specialize (Hb c Hin).
    unfold bogus_body. rewrite pkr_mv0, (reads_pkr z _ i c Hr (peekz_app_l' _ _ _ _ Hc)). cbn [rbind].
    replace (c =? 62) with false by (symmetry; apply Z.eqb_neq; exact Hb).
    rewrite (reads_eof0_in z _ i c Hr (peekz_app_l' _ _ _ _ Hc)). rewrite mv_mv. reflexivity.
  - unfold bogus_body. rewrite pkr_mv0, (reads_pkr z _ (len bs) 62 Hr) by (rewrite peekz_app_r0; apply peekz_cons_0). reflexivity.
Qed.

Lemma prefixb_stop p x : forall body rest, ~ In x p -> prefixb p (body ++ x :: rest) = prefixb p body.
Proof.
  induction p as [|y p IH]; intros body rest Hn; [reflexivity|]. destruct body as [|b body]; cbn [app prefixb].
  - replace (y =? x) with false; [reflexivity|]. symmetry. apply Z.eqb_neq. intros ->. apply Hn. left. reflexivity.
  - rewrite IH; [reflexivity|]. intros Hin. apply Hn. right. exact Hin.
Qed.

Lemma shift_bogus_run z k bs rest : lx_wf z -> lstart z = lpos z -> 0 <= k -> 2 <= k + len bs ->
  reads (mv z k) (bs ++ 62 :: rest) -> Forall (fun c => c <> 62) bs ->
  forall has, shift_bogus no_tmpl (mv z k) has = Ok (mkSl (lpos z) (k + len bs + 1), mkSl (lpos z + 2) (k + len bs - 2), skip (mv z (k + len bs + 1)), has).
Proof.
  intros Hw Hcl Hk H2 Hr Hb has. pose proof (len_nonneg bs). pose proof (len_nonneg rest).
  unfold shift_bogus. unfold with_tmpl_lx; rewrite loop_with_no_tmpl; rewrite (bogus_loop_run _ bs rest Hr Hb). cbn [rbind fst snd].
  destruct Hr as [Hwk Hrem].
  destruct (rem_mv _ (len bs) Hwk) as [_ Hw1]; [rewrite Hrem, len_app, len_cons; lia|].
  rewrite lexeme_from_spec by (exact Hw1 || (cbn [mv lpos lstart]; lia)). cbn [rbind].
  destruct (rem_mv _ (len bs + 1) Hwk) as [_ Hw2]; [rewrite Hrem, len_app, len_cons; lia|].
  assert (Hw2' : lx_wf (mv (mv (mv z k) (len bs)) 1)) by (rewrite (mv_mv (mv z k)); exact Hw2).
  rewrite shiftv_spec by exact Hw2'. cbn [rbind fst snd mv lstart lpos lbuf skip]. rewrite Hcl.
  do 4 f_equal; [f_equal; lia|f_equal; lia|].
  rewrite !mv_mv. f_equal. lia.
Qed.

(* l.atCaseInsensitive as a function of the bytes (byte arithmetic as in the code) *)
Fixpoint cipre (ps xs : list Z) : bool :=
  match ps with
  | [] => true
  | c :: p' => match xs with
               | [] => false
               | x :: xs' => ((x =? c) || ((x + 32) mod 256 =? c)) && cipre p' xs'
               end
  end.

Lemma atci_from_cipre z s : reads z s -> forall ps i, 0 <= i <= len s -> Forall (fun c => c <> 0 /\ c <> 32) ps ->
  atci_from z i ps = Ok (cipre ps (skipz i s)).
Proof.
  intros Hr ps. induction ps as [|c ps IH]; intros i Hi Hps; [reflexivity|]. inversion Hps as [|? ? [Hc0 Hc32] Hps']; subst.
  cbn [atci_from cipre]. destruct (Z.eq_dec i (len s)) as [->|Hne].
  - replace (skipz (len s) s) with (@nil Z) by (unfold skipz, len; rewrite Nat2Z.id, skipn_all; reflexivity).
    destruct (reads_end z s Hr) as [Hp _]. unfold pkr. rewrite Hp. cbn [opt_res rbind].
    replace (0 =? c) with false by (symmetry; apply Z.eqb_neq; congruence).
    replace ((0 + 32) mod 256 =? c) with false by (symmetry; apply Z.eqb_neq; change ((0 + 32) mod 256) with 32; congruence). reflexivity.
  - destruct (peekz_in_range s i ltac:(lia)) as [x Hx]. rewrite (reads_pkr z s i x Hr Hx). cbn [rbind].
    rewrite (skipz_peek_cons s i x Hx).
    destruct ((x =? c) || ((x + 32) mod 256 =? c)); cbn [andb]; [|reflexivity].
    apply IH; [apply peekz_some in Hx; lia|exact Hps'].
Qed.

Lemma cipre_stop ps x : (forall c, In c ps -> (x =? c) || ((x + 32) mod 256 =? c) = false) ->
  forall body r1 r2, cipre ps (body ++ x :: r1) = cipre ps (body ++ x :: r2).
Proof.
  induction ps as [|c ps IH]; intros Hn body r1 r2; [reflexivity|]. destruct body as [|b body]; cbn [app cipre].
  - rewrite (Hn c) by (left; reflexivity). reflexivity.
  - rewrite (IH (fun c' Hc' => Hn c' (or_intror Hc')) body r1 r2). reflexivity.
Qed.

Definition bogus_open (c1 : Z) (body : list Z) : Prop :=
  c1 = 63 \/
  (c1 = 33 /\ prefixb [45; 45] body = false /\ prefixb [91; 67; 68; 65; 84; 65; 91] body = false /\
     cipre [100; 111; 99; 116; 121; 112; 101] (body ++ [62]) = false) \/      (* not "doctype" in any ASCII case *)
  (c1 = 47 /\ exists c2 r, body = c2 :: r /\ is_letter c2 = false).

Lemma next_bogus d l pre c1 body rest :
  at_input d l pre (60 :: c1 :: body ++ 62 :: rest) -> intag l = false -> rawtag l = 0 ->
  bogus_open c1 body -> Forall (fun c => c <> 62) body ->
  exists l', next no_tmpl l = Ok (CommentT, Some (mkSl (len pre) (3 + len body)), l') /\
    ltext l' = Some (mkSl (len pre + 2) (len body)) /\ lbuf (lz l') = lbuf (lz l) /\
    intag l' = false /\ rawtag l' = 0 /\ lerr l' = lerr l.
Proof.
  intros Hat Hit Hraw Hopen Hbody. pose proof (at_input_reads _ _ _ _ Hat) as Hr.
  destruct Hat as (Hi & Hcl & Hd & Hp). pose proof Hi as ((Hw & _) & _).
  pose proof (len_nonneg body). pose proof (len_nonneg rest).
  assert (Hlen : len (60 :: c1 :: body ++ 62 :: rest) = 3 + len body + len rest) by (rewrite !len_cons, len_app, len_cons; lia).
  unfold next. cbn [lz rawtag intag lerr ltext lattr lhas]. rewrite Hit, Hraw. cbn [Z.eqb negb].
  unfold next_content. cbn [lz rawtag intag lerr ltext lattr lhas].
  pose proof (reads_mv _ _ 2 Hr ltac:(lia)) as Hr2.
  change (skipz 2 (60 :: c1 :: body ++ 62 :: rest)) with (body ++ 62 :: rest) in Hr2.
  destruct Hopen as [->|[(-> & Hnc & Hncd & Hnd)|(-> & c2 & r & Eb & Hnl)]].
  - (* "<?" *)
    destruct (text_loop_dispatch (lz l) 63 _ Hr Hcl) as [Hdisp|Hno]; [|exfalso; apply Hno; tauto].
    change (if is_letter 63 then DStartTag else if 63 =? 33 then DMarkup else if 63 =? 63 then DBogusQ else DEndTag) with DBogusQ in Hdisp.
    rewrite Hdisp. cbn [rbind].
    pose proof (reads_mv _ _ 1 Hr ltac:(lia)) as Hr1.
    change (skipz 1 (60 :: 63 :: body ++ 62 :: rest)) with ((63 :: body) ++ 62 :: rest) in Hr1.
    rewrite (shift_bogus_run (lz l) 1 (63 :: body) rest Hw Hcl ltac:(lia) ltac:(rewrite len_cons; lia) Hr1)
      by (constructor; [discriminate|exact Hbody]).
    cbn [rbind fst snd]. rewrite len_cons, Hp.
    replace (1 + (1 + len body) + 1) with (3 + len body) by lia. replace (1 + (1 + len body) - 2) with (len body) by lia.
    eexists. split; [reflexivity|]. cbn [ltext lz intag rawtag lerr lbuf skip mv]. repeat split.
  - (* "<!" *)
    destruct (text_loop_dispatch (lz l) 33 _ Hr Hcl) as [Hdisp|Hno]; [|exfalso; apply Hno; tauto].
    change (if is_letter 33 then DStartTag else if 33 =? 33 then DMarkup else if 33 =? 63 then DBogusQ else DEndTag) with DMarkup in Hdisp.
    rewrite Hdisp. cbn [rbind]. unfold read_markup.
    rewrite (reads_at (lz l) _ 2 [45; 45] Hr) by (repeat constructor; lia || lia).
    change (skipz 2 (60 :: 33 :: body ++ 62 :: rest)) with (body ++ 62 :: rest).
    rewrite prefixb_stop by (intros [E|[E|[]]]; discriminate). rewrite Hnc. cbn [rbind].
    rewrite (reads_at (lz l) _ 2 [91; 67; 68; 65; 84; 65; 91] Hr) by (repeat constructor; lia || lia).
    change (skipz 2 (60 :: 33 :: body ++ 62 :: rest)) with (body ++ 62 :: rest).
    rewrite prefixb_stop by (intros [E|[E|[E|[E|[E|[E|[E|[]]]]]]]]; discriminate). rewrite Hncd. cbn [rbind].
    assert (Hci : atci_from (mv (lz l) 2) 0 [100; 111; 99; 116; 121; 112; 101] = Ok false).
    { rewrite (atci_from_cipre _ _ Hr2) by (try (rewrite len_app, len_cons; lia); repeat constructor; lia).
      change (skipz 0 (body ++ 62 :: rest)) with (body ++ 62 :: rest). rewrite (cipre_stop [100; 111; 99; 116; 121; 112; 101] 62 ltac:(intros c0 Hc0; repeat (destruct Hc0 as [<-|Hc0]; [reflexivity|]); destruct Hc0) body rest []).
      rewrite Hnd. reflexivity. }
    rewrite Hci. cbn [rbind].
    rewrite (shift_bogus_run (lz l) 2 body rest Hw Hcl ltac:(lia) ltac:(lia) Hr2 Hbody). cbn [rbind fst snd]. rewrite Hp.
    replace (2 + len body + 1) with (3 + len body) by lia. replace (2 + len body - 2) with (len body) by lia.
    eexists. split; [reflexivity|]. cbn [ltext lz intag rawtag lerr lbuf skip mv]. repeat split.
  - (* "</" + non-letter *)
    assert (Hc2 : c2 <> 62) by (subst body; inversion Hbody; assumption).
    destruct (text_loop_dispatch (lz l) 47 _ Hr Hcl) as [Hdisp|Hno].
    2:{ exfalso. apply Hno. right; right; right. split; [reflexivity|]. subst body. cbn [app]. eexists _, _. split; [reflexivity|exact Hc2]. }
    change (if is_letter 47 then DStartTag else if 47 =? 33 then DMarkup else if 47 =? 63 then DBogusQ else DEndTag) with DEndTag in Hdisp.
    rewrite Hdisp. cbn [rbind].
    rewrite (reads_pkr _ _ 0 c2 Hr2) by (subst body; apply peekz_cons_0). cbn [rbind]. rewrite Hnl. cbn [negb].
    rewrite (shift_bogus_run (lz l) 2 body rest Hw Hcl ltac:(lia) ltac:(lia) Hr2 Hbody). cbn [rbind fst snd]. rewrite Hp.
    replace (2 + len body + 1) with (3 + len body) by lia. replace (2 + len body - 2) with (len body) by lia.
    eexists. split; [reflexivity|]. cbn [ltext lz intag rawtag lerr lbuf skip mv]. repeat split.
Qed.

(* ---- constructs cut by the end of input --------------------------------------------------------------------------------- *)
Lemma reads_brk_eof z s : reads z s -> pkr (mv z (len s)) 0 = Ok 0 /\ eof0 (mv z (len s)) 0 = true.
Proof.
  intros Hr. split; [|apply (reads_eof0_end z s Hr)]. rewrite pkr_mv0. destruct (reads_end z s Hr) as [Hp _]. unfold pkr. rewrite Hp. reflexivity.
Qed.

Lemma comment_loop_eof z body : reads z body -> no_term [[45; 45; 62]; [45; 45; 33; 62]] body [] ->
  loop (fuel_of z) comment_body z = Ok (mv z (len body), 0).
Proof.
  intros Hr Hclean. pose proof (len_nonneg body). rewrite app_nil_r in Hclean || unfold no_term in Hclean.
  apply (loop_scan _ z (len body)); [lia| | |eapply fuel_of_enough; [exact Hr|lia]].
  - intros i Hi. destruct (peekz_in body i Hi) as (c & Hc & _).
    unfold comment_body. rewrite pkr_mv0, (reads_pkr z _ i c Hr Hc). cbn [rbind].
    rewrite (reads_eof0_in z _ i c Hr Hc).
    rewrite (reads_at z _ i [45; 45; 62] Hr) by (repeat constructor; lia || lia).
    pose proof (Hclean i Hi [45; 45; 62] ltac:(left; reflexivity)) as P1. rewrite app_nil_r in P1. rewrite P1. cbn [rbind].
    rewrite (reads_at z _ i [45; 45; 33; 62] Hr) by (repeat constructor; lia || lia).
    pose proof (Hclean i Hi [45; 45; 33; 62] ltac:(right; left; reflexivity)) as P2. rewrite app_nil_r in P2. rewrite P2. cbn [rbind].
    rewrite mv_mv. reflexivity.
  - destruct (reads_brk_eof z body Hr) as [Hp He]. unfold comment_body. rewrite Hp. cbn [rbind]. rewrite He. reflexivity.
Qed.

Lemma cdata_loop_eof z body : reads z body -> no_term [[93; 93; 62]] body [] ->
  loop (fuel_of z) cdata_body z = Ok (mv z (len body), 0).
Proof.
  intros Hr Hclean. pose proof (len_nonneg body).
  apply (loop_scan _ z (len body)); [lia| | |eapply fuel_of_enough; [exact Hr|lia]].
  - intros i Hi. destruct (peekz_in body i Hi) as (c & Hc & _).
    unfold cdata_body. rewrite pkr_mv0, (reads_pkr z _ i c Hr Hc). cbn [rbind].
    rewrite (reads_eof0_in z _ i c Hr Hc).
    rewrite (reads_at z _ i [93; 93; 62] Hr) by (repeat constructor; lia || lia).
    pose proof (Hclean i Hi [93; 93; 62] ltac:(left; reflexivity)) as P1. rewrite app_nil_r in P1. rewrite P1. cbn [rbind].
    rewrite mv_mv. reflexivity.
  - destruct (reads_brk_eof z body Hr) as [Hp He]. unfold cdata_body. rewrite Hp. cbn [rbind]. rewrite He. reflexivity.
Qed.

(* scanning loops "'>' -> (z,1); end of input -> (z,0); else next byte" *)
Lemma gt_loop_eof (body : lx -> res (lp lx (lx * Z))) z bs :
  (forall zz, body zz = (c <-- pkr zz 0 ;; if c =? 62 then Ok (Brk (zz, 1)) else if eof0 zz c then Ok (Brk (zz, 0)) else Ok (Cont (mv zz 1)))) ->
  reads z bs -> Forall (fun c => c <> 62) bs -> loop (fuel_of z) body z = Ok (mv z (len bs), 0).
Proof.
  intros Hbody Hr Hb. pose proof (len_nonneg bs).
  apply (loop_scan _ z (len bs)); [lia| | |eapply fuel_of_enough; [exact Hr|lia]].
  - intros i Hi. destruct (peekz_in bs i Hi) as (c & Hc & Hin). rewrite Forall_forall in Hb. specialize (Hb c Hin).
    rewrite Hbody, pkr_mv0, (reads_pkr z _ i c Hr Hc). cbn [rbind].
    replace (c =? 62) with false by (symmetry; apply Z.eqb_neq; exact Hb).
    rewrite (reads_eof0_in z _ i c Hr Hc). rewrite mv_mv. reflexivity.
  - destruct (reads_brk_eof z bs Hr) as [Hp He]. rewrite Hbody, Hp. cbn [rbind Z.eqb]. rewrite He. reflexivity.
Qed.

Lemma bogus_loop_eof z bs : reads z bs -> Forall (fun c => c <> 62) bs -> loop (fuel_of z) bogus_body z = Ok (mv z (len bs), 0).
Proof. apply gt_loop_eof. intros zz. reflexivity. Qed.

Lemma endtag_loop_eof z bs : reads z bs -> Forall (fun c => c <> 62) bs -> loop (fuel_of z) endtag_body z = Ok (mv z (len bs), 0).
Proof. apply gt_loop_eof. intros zz. reflexivity. Qed.

Lemma doctype_loop_eof z bs : reads z bs -> Forall (fun c => c <> 62) bs -> loop (fuel_of z) doctype_body z = Ok (mv z (len bs), 0).
Proof.
  intros Hr Hb. pose proof (len_nonneg bs).
  apply (loop_scan _ z (len bs)); [lia| | |eapply fuel_of_enough; [exact Hr|lia]].
  - intros i Hi. destruct (peekz_in bs i Hi) as (c & Hc & Hin). rewrite Forall_forall in Hb. specialize (Hb c Hin).
    unfold doctype_body. rewrite pkr_mv0, (reads_pkr z _ i c Hr Hc). cbn [rbind].
    replace (c =? 62) with false by (symmetry; apply Z.eqb_neq; exact Hb). cbn [orb].
    rewrite (reads_eof0_in z _ i c Hr Hc). rewrite mv_mv. reflexivity.
  - destruct (reads_brk_eof z bs Hr) as [Hp He]. unfold doctype_body. rewrite Hp. cbn [rbind Z.eqb orb]. rewrite He. reflexivity.
Qed.

(* "<!--" body : one Comment token to the end of input *)
Lemma next_comment_cut d l pre body :
  at_input d l pre (60 :: 33 :: 45 :: 45 :: body) -> intag l = false -> rawtag l = 0 ->
  no_term [[45; 45; 62]; [45; 45; 33; 62]] body [] ->
  exists l', next no_tmpl l = Ok (CommentT, Some (mkSl (len pre) (4 + len body)), l') /\
    ltext l' = Some (mkSl (len pre + 4) (len body)) /\ lbuf (lz l') = lbuf (lz l) /\
    intag l' = false /\ rawtag l' = 0 /\ lerr l' = lerr l.
Proof.
  intros Hat Hit Hraw Hclean. pose proof (at_input_reads _ _ _ _ Hat) as Hr.
  destruct Hat as (Hi & Hcl & Hd & Hp). pose proof (len_nonneg body).
  assert (Hlen : len (60 :: 33 :: 45 :: 45 :: body) = 4 + len body) by (rewrite !len_cons; lia).
  unfold next. cbn [lz rawtag intag lerr ltext lattr lhas]. rewrite Hit, Hraw. cbn [Z.eqb negb].
  unfold next_content. cbn [lz rawtag intag lerr ltext lattr lhas].
  destruct (text_loop_dispatch (lz l) 33 _ Hr Hcl) as [Hdisp|Hno]; [|exfalso; apply Hno; tauto].
  change (if is_letter 33 then DStartTag else if 33 =? 33 then DMarkup else if 33 =? 63 then DBogusQ else DEndTag) with DMarkup in Hdisp.
  rewrite Hdisp. cbn [rbind]. unfold read_markup.
  rewrite (reads_at (lz l) _ 2 [45; 45] Hr) by (repeat constructor; lia || lia).
  change (prefixb [45; 45] (skipz 2 (60 :: 33 :: 45 :: 45 :: body))) with true. cbn [rbind].
  pose proof (reads_mv _ _ 4 Hr ltac:(lia)) as Hr4.
  change (skipz 4 (60 :: 33 :: 45 :: 45 :: body)) with body in Hr4.
  rewrite (mv_mv (lz l) 2 2). change (2 + 2) with 4.
  unfold with_tmpl_lx; rewrite loop_with_no_tmpl; rewrite (loop_fuel_mono _ _ (fuel_of (mv (lz l) 2)) _ _ (comment_loop_eof _ body Hr4 Hclean))
    by (unfold fuel_of; cbn [mv lbuf lpos]; lia).
  cbn [rbind fst snd]. rewrite mv_0.
  destruct Hr4 as [Hw4 Hrem4].
  destruct (rem_mv _ (len body) Hw4) as [_ Hw5]; [rewrite Hrem4; lia|].
  rewrite lexeme_from_spec by (exact Hw5 || (cbn [mv lpos lstart]; lia)). cbn [rbind].
  rewrite shiftv_spec by exact Hw5. cbn [rbind fst snd mv lstart lpos so sn]. rewrite Hcl, Hp.
  replace (len pre + 4 + len body - len pre) with (4 + len body) by lia.
  replace (4 + len body - 4) with (len body) by lia.
  eexists. split; [reflexivity|]. cbn [ltext lz intag rawtag lerr lbuf skip mv]. repeat split.
Qed.

(* "<![CDATA[" body : one Text token to the end of input *)
Lemma next_cdata_cut d l pre body :
  at_input d l pre (60 :: 33 :: 91 :: 67 :: 68 :: 65 :: 84 :: 65 :: 91 :: body) -> intag l = false -> rawtag l = 0 ->
  no_term [[93; 93; 62]] body [] ->
  exists l', next no_tmpl l = Ok (TextT, Some (mkSl (len pre) (9 + len body)), l') /\
    ltext l' = Some (mkSl (len pre + 9) (len body)) /\ lbuf (lz l') = lbuf (lz l) /\
    intag l' = false /\ rawtag l' = 0 /\ lerr l' = lerr l.
Proof.
  intros Hat Hit Hraw Hclean. pose proof (at_input_reads _ _ _ _ Hat) as Hr.
  destruct Hat as (Hi & Hcl & Hd & Hp). pose proof (len_nonneg body).
  assert (Hlen : len (60 :: 33 :: 91 :: 67 :: 68 :: 65 :: 84 :: 65 :: 91 :: body) = 9 + len body) by (rewrite !len_cons; lia).
  unfold next. cbn [lz rawtag intag lerr ltext lattr lhas]. rewrite Hit, Hraw. cbn [Z.eqb negb].
  unfold next_content. cbn [lz rawtag intag lerr ltext lattr lhas].
  destruct (text_loop_dispatch (lz l) 33 _ Hr Hcl) as [Hdisp|Hno]; [|exfalso; apply Hno; tauto].
  change (if is_letter 33 then DStartTag else if 33 =? 33 then DMarkup else if 33 =? 63 then DBogusQ else DEndTag) with DMarkup in Hdisp.
  rewrite Hdisp. cbn [rbind]. unfold read_markup.
  rewrite (reads_at (lz l) _ 2 [45; 45] Hr) by (repeat constructor; lia || lia).
  change (prefixb [45; 45] (skipz 2 (60 :: 33 :: 91 :: 67 :: 68 :: 65 :: 84 :: 65 :: 91 :: body))) with false. cbn [rbind].
  rewrite (reads_at (lz l) _ 2 [91; 67; 68; 65; 84; 65; 91] Hr) by (repeat constructor; lia || lia).
  change (prefixb [91; 67; 68; 65; 84; 65; 91] (skipz 2 (60 :: 33 :: 91 :: 67 :: 68 :: 65 :: 84 :: 65 :: 91 :: body))) with true. cbn [rbind].
  pose proof (reads_mv _ _ 9 Hr ltac:(lia)) as Hr9.
  change (skipz 9 (60 :: 33 :: 91 :: 67 :: 68 :: 65 :: 84 :: 65 :: 91 :: body)) with body in Hr9.
  rewrite (mv_mv (lz l) 2 7). change (2 + 7) with 9.
  unfold with_tmpl_lx; rewrite loop_with_no_tmpl; rewrite (loop_fuel_mono _ _ (fuel_of (mv (lz l) 2)) _ _ (cdata_loop_eof _ body Hr9 Hclean))
    by (unfold fuel_of; cbn [mv lbuf lpos]; lia).
  cbn [rbind fst snd]. rewrite mv_0.
  destruct Hr9 as [Hw9 Hrem9].
  destruct (rem_mv _ (len body) Hw9) as [_ Hw5]; [rewrite Hrem9; lia|].
  rewrite lexeme_from_spec by (exact Hw5 || (cbn [mv lpos lstart]; lia)). cbn [rbind].
  rewrite shiftv_spec by exact Hw5. cbn [rbind fst snd mv lstart lpos so sn]. rewrite Hcl, Hp.
  replace (len pre + 9 + len body - len pre) with (9 + len body) by lia.
  replace (9 + len body - 9) with (len body) by lia.
  eexists. split; [reflexivity|]. cbn [ltext lz intag rawtag lerr lbuf skip mv]. repeat split.
Qed.

(* "<!doctype" after : one Doctype token to the end of input *)
Lemma next_doctype_cut d l pre x0 x1 x2 x3 x4 x5 x6 after :
  let dt := [x0; x1; x2; x3; x4; x5; x6] in
  at_input d l pre (60 :: 33 :: dt ++ after) -> intag l = false -> rawtag l = 0 ->
  Forall2 ci_eq dt [100; 111; 99; 116; 121; 112; 101] -> Forall (fun c => c <> 62) after ->
  exists l', next no_tmpl l = Ok (DoctypeT, Some (mkSl (len pre) (9 + len after)), l') /\
    ltext l' = Some (mkSl (len pre + 9) (len after)) /\ lbuf (lz l') = lbuf (lz l) /\
    intag l' = false /\ rawtag l' = 0 /\ lerr l' = lerr l.
Proof.
  intros dt Hat Hit Hraw Hdt Hafter. pose proof (at_input_reads _ _ _ _ Hat) as Hr.
  destruct Hat as (Hi & Hcl & Hd & Hp). pose proof (len_nonneg after).
  assert (Hdt7 : len dt = 7) by reflexivity.
  assert (Hd0 : x0 = 100 \/ x0 = 68) by (inversion Hdt as [|? ? ? ? Hx _]; subst; destruct Hx; lia).
  assert (Hlen : len (60 :: 33 :: dt ++ after) = 9 + len after) by (rewrite !len_cons, len_app; lia).
  unfold next. cbn [lz rawtag intag lerr ltext lattr lhas]. rewrite Hit, Hraw. cbn [Z.eqb negb].
  unfold next_content. cbn [lz rawtag intag lerr ltext lattr lhas].
  destruct (text_loop_dispatch (lz l) 33 _ Hr Hcl) as [Hdisp|Hno]; [|exfalso; apply Hno; tauto].
  change (if is_letter 33 then DStartTag else if 33 =? 33 then DMarkup else if 33 =? 63 then DBogusQ else DEndTag) with DMarkup in Hdisp.
  rewrite Hdisp. cbn [rbind]. unfold read_markup.
  pose proof (reads_mv _ _ 2 Hr ltac:(lia)) as Hr2.
  change (skipz 2 (60 :: 33 :: dt ++ after)) with (dt ++ after) in Hr2.
  assert (Hat1 : at_ (mv (lz l) 2) [45; 45] = Ok false).
  { destruct Hr2 as [Hw2 Hrem2]. rewrite (at_rem (mv (lz l) 2) [45; 45] ltac:(repeat constructor; lia) Hw2). rewrite Hrem2. unfold dt. cbn [app prefixb].
    destruct Hd0 as [-> | -> ]; reflexivity. }
  assert (Hat2 : at_ (mv (lz l) 2) [91; 67; 68; 65; 84; 65; 91] = Ok false).
  { destruct Hr2 as [Hw2 Hrem2]. rewrite (at_rem (mv (lz l) 2) [91; 67; 68; 65; 84; 65; 91] ltac:(repeat constructor; lia) Hw2). rewrite Hrem2. unfold dt. cbn [app prefixb].
    destruct Hd0 as [-> | -> ]; reflexivity. }
  rewrite Hat1. cbn [rbind]. rewrite Hat2. cbn [rbind].
  rewrite (atci_from_reads _ _ Hr2 _ dt 0); [|lia|exact Hdt|repeat constructor; lia|].
  2:{ unfold skipz, dt. cbn [Z.to_nat skipn app prefixb]. rewrite !Z.eqb_refl. reflexivity. }
  cbn [rbind].
  pose proof (reads_mv _ _ 7 Hr2 ltac:(rewrite len_app; lia)) as Hr9.
  replace (skipz 7 (dt ++ after)) with after in Hr9 by reflexivity.
  set (z7 := mv (mv (lz l) 2) 7) in *.
  assert (Hloop : forall c0, pkr z7 0 = Ok c0 ->
     loop (fuel_of (if c0 =? 32 then mv z7 1 else z7)) doctype_body (if c0 =? 32 then mv z7 1 else z7) = Ok (mv z7 (len after), 0)).
  { intros c0 Hc0. destruct (c0 =? 32) eqn:E32; [|apply (doctype_loop_eof z7 after); assumption].
    apply Z.eqb_eq in E32. subst c0. destruct after as [|a0 after'].
    - destruct (reads_end z7 [] Hr9) as [Hp0 _]. change (len (@nil Z)) with 0 in Hp0. unfold pkr in Hc0. rewrite Hp0 in Hc0. discriminate.
    - rewrite (reads_pkr z7 _ 0 a0 Hr9) in Hc0 by apply peekz_cons_0. injection Hc0 as ->.
      pose proof (reads_mv _ _ 1 Hr9 ltac:(rewrite len_cons; pose proof (len_nonneg after'); lia)) as Hr10.
      change (skipz 1 (32 :: after')) with after' in Hr10.
      rewrite (doctype_loop_eof _ after' Hr10) by (inversion Hafter; assumption).
      rewrite mv_mv, len_cons. reflexivity. }
  destruct (pkr0 z7 (proj1 Hr9)) as (c0 & Hc0 & _). rewrite Hc0. cbn [rbind]. unfold with_tmpl_lx; rewrite loop_with_no_tmpl. rewrite (Hloop c0 Hc0). cbn [rbind fst snd]. rewrite mv_0.
  destruct Hr9 as [Hw9 Hrem9].
  destruct (rem_mv _ (len after) Hw9) as [_ Hw5]; [rewrite Hrem9; lia|].
  rewrite lexeme_from_spec by (exact Hw5 || (unfold z7; cbn [mv lpos lstart]; lia)). cbn [rbind].
  rewrite shiftv_spec by exact Hw5. unfold z7. cbn [rbind fst snd mv lstart lpos so sn]. rewrite Hcl, Hp.
  replace (len pre + 2 + 7 + len after - len pre) with (9 + len after) by lia.
  replace (9 + len after - 9) with (len after) by lia.
  eexists. split; [reflexivity|]. cbn [ltext lz intag rawtag lerr lbuf skip mv]. repeat split.
Qed.

(* bogus comments cut by the end of input *)
Lemma shift_bogus_eof z k bs : lx_wf z -> lstart z = lpos z -> 0 <= k -> 2 <= k + len bs ->
  reads (mv z k) bs -> Forall (fun c => c <> 62) bs ->
  forall has, shift_bogus no_tmpl (mv z k) has = Ok (mkSl (lpos z) (k + len bs), mkSl (lpos z + 2) (k + len bs - 2), skip (mv z (k + len bs)), has).
Proof.
  intros Hw Hcl Hk H2 Hr Hb has. pose proof (len_nonneg bs).
  unfold shift_bogus. unfold with_tmpl_lx; rewrite loop_with_no_tmpl; rewrite (bogus_loop_eof _ bs Hr Hb). cbn [rbind fst snd]. rewrite mv_0.
  destruct Hr as [Hwk Hrem].
  destruct (rem_mv _ (len bs) Hwk) as [_ Hw1]; [rewrite Hrem; lia|].
  rewrite lexeme_from_spec by (exact Hw1 || (cbn [mv lpos lstart]; lia)). cbn [rbind].
  rewrite shiftv_spec by exact Hw1. cbn [rbind fst snd mv lstart lpos lbuf skip]. rewrite Hcl.
  do 4 f_equal; [f_equal; lia|f_equal; lia|].
  rewrite !mv_mv. reflexivity.
Qed.

Definition bogus_open_cut (c1 : Z) (body : list Z) : Prop :=
  c1 = 63 \/
  (c1 = 33 /\ prefixb [45; 45] body = false /\ prefixb [91; 67; 68; 65; 84; 65; 91] body = false /\
     cipre [100; 111; 99; 116; 121; 112; 101] body = false) \/
  (c1 = 47 /\ exists c2 r, body = c2 :: r /\ is_letter c2 = false).

Lemma next_bogus_cut d l pre c1 body :
  at_input d l pre (60 :: c1 :: body) -> intag l = false -> rawtag l = 0 ->
  bogus_open_cut c1 body -> Forall (fun c => c <> 62) body ->
  exists l', next no_tmpl l = Ok (CommentT, Some (mkSl (len pre) (2 + len body)), l') /\
    ltext l' = Some (mkSl (len pre + 2) (len body)) /\ lbuf (lz l') = lbuf (lz l) /\
    intag l' = false /\ rawtag l' = 0 /\ lerr l' = lerr l.
Proof.
  intros Hat Hit Hraw Hopen Hbody. pose proof (at_input_reads _ _ _ _ Hat) as Hr.
  destruct Hat as (Hi & Hcl & Hd & Hp). pose proof Hi as ((Hw & _) & _).
  pose proof (len_nonneg body).
  assert (Hlen : len (60 :: c1 :: body) = 2 + len body) by (rewrite !len_cons; lia).
  unfold next. cbn [lz rawtag intag lerr ltext lattr lhas]. rewrite Hit, Hraw. cbn [Z.eqb negb].
  unfold next_content. cbn [lz rawtag intag lerr ltext lattr lhas].
  pose proof (reads_mv _ _ 2 Hr ltac:(lia)) as Hr2.
  change (skipz 2 (60 :: c1 :: body)) with body in Hr2.
  destruct Hopen as [->|[(-> & Hnc & Hncd & Hnd)|(-> & c2 & r & Eb & Hnl)]].
  - destruct (text_loop_dispatch (lz l) 63 _ Hr Hcl) as [Hdisp|Hno]; [|exfalso; apply Hno; tauto].
    change (if is_letter 63 then DStartTag else if 63 =? 33 then DMarkup else if 63 =? 63 then DBogusQ else DEndTag) with DBogusQ in Hdisp.
    rewrite Hdisp. cbn [rbind].
    pose proof (reads_mv _ _ 1 Hr ltac:(lia)) as Hr1.
    change (skipz 1 (60 :: 63 :: body)) with (63 :: body) in Hr1.
    rewrite (shift_bogus_eof (lz l) 1 (63 :: body) Hw Hcl ltac:(lia) ltac:(rewrite len_cons; lia) Hr1)
      by (constructor; [discriminate|exact Hbody]).
    cbn [rbind fst snd]. rewrite len_cons, Hp.
    replace (1 + (1 + len body)) with (2 + len body) by lia. replace (2 + len body - 2) with (len body) by lia.
    eexists. split; [reflexivity|]. cbn [ltext lz intag rawtag lerr lbuf skip mv]. repeat split.
  - destruct (text_loop_dispatch (lz l) 33 _ Hr Hcl) as [Hdisp|Hno]; [|exfalso; apply Hno; tauto].
    change (if is_letter 33 then DStartTag else if 33 =? 33 then DMarkup else if 33 =? 63 then DBogusQ else DEndTag) with DMarkup in Hdisp.
    rewrite Hdisp. cbn [rbind]. unfold read_markup.
    rewrite (reads_at (lz l) _ 2 [45; 45] Hr) by (repeat constructor; lia || lia).
    change (skipz 2 (60 :: 33 :: body)) with body. rewrite Hnc. cbn [rbind].
    rewrite (reads_at (lz l) _ 2 [91; 67; 68; 65; 84; 65; 91] Hr) by (repeat constructor; lia || lia).
    change (skipz 2 (60 :: 33 :: body)) with body. rewrite Hncd. cbn [rbind].
    rewrite (atci_from_cipre _ _ Hr2) by (try lia; repeat constructor; lia).
    change (skipz 0 body) with body. rewrite Hnd. cbn [rbind].
    rewrite (shift_bogus_eof (lz l) 2 body Hw Hcl ltac:(lia) ltac:(lia) Hr2 Hbody). cbn [rbind fst snd]. rewrite Hp.
    replace (2 + len body - 2) with (len body) by lia.
    eexists. split; [reflexivity|]. cbn [ltext lz intag rawtag lerr lbuf skip mv]. repeat split.
  - assert (Hc2 : c2 <> 62) by (subst body; inversion Hbody; assumption).
    destruct (text_loop_dispatch (lz l) 47 _ Hr Hcl) as [Hdisp|Hno].
    2:{ exfalso. apply Hno. right; right; right. split; [reflexivity|]. subst body. eexists _, _. split; [reflexivity|exact Hc2]. }
    change (if is_letter 47 then DStartTag else if 47 =? 33 then DMarkup else if 47 =? 63 then DBogusQ else DEndTag) with DEndTag in Hdisp.
    rewrite Hdisp. cbn [rbind].
    rewrite (reads_pkr _ _ 0 c2 Hr2) by (subst body; apply peekz_cons_0). cbn [rbind]. rewrite Hnl. cbn [negb].
    rewrite (shift_bogus_eof (lz l) 2 body Hw Hcl ltac:(lia) ltac:(lia) Hr2 Hbody). cbn [rbind fst snd]. rewrite Hp.
    replace (2 + len body - 2) with (len body) by lia.
    eexists. split; [reflexivity|]. cbn [ltext lz intag rawtag lerr lbuf skip mv]. repeat split.
Qed.

(* "</" name ws cut by the end of input: one EndTag token *)
Lemma next_endtag_cut d l pre name ws :
  at_input d l pre (60 :: 47 :: name ++ ws) -> intag l = false -> rawtag l = 0 ->
  (exists c nm, name = c :: nm /\ is_letter c = true) -> Forall (fun c => is_tagend c = false) name ->
  Forall (fun c => is_ws c = true) ws ->
  exists l', next no_tmpl l = Ok (EndTagT, Some (mkSl (len pre) (2 + len name + len ws)), l') /\
    ltext l' = Some (mkSl (len pre + 2) (len name)) /\
    lbuf (lz l') = lower_view (lbuf (lz l)) (mkSl (len pre + 2) (len name)) /\
    intag l' = false /\ rawtag l' = 0 /\ lerr l' = lerr l.
Proof.
  intros Hat Hit Hraw (c & nm & Ename & Hlet) Hname Hws. pose proof (at_input_reads _ _ _ _ Hat) as Hr.
  destruct Hat as (Hi & Hcl & Hd & Hp).
  assert (Hno62 : Forall (fun c => c <> 62) (name ++ ws)).
  { apply Forall_app. split; [eapply Forall_impl; [|exact Hname]; cbn beta; intros a Ha; apply tagend_false in Ha; tauto|].
    eapply Forall_impl; [|exact Hws]. cbn. intros a Ha ->. discriminate. }
  unfold next. cbn [lz rawtag intag lerr ltext lattr lhas]. rewrite Hit, Hraw. cbn [Z.eqb negb].
  unfold next_content. cbn [lz rawtag intag lerr ltext lattr lhas].
  destruct (text_loop_dispatch (lz l) 47 (name ++ ws) Hr Hcl) as [Hdisp|Hno].
  2:{ exfalso. apply Hno. right; right; right. split; [reflexivity|]. subst name. cbn [app]. eexists _, _. split; [reflexivity|].
      intros ->. discriminate. }
  change (if is_letter 47 then DStartTag else if 47 =? 33 then DMarkup else if 47 =? 63 then DBogusQ else DEndTag) with DEndTag in Hdisp.
  rewrite Hdisp. cbn [rbind].
  pose proof (len_nonneg name). pose proof (len_nonneg ws). pose proof (len_nonneg (name ++ ws)).
  assert (Hlenall : len (60 :: 47 :: name ++ ws) = 2 + len name + len ws) by (rewrite !len_cons, len_app; lia).
  pose proof (reads_mv _ _ 2 Hr ltac:(lia)) as Hr2.
  change (skipz 2 (60 :: 47 :: name ++ ws)) with (name ++ ws) in Hr2.
  rewrite (reads_pkr _ _ 0 c Hr2) by (subst name; apply peekz_cons_0). cbn [rbind]. rewrite Hlet. cbn [negb].
  unfold shift_endtag.
  unfold with_tmpl_lx; rewrite loop_with_no_tmpl; rewrite (endtag_loop_eof _ (name ++ ws) Hr2 Hno62). cbn [rbind fst snd]. rewrite mv_0.
  destruct Hr2 as [Hw2 Hrem2].
  destruct (rem_mv _ (len (name ++ ws)) Hw2) as [_ Hw3]; [rewrite Hrem2; lia|].
  rewrite lexeme_from_spec by (exact Hw3 || (cbn [mv lpos lstart]; lia)). cbn [rbind].
  rewrite shiftv_spec by exact Hw3. cbn [rbind fst snd mv lstart lpos so sn lbuf].
  assert (Htrim : trim_end_len (view_bytes (lbuf (lz l)) (mkSl (lstart (lz l) + 2) (lpos (lz l) + 2 + len (name ++ ws) - lstart (lz l) - 2))) = len name).
  { unfold view_bytes. cbn [so sn]. rewrite Hcl.
    replace (lpos (lz l) + 2 + (lpos (lz l) + 2 + len (name ++ ws) - lpos (lz l) - 2)) with (lpos (lz l) + (2 + len (name ++ ws))) by lia.
    rewrite (reads_slice (lz l) _ 2 (2 + len (name ++ ws)) Hr) by (rewrite ?len_app in *; lia).
    assert (Hs : slice (60 :: 47 :: name ++ ws) 2 (2 + len (name ++ ws)) = name ++ ws).
    { pose proof (slice_mid' [60; 47] (name ++ ws) []) as E. rewrite app_nil_r in E. exact E. }
    rewrite Hs. apply trim_end_len_app; [exact Hws|]. eapply Forall_impl; [|exact Hname]. cbn beta. intros a Ha. apply tagend_false in Ha. tauto. }
  rewrite Htrim.
  assert (Hname_run : name_run [] (skipz 2 (view_bytes (lbuf (lz l)) (mkSl (lstart (lz l)) (lpos (lz l) + 2 + len (name ++ ws) - lstart (lz l))))) = len name).
  { unfold view_bytes. cbn [so sn]. rewrite Hcl.
    replace (lpos (lz l) + (lpos (lz l) + 2 + len (name ++ ws) - lpos (lz l))) with (lpos (lz l) + (2 + len (name ++ ws))) by lia.
    pose proof (reads_slice (lz l) _ 0 (2 + len (name ++ ws)) Hr ltac:(lia) ltac:(rewrite ?len_app in *; lia)) as Hsl.
    rewrite Z.add_0_r in Hsl. rewrite Hsl.
    assert (Hs : slice (60 :: 47 :: name ++ ws) 0 (2 + len (name ++ ws)) = 60 :: 47 :: name ++ ws).
    { replace (2 + len (name ++ ws)) with (len (60 :: 47 :: name ++ ws)) by (rewrite !len_cons; lia).
      pose proof (slice_app_first (60 :: 47 :: name ++ ws) []) as E. rewrite app_nil_r in E. exact E. }
    rewrite Hs. change (skipz 2 (60 :: 47 :: name ++ ws)) with (name ++ ws).
    apply name_run_app; [exact Hname|]. destruct ws as [|w ws']; [left; reflexivity|right].
    exists w, ws'. split; [reflexivity|]. apply is_tagend_ws. inversion Hws; assumption. }
  change (tb no_tmpl) with (@nil Z). rewrite Hname_run. rewrite len_app. rewrite Hcl, Hp.
  replace (len pre + 2 + (len name + len ws) - len pre) with (2 + len name + len ws) by lia.
  replace (2 <=? 2 + len name + len ws) with true by (symmetry; apply Z.leb_le; lia).
  eexists. split; [reflexivity|].
  cbn [ltext lz intag rawtag lerr lx_lower lbuf skip mv]. repeat split.
Qed.

(* text that ends with '<' or "</" at the end of input: the '<' opens nothing and belongs to the text *)
Lemma text_loop_text_lt z t tl : reads z (t ++ tl) -> lstart z = lpos z -> Forall (fun c => c <> 60) t ->
  (tl = [60] \/ tl = [60; 47]) ->
  loop (fuel_of z) (text_body no_tmpl) z = Ok (mv z (len t + len tl), DText).
Proof.
  intros Hr Hcl Ht Htl. pose proof (len_nonneg t) as Hlt. pose proof (len_nonneg tl).
  assert (Htl1 : 1 <= len tl <= 2) by (destruct Htl as [-> | ->]; cbn; lia).
  assert (Hall : len (t ++ tl) = len t + len tl) by apply len_app.
  apply (loop_scan _ z (len t + len tl)); [lia| | |eapply fuel_of_enough; [exact Hr|lia]].
  - intros i Hi. unfold text_body. rewrite pkr_mv0.
    destruct (Z.lt_ge_cases i (len t)) as [Hlo|Hhi].
    + destruct (peekz_in t i ltac:(lia)) as (c & Hc & Hin). rewrite Forall_forall in Ht. specialize (Ht c Hin).
      rewrite (reads_pkr z _ i c Hr (peekz_app_l' _ _ _ _ Hc)). cbn [rbind]. rewrite tmpl_at_none. cbn [rbind].
      replace (c =? 60) with false by (symmetry; apply Z.eqb_neq; exact Ht).
      rewrite (reads_eof0_in z _ i c Hr (peekz_app_l' _ _ _ _ Hc)). rewrite mv_mv. reflexivity.
    + destruct (Z.eq_dec i (len t)) as [->|Hne].
      * (* the '<' *)
        rewrite (reads_pkr z _ (len t) 60 Hr) by (rewrite peekz_app_r0; destruct Htl as [-> | ->]; apply peekz_cons_0).
        cbn [rbind]. rewrite tmpl_at_none. cbn [rbind Z.eqb Pos.eqb]. rewrite pkr_mv.
        destruct Htl as [-> | ->].
        -- change (len [60]) with 1 in *. destruct (reads_end z _ Hr) as [Hpe _]. rewrite Hall in Hpe. change (len [60]) with 1 in Hpe.
           unfold pkr. rewrite Hpe. cbn [opt_res rbind Z.eqb]. cbn. rewrite mv_mv. reflexivity.
        -- rewrite (reads_pkr z _ (len t + 1) 47 Hr) by (rewrite peekz_app_rk by lia; apply peekz_1). cbn [rbind Z.eqb Pos.eqb].
           rewrite pkr_mv. change (len [60; 47]) with 2 in *. destruct (reads_end z _ Hr) as [Hpe Hend]. rewrite Hall in Hpe, Hend. change (len [60; 47]) with 2 in Hpe, Hend.
           unfold pkr. rewrite Hpe. cbn [opt_res rbind Z.eqb negb andb orb].
           assert (Hae : at_end_i (mv z (len t)) 2 = true) by (unfold at_end_i; apply Z.leb_le; cbn [mv lpos lbuf]; unfold lx_len in *; cbn [mv lbuf]; lia).
           rewrite Hae. cbn. rewrite mv_mv. reflexivity.
      * (* the '/' of "</" *)
        destruct Htl as [-> | ->]; [change (len [60]) with 1 in *; lia|]. change (len [60; 47]) with 2 in *.
        assert (i = len t + 1) by lia. subst i.
        rewrite (reads_pkr z _ (len t + 1) 47 Hr) by (rewrite peekz_app_rk by lia; apply peekz_1). cbn [rbind]. rewrite tmpl_at_none. cbn [rbind Z.eqb Pos.eqb].
        rewrite (reads_eof0_in z _ (len t + 1) 47 Hr) by (rewrite peekz_app_rk by lia; apply peekz_1). rewrite mv_mv. reflexivity.
  - assert (Hmark : (0 <? mark (mv z (len t + len tl))) = true) by (unfold mark; cbn [mv lpos lstart]; apply Z.ltb_lt; lia).
    rewrite <- Hall. destruct (reads_brk_eof z _ Hr) as [Hpe He]. unfold text_body. rewrite Hpe. cbn [rbind]. rewrite tmpl_at_none. cbn [rbind Z.eqb].
    rewrite He. rewrite Hall, Hmark. reflexivity.
Qed.

Lemma next_text_lt d l pre t tl : at_input d l pre (t ++ tl) -> intag l = false -> rawtag l = 0 ->
  Forall (fun c => c <> 60) t -> (tl = [60] \/ tl = [60; 47]) ->
  exists l', next no_tmpl l = Ok (TextT, Some (mkSl (len pre) (len t + len tl)), l') /\
    ltext l' = Some (mkSl (len pre) (len t + len tl)) /\ lbuf (lz l') = lbuf (lz l) /\
    intag l' = false /\ rawtag l' = 0 /\ lerr l' = lerr l.
Proof.
  intros Hat Hit Hraw Ht Htl. pose proof (at_input_reads _ _ _ _ Hat) as Hr.
  destruct Hat as (Hi & Hcl & Hd & Hp).
  unfold next. cbn [lz rawtag intag lerr ltext lattr lhas]. rewrite Hit, Hraw. cbn [Z.eqb negb].
  unfold next_content. cbn [lz rawtag intag lerr ltext lattr lhas].
  rewrite (text_loop_text_lt _ t tl Hr Hcl Ht Htl). cbn [rbind].
  pose proof (len_nonneg t). pose proof (len_nonneg tl).
  destruct (reads_mv _ _ (len t + len tl) Hr) as [Hw2 _]; [rewrite len_app; lia|].
  rewrite shiftv_spec by exact Hw2. cbn [rbind fst snd mv lstart lpos].
  rewrite Hcl, Hp. replace (len pre + (len t + len tl) - len pre) with (len t + len tl) by lia.
  eexists. split; [reflexivity|]. cbn [ltext lz intag rawtag lerr skip lbuf mv]. repeat split.
Qed.

(* ---- without delimiters HasTemplate() stays false ------------------------------------------------------------------------ *)
Ltac dbind H x E := match type of H with rbind ?e _ = _ => destruct e as [x| |] eqn:E; cbn [rbind] in H; try discriminate end.

Lemma wt_flag {S R} (cur : S -> lx) (setc : S -> lx -> S) (body : S -> res (lp S R)) fuel s h rh :
  loop fuel (with_tmpl no_tmpl cur setc body) (s, h) = Ok rh -> snd rh = h.
Proof.
  rewrite loop_with_no_tmpl. destruct (loop fuel body s); cbn [rbind]; try discriminate. intros H. injection H as <-. reflexivity.
Qed.

Lemma shift_bogus_flag z h r : shift_bogus no_tmpl z h = Ok r -> snd r = h.
Proof.
  unfold shift_bogus, with_tmpl_lx. intros H. dbind H rh El. apply wt_flag in El. dbind H t Et. dbind H s Es.
  injection H as <-. exact El.
Qed.

Lemma shift_endtag_flag z h r : shift_endtag no_tmpl z h = Ok r -> snd r = h.
Proof.
  unfold shift_endtag, with_tmpl_lx. intros H. dbind H rh El. apply wt_flag in El. dbind H t Et. cbn zeta in H. dbind H s Es.
  destruct (2 <=? sn (fst s)); [|discriminate]. injection H as <-. exact El.
Qed.

Lemma read_markup_flag z h r : read_markup no_tmpl z h = Ok r -> snd r = h.
Proof.
  unfold read_markup, with_tmpl_lx. intros H. dbind H a Ea. destruct a.
  { dbind H rh El. apply wt_flag in El. cbn zeta in H. dbind H t Et. dbind H s Es. injection H as <-. exact El. }
  dbind H a2 Ea2. destruct a2.
  { dbind H rh El. apply wt_flag in El. cbn zeta in H. dbind H t Et. dbind H s Es. injection H as <-. exact El. }
  dbind H a3 Ea3. destruct a3.
  { cbn zeta in H. dbind H c0 Ec. dbind H rh El. apply wt_flag in El. dbind H t Et. dbind H s Es. injection H as <-. exact El. }
  dbind H b Eb. injection H as <-. exact (shift_bogus_flag _ _ _ Eb).
Qed.

Lemma shift_xml_flag raw z e h r : shift_xml no_tmpl raw z e h = Ok r -> snd r = h.
Proof.
  unfold shift_xml, with_tmpl_lx. intros H. dbind H rh El. apply wt_flag in El. destruct rh as [[z'|z'] h1]; cbn [fst snd] in *; subst h1.
  - dbind H rh2 El2. apply wt_flag in El2. destruct rh2 as [[z''|z''] h2]; cbn [fst snd] in *; subst h2; dbind H s Es; injection H as <-; reflexivity.
  - dbind H s Es. injection H as <-. reflexivity.
Qed.

Lemma rawtext_loop_flag raw fuel z h r : loop fuel (rawtext_body no_tmpl raw) (z, h) = Ok r -> snd r = h.
Proof.
  intros H. refine (loop_inv (fun s => snd s = h) (fun r => snd r = h) (rawtext_body no_tmpl raw) _ fuel (z, h) r eq_refl H).
  clear. intros [z has] x Hs Hx. cbn [snd] in Hs. subst has. unfold rawtext_body in Hx. dbind Hx c0 Ec. rewrite skip_tmpl_none in Hx. cbn [rbind] in Hx.
  destruct (c0 =? 60).
  - dbind Hx c1 Ec1. destruct (c1 =? 47).
    + cbn zeta in Hx. dbind Hx z2 Ez. dbind Hx hh Eh. destruct (hh =? raw); [|injection Hx as <-; reflexivity].
      dbind Hx cc Ecc. destruct (is_tagend cc || eof0 z2 cc); injection Hx as <-; reflexivity.
    + dbind Hx sc Esc. destruct sc; [|injection Hx as <-; reflexivity].
      dbind Hx rr Er. unfold script_comment_loop_body in Er. apply wt_flag in Er. destruct rr as [[z'|z'] h']; cbn [snd] in Er; subst h'; injection Hx as <-; reflexivity.
  - destruct (eof0 z c0); injection Hx as <-; reflexivity.
Qed.

Lemma shift_rawtext_flag raw z h r : shift_rawtext no_tmpl raw z h = Ok r -> snd r = h.
Proof.
  unfold shift_rawtext, with_tmpl_lx. intros H. destruct (raw =? html_hash_Plaintext).
  - dbind H rh El. apply wt_flag in El. dbind H s Es. injection H as <-. exact El.
  - dbind H s El. apply rawtext_loop_flag in El. dbind H s2 Es. injection H as <-. exact El.
Qed.

Lemma attrname_loop_flag fuel s r : loop fuel (attrname_body no_tmpl) s = Ok r -> snd r = snd s.
Proof.
  intros H. refine (loop_inv (fun s' => snd s' = snd s) (fun r => snd r = snd s) (attrname_body no_tmpl) _ fuel s r eq_refl H).
  clear. intros [z has] x Hs Hx. cbn [snd] in Hs. unfold attrname_body in Hx. rewrite tmpl_at_none in Hx. cbn [rbind] in Hx.
  dbind Hx c0 Ec. dbind Hx b Eb. destruct b; injection Hx as <-; exact Hs.
Qed.

Lemma attrq_loop_flag q fuel s r : loop fuel (attrq_body no_tmpl q) s = Ok r -> snd r = snd s.
Proof.
  intros H. refine (loop_inv (fun s' => snd s' = snd s) (fun r => snd r = snd s) (attrq_body no_tmpl q) _ fuel s r eq_refl H).
  clear. intros [z has] x Hs Hx. cbn [snd] in Hs. unfold attrq_body in Hx. dbind Hx c0 Ec. rewrite tmpl_at_none in Hx. cbn [rbind] in Hx.
  destruct (c0 =? q); [injection Hx as <-; exact Hs|]. destruct (eof0 z c0); injection Hx as <-; exact Hs.
Qed.

Lemma shift_attribute_flag l z r : shift_attribute no_tmpl l z = Ok r -> lhas (snd r) = lhas l.
Proof.
  unfold shift_attribute. intros H. cbn zeta in H. rewrite tmpl_rep_guarded_none in H. cbn [rbind fst snd] in H.
  dbind H r1 E1. apply attrname_loop_flag in E1. cbn [snd] in E1. dbind H z2 Ez2. dbind H c0 Ec0.
  dbind H r3 E3. destruct r3 as [[z5 has5] av].
  assert (Hh5 : has5 = lhas l).
  { destruct (c0 =? 61); [|injection E3 as <- <- <-; exact E1].
    dbind E3 z3 Ez3. dbind E3 c1 Ec1. rewrite tmpl_at_none in E3. cbn [rbind] in E3.
    dbind E3 rr Er. dbind E3 v Ev. injection E3 as <- <- <-.
    destruct ((c1 =? 34) || (c1 =? 39)).
    - apply attrq_loop_flag in Er. cbn [snd] in Er. congruence.
    - unfold with_tmpl_lx in Er. apply wt_flag in Er. congruence. }
  rewrite tmpl_rep_guarded_none in H. cbn [rbind fst snd] in H. dbind H t Et. dbind H s Es. injection H as <-. cbn [snd lhas]. exact Hh5.
Qed.

Lemma shift_starttag_flag l z r : shift_starttag no_tmpl l z = Ok r -> lhas (snd r) = lhas l.
Proof.
  unfold shift_starttag. intros H. dbind H z1 E1. dbind H t Et. cbn zeta in H. dbind H h Eh.
  destruct (is_raw_hash h); [destruct (is_xml_hash h)|].
  - dbind H x Ex. destruct x as [[[dv z3] e] hx]. apply shift_xml_flag in Ex. cbn [snd] in Ex. subst hx. destruct e; injection H as <-; reflexivity.
  - dbind H s Es. injection H as <-. reflexivity.
  - dbind H s Es. injection H as <-. reflexivity.
Qed.

Lemma text_loop_not_tmpl fuel z r : loop fuel (text_body no_tmpl) z = Ok r -> snd r <> DTmpl.
Proof.
  intros H. refine (loop_inv (fun _ => True) (fun r => snd r <> DTmpl) (text_body no_tmpl) _ fuel z r I H).
  clear. intros s x _ Hx. unfold text_body in Hx. dbind Hx c0 Ec. rewrite tmpl_at_none in Hx. cbn [rbind] in Hx.
  destruct (c0 =? 60).
  - dbind Hx c1 Ec1. dbind Hx ie Eie.
    destruct (negb ie && negb (is_letter c1) && negb (c1 =? 33) && negb (c1 =? 63)); [injection Hx as <-; exact I|].
    destruct (0 <? mark s); [injection Hx as <-; cbn [snd]; discriminate|].
    destruct ie; [injection Hx as <-; cbn [snd]; discriminate|].
    destruct (is_letter c1); [injection Hx as <-; cbn [snd]; discriminate|].
    destruct (c1 =? 33); [injection Hx as <-; cbn [snd]; discriminate|].
    destruct (c1 =? 63); injection Hx as <-; [cbn [snd]; discriminate|exact I].
  - destruct (eof0 s c0); injection Hx as <-; [cbn [snd]; destruct (0 <? mark s); discriminate|exact I].
Qed.

Lemma next_content_flag l r : next_content no_tmpl l = Ok r -> lhas (snd r) = lhas l.
Proof.
  unfold next_content. intros H. dbind H rd El. pose proof (text_loop_not_tmpl _ _ _ El) as Hnt. destruct rd as [z dd]. cbn [snd] in Hnt.
  destruct dd; try congruence.
  - dbind H s Es. injection H as <-. reflexivity.
  - cbn zeta in H. dbind H c0 Ec. destruct (negb (is_letter c0)).
    + dbind H b Eb. injection H as <-. cbn [snd lhas]. exact (shift_bogus_flag _ _ _ Eb).
    + dbind H b Eb. injection H as <-. cbn [snd lhas]. exact (shift_endtag_flag _ _ _ Eb).
  - rewrite (shift_starttag_flag _ _ _ H). reflexivity.
  - dbind H m Em. destruct m as [[[[ty tk] tx] z'] has]. injection H as <-. cbn [snd lhas]. exact (read_markup_flag _ _ _ Em).
  - dbind H b Eb. injection H as <-. cbn [snd lhas]. exact (shift_bogus_flag _ _ _ Eb).
  - injection H as <-. reflexivity.
Qed.

Lemma next_no_tmpl_has l r : next no_tmpl l = Ok r -> lhas (snd r) = false.
Proof.
  unfold next. cbn [lz rawtag intag lerr ltext lattr lhas]. intros H. destruct (intag l).
  - unfold next_intag in H. cbn [lz rawtag intag lerr ltext lattr lhas] in H. dbind H z1 E1. dbind H c0 Ec.
    destruct (eof0 z1 c0); [injection H as <-; reflexivity|].
    dbind H ia Eia. destruct ia.
    + dbind H a Ea. injection H as <-. cbn [snd]. rewrite (shift_attribute_flag _ _ _ Ea). reflexivity.
    + dbind H s Es. injection H as <-. reflexivity.
  - destruct (negb (rawtag l =? 0)).
    + dbind H rr Er. destruct rr as [[v z] has]. apply shift_rawtext_flag in Er. cbn [snd] in Er. subst has.
      destruct (0 <? sn v); [injection H as <-; reflexivity|]. rewrite (next_content_flag _ _ H). reflexivity.
    + rewrite (next_content_flag _ _ H). reflexivity.
Qed.
