(* Html/Sim.v — configured delimiters are transparent where they do not occur: a call of Next that, without
   delimiters, reads a token over bytes at which no opening delimiter starts returns the same token, the same state
   and HasTemplate() = false when delimiters are configured. *)
From Verif Require Import Common.Base Common.Tactics Common.Lx Gen.Tables Html.Model Html.Lemmas Html.ListLemmas
     Html.Hash Html.Safety Html.Step Html.Spec Html.RawText Html.Func Html.Proofs Html.Views Html.Template Html.Wf Html.Script
     Html.TemplateMore Html.TemplateAll.
From Coq Require Import ZifyBool.

(* ---- two loops that agree on every state the first one visits ------------------------------------------------------------ *)
(* hd r bounds the cursor of the last loop head from above *)
Lemma loop_head_le {S R} (cur : S -> lx) (hd : R -> Z) (body : S -> res (lp S R)) :
  (forall s s', body s = Ok (Cont s') -> samele (cur s) (cur s')) ->
  (forall s r, body s = Ok (Brk r) -> lpos (cur s) <= hd r) ->
  forall fuel s r, loop fuel body s = Ok r -> lpos (cur s) <= hd r.
Proof.
  intros Hf Hh fuel. induction fuel as [|k IH]; intros s r H; [discriminate|]. cbn [loop] in H.
  destruct (body s) as [[s'|r']| |] eqn:E; cbn [rbind] in H; try discriminate.
  - pose proof (Hf s s' E) as [_ Hle]. specialize (IH s' r H). lia.
  - injection H as <-. exact (Hh s r' E).
Qed.

Lemma loop_sim {S R} (cur : S -> lx) (hd : R -> Z) (bodyC bodyN : S -> res (lp S R)) (z0 : lx) (hi : Z) :
  (forall s s', bodyN s = Ok (Cont s') -> samele (cur s) (cur s')) ->
  (forall s r, bodyN s = Ok (Brk r) -> lpos (cur s) <= hd r) ->
  (forall s x, samele z0 (cur s) -> bodyN s = Ok x -> (match x with Cont s' => lpos (cur s') | Brk r => hd r end) <= hi -> bodyC s = Ok x) ->
  forall fuel s r, samele z0 (cur s) -> loop fuel bodyN s = Ok r -> hd r <= hi -> loop fuel bodyC s = Ok r.
Proof.
  intros Hf Hh Hstep fuel. induction fuel as [|k IH]; intros s r Hs H Hhi; [discriminate|]. cbn [loop] in *.
  destruct (bodyN s) as [[s'|r']| |] eqn:E; cbn [rbind] in H; try discriminate.
  - pose proof (loop_head_le cur hd bodyN Hf Hh k s' r H) as Hle. assert (Hle' : lpos (cur s') <= hi) by lia.
    rewrite (Hstep s (Cont s') Hs E Hle'). cbn [rbind]. apply IH; [eapply samele_trans; [exact Hs|exact (Hf s s' E)]|exact H|exact Hhi].
  - injection H as <-. rewrite (Hstep s (Brk r') Hs E Hhi). reflexivity.
Qed.

Section Sim.
Variables (c : cfg) (d : list Z) (l : lexer) (hi : Z).
Hypothesis Hc : cfg_ok c.
Hypothesis Htb : tb c <> [].
Hypothesis Hb : binv d (lz l).
Hypothesis Hclean : forall i, lpos (lz l) <= i <= hi -> prefixb (tb c) (skipz i d) = false.

Lemma clean_at z c0 : samele (lz l) z -> pk z 0 = Some c0 -> lpos z <= hi -> tmpl_at c z = Ok false /\ skip_tmpl c z = Ok None.
Proof.
  intros [Hs Hle] Hp Hh.
  assert (Hlen : lpos z <= len d).
  { unfold pk in Hp. apply peekz_some in Hp. destruct Hs as [Hbf _]. rewrite Hbf in Hp. destruct Hb as (_ & Hl & _). unfold lx_len in Hl. lia. }
  rewrite (same_zat l z Hs).
  assert (E : tmpl_at c (zat l (lpos z)) = Ok false) by (rewrite (btmpl_at_zat c d l (lpos z) Hc Htb Hb ltac:(lia)), Hclean by lia; reflexivity).
  split; [exact E|]. unfold skip_tmpl. rewrite E. reflexivity.
Qed.

(* a loop whose first test is l.skipTemplate() *)
Definition body_facts {S R} (cur : S -> lx) (hd : R -> Z) (body : S -> res (lp S R)) : Prop :=
  forall s x, body s = Ok x ->
    (exists c0, pk (cur s) 0 = Some c0) /\ match x with Cont s' => samele (cur s) (cur s') | Brk r => lpos (cur s) <= hd r end.

Lemma with_tmpl_sim {S R} (cur : S -> lx) (setc : S -> lx -> S) (hd : R -> Z) (body : S -> res (lp S R)) :
  body_facts cur hd body ->
  forall fuel s h rh, samele (lz l) (cur s) -> loop fuel (with_tmpl no_tmpl cur setc body) (s, h) = Ok rh -> hd (fst rh) <= hi ->
  loop fuel (with_tmpl c cur setc body) (s, h) = Ok rh.
Proof.
  intros Hbf fuel s h rh Hs H Hhi.
  refine (loop_sim (fun sh : S * bool => cur (fst sh)) (fun r : R * bool => hd (fst r)) _ _ (lz l) hi _ _ _ fuel (s, h) rh Hs H Hhi).
  - intros [s1 h1] [s2 h2] E. cbn [fst]. unfold with_tmpl in E. rewrite skip_tmpl_none in E. cbn [rbind] in E.
    destruct (body s1) as [[s'|r']| |] eqn:Eb; cbn [rbind] in E; try discriminate. injection E as <- <-. exact (proj2 (Hbf s1 _ Eb)).
  - intros [s1 h1] [r1 h2] E. cbn [fst]. unfold with_tmpl in E. rewrite skip_tmpl_none in E. cbn [rbind] in E.
    destruct (body s1) as [[s'|r']| |] eqn:Eb; cbn [rbind] in E; try discriminate. injection E as <- <-. exact (proj2 (Hbf s1 _ Eb)).
  - intros [s1 h1] x Hs1 E Hbd. cbn [fst] in *. unfold with_tmpl in *. rewrite skip_tmpl_none in E. cbn [rbind] in E.
    destruct (body s1) as [x0| |] eqn:Eb; cbn [rbind] in E; try discriminate. injection E as <-.
    destruct (Hbf s1 x0 Eb) as [(c0 & Hp) Hx].
    assert (Hle : lpos (cur s1) <= hi) by (destruct x0 as [s'|r']; cbn [fst] in Hbd; [destruct Hx; lia|lia]).
    destruct (clean_at (cur s1) c0 Hs1 Hp Hle) as [_ Hsk]. rewrite Hsk. reflexivity.
Qed.

(* ---- the scanning loops ------------------------------------------------------------------------------------------------------ *)
Ltac body_start H z := unfold pkr at 1 in H; destruct (pk z 0) as [?c0|] eqn:?Ep; cbn [opt_res rbind] in H; [|discriminate].

Lemma comment_facts : body_facts (fun z : lx => z) (fun r : lx * Z => lpos (fst r)) comment_body.
Proof.
  intros s x H. pose proof (comment_fwd s x H) as Hf. unfold comment_body in H. body_start H s. split; [eauto|].
  destruct x as [s'|r]; [exact Hf|]. destruct (eof0 s c0); [injection H as <-; cbn; lia|].
  destruct (at_ s [45; 45; 62]) as [a| |]; cbn [rbind] in H; try discriminate. destruct a; [injection H as <-; cbn; lia|].
  destruct (at_ s [45; 45; 33; 62]) as [a| |]; cbn [rbind] in H; try discriminate. destruct a; [injection H as <-; cbn; lia|discriminate].
Qed.

Lemma cdata_facts : body_facts (fun z : lx => z) (fun r : lx * Z => lpos (fst r)) cdata_body.
Proof.
  intros s x H. pose proof (cdata_fwd s x H) as Hf. unfold cdata_body in H. body_start H s. split; [eauto|].
  destruct x as [s'|r]; [exact Hf|]. destruct (eof0 s c0); [injection H as <-; cbn; lia|].
  destruct (at_ s [93; 93; 62]) as [a| |]; cbn [rbind] in H; try discriminate. destruct a; [injection H as <-; cbn; lia|discriminate].
Qed.

Lemma doctype_facts : body_facts (fun z : lx => z) (fun r : lx * Z => lpos (fst r)) doctype_body.
Proof.
  intros s x H. pose proof (doctype_fwd s x H) as Hf. unfold doctype_body in H. body_start H s. split; [eauto|].
  destruct x as [s'|r]; [exact Hf|]. destruct ((c0 =? 62) || eof0 s c0); [injection H as <-; cbn; lia|discriminate].
Qed.

Lemma bogus_facts : body_facts (fun z : lx => z) (fun r : lx * Z => lpos (fst r)) bogus_body.
Proof.
  intros s x H. pose proof (bogus_fwd s x H) as Hf. unfold bogus_body in H. body_start H s. split; [eauto|].
  destruct x as [s'|r]; [exact Hf|]. destruct (c0 =? 62); [injection H as <-; cbn; lia|]. destruct (eof0 s c0); [injection H as <-; cbn; lia|discriminate].
Qed.

Lemma endtag_facts : body_facts (fun z : lx => z) (fun r : lx * Z => lpos (fst r)) endtag_body.
Proof.
  intros s x H. pose proof (endtag_fwd s x H) as Hf. unfold endtag_body in H. body_start H s. split; [eauto|].
  destruct x as [s'|r]; [exact Hf|]. destruct (c0 =? 62); [injection H as <-; cbn; lia|]. destruct (eof0 s c0); [injection H as <-; cbn; lia|discriminate].
Qed.

Lemma attru_facts : body_facts (fun z : lx => z) (fun r : lx => lpos r) attru_body.
Proof.
  intros s x H. unfold attru_body in H. body_start H s. split; [eauto|].
  destruct ((c0 =? 32) || (c0 =? 62) || (c0 =? 9) || (c0 =? 10) || (c0 =? 13) || (c0 =? 12) || eof0 s c0); injection H as <-; [lia|apply samele_mv; lia].
Qed.

Lemma plaintext_facts : body_facts (fun z : lx => z) (fun r : lx => lpos r) plaintext_body.
Proof.
  intros s x H. unfold plaintext_body in H. body_start H s. split; [eauto|].
  destruct (eof0 s c0); injection H as <-; [lia|apply samele_mv; lia].
Qed.

Lemma xml_facts raw : body_facts xml_cur (fun r : lx + lx => lpos (sum_cur r)) (xml_body raw).
Proof.
  intros s x H. pose proof (xml_fwd raw s x H) as Hf. split; [|destruct x; [exact Hf|destruct Hf; lia]].
  destruct s as [[[z it] q] sk]. unfold xml_cur. cbn [fst]. unfold xml_body in H. body_start H z. eauto.
Qed.

Lemma xml_close_facts : body_facts (fun z : lx => z) (fun r : lx + lx => match r with inl z' => lpos z' - 1 | inr z' => lpos z' end) xml_close_body.
Proof.
  intros s x H. unfold xml_close_body in H. body_start H s. split; [eauto|].
  destruct (c0 =? 62); [injection H as <-; cbn; lia|]. destruct (c0 =? 0); injection H as <-; [lia|apply samele_mv; lia].
Qed.

End Sim.

(* ---- list facts ---------------------------------------------------------------------------------------------------------------- *)
Lemma prefixb_app_true p : forall x r, prefixb p x = true -> prefixb p (x ++ r) = true.
Proof.
  induction p as [|y p IH]; intros x r H; [reflexivity|]. destruct x as [|b x]; [discriminate|]. cbn [prefixb app] in *.
  apply andb_true_iff in H. destruct H as [H1 H2]. rewrite H1, (IH x r H2). reflexivity.
Qed.

Lemma firstz_skipz_app {A} n (x : list A) : firstz n x ++ skipz n x = x.
Proof. unfold firstz, skipz. apply firstn_skipn. Qed.

Lemma skipz_succ {A} k (c : A) t : 0 <= k -> skipz (k + 1) (c :: t) = skipz k t.
Proof. intros Hk. unfold skipz. replace (Z.to_nat (k + 1)) with (S (Z.to_nat k)) by lia. reflexivity. Qed.

Lemma name_run_clean tb : forall bs, (forall k, 0 <= k < len bs -> prefixb tb (skipz k bs) = false) -> name_run tb bs = name_run [] bs.
Proof.
  induction bs as [|b t IH]; intros H; [reflexivity|]. cbn [name_run]. destruct (is_tagend b); [reflexivity|].
  assert (H0 : prefixb tb (b :: t) = false) by (apply (H 0); rewrite len_cons; pose proof (len_nonneg t); lia).
  destruct tb as [|x tb']; [f_equal; apply IH; intros k Hk; reflexivity|].
  rewrite H0. f_equal. apply IH. intros k Hk. rewrite <- (skipz_succ k b t) by lia. apply H. rewrite len_cons. lia.
Qed.

Lemma skipz_ge_nil {A} n (x : list A) : len x <= n -> skipz n x = [].
Proof. intros H. unfold skipz. apply skipn_all2. unfold len in H. lia. Qed.

(* ---- one call of Next --------------------------------------------------------------------------------------------------------- *)
Section Tok.
Variables (c : cfg) (d : list Z) (l : lexer) (hi : Z).
Hypothesis Hc : cfg_ok c.
Hypothesis Htb : tb c <> [].
Hypothesis Hb : binv d (lz l).
Hypothesis Hclean : forall i, lpos (lz l) <= i <= hi -> prefixb (tb c) (skipz i d) = false.

(* if everything up to the last byte is clean, so is the end of input *)
Definition hi2 : Z := if len d <=? hi + 1 then Z.max hi (len d) else hi.

Lemma hi_le_hi2 : hi <= hi2.
Proof. unfold hi2. destruct (len d <=? hi + 1); lia. Qed.

Lemma Hclean2 : forall i, lpos (lz l) <= i <= hi2 -> prefixb (tb c) (skipz i d) = false.
Proof.
  intros i Hi. unfold hi2 in Hi. destruct (len d <=? hi + 1) eqn:E; [|apply Hclean; lia]. apply Z.leb_le in E.
  destruct (Z.le_gt_cases i hi) as [Hle|Hgt]; [apply Hclean; lia|].
  rewrite skipz_ge_nil by lia. destruct (tb c); [congruence|reflexivity].
Qed.

Lemma same_len z : samele (lz l) z -> lx_len z = len d.
Proof. intros [[Hbf _] _]. destruct Hb as (_ & Hl & _). unfold lx_len in *. rewrite Hbf. exact Hl. Qed.

Lemma pk_le z c0 : samele (lz l) z -> pk z 0 = Some c0 -> lpos z <= len d.
Proof. intros Hs Hp. pose proof (same_len z Hs) as Hl. unfold pk in Hp. apply peekz_some in Hp. unfold lx_len in Hl. lia. Qed.

Lemma pk_lt z c0 : samele (lz l) z -> pk z 0 = Some c0 -> c0 <> 0 -> lpos z < len d.
Proof.
  intros Hs Hp Hc0. pose proof (pk_le z c0 Hs Hp) as Hle. destruct (Z.eq_dec (lpos z) (len d)) as [E|E]; [exfalso|lia].
  destruct Hs as [[Hbf _] _]. destruct Hb as (((d0 & Hd0) & _) & Hl & _). unfold pk in Hp. rewrite Z.add_0_r, Hbf, Hd0, E in Hp.
  unfold lx_len in Hl. rewrite Hd0, len_app in Hl. change (len [0]) with 1 in Hl.
  replace (len d) with (len d0) in Hp by lia. rewrite peekz_app_r0 in Hp. cbn in Hp. congruence.
Qed.

Lemma at_end_ge z : samele (lz l) z -> at_end z = true -> len d <= lpos z.
Proof. intros Hs He. pose proof (same_len z Hs). unfold at_end in He. apply Z.leb_le in He. lia. Qed.

(* the break position b of a scanning loop that ends the token at e = b + n: n >= 1, or the end of input *)
Lemma brk_hi2 zb c0 n : samele (lz l) zb -> pk zb 0 = Some c0 -> 0 <= n -> (n = 0 -> at_end zb = true) ->
  lpos zb + n - 1 <= hi -> lpos zb <= hi2.
Proof.
  intros Hs Hp Hn He Hh. pose proof hi_le_hi2. destruct (Z.eq_dec n 0) as [->|Hne]; [|lia].
  pose proof (at_end_ge zb Hs (He eq_refl)). pose proof (pk_le zb c0 Hs Hp). unfold hi2. destruct (len d <=? hi + 1) eqn:E; [lia|]. apply Z.leb_gt in E. lia.
Qed.

Definition scan_brk (body : lx -> res (lp lx (lx * Z))) : Prop :=
  forall s r, body s = Ok (Brk r) -> fst r = s /\ 0 <= snd r /\ (snd r = 0 -> at_end s = true).

Ltac body_start H z := unfold pkr at 1 in H; destruct (pk z 0) as [?c0|] eqn:?Ep; cbn [opt_res rbind] in H; [|discriminate].
Ltac eof0_true E := unfold eof0 in E; apply andb_true_iff in E; destruct E as [_ E]; exact E.

Lemma comment_brk : scan_brk comment_body.
Proof.
  intros s r H. unfold comment_body in H. body_start H s. destruct (eof0 s c0) eqn:E; [injection H as <-; cbn; split; [reflexivity|split; [lia|intros _; eof0_true E]]|].
  destruct (at_ s [45; 45; 62]) as [a| |]; cbn [rbind] in H; try discriminate. destruct a; [injection H as <-; cbn; split; [reflexivity|split; [lia|discriminate]]|].
  destruct (at_ s [45; 45; 33; 62]) as [a| |]; cbn [rbind] in H; try discriminate. destruct a; [injection H as <-; cbn; split; [reflexivity|split; [lia|discriminate]]|discriminate].
Qed.

Lemma cdata_brk : scan_brk cdata_body.
Proof.
  intros s r H. unfold cdata_body in H. body_start H s. destruct (eof0 s c0) eqn:E; [injection H as <-; cbn; split; [reflexivity|split; [lia|intros _; eof0_true E]]|].
  destruct (at_ s [93; 93; 62]) as [a| |]; cbn [rbind] in H; try discriminate. destruct a; [injection H as <-; cbn; split; [reflexivity|split; [lia|discriminate]]|discriminate].
Qed.

Lemma doctype_brk : scan_brk doctype_body.
Proof.
  intros s r H. unfold doctype_body in H. body_start H s. destruct (c0 =? 62) eqn:E62; cbn [orb] in H.
  - injection H as <-. cbn. split; [reflexivity|split; [lia|discriminate]].
  - destruct (eof0 s c0) eqn:E; [|discriminate]. injection H as <-. cbn. split; [reflexivity|split; [lia|intros _; eof0_true E]].
Qed.

Lemma bogus_brk : scan_brk bogus_body.
Proof.
  intros s r H. unfold bogus_body in H. body_start H s. destruct (c0 =? 62); [injection H as <-; cbn; split; [reflexivity|split; [lia|discriminate]]|].
  destruct (eof0 s c0) eqn:E; [|discriminate]. injection H as <-. cbn. split; [reflexivity|split; [lia|intros _; eof0_true E]].
Qed.

Lemma endtag_brk : scan_brk endtag_body.
Proof.
  intros s r H. unfold endtag_body in H. body_start H s. destruct (c0 =? 62); [injection H as <-; cbn; split; [reflexivity|split; [lia|discriminate]]|].
  destruct (eof0 s c0) eqn:E; [|discriminate]. injection H as <-. cbn. split; [reflexivity|split; [lia|intros _; eof0_true E]].
Qed.

(* a scanning loop with l.skipTemplate() first, whose token ends at e = b + n with e - 1 <= hi *)
Lemma scan_sim body fuel z h rh : body_facts (fun z : lx => z) (fun r : lx * Z => lpos (fst r)) body -> scan_brk body ->
  samele (lz l) z -> loop fuel (with_tmpl_lx no_tmpl body) (z, h) = Ok rh -> lpos (fst (fst rh)) + snd (fst rh) - 1 <= hi ->
  loop fuel (with_tmpl_lx c body) (z, h) = Ok rh /\ samele (lz l) (fst (fst rh)) /\ 0 <= snd (fst rh).
Proof.
  intros Hbf Hbrk Hs H Hh. unfold with_tmpl_lx in *. pose proof H as H0. rewrite loop_with_no_tmpl in H0.
  destruct (loop fuel body z) as [r| |] eqn:El; cbn [rbind] in H0; try discriminate. injection H0 as <-. cbn [fst snd] in *.
  assert (Hpost : samele (lz l) (fst r) /\ (exists c0, pk (fst r) 0 = Some c0) /\ 0 <= snd r /\ (snd r = 0 -> at_end (fst r) = true)).
  { refine (loop_inv (fun s => samele (lz l) s) (fun r => samele (lz l) (fst r) /\ (exists c0, pk (fst r) 0 = Some c0) /\ 0 <= snd r /\ (snd r = 0 -> at_end (fst r) = true))
              body _ fuel z r Hs El).
    intros s x Is Hx. destruct (Hbf s x Hx) as [Hp Hx']. destruct x as [s'|r'].
    - eapply samele_trans; [exact Is|exact Hx'].
    - destruct (Hbrk s r' Hx) as (-> & Hn & He). split; [exact Is|]. split; [exact Hp|]. split; [exact Hn|exact He]. }
  destruct Hpost as (Hsr & (c0 & Hp) & Hn & He).
  split; [|split; [exact Hsr|exact Hn]].
  apply (with_tmpl_sim c d l hi2 Hc Htb Hb Hclean2 (fun z : lx => z) (fun _ z' => z') (fun r : lx * Z => lpos (fst r)) body Hbf fuel z h (r, h) Hs H).
  cbn [fst]. exact (brk_hi2 (fst r) c0 (snd r) Hsr Hp Hn He Hh).
Qed.

Ltac dbind H x E := match type of H with rbind ?e _ = _ => destruct e as [x| |] eqn:E; cbn [rbind] in H; try discriminate end.

Lemma shift_bogus_sim z h r : samele (lz l) z -> shift_bogus no_tmpl z h = Ok r -> lpos (snd (fst r)) - 1 <= hi -> shift_bogus c z h = Ok r.
Proof.
  intros Hs H Hh. unfold shift_bogus in *. dbind H rh El. dbind H t Et. dbind H s Es. injection H as <-. cbn [fst snd] in Hh.
  rewrite (shiftv_pos _ _ Es) in Hh. cbn [mv lpos] in Hh.
  destruct (scan_sim bogus_body _ z h rh bogus_facts bogus_brk Hs El Hh) as (-> & _). cbn [rbind]. rewrite Et. cbn [rbind]. rewrite Es. reflexivity.
Qed.

Lemma read_markup_sim z h r : samele (lz l) z -> read_markup no_tmpl z h = Ok r -> lpos (snd (fst r)) - 1 <= hi -> read_markup c z h = Ok r.
Proof.
  intros Hs H Hh. unfold read_markup in *. dbind H a Ea. destruct a.
  { dbind H rh El. cbn zeta in H. dbind H t Et. dbind H s Es. injection H as <-. cbn [fst snd] in Hh.
    rewrite (shiftv_pos _ _ Es) in Hh. cbn [mv lpos] in Hh.
    assert (Hs2 : samele (lz l) (mv z 2)) by (eapply samele_trans; [exact Hs|apply samele_mv; lia]).
    destruct (scan_sim comment_body _ (mv z 2) h rh comment_facts comment_brk Hs2 El Hh) as (-> & _).
    cbn [rbind]. cbn zeta. rewrite Et. cbn [rbind]. rewrite Es. reflexivity. }
  dbind H a2 Ea2. destruct a2.
  { dbind H rh El. cbn zeta in H. dbind H t Et. dbind H s Es. injection H as <-. cbn [fst snd] in Hh.
    rewrite (shiftv_pos _ _ Es) in Hh. cbn [mv lpos] in Hh.
    assert (Hs2 : samele (lz l) (mv z 7)) by (eapply samele_trans; [exact Hs|apply samele_mv; lia]).
    destruct (scan_sim cdata_body _ (mv z 7) h rh cdata_facts cdata_brk Hs2 El Hh) as (-> & _).
    cbn [rbind]. cbn zeta. rewrite Et. cbn [rbind]. rewrite Es. reflexivity. }
  dbind H a3 Ea3. destruct a3.
  { cbn zeta in *. dbind H c0 Ec. cbn [rbind]. dbind H rh El. dbind H t Et. dbind H s Es. injection H as <-. cbn [fst snd] in Hh.
    rewrite (shiftv_pos _ _ Es) in Hh. cbn [mv lpos] in Hh.
    assert (Hs2 : samele (lz l) (if c0 =? 32 then mv (mv z 7) 1 else mv z 7)).
    { destruct (c0 =? 32); (eapply samele_trans; [exact Hs|]); [eapply samele_trans; [apply (samele_mv z 7); lia|apply samele_mv; lia]|apply samele_mv; lia]. }
    destruct (scan_sim doctype_body _ _ h rh doctype_facts doctype_brk Hs2 El Hh) as (-> & _).
    cbn [rbind]. rewrite Et. cbn [rbind]. rewrite Es. reflexivity. }
  dbind H b Eb. injection H as <-. cbn [fst snd] in Hh. rewrite (shift_bogus_sim z h b Hs Eb Hh). reflexivity.
Qed.

(* the bytes of a token that starts at the cursor of l: no delimiter starts inside *)
Lemma tok_clean z e k : samele (lz l) z -> lpos (lz l) <= e <= len d -> e - 1 <= hi -> 0 <= k < e - lpos (lz l) ->
  prefixb (tb c) (skipz k (view_bytes (lbuf z) (mkSl (lpos (lz l)) (e - lpos (lz l))))) = false.
Proof.
  intros [[Hbf _] _] He Hh Hk. set (a := lpos (lz l)) in *. destruct Hb as (Hw & Hl & Hr).
  assert (Ha0 : 0 <= a) by (destruct Hw as (_ & ? & _); unfold a; lia).
  assert (Hrd : reads (lz l) (skipz a d)) by (split; [exact Hw|exact Hr]).
  pose proof (reads_slice (lz l) (skipz a d) 0 (e - a) Hrd ltac:(lia) ltac:(rewrite len_skipz by lia; lia)) as Hsl.
  unfold view_bytes. cbn [so sn]. rewrite Hbf. fold a in Hsl. rewrite Z.add_0_r in Hsl. rewrite Hsl.
  set (S0 := skipz a d) in *. assert (ET : slice S0 0 (e - a) = firstz (e - a) S0) by (unfold slice; rewrite Z.sub_0_r; reflexivity). rewrite ET.
  set (T := firstz (e - a) S0). assert (HlT : len T = e - a) by (unfold T; apply len_firstz; unfold S0; rewrite len_skipz by lia; lia).
  destruct (prefixb (tb c) (skipz k T)) eqn:Ep; [exfalso|reflexivity].
  pose proof (prefixb_app_true (tb c) (skipz k T) (skipz (e - a) S0) Ep) as Ep2.
  rewrite <- skipz_app_l in Ep2 by lia. unfold T in Ep2. rewrite firstz_skipz_app in Ep2. unfold S0 in Ep2. rewrite skipz_skipz in Ep2 by lia.
  rewrite Hclean in Ep2 by (unfold a in *; lia). discriminate.
Qed.

Lemma shiftv_view z s : shiftv z = Ok s -> fst s = mkSl (lstart z) (lpos z - lstart z).
Proof. unfold shiftv. destruct (lexeme_ok z); [|discriminate]. intros H. injection H as <-. reflexivity. Qed.

Lemma shift_endtag_sim z h r : samele (lz l) z -> lstart z = lpos (lz l) -> shift_endtag no_tmpl z h = Ok r ->
  lpos (snd (fst r)) - 1 <= hi -> lpos (snd (fst r)) <= len d -> shift_endtag c z h = Ok r.
Proof.
  intros Hs Hst H Hh He. unfold shift_endtag in *. dbind H rh El. dbind H t Et. cbn zeta in H. dbind H s Es.
  destruct (2 <=? sn (fst s)) eqn:E2; [|discriminate]. injection H as <-. cbn [fst snd lx_lower lpos] in Hh, He.
  rewrite (shiftv_pos _ _ Es) in Hh, He. cbn [mv lpos] in Hh, He.
  destruct (scan_sim endtag_body _ z h rh endtag_facts endtag_brk Hs El Hh) as (-> & Hsr & Hn). cbn [rbind]. rewrite Et. cbn [rbind]. cbn zeta. rewrite Es. cbn [rbind]. rewrite E2.
  change (tb no_tmpl) with (@nil Z).
  replace (name_run (tb c) (skipz 2 (view_bytes (lbuf z) (fst s)))) with (name_run [] (skipz 2 (view_bytes (lbuf z) (fst s)))); [reflexivity|].
  symmetry. apply name_run_clean. intros k Hk.
  rewrite (shiftv_view _ _ Es) in *. cbn [mv lstart lpos so sn] in *.
  assert (Hst2 : lstart (fst (fst rh)) = lpos (lz l)) by (destruct Hsr as [[_ Hst2] _]; destruct Hs as [[_ Hst3] _]; congruence).
  rewrite Hst2 in *. apply Z.leb_le in E2.
  set (e := lpos (fst (fst rh)) + snd (fst rh)) in *.
  assert (Hlv : len (view_bytes (lbuf z) (mkSl (lpos (lz l)) (e - lpos (lz l)))) = e - lpos (lz l)).
  { destruct Hs as [[Hbf _] _]. destruct Hb as (Hw & Hl & _). pose proof (lx_wf_len _ Hw) as [Hbl _]. apply len_view_bytes; cbn [so sn]; try lia.
    - destruct Hw as (_ & ? & _). lia.
    - rewrite Hbf, Hbl, Hl. lia. }
  rewrite len_skipz in Hk by lia.
  rewrite skipz_skipz by lia. apply (tok_clean z e (2 + k) Hs); lia.
Qed.

(* a cursor at the end of input, reached over clean bytes *)
Lemma eof_hi2 zb : samele (lz l) zb -> lpos zb <= len d -> at_end zb = true -> lpos zb - 1 <= hi -> lpos zb <= hi2.
Proof.
  intros Hs Hle He Hh. pose proof (at_end_ge zb Hs He). unfold hi2. destruct (len d <=? hi + 1) eqn:E; [lia|]. apply Z.leb_gt in E. lia.
Qed.

Lemma shift_xml_sim raw z err h r : samele (lz l) z -> shift_xml no_tmpl raw z err h = Ok r ->
  lpos (snd (fst (fst r))) - 1 <= hi -> (snd (fst r) = true -> lpos (snd (fst (fst r))) <= hi) -> shift_xml c raw z err h = Ok r.
Proof.
  intros Hs H Hh Herr. pose proof hi_le_hi2 as Hh2. unfold shift_xml in *. dbind H rh El.
  destruct (xml_loop_post no_tmpl raw _ z true 0 0 h rh El) as [Hs1 Hn1].
  assert (Hs1' : samele (lz l) (sum_cur (fst rh))) by (eapply samele_trans; eauto).
  destruct rh as [[z'|z'] h1]; cbn [fst snd sum_cur] in *.
  - dbind H rh2 El2. destruct (xml_close_post no_tmpl _ z' h1 rh2 El2) as (Hs2 & Hn2 & _).
    assert (Hs2' : samele (lz l) (sum_cur (fst rh2))) by (eapply samele_trans; eauto).
    assert (Hhd2 : (match fst rh2 with inl z'' => lpos z'' - 1 | inr z'' => lpos z'' end) <= hi2).
    { destruct rh2 as [[z''|z''] h2]; cbn [fst snd sum_cur] in *; dbind H s Es; injection H as <-; cbn [fst snd] in *; rewrite (shiftv_pos _ _ Es) in *.
      - lia.
      - pose proof (pk_le z'' 0 Hs2' (Hn2 z'' eq_refl)) as Hle. destruct (at_end z'') eqn:Ee.
        + apply (eof_hi2 z'' Hs2' Hle Ee Hh).
        + rewrite orb_true_r in Herr. specialize (Herr eq_refl). lia. }
    assert (Hz' : lpos z' <= hi2).
    { unfold with_tmpl_lx in El2. pose proof El2 as El2'. rewrite loop_with_no_tmpl in El2'.
      destruct (loop (fuel_of z') xml_close_body z') as [r2| |] eqn:Eb; cbn [rbind] in El2'; try discriminate. injection El2' as <-. cbn [fst] in Hhd2.
      pose proof (loop_head_le (fun z : lx => z) (fun r : lx + lx => match r with inl z' => lpos z' - 1 | inr z' => lpos z' end) xml_close_body
                    (fun s s' E => proj2 (xml_close_facts s (Cont s') E)) (fun s r0 E => proj2 (xml_close_facts s (Brk r0) E)) _ z' r2 Eb) as Hq. cbn beta in Hq. lia. }
    rewrite (with_tmpl_sim c d l hi2 Hc Htb Hb Hclean2 xml_cur xml_setc (fun r : lx + lx => lpos (sum_cur r)) (xml_body raw) (xml_facts raw) _ (z, true, 0, 0) h (inl z', h1) Hs El Hz').
    cbn [rbind fst snd]. unfold with_tmpl_lx in *.
    rewrite (with_tmpl_sim c d l hi2 Hc Htb Hb Hclean2 (fun z : lx => z) (fun _ z' => z') _ xml_close_body xml_close_facts _ z' h1 rh2 Hs1' El2 Hhd2).
    cbn [rbind]. exact H.
  - assert (Hz' : lpos z' <= hi2).
    { dbind H s Es. injection H as <-. cbn [fst snd] in *. rewrite (shiftv_pos _ _ Es) in *.
      pose proof (pk_le z' 0 Hs1' (Hn1 z' eq_refl)) as Hle. destruct (at_end z') eqn:Ee.
      + apply (eof_hi2 z' Hs1' Hle Ee Hh).
      + rewrite orb_true_r in Herr. specialize (Herr eq_refl). lia. }
    rewrite (with_tmpl_sim c d l hi2 Hc Htb Hb Hclean2 xml_cur xml_setc (fun r : lx + lx => lpos (sum_cur r)) (xml_body raw) (xml_facts raw) _ (z, true, 0, 0) h (inr z', h1) Hs El Hz').
    cbn [rbind fst snd]. exact H.
Qed.

End Tok.

Lemma shift_xml_pos c raw z err h r : shift_xml c raw z err h = Ok r -> lpos z <= lpos (snd (fst (fst r))).
Proof.
  intros H. unfold shift_xml in H.
  match type of H with rbind ?e _ = _ => destruct e as [rh| |] eqn:El; cbn [rbind] in H; try discriminate end.
  destruct (xml_loop_post c raw _ z true 0 0 h rh El) as [[_ Hs1] _].
  destruct rh as [[z'|z'] h1]; cbn [fst snd sum_cur] in *.
  - match type of H with rbind ?e _ = _ => destruct e as [rh2| |] eqn:El2; cbn [rbind] in H; try discriminate end.
    destruct (xml_close_post c _ z' h1 rh2 El2) as ([_ Hs2] & _).
    destruct rh2 as [[z''|z''] h2]; cbn [fst snd sum_cur] in *;
      (match type of H with rbind ?e _ = _ => destruct e as [s| |] eqn:Es; cbn [rbind] in H; try discriminate end;
       injection H as <-; cbn [fst snd]; rewrite (shiftv_pos _ _ Es); lia).
  - match type of H with rbind ?e _ = _ => destruct e as [s| |] eqn:Es; cbn [rbind] in H; try discriminate end.
    injection H as <-. cbn [fst snd]. rewrite (shiftv_pos _ _ Es). lia.
Qed.

Section Tok2.
Variables (c : cfg) (d : list Z) (l : lexer) (hi : Z).
Hypothesis Hc : cfg_ok c.
Hypothesis Htb : tb c <> [].
Hypothesis Hb : binv d (lz l).
Hypothesis Hclean : forall i, lpos (lz l) <= i <= hi -> prefixb (tb c) (skipz i d) = false.

Ltac dbind H x E := match type of H with rbind ?e _ = _ => destruct e as [x| |] eqn:E; cbn [rbind] in H; try discriminate end.

(* the tag name: the delimiter test comes after the tests for the bytes that end a name *)
Lemma starttag_step z x : samele (lz l) z -> starttag_body no_tmpl z = Ok x ->
  (match x with Cont s' => lpos s' | Brk r => lpos r end) <= hi2 d hi + 1 -> starttag_body c z = Ok x.
Proof.
  intros Hs H Hbd. unfold starttag_body in *. unfold pkr at 1 in H. unfold pkr at 1.
  destruct (pk z 0) as [c0|] eqn:Ep; cbn [opt_res rbind] in *; [|discriminate].
  destruct ((c0 =? 32) || (c0 =? 62)); [exact H|].
  assert (Hlast : forall K : bool -> res (lp lx lx), (b <-- tmpl_at no_tmpl z ;; K b) = Ok x -> (forall b, K b = if b then Ok (Brk z) else Ok (Cont (mv z 1))) ->
                  (b <-- tmpl_at c z ;; K b) = Ok x).
  { intros K HK HKd. rewrite tmpl_at_none in HK. cbn [rbind] in HK. rewrite HKd in HK. injection HK as <-. cbn [mv lpos] in Hbd. assert (Hle : lpos z <= hi2 d hi) by lia.
    rewrite (proj1 (clean_at c d l (hi2 d hi) Hc Htb Hb (Hclean2 c d l hi Htb Hclean) z c0 Hs Ep Hle)). cbn [rbind]. apply HKd. }
  destruct (c0 =? 47).
  - destruct (pkr z 1) as [c1| |]; cbn [rbind] in *; try discriminate. destruct (c1 =? 62); [exact H|].
    destruct ((c0 =? 9) || (c0 =? 10) || (c0 =? 13) || (c0 =? 12) || eof0 z c0); [exact H|].
    apply (Hlast (fun b => if b then Ok (Brk z) else Ok (Cont (mv z 1))) H). reflexivity.
  - cbn [rbind] in *. destruct ((c0 =? 9) || (c0 =? 10) || (c0 =? 13) || (c0 =? 12) || eof0 z c0); [exact H|].
    apply (Hlast (fun b => if b then Ok (Brk z) else Ok (Cont (mv z 1))) H). reflexivity.
Qed.

Lemma starttag_loop_sim fuel z z1 : samele (lz l) z -> loop fuel (starttag_body no_tmpl) z = Ok z1 -> lpos z1 - 1 <= hi ->
  loop fuel (starttag_body c) z = Ok z1.
Proof.
  intros Hs H Hh. pose proof (hi_le_hi2 d hi). assert (Hq : lpos z1 <= hi2 d hi + 1) by lia.
  refine (loop_sim (fun z : lx => z) (fun r : lx => lpos r) (starttag_body c) (starttag_body no_tmpl) (lz l) (hi2 d hi + 1) _ _ _ fuel z z1 Hs H Hq).
  - intros s s' E.
    unfold starttag_body in E. destruct (pkr s 0); cbn [rbind] in E; try discriminate.
    match type of E with rbind ?e _ = _ => destruct e as [b| |] end; cbn [rbind] in E; try discriminate.
    destruct b; [discriminate|]. injection E as <-. apply samele_mv. lia.
  - intros s r E. unfold starttag_body in E. destruct (pkr s 0); cbn [rbind] in E; try discriminate.
    match type of E with rbind ?e _ = _ => destruct e as [b| |] end; cbn [rbind] in E; try discriminate.
    destruct b; [|discriminate]. injection E as <-. lia.
  - intros s x Hs' E Hbd. exact (starttag_step s x Hs' E Hbd).
Qed.

Lemma shift_starttag_sim l1 z r : samele (lz l) z -> shift_starttag no_tmpl l1 z = Ok r ->
  lpos (lz (snd r)) - 1 <= hi -> (fst (fst r) = ErrorT -> lpos (lz (snd r)) <= hi) -> shift_starttag c l1 z = Ok r.
Proof.
  intros Hs H Hh Herr. unfold shift_starttag in *. dbind H z1 E1.
  pose proof (starttag_loop_samele _ _ _ _ E1) as Hs1. destruct (starttag_loop_end _ _ _ _ E1) as (c0 & Hp0).
  assert (Hs01 : samele (lz l) z1) by (eapply samele_trans; eauto).
  pose proof (pk_le d l Hb z1 c0 Hs01 Hp0) as Hz1.
  pose proof (binv_same d l z1 Hb Hs01 Hz1) as Hb1.
  assert (Hz1e : lpos z1 <= lpos (lz (snd r))).
  { clear Hh Herr. dbind H t Et. cbn zeta in H. dbind H h0 Eh. destruct (is_raw_hash h0); [destruct (is_xml_hash h0)|].
    - dbind H x Ex. destruct x as [[[dv z3] ef] hx]. pose proof (shift_xml_pos _ _ _ _ _ _ Ex) as Hp. cbn [fst snd lx_lower lpos] in Hp.
      destruct ef; injection H as <-; cbn [snd lz]; exact Hp.
    - dbind H s Es. injection H as <-. cbn [snd lz]. rewrite (shiftv_pos _ _ Es). cbn [lx_lower lpos]. lia.
    - dbind H s Es. injection H as <-. cbn [snd lz]. rewrite (shiftv_pos _ _ Es). cbn [lx_lower lpos]. lia. }
  rewrite (starttag_loop_sim _ z z1 Hs E1 ltac:(lia)). cbn [rbind].
  unfold lexeme_from in *. destruct (lexeme_ok z1 && (0 <=? 1) && (1 <=? lpos z1 - lstart z1)) eqn:Elx; cbn [rbind] in *; try discriminate.
  set (t := mkSl (lstart z1 + 1) (lpos z1 - lstart z1 - 1)) in *. cbn zeta in *.
  dbind H h0 Eh. cbn [rbind]. destruct (is_raw_hash h0); [destruct (is_xml_hash h0)|]; [|exact H|exact H].
  dbind H x Ex. destruct x as [[[dv z3] ef] hx].
  b2p. destruct Hb1 as (Hw1 & Hl1 & Hr1). pose proof Hw1 as (_ & Hst1 & _).
  assert (Hrd : reads (lx_lower z1 t) (skipz (lpos z1) d)).
  { apply reads_lower; [split; assumption|unfold t; cbn [so]; lia|unfold t; cbn [sn]; lia|unfold t; cbn [so sn]; lia]. }
  set (l2 := mkL (lx_lower z1 t) 0 false false None None false).
  assert (Hb2 : binv d (lz l2)).
  { cbn [l2 lz]. destruct Hrd as [Hw2 Hr2]. split; [exact Hw2|]. split; [|exact Hr2].
    rewrite lx_lower_len; [exact Hl1|exact Hw1|unfold t; cbn [so]; lia|unfold t; cbn [sn]; lia|unfold t; cbn [so sn]; lia]. }
  assert (Hclean' : forall i, lpos (lz l2) <= i <= hi -> prefixb (tb c) (skipz i d) = false).
  { intros i Hi. apply Hclean. cbn [l2 lz lx_lower lpos] in Hi. destruct Hs01 as [_ ?]. lia. }
  assert (Hee : lpos (lz (snd r)) = lpos z3) by (destruct ef; injection H as <-; reflexivity).
  rewrite (shift_xml_sim c d l2 hi Hc Htb Hb2 Hclean' h0 (lx_lower z1 t) (lerr l1) (lhas l1) (dv, z3, ef, hx) (samele_refl _) Ex).
  - cbn [rbind]. exact H.
  - cbn [fst snd]. lia.
  - cbn [fst snd]. intros ->. injection H as <-. cbn [fst snd lz] in *. apply Herr. reflexivity.
Qed.

(* ---- loops that test for a delimiter themselves ---------------------------------------------------------------------------- *)
Lemma clean2 z c0 : samele (lz l) z -> pk z 0 = Some c0 -> lpos z <= hi2 d hi -> tmpl_at c z = Ok false /\ skip_tmpl c z = Ok None.
Proof. exact (clean_at c d l (hi2 d hi) Hc Htb Hb (Hclean2 c d l hi Htb Hclean) z c0). Qed.

Lemma direct_sim {S R} (cur : S -> lx) (hd : R -> Z) (bodyC bodyN : S -> res (lp S R)) :
  body_facts cur hd bodyN -> (forall s, tmpl_at c (cur s) = Ok false -> bodyC s = bodyN s) ->
  forall fuel s r, samele (lz l) (cur s) -> loop fuel bodyN s = Ok r -> hd r <= hi2 d hi -> loop fuel bodyC s = Ok r.
Proof.
  intros Hbf Heq fuel s r Hs H Hh.
  refine (loop_sim cur hd bodyC bodyN (lz l) (hi2 d hi) _ _ _ fuel s r Hs H Hh).
  - intros s1 s2 E. exact (proj2 (Hbf s1 (Cont s2) E)).
  - intros s1 r1 E. exact (proj2 (Hbf s1 (Brk r1) E)).
  - intros s1 x Hs1 E Hbd. destruct (Hbf s1 x E) as [(c0 & Hp) Hx].
    assert (Hle : lpos (cur s1) <= hi2 d hi) by (destruct x as [s'|r']; [destruct Hx; lia|lia]).
    rewrite (Heq s1 (proj1 (clean2 (cur s1) c0 Hs1 Hp Hle))). exact E.
Qed.

Lemma tmpl_rep_guarded_clean z has : tmpl_at c z = Ok false -> tmpl_rep_guarded c z has = Ok (z, has).
Proof.
  intros H. unfold tmpl_rep_guarded. unfold tmpl_at in H. rewrite (has_delims_true c Htb) in *. unfold tmpl_rep, fuel_of. cbn [loop].
  unfold tmpl_rep_body. cbn [fst]. rewrite H. cbn [rbind]. rewrite orb_false_r. reflexivity.
Qed.

(* attribute names and values *)
Lemma attrname_facts : body_facts (fun s : lx * bool => fst s) (fun r : lx * bool => lpos (fst r)) (attrname_body no_tmpl).
Proof.
  intros [z has] x H. cbn [fst]. unfold attrname_body in H. rewrite tmpl_at_none in H. cbn [rbind] in H.
  unfold pkr at 1 in H. destruct (pk z 0) as [c0|] eqn:Ep; cbn [opt_res rbind] in H; [|discriminate]. split; [eauto|].
  match type of H with rbind ?e _ = _ => destruct e as [b| |] end; cbn [rbind] in H; try discriminate.
  destruct b; injection H as <-; cbn [fst]; [lia|apply samele_mv; lia].
Qed.

Lemma attrname_eq s : tmpl_at c (fst s) = Ok false -> attrname_body c s = attrname_body no_tmpl s.
Proof. destruct s as [z has]. cbn [fst]. intros H. unfold attrname_body. rewrite H, tmpl_at_none. reflexivity. Qed.

Lemma attrq_facts q : body_facts (fun s : lx * bool => fst s) (fun r : lx * bool => lpos (fst r)) (attrq_body no_tmpl q).
Proof.
  intros [z has] x H. cbn [fst]. unfold attrq_body in H.
  unfold pkr at 1 in H. destruct (pk z 0) as [c0|] eqn:Ep; cbn [opt_res rbind] in H; [|discriminate]. split; [eauto|].
  rewrite tmpl_at_none in H. cbn [rbind] in H.
  destruct (c0 =? q); [injection H as <-; cbn [fst mv lpos]; lia|]. destruct (eof0 z c0); injection H as <-; cbn [fst]; [lia|apply samele_mv; lia].
Qed.

Lemma attrq_eq q s : tmpl_at c (fst s) = Ok false -> attrq_body c q s = attrq_body no_tmpl q s.
Proof. destruct s as [z has]. cbn [fst]. intros H. unfold attrq_body. rewrite H, tmpl_at_none. reflexivity. Qed.

(* where the loops of an attribute end *)
Lemma attrname_loop_same fuel s r : loop fuel (attrname_body no_tmpl) s = Ok r -> samele (fst s) (fst r).
Proof.
  intros H. refine (loop_inv (fun s' => samele (fst s) (fst s')) (fun r => samele (fst s) (fst r)) (attrname_body no_tmpl) _ fuel s r (samele_refl _) H).
  intros s1 x I1 Hx. pose proof (proj2 (attrname_facts s1 x Hx)) as Hf. destruct x as [s'|r']; [eapply samele_trans; eauto|].
  destruct s1 as [z has]. unfold attrname_body in Hx. rewrite tmpl_at_none in Hx. cbn [rbind] in Hx.
  destruct (pkr z 0); cbn [rbind] in Hx; try discriminate.
  match type of Hx with rbind ?e _ = _ => destruct e as [b| |] end; cbn [rbind] in Hx; try discriminate.
  destruct b; [|discriminate]. injection Hx as <-. exact I1.
Qed.

Lemma attrq_loop_same q fuel s r : loop fuel (attrq_body no_tmpl q) s = Ok r -> samele (fst s) (fst r).
Proof.
  intros H. refine (loop_inv (fun s' => samele (fst s) (fst s')) (fun r => samele (fst s) (fst r)) (attrq_body no_tmpl q) _ fuel s r (samele_refl _) H).
  intros s1 x I1 Hx. pose proof (proj2 (attrq_facts q s1 x Hx)) as Hf. destruct x as [s'|r']; [eapply samele_trans; eauto|].
  destruct s1 as [z has]. unfold attrq_body in Hx. destruct (pkr z 0) as [c0| |]; cbn [rbind] in Hx; try discriminate.
  rewrite tmpl_at_none in Hx. cbn [rbind] in Hx.
  destruct (c0 =? q); [injection Hx as <-; cbn [fst] in *; eapply samele_trans; [exact I1|apply samele_mv; lia]|].
  destruct (eof0 z c0); [|discriminate]. injection Hx as <-. exact I1.
Qed.

Lemma attru_loop_same fuel z r : loop fuel attru_body z = Ok r -> samele z r.
Proof.
  intros H. refine (loop_inv (fun s' => samele z s') (fun r => samele z r) attru_body _ fuel z r (samele_refl _) H).
  intros s1 x I1 Hx. pose proof (proj2 (attru_facts s1 x Hx)) as Hf. destruct x as [s'|r']; [eapply samele_trans; eauto|].
  unfold attru_body in Hx. destruct (pkr s1 0) as [c0| |]; cbn [rbind] in Hx; try discriminate.
  destruct ((c0 =? 32) || (c0 =? 62) || (c0 =? 9) || (c0 =? 10) || (c0 =? 13) || (c0 =? 12) || eof0 s1 c0); [|discriminate]. injection Hx as <-. exact I1.
Qed.

Lemma shift_attribute_sim l1 z r : samele (lz l) z -> (exists c0, pk z 0 = Some c0) -> shift_attribute no_tmpl l1 z = Ok r ->
  lpos (lz (snd r)) <= hi -> lpos (lz (snd r)) <= len d -> shift_attribute c l1 z = Ok r.
Proof.
  intros Hs (cz & Hpz) H Hh Hed. pose proof (hi_le_hi2 d hi) as Hh2. unfold shift_attribute in *. cbn zeta in *.
  rewrite tmpl_rep_guarded_none in H. cbn [rbind fst snd] in H.
  dbind H r1 E1. pose proof (attrname_loop_same _ _ _ E1) as S1. cbn [fst] in S1.
  dbind H z2 Ez2. pose proof (ws_loop_samele _ _ Ez2) as S2. dbind H c0 Ec0.
  dbind H r3 E3. destruct r3 as [[z5 has5] av]. rewrite tmpl_rep_guarded_none in H. cbn [rbind fst snd] in H.
  dbind H t Et. dbind H s Es. injection H as <-. cbn [snd lz] in Hh, Hed. rewrite (shiftv_pos _ _ Es) in Hh, Hed.
  assert (Hz5e : lpos z5 = lpos (if snd r1 then z5 else lx_lower z5 t)) by (destruct (snd r1); reflexivity).
  rewrite <- Hz5e in Hh, Hed.
  (* the positions in between *)
  assert (Hs1 : samele (lz l) (fst r1)) by (eapply samele_trans; eauto).
  assert (Hs2 : samele (lz l) z2) by (eapply samele_trans; eauto).
  assert (H35 : samele (fst r1) z5 /\ (c0 =? 61 = true -> exists z3 c1, ws_loop (mv z2 1) = Ok z3 /\ pkr z3 0 = Ok c1 /\ samele z3 z5)).
  { destruct (c0 =? 61).
    - dbind E3 z3 Ez3. pose proof (ws_loop_samele _ _ Ez3) as S3. dbind E3 c1 Ec1. rewrite tmpl_at_none in E3. cbn [rbind] in E3.
      dbind E3 rr Er. dbind E3 v Ev. injection E3 as <- <- <-.
      assert (S35 : samele z3 (fst rr)).
      { destruct ((c1 =? 34) || (c1 =? 39)).
        - pose proof (attrq_loop_same _ _ _ _ Er) as Sq. cbn [fst] in Sq. eapply samele_trans; [apply (samele_mv z3 1); lia|exact Sq].
        - unfold with_tmpl_lx in Er. rewrite loop_with_no_tmpl in Er. destruct (loop (fuel_of z3) attru_body z3) as [ru| |] eqn:Eu; cbn [rbind] in Er; try discriminate.
          injection Er as <-. cbn [fst]. exact (attru_loop_same _ _ _ Eu). }
      split; [|intros _; exists z3, c1; split; [first [exact Ez3|reflexivity]|split; [first [exact Ec1|reflexivity]|exact S35]]].
      eapply samele_trans; [exact S2|]. eapply samele_trans; [apply (samele_mv z2 1); lia|]. eapply samele_trans; [exact S3|exact S35].
    - injection E3 as <- <- <-. split; [|discriminate]. destruct S2 as [[Hbf Hst] Hle]. split; [split; [exact Hbf|exact Hst]|].
      unfold rewind, mark. cbn [lpos]. rewrite Hst. lia. }
  destruct H35 as [S15 H3].
  assert (Hs5 : samele (lz l) z5) by exact (samele_trans _ _ _ Hs1 S15).
  (* now the run with delimiters *)
  assert (Hzle : lpos z <= hi2 d hi) by (destruct S1, S15; lia).
  destruct (clean2 z cz Hs Hpz Hzle) as [Hz _].
  rewrite (tmpl_rep_guarded_clean z (lhas l1) Hz). cbn [rbind fst snd].
  rewrite (direct_sim (fun s : lx * bool => fst s) (fun r : lx * bool => lpos (fst r)) (attrname_body c) (attrname_body no_tmpl) attrname_facts attrname_eq _ (z, lhas l1) r1 Hs E1 ltac:(cbn beta; destruct S15; lia)).
  cbn [rbind]. rewrite Ez2. cbn [rbind]. rewrite Ec0. cbn [rbind].
  assert (E3c : (if c0 =? 61
                 then z3 <-- ws_loop (mv z2 1) ;; c1 <-- pkr z3 0 ;;
                      t0 <-- tmpl_at c z3 ;;
                      r <-- (if t0 then z4 <-- tmpl_skip c z3 ;; r <-- tmpl_rep c z4 ;; Ok (fst r, true)
                             else if (c1 =? 34) || (c1 =? 39) then loop (fuel_of z3) (attrq_body c c1) (mv z3 1, snd r1)
                             else loop (fuel_of z3) (with_tmpl_lx c attru_body) (z3, snd r1)) ;;
                      v <-- lexeme_from (fst r) (mark z3) ;; Ok (fst r, snd r, Some v)
                 else Ok (rewind z2 (mark (fst r1)), snd r1, None)) = Ok (z5, has5, av)).
  { destruct (c0 =? 61) eqn:E61; [|exact E3]. destruct (H3 eq_refl) as (z3 & c1 & Ez3 & Ec1 & S35).
    rewrite Ez3 in *. cbn [rbind] in *. rewrite Ec1 in *. cbn [rbind] in *. rewrite tmpl_at_none in E3. cbn [rbind] in E3.
    assert (Hs3 : samele (lz l) z3) by (eapply samele_trans; [exact Hs2|]; eapply samele_trans; [apply (samele_mv z2 1); lia|exact (ws_loop_samele _ _ Ez3)]).
    assert (Hp3 : pk z3 0 = Some c1) by (unfold pkr in Ec1; destruct (pk z3 0); cbn in Ec1; congruence).
    destruct (clean2 z3 c1 Hs3 Hp3 ltac:(destruct S35; lia)) as [Hz3 _]. rewrite Hz3. cbn [rbind].
    dbind E3 rr Er. assert (Err : fst rr = z5) by (dbind E3 v Ev; injection E3 as <- <- <-; reflexivity).
    destruct ((c1 =? 34) || (c1 =? 39)).
    - rewrite (direct_sim (fun s : lx * bool => fst s) (fun r : lx * bool => lpos (fst r)) (attrq_body c c1) (attrq_body no_tmpl c1) (attrq_facts c1) (attrq_eq c1) _ (mv z3 1, snd r1) rr
                 ltac:(cbn [fst]; eapply samele_trans; [exact Hs3|apply samele_mv; lia]) Er ltac:(cbn beta; rewrite Err; lia)).
      cbn [rbind]. exact E3.
    - unfold with_tmpl_lx in *.
      rewrite (with_tmpl_sim c d l (hi2 d hi) Hc Htb Hb (Hclean2 c d l hi Htb Hclean) (fun z : lx => z) (fun _ z' => z') (fun r : lx => lpos r) attru_body attru_facts _ z3 (snd r1) rr Hs3 Er ltac:(cbn beta; rewrite Err; lia)).
      cbn [rbind]. exact E3. }
  rewrite E3c. cbn [rbind].
  assert (Hp5 : tmpl_at c z5 = Ok false).
  { rewrite (same_zat l z5 (proj1 Hs5)). rewrite (btmpl_at_zat c d l (lpos z5) Hc Htb Hb ltac:(destruct Hs5; lia)). rewrite Hclean by (destruct Hs5; lia). reflexivity. }
  rewrite (tmpl_rep_guarded_clean z5 has5 Hp5). cbn [rbind fst snd]. rewrite Et. cbn [rbind]. rewrite Es. reflexivity.
Qed.

(* ---- raw text ---------------------------------------------------------------------------------------------------------------------- *)
Lemma script_comment_facts : body_facts (fun s : lx * bool => fst s) (fun r : lx + lx => lpos (sum_cur r)) script_comment_body.
Proof.
  intros s x H. split.
  - destruct s as [z ins]. cbn [fst]. unfold script_comment_body in H. unfold pkr at 1 in H. destruct (pk z 0); [eauto|discriminate].
  - pose proof (script_comment_step_run (fst s) s x (samele_refl _) H) as Hf. destruct x as [s'|r]; [exact Hf|].
    unfold sc_post in Hf. destruct r as [z'|z']; cbn [sum_cur]; [destruct Hf; lia|destruct Hf as [[_ ?] _]; lia].
Qed.

Lemma rawtext_facts raw : body_facts (fun s : lx * bool => fst s) (fun r : lx * bool => lpos (fst r)) (rawtext_body no_tmpl raw).
Proof.
  intros [z has] x H. cbn [fst]. unfold rawtext_body in H. unfold pkr at 1 in H.
  destruct (pk z 0) as [c0|] eqn:Ep; cbn [opt_res rbind] in H; [|discriminate]. split; [eauto|].
  rewrite skip_tmpl_none in H. cbn [rbind] in H. destruct (c0 =? 60).
  - dbind H c1 Ec1. destruct (c1 =? 47).
    + cbn zeta in H. dbind H z2 Ez. destruct (letters_loop_run _ _ Ez) as (Hsm & Hle & _). cbn [mv lpos] in Hle.
      assert (Hsz : samele z z2) by (split; [eapply same_trans; [apply (same_mv z 2)|exact Hsm]|lia]).
      dbind H hh Eh. destruct (hh =? raw); [|injection H as <-; exact Hsz].
      dbind H cc Ecc. destruct (is_tagend cc || eof0 z2 cc); injection H as <-; [|exact Hsz].
      cbn [fst]. unfold rewind, mark. cbn [lpos]. destruct Hsm as [_ Hst]. cbn [mv lstart] in Hst. lia.
    + dbind H sc Esc. destruct sc; [|injection H as <-; apply samele_mv; lia].
      dbind H rr Er. pose proof (script_comment_run _ _ _ _ _ _ Er) as Hp. unfold sc_post in Hp.
      destruct rr as [[z'|z'] h']; cbn [fst] in Hp; injection H as <-; cbn [fst].
      * eapply samele_trans; [apply (samele_mv z 4); lia|exact Hp].
      * destruct Hp as [[_ Hp] _]. cbn [mv lpos] in Hp. lia.
  - destruct (eof0 z c0); injection H as <-; cbn [fst]; [lia|apply samele_mv; lia].
Qed.

Lemma rawtext_step raw s x : samele (lz l) (fst s) -> rawtext_body no_tmpl raw s = Ok x ->
  (match x with Cont s' => lpos (fst s') | Brk r => lpos (fst r) end) <= hi2 d hi -> rawtext_body c raw s = Ok x.
Proof.
  intros Hs H Hbd. destruct (rawtext_facts raw s x H) as [(c0 & Hp) Hx]. destruct s as [z has]. cbn [fst] in *.
  assert (Hle : lpos z <= hi2 d hi) by (destruct x as [s'|r']; [destruct Hx; lia|lia]).
  destruct (clean2 z c0 Hs Hp Hle) as [_ Hsk]. unfold rawtext_body in *. unfold pkr at 1 in H. unfold pkr at 1. rewrite Hp in *. cbn [opt_res rbind] in *.
  rewrite Hsk. rewrite skip_tmpl_none in H. cbn [rbind] in *. destruct (c0 =? 60); [|exact H].
  destruct (pkr z 1) as [c1| |]; cbn [rbind] in *; try discriminate. destruct (c1 =? 47); [exact H|].
  match type of H with rbind ?e _ = _ => destruct e as [sc| |]; cbn [rbind] in *; try discriminate end.
  destruct sc; [|exact H]. dbind H rr Er.
  assert (Hs4 : samele (lz l) (mv z 4)) by (eapply samele_trans; [exact Hs|apply samele_mv; lia]).
  unfold script_comment_loop_body in *.
  rewrite (with_tmpl_sim c d l (hi2 d hi) Hc Htb Hb (Hclean2 c d l hi Htb Hclean) (fun s : lx * bool => fst s) (fun s z' => (z', snd s)) (fun r : lx + lx => lpos (sum_cur r))
             script_comment_body script_comment_facts _ (mv z 4, false) has rr Hs4 Er).
  - cbn [rbind]. exact H.
  - destruct rr as [[z'|z'] h']; injection H as <-; cbn [fst sum_cur] in *; exact Hbd.
Qed.

Lemma shift_rawtext_sim raw z h r : samele (lz l) z -> shift_rawtext no_tmpl raw z h = Ok r -> lpos (snd (fst r)) <= hi ->
  shift_rawtext c raw z h = Ok r.
Proof.
  intros Hs H Hh. pose proof (hi_le_hi2 d hi). unfold shift_rawtext in *. destruct (raw =? html_hash_Plaintext).
  - dbind H rh El. dbind H s Es. injection H as <-. cbn [fst snd] in Hh. rewrite (shiftv_pos _ _ Es) in Hh. unfold with_tmpl_lx in *.
    rewrite (with_tmpl_sim c d l (hi2 d hi) Hc Htb Hb (Hclean2 c d l hi Htb Hclean) (fun z : lx => z) (fun _ z' => z') (fun r : lx => lpos r) plaintext_body plaintext_facts _ z h rh Hs El ltac:(cbn beta; lia)).
    cbn [rbind]. rewrite Es. reflexivity.
  - dbind H s El. dbind H s2 Es. injection H as <-. cbn [fst snd] in Hh. rewrite (shiftv_pos _ _ Es) in Hh.
    assert (Hq : lpos (fst s) <= hi2 d hi) by lia.
    rewrite (loop_sim (fun s : lx * bool => fst s) (fun r : lx * bool => lpos (fst r)) (rawtext_body c raw) (rawtext_body no_tmpl raw) (lz l) (hi2 d hi)
               (fun s1 s2 E => proj2 (rawtext_facts raw s1 (Cont s2) E)) (fun s1 r1 E => proj2 (rawtext_facts raw s1 (Brk r1) E))
               (rawtext_step raw) _ (z, h) s Hs El Hq).
    cbn [rbind]. rewrite Es. reflexivity.
Qed.

Lemma shift_rawtext_pos c0 raw z0 h r : shift_rawtext c0 raw z0 h = Ok r ->
  lbuf (snd (fst r)) = lbuf z0 /\ lstart (snd (fst r)) = lpos (snd (fst r)) /\ sn (fst (fst r)) = lpos (snd (fst r)) - lstart z0 /\
  lpos z0 <= lpos (snd (fst r)).
Proof.
  intros H. unfold shift_rawtext in H.
  assert (Hfin : forall zr s, samele z0 zr -> shiftv zr = Ok s ->
            lbuf (snd s) = lbuf z0 /\ lstart (snd s) = lpos (snd s) /\ sn (fst s) = lpos (snd s) - lstart z0 /\ lpos z0 <= lpos (snd s)).
  { intros zr s [[Hbf Hst] Hle] Es. unfold shiftv in Es. destruct (lexeme_ok zr); [|discriminate]. injection Es as <-.
    cbn [fst snd so sn skip lpos lstart lbuf]. repeat split; [exact Hbf|lia|exact Hle]. }
  destruct (raw =? html_hash_Plaintext).
  - dbind H rh El. dbind H s Es. injection H as <-. cbn [fst snd]. apply (Hfin (fst rh) s); [|exact Es].
    unfold with_tmpl_lx in El.
    refine (with_tmpl_inv c0 (fun z : lx => z) (fun _ z' => z') (fun sh => samele z0 (fst sh)) (fun r : lx * bool => samele z0 (fst r)) plaintext_body _ _ _ (z0, h) rh (samele_refl _) El).
    + intros s1 h1 z' I1 _ Hk. cbn [fst] in *. eapply samele_trans; [exact I1|exact (tmpl_skip_run _ _ _ Hk)].
    + intros s1 h1 x I1 Hx. cbn [fst] in *. unfold plaintext_body in Hx. destruct (pkr s1 0) as [cc| |]; cbn [rbind] in Hx; try discriminate.
      destruct (eof0 s1 cc); injection Hx as <-; cbn [fst]; [exact I1|eapply samele_trans; [exact I1|apply samele_mv; lia]].
  - dbind H s El. dbind H s2 Es. injection H as <-. cbn [fst snd]. apply (Hfin (fst s) s2); [|exact Es].
    destruct s as [zr hr]. destruct (rawtext_loop_run _ _ _ _ _ _ El) as (Hsm & Hle & _). split; [exact Hsm|exact Hle].
Qed.

(* ---- text ---------------------------------------------------------------------------------------------------------------------------- *)
Lemma text_facts : body_facts (fun z : lx => z) (fun r : lx * dispatch => lpos (fst r)) (text_body no_tmpl).
Proof.
  intros s x H. unfold text_body in H. unfold pkr at 1 in H. destruct (pk s 0) as [c0|] eqn:Ep; cbn [opt_res rbind] in H; [|discriminate]. split; [eauto|].
  rewrite tmpl_at_none in H. cbn [rbind] in H. destruct (c0 =? 60).
  - dbind H c1 Ec1. dbind H ie Eie.
    destruct (negb ie && negb (is_letter c1) && negb (c1 =? 33) && negb (c1 =? 63)); [injection H as <-; apply samele_mv; lia|].
    destruct (0 <? mark s); [injection H as <-; cbn [fst]; lia|].
    destruct ie; [injection H as <-; cbn [fst]; lia|].
    destruct (is_letter c1); [injection H as <-; cbn [fst]; lia|].
    destruct (c1 =? 33); [injection H as <-; cbn [fst]; lia|].
    destruct (c1 =? 63); injection H as <-; [cbn [fst]; lia|apply samele_refl].
  - destruct (eof0 s c0); injection H as <-; [cbn [fst]; lia|apply samele_mv; lia].
Qed.

Lemma text_eq z : tmpl_at c z = Ok false -> text_body c z = text_body no_tmpl z.
Proof. intros H. unfold text_body. rewrite H, tmpl_at_none. reflexivity. Qed.

(* where the text loop stops: at the same buffer; unless it reports text, nothing is selected *)
Lemma text_loop_post fuel z0 r : loop fuel (text_body no_tmpl) z0 = Ok r -> samele z0 (fst r) /\ (snd r <> DText -> mark (fst r) <= 0).
Proof.
  intros H. refine (loop_inv (fun s => samele z0 s) (fun r => samele z0 (fst r) /\ (snd r <> DText -> mark (fst r) <= 0)) (text_body no_tmpl) _ fuel z0 r (samele_refl _) H).
  intros s x I1 Hx. pose proof (proj2 (text_facts s x Hx)) as Hf. destruct x as [s'|r']; [eapply samele_trans; eauto|].
  unfold text_body in Hx. destruct (pkr s 0) as [c0| |]; cbn [rbind] in Hx; try discriminate. rewrite tmpl_at_none in Hx. cbn [rbind] in Hx.
  destruct (c0 =? 60).
  - dbind Hx c1 Ec1. dbind Hx ie Eie.
    destruct (negb ie && negb (is_letter c1) && negb (c1 =? 33) && negb (c1 =? 63)); [discriminate|].
    destruct (0 <? mark s) eqn:Em; [injection Hx as <-; cbn [fst snd]; split; [exact I1|congruence]|]. apply Z.ltb_ge in Em.
    destruct ie; [injection Hx as <-; cbn [fst snd]; split; [exact I1|intros _; exact Em]|].
    destruct (is_letter c1); [injection Hx as <-; cbn [fst snd]; split; [exact I1|intros _; exact Em]|].
    destruct (c1 =? 33); [injection Hx as <-; cbn [fst snd]; split; [exact I1|intros _; exact Em]|].
    destruct (c1 =? 63); [injection Hx as <-; cbn [fst snd]; split; [exact I1|intros _; exact Em]|discriminate].
  - destruct (eof0 s c0); [|discriminate]. injection Hx as <-. cbn [fst snd]. split; [exact I1|].
    destruct (0 <? mark s) eqn:Em; [congruence|]. apply Z.ltb_ge in Em. intros _. exact Em.
Qed.

Lemma lx_eq (a b : lx) : lbuf a = lbuf b -> lpos a = lpos b -> lstart a = lstart b -> a = b.
Proof. destruct a, b. cbn. intros -> -> ->. reflexivity. Qed.

(* ---- Next ------------------------------------------------------------------------------------------------------------------------------ *)
Lemma next_content_sim l1 r : lz l1 = lz l -> lstart (lz l) = lpos (lz l) -> lpos (lz l) <= hi ->
  next_content no_tmpl l1 = Ok r -> lpos (lz (snd r)) - 1 <= hi ->
  (fst (fst r) = TextT \/ fst (fst r) = ErrorT -> lpos (lz (snd r)) <= hi) -> lpos (lz (snd r)) <= len d ->
  next_content c l1 = Ok r.
Proof.
  intros Hl1 Hcl Ha H Hh Hinc Hed. pose proof (hi_le_hi2 d hi) as Hh2. unfold next_content in *. rewrite Hl1 in *.
  dbind H rd El. destruct rd as [z dd]. destruct (text_loop_post _ _ _ El) as [Hsz Hmk]. cbn [fst snd] in *.
  assert (Hst : lstart z = lpos (lz l)) by (destruct Hsz as [[_ Hst] _]; congruence).
  assert (Hz : lpos z <= hi).
  { destruct dd; try (specialize (Hmk ltac:(discriminate)); unfold mark in Hmk; lia).
    destruct (shiftv z) as [s| |] eqn:Es; cbn [rbind] in H; try discriminate. injection H as <-. cbn [fst snd lz] in Hinc.
    specialize (Hinc (or_introl eq_refl)). rewrite (shiftv_pos _ _ Es) in Hinc. exact Hinc. }
  assert (Hq : lpos z <= hi2 d hi) by lia.
  rewrite (direct_sim (fun z : lx => z) (fun r : lx * dispatch => lpos (fst r)) (text_body c) (text_body no_tmpl) text_facts text_eq _ (lz l) (z, dd) (samele_refl _) El Hq).
  cbn [rbind].
  assert (Hsk : forall k, 0 <= k -> samele (lz l) (mv z k)) by (intros k Hk; eapply samele_trans; [exact Hsz|apply samele_mv; exact Hk]).
  destruct dd.
  - exact H.
  - exfalso. exact (text_loop_not_tmpl _ _ _ El eq_refl).
  - cbn zeta in *. destruct (pkr (mv z 2) 0) as [c0| |]; cbn [rbind] in *; try discriminate. destruct (negb (is_letter c0)).
    + dbind H b Eb. assert (He : lpos (lz (snd r)) = lpos (snd (fst b))) by (injection H as <-; reflexivity).
      rewrite (shift_bogus_sim c d l hi Hc Htb Hb Hclean (mv z 2) (lhas l1) b (Hsk 2 ltac:(lia)) Eb ltac:(lia)). cbn [rbind]. exact H.
    + dbind H b Eb. assert (He : lpos (lz (snd r)) = lpos (snd (fst b))) by (injection H as <-; reflexivity).
      rewrite (shift_endtag_sim c d l hi Hc Htb Hb Hclean (mv z 2) (lhas l1) b (Hsk 2 ltac:(lia)) Hst Eb ltac:(lia) ltac:(lia)). cbn [rbind]. exact H.
  - exact (shift_starttag_sim _ (mv z 1) r (Hsk 1 ltac:(lia)) H Hh (fun E => Hinc (or_intror E))).
  - dbind H m Em. destruct m as [[[[ty tk] tx] z'] has]. assert (He : lpos (lz (snd r)) = lpos z') by (injection H as <-; reflexivity).
    rewrite (read_markup_sim c d l hi Hc Htb Hb Hclean (mv z 2) (lhas l1) (ty, tk, tx, z', has) (Hsk 2 ltac:(lia)) Em ltac:(cbn [fst snd]; lia)). cbn [rbind]. exact H.
  - dbind H b Eb. assert (He : lpos (lz (snd r)) = lpos (snd (fst b))) by (injection H as <-; reflexivity).
    rewrite (shift_bogus_sim c d l hi Hc Htb Hb Hclean (mv z 1) (lhas l1) b (Hsk 1 ltac:(lia)) Eb ltac:(lia)). cbn [rbind]. exact H.
  - exact H.
Qed.

Lemma next_intag_sim l1 r : lz l1 = lz l -> next_intag no_tmpl l1 = Ok r ->
  (fst (fst r) = AttributeT -> lpos (lz (snd r)) <= hi) -> lpos (lz (snd r)) <= len d -> next_intag c l1 = Ok r.
Proof.
  intros Hl1 H Hinc Hed. unfold next_intag in *. cbn [lz rawtag intag lerr ltext lattr lhas] in *. rewrite Hl1 in *.
  dbind H z1 E1. pose proof (ws_loop_samele _ _ E1) as S1. cbn [rbind].
  unfold pkr at 1 in H. unfold pkr at 1. destruct (pk z1 0) as [c0|] eqn:Ep; cbn [opt_res rbind] in *; [|discriminate].
  destruct (eof0 z1 c0); [exact H|].
  dbind H ia Eia. cbn [rbind]. destruct ia; [|exact H].
  dbind H a Ea. assert (He : lz (snd r) = lz (snd a) /\ fst (fst r) = AttributeT) by (injection H as <-; split; reflexivity).
  destruct He as [He1 He2]. rewrite He1 in *.
  rewrite (shift_attribute_sim _ z1 a S1 (ex_intro _ c0 Ep) Ea (Hinc He2) Hed). cbn [rbind]. exact H.
Qed.

(* one call: the token [a, e) is clean; its end too if the call looks there (text, attributes, the end of input) *)
Lemma next_sim r : lstart (lz l) = lpos (lz l) -> lpos (lz l) <= hi -> next no_tmpl l = Ok r ->
  lpos (lz (snd r)) - 1 <= hi ->
  (fst (fst r) = TextT \/ fst (fst r) = AttributeT \/ fst (fst r) = ErrorT -> lpos (lz (snd r)) <= hi) ->
  lpos (lz (snd r)) <= len d -> next c l = Ok r.
Proof.
  intros Hcl Ha H Hh Hinc Hed. unfold next in *. cbn [lz rawtag intag lerr ltext lattr lhas] in *.
  destruct (intag l).
  - refine (next_intag_sim _ r _ H _ Hed); [reflexivity|intros E; apply Hinc; tauto].
  - destruct (negb (rawtag l =? 0)).
    + dbind H rr Er. destruct rr as [[v z] has]. destruct (shift_rawtext_pos _ _ _ _ _ Er) as (Hbf & Hst & Hsn & Hle). cbn [fst snd] in *.
      assert (Hz : lpos z <= hi).
      { destruct (0 <? sn v) eqn:Esn.
        - injection H as <-. cbn [fst snd lz] in *. apply Hinc. tauto.
        - apply Z.ltb_ge in Esn. lia. }
      rewrite (shift_rawtext_sim (rawtag l) (lz l) false (v, z, has) (samele_refl _) Er Hz). cbn [rbind].
      destruct (0 <? sn v) eqn:Esn; [exact H|]. apply Z.ltb_ge in Esn.
      assert (Ez : z = lz l) by (apply lx_eq; [exact Hbf|lia|lia]).
      refine (next_content_sim _ r _ Hcl Ha H Hh _ Hed); [exact Ez|intros E; apply Hinc; tauto].
    + refine (next_content_sim _ r _ Hcl Ha H Hh _ Hed); [reflexivity|intros E; apply Hinc; tauto].
Qed.

End Tok2.
