(* Html/WfDoc.v — documents assembled from well-formed constructs (no template delimiters): the lexer returns
   exactly one token per construct with the promised type, bytes, Text()/AttrKey() and AttrVal(). *)
From Verif Require Import Common.Base Common.Tactics Common.Lx Gen.Tables Html.Model Html.Lemmas Html.ListLemmas
     Html.Hash Html.Safety Html.Step Html.Spec Html.RawText Html.Func Html.Proofs Html.Views Html.Template Html.Wf Html.Script.
From Coq Require Import ZifyBool.


(* ---- what the caller observes --------------------------------------------------------------------------------------- *)
Record obs := mkObs { o_ty : Z; o_data : list Z; o_text : list Z; o_val : list Z }.

Definition opt_bytes (buf : list Z) (o : option sl) : list Z := match o with Some v => view_bytes buf v | None => [] end.

(* type, token bytes, Text() / AttrKey(), AttrVal() (looked at for attribute tokens only), right after the call *)
Definition observe (r : Z * option sl * lexer) : obs :=
  let '(ty, tk, l') := r in
  mkObs ty (opt_bytes (lbuf (lz l')) tk) (opt_bytes (lbuf (lz l')) (ltext l'))
        (if ty =? AttributeT then opt_bytes (lbuf (lz l')) (lattr l') else []).

Definition final (l : lexer) (tr : list (Z * option sl * lexer)) : lexer := last (map snd tr) l.

Lemma last_nondefault {A} (b : list A) d1 d2 : b <> [] -> last b d1 = last b d2.
Proof.
  induction b as [|x b IH]; intros H; [congruence|]. destruct b as [|y b]; [reflexivity|].
  change (last (x :: y :: b) d1) with (last (y :: b) d1). change (last (x :: y :: b) d2) with (last (y :: b) d2).
  apply IH. discriminate.
Qed.

Lemma last_app_default {A} (a b : list A) d : last (a ++ b) d = last b (last a d).
Proof.
  revert d. induction a as [|x a IH]; intros d; [reflexivity|].
  destruct a as [|y a].
  - cbn [app]. destruct b as [|z b]; [reflexivity|]. change (last (x :: z :: b) d) with (last (z :: b) d).
    apply last_nondefault. discriminate.
  - change ((x :: y :: a) ++ b) with (x :: (y :: a) ++ b). change (last (x :: y :: a) d) with (last (y :: a) d).
    rewrite <- IH. reflexivity.
Qed.

Lemma final_app l tr1 tr2 : final l (tr1 ++ tr2) = final (final l tr1) tr2.
Proof. unfold final. rewrite map_app. apply last_app_default. Qed.

Lemma run_app c a b : forall l, run c (a + b) l = (tr1 <-- run c a l;; tr2 <-- run c b (final l tr1);; Ok (tr1 ++ tr2)).
Proof.
  induction a as [|a IH]; intros l; [cbn [run Nat.add rbind]; change (final l []) with l; destruct (run c b l); reflexivity|].
  cbn [Nat.add run]. destruct (next c l) as [r| |]; cbn [rbind]; try reflexivity.
  rewrite IH. destruct (run c a (snd r)) as [tr1| |]; cbn [rbind]; try reflexivity.
  assert (Hf : final l (r :: tr1) = final (snd r) tr1).
  { unfold final. cbn [map]. destruct (map snd tr1) eqn:E; [reflexivity|]. change (last (snd r :: l0 :: l1) l) with (last (l0 :: l1) l).
    apply last_nondefault. discriminate. }
  rewrite Hf. destruct (run c b (final (snd r) tr1)); reflexivity.
Qed.

(* from state l, standing before X ++ rest, the next (length os) calls give the observations os and end before rest *)
Definition lexes (d : list Z) (l : lexer) (pre X rest : list Z) (os : list obs) (l' : lexer) : Prop :=
  exists tr, run no_tmpl (length os) l = Ok tr /\ map observe tr = os /\ final l tr = l' /\ at_input d l' (pre ++ X) rest.

Lemma lexes_nil d l pre rest : at_input d l pre rest -> lexes d l pre [] rest [] l.
Proof. intros H. exists []. cbn. rewrite app_nil_r. tauto. Qed.

Lemma lexes_app d l pre X1 X2 rest os1 os2 l1 l2 :
  lexes d l pre X1 (X2 ++ rest) os1 l1 -> lexes d l1 (pre ++ X1) X2 rest os2 l2 ->
  lexes d l pre (X1 ++ X2) rest (os1 ++ os2) l2.
Proof.
  intros (tr1 & R1 & O1 & F1 & A1) (tr2 & R2 & O2 & F2 & A2).
  exists (tr1 ++ tr2). rewrite app_length, run_app, R1. cbn [rbind]. rewrite F1, R2. cbn [rbind].
  split; [reflexivity|]. split; [rewrite map_app, O1, O2; reflexivity|]. split; [rewrite final_app, F1; exact F2|].
  rewrite app_assoc. exact A2.
Qed.

Lemma lexes_one d l pre X rest ty v l' o : at_input d l pre (X ++ rest) ->
  next no_tmpl l = Ok (ty, Some v, l') -> so v + sn v = len pre + len X -> observe (ty, Some v, l') = o ->
  lexes d l pre X rest [o] l'.
Proof.
  intros Hat Hn Hv Ho. exists [(ty, Some v, l')]. cbn [length run]. rewrite Hn. cbn [rbind snd map].
  split; [reflexivity|]. split; [rewrite Ho; reflexivity|]. split; [reflexivity|].
  eapply at_input_next; eauto.
Qed.

(* tokens other than ErrorToken never change l.err *)
Lemma chain_lerr tr : forall l, chain l tr -> Forall (fun r => fst (fst r) <> ErrorT) tr -> lerr (final l tr) = lerr l.
Proof.
  induction tr as [|r tr IH]; intros l Hch Hne; [reflexivity|].
  cbn [chain] in Hch. destruct Hch as [Hs Hch]. inversion Hne as [|? ? Hr Hne']; subst.
  destruct r as [[ty tk] l1]. cbn [fst snd] in *.
  assert (Hf : final l ((ty, tk, l1) :: tr) = final l1 tr).
  { unfold final. cbn [map snd]. destruct (map snd tr) eqn:E; [reflexivity|]. change (last (l1 :: l0 :: l2) l) with (last (l0 :: l2) l).
    apply last_nondefault. discriminate. }
  rewrite Hf, (IH l1 Hch Hne'). cbn [step_post] in Hs.
  destruct Hs as (_ & _ & _ & _ & _ & _ & _ & _ & _ & _ & Hk). apply Hk, Hr.
Qed.

Lemma lexes_lerr d l pre X rest os l' : lwf l -> lexes d l pre X rest os l' ->
  Forall (fun o => o_ty o <> ErrorT) os -> lerr l' = lerr l.
Proof.
  intros Hl (tr & Hr & Ho & Hf & _) Hne. destruct (run_inv_chain no_tmpl _ l tr cfg_ok_no_tmpl Hl Hr) as [_ Hch].
  rewrite <- Hf. apply chain_lerr; [exact Hch|]. rewrite <- Ho in Hne. rewrite Forall_map in Hne.
  eapply Forall_impl; [|exact Hne]. intros [[ty tk] l1] H. exact H.
Qed.

(* bytes of the input as seen through the buffer before the call *)
Lemma at_input_view d l pre s a n : at_input d l pre s -> 0 <= a -> 0 <= n -> a + n <= len s ->
  view_bytes (lbuf (lz l)) (mkSl (len pre + a) n) = slice s a (a + n).
Proof.
  intros Hat Ha Hn Hl. unfold view_bytes. cbn [so sn]. replace (len pre + a + n) with (len pre + (a + n)) by lia.
  apply (at_input_slice d l pre s a (a + n) Hat); lia.
Qed.

Lemma at_input_view0 d l pre s n : at_input d l pre s -> 0 <= n -> n <= len s ->
  view_bytes (lbuf (lz l)) (mkSl (len pre) n) = slice s 0 n.
Proof.
  intros Hat Hn Hl. pose proof (at_input_view d l pre s 0 n Hat ltac:(lia) Hn ltac:(lia)) as H.
  replace (len pre + 0) with (len pre) in H by lia. exact H.
Qed.

Lemma slice_mid {A} (x y z : list A) : slice (x ++ y ++ z) (len x) (len x + len y) = y.
Proof.
  unfold slice. rewrite skipz_app_len. replace (len x + len y - len x) with (len y) by lia.
  unfold firstz, len. rewrite Nat2Z.id, firstn_app, Nat.sub_diag, firstn_all. cbn. apply app_nil_r.
Qed.

Lemma slice_first {A} (y z : list A) : slice (y ++ z) 0 (len y) = y.
Proof. apply (slice_mid [] y z). Qed.

Lemma at_input_buflen d l pre s : at_input d l pre s -> len (lbuf (lz l)) = len pre + len s + 1 /\ 0 <= len pre.
Proof.
  intros (Hi & _ & -> & _). destruct Hi as ((Hw & _) & Hlen & _). pose proof (lx_wf_len _ Hw) as [Hbl _].
  rewrite len_app in Hlen. split; [lia|apply len_nonneg].
Qed.

(* ---- the construct grammar ---------------------------------------------------------------------------------------------- *)
Inductive attr :=
| ANone (ws1 key : list Z)                       (* ws key *)
| AVal (ws1 key ws2 ws3 val : list Z).           (* ws key ws = ws value   (value unquoted or quoted, quotes included) *)

Definition attr_bytes (a : attr) : list Z :=
  match a with
  | ANone w k => w ++ k
  | AVal w k w2 w3 v => w ++ k ++ w2 ++ 61 :: w3 ++ v
  end.

Definition attr_obs (a : attr) : obs :=
  match a with
  | ANone w k => mkObs AttributeT (w ++ map lower k) (map lower k) []
  | AVal w k w2 w3 v => mkObs AttributeT (w ++ map lower k ++ w2 ++ 61 :: w3 ++ v) (map lower k) v
  end.

Definition closer (void : bool) : list Z := if void then [47; 62] else [62].

Definition all_ws (w : list Z) : Prop := Forall (fun c => is_ws c = true) w.

(* an attribute followed (inside the tag) by the bytes after *)
Definition wf_attr (a : attr) (after : list Z) : Prop :=
  match a with
  | ANone w k => w <> [] /\ all_ws w /\ k <> [] /\ Forall keychar k
  | AVal w k w2 w3 v => w <> [] /\ all_ws w /\ k <> [] /\ Forall keychar k /\ all_ws w2 /\ all_ws w3 /\
                        (unquoted_value v after \/ quoted_value v \/ (cut_quoted_value v /\ after = []))
                        (* the last: a quoted value cut by the end of input (only possible in ICutTag) *)
  end.

Fixpoint wf_attrs (attrs : list attr) (tail : list Z) : Prop :=
  match attrs with
  | [] => True
  | a :: rest => wf_attr a (concat (map attr_bytes rest) ++ tail) /\ wf_attrs rest tail
  end.

(* the rest of a tag: attributes, then optional whitespace and '>' or '/>' *)
Definition tag_rest (attrs : list attr) (ws : list Z) (void : bool) : list Z :=
  concat (map attr_bytes attrs) ++ ws ++ closer void.

Lemma closer_ne void : closer void <> [].
Proof. destruct void; discriminate. Qed.

(* the bytes after a tag name or an attribute start like this *)
Definition tagrest_shape (f : list Z) : Prop :=
  exists ws2 r2, f = ws2 ++ r2 /\ all_ws ws2 /\
    ((ws2 <> [] /\ exists c r, r2 = c :: r /\ keychar c) \/ (exists r, r2 = 62 :: r) \/ (exists r, r2 = 47 :: 62 :: r) \/
     r2 = []).                                                                 (* the end of input inside the tag *)

Lemma tag_rest_shape attrs ws void rest : wf_attrs attrs (ws ++ closer void) -> all_ws ws ->
  tagrest_shape (tag_rest attrs ws void ++ rest).
Proof.
  intros Hwf Hws. unfold tag_rest. destruct attrs as [|a attrs'].
  - cbn [map concat app]. exists ws, (closer void ++ rest). rewrite <- app_assoc. split; [reflexivity|]. split; [exact Hws|].
    right. destruct void; cbn [closer app]; eauto.
  - cbn [wf_attrs] in Hwf. destruct Hwf as [Ha _]. cbn [map concat].
    assert (Hk : forall w k tl, w <> [] -> all_ws w -> k <> [] -> Forall keychar k ->
                 tagrest_shape ((w ++ k ++ tl))).
    { intros w k tl Hw1 Hw2 Hk1 Hk2. exists w, (k ++ tl). split; [reflexivity|]. split; [exact Hw2|]. left. split; [exact Hw1|].
      destruct k as [|c k']; [congruence|]. inversion Hk2; subst. exists c, (k' ++ tl). split; [reflexivity|assumption]. }
    destruct a as [w k|w k w2 w3 v]; cbn [attr_bytes wf_attr] in *.
    + destruct Ha as (A1 & A2 & A3 & A4). rewrite <- !app_assoc. apply Hk; assumption.
    + destruct Ha as (A1 & A2 & A3 & A4 & _). rewrite <- !app_assoc. apply Hk; assumption.
Qed.

Lemma keychar_props c : keychar c -> is_ws c = false /\ c <> 61 /\ c <> 62 /\ c <> 47.
Proof. exact (fun H => H). Qed.

(* consequences of the shape used by the construct lemmas *)
Lemma shape_tag_stop f : tagrest_shape f -> tag_stop f.
Proof.
  intros (ws2 & r2 & -> & Hws & Hr). destruct ws2 as [|w ws2'].
  - cbn [app]. destruct Hr as [[H _]|[(r & ->)|[(r & ->)| ->]]]; [congruence| | |left; reflexivity]; right.
    + exists 62, r. split; [reflexivity|tauto].
    + exists 47, (62 :: r). split; [reflexivity|]. right; right. split; [reflexivity|eauto].
  - right. exists w, (ws2' ++ r2). split; [reflexivity|left]. inversion Hws; assumption.
Qed.

Lemma shape_key_stop f : tagrest_shape f -> exists ws2 r2, f = ws2 ++ r2 /\ all_ws ws2 /\ attr_follow r2 /\ key_stop (ws2 ++ r2).
Proof.
  intros (ws2 & r2 & -> & Hws & Hr). exists ws2, r2. split; [reflexivity|]. split; [exact Hws|]. split.
  - destruct Hr as [(_ & c & r & -> & Hk)|[(r & ->)|[(r & ->)| ->]]]; [right|right|right|left; reflexivity].
    + exists c, r. destruct Hk as (K1 & K2 & _). tauto.
    + exists 62, r. repeat split; discriminate || reflexivity.
    + exists 47, (62 :: r). repeat split; discriminate || reflexivity.
  - destruct ws2 as [|w ws2'].
    + cbn [app]. destruct Hr as [[H _]|[(r & ->)|[(r & ->)| ->]]]; [congruence|right|right|left; reflexivity].
      * exists 62, r. split; [reflexivity|tauto].
      * exists 47, (62 :: r). split; [reflexivity|]. right; right; right. split; [reflexivity|eauto].
    + right. exists w, (ws2' ++ r2). split; [reflexivity|left]. inversion Hws; assumption.
Qed.

Lemma shape_unquoted_follow f : tagrest_shape f -> (exists c r, f = c :: r /\ (is_ws c = true \/ c = 62)) \/ (exists r, f = 47 :: 62 :: r) \/ f = [].
Proof.
  intros (ws2 & r2 & -> & Hws & Hr). destruct ws2 as [|w ws2'].
  - cbn [app]. destruct Hr as [[H _]|[(r & ->)|[(r & ->)| ->]]]; [congruence|left; eauto|right; left; eauto|right; right; reflexivity].
  - left. exists w, (ws2' ++ r2). split; [reflexivity|left]. inversion Hws; assumption.
Qed.

(* ---- one attribute ------------------------------------------------------------------------------------------------------ *)
Lemma unquoted_value_app v f rest : (f <> [] \/ rest = []) -> unquoted_value v f -> unquoted_value v (f ++ rest).
Proof.
  intros [Hne| ->]; [|rewrite app_nil_r; tauto]. intros (H1 & H2 & H3). split; [exact H1|]. split; [exact H2|]. right.
  destruct H3 as [->|(c & r & -> & Hc)]; [congruence|]. exists c, (r ++ rest). split; [reflexivity|exact Hc].
Qed.

Lemma slice_zero_len {A} (s : list A) a : slice s a (a + 0) = [].
Proof. unfold slice, firstz. replace (a + 0 - a) with 0 by lia. reflexivity. Qed.

Lemma lexes_attr d l pre a f0 rest : at_input d l pre (attr_bytes a ++ f0 ++ rest) -> intag l = true ->
  wf_attr a f0 -> (f0 <> [] \/ rest = []) -> tagrest_shape (f0 ++ rest) ->
  exists l', lexes d l pre (attr_bytes a) (f0 ++ rest) [attr_obs a] l' /\ intag l' = true /\ rawtag l' = rawtag l.
Proof.
  intros Hat Hit Hwf Hne Hshape. destruct (at_input_buflen _ _ _ _ Hat) as [Hbl Hpre0].
  destruct a as [w k|w k w2 w3 v]; cbn [attr_bytes wf_attr attr_obs] in *.
  - destruct Hwf as (W1 & W2 & K1 & K2).
    destruct (shape_key_stop _ Hshape) as (ws2 & r2 & Ef & Hws2 & Hfol & Hstop).
    assert (Hat' : at_input d l pre (w ++ k ++ ws2 ++ r2)) by (rewrite <- Ef, app_assoc; exact Hat).
    destruct (next_attr_valueless d l pre w k ws2 r2 Hat' Hit W2 K1 K2 Hstop Hws2 Hfol) as (l' & Hn & Ht & Ha & Hb & Hi' & Hr' & _).
    exists l'. split; [|tauto].
    pose proof (len_nonneg w). pose proof (len_nonneg k). pose proof (len_nonneg (f0 ++ rest)).
    assert (Hlen : len ((w ++ k) ++ f0 ++ rest) = len w + len k + len (f0 ++ rest)) by (rewrite !len_app; lia).
    eapply (lexes_one d l pre (w ++ k) (f0 ++ rest)); [exact Hat|exact Hn|cbn [so sn]; rewrite len_app; lia|].
    cbn [observe]. rewrite Ht, Ha, Hb. cbn [opt_bytes]. change (AttributeT =? AttributeT) with true. cbn [opt_bytes]. f_equal.
    + replace (mkSl (len pre + len w) (len k)) with (mkSl (len pre + len w) (len w + len k - len w)) by (f_equal; lia).
      rewrite view_lower_middle by lia.
      rewrite (at_input_view0 d l pre _ (len w) Hat) by lia.
      replace (len w + len k - len w) with (len k) by lia.
      rewrite (at_input_view d l pre _ (len w) (len k) Hat) by lia.
      replace (len w + len k - (len w + len k)) with 0 by lia.
      replace (len pre + (len w + len k)) with (len pre + (len w + len k)) by lia.
      rewrite (at_input_view d l pre _ (len w + len k) 0 Hat) by lia.
      rewrite slice_zero_len, app_nil_r. rewrite <- app_assoc.
      rewrite (slice_first w), (slice_mid w k). reflexivity.
    + rewrite view_bytes_lower_view by (cbn [so sn]; lia).
      rewrite (at_input_view d l pre _ (len w) (len k) Hat) by lia. rewrite <- app_assoc, (slice_mid w k). reflexivity.
  - destruct Hwf as (W1 & W2 & K1 & K2 & W3 & W4 & Hv).
    assert (Hv' : unquoted_value v (f0 ++ rest) \/ quoted_value v \/ (cut_quoted_value v /\ f0 ++ rest = [])).
    { destruct Hv as [Hv|[Hv|[Hv Haf]]]; [left; apply unquoted_value_app; assumption|right; left; assumption|].
      right. right. split; [exact Hv|]. subst f0. destruct Hne as [Hne| ->]; [congruence|reflexivity]. }
    assert (Hat' : at_input d l pre (w ++ k ++ w2 ++ 61 :: w3 ++ v ++ f0 ++ rest)).
    { replace (w ++ k ++ w2 ++ 61 :: w3 ++ v ++ f0 ++ rest) with ((w ++ k ++ w2 ++ 61 :: w3 ++ v) ++ f0 ++ rest); [exact Hat|].
      rewrite <- ?app_assoc. cbn [app]. rewrite <- ?app_assoc. reflexivity. }
    destruct (next_attr_valued d l pre w k w2 w3 v (f0 ++ rest) Hat' Hit W2 K1 K2 W3 W4 Hv') as (l' & Hn & Ht & Ha & Hb & Hi' & Hr' & _).
    exists l'. split; [|tauto].
    pose proof (len_nonneg w). pose proof (len_nonneg k). pose proof (len_nonneg w2). pose proof (len_nonneg w3). pose proof (len_nonneg v).
    pose proof (len_nonneg (f0 ++ rest)).
    set (n := len w + len k + len w2 + 1 + len w3 + len v) in *.
    assert (Hn' : len (w ++ k ++ w2 ++ 61 :: w3 ++ v) = n) by (unfold n; rewrite !len_app, len_cons, !len_app; lia).
    assert (Hlen : len (w ++ k ++ w2 ++ 61 :: w3 ++ v ++ f0 ++ rest) = n + len (f0 ++ rest)) by (unfold n; rewrite !len_app, len_cons, !len_app; lia).
    assert (Hbl2 : len (lbuf (lz l)) = len pre + n + len (f0 ++ rest) + 1) by (rewrite Hbl, (len_app (w ++ k ++ w2 ++ 61 :: w3 ++ v)), Hn'; lia).
    eapply (lexes_one d l pre _ (f0 ++ rest)); [exact Hat|exact Hn|cbn [so sn]; lia|].
    cbn [observe]. rewrite Ht, Ha, Hb. cbn [opt_bytes]. change (AttributeT =? AttributeT) with true. cbn [opt_bytes]. f_equal.
    + replace (mkSl (len pre + len w) (len k)) with (mkSl (len pre + len w) (len w + len k - len w)) by (f_equal; lia).
      rewrite view_lower_middle by lia.
      rewrite (at_input_view0 d l pre _ (len w) Hat') by lia.
      replace (len w + len k - len w) with (len k) by lia.
      rewrite (at_input_view d l pre _ (len w) (len k) Hat') by lia.
      rewrite (at_input_view d l pre _ (len w + len k) (n - (len w + len k)) Hat') by lia.
      rewrite (slice_first w), (slice_mid w k).
      replace (len w + len k + (n - (len w + len k))) with (len (w ++ k) + len (w2 ++ 61 :: w3 ++ v))
        by (unfold n; rewrite !len_app, len_cons, !len_app; lia).
      replace (len w + len k) with (len (w ++ k)) by (rewrite len_app; lia).
      replace (w ++ k ++ w2 ++ 61 :: w3 ++ v ++ f0 ++ rest) with ((w ++ k) ++ (w2 ++ 61 :: w3 ++ v) ++ f0 ++ rest)
        by (rewrite <- ?app_assoc; cbn [app]; rewrite <- ?app_assoc; reflexivity).
      rewrite slice_mid. reflexivity.
    + rewrite view_bytes_lower_view by (cbn [so sn]; lia).
      rewrite (at_input_view d l pre _ (len w) (len k) Hat') by lia. rewrite (slice_mid w k). reflexivity.
    + rewrite view_lower_outside by (cbn [so sn]; lia).
      replace (len pre + n - len v) with (len pre + (n - len v)) by lia.
      rewrite (at_input_view d l pre _ (n - len v) (len v) Hat') by lia.
      replace (n - len v) with (len (w ++ k ++ w2 ++ 61 :: w3)) by (unfold n; rewrite !len_app, len_cons; lia).
      replace (w ++ k ++ w2 ++ 61 :: w3 ++ v ++ f0 ++ rest) with ((w ++ k ++ w2 ++ 61 :: w3) ++ v ++ f0 ++ rest)
        by (rewrite <- ?app_assoc; cbn [app]; rewrite <- ?app_assoc; reflexivity).
      apply slice_mid.
Qed.

(* ---- all attributes of a tag ---------------------------------------------------------------------------------------------- *)
Lemma lexes_attrs attrs : forall d l pre tail rest, at_input d l pre (concat (map attr_bytes attrs) ++ tail ++ rest) ->
  intag l = true -> wf_attrs attrs tail -> (tail <> [] \/ rest = []) ->
  (forall attrs', wf_attrs attrs' tail -> tagrest_shape ((concat (map attr_bytes attrs') ++ tail) ++ rest)) ->
  exists l', lexes d l pre (concat (map attr_bytes attrs)) (tail ++ rest) (map attr_obs attrs) l' /\
             intag l' = true /\ rawtag l' = rawtag l.
Proof.
  induction attrs as [|a attrs IH]; intros d l pre tail rest Hat Hit Hwf Hne Hshape.
  - exists l. split; [apply lexes_nil; exact Hat|tauto].
  - cbn [map concat wf_attrs] in *. destruct Hwf as [Ha Hwf].
    set (f0 := concat (map attr_bytes attrs) ++ tail).
    assert (Hf0 : f0 <> [] \/ rest = []) by (destruct Hne as [Hne|Hne]; [left; unfold f0; intros E; apply app_eq_nil in E; destruct E; congruence|right; exact Hne]).
    assert (Hat' : at_input d l pre (attr_bytes a ++ f0 ++ rest)) by (unfold f0; rewrite <- !app_assoc in *; exact Hat).
    destruct (lexes_attr d l pre a f0 rest Hat' Hit Ha Hf0 (Hshape attrs Hwf)) as (l1 & Hl1 & Hi1 & Hr1).
    assert (Hat1 : at_input d l1 (pre ++ attr_bytes a) (concat (map attr_bytes attrs) ++ tail ++ rest)).
    { destruct Hl1 as (tr & _ & _ & _ & A). unfold f0 in A. rewrite <- app_assoc in A. exact A. }
    destruct (IH d l1 (pre ++ attr_bytes a) tail rest Hat1 Hi1 Hwf Hne Hshape) as (l2 & Hl2 & Hi2 & Hr2).
    exists l2. split; [|split; [exact Hi2|congruence]].
    change (attr_obs a :: map attr_obs attrs) with ([attr_obs a] ++ map attr_obs attrs).
    eapply lexes_app; [|exact Hl2]. unfold f0 in Hl1. rewrite <- app_assoc in Hl1. exact Hl1.
Qed.

(* ---- the content of a raw-text element ---------------------------------------------------------------------------------- *)
(* no "</" inside the content *)
Definition no_lt_slash (content : list Z) : Prop :=
  forall k, peekz content k = Some 60 -> peekz content (k + 1) <> Some 47.

(* no "<!--" inside the content (what opens the double-escape section of a script) *)
Definition no_comment_open (content : list Z) : Prop :=
  forall k, ~ (peekz content k = Some 60 /\ peekz content (k + 1) = Some 33 /\
               peekz content (k + 2) = Some 45 /\ peekz content (k + 3) = Some 45).

(* script content with "<!--" sections: the double-escape rules (Script.script_len) designate the end tag that follows the
   content, whatever tag end comes after its name *)
Definition script_content (content ename : list Z) : Prop :=
  forall tail, (exists c r, tail = c :: r /\ is_tagend c = true) ->
    script_len (content ++ 60 :: 47 :: ename ++ tail) = len content.

Lemma lexes_rawtext d l pre content ename erest h :
  at_input d l pre (content ++ 60 :: 47 :: ename ++ erest) -> intag l = false -> rawtag l = h ->
  is_raw_hash h = true -> is_xml_hash h = false -> h <> html_hash_Plaintext ->
  (h <> html_hash_Script \/ no_comment_open content \/ (h = html_hash_Script /\ script_content content ename)) ->
  content <> [] -> no_lt_slash content ->
  Forall (fun c => is_letter c = true) ename -> to_hash (map lower ename) = Ok h ->
  (exists c r, erest = c :: r /\ is_tagend c = true) ->
  exists l', lexes d l pre content (60 :: 47 :: ename ++ erest) [mkObs TextT content content []] l' /\
             intag l' = false /\ rawtag l' = 0.
Proof.
  intros Hat Hit Hraw Hrh Hxh Hnp Hns Hne Hnls Hlet Hhash (ce & re & Ee & Hte).
  assert (Hce : is_letter ce = false) by (apply tagend_not_letter; exact Hte).
  pose proof Hat as (Hi & Hcl & Hd & Hp). pose proof Hi as (Hl & Hlen & Hsuf & _).
  destruct (at_input_buflen _ _ _ _ Hat) as [Hbl Hpre0].
  pose proof (len_nonneg content). pose proof (len_nonneg ename). pose proof (len_nonneg erest).
  assert (Hcpos : 0 < len content) by (destruct content; [congruence|rewrite len_cons; pose proof (len_nonneg content); lia]).
  assert (Hh0 : h <> 0).
  { intros ->. unfold is_raw_hash in Hrh. vm_compute in Hrh. discriminate. }
  set (m := len pre + len content).
  set (s := content ++ 60 :: 47 :: ename ++ erest) in *.
  assert (Hlens : len s = len content + 2 + len ename + len erest) by (unfold s; rewrite len_app, !len_cons, len_app; lia).
  (* bytes of d ++ [0] at and after pre *)
  assert (Hpk : forall k, 0 <= k < len s -> peekz (d ++ [0]) (len pre + k) = peekz s k).
  { intros k Hk. rewrite Hd, <- app_assoc. rewrite peekz_app_rk by lia. apply peekz_app_l. lia. }
  (* (1) the end tag of the element stands at m *)
  assert (Hm : end_tag_at h (d ++ [0]) m).
  { unfold end_tag_at, m. 
    split; [rewrite Hpk by lia; unfold s; rewrite peekz_app_r0; apply peekz_cons_0|].
    split; [replace (len pre + len content + 1) with (len pre + (len content + 1)) by lia; rewrite Hpk by lia; unfold s; rewrite peekz_app_rk by lia; apply peekz_1|].
    exists (len ename). split; [lia|]. split; [|split].
    - intros i Hir. set (j := i - len pre - len content - 2).
      replace i with (len pre + (len content + (j + 1 + 1))) by (unfold j; lia).
      rewrite Hpk by (unfold j; lia). unfold s. rewrite peekz_app_rk by (unfold j; lia).
      rewrite !peekz_cons_succ by (unfold j; lia).
      destruct (peekz_in ename j ltac:(unfold j; lia)) as (c & Hc & Hin).
      rewrite peekz_app_l by (unfold j; lia). exists c. split; [exact Hc|]. rewrite Forall_forall in Hlet. apply Hlet, Hin.
    - exists ce. split; [|split; [exact Hce|intros _; left; exact Hte]].
      replace (len pre + len content + 2 + len ename) with (len pre + (len content + (len ename + 1 + 1))) by lia.
      rewrite Hpk by (rewrite Hlens, Ee, len_cons; pose proof (len_nonneg re); lia). unfold s. rewrite peekz_app_rk by lia.
      rewrite !peekz_cons_succ by lia.
      rewrite peekz_app_r0, Ee. apply peekz_cons_0.
    - rewrite <- Hhash. f_equal. f_equal.
      replace (len pre + len content + 2) with (len pre + (len content + 2)) by lia.
      replace (len pre + (len content + 2) + len ename) with (len pre + (len content + 2 + len ename)) by lia.
      rewrite Hd, <- app_assoc. 
      assert (Hsl : slice (pre ++ s ++ [0]) (len pre + (len content + 2)) (len pre + (len content + 2 + len ename)) = slice s (len content + 2) (len content + 2 + len ename)).
      { apply peekz_ext. intros i. destruct (Z.lt_ge_cases i 0) as [Hn|Hn]; [rewrite !peekz_neg by lia; reflexivity|].
        destruct (Z.lt_ge_cases i (len ename)) as [Hlt|Hge].
        - rewrite !peekz_slice by lia. replace (len pre + (len content + 2) + i) with (len pre + (len content + 2 + i)) by lia.
          rewrite peekz_app_rk by lia. apply peekz_app_l. lia.
        - assert (N1 : peekz (slice (pre ++ s ++ [0]) (len pre + (len content + 2)) (len pre + (len content + 2 + len ename))) i = None)
            by (apply peekz_none_iff; rewrite len_slice by (rewrite ?len_app; change (len [0]) with 1; lia); lia).
          assert (N2 : peekz (slice s (len content + 2) (len content + 2 + len ename)) i = None)
            by (apply peekz_none_iff; rewrite len_slice by lia; lia).
          congruence. }
      rewrite Hsl. unfold s.
      replace (content ++ 60 :: 47 :: ename ++ erest) with ((content ++ [60; 47]) ++ ename ++ erest) by (rewrite <- app_assoc; reflexivity).
      replace (len content + 2) with (len (content ++ [60; 47])) by (rewrite len_app; reflexivity).
      apply slice_mid. }
  (* (2) no end tag inside the content *)
  assert (Hnone : forall p, len pre <= p < m -> ~ end_tag_at h (d ++ [0]) p).
  { intros p Hpr (P0 & P1 & _). unfold m in Hpr.
    replace p with (len pre + (p - len pre)) in P0 by lia. rewrite Hpk in P0 by lia.
    replace (p + 1) with (len pre + (p - len pre + 1)) in P1 by lia. rewrite Hpk in P1 by lia.
    unfold s in P0, P1. rewrite peekz_app_l in P0 by lia.
    destruct (Z.eq_dec (p - len pre + 1) (len content)) as [E|E].
    - rewrite E, peekz_app_r0, peekz_cons_0 in P1. discriminate.
    - rewrite peekz_app_l in P1 by lia. exact (Hnls _ P0 P1). }
  (* (3) no "<!--" up to and including m *)
  assert (Hpr : (h <> html_hash_Script \/ no_comment_open content) -> plain_raw h (d ++ [0]) (len pre) (m + 1)).
  { intros [Hns2|Hnc]; [left; exact Hns2|right]. intros p Hpr (C0 & C1 & C2 & C3). unfold m in Hpr.
    assert (Hlen3 : 1 <= len erest) by (rewrite Ee, len_cons; pose proof (len_nonneg re); lia).
    set (k := p - len pre) in *.
    replace p with (len pre + k) in C0 by (unfold k; lia). rewrite Hpk in C0 by (unfold k; lia).
    replace (p + 1) with (len pre + (k + 1)) in C1 by (unfold k; lia). rewrite Hpk in C1 by (unfold k; lia).
    assert (S60 : peekz s (len content) = Some 60) by (unfold s; rewrite peekz_app_r0; apply peekz_cons_0).
    destruct (Z.eq_dec k (len content)) as [Ek|Ek].
    { rewrite Ek in C1. unfold s in C1. rewrite peekz_app_rk in C1 by lia. rewrite peekz_1 in C1. discriminate. }
    destruct (Z.eq_dec (k + 1) (len content)) as [E1|E1]; [rewrite E1, S60 in C1; discriminate|].
    replace (p + 2) with (len pre + (k + 2)) in C2 by (unfold k; lia). rewrite Hpk in C2 by (unfold k; lia).
    destruct (Z.eq_dec (k + 2) (len content)) as [E2|E2]; [rewrite E2, S60 in C2; discriminate|].
    replace (p + 3) with (len pre + (k + 3)) in C3 by (unfold k; lia). rewrite Hpk in C3 by (unfold k; lia).
    destruct (Z.eq_dec (k + 3) (len content)) as [E3|E3]; [rewrite E3, S60 in C3; discriminate|].
    apply (Hnc k). unfold s in C0, C1, C2, C3.
    rewrite peekz_app_l in C0, C1, C2, C3 by (unfold k in *; lia). tauto. }
  (* the call *)
  destruct (html_total_step_proof no_tmpl d l cfg_ok_no_tmpl Hi) as (ty & tk & l' & Hn & Hi').
  assert (Hlend : len d = len pre + len s) by (rewrite Hd, len_app; reflexivity).
  assert (Hfacts : ty = TextT /\ tk = Some (mkSl (len pre) (m - len pre)) /\ ltext l' = tk /\
                   rawtag l' = 0 /\ intag l' = false /\ lpos (lz l') = m).
  { assert (Hold : (h <> html_hash_Script \/ no_comment_open content) -> ty = TextT /\ tk = Some (mkSl (len pre) (m - len pre)) /\ ltext l' = tk /\
                   rawtag l' = 0 /\ intag l' = false /\ lpos (lz l') = m).
    { intros Hns2. specialize (Hpr Hns2).
      destruct (html_rawtext_proof no_tmpl d l ty tk l' cfg_ok_no_tmpl Hi Hit ltac:(rewrite Hraw; exact Hh0) Hn) as (e & He & Htok & Hend & Hmin).
      rewrite Hraw in *. rewrite Hp in *.
      assert (Hem : e = m).
      { destruct (Z.lt_trichotomy e m) as [Hlt|[?|Hgt]]; [|assumption|].
        - exfalso. destruct Hend as [->|[_ Hend]]; [unfold m in Hlt; lia|]. apply (Hnone e); [lia|exact Hend].
        - exfalso. apply (Hmin eq_refl Hnp m); [unfold m in *; lia|exact Hpr|exact Hm]. }
      subst e. exact (Htok ltac:(unfold m; lia)). }
    destruct Hns as [Hns|[Hns|(Ehs & Hsc)]]; [apply Hold; left; exact Hns|apply Hold; right; exact Hns|].
    assert (Hraw' : rawtag l = html_hash_Script) by congruence.
    pose proof (html_script_end_proof d l ty tk l' Hi Hit Hraw' Hn) as Hse. cbn zeta in Hse.
    assert (Esk : skipz (lpos (lz l)) d = s) by (rewrite Hp, Hd; apply skipz_app_len).
    rewrite Esk in Hse. replace (script_len s) with (len content) in Hse by (symmetry; unfold s; apply Hsc; eauto). rewrite Hp in Hse. fold m in Hse.
    destruct Hse as [_ Hse]. exact (Hse ltac:(unfold m; lia)). }
  destruct Hfacts as (-> & -> & Htx & Hr' & Hit' & Hpos'). rewrite Hp in *.
  exists l'. split; [|tauto].
  (* the buffer is unchanged *)
  assert (Hbuf : lbuf (lz l') = lbuf (lz l)).
  { pose proof (safe_eq _ _ _ (next_spec no_tmpl l cfg_ok_no_tmpl Hl) Hn) as Hs. cbn [step_post] in Hs.
    destruct Hs as (_ & _ & (w & Hb & W1 & W2 & W3 & Wr) & _). unfold low_rule in Wr. cbn in Wr.
    rewrite Hb. destruct w as [wo wn]. cbn [so sn] in *. subst wn. apply lower_view_empty. unfold lx_len in Hlen. rewrite Hp in W1. lia. }
  eapply (lexes_one d l pre content); [exact Hat|exact Hn|cbn [so sn]; unfold m; lia|].
  cbn [observe]. rewrite Htx, Hbuf. cbn [opt_bytes]. change (TextT =? AttributeT) with false.
  replace (m - len pre) with (len content) by (unfold m; lia).
  rewrite (at_input_view0 d l pre _ (len content) Hat) by lia. unfold s. rewrite slice_first. reflexivity.
Qed.

(* ---- items' observations -----
*)
Definition tag_obs (name : list Z) (attrs : list attr) (void : bool) : list obs :=
  mkObs StartTagT (60 :: map lower name) (map lower name) [] :: map attr_obs attrs ++
  [mkObs (if void then StartTagVoidT else StartTagCloseT) (closer void) [] []].


(* ---- items ------------------------------------------------------------------------------------------------------------------ *)
Inductive item :=
| IText (t : list Z)
| IComment (body : list Z)
| ICdata (body : list Z)
| IDoctype (x0 x1 x2 x3 x4 x5 x6 : Z) (after : list Z)
| ITag (name : list Z) (attrs : list attr) (ws : list Z) (void : bool)
| IEnd (name ws : list Z)
| IRaw (name : list Z) (attrs : list attr) (ws content ename ews : list Z)    (* raw-text element with its content and end tag *)
| IForeign (h : Z) (name inner ename ews : list Z)                           (* svg / math / xml: "<" name inner "</" ename ews ">" *)
| IBogus (c1 : Z) (body : list Z)                                            (* bogus comment: "<?" / "<!" / "</" body ">" *)
| IPlain (name : list Z) (attrs : list attr) (ws content : list Z)           (* <plaintext ...> and everything after it *)
(* constructs cut by the end of input (only as the last item) *)
| ITextLt (t tl : list Z)                                                    (* text that ends with "<" or "</" *)
| ICutComment (body : list Z)                                                (* "<!--" body *)
| ICutCdata (body : list Z)                                                  (* "<![CDATA[" body *)
| ICutDoctype (x0 x1 x2 x3 x4 x5 x6 : Z) (after : list Z)                    (* "<!doctype" after *)
| ICutBogus (c1 : Z) (body : list Z)                                         (* "<?" / "<!" / "</" body *)
| ICutEnd (name ws : list Z)                                                 (* "</" name ws *)
| ICutTag (name : list Z) (attrs : list attr)                                (* "<" name attributes *)
| ICutRaw (name : list Z) (attrs : list attr) (ws content : list Z)          (* raw-text element without its end tag *)
| ICutForeign (h : Z) (name inner : list Z)                                  (* svg / math / xml without its end tag: "<" name inner *)
| ICutForeignEnd (h : Z) (name inner ename ews : list Z).                    (* svg / math / xml cut inside its end tag: ... "</" ename ews *)

Definition item_bytes (i : item) : list Z :=
  match i with
  | IText t => t
  | IComment b => 60 :: 33 :: 45 :: 45 :: b ++ [45; 45; 62]
  | ICdata b => 60 :: 33 :: 91 :: 67 :: 68 :: 65 :: 84 :: 65 :: 91 :: b ++ [93; 93; 62]
  | IDoctype x0 x1 x2 x3 x4 x5 x6 after => 60 :: 33 :: [x0; x1; x2; x3; x4; x5; x6] ++ after ++ [62]
  | ITag name attrs ws void => 60 :: name ++ tag_rest attrs ws void
  | IEnd name ws => 60 :: 47 :: name ++ ws ++ [62]
  | IRaw name attrs ws content ename ews =>
      (60 :: name ++ tag_rest attrs ws false) ++ content ++ 60 :: 47 :: ename ++ ews ++ [62]
  | IForeign h name inner ename ews => 60 :: name ++ inner ++ 60 :: 47 :: ename ++ ews ++ [62]
  | IBogus c1 body => 60 :: c1 :: body ++ [62]
  | IPlain name attrs ws content => (60 :: name ++ tag_rest attrs ws false) ++ content
  | ITextLt t tl => t ++ tl
  | ICutComment b => 60 :: 33 :: 45 :: 45 :: b
  | ICutCdata b => 60 :: 33 :: 91 :: 67 :: 68 :: 65 :: 84 :: 65 :: 91 :: b
  | ICutDoctype x0 x1 x2 x3 x4 x5 x6 after => 60 :: 33 :: [x0; x1; x2; x3; x4; x5; x6] ++ after
  | ICutBogus c1 body => 60 :: c1 :: body
  | ICutEnd name ws => 60 :: 47 :: name ++ ws
  | ICutTag name attrs => 60 :: name ++ concat (map attr_bytes attrs)
  | ICutRaw name attrs ws content => (60 :: name ++ tag_rest attrs ws false) ++ content
  | ICutForeign h name inner => 60 :: name ++ inner
  | ICutForeignEnd h name inner ename ews => 60 :: name ++ inner ++ 60 :: 47 :: ename ++ ews
  end.

(* exactly one token per construct (a tag: one per part), lower-cased names, verbatim values *)
Definition item_obs (i : item) : list obs :=
  match i with
  | IText t => [mkObs TextT t t []]
  | IComment b => [mkObs CommentT (item_bytes (IComment b)) b []]
  | ICdata b => [mkObs TextT (item_bytes (ICdata b)) b []]
  | IDoctype x0 x1 x2 x3 x4 x5 x6 after => [mkObs DoctypeT (item_bytes (IDoctype x0 x1 x2 x3 x4 x5 x6 after)) after []]
  | ITag name attrs ws void =>
      mkObs StartTagT (60 :: map lower name) (map lower name) [] :: map attr_obs attrs ++
      [mkObs (if void then StartTagVoidT else StartTagCloseT) (closer void) [] []]
  | IEnd name ws => [mkObs EndTagT (60 :: 47 :: map lower name ++ ws ++ [62]) (map lower name) []]
  | IRaw name attrs ws content ename ews =>
      tag_obs name attrs false ++
      [mkObs TextT content content []; mkObs EndTagT (60 :: 47 :: map lower ename ++ ews ++ [62]) (map lower ename) []]
  | IForeign h name inner ename ews =>
      [mkObs (foreign_ty h) (60 :: map lower name ++ inner ++ 60 :: 47 :: ename ++ ews ++ [62]) (map lower name) []]
  | IBogus c1 body => [mkObs CommentT (60 :: c1 :: body ++ [62]) body []]
  | IPlain name attrs ws content => tag_obs name attrs false ++ [mkObs TextT content content []]
  | ITextLt t tl => [mkObs TextT (t ++ tl) (t ++ tl) []]
  | ICutComment b => [mkObs CommentT (60 :: 33 :: 45 :: 45 :: b) b []]
  | ICutCdata b => [mkObs TextT (60 :: 33 :: 91 :: 67 :: 68 :: 65 :: 84 :: 65 :: 91 :: b) b []]
  | ICutDoctype x0 x1 x2 x3 x4 x5 x6 after => [mkObs DoctypeT (60 :: 33 :: [x0; x1; x2; x3; x4; x5; x6] ++ after) after []]
  | ICutBogus c1 body => [mkObs CommentT (60 :: c1 :: body) body []]
  | ICutEnd name ws => [mkObs EndTagT (60 :: 47 :: map lower name ++ ws) (map lower name) []]
  | ICutTag name attrs => mkObs StartTagT (60 :: map lower name) (map lower name) [] :: map attr_obs attrs
  | ICutRaw name attrs ws content => tag_obs name attrs false ++ [mkObs TextT content content []]
  | ICutForeign h name inner => [mkObs (foreign_ty h) (60 :: map lower name ++ inner) (map lower name) []]
  | ICutForeignEnd h name inner ename ews =>
      [mkObs (foreign_ty h) (60 :: map lower name ++ inner ++ 60 :: 47 :: ename ++ ews) (map lower name) []]
  end.

Definition is_text (i : item) : bool := match i with IText _ | ITextLt _ _ => true | _ => false end.
(* items that reach to the end of input: plaintext and the cut constructs *)
Definition is_plain (i : item) : bool :=
  match i with
  | IPlain _ _ _ _ | ITextLt _ _ | ICutComment _ | ICutCdata _ | ICutDoctype _ _ _ _ _ _ _ _ | ICutBogus _ _ | ICutEnd _ _
  | ICutTag _ _ | ICutRaw _ _ _ _ | ICutForeign _ _ _ | ICutForeignEnd _ _ _ _ _ => true
  | _ => false
  end.

Definition wf_item (i : item) : Prop :=
  match i with
  | IText t => t <> [] /\ Forall (fun c => c <> 60) t
  | IComment b => no_term [[45; 45; 62]; [45; 45; 33; 62]] b [45; 45; 62]
  | ICdata b => no_term [[93; 93; 62]] b [93; 93; 62]
  | IDoctype x0 x1 x2 x3 x4 x5 x6 after =>
      Forall2 ci_eq [x0; x1; x2; x3; x4; x5; x6] [100; 111; 99; 116; 121; 112; 101] /\ Forall (fun c => c <> 62) after
  | ITag name attrs ws void =>
      (exists c nm, name = c :: nm /\ is_letter c = true) /\ Forall namechar name /\
      (exists h, to_hash (map lower name) = Ok h /\ is_raw_hash h = false) /\     (* not raw text, not svg/math/xml *)
      all_ws ws /\ wf_attrs attrs (ws ++ closer void)
  | IEnd name ws =>
      (exists c nm, name = c :: nm /\ is_letter c = true) /\ Forall (fun c => is_tagend c = false) name /\
      Forall (fun c => is_ws c = true) ws
  | IRaw name attrs ws content ename ews =>
      (exists c nm, name = c :: nm /\ is_letter c = true) /\ Forall namechar name /\
      (exists h, to_hash (map lower name) = Ok h /\ to_hash (map lower ename) = Ok h /\ is_raw_hash h = true /\
                 is_xml_hash h = false /\ h <> html_hash_Plaintext /\
                 (h <> html_hash_Script \/ no_comment_open content \/
                  (h = html_hash_Script /\ script_content content ename))) /\   (* style title textarea xmp iframe; script without "<!--", or with sections that the rules close *)
      all_ws ws /\ wf_attrs attrs (ws ++ closer false) /\
      content <> [] /\ no_lt_slash content /\
      ename <> [] /\ Forall (fun c => is_letter c = true) ename /\ Forall (fun c => is_ws c = true) ews
  | IForeign h name inner ename ews =>
      (exists c nm, name = c :: nm /\ is_letter c = true) /\ Forall namechar name /\
      to_hash (map lower name) = Ok h /\ to_hash (map lower ename) = Ok h /\ is_xml_hash h = true /\   (* svg math xml *)
      (exists c r, inner = c :: r /\ (is_ws c = true \/ c = 62)) /\ xml_wf (length inner) h true 0 0 inner = true /\
      Forall (fun c => is_letter c = true) ename /\ Forall (fun c => is_ws c = true) ews
  | IBogus c1 body => bogus_open c1 body /\ Forall (fun c => c <> 62) body
  | IPlain name attrs ws content =>
      (exists c nm, name = c :: nm /\ is_letter c = true) /\ Forall namechar name /\
      to_hash (map lower name) = Ok html_hash_Plaintext /\
      all_ws ws /\ wf_attrs attrs (ws ++ closer false) /\ content <> []
  | ITextLt t tl => Forall (fun c => c <> 60) t /\ (tl = [60] \/ tl = [60; 47])
  | ICutComment b => no_term [[45; 45; 62]; [45; 45; 33; 62]] b []
  | ICutCdata b => no_term [[93; 93; 62]] b []
  | ICutDoctype x0 x1 x2 x3 x4 x5 x6 after =>
      Forall2 ci_eq [x0; x1; x2; x3; x4; x5; x6] [100; 111; 99; 116; 121; 112; 101] /\ Forall (fun c => c <> 62) after
  | ICutBogus c1 body => bogus_open_cut c1 body /\ Forall (fun c => c <> 62) body
  | ICutEnd name ws =>
      (exists c nm, name = c :: nm /\ is_letter c = true) /\ Forall (fun c => is_tagend c = false) name /\
      Forall (fun c => is_ws c = true) ws
  | ICutTag name attrs =>
      (exists c nm, name = c :: nm /\ is_letter c = true) /\ Forall namechar name /\
      (exists h, to_hash (map lower name) = Ok h /\ is_xml_hash h = false) /\ wf_attrs attrs []
  | ICutRaw name attrs ws content =>
      (exists c nm, name = c :: nm /\ is_letter c = true) /\ Forall namechar name /\
      (exists h, to_hash (map lower name) = Ok h /\ is_raw_hash h = true /\ is_xml_hash h = false /\ h <> html_hash_Plaintext /\
                 raw_len h content = len content) /\        (* no end tag of the element in the content (Script.raw_len) *)
      all_ws ws /\ wf_attrs attrs (ws ++ closer false) /\ content <> []
  | ICutForeign h name inner =>
      (exists c nm, name = c :: nm /\ is_letter c = true) /\ Forall namechar name /\
      to_hash (map lower name) = Ok h /\ is_xml_hash h = true /\
      (inner = [] \/ exists c r, inner = c :: r /\ (is_ws c = true \/ c = 62)) /\
      xml_cut_ok (length inner) h true 0 0 inner = true      (* every step of shiftXML continues up to the end of input (Wf.xml_step) *)
  | ICutForeignEnd h name inner ename ews =>                  (* as IForeign, without the '>' of the end tag *)
      (exists c nm, name = c :: nm /\ is_letter c = true) /\ Forall namechar name /\
      to_hash (map lower name) = Ok h /\ to_hash (map lower ename) = Ok h /\ is_xml_hash h = true /\
      (exists c r, inner = c :: r /\ (is_ws c = true \/ c = 62)) /\ xml_wf (length inner) h true 0 0 inner = true /\
      Forall (fun c => is_letter c = true) ename /\ Forall (fun c => is_ws c = true) ews
  end.

(* a document: well-formed items, no two texts in a row, plaintext only as the last item *)
Fixpoint wf_doc (items : list item) : Prop :=
  match items with
  | [] => True
  | i :: rest => wf_item i /\ (is_text i = true -> match rest with j :: _ => is_text j = false | [] => True end) /\
                 (is_plain i = true -> rest = []) /\ wf_doc rest
  end.

Definition doc_bytes (items : list item) : list Z := concat (map item_bytes items).
Definition doc_obs (items : list item) : list obs := concat (map item_obs items).

Lemma is_raw_false_xml h : is_raw_hash h = false -> is_xml_hash h = false.
Proof.
  unfold is_raw_hash, is_xml_hash. intros H.
  repeat (apply orb_false_iff in H; destruct H as [H ?]).
  repeat (apply orb_false_iff; split); assumption.
Qed.

(* a complete tag: "<" name attributes ws ">" or "/>" ; afterwards the raw-text mode is on iff the name is one of the seven *)
Lemma lexes_tag d l pre name attrs ws void rest h :
  at_input d l pre ((60 :: name ++ tag_rest attrs ws void) ++ rest) -> intag l = false -> rawtag l = 0 ->
  (exists c nm, name = c :: nm /\ is_letter c = true) -> Forall namechar name ->
  to_hash (map lower name) = Ok h -> is_xml_hash h = false -> all_ws ws -> wf_attrs attrs (ws ++ closer void) ->
  exists l', lexes d l pre (60 :: name ++ tag_rest attrs ws void) rest (tag_obs name attrs void) l' /\
             intag l' = false /\ rawtag l' = (if is_raw_hash h then h else 0).
Proof.
  intros Hat Hit Hraw Hn1 Hn2 Hh Hxml Hws Hattrs. destruct (at_input_buflen _ _ _ _ Hat) as [Hbl Hpre0].
  pose proof (len_nonneg rest) as Hrest0. unfold tag_obs.
  pose proof (len_nonneg name). pose proof (len_nonneg ws).
  set (tail := ws ++ closer void) in *.
  assert (Htail : tail <> []) by (unfold tail; intros E; apply app_eq_nil in E; destruct E as [_ E]; exact (closer_ne void E)).
  assert (Hshape : forall attrs', wf_attrs attrs' tail -> tagrest_shape ((concat (map attr_bytes attrs') ++ tail) ++ rest)).
  { intros attrs' Hw'. apply (tag_rest_shape attrs' ws void rest Hw' Hws). }
  assert (Hat1 : at_input d l pre (60 :: name ++ tag_rest attrs ws void ++ rest)).
  { cbn [app] in Hat. rewrite <- app_assoc in Hat. exact Hat. }
  (* the start tag *)
  destruct (next_starttag d l pre name (tag_rest attrs ws void ++ rest) h Hat1 Hit Hraw Hn1 Hn2
              (shape_tag_stop _ (tag_rest_shape attrs ws void rest Hattrs Hws)) Hh Hxml)
    as (l1 & Hnx & Htx & Hb & Hi1 & Hr1 & _).
  assert (Hlex1 : lexes d l pre (60 :: name) (tag_rest attrs ws void ++ rest)
                    [mkObs StartTagT (60 :: map lower name) (map lower name) []] l1).
  { eapply lexes_one; [exact Hat1|exact Hnx|cbn [so sn]; rewrite len_cons; lia|].
    assert (Hbl1 : len (lbuf (lz l)) = len pre + (1 + len name + len (tag_rest attrs ws void ++ rest)) + 1).
    { destruct (at_input_buflen _ _ _ _ Hat1) as [E _]. rewrite E, len_cons, len_app. lia. }
    pose proof (len_nonneg (tag_rest attrs ws void ++ rest)). pose proof (len_nonneg (tag_rest attrs ws void)).
    cbn [observe]. rewrite Htx, Hb. cbn [opt_bytes]. change (StartTagT =? AttributeT) with false. f_equal.
    - replace (mkSl (len pre + 1) (len name)) with (mkSl (len pre + 1) (1 + len name - 1)) by (f_equal; lia).
      rewrite view_lower_middle by lia.
      rewrite (at_input_view0 d l pre _ 1 Hat1) by (rewrite ?len_cons; pose proof (len_nonneg (name ++ tag_rest attrs ws void ++ rest)); lia).
      replace (1 + len name - 1) with (len name) by lia.
      rewrite (at_input_view d l pre _ 1 (len name) Hat1) by (rewrite ?len_cons, ?len_app; lia).
      replace (1 + len name - (1 + len name)) with 0 by lia.
      rewrite (at_input_view d l pre _ (1 + len name) 0 Hat1) by (rewrite ?len_cons, ?len_app; lia).
      rewrite slice_zero_len, app_nil_r.
      replace (slice (60 :: name ++ tag_rest attrs ws void ++ rest) 1 (1 + len name)) with name
        by (symmetry; exact (slice_mid [60] name (tag_rest attrs ws void ++ rest))).
      change (slice (60 :: name ++ tag_rest attrs ws void ++ rest) 0 1) with [60]. reflexivity.
    - rewrite view_bytes_lower_view by (cbn [so sn]; lia).
      rewrite (at_input_view d l pre _ 1 (len name) Hat1) by (rewrite ?len_cons, ?len_app; lia).
      exact (f_equal (map lower) (slice_mid [60] name (tag_rest attrs ws void ++ rest))). }
  assert (Hat2 : at_input d l1 (pre ++ 60 :: name) (concat (map attr_bytes attrs) ++ tail ++ rest)).
  { destruct Hlex1 as (tr & _ & _ & _ & A). unfold tag_rest in A. fold tail in A. rewrite <- app_assoc in A. exact A. }
  (* the attributes *)
  destruct (lexes_attrs attrs d l1 (pre ++ 60 :: name) tail rest Hat2 Hi1 Hattrs (or_introl Htail) Hshape) as (l2 & Hlex2 & Hi2 & Hr2).
  assert (Hat3 : at_input d l2 ((pre ++ 60 :: name) ++ concat (map attr_bytes attrs)) ((ws ++ closer void) ++ rest)).
  { destruct Hlex2 as (tr & _ & _ & _ & A). exact A. }
  (* '>' or '/>' *)
  assert (Hlex3 : exists l3, lexes d l2 ((pre ++ 60 :: name) ++ concat (map attr_bytes attrs)) tail rest
                     [mkObs (if void then StartTagVoidT else StartTagCloseT) (closer void) [] []] l3 /\
                     intag l3 = false /\ rawtag l3 = rawtag l2).
  { set (pre3 := (pre ++ 60 :: name) ++ concat (map attr_bytes attrs)) in *.
    pose proof (len_nonneg pre3).
    destruct void; cbn [closer] in *.
    - assert (Hat3' : at_input d l2 pre3 (ws ++ 47 :: 62 :: rest)) by (rewrite <- app_assoc in Hat3; exact Hat3).
      destruct (next_void d l2 pre3 ws rest Hat3' Hi2 Hws) as (l3 & Hn3 & Ht3 & Hb3 & Hi3 & Hr3 & _).
      exists l3. split; [|tauto].
      eapply lexes_one; [exact Hat3|exact Hn3|cbn [so sn]; unfold tail; rewrite len_app; change (len [47; 62]) with 2; lia|].
      cbn [observe]. rewrite Ht3, Hb3. cbn [opt_bytes]. change (StartTagVoidT =? AttributeT) with false. f_equal.
      rewrite (at_input_view d l2 pre3 _ (len ws) 2 Hat3') by (rewrite ?len_app, ?len_cons; lia).
      apply (slice_mid ws [47; 62] rest).
    - assert (Hat3' : at_input d l2 pre3 (ws ++ 62 :: rest)) by (rewrite <- app_assoc in Hat3; exact Hat3).
      destruct (next_close d l2 pre3 ws rest Hat3' Hi2 Hws) as (l3 & Hn3 & Ht3 & Hb3 & Hi3 & Hr3 & _).
      exists l3. split; [|tauto].
      eapply lexes_one; [exact Hat3|exact Hn3|cbn [so sn]; unfold tail; rewrite len_app; change (len [62]) with 1; lia|].
      cbn [observe]. rewrite Ht3, Hb3. cbn [opt_bytes]. change (StartTagCloseT =? AttributeT) with false. f_equal.
      rewrite (at_input_view d l2 pre3 _ (len ws) 1 Hat3') by (rewrite ?len_app, ?len_cons; lia).
      apply (slice_mid ws [62] rest). }
  destruct Hlex3 as (l3 & Hlex3 & Hi3 & Hr3).
  exists l3. split; [|split; [exact Hi3|congruence]].
  unfold tag_rest. fold tail.
  change (60 :: name ++ concat (map attr_bytes attrs) ++ tail) with ((60 :: name) ++ concat (map attr_bytes attrs) ++ tail).
  change (mkObs StartTagT (60 :: map lower name) (map lower name) [] :: map attr_obs attrs ++
          [mkObs (if void then StartTagVoidT else StartTagCloseT) (closer void) [] []])
    with ([mkObs StartTagT (60 :: map lower name) (map lower name) []] ++ map attr_obs attrs ++
          [mkObs (if void then StartTagVoidT else StartTagCloseT) (closer void) [] []]).
  eapply lexes_app.
  + unfold tag_rest in Hlex1. fold tail in Hlex1. rewrite <- app_assoc in Hlex1. rewrite <- app_assoc. exact Hlex1.
  + eapply lexes_app; [exact Hlex2|exact Hlex3].
Qed.

Lemma nontext_tag_start i rest : wf_item i -> is_text i = false -> tag_start (item_bytes i ++ rest).
Proof.
  intros Hwf Ht. destruct i as [t|b|b|x0 x1 x2 x3 x4 x5 x6 after|name attrs ws void|name ws|name attrs ws content ename ews|h name inner ename ews|c1 body|name attrs ws content|ct ctl|cb|cdb|y0 y1 y2 y3 y4 y5 y6 cafter|cc1 cbody|cname cws|tname tattrs|rname rattrs rws rcontent|fh fname finner|ch cname cinner cename cews]; cbn [is_text] in Ht; try discriminate;
    cbn [item_bytes app wf_item] in *.
  - eexists _, _. split; [reflexivity|tauto].
  - eexists _, _. split; [reflexivity|tauto].
  - eexists _, _. split; [reflexivity|tauto].
  - destruct Hwf as ((c & nm & -> & Hl) & _). cbn [app]. eexists _, _. split; [reflexivity|tauto].
  - destruct Hwf as ((c & nm & -> & Hl) & _). cbn [app]. eexists _, _. split; [reflexivity|].
    right; right; right. split; [reflexivity|]. eexists _, _. split; [reflexivity|]. intros ->. discriminate.
  - destruct Hwf as ((c & nm & -> & Hl) & _). cbn [app]. eexists _, _. split; [reflexivity|tauto].
  - destruct Hwf as ((c & nm & -> & Hl) & _). cbn [app]. eexists _, _. split; [reflexivity|tauto].
  - destruct Hwf as [Hopen Hb]. eexists _, _. split; [reflexivity|].
    destruct Hopen as [->|[(-> & _)|(-> & c2 & r & -> & Hnl)]]; [tauto|tauto|].
    right; right; right. split; [reflexivity|]. cbn [app]. eexists _, _. split; [reflexivity|]. inversion Hb; assumption.
  - destruct Hwf as ((c & nm & -> & Hl) & _). cbn [app]. eexists _, _. split; [reflexivity|tauto].
  - eexists _, _. split; [reflexivity|tauto].
  - eexists _, _. split; [reflexivity|tauto].
  - eexists _, _. split; [reflexivity|tauto].
  - destruct Hwf as [Hopen Hb]. eexists _, _. split; [reflexivity|].
    destruct Hopen as [->|[(-> & _)|(-> & c2 & r & -> & Hnl)]]; [tauto|tauto|].
    right; right; right. split; [reflexivity|]. cbn [app]. eexists _, _. split; [reflexivity|]. inversion Hb; assumption.
  - destruct Hwf as ((c & nm & -> & Hl) & _). cbn [app]. eexists _, _. split; [reflexivity|].
    right; right; right. split; [reflexivity|]. eexists _, _. split; [reflexivity|]. intros ->. discriminate.
  - destruct Hwf as ((c & nm & -> & Hl) & _). cbn [app]. eexists _, _. split; [reflexivity|tauto].
  - destruct Hwf as ((c & nm & -> & Hl) & _). cbn [app]. eexists _, _. split; [reflexivity|tauto].
  - destruct Hwf as ((c & nm & -> & Hl) & _). cbn [app]. eexists _, _. split; [reflexivity|tauto].
  - destruct Hwf as ((c & nm & -> & Hl) & _). cbn [app]. eexists _, _. split; [reflexivity|tauto].
Qed.

(* what is observed of an end tag "</" name ws ">" whose name was lower-cased in place *)
Lemma endtag_obs_bytes d l pre name ws rest : at_input d l pre (60 :: 47 :: name ++ ws ++ 62 :: rest) ->
  let B := lower_view (lbuf (lz l)) (mkSl (len pre + 2) (len name)) in
  view_bytes B (mkSl (len pre) (3 + len name + len ws)) = 60 :: 47 :: map lower name ++ ws ++ [62] /\
  view_bytes B (mkSl (len pre + 2) (len name)) = map lower name.
Proof.
  intros Hat B. destruct (at_input_buflen _ _ _ _ Hat) as [Hbl Hpre0].
  pose proof (len_nonneg name). pose proof (len_nonneg ws). pose proof (len_nonneg rest).
  assert (Hlen : len (60 :: 47 :: name ++ ws ++ 62 :: rest) = 3 + len name + len ws + len rest) by (rewrite !len_cons, !len_app, len_cons; lia).
  assert (Hname : view_bytes (lbuf (lz l)) (mkSl (len pre + 2) (len name)) = name).
  { rewrite (at_input_view d l pre _ 2 (len name) Hat) by lia. exact (slice_mid [60; 47] name (ws ++ 62 :: rest)). }
  split.
  - unfold B. replace (mkSl (len pre + 2) (len name)) with (mkSl (len pre + 2) (2 + len name - 2)) by (f_equal; lia).
    rewrite view_lower_middle by lia. replace (2 + len name - 2) with (len name) by lia. rewrite Hname.
    rewrite (at_input_view0 d l pre _ 2 Hat) by lia.
    rewrite (at_input_view d l pre _ (2 + len name) (3 + len name + len ws - (2 + len name)) Hat) by lia.
    change (slice (60 :: 47 :: name ++ ws ++ 62 :: rest) 0 2) with [60; 47].
    replace (slice (60 :: 47 :: name ++ ws ++ 62 :: rest) (2 + len name) (2 + len name + (3 + len name + len ws - (2 + len name)))) with (ws ++ [62]); [reflexivity|].
    symmetry. replace (60 :: 47 :: name ++ ws ++ 62 :: rest) with (([60; 47] ++ name) ++ (ws ++ [62]) ++ rest) by (cbn [app]; rewrite <- !app_assoc; reflexivity).
    replace (2 + len name) with (len ([60; 47] ++ name)) by (rewrite len_app; reflexivity).
    replace (3 + len name + len ws - len ([60; 47] ++ name)) with (len (ws ++ [62])) by (rewrite !len_app; change (len [60; 47]) with 2; change (len [62]) with 1; lia).
    apply slice_mid.
  - unfold B. rewrite view_bytes_lower_view by (cbn [so sn]; lia). rewrite Hname. reflexivity.
Qed.

Lemma item_obs_noerr i : Forall (fun o => o_ty o <> ErrorT) (item_obs i).
Proof.
  destruct i as [t|b|b|x0 x1 x2 x3 x4 x5 x6 after|name attrs ws void|name ws|name attrs ws content ename ews|h name inner ename ews|c1 body|name attrs ws content|ct ctl|cb|cdb|y0 y1 y2 y3 y4 y5 y6 cafter|cc1 cbody|cname cws|tname tattrs|rname rattrs rws rcontent|fh fname finner|ch cname cinner cename cews];
    cbn [item_obs]; unfold tag_obs; repeat (constructor || apply Forall_app; try split); cbn [o_ty]; try discriminate.
  - rewrite Forall_map. apply Forall_forall. intros [? ?|? ? ? ? ?] _; discriminate.
  - destruct void; discriminate.
  - rewrite Forall_map. apply Forall_forall. intros [? ?|? ? ? ? ?] _; discriminate.
  - unfold foreign_ty. destruct (h =? html_hash_Svg); [discriminate|]. destruct (h =? html_hash_Math); discriminate.
  - rewrite Forall_map. apply Forall_forall. intros [? ?|? ? ? ? ?] _; discriminate.
  - rewrite Forall_map. apply Forall_forall. intros [? ?|? ? ? ? ?] _; discriminate.
  - rewrite Forall_map. apply Forall_forall. intros [? ?|? ? ? ? ?] _; discriminate.
  - unfold foreign_ty. destruct (fh =? html_hash_Svg); [discriminate|]. destruct (fh =? html_hash_Math); discriminate.
  - unfold foreign_ty. destruct (ch =? html_hash_Svg); [discriminate|]. destruct (ch =? html_hash_Math); discriminate.
Qed.

(* a token that is the whole of X (nothing lower-cased) with Text() = X[a, a+n) *)
Lemma lexes_whole d l pre X ty l' a n : at_input d l pre (X ++ []) ->
  next no_tmpl l = Ok (ty, Some (mkSl (len pre) (len X)), l') -> ltext l' = Some (mkSl (len pre + a) n) ->
  lbuf (lz l') = lbuf (lz l) -> (ty =? AttributeT) = false -> 0 <= a -> 0 <= n -> a + n <= len X ->
  lexes d l pre X [] [mkObs ty X (slice X a (a + n)) []] l'.
Proof.
  intros Hat Hn Htx Hb Hty Ha Hn0 Han. pose proof (len_nonneg X).
  eapply lexes_one; [exact Hat|exact Hn|cbn [so sn]; lia|].
  cbn [observe]. rewrite Htx, Hb, Hty. cbn [opt_bytes].
  assert (Hat0 : at_input d l pre X) by (rewrite app_nil_r in Hat; exact Hat).
  rewrite (at_input_view0 d l pre X (len X) Hat0) by lia.
  rewrite (at_input_view d l pre X a n Hat0) by lia.
  pose proof (slice_first X []) as Es. rewrite app_nil_r in Es. rewrite Es. reflexivity.
Qed.

Lemma lexes_item i d l pre rest : at_input d l pre (item_bytes i ++ rest) -> intag l = false -> rawtag l = 0 -> lerr l = false ->
  wf_item i -> (is_text i = true -> rest = [] \/ tag_start rest) -> (is_plain i = true -> rest = []) ->
  exists l', lexes d l pre (item_bytes i) rest (item_obs i) l' /\ (is_plain i = false -> intag l' = false /\ rawtag l' = 0).
Proof.
  intros Hat Hit Hraw Hlerr Hwf Hnext Hlast. destruct (at_input_buflen _ _ _ _ Hat) as [Hbl Hpre0].
  pose proof (len_nonneg rest) as Hrest0.
  destruct i as [t|b|b|x0 x1 x2 x3 x4 x5 x6 after|name attrs ws void|name ws|name attrs ws content ename ews|h name inner ename ews|c1 body|name attrs ws content|ct ctl|cb|cdb|y0 y1 y2 y3 y4 y5 y6 cafter|cc1 cbody|cname cws|tname tattrs|rname rattrs rws rcontent|fh fname finner|ch cname cinner cename cews]; cbn [item_bytes item_obs wf_item is_text is_plain] in *.
  - (* text *)
    destruct Hwf as [Hne Ht].
    destruct (next_text d l pre t rest Hat Hit Hraw Hne Ht (Hnext eq_refl)) as (l' & Hn & Htx & Hb & Hi' & Hr' & _).
    exists l'. split; [|tauto]. pose proof (len_nonneg t).
    eapply lexes_one; [exact Hat|exact Hn|cbn; lia|].
    cbn [observe]. rewrite Htx, Hb. cbn [opt_bytes]. change (TextT =? AttributeT) with false.
    rewrite (at_input_view0 d l pre _ (len t) Hat) by (rewrite ?len_app; lia). rewrite slice_first. reflexivity.
  - (* comment *)
    assert (Hat' : at_input d l pre (60 :: 33 :: 45 :: 45 :: b ++ 45 :: 45 :: 62 :: rest))
      by (cbn [app] in Hat; rewrite <- app_assoc in Hat; exact Hat).
    destruct (next_comment d l pre b rest Hat' Hit Hraw Hwf) as (l' & Hn & Htx & Hb & Hi' & Hr' & _).
    exists l'. split; [|tauto]. pose proof (len_nonneg b).
    assert (Hl : len (60 :: 33 :: 45 :: 45 :: b ++ [45; 45; 62]) = 7 + len b) by (rewrite !len_cons, len_app; change (len [45; 45; 62]) with 3; lia).
    eapply lexes_one; [exact Hat|exact Hn|cbn [so sn]; lia|].
    cbn [observe]. rewrite Htx, Hb. cbn [opt_bytes]. change (CommentT =? AttributeT) with false. f_equal.
    + rewrite (at_input_view0 d l pre _ (7 + len b) Hat) by (rewrite ?len_app; lia). rewrite <- Hl. apply slice_first.
    + rewrite (at_input_view d l pre _ 4 (len b) Hat') by (rewrite ?len_cons, ?len_app, ?len_cons; lia).
      apply (slice_mid [60; 33; 45; 45] b (45 :: 45 :: 62 :: rest)).
  - (* CDATA *)
    assert (Hat' : at_input d l pre (60 :: 33 :: 91 :: 67 :: 68 :: 65 :: 84 :: 65 :: 91 :: b ++ 93 :: 93 :: 62 :: rest))
      by (cbn [app] in Hat; rewrite <- app_assoc in Hat; exact Hat).
    destruct (next_cdata d l pre b rest Hat' Hit Hraw Hwf) as (l' & Hn & Htx & Hb & Hi' & Hr' & _).
    exists l'. split; [|tauto]. pose proof (len_nonneg b).
    assert (Hl : len (60 :: 33 :: 91 :: 67 :: 68 :: 65 :: 84 :: 65 :: 91 :: b ++ [93; 93; 62]) = 12 + len b) by (rewrite !len_cons, len_app; change (len [93; 93; 62]) with 3; lia).
    eapply lexes_one; [exact Hat|exact Hn|cbn [so sn]; lia|].
    cbn [observe]. rewrite Htx, Hb. cbn [opt_bytes]. change (TextT =? AttributeT) with false. f_equal.
    + rewrite (at_input_view0 d l pre _ (12 + len b) Hat) by (rewrite ?len_app; lia). rewrite <- Hl. apply slice_first.
    + rewrite (at_input_view d l pre _ 9 (len b) Hat') by (rewrite ?len_cons, ?len_app, ?len_cons; lia).
      apply (slice_mid [60; 33; 91; 67; 68; 65; 84; 65; 91] b (93 :: 93 :: 62 :: rest)).
  - (* doctype *)
    destruct Hwf as [Hdt Hafter].
    assert (Hat' : at_input d l pre (60 :: 33 :: [x0; x1; x2; x3; x4; x5; x6] ++ after ++ 62 :: rest)).
    { cbn [app] in *. rewrite <- app_assoc in Hat. exact Hat. }
    destruct (next_doctype d l pre x0 x1 x2 x3 x4 x5 x6 after rest Hat' Hit Hraw Hdt Hafter) as (l' & Hn & Htx & Hb & Hi' & Hr' & _).
    exists l'. split; [|tauto]. pose proof (len_nonneg after).
    assert (Hl : len (60 :: 33 :: [x0; x1; x2; x3; x4; x5; x6] ++ after ++ [62]) = 10 + len after) by (cbn [app]; rewrite !len_cons, len_app; change (len [62]) with 1; lia).
    eapply lexes_one; [exact Hat|exact Hn|cbn [so sn]; lia|].
    cbn [observe]. rewrite Htx, Hb. cbn [opt_bytes]. change (DoctypeT =? AttributeT) with false. f_equal.
    + rewrite (at_input_view0 d l pre _ (10 + len after) Hat) by (rewrite ?len_app; lia). rewrite <- Hl. apply slice_first.
    + rewrite (at_input_view d l pre _ 9 (len after) Hat') by (cbn [app]; rewrite ?len_cons, ?len_app, ?len_cons; lia).
      apply (slice_mid [60; 33; x0; x1; x2; x3; x4; x5; x6] after (62 :: rest)).
  - (* tag *)
    destruct Hwf as (Hn1 & Hn2 & (h & Hh & Hrawh) & Hws & Hattrs).
    destruct (lexes_tag d l pre name attrs ws void rest h Hat Hit Hraw Hn1 Hn2 Hh (is_raw_false_xml h Hrawh) Hws Hattrs) as (l' & Hl' & Hi' & Hr').
    rewrite Hrawh in Hr'. exists l'. tauto.
  - (* end tag *)
    destruct Hwf as (Hn1 & Hn2 & Hws).
    assert (Hat' : at_input d l pre (60 :: 47 :: name ++ ws ++ 62 :: rest)).
    { cbn [app] in Hat. rewrite <- !app_assoc in Hat. exact Hat. }
    destruct (next_endtag d l pre name ws rest Hat' Hit Hraw Hn1 Hn2 Hws) as (l' & Hn & Htx & Hb & Hi' & Hr' & _).
    exists l'. split; [|tauto]. pose proof (len_nonneg name). pose proof (len_nonneg ws).
    assert (Hl : len (60 :: 47 :: name ++ ws ++ [62]) = 3 + len name + len ws) by (rewrite !len_cons, !len_app; change (len [62]) with 1; lia).
    eapply lexes_one; [exact Hat|exact Hn|cbn [so sn]; lia|].
    cbn [observe]. rewrite Htx, Hb. cbn [opt_bytes]. change (EndTagT =? AttributeT) with false.
    destruct (endtag_obs_bytes d l pre name ws rest Hat') as [E1 E2]. rewrite E1, E2. reflexivity.
  - (* raw-text element: tag, content, end tag *)
    destruct Hwf as (Hn1 & Hn2 & (h & Hh & Heh & Hrh & Hxh & Hnp & Hns) & Hws & Hattrs & Hcne & Hnls & Hene & Helet & Hews).
    set (etag := 60 :: 47 :: ename ++ ews ++ [62]) in *.
    assert (Hat1 : at_input d l pre ((60 :: name ++ tag_rest attrs ws false) ++ content ++ etag ++ rest)).
    { rewrite <- (app_assoc (60 :: name ++ tag_rest attrs ws false)) in Hat. rewrite <- (app_assoc content etag rest) in Hat. exact Hat. }
    destruct (lexes_tag d l pre name attrs ws false (content ++ etag ++ rest) h Hat1 Hit Hraw Hn1 Hn2 Hh Hxh Hws Hattrs) as (l1 & Hl1 & Hi1 & Hr1).
    rewrite Hrh in Hr1.
    assert (Hat2 : at_input d l1 (pre ++ 60 :: name ++ tag_rest attrs ws false) (content ++ 60 :: 47 :: ename ++ (ews ++ 62 :: rest))).
    { destruct Hl1 as (tr & _ & _ & _ & A). unfold etag in A. cbn [app] in A. rewrite <- !app_assoc in A. exact A. }
    assert (Herest : exists c r, ews ++ 62 :: rest = c :: r /\ is_tagend c = true).
    { destruct ews as [|w ews']; [exists 62, rest; split; reflexivity|]. exists w, (ews' ++ 62 :: rest). split; [reflexivity|].
      apply is_tagend_ws. inversion Hews; assumption. }
    assert (Hraw2 : exists l2, lexes d l1 (pre ++ 60 :: name ++ tag_rest attrs ws false) content (60 :: 47 :: ename ++ ews ++ 62 :: rest)
                                 [mkObs TextT content content []] l2 /\ intag l2 = false /\ rawtag l2 = 0).
    { exact (lexes_rawtext d l1 _ content ename (ews ++ 62 :: rest) h Hat2 Hi1 Hr1 Hrh Hxh Hnp Hns Hcne Hnls Helet Heh Herest). }
    destruct Hraw2 as (l2 & Hl2 & Hi2 & Hr2).
    assert (Hat3 : at_input d l2 ((pre ++ 60 :: name ++ tag_rest attrs ws false) ++ content) (60 :: 47 :: ename ++ ews ++ 62 :: rest)).
    { destruct Hl2 as (tr & _ & _ & _ & A). exact A. }
    assert (Hen1 : exists c nm, ename = c :: nm /\ is_letter c = true).
    { destruct ename as [|c nm]; [congruence|]. exists c, nm. split; [reflexivity|]. inversion Helet; assumption. }
    assert (Hen2 : Forall (fun c => is_tagend c = false) ename).
    { eapply Forall_impl; [|exact Helet]. cbn beta. intros a Ha. destruct (is_tagend a) eqn:Et; [|reflexivity].
      apply tagend_not_letter in Et. congruence. }
    set (pre3 := (pre ++ 60 :: name ++ tag_rest attrs ws false) ++ content) in *.
    destruct (next_endtag d l2 pre3 ename ews rest Hat3 Hi2 Hr2 Hen1 Hen2 Hews) as (l3 & Hn3 & Htx3 & Hb3 & Hi3 & Hr3 & _).
    pose proof (len_nonneg ename). pose proof (len_nonneg ews). pose proof (len_nonneg pre3).
    assert (Hl3 : len etag = 3 + len ename + len ews) by (unfold etag; rewrite !len_cons, !len_app; change (len [62]) with 1; lia).
    assert (Hat3' : at_input d l2 pre3 (etag ++ rest)).
    { unfold etag. cbn [app]. rewrite <- !app_assoc. exact Hat3. }
    assert (Hlex3 : lexes d l2 pre3 etag rest [mkObs EndTagT (60 :: 47 :: map lower ename ++ ews ++ [62]) (map lower ename) []] l3).
    { eapply lexes_one; [exact Hat3'|exact Hn3|cbn [so sn]; lia|].
      cbn [observe]. rewrite Htx3, Hb3. cbn [opt_bytes]. change (EndTagT =? AttributeT) with false.
      destruct (endtag_obs_bytes d l2 pre3 ename ews rest Hat3) as [E1 E2]. rewrite E1, E2. reflexivity. }
    exists l3. split; [|tauto].
    change [mkObs TextT content content []; mkObs EndTagT (60 :: 47 :: map lower ename ++ ews ++ [62]) (map lower ename) []]
      with ([mkObs TextT content content []] ++ [mkObs EndTagT (60 :: 47 :: map lower ename ++ ews ++ [62]) (map lower ename) []]).
    eapply lexes_app; [rewrite <- (app_assoc content etag rest); exact Hl1|]. eapply lexes_app; [|exact Hlex3].
    unfold etag. cbn [app]. rewrite <- ?app_assoc. cbn [app]. exact Hl2.
  - (* svg / math / xml *)
    destruct Hwf as (Hn1 & Hn2 & Hh & Heh & Hxml & Hin1 & Hin2 & Helet & Hews).
    assert (Hat' : at_input d l pre (60 :: name ++ inner ++ 60 :: 47 :: ename ++ ews ++ 62 :: rest)).
    { cbn [app] in Hat. rewrite <- ?app_assoc in Hat. cbn [app] in Hat. rewrite <- ?app_assoc in Hat. exact Hat. }
    destruct (next_foreign d l pre name inner ename ews rest h Hat' Hit Hraw Hlerr Hn1 Hn2 Hh Heh Hxml Hin1 Hin2 Helet Hews)
      as (l' & Hn & Htx & Hb & Hi' & Hr' & _).
    exists l'. split; [|tauto].
    pose proof (len_nonneg name). pose proof (len_nonneg inner). pose proof (len_nonneg ename). pose proof (len_nonneg ews).
    set (tl := inner ++ 60 :: 47 :: ename ++ ews ++ [62]) in *.
    assert (Hltl : len tl = len inner + 2 + len ename + len ews + 1) by (unfold tl; rewrite len_app, !len_cons, !len_app; change (len [62]) with 1; lia).
    assert (Hlen : len (60 :: name ++ tl) = 1 + len name + len inner + 2 + len ename + len ews + 1) by (rewrite len_cons, len_app; lia).
    rewrite len_app in Hbl.
    eapply lexes_one; [exact Hat|exact Hn|cbn [so sn]; lia|].
    cbn [observe]. rewrite Htx, Hb. cbn [opt_bytes].
    replace (foreign_ty h =? AttributeT) with false by (unfold foreign_ty; destruct (h =? html_hash_Svg); [reflexivity|]; destruct (h =? html_hash_Math); reflexivity).
    f_equal.
    + replace (mkSl (len pre + 1) (len name)) with (mkSl (len pre + 1) (1 + len name - 1)) by (f_equal; lia).
      rewrite view_lower_middle by lia.
      rewrite (at_input_view0 d l pre _ 1 Hat) by (rewrite ?len_app; lia).
      replace (1 + len name - 1) with (len name) by lia.
      rewrite (at_input_view d l pre _ 1 (len name) Hat) by (rewrite ?len_app; lia).
      rewrite (at_input_view d l pre _ (1 + len name) (1 + len name + len inner + 2 + len ename + len ews + 1 - (1 + len name)) Hat) by (rewrite ?len_app; lia).
      assert (E0 : (60 :: name ++ tl) ++ rest = [60] ++ name ++ tl ++ rest) by (cbn [app]; rewrite <- app_assoc; reflexivity).
      rewrite E0.
      replace (slice ([60] ++ name ++ tl ++ rest) 1 (1 + len name)) with name by (symmetry; exact (slice_mid [60] name (tl ++ rest))).
      replace (slice ([60] ++ name ++ tl ++ rest) 0 1) with [60] by (symmetry; exact (slice_first [60] (name ++ tl ++ rest))).
      replace (slice ([60] ++ name ++ tl ++ rest) (1 + len name) (1 + len name + (1 + len name + len inner + 2 + len ename + len ews + 1 - (1 + len name)))) with tl.
      * reflexivity.
      * symmetry. replace ([60] ++ name ++ tl ++ rest) with (([60] ++ name) ++ tl ++ rest) by (rewrite <- app_assoc; reflexivity).
        replace (1 + len name) with (len ([60] ++ name)) by (rewrite len_app; change (len [60]) with 1; lia).
        replace (len ([60] ++ name) + len inner + 2 + len ename + len ews + 1 - len ([60] ++ name)) with (len tl) by lia.
        apply slice_mid.
    + rewrite view_bytes_lower_view by (cbn [so sn]; lia).
      rewrite (at_input_view d l pre _ 1 (len name) Hat) by (rewrite ?len_app; lia). f_equal.
      replace ((60 :: name ++ tl) ++ rest) with ([60] ++ name ++ tl ++ rest) by (cbn [app]; rewrite <- app_assoc; reflexivity).
      exact (slice_mid [60] name (tl ++ rest)).
  - (* bogus comment *)
    destruct Hwf as [Hopen Hb].
    assert (Hat' : at_input d l pre (60 :: c1 :: body ++ 62 :: rest))
      by (cbn [app] in Hat; rewrite <- app_assoc in Hat; exact Hat).
    destruct (next_bogus d l pre c1 body rest Hat' Hit Hraw Hopen Hb) as (l' & Hn & Htx & Hbf & Hi' & Hr' & _).
    exists l'. split; [|tauto]. pose proof (len_nonneg body).
    assert (Hl : len (60 :: c1 :: body ++ [62]) = 3 + len body) by (rewrite !len_cons, len_app; change (len [62]) with 1; lia).
    eapply lexes_one; [exact Hat|exact Hn|cbn [so sn]; lia|].
    cbn [observe]. rewrite Htx, Hbf. cbn [opt_bytes]. change (CommentT =? AttributeT) with false. f_equal.
    + rewrite (at_input_view0 d l pre _ (3 + len body) Hat) by (rewrite ?len_app; lia). rewrite <- Hl. apply slice_first.
    + rewrite (at_input_view d l pre _ 2 (len body) Hat') by (rewrite ?len_cons, ?len_app, ?len_cons; lia).
      apply (slice_mid [60; c1] body (62 :: rest)).
  - (* plaintext: the tag, then everything up to the end of input as one Text *)
    destruct Hwf as (Hn1 & Hn2 & Hh & Hws & Hattrs & Hcne). rewrite (Hlast eq_refl) in *. clear Hlast Hnext.
    assert (Hat1 : at_input d l pre ((60 :: name ++ tag_rest attrs ws false) ++ content ++ [])).
    { rewrite app_nil_r in *. exact Hat. }
    destruct (lexes_tag d l pre name attrs ws false (content ++ []) html_hash_Plaintext Hat1 Hit Hraw Hn1 Hn2 Hh eq_refl Hws Hattrs) as (l1 & Hl1 & Hi1 & Hr1).
    change (if is_raw_hash html_hash_Plaintext then html_hash_Plaintext else 0) with html_hash_Plaintext in Hr1.
    set (pre1 := pre ++ 60 :: name ++ tag_rest attrs ws false) in *.
    assert (Hat2 : at_input d l1 pre1 (content ++ [])) by (destruct Hl1 as (tr & _ & _ & _ & A); exact A).
    assert (Hraw2 : exists l2, lexes d l1 pre1 content [] [mkObs TextT content content []] l2 /\ intag l2 = false /\ rawtag l2 = 0).
    { pose proof Hat2 as (Hiv & Hcl & Hd & Hp). pose proof Hiv as (Hlw & Hlen & _).
      pose proof (len_nonneg content). pose proof (len_nonneg pre1).
      assert (Hcpos : 0 < len content) by (destruct content; [congruence|rewrite len_cons; pose proof (len_nonneg content); lia]).
      assert (Hlend : len d = len pre1 + len content) by (rewrite Hd, app_nil_r, len_app; reflexivity).
      destruct (html_total_step_proof no_tmpl d l1 cfg_ok_no_tmpl Hiv) as (ty & tk & l2 & Hnx & Hiv2).
      destruct (html_rawtext_proof no_tmpl d l1 ty tk l2 cfg_ok_no_tmpl Hiv Hi1 ltac:(rewrite Hr1; discriminate) Hnx) as (e & He & Htok & Hend & _).
      assert (Ee : e = len d) by (destruct Hend as [?|[Hc _]]; [assumption|rewrite Hr1 in Hc; congruence]). subst e.
      destruct (Htok ltac:(lia)) as (-> & -> & Htx & Hr2 & Hit2 & Hpos2).
      exists l2. split; [|tauto].
      assert (Hbuf : lbuf (lz l2) = lbuf (lz l1)).
      { pose proof (safe_eq _ _ _ (next_spec no_tmpl l1 cfg_ok_no_tmpl Hlw) Hnx) as Hs. cbn [step_post] in Hs.
        destruct Hs as (_ & _ & (w & Hb & W1 & W2 & W3 & Wr) & _). unfold low_rule in Wr. cbn in Wr.
        rewrite Hb. destruct w as [wo wn]. cbn [so sn] in *. subst wn. apply lower_view_empty. unfold lx_len in Hlen. rewrite Hp in W1. lia. }
      eapply (lexes_one d l1 pre1 content); [exact Hat2|exact Hnx|cbn [so sn]; lia|].
      cbn [observe]. rewrite Htx, Hbuf. cbn [opt_bytes]. change (TextT =? AttributeT) with false.
      rewrite Hp. replace (len d - len pre1) with (len content) by lia.
      rewrite (at_input_view0 d l1 pre1 _ (len content) Hat2) by (rewrite ?len_app; change (len (@nil Z)) with 0; lia).
      rewrite slice_first. reflexivity. }
    destruct Hraw2 as (l2 & Hl2 & Hi2 & Hr2).
    exists l2. split; [|tauto]. eapply lexes_app; [exact Hl1|exact Hl2].
  - (* text ending with "<" or "</" *)
    destruct Hwf as [Ht Htl]. rewrite (Hlast eq_refl) in *.
    assert (Hat0 : at_input d l pre (ct ++ ctl)) by (rewrite app_nil_r in Hat; exact Hat).
    destruct (next_text_lt d l pre ct ctl Hat0 Hit Hraw Ht Htl) as (l' & Hn & Htx & Hb & Hi' & Hr' & _).
    exists l'. split; [|tauto]. pose proof (len_nonneg ct). pose proof (len_nonneg ctl).
    pose proof (lexes_whole d l pre (ct ++ ctl) TextT l' 0 (len (ct ++ ctl)) Hat ltac:(rewrite len_app; exact Hn) ltac:(rewrite Z.add_0_r, len_app; exact Htx) Hb eq_refl ltac:(lia) (len_nonneg _) ltac:(lia)) as Hlx.
    rewrite Z.add_0_l in Hlx. pose proof (slice_first (ct ++ ctl) []) as Es. rewrite app_nil_r in Es. rewrite Es in Hlx. exact Hlx.
  - (* "<!--" body *)
    rewrite (Hlast eq_refl) in *.
    assert (Hat0 : at_input d l pre (60 :: 33 :: 45 :: 45 :: cb)) by (rewrite app_nil_r in Hat; exact Hat).
    destruct (next_comment_cut d l pre cb Hat0 Hit Hraw Hwf) as (l' & Hn & Htx & Hb & Hi' & Hr' & _).
    exists l'. split; [|tauto]. pose proof (len_nonneg cb).
    assert (HlX : len (60 :: 33 :: 45 :: 45 :: cb) = 4 + len cb) by (rewrite !len_cons; lia).
    pose proof (lexes_whole d l pre (60 :: 33 :: 45 :: 45 :: cb) CommentT l' 4 (len cb) Hat ltac:(rewrite HlX; exact Hn) Htx Hb eq_refl ltac:(lia) ltac:(lia) ltac:(lia)) as Hlx.
    pose proof (slice_mid [60; 33; 45; 45] cb []) as Es. rewrite app_nil_r in Es. change (len [60; 33; 45; 45]) with 4 in Es.
    cbn [app] in Es. rewrite Es in Hlx. exact Hlx.
  - (* "<![CDATA[" body *)
    rewrite (Hlast eq_refl) in *.
    assert (Hat0 : at_input d l pre (60 :: 33 :: 91 :: 67 :: 68 :: 65 :: 84 :: 65 :: 91 :: cdb)) by (rewrite app_nil_r in Hat; exact Hat).
    destruct (next_cdata_cut d l pre cdb Hat0 Hit Hraw Hwf) as (l' & Hn & Htx & Hb & Hi' & Hr' & _).
    exists l'. split; [|tauto]. pose proof (len_nonneg cdb).
    assert (HlX : len (60 :: 33 :: 91 :: 67 :: 68 :: 65 :: 84 :: 65 :: 91 :: cdb) = 9 + len cdb) by (rewrite !len_cons; lia).
    pose proof (lexes_whole d l pre _ TextT l' 9 (len cdb) Hat ltac:(rewrite HlX; exact Hn) Htx Hb eq_refl ltac:(lia) ltac:(lia) ltac:(lia)) as Hlx.
    pose proof (slice_mid [60; 33; 91; 67; 68; 65; 84; 65; 91] cdb []) as Es. rewrite app_nil_r in Es. change (len [60; 33; 91; 67; 68; 65; 84; 65; 91]) with 9 in Es.
    cbn [app] in Es. rewrite Es in Hlx. exact Hlx.
  - (* "<!doctype" after *)
    destruct Hwf as [Hdt Hafter]. rewrite (Hlast eq_refl) in *.
    assert (Hat0 : at_input d l pre (60 :: 33 :: [y0; y1; y2; y3; y4; y5; y6] ++ cafter)) by (rewrite app_nil_r in Hat; exact Hat).
    destruct (next_doctype_cut d l pre y0 y1 y2 y3 y4 y5 y6 cafter Hat0 Hit Hraw Hdt Hafter) as (l' & Hn & Htx & Hb & Hi' & Hr' & _).
    exists l'. split; [|tauto]. pose proof (len_nonneg cafter).
    assert (HlX : len (60 :: 33 :: [y0; y1; y2; y3; y4; y5; y6] ++ cafter) = 9 + len cafter) by (cbn [app]; rewrite !len_cons; lia).
    pose proof (lexes_whole d l pre _ DoctypeT l' 9 (len cafter) Hat ltac:(rewrite HlX; exact Hn) Htx Hb eq_refl ltac:(lia) ltac:(lia) ltac:(lia)) as Hlx.
    pose proof (slice_mid [60; 33; y0; y1; y2; y3; y4; y5; y6] cafter []) as Es. rewrite app_nil_r in Es. change (len [60; 33; y0; y1; y2; y3; y4; y5; y6]) with 9 in Es.
    cbn [app] in Es. cbn [app] in Hlx. rewrite Es in Hlx. exact Hlx.
  - (* bogus comment cut *)
    destruct Hwf as [Hopen Hb0]. rewrite (Hlast eq_refl) in *.
    assert (Hat0 : at_input d l pre (60 :: cc1 :: cbody)) by (rewrite app_nil_r in Hat; exact Hat).
    destruct (next_bogus_cut d l pre cc1 cbody Hat0 Hit Hraw Hopen Hb0) as (l' & Hn & Htx & Hb & Hi' & Hr' & _).
    exists l'. split; [|tauto]. pose proof (len_nonneg cbody).
    assert (HlX : len (60 :: cc1 :: cbody) = 2 + len cbody) by (rewrite !len_cons; lia).
    pose proof (lexes_whole d l pre _ CommentT l' 2 (len cbody) Hat ltac:(rewrite HlX; exact Hn) Htx Hb eq_refl ltac:(lia) ltac:(lia) ltac:(lia)) as Hlx.
    pose proof (slice_mid [60; cc1] cbody []) as Es. rewrite app_nil_r in Es. change (len [60; cc1]) with 2 in Es.
    cbn [app] in Es. rewrite Es in Hlx. exact Hlx.
  - (* end tag cut *)
    destruct Hwf as (Hn1 & Hn2 & Hws). rewrite (Hlast eq_refl) in *.
    assert (Hat0 : at_input d l pre (60 :: 47 :: cname ++ cws)) by (rewrite app_nil_r in Hat; exact Hat).
    destruct (next_endtag_cut d l pre cname cws Hat0 Hit Hraw Hn1 Hn2 Hws) as (l' & Hn & Htx & Hb & Hi' & Hr' & _).
    exists l'. split; [|tauto]. pose proof (len_nonneg cname). pose proof (len_nonneg cws).
    assert (Hl : len (60 :: 47 :: cname ++ cws) = 2 + len cname + len cws) by (rewrite !len_cons, len_app; lia).
    eapply lexes_one; [exact Hat|exact Hn|cbn [so sn]; lia|].
    cbn [observe]. rewrite Htx, Hb. cbn [opt_bytes]. change (EndTagT =? AttributeT) with false.
    destruct (at_input_buflen _ _ _ _ Hat0) as [Hbl0 _]. rewrite Hl in Hbl0.
    assert (Hname : view_bytes (lbuf (lz l)) (mkSl (len pre + 2) (len cname)) = cname).
    { rewrite (at_input_view d l pre _ 2 (len cname) Hat0) by lia. pose proof (slice_mid [60; 47] cname cws) as E. exact E. }
    f_equal.
    + replace (mkSl (len pre + 2) (len cname)) with (mkSl (len pre + 2) (2 + len cname - 2)) by (f_equal; lia).
      rewrite view_lower_middle by lia. replace (2 + len cname - 2) with (len cname) by lia. rewrite Hname.
      rewrite (at_input_view0 d l pre _ 2 Hat0) by lia.
      rewrite (at_input_view d l pre _ (2 + len cname) (2 + len cname + len cws - (2 + len cname)) Hat0) by lia.
      change (slice (60 :: 47 :: cname ++ cws) 0 2) with [60; 47].
      replace (slice (60 :: 47 :: cname ++ cws) (2 + len cname) (2 + len cname + (2 + len cname + len cws - (2 + len cname)))) with cws; [reflexivity|].
      symmetry. replace (2 + len cname + (2 + len cname + len cws - (2 + len cname))) with (2 + len cname + len cws) by lia.
      pose proof (slice_mid ([60; 47] ++ cname) cws []) as E. rewrite app_nil_r in E.
      replace (len ([60; 47] ++ cname)) with (2 + len cname) in E by (rewrite len_app; reflexivity).
      rewrite <- app_assoc in E. exact E.
    + rewrite view_bytes_lower_view by (cbn [so sn]; lia). rewrite Hname. reflexivity.
  - (* tag cut after its name or an attribute *)
    destruct Hwf as (Hn1 & Hn2 & (h & Hh & Hxml) & Hattrs). rewrite (Hlast eq_refl) in *.
    assert (Hshape : forall attrs', wf_attrs attrs' [] -> tagrest_shape ((concat (map attr_bytes attrs') ++ []) ++ [])).
    { intros attrs' Hw'. rewrite !app_nil_r. destruct attrs' as [|a attrs''].
      - exists [], []. split; [reflexivity|]. split; [constructor|]. right; right; right. reflexivity.
      - cbn [wf_attrs] in Hw'. destruct Hw' as [Ha _]. cbn [map concat].
        assert (Hk : forall w k tl, w <> [] -> all_ws w -> k <> [] -> Forall keychar k -> tagrest_shape ((w ++ k ++ tl))).
        { intros w k tl Hw1 Hw2 Hk1 Hk2. exists w, (k ++ tl). split; [reflexivity|]. split; [exact Hw2|]. left. split; [exact Hw1|].
          destruct k as [|c k']; [congruence|]. inversion Hk2; subst. exists c, (k' ++ tl). split; [reflexivity|assumption]. }
        destruct a as [w k|w k w2 w3 v]; cbn [attr_bytes wf_attr] in *.
        + destruct Ha as (A1 & A2 & A3 & A4). rewrite <- !app_assoc. apply Hk; assumption.
        + destruct Ha as (A1 & A2 & A3 & A4 & _). rewrite <- !app_assoc. apply Hk; assumption. }
    assert (Hat1 : at_input d l pre (60 :: tname ++ concat (map attr_bytes tattrs) ++ [] ++ [])).
    { cbn [app] in Hat. rewrite !app_nil_r in *. exact Hat. }
    pose proof (Hshape tattrs Hattrs) as Hsh0. rewrite <- app_assoc in Hsh0.
    destruct (next_starttag d l pre tname (concat (map attr_bytes tattrs) ++ [] ++ []) h Hat1 Hit Hraw Hn1 Hn2 (shape_tag_stop _ Hsh0) Hh Hxml)
      as (l1 & Hnx & Htx & Hb & Hi1 & Hr1 & _).
    pose proof (len_nonneg tname).
    assert (Hlex1 : lexes d l pre (60 :: tname) (concat (map attr_bytes tattrs) ++ [] ++ [])
                      [mkObs StartTagT (60 :: map lower tname) (map lower tname) []] l1).
    { eapply lexes_one; [exact Hat1|exact Hnx|cbn [so sn]; rewrite len_cons; lia|].
      set (tl := concat (map attr_bytes tattrs) ++ [] ++ []) in *.
      assert (Hbl1 : len (lbuf (lz l)) = len pre + (1 + len tname + len tl) + 1).
      { destruct (at_input_buflen _ _ _ _ Hat1) as [E _]. rewrite E, len_cons, len_app. lia. }
      pose proof (len_nonneg tl).
      cbn [observe]. rewrite Htx, Hb. cbn [opt_bytes]. change (StartTagT =? AttributeT) with false. f_equal.
      - replace (mkSl (len pre + 1) (len tname)) with (mkSl (len pre + 1) (1 + len tname - 1)) by (f_equal; lia).
        rewrite view_lower_middle by lia.
        rewrite (at_input_view0 d l pre _ 1 Hat1) by (rewrite ?len_cons; pose proof (len_nonneg (tname ++ tl)); lia).
        replace (1 + len tname - 1) with (len tname) by lia.
        rewrite (at_input_view d l pre _ 1 (len tname) Hat1) by (rewrite ?len_cons, ?len_app; lia).
        replace (1 + len tname - (1 + len tname)) with 0 by lia.
        rewrite (at_input_view d l pre _ (1 + len tname) 0 Hat1) by (rewrite ?len_cons, ?len_app; lia).
        rewrite slice_zero_len, app_nil_r.
        replace (slice (60 :: tname ++ tl) 1 (1 + len tname)) with tname by (symmetry; exact (slice_mid [60] tname tl)).
        change (slice (60 :: tname ++ tl) 0 1) with [60]. reflexivity.
      - rewrite view_bytes_lower_view by (cbn [so sn]; lia).
        rewrite (at_input_view d l pre _ 1 (len tname) Hat1) by (rewrite ?len_cons, ?len_app; lia).
        exact (f_equal (map lower) (slice_mid [60] tname tl)). }
    assert (Hat2 : at_input d l1 (pre ++ 60 :: tname) (concat (map attr_bytes tattrs) ++ [] ++ [])) by (destruct Hlex1 as (tr & _ & _ & _ & A); exact A).
    destruct (lexes_attrs tattrs d l1 (pre ++ 60 :: tname) [] [] Hat2 Hi1 Hattrs (or_intror eq_refl) Hshape) as (l2 & Hlex2 & Hi2 & Hr2).
    exists l2. split; [|discriminate].
    change (60 :: tname ++ concat (map attr_bytes tattrs)) with ((60 :: tname) ++ concat (map attr_bytes tattrs)).
    change (mkObs StartTagT (60 :: map lower tname) (map lower tname) [] :: map attr_obs tattrs)
      with ([mkObs StartTagT (60 :: map lower tname) (map lower tname) []] ++ map attr_obs tattrs).
    eapply lexes_app; [exact Hlex1|]. cbn [app] in Hlex2. exact Hlex2.
  - (* raw-text element without its end tag: the tag, then everything up to the end of input as one Text *)
    destruct Hwf as (Hn1 & Hn2 & (h & Hh & Hrh & Hxh & Hnp & Hrl) & Hws & Hattrs & Hcne). rewrite (Hlast eq_refl) in *. clear Hlast Hnext.
    assert (Hat1 : at_input d l pre ((60 :: rname ++ tag_rest rattrs rws false) ++ rcontent ++ [])).
    { rewrite app_nil_r in *. exact Hat. }
    destruct (lexes_tag d l pre rname rattrs rws false (rcontent ++ []) h Hat1 Hit Hraw Hn1 Hn2 Hh Hxh Hws Hattrs) as (l1 & Hl1 & Hi1 & Hr1).
    rewrite Hrh in Hr1.
    set (pre1 := pre ++ 60 :: rname ++ tag_rest rattrs rws false) in *.
    assert (Hat2 : at_input d l1 pre1 (rcontent ++ [])) by (destruct Hl1 as (tr & _ & _ & _ & A); exact A).
    assert (Hraw2 : exists l2, lexes d l1 pre1 rcontent [] [mkObs TextT rcontent rcontent []] l2 /\ intag l2 = false /\ rawtag l2 = 0).
    { pose proof Hat2 as (Hiv & Hcl & Hd & Hp). pose proof Hiv as (Hlw & Hlen & _).
      pose proof (len_nonneg rcontent). pose proof (len_nonneg pre1).
      assert (Hcpos : 0 < len rcontent) by (destruct rcontent; [congruence|rewrite len_cons; pose proof (len_nonneg rcontent); lia]).
      assert (Hlend : len d = len pre1 + len rcontent) by (rewrite Hd, app_nil_r, len_app; reflexivity).
      assert (Hh0 : h <> 0) by (intros ->; vm_compute in Hrh; discriminate).
      destruct (html_total_step_proof no_tmpl d l1 cfg_ok_no_tmpl Hiv) as (ty & tk & l2 & Hnx & Hiv2).
      pose proof (html_raw_end_proof d l1 ty tk l2 Hiv Hi1 ltac:(rewrite Hr1; exact Hh0) ltac:(rewrite Hr1; exact Hnp) Hnx) as Hre. cbn zeta in Hre.
      assert (Esk : skipz (lpos (lz l1)) d = rcontent) by (rewrite Hp, Hd, app_nil_r; apply skipz_app_len).
      rewrite Esk, Hr1, Hrl, Hp in Hre. destruct Hre as [_ Hre].
      destruct (Hre ltac:(lia)) as (-> & -> & Htx & Hr2 & Hit2 & Hpos2).
      exists l2. split; [|tauto].
      assert (Hbuf : lbuf (lz l2) = lbuf (lz l1)).
      { pose proof (safe_eq _ _ _ (next_spec no_tmpl l1 cfg_ok_no_tmpl Hlw) Hnx) as Hs. cbn [step_post] in Hs.
        destruct Hs as (_ & _ & (w & Hb & W1 & W2 & W3 & Wr) & _). unfold low_rule in Wr. cbn in Wr.
        rewrite Hb. destruct w as [wo wn]. cbn [so sn] in *. subst wn. apply lower_view_empty. unfold lx_len in Hlen. rewrite Hp in W1. lia. }
      eapply (lexes_one d l1 pre1 rcontent); [exact Hat2|exact Hnx|cbn [so sn]; lia|].
      cbn [observe]. rewrite Htx, Hbuf. cbn [opt_bytes]. change (TextT =? AttributeT) with false.
      replace (len pre1 + len rcontent - len pre1) with (len rcontent) by lia.
      rewrite (at_input_view0 d l1 pre1 _ (len rcontent) Hat2) by (rewrite ?len_app; change (len (@nil Z)) with 0; lia).
      rewrite slice_first. reflexivity. }
    destruct Hraw2 as (l2 & Hl2 & Hi2 & Hr2).
    exists l2. split; [|tauto]. eapply lexes_app; [exact Hl1|exact Hl2].
  - (* svg / math / xml cut by the end of input *)
    destruct Hwf as (Hn1 & Hn2 & Hh & Hxml & Hin1 & Hin2). rewrite (Hlast eq_refl) in *.
    assert (Hat0 : at_input d l pre (60 :: fname ++ finner)) by (rewrite app_nil_r in Hat; exact Hat).
    destruct (next_foreign_cut d l pre fname finner fh Hat0 Hit Hraw Hlerr Hn1 Hn2 Hh Hxml Hin1 Hin2) as (l' & Hn & Htx & Hb & Hi' & Hr' & _).
    exists l'. split; [|tauto]. pose proof (len_nonneg fname). pose proof (len_nonneg finner).
    assert (Hl : len (60 :: fname ++ finner) = 1 + len fname + len finner) by (rewrite !len_cons, len_app; lia).
    eapply lexes_one; [exact Hat|exact Hn|cbn [so sn]; lia|].
    cbn [observe]. rewrite Htx, Hb. cbn [opt_bytes].
    replace (foreign_ty fh =? AttributeT) with false by (unfold foreign_ty; destruct (fh =? html_hash_Svg); [reflexivity|]; destruct (fh =? html_hash_Math); reflexivity).
    destruct (at_input_buflen _ _ _ _ Hat0) as [Hbl0 _]. rewrite Hl in Hbl0.
    assert (Hname : view_bytes (lbuf (lz l)) (mkSl (len pre + 1) (len fname)) = fname).
    { rewrite (at_input_view d l pre _ 1 (len fname) Hat0) by lia. pose proof (slice_mid [60] fname finner) as E. exact E. }
    f_equal.
    + replace (mkSl (len pre + 1) (len fname)) with (mkSl (len pre + 1) (1 + len fname - 1)) by (f_equal; lia).
      rewrite view_lower_middle by lia. replace (1 + len fname - 1) with (len fname) by lia. rewrite Hname.
      rewrite (at_input_view0 d l pre _ 1 Hat0) by lia.
      rewrite (at_input_view d l pre _ (1 + len fname) (1 + len fname + len finner - (1 + len fname)) Hat0) by lia.
      change (slice (60 :: fname ++ finner) 0 1) with [60].
      replace (slice (60 :: fname ++ finner) (1 + len fname) (1 + len fname + (1 + len fname + len finner - (1 + len fname)))) with finner; [reflexivity|].
      symmetry. replace (1 + len fname + (1 + len fname + len finner - (1 + len fname))) with (1 + len fname + len finner) by lia.
      pose proof (slice_mid ([60] ++ fname) finner []) as E. rewrite app_nil_r in E.
      replace (len ([60] ++ fname)) with (1 + len fname) in E by (rewrite len_app; reflexivity).
      rewrite <- app_assoc in E. exact E.
    + rewrite view_bytes_lower_view by (cbn [so sn]; lia). rewrite Hname. reflexivity.
  - (* svg / math / xml cut inside its end tag *)
    destruct Hwf as (Hn1 & Hn2 & Hh & Heh & Hxml & Hin1 & Hin2 & Helet & Hews). rewrite (Hlast eq_refl) in *.
    set (finner := cinner ++ 60 :: 47 :: cename ++ cews) in *.
    assert (Hat0 : at_input d l pre (60 :: cname ++ finner)) by (rewrite app_nil_r in Hat; exact Hat).
    assert (Hlf : len finner = len cinner + 2 + len cename + len cews) by (unfold finner; rewrite len_app, !len_cons, len_app; lia).
    destruct (next_foreign_cut_end d l pre cname cinner cename cews ch Hat0 Hit Hraw Hlerr Hn1 Hn2 Hh Heh Hxml Hin1 Hin2 Helet Hews) as (l' & Hn & Htx & Hb & Hi' & Hr' & _).
    replace (1 + len cname + len cinner + 2 + len cename + len cews) with (1 + len cname + len finner) in Hn by lia.
    exists l'. split; [|tauto]. pose proof (len_nonneg cname). pose proof (len_nonneg finner).
    assert (Hl : len (60 :: cname ++ finner) = 1 + len cname + len finner) by (rewrite !len_cons, len_app; lia).
    eapply lexes_one; [exact Hat|exact Hn|cbn [so sn]; lia|].
    cbn [observe]. rewrite Htx, Hb. cbn [opt_bytes].
    replace (foreign_ty ch =? AttributeT) with false by (unfold foreign_ty; destruct (ch =? html_hash_Svg); [reflexivity|]; destruct (ch =? html_hash_Math); reflexivity).
    destruct (at_input_buflen _ _ _ _ Hat0) as [Hbl0 _]. rewrite Hl in Hbl0.
    assert (Hname : view_bytes (lbuf (lz l)) (mkSl (len pre + 1) (len cname)) = cname).
    { rewrite (at_input_view d l pre _ 1 (len cname) Hat0) by lia. pose proof (slice_mid [60] cname finner) as E. exact E. }
    f_equal.
    + replace (mkSl (len pre + 1) (len cname)) with (mkSl (len pre + 1) (1 + len cname - 1)) by (f_equal; lia).
      rewrite view_lower_middle by lia. replace (1 + len cname - 1) with (len cname) by lia. rewrite Hname.
      rewrite (at_input_view0 d l pre _ 1 Hat0) by lia.
      rewrite (at_input_view d l pre _ (1 + len cname) (1 + len cname + len finner - (1 + len cname)) Hat0) by lia.
      change (slice (60 :: cname ++ finner) 0 1) with [60].
      replace (slice (60 :: cname ++ finner) (1 + len cname) (1 + len cname + (1 + len cname + len finner - (1 + len cname)))) with finner; [reflexivity|].
      symmetry. replace (1 + len cname + (1 + len cname + len finner - (1 + len cname))) with (1 + len cname + len finner) by lia.
      pose proof (slice_mid ([60] ++ cname) finner []) as E. rewrite app_nil_r in E.
      replace (len ([60] ++ cname)) with (1 + len cname) in E by (rewrite len_app; reflexivity).
      rewrite <- app_assoc in E. exact E.
    + rewrite view_bytes_lower_view by (cbn [so sn]; lia). rewrite Hname. reflexivity.
Qed.

(* ---- documents ------------------------------------------------------------------------------------------------------------- *)
Lemma lexes_doc items : forall d l pre, at_input d l pre (doc_bytes items) -> intag l = false -> rawtag l = 0 -> lerr l = false -> wf_doc items ->
  exists l', lexes d l pre (doc_bytes items) [] (doc_obs items) l'.
Proof.
  induction items as [|i items IH]; intros d l pre Hat Hit Hraw Hlerr Hwf.
  - exists l. apply lexes_nil; exact Hat.
  - cbn [wf_doc] in Hwf. destruct Hwf as (Hi & Hnt & Hlast & Hrest).
    unfold doc_bytes, doc_obs in *. cbn [map concat] in *. fold (doc_bytes items) in *. fold (doc_obs items) in *.
    assert (Hfollow : is_text i = true -> doc_bytes items = [] \/ tag_start (doc_bytes items)).
    { intros Ht. specialize (Hnt Ht). destruct items as [|j items']; [left; reflexivity|right].
      cbn [wf_doc] in Hrest. destruct Hrest as (Hj & _). unfold doc_bytes. cbn [map concat]. apply nontext_tag_start; assumption. }
    assert (Hlast' : is_plain i = true -> doc_bytes items = []) by (intros Hpl; rewrite (Hlast Hpl); reflexivity).
    destruct (lexes_item i d l pre (doc_bytes items) Hat Hit Hraw Hlerr Hi Hfollow Hlast') as (l1 & Hl1 & Hst1).
    destruct (is_plain i) eqn:Epl.
    + rewrite (Hlast eq_refl) in *. exists l1. unfold doc_bytes, doc_obs in *. cbn [map concat] in *. rewrite !app_nil_r in *. exact Hl1.
    + destruct (Hst1 eq_refl) as [Hi1 Hr1].
      assert (Hat1 : at_input d l1 (pre ++ item_bytes i) (doc_bytes items)) by (destruct Hl1 as (tr & _ & _ & _ & A); exact A).
      assert (Hlerr1 : lerr l1 = false).
      { rewrite (lexes_lerr _ _ _ _ _ _ _ (proj1 (proj1 Hat)) Hl1 (item_obs_noerr i)). exact Hlerr. }
      destruct (IH d l1 (pre ++ item_bytes i) Hat1 Hi1 Hr1 Hlerr1 Hrest) as (l2 & Hl2).
      exists l2. eapply lexes_app; [|exact Hl2]. rewrite app_nil_r. exact Hl1.
Qed.

(* ---- a tag cut by the end of input after its name or an attribute, possibly inside whitespace (tail) ---------------------- *)
Lemma lexes_cut_tag d l pre tname tattrs tail :
  at_input d l pre (60 :: tname ++ concat (map attr_bytes tattrs) ++ tail ++ []) -> intag l = false -> rawtag l = 0 ->
  (exists c nm, tname = c :: nm /\ is_letter c = true) -> Forall namechar tname ->
  (exists h, to_hash (map lower tname) = Ok h /\ is_xml_hash h = false) -> all_ws tail -> wf_attrs tattrs tail ->
  exists l', lexes d l pre (60 :: tname ++ concat (map attr_bytes tattrs)) (tail ++ [])
               (mkObs StartTagT (60 :: map lower tname) (map lower tname) [] :: map attr_obs tattrs) l' /\ intag l' = true.
Proof.
  intros Hat Hit Hraw Hn1 Hn2 (h & Hh & Hxml) Htail Hattrs.
  destruct (at_input_buflen _ _ _ _ Hat) as [Hbl Hpre0].
  assert (Hshape : forall attrs', wf_attrs attrs' tail -> tagrest_shape ((concat (map attr_bytes attrs') ++ tail) ++ [])).
  { intros attrs' Hw'. rewrite app_nil_r. destruct attrs' as [|a attrs''].
    - exists tail, []. split; [cbn [map concat app]; rewrite app_nil_r; reflexivity|]. split; [exact Htail|]. right; right; right. reflexivity.
    - cbn [wf_attrs] in Hw'. destruct Hw' as [Ha _]. cbn [map concat].
      assert (Hk : forall w k tl, w <> [] -> all_ws w -> k <> [] -> Forall keychar k -> tagrest_shape ((w ++ k ++ tl))).
      { intros w k tl Hw1 Hw2 Hk1 Hk2. exists w, (k ++ tl). split; [reflexivity|]. split; [exact Hw2|]. left. split; [exact Hw1|].
        destruct k as [|c k']; [congruence|]. inversion Hk2; subst. exists c, (k' ++ tl). split; [reflexivity|assumption]. }
      destruct a as [w k|w k w2 w3 v]; cbn [attr_bytes wf_attr] in *.
      + destruct Ha as (A1 & A2 & A3 & A4). rewrite <- !app_assoc. apply Hk; assumption.
      + destruct Ha as (A1 & A2 & A3 & A4 & _). rewrite <- !app_assoc. apply Hk; assumption. }
  assert (Hat1 : at_input d l pre (60 :: tname ++ concat (map attr_bytes tattrs) ++ tail ++ [])).
  { exact Hat. }
  pose proof (Hshape tattrs Hattrs) as Hsh0. rewrite <- app_assoc in Hsh0.
  destruct (next_starttag d l pre tname (concat (map attr_bytes tattrs) ++ tail ++ []) h Hat1 Hit Hraw Hn1 Hn2 (shape_tag_stop _ Hsh0) Hh Hxml)
    as (l1 & Hnx & Htx & Hb & Hi1 & Hr1 & _).
  pose proof (len_nonneg tname).
  assert (Hlex1 : lexes d l pre (60 :: tname) (concat (map attr_bytes tattrs) ++ tail ++ [])
                    [mkObs StartTagT (60 :: map lower tname) (map lower tname) []] l1).
  { eapply lexes_one; [exact Hat1|exact Hnx|cbn [so sn]; rewrite len_cons; lia|].
    set (tl := concat (map attr_bytes tattrs) ++ tail ++ []) in *.
    assert (Hbl1 : len (lbuf (lz l)) = len pre + (1 + len tname + len tl) + 1).
    { destruct (at_input_buflen _ _ _ _ Hat1) as [E _]. rewrite E, len_cons, len_app. lia. }
    pose proof (len_nonneg tl).
    cbn [observe]. rewrite Htx, Hb. cbn [opt_bytes]. change (StartTagT =? AttributeT) with false. f_equal.
    - replace (mkSl (len pre + 1) (len tname)) with (mkSl (len pre + 1) (1 + len tname - 1)) by (f_equal; lia).
      rewrite view_lower_middle by lia.
      rewrite (at_input_view0 d l pre _ 1 Hat1) by (rewrite ?len_cons; pose proof (len_nonneg (tname ++ tl)); lia).
      replace (1 + len tname - 1) with (len tname) by lia.
      rewrite (at_input_view d l pre _ 1 (len tname) Hat1) by (rewrite ?len_cons, ?len_app; lia).
      replace (1 + len tname - (1 + len tname)) with 0 by lia.
      rewrite (at_input_view d l pre _ (1 + len tname) 0 Hat1) by (rewrite ?len_cons, ?len_app; lia).
      rewrite slice_zero_len, app_nil_r.
      replace (slice (60 :: tname ++ tl) 1 (1 + len tname)) with tname by (symmetry; exact (slice_mid [60] tname tl)).
      change (slice (60 :: tname ++ tl) 0 1) with [60]. reflexivity.
    - rewrite view_bytes_lower_view by (cbn [so sn]; lia).
      rewrite (at_input_view d l pre _ 1 (len tname) Hat1) by (rewrite ?len_cons, ?len_app; lia).
      exact (f_equal (map lower) (slice_mid [60] tname tl)). }
  assert (Hat2 : at_input d l1 (pre ++ 60 :: tname) (concat (map attr_bytes tattrs) ++ tail ++ [])) by (destruct Hlex1 as (tr & _ & _ & _ & A); exact A).
  destruct (lexes_attrs tattrs d l1 (pre ++ 60 :: tname) tail [] Hat2 Hi1 Hattrs (or_intror eq_refl) Hshape) as (l2 & Hlex2 & Hi2 & Hr2).
  exists l2. split; [|exact Hi2].
  change (60 :: tname ++ concat (map attr_bytes tattrs)) with ((60 :: tname) ++ concat (map attr_bytes tattrs)).
  change (mkObs StartTagT (60 :: map lower tname) (map lower tname) [] :: map attr_obs tattrs)
    with ([mkObs StartTagT (60 :: map lower tname) (map lower tname) []] ++ map attr_obs tattrs).
  eapply lexes_app; [exact Hlex1|]. exact Hlex2.
Qed.

(* at the end of input inside a tag, after whitespace: the end-of-input report, Text() empty *)
Lemma next_intag_eof d l pre tws : at_input d l pre tws -> intag l = true -> all_ws tws ->
  exists l', next no_tmpl l = Ok (ErrorT, None, l') /\ ltext l' = None.
Proof.
  intros Hat Hit Hws. pose proof (at_input_reads _ _ _ _ Hat) as Hr.
  assert (Hr' : reads (lz l) (tws ++ [])) by (rewrite app_nil_r; exact Hr).
  unfold next. cbn [lz rawtag intag lerr ltext lattr lhas]. rewrite Hit. unfold next_intag. cbn [lz rawtag intag lerr ltext lattr lhas].
  rewrite (ws_loop_reads _ tws [] Hr' Hws (or_introl eq_refl)). cbn [rbind].
  destruct (reads_end _ _ Hr) as [Hp _]. rewrite pkr_mv0. unfold pkr. rewrite Hp. cbn [opt_res rbind].
  rewrite (reads_eof0_end _ _ Hr). eexists. split; reflexivity.
Qed.

(* complete constructs followed by more input that starts a tag *)
Lemma lexes_doc_open items : forall d l pre rest, at_input d l pre (doc_bytes items ++ rest) -> intag l = false -> rawtag l = 0 -> lerr l = false ->
  wf_doc items -> Forall (fun i => is_plain i = false) items -> tag_start rest ->
  exists l', lexes d l pre (doc_bytes items) rest (doc_obs items) l' /\ intag l' = false /\ rawtag l' = 0 /\ lerr l' = false.
Proof.
  induction items as [|i items IH]; intros d l pre rest Hat Hit Hraw Hlerr Hwf Hnp Hts.
  - exists l. split; [apply lexes_nil; exact Hat|tauto].
  - cbn [wf_doc] in Hwf. destruct Hwf as (Hi & Hnt & Hlast & Hrest). inversion Hnp as [|? ? Hpi Hnp']; subst.
    unfold doc_bytes, doc_obs in *. cbn [map concat] in *. fold (doc_bytes items) in *. fold (doc_obs items) in *.
    assert (Hfollow : is_text i = true -> doc_bytes items ++ rest = [] \/ tag_start (doc_bytes items ++ rest)).
    { intros Ht. right. specialize (Hnt Ht). destruct items as [|j items']; [exact Hts|].
      cbn [wf_doc] in Hrest. destruct Hrest as (Hj & _). unfold doc_bytes. cbn [map concat]. rewrite <- app_assoc. apply nontext_tag_start; assumption. }
    assert (Hlast' : is_plain i = true -> doc_bytes items ++ rest = []) by (intros Hpl; congruence).
    assert (Hat' : at_input d l pre (item_bytes i ++ doc_bytes items ++ rest)) by (rewrite app_assoc; exact Hat).
    destruct (lexes_item i d l pre (doc_bytes items ++ rest) Hat' Hit Hraw Hlerr Hi Hfollow Hlast') as (l1 & Hl1 & Hst1).
    destruct (Hst1 Hpi) as [Hi1 Hr1].
    assert (Hat1 : at_input d l1 (pre ++ item_bytes i) (doc_bytes items ++ rest)) by (destruct Hl1 as (tr & _ & _ & _ & A); exact A).
    assert (Hlerr1 : lerr l1 = false).
    { rewrite (lexes_lerr _ _ _ _ _ _ _ (proj1 (proj1 Hat)) Hl1 (item_obs_noerr i)). exact Hlerr. }
    destruct (IH d l1 (pre ++ item_bytes i) rest Hat1 Hi1 Hr1 Hlerr1 Hrest Hnp' Hts) as (l2 & Hl2 & Hf2).
    exists l2. split; [|exact Hf2]. eapply lexes_app; [exact Hl1|exact Hl2].
Qed.

Lemma at_input_init d : at_input d (new_lexer d) [] d.
Proof. split; [apply html_inv_init|]. split; [reflexivity|]. split; reflexivity. Qed.

(* without delimiters HasTemplate() is false after every call *)
Lemma run_no_tmpl_has : forall n l tr, run no_tmpl n l = Ok tr -> Forall (fun r => lhas (snd r) = false) tr.
Proof.
  induction n as [|k IH]; intros l tr H; cbn [run] in H; [injection H as <-; constructor|].
  destruct (next no_tmpl l) as [r| |] eqn:En; cbn [rbind] in H; try discriminate.
  destruct (run no_tmpl k (snd r)) as [rest| |] eqn:Er; cbn [rbind] in H; try discriminate.
  injection H as <-. constructor; [exact (next_no_tmpl_has l r En)|exact (IH _ _ Er)].
Qed.

Lemma html_wellformed_tokens_proof : forall items, wf_doc items ->
  exists tr, run no_tmpl (length (doc_obs items) + 1) (new_lexer (doc_bytes items)) = Ok tr /\
             map observe tr = doc_obs items ++ [mkObs ErrorT [] [] []] /\
             Forall (fun r => lhas (snd r) = false) tr.
Proof.
  intros items Hwf. set (d := doc_bytes items).
  cut (exists tr, run no_tmpl (length (doc_obs items) + 1) (new_lexer d) = Ok tr /\ map observe tr = doc_obs items ++ [mkObs ErrorT [] [] []]).
  { intros (tr & Hr & Ho). exists tr. split; [exact Hr|]. split; [exact Ho|exact (run_no_tmpl_has _ _ _ Hr)]. }
  destruct (lexes_doc items d (new_lexer d) [] (at_input_init d) eq_refl eq_refl eq_refl Hwf) as (l' & (tr & Hr & Ho & Hf & Hat)).
  cbn [app] in Hat. destruct Hat as (Hinv & Hcl & Hd & Hp). rewrite app_nil_r in Hd. subst d. clear Hd.
  destruct (html_eof_sticky_step_proof no_tmpl _ l' cfg_ok_no_tmpl Hinv Hp) as (l2 & Hn2 & Hinv2 & Hp2 & _).
  exists (tr ++ [(ErrorT, None, l2)]). rewrite run_app, Hr. cbn [rbind]. rewrite Hf. cbn [run]. rewrite Hn2. cbn [rbind].
  split; [reflexivity|]. rewrite map_app, Ho. f_equal. cbn [map observe opt_bytes]. change (ErrorT =? AttributeT) with false.
  f_equal. f_equal.
  (* Text() after the end-of-input report is empty *)
  pose proof Hinv as (Hl & _).
  pose proof (safe_eq _ _ _ (next_spec no_tmpl l' cfg_ok_no_tmpl Hl) Hn2) as Hs. cbn [step_post] in Hs.
  destruct Hs as (_ & (Vt & _) & _). destruct (ltext l2) as [t|]; [|reflexivity]. cbn [opt_within opt_bytes] in *.
  unfold view_bytes, slice, firstz. replace (so t + sn t - so t) with 0 by lia. reflexivity.
Qed.

(* complete constructs, then a tag that the end of input cuts inside the whitespace after its name or after an attribute *)
Lemma html_wellformed_cut_ws_proof : forall items name attrs tws, wf_doc items -> Forall (fun i => is_plain i = false) items ->
  (exists c nm, name = c :: nm /\ is_letter c = true) -> Forall namechar name ->
  (exists h, to_hash (map lower name) = Ok h /\ is_xml_hash h = false) -> all_ws tws -> wf_attrs attrs tws ->
  let d := doc_bytes items ++ 60 :: name ++ concat (map attr_bytes attrs) ++ tws in
  let os := doc_obs items ++ mkObs StartTagT (60 :: map lower name) (map lower name) [] :: map attr_obs attrs in
  exists tr, run no_tmpl (length os + 1) (new_lexer d) = Ok tr /\ map observe tr = os ++ [mkObs ErrorT [] [] []] /\
             Forall (fun r => lhas (snd r) = false) tr.
Proof.
  intros items name attrs tws Hwf Hnp Hn1 Hn2 Hhx Hws Hattrs d os.
  cut (exists tr, run no_tmpl (length os + 1) (new_lexer d) = Ok tr /\ map observe tr = os ++ [mkObs ErrorT [] [] []]).
  { intros (tr & Hr & Ho). exists tr. split; [exact Hr|]. split; [exact Ho|exact (run_no_tmpl_has _ _ _ Hr)]. }
  set (X := 60 :: name ++ concat (map attr_bytes attrs)).
  assert (Ed : d = doc_bytes items ++ X ++ tws ++ []).
  { unfold d, X. rewrite app_nil_r. cbn [app]. rewrite <- app_assoc. reflexivity. }
  assert (Hts : tag_start (X ++ tws ++ [])).
  { destruct Hn1 as (c & nm & -> & Hl). unfold X. cbn [app]. eexists c, _. split; [reflexivity|left; exact Hl]. }
  assert (Hat0 : at_input d (new_lexer d) [] (doc_bytes items ++ X ++ tws ++ [])) by (rewrite <- Ed; apply at_input_init).
  destruct (lexes_doc_open items d (new_lexer d) [] (X ++ tws ++ []) Hat0 eq_refl eq_refl eq_refl Hwf Hnp Hts) as (l1 & Hl1 & Hi1 & Hr1 & _).
  assert (Hat1 : at_input d l1 (doc_bytes items) (60 :: name ++ concat (map attr_bytes attrs) ++ tws ++ [])).
  { destruct Hl1 as (tr & _ & _ & _ & A). cbn [app] in A. unfold X in A. cbn [app] in A. rewrite <- app_assoc in A. exact A. }
  destruct (lexes_cut_tag d l1 (doc_bytes items) name attrs tws Hat1 Hi1 Hr1 Hn1 Hn2 Hhx Hws Hattrs) as (l2 & Hl2 & Hi2).
  fold X in Hl2.
  pose proof (lexes_app d (new_lexer d) [] (doc_bytes items) X (tws ++ []) _ _ l1 l2 Hl1 Hl2) as (tr & Hr & Ho & Hf & Hat).
  rewrite app_nil_r in Hat.
  destruct (next_intag_eof d l2 _ tws Hat Hi2 Hws) as (l3 & Hn3 & Htx3).
  exists (tr ++ [(ErrorT, None, l3)]). fold os in Hr, Ho. rewrite run_app, Hr. cbn [rbind]. rewrite Hf. cbn [run]. rewrite Hn3. cbn [rbind].
  split; [reflexivity|]. rewrite map_app, Ho. f_equal. cbn [map observe opt_bytes]. rewrite Htx3. reflexivity.
Qed.

(* non-vacuity: <!DOCTYPE html><a B='c' d>x</A ><STYLE>p<q</style ><svg><g/></SVG > *)
Example html_wellformed_nonvacuous :
  let doc := [ IDoctype 68 79 67 84 89 80 69 [32; 104; 116; 109; 108];
               ITag [97] [AVal [32] [66] [] [] [39; 99; 39]; ANone [32] [100]] [] false;
               IText [120];
               IEnd [65] [32];
               IRaw [83; 84; 89; 76; 69] [] [] [112; 60; 113] [115; 116; 121; 108; 101] [32];
               IForeign html_hash_Svg [115; 118; 103] [62; 60; 103; 47; 62] [83; 86; 71] [32] ] in
  wf_doc doc /\
  doc_bytes doc = [60;33;68;79;67;84;89;80;69;32;104;116;109;108;62;60;97;32;66;61;39;99;39;32;100;62;120;60;47;65;32;62;
                   60;83;84;89;76;69;62;112;60;113;60;47;115;116;121;108;101;32;62;
                   60;115;118;103;62;60;103;47;62;60;47;83;86;71;32;62] /\
  length (doc_obs doc) = 12%nat.
Proof.
  split; [|split; reflexivity]. cbn [wf_doc is_text is_plain].
  split; [|split; [discriminate|split; [discriminate|]]].
  { cbn [wf_item]. split; [repeat constructor; unfold ci_eq; lia|repeat constructor; discriminate]. }
  split; [|split; [discriminate|split; [discriminate|]]].
  { cbn [wf_item]. split; [eexists _, _; split; reflexivity|]. split; [repeat constructor; discriminate|].
    split; [eexists; split; vm_compute; reflexivity|]. split; [constructor|].
    cbn [wf_attrs wf_attr]. split.
    - split; [discriminate|]. split; [repeat constructor|]. split; [discriminate|]. split; [repeat constructor; vm_compute; repeat split; discriminate|].
      split; [constructor|]. split; [constructor|]. right. left. exists 39, [99]. split; [reflexivity|]. split; [tauto|repeat constructor; discriminate].
    - split; [|exact I]. split; [discriminate|]. split; [repeat constructor|]. split; [discriminate|]. repeat constructor; vm_compute; repeat split; discriminate. }
  split; [|split; [intros _; reflexivity|split; [discriminate|]]].
  { cbn [wf_item]. split; [discriminate|repeat constructor; discriminate]. }
  split; [|split; [discriminate|split; [discriminate|]]].
  { cbn [wf_item]. split; [eexists _, _; split; reflexivity|]. split; [repeat constructor; vm_compute; reflexivity|constructor; [reflexivity|constructor]]. }
  split; [|split; [discriminate|split; [discriminate|]]].
  { cbn [wf_item]. split; [eexists _, _; split; reflexivity|].
    split; [repeat constructor; vm_compute; repeat split; discriminate|].
    split.
    { exists html_hash_Style. split; [vm_compute; reflexivity|]. split; [vm_compute; reflexivity|].
      split; [vm_compute; reflexivity|]. split; [vm_compute; reflexivity|]. split; [vm_compute; discriminate|].
      left. vm_compute. discriminate. }
    split; [constructor|]. split; [cbn [wf_attrs]; exact I|]. split; [discriminate|].
    split.
    { intros k Hk Hk1. assert (0 <= k < 3) by (apply peekz_some in Hk; exact Hk).
      assert (k = 0 \/ k = 1 \/ k = 2) as [-> | [-> | -> ]] by lia; vm_compute in Hk, Hk1; discriminate. }
    split; [discriminate|]. split; [repeat constructor|repeat constructor]. }
  split; [|split; [discriminate|split; [discriminate|exact I]]].
  cbn [wf_item]. split; [eexists _, _; split; reflexivity|].
  split; [repeat constructor; vm_compute; repeat split; discriminate|].
  split; [vm_compute; reflexivity|]. split; [vm_compute; reflexivity|]. split; [vm_compute; reflexivity|].
  split; [exists 62, [60; 103; 47; 62]; split; [reflexivity|tauto]|].
  split; [vm_compute; reflexivity|]. split; repeat constructor.
Qed.

(* non-vacuity of the svg / math grammar with quotes and nested tags:
   <svg a='>"</svg>' b=">'"><text x="1">5" 'pipe'</text><!-- "</svg>--><?pi '</svg>?><![CDATA["</svg>]]></g></SVG > *)
Example html_wellformed_nonvacuous3 :
  let inner := [32;97;61;39;62;34;60;47;115;118;103;62;39;32;98;61;34;62;39;34;62;
                60;116;101;120;116;32;120;61;34;49;34;62;53;34;32;39;112;105;112;101;39;60;47;116;101;120;116;62;
                60;33;45;45;32;34;60;47;115;118;103;62;45;45;62;60;63;112;105;32;39;60;47;115;118;103;62;63;62;60;33;91;67;68;65;84;65;91;34;60;47;115;118;103;62;93;93;62;60;47;103;62] in
  let doc := [ IForeign html_hash_Svg [115; 118; 103] inner [83; 86; 71] [32]; IText [120] ] in
  wf_doc doc /\ length (doc_obs doc) = 2%nat /\
  exists tr, run no_tmpl 3 (new_lexer (doc_bytes doc)) = Ok tr /\
    map (fun r => (fst (fst r), snd (fst r))) tr = [(SvgT, Some (mkSl 0 (len (doc_bytes doc) - 1))); (TextT, Some (mkSl (len (doc_bytes doc) - 1) 1)); (ErrorT, None)].
Proof.
  split; [|split; [reflexivity|eexists; split; vm_compute; reflexivity]].
  cbn [wf_doc wf_item is_text is_plain].
  split; [|split; [discriminate|split; [discriminate|]]].
  - split; [eexists _, _; split; reflexivity|].
    split; [repeat constructor; vm_compute; repeat split; discriminate|].
    split; [vm_compute; reflexivity|]. split; [vm_compute; reflexivity|]. split; [vm_compute; reflexivity|].
    split; [eexists _, _; split; [reflexivity|left; reflexivity]|].
    split; [vm_compute; reflexivity|]. split; repeat constructor.
  - split; [split; [discriminate|repeat constructor; discriminate]|]. split; [intros _; exact I|]. split; [discriminate|exact I].
Qed.

(* non-vacuity of the added constructs: <?xml><!doctyp></1><script>a<b</script><plaintext></p> *)
Example html_wellformed_nonvacuous2 :
  let doc := [ IBogus 63 [120; 109; 108];
               IBogus 33 [100; 111; 99; 116; 121; 112];
               IBogus 47 [49];
               IRaw [115; 99; 114; 105; 112; 116] [] [] [97; 60; 98] [115; 99; 114; 105; 112; 116] [];
               IPlain [112; 108; 97; 105; 110; 116; 101; 120; 116] [] [] [60; 47; 112; 62] ] in
  wf_doc doc /\
  doc_bytes doc = [60;63;120;109;108;62; 60;33;100;111;99;116;121;112;62; 60;47;49;62;
                   60;115;99;114;105;112;116;62;97;60;98;60;47;115;99;114;105;112;116;62;
                   60;112;108;97;105;110;116;101;120;116;62;60;47;112;62] /\
  length (doc_obs doc) = 10%nat.
Proof.
  split; [|split; reflexivity]. cbn [wf_doc is_text is_plain].
  split; [|split; [discriminate|split; [discriminate|]]].
  { split; [left; reflexivity|repeat constructor; discriminate]. }
  split; [|split; [discriminate|split; [discriminate|]]].
  { split; [|repeat constructor; discriminate]. right; left. split; [reflexivity|]. split; [reflexivity|]. split; [reflexivity|].
    reflexivity. }
  split; [|split; [discriminate|split; [discriminate|]]].
  { split; [|repeat constructor; discriminate]. right; right. split; [reflexivity|]. exists 49, []. split; reflexivity. }
  split; [|split; [discriminate|split; [discriminate|]]].
  { cbn [wf_item]. split; [eexists _, _; split; reflexivity|].
    split; [repeat constructor; vm_compute; repeat split; discriminate|].
    split.
    { exists html_hash_Script. split; [vm_compute; reflexivity|]. split; [vm_compute; reflexivity|].
      split; [vm_compute; reflexivity|]. split; [vm_compute; reflexivity|]. split; [vm_compute; discriminate|].
      right; left. intros k (C0 & C1 & _). assert (0 <= k < 3) by (apply peekz_some in C0; exact C0).
      assert (k = 0 \/ k = 1 \/ k = 2) as [-> | [-> | -> ]] by lia; vm_compute in C0, C1; discriminate. }
    split; [constructor|]. split; [cbn [wf_attrs]; exact I|]. split; [discriminate|].
    split.
    { intros k Hk Hk1. assert (0 <= k < 3) by (apply peekz_some in Hk; exact Hk).
      assert (k = 0 \/ k = 1 \/ k = 2) as [-> | [-> | -> ]] by lia; vm_compute in Hk, Hk1; discriminate. }
    split; [discriminate|]. split; [repeat constructor|constructor]. }
  split; [|split; [discriminate|split; [reflexivity|exact I]]].
  cbn [wf_item]. split; [eexists _, _; split; reflexivity|].
  split; [repeat constructor; vm_compute; repeat split; discriminate|].
  split; [vm_compute; reflexivity|]. split; [constructor|]. split; [cbn [wf_attrs]; exact I|discriminate].
Qed.

(* non-vacuity of the cut constructs: <p><script>a<!--<script></script>  (the script content runs to the end of input: inside the
   "<!--" section the "</script" only closes the inner "<script"), and <p>x</p><a b='c' d  (a tag cut after an attribute) *)
Example html_wellformed_cut_nonvacuous :
  let doc1 := [ ITag [112] [] [] false;
                ICutRaw [115; 99; 114; 105; 112; 116] [] [] [97; 60; 33; 45; 45; 60; 115; 99; 114; 105; 112; 116; 62; 60; 47; 115; 99; 114; 105; 112; 116; 62] ] in
  let doc2 := [ ITag [112] [] [] false; IText [120]; IEnd [112] []; ICutTag [97] [AVal [32] [98] [] [] [39; 99; 39]; ANone [32] [100]] ] in
  (wf_doc doc1 /\ exists tr, run no_tmpl 6 (new_lexer (doc_bytes doc1)) = Ok tr /\ map observe tr = doc_obs doc1 ++ [mkObs ErrorT [] [] []]) /\
  (wf_doc doc2 /\ exists tr, run no_tmpl 8 (new_lexer (doc_bytes doc2)) = Ok tr /\ map observe tr = doc_obs doc2 ++ [mkObs ErrorT [] [] []]).
Proof.
  assert (Hp : wf_item (ITag [112] [] [] false)).
  { cbn [wf_item]. split; [eexists _, _; split; reflexivity|]. split; [repeat constructor; vm_compute; repeat split; discriminate|].
    split; [eexists; split; vm_compute; reflexivity|]. split; [constructor|exact I]. }
  split; (split; [|eexists; split; vm_compute; reflexivity]); cbn [wf_doc is_text is_plain].
  - split; [exact Hp|]. split; [discriminate|]. split; [discriminate|]. split; [|split; [discriminate|split; [reflexivity|exact I]]].
    cbn [wf_item]. split; [eexists _, _; split; reflexivity|]. split; [repeat constructor; vm_compute; repeat split; discriminate|].
    split; [|split; [constructor|split; [exact I|discriminate]]].
    exists html_hash_Script. split; [vm_compute; reflexivity|]. split; [vm_compute; reflexivity|]. split; [vm_compute; reflexivity|].
    split; [vm_compute; discriminate|vm_compute; reflexivity].
  - split; [exact Hp|]. split; [discriminate|]. split; [discriminate|].
    split; [cbn [wf_item]; split; [discriminate|repeat constructor; discriminate]|]. split; [intros _; reflexivity|]. split; [discriminate|].
    split; [cbn [wf_item]; split; [eexists _, _; split; reflexivity|]; split; [repeat constructor; vm_compute; reflexivity|constructor]|].
    split; [discriminate|]. split; [discriminate|]. split; [|split; [discriminate|split; [reflexivity|exact I]]].
    cbn [wf_item]. split; [eexists _, _; split; reflexivity|]. split; [repeat constructor; vm_compute; repeat split; discriminate|].
    split; [eexists; split; vm_compute; reflexivity|]. cbn [wf_attrs wf_attr]. split.
    + split; [discriminate|]. split; [repeat constructor|]. split; [discriminate|]. split; [repeat constructor; vm_compute; repeat split; discriminate|].
      split; [constructor|]. split; [constructor|]. right. left. exists 39, [99]. split; [reflexivity|]. split; [tauto|repeat constructor; discriminate].
    + split; [|exact I]. split; [discriminate|]. split; [repeat constructor|]. split; [discriminate|]. repeat constructor; vm_compute; repeat split; discriminate.
Qed.

(* non-vacuity of the cut svg: <p><SVG a=QxQ> <!-- </svg> with Q a double quote and x = </svg> (the end of input
   comes inside a comment; the first end tag is inside a quoted attribute value) *)
Example html_wellformed_cut_foreign_nonvacuous :
  let doc := [ ITag [112] [] [] false;
               ICutForeign html_hash_Svg [83; 86; 71] [32; 97; 61; 34; 120; 60; 47; 115; 118; 103; 62; 34; 62; 32; 60; 33; 45; 45; 32; 60; 47; 115; 118; 103; 62] ] in
  wf_doc doc /\ exists tr, run no_tmpl 4 (new_lexer (doc_bytes doc)) = Ok tr /\ map observe tr = doc_obs doc ++ [mkObs ErrorT [] [] []].
Proof.
  split; [|eexists; split; vm_compute; reflexivity]. cbn [wf_doc is_text is_plain].
  split.
  { cbn [wf_item]. split; [eexists _, _; split; reflexivity|]. split; [repeat constructor; vm_compute; repeat split; discriminate|].
    split; [eexists; split; vm_compute; reflexivity|]. split; [constructor|exact I]. }
  split; [discriminate|]. split; [discriminate|]. split; [|split; [discriminate|split; [reflexivity|exact I]]].
  cbn [wf_item]. split; [eexists _, _; split; reflexivity|]. split; [repeat constructor; vm_compute; repeat split; discriminate|].
  split; [vm_compute; reflexivity|]. split; [vm_compute; reflexivity|]. split; [right; eexists _, _; split; [reflexivity|left; reflexivity]|vm_compute; reflexivity].
Qed.

(* non-vacuity of a tag cut inside a quoted attribute value: <a B=Qc d with Q a double quote *)
Example html_wellformed_cut_quoted_nonvacuous :
  let doc := [ ICutTag [97] [AVal [32] [66] [] [] [34; 99; 32; 100]] ] in
  wf_doc doc /\ exists tr, run no_tmpl 3 (new_lexer (doc_bytes doc)) = Ok tr /\ map observe tr = doc_obs doc ++ [mkObs ErrorT [] [] []].
Proof.
  split; [|eexists; split; vm_compute; reflexivity]. cbn [wf_doc is_text is_plain].
  split; [|split; [discriminate|split; [reflexivity|exact I]]].
  cbn [wf_item]. split; [eexists _, _; split; reflexivity|]. split; [repeat constructor; vm_compute; repeat split; discriminate|].
  split; [eexists; split; vm_compute; reflexivity|]. cbn [wf_attrs wf_attr]. split; [|exact I].
  split; [discriminate|]. split; [repeat constructor|]. split; [discriminate|]. split; [repeat constructor; vm_compute; repeat split; discriminate|].
  split; [constructor|]. split; [constructor|]. right. right. split; [|reflexivity].
  exists 34, [99; 32; 100]. split; [reflexivity|]. split; [tauto|repeat constructor; discriminate].
Qed.

(* non-vacuity of the cut inside trailing whitespace: <p>x</p><a B=c followed by a blank and a line feed *)
Example html_wellformed_cut_ws_nonvacuous :
  let items := [ ITag [112] [] [] false; IText [120]; IEnd [112] [] ] in
  let attrs := [ AVal [32] [66] [] [] [99] ] in
  (wf_doc items /\ Forall (fun i => is_plain i = false) items /\ all_ws [32; 10] /\ wf_attrs attrs [32; 10]) /\
  exists tr, run no_tmpl 7 (new_lexer (doc_bytes items ++ 60 :: [97] ++ concat (map attr_bytes attrs) ++ [32; 10])) = Ok tr /\
             map observe tr = doc_obs items ++ mkObs StartTagT [60; 97] [97] [] :: map attr_obs attrs ++ [mkObs ErrorT [] [] []].
Proof.
  split; [|eexists; split; vm_compute; reflexivity].
  split; [|split; [repeat constructor|split; [repeat constructor|]]].
  - cbn [wf_doc is_text is_plain].
    split.
    { cbn [wf_item]. split; [eexists _, _; split; reflexivity|]. split; [repeat constructor; vm_compute; repeat split; discriminate|].
      split; [eexists; split; vm_compute; reflexivity|]. split; [constructor|exact I]. }
    split; [discriminate|]. split; [discriminate|].
    split; [cbn [wf_item]; split; [discriminate|repeat constructor; discriminate]|]. split; [intros _; reflexivity|]. split; [discriminate|].
    split; [cbn [wf_item]; split; [eexists _, _; split; reflexivity|]; split; [repeat constructor; vm_compute; reflexivity|constructor]|].
    split; [discriminate|]. split; [discriminate|exact I].
  - cbn [wf_attrs wf_attr]. split; [|exact I].
    split; [discriminate|]. split; [repeat constructor|]. split; [discriminate|]. split; [repeat constructor; vm_compute; repeat split; discriminate|].
    split; [constructor|]. split; [constructor|]. left.
    split; [eexists _, _; split; [reflexivity|split; discriminate]|]. split; [repeat constructor; vm_compute; repeat split; discriminate|].
    right. eexists _, _. split; [reflexivity|left; reflexivity].
Qed.

(* non-vacuity of the svg cut inside its end tag: <svg>x</SVG followed by a blank *)
Example html_wellformed_cut_foreign_end_nonvacuous :
  let doc := [ ICutForeignEnd html_hash_Svg [115; 118; 103] [62; 120] [83; 86; 71] [32] ] in
  wf_doc doc /\ exists tr, run no_tmpl 2 (new_lexer (doc_bytes doc)) = Ok tr /\ map observe tr = doc_obs doc ++ [mkObs ErrorT [] [] []].
Proof.
  split; [|eexists; split; vm_compute; reflexivity]. cbn [wf_doc is_text is_plain].
  split; [|split; [discriminate|split; [reflexivity|exact I]]].
  cbn [wf_item]. split; [eexists _, _; split; reflexivity|]. split; [repeat constructor; vm_compute; repeat split; discriminate|].
  split; [vm_compute; reflexivity|]. split; [vm_compute; reflexivity|]. split; [vm_compute; reflexivity|].
  split; [eexists _, _; split; [reflexivity|right; reflexivity]|]. split; [vm_compute; reflexivity|]. split; repeat constructor.
Qed.
