(* Html/ListLemmas.v — pointwise (peekz) facts about firstz / skipz / slice / map and the in-place
   lower-casing of a view. *)
From Verif Require Import Common.Base Common.Tactics Common.Lx Gen.Tables Html.Model Html.Lemmas.
From Coq Require Import ZifyBool.

Lemma peekz_nil i : peekz [] i = None.
Proof. unfold peekz. destruct ((0 <=? i) && (i <? len [])); [|reflexivity]. destruct (Z.to_nat i); reflexivity. Qed.

Lemma peekz_cons_0 x (l : list Z) : peekz (x :: l) 0 = Some x.
Proof. unfold peekz. rewrite len_cons. pose proof (len_nonneg l). zb. reflexivity. Qed.

Lemma peekz_cons_succ x (l : list Z) i : 0 <= i -> peekz (x :: l) (i + 1) = peekz l i.
Proof.
  intros H. unfold peekz. rewrite len_cons. zb.
  replace (i + 1 <? 1 + len l) with (i <? len l).
  2:{ destruct (Z.ltb_spec i (len l)); destruct (Z.ltb_spec (i + 1) (1 + len l)); try reflexivity; lia. }
  cbn [andb]. destruct (i <? len l); [|reflexivity].
  replace (Z.to_nat (i + 1)) with (S (Z.to_nat i)) by lia. reflexivity.
Qed.

Lemma peekz_neg (l : list Z) i : i < 0 -> peekz l i = None.
Proof. intros H. unfold peekz. zb. reflexivity. Qed.

Lemma peekz_ext (a b : list Z) : (forall i, peekz a i = peekz b i) -> a = b.
Proof.
  revert b. induction a as [|x a IH]; intros b H.
  - destruct b as [|y b]; [reflexivity|]. specialize (H 0). rewrite peekz_nil, peekz_cons_0 in H. discriminate.
  - destruct b as [|y b].
    + specialize (H 0). rewrite peekz_nil, peekz_cons_0 in H. discriminate.
    + pose proof (H 0) as H0. rewrite !peekz_cons_0 in H0. injection H0 as ->. f_equal.
      apply IH. intros i. destruct (Z.lt_ge_cases i 0) as [Hi|Hi]; [rewrite !peekz_neg by lia; reflexivity|].
      specialize (H (i + 1)). rewrite !peekz_cons_succ in H by lia. exact H.
Qed.

Lemma peekz_len_some (l : list Z) i : 0 <= i < len l -> peekz l i <> None.
Proof. intros H. destruct (peekz_in_range l i H) as [c ->]. discriminate. Qed.

Lemma peekz_skipz (l : list Z) n i : 0 <= n -> 0 <= i -> peekz (skipz n l) i = peekz l (n + i).
Proof.
  intros Hn. revert l i. unfold skipz.
  assert (G : forall k (l : list Z) i, 0 <= i -> peekz (skipn k l) i = peekz l (Z.of_nat k + i)).
  { induction k as [|k IH]; intros l i Hi; [cbn; f_equal; lia|].
    destruct l as [|x l]; [cbn [skipn]; rewrite !peekz_nil; reflexivity|].
    cbn [skipn]. rewrite IH by lia. replace (Z.of_nat (S k) + i) with (Z.of_nat k + i + 1) by lia.
    rewrite peekz_cons_succ by lia. reflexivity. }
  intros l i Hi. rewrite G by lia. f_equal. lia.
Qed.

Lemma peekz_firstz (l : list Z) n i : i < n -> peekz (firstz n l) i = peekz l i.
Proof.
  unfold firstz. revert l i.
  assert (G : forall k (l : list Z) i, i < Z.of_nat k -> peekz (firstn k l) i = peekz l i).
  { induction k as [|k IH]; intros l i Hi; [cbn [firstn]; rewrite peekz_nil; destruct (Z.lt_ge_cases i 0); [rewrite peekz_neg by lia; reflexivity|lia]|].
    destruct l as [|x l]; [reflexivity|]. cbn [firstn].
    destruct (Z.lt_ge_cases i 0) as [Hn|Hn]; [rewrite !peekz_neg by lia; reflexivity|].
    destruct (Z.eq_dec i 0) as [->|Hne]; [rewrite !peekz_cons_0; reflexivity|].
    replace i with (i - 1 + 1) by lia. rewrite !peekz_cons_succ by lia. apply IH. lia. }
  intros l i Hi. destruct (Z.lt_ge_cases n 0) as [Hn|Hn].
  - replace (Z.to_nat n) with 0%nat by lia. cbn [firstn]. rewrite peekz_nil, peekz_neg by lia. reflexivity.
  - apply G. lia.
Qed.

Lemma peekz_firstz_out (l : list Z) n i : 0 <= n -> n <= i -> peekz (firstz n l) i = None.
Proof.
  intros Hn Hi. apply peekz_none_iff. unfold firstz, len. rewrite firstn_length. lia.
Qed.

Lemma peekz_map f (l : list Z) i : peekz (map f l) i = option_map f (peekz l i).
Proof.
  unfold peekz, len. rewrite map_length. destruct ((0 <=? i) && (i <? Z.of_nat (length l))); [|reflexivity].
  rewrite nth_error_map. reflexivity.
Qed.

Lemma peekz_slice (l : list Z) lo hi i : 0 <= lo -> 0 <= i < hi - lo -> peekz (slice l lo hi) i = peekz l (lo + i).
Proof. intros Hlo Hi. unfold slice. rewrite peekz_firstz by lia. apply peekz_skipz; lia. Qed.

Lemma len_slice' (l : list Z) lo hi : 0 <= lo <= hi -> hi <= len l -> len (slice l lo hi) = hi - lo.
Proof. apply len_slice. Qed.

(* ---- lower_view ------------------------------------------------------------------------------------ *)
Definition inview (t v : sl) : Prop := so v <= so t /\ 0 <= sn t /\ so t + sn t <= so v + sn v.

Lemma len_view_bytes buf v : 0 <= so v -> 0 <= sn v -> so v + sn v <= len buf -> len (view_bytes buf v) = sn v.
Proof. intros. unfold view_bytes. rewrite len_slice by lia. lia. Qed.

Lemma len_lower_view buf v : 0 <= so v -> 0 <= sn v -> so v + sn v <= len buf -> len (lower_view buf v) = len buf.
Proof.
  intros H1 H2 H3. unfold lower_view. rewrite !len_app. unfold len at 2. rewrite map_length. fold (len (view_bytes buf v)).
  rewrite len_view_bytes, len_firstz, len_skipz by lia. lia.
Qed.

Lemma peekz_lower_view buf v i : 0 <= so v -> 0 <= sn v -> so v + sn v <= len buf ->
  peekz (lower_view buf v) i =
  if (so v <=? i) && (i <? so v + sn v) then option_map lower (peekz buf i) else peekz buf i.
Proof.
  intros H1 H2 H3. unfold lower_view.
  destruct (Z.lt_ge_cases i (so v)) as [Ha|Ha].
  - zb. cbn [andb]. destruct (Z.lt_ge_cases i 0); [rewrite !peekz_neg by lia; reflexivity|].
    rewrite peekz_app_l by (rewrite len_firstz by lia; lia). apply peekz_firstz. lia.
  - rewrite peekz_app_r by (rewrite len_firstz by lia; lia). rewrite len_firstz by lia.
    destruct (Z.lt_ge_cases i (so v + sn v)) as [Hb|Hb].
    + zb. cbn [andb].
      rewrite peekz_app_l.
      2:{ unfold len. rewrite map_length. fold (len (view_bytes buf v)). rewrite len_view_bytes by lia. lia. }
      rewrite peekz_map. f_equal. unfold view_bytes. rewrite peekz_slice by lia. f_equal. lia.
    + zb. rewrite andb_false_r.
      rewrite peekz_app_r.
      2:{ unfold len. rewrite map_length. fold (len (view_bytes buf v)). rewrite len_view_bytes by lia. lia. }
      unfold len at 1. rewrite map_length. fold (len (view_bytes buf v)). rewrite len_view_bytes by lia.
      rewrite peekz_skipz by lia. f_equal. lia.
Qed.

Lemma lower_view_empty buf p : 0 <= p <= len buf -> lower_view buf (mkSl p 0) = buf.
Proof.
  intros H. apply peekz_ext. intros i. rewrite peekz_lower_view by (cbn; lia). cbn [so sn].
  destruct ((p <=? i) && (i <? p + 0)) eqn:E; [b2p; lia|reflexivity].
Qed.

(* lower-casing a view inside the data keeps the buffer well formed *)
Lemma lower_view_app0 d v : 0 <= so v -> 0 <= sn v -> so v + sn v <= len d ->
  lower_view (d ++ [0]) v = lower_view d v ++ [0].
Proof.
  intros H1 H2 H3. apply peekz_ext. intros i.
  rewrite peekz_lower_view by (rewrite ?len_app; change (len [0]) with 1; lia).
  destruct (Z.lt_ge_cases i 0) as [Hn|Hn].
  { rewrite !peekz_neg by lia. destruct ((so v <=? i) && (i <? so v + sn v)); reflexivity. }
  destruct (Z.lt_ge_cases i (len d)) as [Hl|Hl].
  - rewrite (peekz_app_l (lower_view d v)) by (rewrite len_lower_view by lia; lia).
    rewrite peekz_lower_view by lia. rewrite peekz_app_l by lia. reflexivity.
  - rewrite (peekz_app_r (lower_view d v)) by (rewrite len_lower_view by lia; lia).
    rewrite len_lower_view by lia. rewrite peekz_app_r by lia.
    replace ((so v <=? i) && (i <? so v + sn v)) with false; [reflexivity|].
    symmetry. apply andb_false_iff. right. apply Z.ltb_ge. lia.
Qed.

Lemma lx_lower_wf z v : lx_wf z -> 0 <= so v -> 0 <= sn v -> so v + sn v <= lx_len z -> lx_wf (lx_lower z v).
Proof.
  intros ((d & Hd) & Hs & Hp) H1 H2 H3. unfold lx_wf, lx_lower, lx_len in *. cbn [lbuf lstart lpos].
  rewrite Hd in *. rewrite len_app in *. change (len [0]) with 1 in *.
  rewrite lower_view_app0 by lia. split; [eauto|]. rewrite len_app, len_lower_view by lia. change (len [0]) with 1. lia.
Qed.

Lemma lx_lower_len z v : lx_wf z -> 0 <= so v -> 0 <= sn v -> so v + sn v <= lx_len z -> lx_len (lx_lower z v) = lx_len z.
Proof.
  intros Hw H1 H2 H3. pose proof (lx_wf_len z Hw). unfold lx_len, lx_lower. cbn [lbuf].
  rewrite len_lower_view by lia. reflexivity.
Qed.

(* bytes after the lowered view are untouched: peeks at or after the cursor are unchanged *)
Lemma pk_lx_lower z v i : lx_wf z -> 0 <= so v -> 0 <= sn v -> so v + sn v <= lpos z -> 0 <= i ->
  pk (lx_lower z v) i = pk z i.
Proof.
  intros Hw H1 H2 H3 Hi. pose proof (lx_wf_len z Hw). destruct Hw as (_ & _ & Hp).
  unfold pk, lx_lower. cbn [lbuf lpos]. rewrite peekz_lower_view by lia.
  replace ((so v <=? lpos z + i) && (lpos z + i <? so v + sn v)) with false; [reflexivity|].
  symmetry. apply andb_false_iff. right. apply Z.ltb_ge. lia.
Qed.
