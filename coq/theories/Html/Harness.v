(* Html/Harness.v — correspondence driver for the HTML lexer model (C09). *)
From Verif Require Import Common.Base Common.Codec Common.Lx Gen.Tables Html.Model.

(* k = 0: NewLexer; 1..6: NewTemplateLexer with the k-th pair of Gen/Tables.v; 7: custom pair (b, e) *)
Definition cfg_of (k : Z) (b e : list Z) : cfg :=
  if k =? 0 then no_tmpl
  else if k =? 7 then mkCfg b e
  else match nth_error html_template_delims (Z.to_nat (k - 1)) with
       | Some p => mkCfg (fst p) (snd p)
       | None => no_tmpl
       end.

Definition enc_view (buf : list Z) (v : option sl) : list Z :=
  match v with
  | None => [-1; 0]
  | Some v => if sn v =? 0 then [-1; 0] else so v :: sn v :: view_bytes buf v
  end.

(* per call: type, token view, Text(), AttrVal(), HasTemplate(), Offset(), Err() kind *)
Definition enc_call (ty : Z) (tk : option sl) (l : lexer) : list Z :=
  let buf := lbuf (lz l) in
  ty :: enc_view buf tk ++ enc_view buf (ltext l) ++ enc_view buf (lattr l)
     ++ [if lhas l then 1 else 0; lpos (lz l); err_kind l].

Fixpoint run_calls (c : cfg) (n : nat) (l : lexer) : list Z :=
  match n with
  | O => -2 :: firstz (len (lbuf (lz l)) - 1) (lbuf (lz l))     (* Input.Bytes() at the end *)
  | S k =>
      match next c l with
      | Panic => [-1]
      | NoFuel => [-3]
      | Ok (ty, tk, l') => enc_call ty tk l' ++ run_calls c k l'
      end
  end.

(* case: k ncalls |d| d [|b| b |e| e] *)
Definition run_html (a : list Z) : list Z :=
  let k := hdz a in
  let n := hdz (tlz a) in
  let '(d, r1) := take_list (tlz (tlz a)) in
  let '(b, r2) := take_list r1 in
  let '(e, _) := take_list r2 in
  run_calls (cfg_of k b e) (Z.to_nat n) (new_lexer d).
