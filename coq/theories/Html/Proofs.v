(* Html/Proofs.v — the C09 / C01 / C02 theorems about the HTML lexer model, derived from the one-call
   specification next_spec (Html/Step.v). *)
From Verif Require Import Common.Base Common.Tactics Common.Lx Gen.Tables Html.Model Html.Lemmas Html.ListLemmas
     Html.Hash Html.Safety Html.Step Html.Spec Html.RawText.
From Coq Require Import ZifyBool.

(* ---- the invariant relative to the original input d ---------------------------------------------------- *)
(* the buffer is d ++ [0] up to ASCII case, and exactly d ++ [0] from the cursor on *)
Definition html_inv (d : list Z) (l : lexer) : Prop :=
  lwf l /\ lx_len (lz l) = len d /\
  (forall i, lpos (lz l) <= i -> peekz (lbuf (lz l)) i = peekz (d ++ [0]) i) /\
  (forall i, option_map lower (peekz (lbuf (lz l)) i) = option_map lower (peekz (d ++ [0]) i)).

Lemma new_lexer_lwf d : lwf (new_lexer d).
Proof.
  unfold lwf, new_lexer. cbn [lz intag]. split; [apply lx_init_wf|left; reflexivity].
Qed.

Lemma html_inv_init d : html_inv d (new_lexer d).
Proof.
  split; [apply new_lexer_lwf|]. unfold new_lexer, lx_init, lx_len. cbn [lz lbuf lpos].
  rewrite len_app. change (len [0]) with 1. split; [lia|]. split; intros; reflexivity.
Qed.

Lemma option_map_lower_idem o : option_map lower (option_map lower o) = option_map lower o.
Proof. destruct o; cbn; [rewrite lower_idem|]; reflexivity. Qed.

Lemma html_inv_step d l ty tk l' : html_inv d l -> step_post l (ty, tk, l') -> html_inv d l'.
Proof.
  intros (Hl & Hlen & Hsuf & Hci) Hs. cbn [step_post] in Hs.
  destruct Hs as (Hl' & _ & (w & Hb & W1 & W2 & W3 & _) & Hpos & _).
  pose proof Hl as [Hw _]. pose proof (lx_wf_len _ Hw) as [Hbl _].
  assert (H0 : 0 <= lpos (lz l)) by (destruct Hw as (_ & ? & _); lia).
  assert (Hlen' : lx_len (lz l') = len d).
  { unfold lx_len in *. rewrite Hb, len_lower_view by lia. exact Hlen. }
  split; [exact Hl'|]. split; [exact Hlen'|]. split.
  - intros i Hi. rewrite Hb, peekz_lower_view by lia.
    replace ((so w <=? i) && (i <? so w + sn w)) with false by (symmetry; apply andb_false_iff; right; apply Z.ltb_ge; lia).
    apply Hsuf. lia.
  - intros i. rewrite Hb, peekz_lower_view by lia.
    destruct ((so w <=? i) && (i <? so w + sn w)); [rewrite option_map_lower_idem|]; apply Hci.
Qed.

(* ---- runs ------------------------------------------------------------------------------------------------ *)
Fixpoint chain (l : lexer) (tr : list (Z * option sl * lexer)) : Prop :=
  match tr with
  | [] => True
  | r :: rest => step_post l r /\ chain (snd r) rest
  end.

Lemma run_chain c n : cfg_ok c -> forall l, lwf l -> exists tr, run c n l = Ok tr /\ length tr = n /\ chain l tr.
Proof.
  intros Hc. induction n as [|k IH]; intros l Hl; cbn [run]; [exists []; cbn; tauto|].
  destruct (safe_inv _ _ (next_spec c l Hc Hl)) as ([[ty tk] l'] & E & Hs). rewrite E. cbn [rbind snd].
  assert (Hl' : lwf l') by (cbn [step_post] in Hs; tauto).
  destruct (IH l' Hl') as (tr & Er & Hn & Hch). rewrite Er. cbn [rbind].
  exists ((ty, tk, l') :: tr). cbn [length chain snd]. split; [reflexivity|]. split; [lia|tauto].
Qed.

Lemma run_inv_chain c n l tr : cfg_ok c -> lwf l -> run c n l = Ok tr -> length tr = n /\ chain l tr.
Proof.
  intros Hc Hl H. destruct (run_chain c n Hc l Hl) as (tr' & E & Hn & Hch). rewrite H in E. injection E as <-. tauto.
Qed.

(* ---- C01: totality ---------------------------------------------------------------------------------------- *)
Lemma html_total_step_proof : forall c d l, cfg_ok c -> html_inv d l ->
  exists ty tk l', next c l = Ok (ty, tk, l') /\ html_inv d l'.
Proof.
  intros c d l Hc Hi. pose proof Hi as (Hl & _).
  destruct (safe_inv _ _ (next_spec c l Hc Hl)) as ([[ty tk] l'] & E & Hs).
  exists ty, tk, l'. split; [exact E|eapply html_inv_step; eauto].
Qed.

Lemma html_total_proof : forall c d n, cfg_ok c -> exists tr, run c n (new_lexer d) = Ok tr /\ length tr = n.
Proof.
  intros c d n Hc. destruct (run_chain c n Hc (new_lexer d) (new_lexer_lwf d)) as (tr & E & Hn & _). eauto.
Qed.

(* the six predefined delimiter pairs and "no templates" are admissible configurations *)
Lemma cfg_ok_no_tmpl : cfg_ok no_tmpl.
Proof. split; constructor. Qed.

Lemma cfg_ok_predefined : Forall (fun p => cfg_ok (mkCfg (fst p) (snd p))) html_template_delims.
Proof. repeat constructor; cbn; lia. Qed.

Example html_total_nonvacuous :
  exists tr, run (mkCfg [123; 123] [125; 125]) 4 (new_lexer [60; 97; 32; 123; 123; 120; 125; 125; 62]) = Ok tr /\
             map (fun r => fst (fst r)) tr = [StartTagT; AttributeT; StartTagCloseT; ErrorT].
Proof. eexists. split; [vm_compute; reflexivity|reflexivity]. Qed.

(* ---- C01: progress ----------------------------------------------------------------------------------------- *)
Lemma step_progress l ty tk l' : step_post l (ty, tk, l') ->
  lpos (lz l) < lpos (lz l') \/ (ty = ErrorT /\ tk = None /\ lpos (lz l') = lx_len (lz l)).
Proof.
  cbn [step_post]. intros (_ & _ & _ & Hpos & Htk & _). destruct tk as [v|].
  - left. lia.
  - destruct Htk as [-> [[H _]|[_ H]]]; [right; tauto|left; exact H].
Qed.

Lemma html_progress_step_proof : forall c d l ty tk l', cfg_ok c -> html_inv d l -> next c l = Ok (ty, tk, l') ->
  ty <> ErrorT -> lpos (lz l) < lpos (lz l') <= len d.
Proof.
  intros c d l ty tk l' Hc (Hl & Hlen & _) E Hne.
  pose proof (next_spec c l Hc Hl) as Hs. rewrite E in Hs. cbn [safe] in Hs.
  pose proof (step_progress _ _ _ _ Hs) as [H|(H & _)]; [|congruence].
  cbn [step_post] in Hs. destruct Hs as (_ & _ & _ & Hpos & _). lia.
Qed.

Lemma step_len l ty tk l' : lwf l -> step_post l (ty, tk, l') -> lx_len (lz l') = lx_len (lz l).
Proof.
  intros [Hw _] Hs. cbn [step_post] in Hs. destruct Hs as (_ & _ & (w & Hb & W1 & W2 & W3 & _) & Hpos & _).
  pose proof (lx_wf_len _ Hw) as [Hbl _]. assert (H0 : 0 <= lpos (lz l)) by (destruct Hw as (_ & ? & _); lia).
  unfold lx_len in *. rewrite Hb, len_lower_view by lia. reflexivity.
Qed.

Lemma step_lwf l ty tk l' : step_post l (ty, tk, l') -> lwf l'.
Proof. cbn [step_post]. tauto. Qed.

(* whoever keeps calling sees the end-of-input report after at most (bytes left + 1) calls *)
Lemma eof_reported tr : forall l, lwf l -> chain l tr -> lx_len (lz l) - lpos (lz l) < Z.of_nat (length tr) ->
  exists k l', nth_error tr k = Some (ErrorT, None, l') /\ lpos (lz l') = lx_len (lz l) /\
               Z.of_nat k <= lx_len (lz l) - lpos (lz l).
Proof.
  induction tr as [|r0 rest IH]; intros l Hl Hch Hlen.
  - cbn [length] in Hlen. destruct Hl as [(_ & _ & H) _]. lia.
  - cbn [chain] in Hch. destruct Hch as [Hs Hch]. destruct r0 as [[ty tk] l']. cbn [snd] in *.
    pose proof (step_len _ _ _ _ Hl Hs) as Hll. pose proof (step_lwf _ _ _ _ Hs) as Hl'.
    destruct (step_progress _ _ _ _ Hs) as [Hp|(-> & -> & Hp)].
    + destruct (IH l' Hl' Hch) as (k & l2 & Hk & Hpos & Hkb); [rewrite Hll; cbn [length] in Hlen; lia|].
      exists (S k), l2. cbn [nth_error]. split; [exact Hk|]. split; [rewrite <- Hll; exact Hpos|]. rewrite Hll in Hkb. lia.
    + exists 0%nat, l'. cbn [nth_error]. split; [reflexivity|]. split; [exact Hp|]. destruct Hl as [(_ & _ & H) _]. lia.
Qed.

Lemma html_progress_eof_proof : forall c d n tr, cfg_ok c -> run c n (new_lexer d) = Ok tr -> (length d < n)%nat ->
  exists k l', (k <= length d)%nat /\ nth_error tr k = Some (ErrorT, None, l') /\ lpos (lz l') = len d.
Proof.
  intros c d n tr Hc Hr Hn.
  destruct (run_inv_chain c n _ tr Hc (new_lexer_lwf d) Hr) as [Hlen Hch].
  pose proof (html_inv_init d) as (_ & Hld & _).
  destruct (eof_reported tr _ (new_lexer_lwf d) Hch) as (k & l' & Hk & Hp & Hkb).
  - rewrite Hld. unfold new_lexer, lx_init. cbn [lz lpos]. unfold len. lia.
  - exists k, l'. rewrite Hld in *. unfold new_lexer, lx_init in Hkb. cbn [lz lpos] in Hkb. unfold len in Hkb.
    split; [lia|]. split; [exact Hk|exact Hp].
Qed.

(* ---- C01: the end-of-input report is sticky ------------------------------------------------------------------ *)
Lemma html_eof_sticky_step_proof : forall c d l, cfg_ok c -> html_inv d l -> lpos (lz l) = len d ->
  exists l', next c l = Ok (ErrorT, None, l') /\ html_inv d l' /\ lpos (lz l') = len d /\ err_kind l' = err_kind l.
Proof.
  intros c d l Hc Hi Hend. pose proof Hi as (Hl & Hlen & _).
  destruct (safe_inv _ _ (next_spec c l Hc Hl)) as ([[ty tk] l'] & E & Hs).
  pose proof (html_inv_step d l ty tk l' Hi Hs) as Hi'.
  pose proof (step_len _ _ _ _ Hl Hs) as Hll.
  pose proof Hs as Hs2. cbn [step_post] in Hs2.
  destruct Hs2 as (_ & _ & _ & Hpos & Htk & _ & _ & _ & He1 & He2 & _).
  destruct tk as [v|]; [lia|]. destruct Htk as [-> _].
  exists l'. split; [exact E|]. split; [exact Hi'|]. split; [lia|].
  unfold err_kind, at_end. rewrite Hll.
  assert (lpos (lz l') = lpos (lz l)) as -> by lia.
  destruct (lerr l) eqn:E1, (lerr l') eqn:E2; try reflexivity.
  - specialize (He1 eq_refl). discriminate.
  - destruct (He2 eq_refl) as [?|?]; [discriminate|lia].
Qed.

Lemma html_eof_sticky_proof : forall c d l n, cfg_ok c -> html_inv d l -> lpos (lz l) = len d ->
  exists tr, run c n l = Ok tr /\ length tr = n /\
    Forall (fun r => fst (fst r) = ErrorT /\ snd (fst r) = None /\ lpos (lz (snd r)) = len d /\ err_kind (snd r) = err_kind l) tr.
Proof.
  intros c d l n Hc. revert l. induction n as [|k IH]; intros l Hi Hend; cbn [run]; [exists []; cbn; auto|].
  destruct (html_eof_sticky_step_proof c d l Hc Hi Hend) as (l' & E & Hi' & Hp' & He').
  rewrite E. cbn [rbind snd]. destruct (IH l' Hi' Hp') as (tr & Er & Hn & Hall). rewrite Er. cbn [rbind].
  exists ((ErrorT, None, l') :: tr). split; [reflexivity|]. split; [cbn; lia|].
  constructor; [cbn; tauto|]. eapply Forall_impl; [|exact Hall]. cbn beta. intros r (A & B & C & D). rewrite <- He'. tauto.
Qed.

Example html_eof_sticky_nonvacuous :
  exists tr, run no_tmpl 4 (new_lexer [60; 97; 32]) = Ok tr /\
             map (fun r => (fst (fst r), lpos (lz (snd r)), err_kind (snd r))) tr =
             [(StartTagT, 2, 0); (ErrorT, 3, 1); (ErrorT, 3, 1); (ErrorT, 3, 1)].
Proof. eexists. split; [vm_compute; reflexivity|reflexivity]. Qed.

(* ---- C01: nothing outside the input is handed out ----------------------------------------------------------- *)
Definition view_in (d : list Z) (o : option sl) : Prop :=
  match o with Some v => 0 <= so v /\ 0 <= sn v /\ so v + sn v <= len d | None => True end.

Lemma chain_forall (P : Z * option sl * lexer -> Prop) (inv : lexer -> Prop) :
  (forall l r, inv l -> step_post l r -> inv (snd r) /\ P r) ->
  forall tr l, inv l -> chain l tr -> Forall P tr.
Proof.
  intros H tr. induction tr as [|r rest IH]; intros l Hi Hch; [constructor|].
  cbn [chain] in Hch. destruct Hch as [Hs Hch]. destruct (H l r Hi Hs) as [Hi' Hp].
  constructor; [exact Hp|]. eapply IH; eauto.
Qed.

Definition no_overread_at (d : list Z) (r : Z * option sl * lexer) : Prop :=
  0 <= lpos (lz (snd r)) <= len d /\ view_in d (snd (fst r)) /\ view_in d (ltext (snd r)) /\ view_in d (lattr (snd r)).

Lemma html_no_overread_proof : forall c d n, cfg_ok c ->
  exists tr, run c n (new_lexer d) = Ok tr /\ Forall (no_overread_at d) tr.
Proof.
  intros c d n Hc. destruct (run_chain c n Hc (new_lexer d) (new_lexer_lwf d)) as (tr & E & _ & Hch).
  exists tr. split; [exact E|].
  apply (chain_forall (no_overread_at d) (fun l => html_inv d l /\ opt_within (lattr l) 0 (lpos (lz l)))) with (l := new_lexer d);
    [|split; [apply html_inv_init|exact I]|exact Hch].
  intros l [[ty tk] l'] [Hi Hat] Hs. cbn [snd fst].
  pose proof (html_inv_step d l ty tk l' Hi Hs) as Hi'.
  pose proof Hi as ((Hw & _) & Hlen & _). assert (H0 : 0 <= lpos (lz l)) by (destruct Hw as (_ & ? & _); lia).
  cbn [step_post] in Hs. destruct Hs as (_ & (Vt & Va) & _ & Hpos & Htk & _).
  rewrite Hlen in Hpos.
  assert (Hattr : opt_within (lattr l') 0 (lpos (lz l'))).
  { destruct Va as [-> | [-> | -> ]]; [exact I| |].
    - destruct (lattr l) as [a|]; [|exact I]. cbn [opt_within] in *. lia.
    - destruct tk as [v|]; [|destruct Htk as [Htk _]; discriminate].
      destruct Htk as (_ & T1 & T2 & T3 & _ & _ & _ & _ & Tav). specialize (Tav eq_refl).
      destruct (lattr l') as [a|]; [|exact I]. cbn [opt_within opt_inview] in *. unfold inview in Tav. lia. }
  split; [split; [exact Hi'|exact Hattr]|].
  unfold no_overread_at. cbn [snd fst]. split; [lia|]. split; [|split].
  - destruct tk as [v|]; [|exact I]. cbn [view_in]. destruct Htk as (_ & T1 & T2 & T3 & _). lia.
  - destruct (ltext l') as [t|]; [|exact I]. cbn [view_in opt_within] in *. lia.
  - destruct (lattr l') as [a|]; [|exact I]. cbn [view_in opt_within] in *. lia.
Qed.

(* ---- C02: Text / AttrKey / AttrVal are sub-slices of the token ------------------------------------------------ *)
Definition subslices_at (r : Z * option sl * lexer) : Prop :=
  match snd (fst r) with
  | Some v => opt_inview (ltext (snd r)) v /\ (fst (fst r) = AttributeT -> opt_inview (lattr (snd r)) v)
  | None => True
  end.

Lemma html_subslices_proof : forall c d n tr, cfg_ok c -> run c n (new_lexer d) = Ok tr -> Forall subslices_at tr.
Proof.
  intros c d n tr Hc Hr. destruct (run_inv_chain c n _ tr Hc (new_lexer_lwf d) Hr) as [_ Hch].
  apply (chain_forall subslices_at lwf) with (l := new_lexer d); [|apply new_lexer_lwf|exact Hch].
  intros l [[ty tk] l'] Hl Hs. cbn [snd]. split; [eapply step_lwf; eauto|].
  unfold subslices_at. cbn [fst snd]. destruct tk as [v|]; [|exact I].
  cbn [step_post] in Hs. destruct Hs as (_ & _ & _ & _ & Htk & _). tauto.
Qed.

Example html_subslices_nonvacuous :
  exists tr, run no_tmpl 2 (new_lexer [60; 97; 32; 66; 61; 39; 99; 39; 62]) = Ok tr /\
    map (fun r => (fst (fst r), snd (fst r), ltext (snd r), lattr (snd r))) tr =
    [(StartTagT, Some (mkSl 0 2), Some (mkSl 1 1), None); (AttributeT, Some (mkSl 2 6), Some (mkSl 3 1), Some (mkSl 5 3))].
Proof. eexists. split; [vm_compute; reflexivity|reflexivity]. Qed.

(* ---- C09: attribute bracketing ---------------------------------------------------------------------------------- *)
Fixpoint until_error (tr : list (Z * option sl * lexer)) : list (Z * option sl * lexer) :=
  match tr with
  | [] => []
  | r :: rest => if fst (fst r) =? ErrorT then [] else r :: until_error rest
  end.

(* it = "inside a tag": entered by StartTag only, kept by Attribute, left by StartTagClose / StartTagVoid;
   Attribute, StartTagClose and StartTagVoid occur only inside, everything else only outside *)
Fixpoint bracketed (it : bool) (tys : list Z) : Prop :=
  match tys with
  | [] => True
  | ty :: rest =>
      (if it then ty = AttributeT \/ ty = StartTagCloseT \/ ty = StartTagVoidT
       else ty <> AttributeT /\ ty <> StartTagCloseT /\ ty <> StartTagVoidT) /\
      bracketed ((ty =? StartTagT) || (ty =? AttributeT)) rest
  end.

Lemma chain_bracketed tr : forall l, chain l tr -> bracketed (intag l) (map (fun r => fst (fst r)) (until_error tr)).
Proof.
  induction tr as [|r rest IH]; intros l Hch; [exact I|].
  cbn [chain] in Hch. destruct Hch as [Hs Hch]. destruct r as [[ty tk] l']. cbn [until_error fst snd] in *.
  destruct (ty =? ErrorT) eqn:Ee; [exact I|]. cbn [map bracketed fst].
  cbn [step_post] in Hs. destruct Hs as (_ & _ & _ & _ & _ & Hin & Hout & Hnext & _).
  assert (Hne : ty <> ErrorT) by (b2p; exact Ee).
  split.
  - destruct (intag l); [destruct (Hin eq_refl) as [?|[?|[?|?]]]; tauto|apply Hout; reflexivity].
  - specialize (IH l' Hch). specialize (Hnext Hne).
    replace ((ty =? StartTagT) || (ty =? AttributeT)) with (intag l'); [exact IH|].
    destruct (intag l').
    + symmetry. destruct Hnext as [Hn _]. destruct (Hn eq_refl) as [-> | -> ]; reflexivity.
    + symmetry. apply orb_false_iff. split; apply Z.eqb_neq; intros ->; destruct Hnext as [_ Hn]; [specialize (Hn (or_introl eq_refl))|specialize (Hn (or_intror eq_refl))]; discriminate.
Qed.

Lemma html_attr_bracketing_proof : forall c d n tr, cfg_ok c -> run c n (new_lexer d) = Ok tr ->
  bracketed false (map (fun r => fst (fst r)) (until_error tr)).
Proof.
  intros c d n tr Hc Hr. destruct (run_inv_chain c n _ tr Hc (new_lexer_lwf d) Hr) as [_ Hch].
  exact (chain_bracketed tr (new_lexer d) Hch).
Qed.

(* what bracketed means for an attribute token: its predecessor is a start tag or an attribute *)
Lemma bracketed_attr_pred it tys k : bracketed it tys -> nth_error tys (S k) = Some AttributeT ->
  nth_error tys k = Some StartTagT \/ nth_error tys k = Some AttributeT.
Proof.
  revert it k. induction tys as [|ty rest IH]; intros it k Hb Hn; [discriminate|].
  cbn [bracketed] in Hb. destruct Hb as [_ Hb]. destruct k as [|k].
  - cbn [nth_error] in *. destruct rest as [|ty2 rest2]; [discriminate|]. injection Hn as ->.
    cbn [bracketed] in Hb. destruct Hb as [Hb _].
    destruct (ty =? StartTagT) eqn:E1; [left; b2p; congruence|].
    destruct (ty =? AttributeT) eqn:E2; [right; b2p; congruence|].
    cbn [orb] in Hb. destruct Hb as [Hb _]. congruence.
  - cbn [nth_error] in *. eapply IH; eauto.
Qed.

(* ---- C02: tiling -------------------------------------------------------------------------------------------------- *)
Lemma slice_ext (x y : list Z) a b : 0 <= a <= b -> b <= len x -> b <= len y ->
  (forall i, a <= i < b -> peekz x i = peekz y i) -> slice x a b = slice y a b.
Proof.
  intros Hab Hx Hy H. apply peekz_ext. intros i.
  destruct (Z.lt_ge_cases i 0) as [Hn|Hn]; [rewrite !peekz_neg by lia; reflexivity|].
  destruct (Z.lt_ge_cases i (b - a)) as [Hl|Hl].
  - rewrite !peekz_slice by lia. apply H. lia.
  - assert (Hnx : peekz (slice x a b) i = None) by (apply peekz_none_iff; rewrite len_slice by lia; lia).
    assert (Hny : peekz (slice y a b) i = None) by (apply peekz_none_iff; rewrite len_slice by lia; lia).
    congruence.
Qed.

(* tr is read from position p (the end of the previous token).  Up to the first ErrorToken every call returns a
   non-empty token that starts at p — or after whitespace if it is the '>' or '/>' of a tag —, lies in the input,
   ends at the reported offset, and whose bytes are the input bytes with exactly the view w lower-cased (which view,
   by token type: low_rule).  If the first ErrorToken is the end-of-input report, all that is left is whitespace. *)
Fixpoint tiles (d : list Z) (p : Z) (tr : list (Z * option sl * lexer)) : Prop :=
  match tr with
  | [] => True
  | (ty, tk, l') :: rest =>
      match tk with
      | Some v =>
          ty <> ErrorT /\ p <= so v /\ 0 < sn v /\ so v + sn v <= len d /\ lpos (lz l') = so v + sn v /\
          (forall i, p <= i < so v -> is_ws (getz d i) = true) /\
          (p < so v -> ty = StartTagCloseT \/ ty = StartTagVoidT) /\
          (exists w, low_rule (d ++ [0]) ty tk w l' /\ p <= so w /\ 0 <= sn w /\ so w + sn w <= so v + sn v /\
                     view_bytes (lbuf (lz l')) v = view_bytes (lower_view (d ++ [0]) w) v) /\
          tiles d (so v + sn v) rest
      | None =>
          ty = ErrorT /\
          (lerr l' = false -> lpos (lz l') = len d /\ forall i, p <= i < len d -> is_ws (getz d i) = true)
      end
  end.

Lemma ws_from_buf d l i c : html_inv d l -> lpos (lz l) <= i < len d -> peekz (lbuf (lz l)) i = Some c -> getz d i = c.
Proof.
  intros (_ & _ & Hsuf & _) Hi Hp. rewrite Hsuf in Hp by lia.
  assert (0 <= i) by (apply peekz_some in Hp; lia).
  rewrite peekz_app_l in Hp by lia. unfold getz. rewrite Hp. reflexivity.
Qed.

(* low_rule looks at the buffer only inside the token *)
Lemma view_bytes_ext b1 b2 v : 0 <= so v -> 0 <= sn v -> so v + sn v <= len b1 -> so v + sn v <= len b2 ->
  (forall i, so v <= i < so v + sn v -> peekz b1 i = peekz b2 i) -> view_bytes b1 v = view_bytes b2 v.
Proof. intros H1 H2 H3 H4 H. unfold view_bytes. apply slice_ext; try lia. exact H. Qed.

Lemma low_rule_ext b1 b2 a ty tk w l' : (forall i, a <= i -> peekz b1 i = peekz b2 i) -> 0 <= a ->
  (forall v, tk = Some v -> a <= so v /\ 0 <= sn v /\ so v + sn v <= len b1 /\ so v + sn v <= len b2) ->
  low_rule b1 ty tk w l' -> low_rule b2 ty tk w l'.
Proof.
  intros Hext Ha Hv. unfold low_rule.
  destruct ((ty =? StartTagT) || (ty =? SvgT) || (ty =? MathT) || (ty =? XmlT)); [exact (fun x => x)|].
  destruct (ty =? EndTagT); [|exact (fun x => x)].
  destruct tk as [v|]; [|exact (fun x => x)]. destruct (Hv v eq_refl) as (V1 & V2 & V3 & V4).
  assert (Hvb : view_bytes b1 v = view_bytes b2 v) by (apply view_bytes_ext; try lia; intros i Hi; apply Hext; lia).
  intros [Hw (t & k & T1 & T2 & T3 & T4 & T5 & T6)]. split.
  - unfold endtag_name_view in *. rewrite <- Hvb. exact Hw.
  - exists t, k. split; [exact T1|]. split; [exact T2|]. split; [exact T3|]. split; [exact T4|]. split.
    + rewrite T5. f_equal. apply view_bytes_ext; cbn [so sn]; try lia. intros i Hi. apply Hext. lia.
    + intros E. rewrite <- Hext by lia. apply T6, E.
Qed.

Lemma chain_tiles d tr : forall l, html_inv d l -> lstart (lz l) = lpos (lz l) -> chain l tr -> tiles d (lpos (lz l)) tr.
Proof.
  induction tr as [|r rest IH]; intros l Hi Hcl Hch; [exact I|].
  cbn [chain] in Hch. destruct Hch as [Hs Hch]. destruct r as [[ty tk] l']. cbn [snd] in Hch. cbn [tiles].
  pose proof (html_inv_step d l ty tk l' Hi Hs) as Hi'.
  pose proof Hi as ((Hw & _) & Hlen & Hsuf & _).
  pose proof (lx_wf_len _ Hw) as [Hbl _]. assert (H0 : 0 <= lpos (lz l)) by (destruct Hw as (_ & ? & _); lia).
  cbn [step_post] in Hs. destruct Hs as (_ & _ & (w & Hb & W1 & W2 & W3 & Wr) & Hpos & Htk & _ & _ & _ & _ & He2 & _).
  rewrite Hlen in *.
  destruct tk as [v|].
  - destruct Htk as (T0 & T1 & T2 & T3 & T4 & T5 & T6 & _).
    split; [exact T0|]. split; [exact T1|]. split; [exact T2|]. split; [lia|]. split; [lia|].
    split.
    { intros i Hr. destruct (T5 i Hr) as (c & Hc & Hws). rewrite (ws_from_buf d l i c Hi); [exact Hws|lia|exact Hc]. }
    split; [exact T6|].
    split.
    { exists w. split.
      { apply (low_rule_ext (lbuf (lz l)) (d ++ [0]) (lpos (lz l))); [exact Hsuf|exact H0| |exact Wr].
        intros v' Ev. injection Ev as <-. rewrite len_app. change (len [0]) with 1. lia. }
      split; [exact W1|]. split; [exact W2|]. split; [lia|].
      unfold view_bytes. rewrite Hb. apply slice_ext; [lia| | |].
      - rewrite len_lower_view by lia. lia.
      - rewrite len_lower_view by (rewrite ?len_app; change (len [0]) with 1; lia). rewrite len_app. change (len [0]) with 1. lia.
      - intros i Hr. rewrite !peekz_lower_view by (rewrite ?len_app; change (len [0]) with 1; lia).
        rewrite Hsuf by lia. reflexivity. }
    rewrite T3. apply IH; [exact Hi'|exact T4|exact Hch].
  - destruct Htk as [-> Htk]. split; [reflexivity|]. intros Hle.
    destruct Htk as [[Hend Hgap]|[Htrue _]]; [|congruence].
    split; [exact Hend|]. intros i Hr. destruct (Hgap i ltac:(lia)) as (c & Hc & Hws).
    rewrite (ws_from_buf d l i c Hi); [exact Hws|lia|exact Hc].
Qed.

Lemma html_tiling_proof : forall c d n tr, cfg_ok c -> run c n (new_lexer d) = Ok tr -> tiles d 0 tr.
Proof.
  intros c d n tr Hc Hr. destruct (run_inv_chain c n _ tr Hc (new_lexer_lwf d) Hr) as [_ Hch].
  exact (chain_tiles d tr (new_lexer d) (html_inv_init d) eq_refl Hch).
Qed.

(* the token bytes equal the input bytes up to ASCII case, whatever w is *)
Lemma lower_view_ci buf w : 0 <= so w -> 0 <= sn w -> so w + sn w <= len buf ->
  map lower (lower_view buf w) = map lower buf.
Proof.
  intros H1 H2 H3. apply peekz_ext. intros i. rewrite !peekz_map, peekz_lower_view by lia.
  destruct ((so w <=? i) && (i <? so w + sn w)); [apply option_map_lower_idem|reflexivity].
Qed.

(* ---- C09: template regions inside comments, doctype, end tags, svg, math (fixed in /repo 886e7b1) -------------------- *)
Definition go_tmpl : cfg := mkCfg [123; 123] [125; 125].

(* the first token of d has type ty, contains the whole region [p,q) and reports HasTemplate() = true *)
Definition region_inside (c : cfg) (ty : Z) (d : list Z) (p q : Z) : Prop :=
  is_region c d p q /\ exists v l', next c (new_lexer d) = Ok (ty, Some v, l') /\ so v <= p /\ q <= so v + sn v /\ lhas l' = true.

Ltac region_witness := split; [split; [lia|split; [discriminate|split; vm_compute; reflexivity]]|
                               eexists; eexists; split; [vm_compute; reflexivity|cbn [so sn]; repeat split; lia || reflexivity]].

(* the witnesses of the former findings c09-template:comment / doctype / endtag / svg / math *)
Example html_template_elsewhere_fixed :
  region_inside go_tmpl CommentT [60;33;45;45;32;123;123;120;125;125;32;45;45;62] 5 10 /\
  region_inside go_tmpl CommentT [60;33;45;45;32;123;123;32;34;45;45;62;34;32;125;125;32;45;45;62;97] 5 16 /\
  region_inside go_tmpl DoctypeT [60;33;100;111;99;116;121;112;101;32;123;123;34;62;34;125;125;62] 10 17 /\
  region_inside go_tmpl EndTagT [60;47;97;123;123;120;125;125;62] 3 8 /\
  region_inside go_tmpl SvgT [60;115;118;103;62;123;123;34;60;47;115;118;103;62;34;125;125;60;47;115;118;103;62] 5 17 /\
  region_inside go_tmpl MathT [60;109;97;116;104;62;123;123;120;125;125;60;47;109;97;116;104;62] 6 11.
Proof.
  split; [region_witness|]. split; [region_witness|]. split; [region_witness|].
  split; [region_witness|]. split; [region_witness|region_witness].
Qed.

(* ---- C09: the content of a raw-text element is never tokenised as markup ------------------------------------------ *)
Lemma safe_eq {A} (e : res A) (P : A -> Prop) a : safe e P -> e = Ok a -> P a.
Proof. intros H ->. exact H. Qed.

Lemma html_rawtext_proof : forall c d l ty tk l', cfg_ok c -> html_inv d l -> intag l = false -> rawtag l <> 0 ->
  next c l = Ok (ty, tk, l') ->
  exists e, lpos (lz l) <= e <= len d /\
    (lpos (lz l) < e ->
       ty = TextT /\ tk = Some (mkSl (lpos (lz l)) (e - lpos (lz l))) /\ ltext l' = tk /\
       rawtag l' = 0 /\ intag l' = false /\ lpos (lz l') = e) /\
    (e = len d \/ (rawtag l <> html_hash_Plaintext /\ end_tag_at (rawtag l) (d ++ [0]) e)) /\
    (has_delims c = false -> rawtag l <> html_hash_Plaintext ->
       forall p, lpos (lz l) <= p < e -> plain_raw (rawtag l) (d ++ [0]) (lpos (lz l)) (p + 1) ->
                 ~ end_tag_at (rawtag l) (d ++ [0]) p).
Proof.
  intros c d l ty tk l' Hc Hi Hit Hraw Hn. pose proof Hi as (Hl & Hlen & Hsuf & _). pose proof Hl as [Hw _].
  pose proof (lwf_clean l Hl Hit) as Hcl.
  assert (H0 : 0 <= lpos (lz l)) by (destruct Hw as (_ & ? & _); lia).
  unfold next in Hn. cbn [lz rawtag intag lerr ltext lattr lhas] in Hn. rewrite Hit in Hn.
  replace (negb (rawtag l =? 0)) with true in Hn by (symmetry; apply negb_true_iff; apply Z.eqb_neq; exact Hraw).
  assert (Hsuf2 : forall i, lpos (lz l) <= i -> peekz (lbuf (lz l)) i = peekz (d ++ [0]) i) by exact Hsuf.
  unfold shift_rawtext in Hn.
  destruct (rawtag l =? html_hash_Plaintext) eqn:Epl.
  - (* plaintext: everything up to the end of input *)
    destruct (safe_inv _ _ (plaintext_loop_spec c (lz l) false Hc Hw)) as ([zp hp] & Ez & Ha). rewrite Ez in Hn. cbn [rbind fst snd] in Hn, Ha.
    pose proof (plaintext_loop_run _ _ _ _ _ Ez) as Hend. cbn [fst] in Hend. apply at_end_true in Hend; [|eauto using adv_wf].
    rewrite (adv_len _ _ Ha), Hlen in Hend.
    rewrite shiftv_spec in Hn by eauto using adv_wf. cbn [rbind fst snd] in Hn.
    destruct Ha as (A1 & A2 & A3).
    exists (len d). split; [lia|]. split; [|split; [left; reflexivity|intros _ Hp; b2p; congruence]].
    intros Hlt. cbn [sn] in Hn. replace (0 <? lpos zp - lstart zp) with true in Hn by (symmetry; apply Z.ltb_lt; lia).
    injection Hn as <- <- <-. cbn [ltext rawtag intag lz skip lpos]. rewrite A2, Hcl, Hend. tauto.
  - destruct (safe_inv _ _ (rawtext_loop_spec c (rawtag l) (lz l) false Hc Hw)) as (s & Es & Ha). rewrite Es in Hn. cbn [rbind] in Hn.
    destruct (rawtext_loop_run _ _ _ _ _ _ Es) as (_ & _ & Hend & Hnm).
    rewrite shiftv_spec in Hn by eauto using adv_wf. cbn [rbind fst snd] in Hn.
    pose proof Ha as (A1 & A2 & A3). rewrite Hlen in A3.
    exists (lpos (fst s)). split; [lia|]. split; [|split].
    + intros Hlt. cbn [sn] in Hn. replace (0 <? lpos (fst s) - lstart (fst s)) with true in Hn by (symmetry; apply Z.ltb_lt; lia).
      injection Hn as <- <- <-. cbn [ltext rawtag intag lz skip lpos]. rewrite A2, Hcl. tauto.
    + assert (Hblen : len (lbuf (lz l)) = len (d ++ [0])).
      { pose proof (lx_wf_len _ Hw) as [Hbl _]. rewrite len_app. change (len [0]) with 1. lia. }
      destruct Hend as [Hend|Hend].
      * left. apply at_end_true in Hend; [|eauto using adv_wf]. rewrite (adv_len _ _ Ha), Hlen in Hend. exact Hend.
      * right. split; [b2p; assumption|]. eapply (end_tag_at_ext true _ _ _ (lpos (lz l))); eauto. lia.
    + intros Hd _ p Hp Hs Hm.
      assert (Hs' : plain_raw (rawtag l) (lbuf (lz l)) (lpos (lz l)) (p + 1)).
      { destruct Hs as [Hs|Hs]; [left; exact Hs|right]. intros p' Hp' (C0 & C1 & C2 & C3). apply (Hs p' Hp').
        repeat split; rewrite <- Hsuf2 by lia; assumption. }
      apply (Hnm Hd p Hp Hs').
      assert (Hblen : len (d ++ [0]) = len (lbuf (lz l))).
      { pose proof (lx_wf_len _ Hw) as [Hbl _]. rewrite len_app. change (len [0]) with 1. lia. }
      eapply (end_tag_at_ext true _ _ _ (lpos (lz l))); [|exact Hblen|lia|exact H0|exact Hm]. intros i Hge. symmetry. apply Hsuf2. exact Hge.
Qed.

Example html_rawtext_nonvacuous :
  (* "<script>a</scriptx></SCRIPT >": the text after the tag is "a</scriptx>" up to offset 19 *)
  let d := [60;115;99;114;105;112;116;62;97;60;47;115;99;114;105;112;116;120;62;60;47;83;67;82;73;80;84;32;62] in
  exists tr, run no_tmpl 3 (new_lexer d) = Ok tr /\
    map (fun r => (fst (fst r), snd (fst r))) tr = [(StartTagT, Some (mkSl 0 7)); (StartTagCloseT, Some (mkSl 7 1)); (TextT, Some (mkSl 8 11))].
Proof. eexists. split; [vm_compute; reflexivity|reflexivity]. Qed.

(* ---- the former finding c09-svg:quote (fixed in /repo 5054993): a quote in character data is not an attribute quote ---- *)
(* <svg><text>5(double quote) pipe</text></svg><p> : the SVG token ends after the closing svg tag (31 bytes), the p tag follows *)
Example html_svg_quote_fixed :
  let d := [60;115;118;103;62;60;116;101;120;116;62;53;34;32;112;105;112;101;60;47;116;101;120;116;62;60;47;115;118;103;62;60;112;62] in
  exists l', next no_tmpl (new_lexer d) = Ok (SvgT, Some (mkSl 0 31), l') /\ len d = 34.
Proof. eexists. split; vm_compute; reflexivity. Qed.


(* ---- the former finding c09-svg:comment-endtag (fixed in /repo f26ca9a): comments, CDATA sections and processing
   instructions inside svg / math are skipped ---- *)
(* <svg><!-- </svg> --><g/></svg>x : the SVG token is the whole subtree (30 bytes), then Text "x" *)
Example html_svg_comment_endtag_fixed :
  let d := [60;115;118;103;62;60;33;45;45;32;60;47;115;118;103;62;32;45;45;62;60;103;47;62;60;47;115;118;103;62;120] in
  exists tr, run no_tmpl 2 (new_lexer d) = Ok tr /\
    map (fun r => (fst (fst r), snd (fst r))) tr = [(SvgT, Some (mkSl 0 30)); (TextT, Some (mkSl 30 1))] /\ len d = 31.
Proof. eexists. split; [vm_compute; reflexivity|split; reflexivity]. Qed.
