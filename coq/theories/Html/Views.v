(* Html/Views.v — views of a buffer in which a view w was lower-cased (used by WfDoc and EndTag). *)
From Verif Require Import Common.Base Common.Tactics Common.Lx Gen.Tables Html.Model Html.Lemmas Html.ListLemmas
     Html.Hash Html.Safety Html.Step Html.Spec Html.RawText Html.Func Html.Proofs.
From Coq Require Import ZifyBool.

(* ---- views of a buffer in which a view w was lower-cased -------------------------------------------------------------- *)
Lemma slice_full_ext (x y : list Z) a b : 0 <= a <= b -> b <= len x -> b <= len y ->
  (forall i, a <= i < b -> peekz x i = peekz y i) -> slice x a b = slice y a b.
Proof. apply slice_ext. Qed.

(* a view inside the lowered view *)
Lemma view_lower_inside B w t : 0 <= so w -> 0 <= sn w -> so w + sn w <= len B -> inview t w ->
  view_bytes (lower_view B w) t = map lower (view_bytes B t).
Proof.
  intros H1 H2 H3 (I1 & I2 & I3). unfold view_bytes. apply peekz_ext. intros i.
  destruct (Z.lt_ge_cases i 0) as [Hn|Hn]; [rewrite !peekz_neg by lia; reflexivity|].
  rewrite peekz_map.
  destruct (Z.lt_ge_cases i (sn t)) as [Hl|Hl].
  - rewrite !peekz_slice by lia. rewrite peekz_lower_view by lia.
    replace ((so w <=? so t + i) && (so t + i <? so w + sn w)) with true; [reflexivity|].
    symmetry. apply andb_true_iff. split; [apply Z.leb_le|apply Z.ltb_lt]; lia.
  - assert (N1 : peekz (slice (lower_view B w) (so t) (so t + sn t)) i = None)
      by (apply peekz_none_iff; rewrite len_slice by (rewrite ?len_lower_view by lia; lia); lia).
    assert (N2 : peekz (slice B (so t) (so t + sn t)) i = None) by (apply peekz_none_iff; rewrite len_slice by lia; lia).
    rewrite N1, N2. reflexivity.
Qed.

(* a view that does not meet the lowered view *)
Lemma view_lower_outside B w t : 0 <= so w -> 0 <= sn w -> so w + sn w <= len B ->
  0 <= so t -> 0 <= sn t -> so t + sn t <= len B -> (so t + sn t <= so w \/ so w + sn w <= so t) ->
  view_bytes (lower_view B w) t = view_bytes B t.
Proof.
  intros H1 H2 H3 T1 T2 T3 Hd. unfold view_bytes. apply slice_ext; [lia|rewrite len_lower_view by lia; lia|lia|].
  intros i Hi. rewrite peekz_lower_view by lia.
  replace ((so w <=? i) && (i <? so w + sn w)) with false; [reflexivity|].
  symmetry. apply andb_false_iff. destruct Hd; [left; apply Z.leb_gt|right; apply Z.ltb_ge]; lia.
Qed.

(* the whole token when a middle part [a,b) of it was lowered *)
Lemma view_lower_middle B p n a b : 0 <= p -> 0 <= a <= b -> b <= n -> p + n <= len B ->
  view_bytes (lower_view B (mkSl (p + a) (b - a))) (mkSl p n) =
  view_bytes B (mkSl p a) ++ map lower (view_bytes B (mkSl (p + a) (b - a))) ++ view_bytes B (mkSl (p + b) (n - b)).
Proof.
  intros Hp Hab Hbn Hl. unfold view_bytes. cbn [so sn].
  replace (p + a + (b - a)) with (p + b) by lia. replace (p + b + (n - b)) with (p + n) by lia.
  apply peekz_ext. intros i.
  destruct (Z.lt_ge_cases i 0) as [Hneg|Hneg].
  { rewrite peekz_neg by lia. symmetry. apply peekz_neg. lia. }
  assert (L1 : len (slice B p (p + a)) = a) by (rewrite len_slice by lia; lia).
  assert (L2 : len (map lower (slice B (p + a) (p + b))) = b - a).
  { unfold len. rewrite map_length. fold (len (slice B (p + a) (p + b))). rewrite len_slice by lia. lia. }
  destruct (Z.lt_ge_cases i n) as [Hin|Hout].
  - rewrite peekz_slice by lia. rewrite peekz_lower_view by (cbn [so sn]; lia). cbn [so sn].
    destruct (Z.lt_ge_cases i a) as [Ha|Ha].
    + replace ((p + a <=? p + i) && (p + i <? p + a + (b - a))) with false by (symmetry; apply andb_false_iff; left; apply Z.leb_gt; lia).
      rewrite peekz_app_l by lia. rewrite peekz_slice by lia. reflexivity.
    + rewrite peekz_app_r by lia. rewrite L1.
      destruct (Z.lt_ge_cases i b) as [Hb|Hb].
      * replace ((p + a <=? p + i) && (p + i <? p + a + (b - a))) with true by (symmetry; apply andb_true_iff; split; [apply Z.leb_le|apply Z.ltb_lt]; lia).
        rewrite peekz_app_l by lia. rewrite peekz_map, peekz_slice by lia. f_equal. f_equal. lia.
      * replace ((p + a <=? p + i) && (p + i <? p + a + (b - a))) with false by (symmetry; apply andb_false_iff; right; apply Z.ltb_ge; lia).
        rewrite peekz_app_r by lia. rewrite L2. rewrite peekz_slice by lia. f_equal. lia.
  - assert (N1 : peekz (slice (lower_view B (mkSl (p + a) (b - a))) p (p + n)) i = None).
    { apply peekz_none_iff. rewrite len_slice by (rewrite ?len_lower_view by (cbn [so sn]; lia); lia). lia. }
    rewrite N1. symmetry. apply peekz_none_iff. rewrite !len_app, L1, L2. rewrite len_slice by lia. lia.
Qed.

(* ---- reading a list at an offset -------------------------------------------------------------------------------------- *)
Lemma peekz_app_l' (a b : list Z) i c : peekz a i = Some c -> peekz (a ++ b) i = Some c.
Proof. intros H. rewrite peekz_app_l; [exact H|]. apply peekz_some in H. exact H. Qed.

Lemma peekz_app_r0 (a b : list Z) : peekz (a ++ b) (len a) = peekz b 0.
Proof. rewrite peekz_app_r by lia. f_equal. lia. Qed.

Lemma peekz_app_rk (a b : list Z) k : 0 <= k -> peekz (a ++ b) (len a + k) = peekz b k.
Proof. intros Hk. rewrite peekz_app_r by lia. f_equal. lia. Qed.

Lemma peekz_1 a b (l : list Z) : peekz (a :: b :: l) 1 = Some b.
Proof. change 1 with (0 + 1). rewrite peekz_cons_succ by lia. apply peekz_cons_0. Qed.
Lemma peekz_2 a b c (l : list Z) : peekz (a :: b :: c :: l) 2 = Some c.
Proof. change 2 with (1 + 1). rewrite peekz_cons_succ by lia. apply peekz_1. Qed.
Lemma peekz_3 a b c d (l : list Z) : peekz (a :: b :: c :: d :: l) 3 = Some d.
Proof. change 3 with (2 + 1). rewrite peekz_cons_succ by lia. apply peekz_2. Qed.

Lemma peekz_in (l : list Z) i : 0 <= i < len l -> exists c, peekz l i = Some c /\ In c l.
Proof.
  intros H. destruct (peekz_in_range l i H) as [c Hc]. exists c. split; [exact Hc|].
  unfold peekz in Hc. destruct ((0 <=? i) && (i <? len l)); [|discriminate]. eapply nth_error_In; eauto.
Qed.

