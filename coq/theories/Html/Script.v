(* Html/Script.v — where the content of a script element ends: the double-escape rules as a function of the input
   bytes (script_end), and the proof that shiftRawText stops exactly there. *)
From Verif Require Import Common.Base Common.Tactics Common.Lx Gen.Tables Html.Model Html.Lemmas Html.ListLemmas
     Html.Hash Html.Safety Html.Step Html.Spec Html.RawText Html.Func Html.Proofs Html.Template Html.Wf.
From Coq Require Import ZifyBool.

(* ---- the rules ------------------------------------------------------------------------------------------------------ *)
Definition hd0 (s : list Z) : Z := match s with c :: _ => c | [] => 0 end.

(* the letters are "script" in any ASCII case *)
Definition is_name (raw : Z) (ls : list Z) : bool :=
  match to_hash (map lower ls) with Ok h => h =? raw | _ => false end.
Definition is_script_name (ls : list Z) : bool := is_name html_hash_Script ls.

(* what must follow the name of a tag: whitespace, '/', '>' or the end of input *)
Definition follows_end (r : list Z) : bool := match r with [] => true | c :: _ => is_tagend c end.

(* Inside a "<!--" section of a script (s = the bytes after "<!--" or later; ins = a "<script" + tag end was seen and
   not yet closed by "</script" + tag end: double escaped).  Result (n, b): after n bytes the section is left;
   b = true: the CONTENT of the script element ends there (at a "</script" + tag end seen while not double escaped, or
   at the end of input); b = false: "-->" ended the section (n is just after it) and plain script data resumes. *)
Fixpoint esc_end (fuel : nat) (ins : bool) (s : list Z) : Z * bool :=
  match fuel with
  | O => (0, true)
  | S k =>
      match s with
      | [] => (0, true)
      | c :: t =>
          if c =? 45 then
            if (hd0 t =? 45) && (hd0 (skipz 1 t) =? 62) then (3, false)
            else let (n, b) := esc_end k ins t in (1 + n, b)
          else if c =? 60 then
            let isend := hd0 t =? 47 in
            let t' := if isend then skipz 1 t else t in
            let ls := letter_run t' in
            let r := skipz (len ls) t' in
            let w := (if isend then 2 else 1) + len ls in
            if is_script_name ls && follows_end r then
              if negb isend then let (n, b) := esc_end k true r in (w + n, b)        (* "<script" + tag end: double escaped *)
              else if negb ins then (0, true)                                       (* "</script" + tag end: the end tag *)
              else let (n, b) := esc_end k false r in (w + n, b)                    (* it closes the inner "<script" *)
            else let (n, b) := esc_end k ins r in (w + n, b)
          else let (n, b) := esc_end k ins t in (1 + n, b)
      end
  end.

(* Raw text of the element raw (style, title, textarea, xmp, iframe, script): the number of bytes of s that are the
   content of the element: up to the first "</name" + tag end (for script: outside "<!--" sections, or as esc_end says
   inside one), or everything. *)
Fixpoint raw_end (fuel : nat) (raw : Z) (s : list Z) : Z :=
  match fuel with
  | O => 0
  | S k =>
      match s with
      | [] => 0
      | c :: t =>
          if c =? 60 then
            if hd0 t =? 47 then
              let t' := skipz 1 t in
              let ls := letter_run t' in
              let r := skipz (len ls) t' in
              if is_name raw ls && follows_end r then 0 else 2 + len ls + raw_end k raw r
            else if (raw =? html_hash_Script) && (hd0 t =? 33) && (hd0 (skipz 1 t) =? 45) && (hd0 (skipz 2 t) =? 45) then
              let t4 := skipz 3 t in
              let (n, b) := esc_end (length t4) false t4 in
              if b then 4 + n else 4 + n + raw_end k raw (skipz n t4)
            else 1 + raw_end k raw t
          else 1 + raw_end k raw t
      end
  end.

Definition script_end (fuel : nat) (s : list Z) : Z := raw_end fuel html_hash_Script s.

(* ---- reading helpers ------------------------------------------------------------------------------------------------ *)
Lemma skipz_len_nil {A} (s : list A) : skipz (len s) s = [].
Proof. unfold skipz, len. rewrite Nat2Z.id. apply skipn_all. Qed.

Lemma reads_pk0 z s i : reads z s -> 0 <= i <= len s -> pkr z i = Ok (hd0 (skipz i s)).
Proof.
  intros Hr Hi. destruct (Z.eq_dec i (len s)) as [->|Hne].
  - rewrite skipz_len_nil. destruct (reads_end z s Hr) as [Hp _]. unfold pkr. rewrite Hp. reflexivity.
  - destruct (peekz_in_range s i ltac:(lia)) as [c Hc]. rewrite (reads_pkr z s i c Hr Hc).
    rewrite (skipz_peek_cons s i c Hc). reflexivity.
Qed.

Lemma reads_follow z s : reads z s -> exists cz, pkr z 0 = Ok cz /\ is_tagend cz || eof0 z cz = follows_end s.
Proof.
  intros Hr. destruct s as [|c t].
  - exists 0. destruct (reads_end z [] Hr) as [Hp _]. change (len (@nil Z)) with 0 in Hp. unfold pkr. rewrite Hp. split; [reflexivity|].
    pose proof (reads_eof0_end z [] Hr) as He. change (len (@nil Z)) with 0 in He. rewrite mv_0 in He. rewrite He. reflexivity.
  - exists c. split; [apply (reads_pkr z _ 0 c Hr), peekz_cons_0|].
    pose proof (reads_eof0_in z _ 0 c Hr (peekz_cons_0 _ _)) as He. rewrite mv_0 in He. rewrite He, orb_false_r. reflexivity.
Qed.

(* the letters loop from offset w and the hash of what it ran over *)
Lemma letters_hash z w m s : reads z s -> 0 <= w <= len s -> m = mark z + w ->
  let ls := letter_run (skipz w s) in
  letters_loop (mv z w) = Ok (mv z (w + len ls)) /\
  hash_lexeme_from (mv z (w + len ls)) m = to_hash (map lower ls) /\
  reads (mv z (w + len ls)) (skipz (len ls) (skipz w s)) /\ w + len ls <= len s.
Proof.
  intros Hr Hw Hm ls. pose proof (len_nonneg ls) as Hl0.
  destruct (letter_run_split (skipz w s)) as (r & E & Hlet & Hrest). fold ls in E, Hlet.
  assert (Hsk : skipz (len ls) (skipz w s) = r) by (rewrite E; apply skipz_app_len).
  pose proof (reads_mv _ _ w Hr Hw) as Hrw.
  assert (Hlen : len (skipz w s) = len ls + len r) by (rewrite E, len_app; reflexivity).
  rewrite len_skipz in Hlen by lia. pose proof (len_nonneg r).
  rewrite E in Hrw.
  split; [rewrite (letters_loop_reads _ ls r Hrw Hlet Hrest), mv_mv; reflexivity|].
  pose proof (reads_mv _ _ (len ls) Hrw ltac:(rewrite len_app; lia)) as Hr2. rewrite skipz_app_len, mv_mv in Hr2.
  split; [|split; [rewrite Hsk; exact Hr2|lia]].
  unfold hash_lexeme_from. destruct Hr2 as [Hw2 _]. destruct Hr as [Hwz Hrem].
  assert (Hst : lstart z <= lpos z) by (destruct Hwz as (_ & ? & _); lia).
  rewrite lexeme_from_spec by (exact Hw2 || (subst m; unfold mark; cbn [mv lpos lstart]; lia)). cbn [rbind].
  f_equal. f_equal. subst m. unfold view_bytes, mark. cbn [so sn mv lbuf lpos lstart].
  replace (lstart z + (lpos z - lstart z + w)) with (lpos z + w) by lia.
  replace (lpos z + w + (lpos z + (w + len ls) - lstart z - (lpos z - lstart z + w))) with (lpos z + (w + len ls)) by lia.
  rewrite (reads_slice z s w (w + len ls) (conj Hwz Hrem)) by lia.
  unfold slice. replace (w + len ls - w) with (len ls) by lia. rewrite E.
  unfold firstz, len. rewrite Nat2Z.id, firstn_app, Nat.sub_diag, firstn_all. cbn. apply app_nil_r.
Qed.

Lemma is_name_hash raw ls : exists h, to_hash (map lower ls) = Ok h /\ (h =? raw) = is_name raw ls.
Proof. destruct (to_hash_ok (map lower ls)) as [h Hh]. exists h. split; [exact Hh|]. unfold is_name. rewrite Hh. reflexivity. Qed.

Lemma is_script_name_hash ls : exists h, to_hash (map lower ls) = Ok h /\ (h =? html_hash_Script) = is_script_name ls.
Proof. apply is_name_hash. Qed.

Lemma length_skipz_lt {A} (s : list A) n : (length (skipz n s) <= length s)%nat.
Proof. unfold skipz. rewrite skipn_length. lia. Qed.

(* ---- the "<!--" section ---------------------------------------------------------------------------------------------- *)
Lemma esc_run : forall k s z ins fuel, (length s <= k)%nat -> reads z s -> (length s < fuel)%nat ->
  loop fuel script_comment_body (z, ins) =
  Ok (let (n, b) := esc_end k ins s in if b then inr (mv z n) else inl (mv z n)).
Proof.
  induction k as [|k IH]; intros s z ins fuel Hk Hr Hf; (destruct fuel as [|f]; [lia|]); cbn [loop].
  all: assert (Hnil : s = [] -> rbind (script_comment_body (z, ins)) (fun x => match x with Cont s' => loop f script_comment_body s' | Brk r => Ok r end) = Ok (inr (mv z 0))).
  1,3: intros ->; unfold script_comment_body; destruct (reads_end z [] Hr) as [Hp _]; change (len (@nil Z)) with 0 in Hp;
       unfold pkr; rewrite Hp; cbn [opt_res rbind Z.eqb];
       pose proof (reads_eof0_end z [] Hr) as He; change (len (@nil Z)) with 0 in He; rewrite mv_0 in He; rewrite He; cbn [rbind]; rewrite mv_0; reflexivity.
  - destruct s; [|cbn [length] in Hk; lia]. rewrite (Hnil eq_refl). reflexivity.
  - destruct s as [|c t]; [rewrite (Hnil eq_refl); reflexivity|]. clear Hnil. cbn [length] in Hk, Hf.
    pose proof (len_nonneg t) as Ht0. assert (Hls : len (c :: t) = 1 + len t) by (rewrite len_cons; lia).
    assert (Hpk0 : pkr z 0 = Ok c) by (apply (reads_pkr z _ 0 c Hr), peekz_cons_0).
    pose proof (reads_mv _ _ 1 Hr ltac:(lia)) as Hr1. change (skipz 1 (c :: t)) with t in Hr1.
    (* one byte forward in the same state *)
    assert (Hone : forall ins', rbind (Ok (Cont (mv z 1, ins'))) (fun x : lp (lx * bool) (lx + lx) => match x with Cont s' => loop f script_comment_body s' | Brk r => Ok r end) =
                     Ok (let (n, b) := (let (n, b) := esc_end k ins' t in (1 + n, b)) in if b then inr (mv z n) else inl (mv z n))).
    { intros ins'. cbn [rbind]. rewrite (IH t (mv z 1) ins' f ltac:(lia) Hr1 ltac:(lia)).
      destruct (esc_end k ins' t) as [n b]. rewrite mv_mv. reflexivity. }
    cbn [esc_end]. unfold script_comment_body at 1. rewrite Hpk0. cbn [rbind].
    destruct (c =? 45) eqn:E45.
    { rewrite (reads_pk0 z _ 1 Hr) by lia. change (skipz 1 (c :: t)) with t. cbn [rbind].
      destruct (hd0 t =? 45) eqn:E1; cbn [andb].
      - assert (Htne : 1 <= len t) by (destruct t; [discriminate|rewrite len_cons; pose proof (len_nonneg t); lia]).
        rewrite (reads_pk0 z _ 2 Hr) by lia.
        replace (skipz 2 (c :: t)) with (skipz 1 t) by reflexivity. cbn [rbind].
        destruct (hd0 (skipz 1 t) =? 62); [reflexivity|apply Hone].
      - apply Hone. }
    destruct (c =? 60) eqn:E60.
    2:{ unfold eof0. pose proof (reads_eof0_in z _ 0 c Hr (peekz_cons_0 _ _)) as He. rewrite mv_0 in He. unfold eof0 in He. rewrite He. apply Hone. }
    rewrite (reads_pk0 z _ 1 Hr) by lia. change (skipz 1 (c :: t)) with t. cbn [rbind].
    set (isend := hd0 t =? 47).
    set (w0 := if isend then 2 else 1).
    assert (Hw0 : 0 <= w0 <= len (c :: t)).
    { unfold w0. destruct isend eqn:Ei; [|lia]. unfold isend in Ei. destruct t; [discriminate|rewrite !len_cons; pose proof (len_nonneg t); lia]. }
    assert (Hskw : skipz w0 (c :: t) = if isend then skipz 1 t else t) by (unfold w0; destruct isend; reflexivity).
    destruct (letters_hash z w0 (mark (mv z w0)) (c :: t) Hr Hw0 ltac:(unfold mark; cbn [mv lpos lstart]; lia)) as (Hll & Hh & Hr2 & Hle).
    rewrite Hskw in Hll, Hh, Hr2, Hle.
    set (t' := if isend then skipz 1 t else t) in *. set (ls := letter_run t') in *. set (r := skipz (len ls) t') in *.
    rewrite Hll. cbn [rbind]. rewrite Hh.
    destruct (is_script_name_hash ls) as (h & Eh & Ehs). rewrite Eh. cbn [rbind]. rewrite Ehs.
    pose proof (len_nonneg ls) as Hl0.
    assert (Hrlen : (length r < length (c :: t))%nat).
    { assert (len r = len (c :: t) - (w0 + len ls)).
      { destruct Hr2 as [Hw2 Hrem2]. pose proof (len_rem _ Hw2) as L2. rewrite Hrem2 in L2.
        destruct Hr as [Hw1 Hrem1]. pose proof (len_rem _ Hw1) as L1. rewrite Hrem1 in L1.
        unfold lx_len in *. cbn [mv lbuf lpos] in L2. lia. }
      assert (1 <= w0) by (unfold w0; destruct isend; lia). unfold len in *. lia. }
    cbn [length] in Hrlen.
    (* continuing after the letters *)
    assert (Hjump : forall ins', loop f script_comment_body (mv z (w0 + len ls), ins') =
                      Ok (let (n, b) := (let (n, b) := esc_end k ins' r in (w0 + len ls + n, b)) in if b then inr (mv z n) else inl (mv z n))).
    { intros ins'. rewrite (IH r (mv z (w0 + len ls)) ins' f ltac:(lia) Hr2 ltac:(lia)).
      destruct (esc_end k ins' r) as [n b]. rewrite mv_mv. reflexivity. }
    destruct (is_script_name ls) eqn:Esn; cbn [andb].
    2:{ cbn [rbind]. apply Hjump. }
    destruct (reads_follow _ _ Hr2) as (cz & Hcz & Hfol). rewrite Hcz. cbn [rbind]. rewrite Hfol.
    destruct (follows_end r) eqn:Efe.
    2:{ cbn [rbind]. apply Hjump. }
    destruct (negb isend) eqn:En.
    { cbn [rbind]. apply Hjump. }
    destruct (negb ins) eqn:Eins.
    { cbn [rbind]. do 2 f_equal. apply negb_false_iff in En. unfold w0. rewrite En.
      unfold rewind, mark. cbn [mv lbuf lpos lstart]. unfold mv. f_equal. lia. }
    cbn [rbind]. apply Hjump.
Qed.

(* ---- script data ------------------------------------------------------------------------------------------------------ *)
Lemma raw_run raw : forall k s z has fuel, (length s <= k)%nat -> reads z s -> (length s < fuel)%nat ->
  loop fuel (rawtext_body no_tmpl raw) (z, has) = Ok (mv z (raw_end k raw s), has).
Proof.
  induction k as [|k IH]; intros s z has fuel Hk Hr Hf; (destruct fuel as [|f]; [lia|]); cbn [loop].
  all: assert (Hnil : s = [] -> rbind (rawtext_body no_tmpl raw (z, has)) (fun x => match x with Cont s' => loop f (rawtext_body no_tmpl raw) s' | Brk r => Ok r end) = Ok (mv z 0, has)).
  1,3: intros ->; unfold rawtext_body; destruct (reads_end z [] Hr) as [Hp _]; change (len (@nil Z)) with 0 in Hp;
       unfold pkr; rewrite Hp; cbn [opt_res rbind]; rewrite skip_tmpl_none; cbn [rbind Z.eqb];
       pose proof (reads_eof0_end z [] Hr) as He; change (len (@nil Z)) with 0 in He; rewrite mv_0 in He; rewrite He; cbn [rbind]; rewrite mv_0; reflexivity.
  - destruct s; [|cbn [length] in Hk; lia]. rewrite (Hnil eq_refl). reflexivity.
  - destruct s as [|c t]; [rewrite (Hnil eq_refl); reflexivity|]. clear Hnil. cbn [length] in Hk, Hf.
    pose proof (len_nonneg t) as Ht0. assert (Hls : len (c :: t) = 1 + len t) by (rewrite len_cons; lia).
    assert (Hpk0 : pkr z 0 = Ok c) by (apply (reads_pkr z _ 0 c Hr), peekz_cons_0).
    pose proof (reads_mv _ _ 1 Hr ltac:(lia)) as Hr1. change (skipz 1 (c :: t)) with t in Hr1.
    assert (Hone : rbind (Ok (Cont (mv z 1, has))) (fun x : lp (lx * bool) (lx * bool) => match x with Cont s' => loop f (rawtext_body no_tmpl raw) s' | Brk r => Ok r end) =
                   Ok (mv z (1 + raw_end k raw t), has)).
    { cbn [rbind]. rewrite (IH t (mv z 1) has f ltac:(lia) Hr1 ltac:(lia)). rewrite mv_mv. reflexivity. }
    cbn [raw_end]. unfold rawtext_body at 1. rewrite Hpk0. cbn [rbind]. rewrite skip_tmpl_none. cbn [rbind].
    destruct (c =? 60) eqn:E60.
    2:{ pose proof (reads_eof0_in z _ 0 c Hr (peekz_cons_0 _ _)) as He. rewrite mv_0 in He. rewrite He. apply Hone. }
    rewrite (reads_pk0 z _ 1 Hr) by lia. change (skipz 1 (c :: t)) with t. cbn [rbind].
    destruct (hd0 t =? 47) eqn:E47.
    { (* "</" + letters *)
      assert (Hw0 : 0 <= 2 <= len (c :: t)) by (destruct t; [discriminate|rewrite !len_cons; pose proof (len_nonneg t); lia]).
      destruct (letters_hash z 2 (mark z + 2) (c :: t) Hr Hw0 eq_refl) as (Hll & Hh & Hr2 & Hle).
      replace (skipz 2 (c :: t)) with (skipz 1 t) in Hll, Hh, Hr2, Hle by reflexivity.
      set (ls := letter_run (skipz 1 t)) in *. set (r := skipz (len ls) (skipz 1 t)) in *.
      rewrite Hll. cbn [rbind]. rewrite Hh.
      destruct (is_name_hash raw ls) as (h & Eh & Ehs). rewrite Eh. cbn [rbind]. rewrite Ehs.
      pose proof (len_nonneg ls) as Hl0.
      assert (Hrlen : (length r < length (c :: t))%nat).
      { assert (len r = len (c :: t) - (2 + len ls)).
        { destruct Hr2 as [Hw2 Hrem2]. pose proof (len_rem _ Hw2) as L2. rewrite Hrem2 in L2.
          destruct Hr as [Hw1 Hrem1]. pose proof (len_rem _ Hw1) as L1. rewrite Hrem1 in L1.
          unfold lx_len in *. cbn [mv lbuf lpos] in L2. lia. }
        unfold len in *. lia. }
      cbn [length] in Hrlen.
      assert (Hjump : loop f (rawtext_body no_tmpl raw) (mv z (2 + len ls), has) = Ok (mv z (2 + len ls + raw_end k raw r), has)).
      { rewrite (IH r (mv z (2 + len ls)) has f ltac:(lia) Hr2 ltac:(lia)). rewrite mv_mv. reflexivity. }
      destruct (is_name raw ls) eqn:Esn; cbn [andb]; [|cbn [rbind]; exact Hjump].
      destruct (reads_follow _ _ Hr2) as (cz & Hcz & Hfol). rewrite Hcz. cbn [rbind]. rewrite Hfol.
      destruct (follows_end r); cbn [rbind]; [|exact Hjump].
      do 2 f_equal. unfold rewind, mark, mv. cbn [lbuf lpos lstart]. f_equal. lia. }
    (* "<!--" ? *)
    destruct (raw =? html_hash_Script) eqn:Ers; cbn [andb].
    2:{ cbn [rbind]. apply Hone. }
    destruct (hd0 t =? 33) eqn:E33; cbn [andb].
    2:{ cbn [rbind]. apply Hone. }
    assert (Ht1 : 1 <= len t) by (destruct t; [discriminate|rewrite len_cons; pose proof (len_nonneg t); lia]).
    rewrite (reads_pk0 z _ 2 Hr) by lia. replace (skipz 2 (c :: t)) with (skipz 1 t) by reflexivity. cbn [rbind].
    destruct (hd0 (skipz 1 t) =? 45) eqn:E2; cbn [andb].
    2:{ cbn [rbind]. apply Hone. }
    assert (Ht2 : 2 <= len t).
    { destruct t as [|a [|b t2]]; try discriminate. rewrite !len_cons. pose proof (len_nonneg t2). lia. }
    rewrite (reads_pk0 z _ 3 Hr) by lia. replace (skipz 3 (c :: t)) with (skipz 2 t) by reflexivity. cbn [rbind].
    destruct (hd0 (skipz 2 t) =? 45) eqn:E3.
    2:{ cbn [rbind]. apply Hone. }
    assert (Ht3 : 3 <= len t).
    { destruct t as [|a [|b [|c3 t3]]]; try discriminate. rewrite !len_cons. pose proof (len_nonneg t3). lia. }
    cbn [rbind].
    pose proof (reads_mv _ _ 4 Hr ltac:(lia)) as Hr4. replace (skipz 4 (c :: t)) with (skipz 3 t) in Hr4 by reflexivity.
    set (t4 := skipz 3 t) in *.
    assert (Hl4 : (length t4 + 3 = length t)%nat).
    { assert (len t4 = len t - 3) by (unfold t4; apply len_skipz; lia). unfold len in *. lia. }
    unfold script_comment_loop_body. rewrite loop_with_no_tmpl.
    rewrite (esc_run (length t4) t4 (mv z 4) false (fuel_of z) (le_n _) Hr4).
    2:{ pose proof (fuel_of_enough z (c :: t) (len (c :: t)) Hr ltac:(lia)) as Hfe. unfold len in Hfe at 1. rewrite Nat2Z.id in Hfe. cbn [length] in Hfe. lia. }
    destruct (esc_end (length t4) false t4) as [n b] eqn:Ee. cbn [rbind].
    destruct b; cbn [rbind]; [rewrite mv_mv; reflexivity|].
    (* back in script data after "-->" *)
    assert (Hn : 0 <= n <= len t4).
    { (* the cursor returned by the section loop is inside the input *)
      destruct (safe_inv _ _ (script_comment_spec no_tmpl (mv z 4) false has cfg_ok_no_tmpl (proj1 Hr4) (fuel_of z) ltac:(unfold fuel_of, lx_len; cbn [mv lbuf lpos]; lia))) as (rr & Err & Hadv).
      unfold script_comment_loop_body in Err. rewrite loop_with_no_tmpl in Err.
      rewrite (esc_run (length t4) t4 (mv z 4) false (fuel_of z) (le_n _) Hr4) in Err.
      2:{ pose proof (fuel_of_enough z (c :: t) (len (c :: t)) Hr ltac:(lia)) as Hfe. unfold len in Hfe at 1. rewrite Nat2Z.id in Hfe. cbn [length] in Hfe. lia. }
      rewrite Ee in Err. cbn [rbind] in Err. injection Err as <-. cbn [sum_adv fst] in Hadv. destruct Hadv as (_ & _ & A3).
      destruct Hr4 as [Hw4 Hrem4]. pose proof (len_rem _ Hw4) as L4. rewrite Hrem4 in L4. cbn [mv lpos] in A3. cbn [mv lpos] in L4.
      unfold lx_len in *. cbn [mv lbuf] in *. lia. }
    pose proof (reads_mv _ _ n Hr4 Hn) as Hr5. rewrite mv_mv in Hr5.
    assert (Hl5 : (length (skipz n t4) <= length t4)%nat) by apply length_skipz_lt.
    rewrite mv_mv. rewrite (IH (skipz n t4) (mv z (4 + n)) has f ltac:(lia) Hr5 ltac:(lia)). rewrite mv_mv. first [reflexivity|do 2 f_equal; lia].
Qed.


Lemma script_run : forall k s z has fuel, (length s <= k)%nat -> reads z s -> (length s < fuel)%nat ->
  loop fuel (rawtext_body no_tmpl html_hash_Script) (z, has) = Ok (mv z (script_end k s), has).
Proof. exact (raw_run html_hash_Script). Qed.

(* ---- the theorem ------------------------------------------------------------------------------------------------------ *)
Definition raw_len (raw : Z) (s : list Z) : Z := raw_end (length s) raw s.
Definition script_len (s : list Z) : Z := raw_len html_hash_Script s.

(* After the start tag of a raw-text element other than plaintext (no template delimiters) the content is returned as
   ONE Text token that ends exactly where the rules say: raw_len of the remaining input (for script: the double-escape
   rules).  (raw_len = 0: the content is empty and the call returns what follows.) *)
Lemma html_raw_end_proof : forall d l ty tk l', html_inv d l -> intag l = false -> rawtag l <> 0 ->
  rawtag l <> html_hash_Plaintext -> next no_tmpl l = Ok (ty, tk, l') ->
  let e := lpos (lz l) + raw_len (rawtag l) (skipz (lpos (lz l)) d) in
  lpos (lz l) <= e <= len d /\
  (lpos (lz l) < e ->
     ty = TextT /\ tk = Some (mkSl (lpos (lz l)) (e - lpos (lz l))) /\ ltext l' = tk /\
     rawtag l' = 0 /\ intag l' = false /\ lpos (lz l') = e).
Proof.
  intros d l ty tk l' Hi Hit Hraw Hnpl Hn e. pose proof Hi as (Hl & Hlen & _). pose proof Hl as [Hw _].
  pose proof (lwf_clean l Hl Hit) as Hcl.
  assert (Hr : reads (lz l) (skipz (lpos (lz l)) d)) by (split; [exact Hw|apply rem_inv; exact Hi]).
  set (s := skipz (lpos (lz l)) d) in *. set (raw := rawtag l) in *.
  assert (Hloop : loop (fuel_of (lz l)) (rawtext_body no_tmpl raw) (lz l, false) = Ok (mv (lz l) (raw_len raw s), false)).
  { apply raw_run; [apply le_n|exact Hr|].
    pose proof (fuel_of_enough (lz l) s (len s) Hr ltac:(lia)) as Hfe. unfold len in Hfe at 1. rewrite Nat2Z.id in Hfe. exact Hfe. }
  destruct (safe_inv _ _ (rawtext_loop_spec no_tmpl raw (lz l) false cfg_ok_no_tmpl Hw)) as (r & Er & Ha).
  rewrite Hloop in Er. injection Er as <-. cbn [fst] in Ha. destruct Ha as (_ & _ & A3). cbn [mv lpos] in A3. rewrite Hlen in A3.
  split; [unfold e; exact A3|]. intros Hlt.
  unfold next in Hn. cbn [lz rawtag intag lerr ltext lattr lhas] in Hn. rewrite Hit in Hn. fold raw in Hn.
  replace (negb (raw =? 0)) with true in Hn by (symmetry; apply negb_true_iff, Z.eqb_neq; exact Hraw). cbn [negb andb] in Hn.
  unfold shift_rawtext in Hn. replace (raw =? html_hash_Plaintext) with false in Hn by (symmetry; apply Z.eqb_neq; exact Hnpl).
  rewrite Hloop in Hn. cbn [rbind fst snd] in Hn.
  assert (Hw2 : lx_wf (mv (lz l) (raw_len raw s))).
  { destruct (rem_mv (lz l) (raw_len raw s) Hw) as [_ Hw2]; [rewrite len_rem by exact Hw; unfold e in *; lia|exact Hw2]. }
  rewrite shiftv_spec in Hn by exact Hw2. cbn [rbind fst snd sn mv lstart lpos] in Hn.
  replace (0 <? lpos (lz l) + raw_len raw s - lstart (lz l)) with true in Hn by (symmetry; apply Z.ltb_lt; unfold e in Hlt; lia).
  injection Hn as <- <- <-. cbn [ltext rawtag intag lz skip lpos mv]. rewrite Hcl. unfold e.
  replace (lpos (lz l) + raw_len raw s - lpos (lz l)) with (raw_len raw s) by lia. tauto.
Qed.

Lemma html_script_end_proof : forall d l ty tk l', html_inv d l -> intag l = false -> rawtag l = html_hash_Script ->
  next no_tmpl l = Ok (ty, tk, l') ->
  let e := lpos (lz l) + script_len (skipz (lpos (lz l)) d) in
  lpos (lz l) <= e <= len d /\
  (lpos (lz l) < e ->
     ty = TextT /\ tk = Some (mkSl (lpos (lz l)) (e - lpos (lz l))) /\ ltext l' = tk /\
     rawtag l' = 0 /\ intag l' = false /\ lpos (lz l') = e).
Proof.
  intros d l ty tk l' Hi Hit Hraw Hn. unfold script_len. rewrite <- Hraw.
  apply html_raw_end_proof; try assumption; rewrite Hraw; discriminate.
Qed.

(* non-vacuity: the content of <script><!--<script></script>--></script>x is "<!--<script></script>-->" (24 bytes), and of
   <script><!--a</script>b the content "<!--a" (5 bytes): "</script" ends it when no "<script" is open *)
Example script_len_examples :
  script_len [60;33;45;45;60;115;99;114;105;112;116;62;60;47;115;99;114;105;112;116;62;45;45;62;60;47;115;99;114;105;112;116;62;120] = 24 /\
  script_len [60;33;45;45;97;60;47;115;99;114;105;112;116;62;98] = 5 /\
  script_len [97;60;47;115;99;114;105;112;116;45;120;62;60;47;83;67;82;73;80;84;32;62] = 12.
Proof. repeat split; vm_compute; reflexivity. Qed.

(* the lexer on <script><!--<script></script>--></script>x : the Text token is the 24 bytes that script_len designates *)
Example script_double_escape_run :
  let d := [60;115;99;114;105;112;116;62; 60;33;45;45;60;115;99;114;105;112;116;62;60;47;115;99;114;105;112;116;62;45;45;62; 60;47;115;99;114;105;112;116;62;120] in
  script_len (skipz 8 d) = 24 /\
  exists tr, run no_tmpl 5 (new_lexer d) = Ok tr /\
    map (fun r => (fst (fst r), snd (fst r))) tr =
      [(StartTagT, Some (mkSl 0 7)); (StartTagCloseT, Some (mkSl 7 1)); (TextT, Some (mkSl 8 24)); (EndTagT, Some (mkSl 32 9)); (TextT, Some (mkSl 41 1))].
Proof. split; [vm_compute; reflexivity|]. eexists. split; vm_compute; reflexivity. Qed.
